import E3nnVerif.Model.Scalar
import E3nnVerif.Model.Rotation
/-
C18 — model of `e3nn/io/_spherical_tensor.py` (class `SphericalTensor`) as written.

Discrete part (exact): the constructor (`irreps = [(1,(l, p_val·p_arg^l)) for l in range(lmax+1)]`, with the
`Irrep(l,p)` check `p ∈ (-1,1)`), `dim`, `lmax`, the guard of `o3.spherical_harmonics(self, …)` (input parity
selection + the consistency check that raises `ValueError`, + `NotImplementedError` for `lmax > 11`), the resolution
completion of `ToS2Grid(lmax, res)`.

Scalar-generic part (`[Scalar K]`: `Float` in `drivers/C18.lean`, `ℝ` in `Props/C18.lean`), one batch element at
a time (batching / broadcasting is exercised by the harness):
  `signalXyz`     `einsum("bi,ai->ab", Y(normalize r), signal)`
  `norms`         per-irrep slices `signal[i : i+ir.dim].norm()`
  `sumOfDiracs`   `4π/(lmax+1)² · Σ_i v_i · Y(normalize r_i)`, zeros for an empty set
  `withPeaksAt`   filter `values ≠ 0`, Gram matrix `A = C Cᵀ` of `C = Y(normalize v_a)`, `lstsq(A, values)`,
                  the residual `assert`, `solution @ C`
  `signalOnGrid`  `(ToS2Grid.grid, ToS2Grid(signal))` — the grid is modelled (`s2_grid` + `angles_to_xyz`), the
                  transform itself is a parameter (it is property C11's)
`find_peaks` (scipy peak finder on two rotated grids) has NO model.

The spherical harmonics are NOT re-modelled (they are property C05's): every function takes
`Y : Vec3 K → List K` = `o3.spherical_harmonics(self, ·, normalize=False, normalization='integral')`; the
normalisation of the argument (`torch.nn.functional.normalize`, eps = 1e-12, zero vector forwarded) that
`normalize=True` adds is modelled here (`Rotation.normalize`).
`torch.linalg.lstsq` is a parameter `lstsq` as well; `gaussSolve` is an executable stand-in for square full-rank
systems, used by the driver.

Errors are outputs: `Except String α` with the python exception class name.
-/
namespace E3nnVerif.SphericalTensor
open E3nnVerif Scalar Rotation

/-! ### constructor (discrete) -/

/-- `(mul, l, p)`; `p` is kept as the python int it is -/
abbrev MulIr := Nat × Nat × Int

/-- `Irrep(l, p)`: `if p not in (-1, 1): raise ValueError` -/
def mkIrrep (l : Nat) (p : Int) : Except String MulIr :=
  if p = 1 ∨ p = -1 then .ok (1, l, p) else .error "ValueError"

/-- `SphericalTensor.__new__(cls, lmax, p_val, p_arg)`:
`Irreps([(1, (l, p_val * p_arg**l)) for l in range(lmax + 1)])`  (python ints; `range` of a non-positive number is empty) -/
def irreps (lmax : Int) (pVal pArg : Int) : Except String (List MulIr) :=
  (List.range (lmax + 1).toNat).mapM fun l => mkIrrep l (pVal * pArg ^ l)

/-- `Irreps.dim` -/
def dimOf : List MulIr → Nat
  | [] => 0
  | (mul, l, _) :: rest => mul * (2 * l + 1) + dimOf rest

/-- `max(self.ls)` (multiplicity-0 entries do not contribute to `ls`) -/
def maxL : List MulIr → Nat
  | [] => 0
  | (mul, l, _) :: rest => if mul = 0 then maxL rest else Nat.max l (maxL rest)

/-- `Irreps.lmax`: `ValueError` on the empty Irreps -/
def lmaxOf (irs : List MulIr) : Except String Nat :=
  if irs.isEmpty then .error "ValueError" else .ok (maxL irs)

/-! ### the guard of `o3.spherical_harmonics(self, x, normalize=True)` (`SphericalHarmonics.__init__`) -/

/-- `irreps_in`: `1e` if some odd `l` is asked with parity `+1`, else `1o`; returns `input_p` -/
def shInputParity (irs : List MulIr) : Int :=
  if irs.any (fun ir => ir.2.1 % 2 == 1 && ir.2.2 == 1) then 1 else -1

/-- `ls.extend([l] * mul)` -/
def lsOf : List MulIr → List Nat
  | [] => []
  | (mul, l, _) :: rest => List.replicate mul l ++ lsOf rest

/-- `for mul, (l, p) in irreps_out: if p != input_p**l: raise ValueError`, then `max(ls)` (ValueError when empty),
then `if lmax > 11: raise NotImplementedError` -/
def shGuard (irs : List MulIr) : Except String Unit :=
  let ip := shInputParity irs
  if irs.all (fun ir => ir.2.2 == ip ^ ir.2.1) then
    match (lsOf irs).max? with
    | none => .error "ValueError"
    | some m => if m > 11 then .error "NotImplementedError" else .ok ()
  else .error "ValueError"

/-! ### list algebra -/

variable {K : Type} [Scalar K]

def dot : List K → List K → K
  | a :: as, b :: bs => a * b + dot as bs
  | _, _ => Scalar.zero

def vadd (a b : List K) : List K := List.zipWith (· + ·) a b
def vsub (a b : List K) : List K := List.zipWith (· - ·) a b
def smul (s : K) (a : List K) : List K := a.map (s * ·)
def zeros (n : Nat) : List K := List.replicate n Scalar.zero

/-- `Σ` of a list of vectors of length `n` -/
def vsum (n : Nat) : List (List K) → List K
  | [] => zeros n
  | v :: vs => vadd v (vsum n vs)

/-- `A @ x` -/
def matVec (A : List (List K)) (x : List K) : List K := A.map fun row => dot row x
/-- `x @ C = Σ_b x_b C_b` (rows of length `n`) -/
def vecMat (n : Nat) (x : List K) (C : List (List K)) : List K := vsum n (List.zipWith smul x C)
/-- `einsum("ai,bi->ab", C, C)` -/
def gram (C : List (List K)) : List (List K) := C.map fun a => C.map fun b => dot a b

/-- `x.abs().max()` (for a non-empty list; `0` for the empty one, where torch raises) -/
def maxAbs : List K → K
  | [] => Scalar.zero
  | x :: xs => Scalar.max (Scalar.abs x) (maxAbs xs)

/-- `v != 0` -/
def isNonzero (v : K) : Bool := Scalar.lt v Scalar.zero || Scalar.lt Scalar.zero v

/-! ### `signal_xyz` -/

/-- the value: `Σ_i Y_i(normalize r) · signal_i` -/
def signalXyzVal (Y : Vec3 K → List K) (signal : List K) (r : Vec3 K) : K :=
  dot (Y (normalize r)) signal

/-- `signal_xyz(signal, r)` for one coefficient vector and one point.
`sh = o3.spherical_harmonics(self, r, normalize=True)` (guard), `dim = (self.lmax + 1) ** 2`,
`signal.reshape(-1, dim)` (a vector of another length cannot be reshaped to one row: RuntimeError). -/
def signalXyz (Y : Vec3 K → List K) (irs : List MulIr) (signal : List K) (r : Vec3 K) : Except String K := do
  shGuard irs
  let lmax ← lmaxOf irs
  if signal.length = (lmax + 1) ^ 2 then pure (signalXyzVal Y signal r) else .error "RuntimeError"

/-! ### `norms` -/

/-- `i = 0; for _, ir in self: norms += [signal[i : i + ir.dim].norm()]; i += ir.dim`
(python slices past the end are truncated; the multiplicity is ignored exactly as in the code) -/
def norms : List MulIr → List K → List K
  | [], _ => []
  | (_, l, _) :: rest, s =>
    let blk := s.take (2 * l + 1)
    Scalar.sqrt (dot blk blk) :: norms rest (s.drop (2 * l + 1))

/-! ### `sum_of_diracs` -/

/-- `4 * pi / (self.lmax + 1) ** 2` -/
def diracFactor (lmax : Nat) : K := Scalar.ofNat 4 * Scalar.pi / Scalar.ofNat ((lmax + 1) ^ 2)

/-- `(y * v).sum(-2)` with `y = Y(normalize positions)` -/
def diracSum (Y : Vec3 K → List K) (n : Nat) (positions : List (Vec3 K)) (values : List K) : List K :=
  vsum n (List.zipWith (fun p v => (Y (normalize p)).map (· * v)) positions values)

/-- `sum_of_diracs(positions, values)`; `positions`/`values` already broadcast against each other (same length).
The empty set returns zeros BEFORE the harmonics are built (so it never raises). -/
def sumOfDiracs (Y : Vec3 K → List K) (irs : List MulIr) (positions : List (Vec3 K)) (values : List K) :
    Except String (List K) :=
  if positions.isEmpty then .ok (zeros (dimOf irs))
  else do
    shGuard irs
    let lmax ← lmaxOf irs
    pure (smul (diracFactor lmax) (diracSum Y (dimOf irs) positions values))

/-! ### `with_peaks_at` -/

/-- `vectors[values != 0], values[values != 0]` -/
def keptPairs (vectors : List (Vec3 K)) (values : List K) : List (Vec3 K × K) :=
  (vectors.zip values).filter fun p => isNonzero p.2

/-- the relative tolerance of the residual assert -/
def residualTol : K := Scalar.ofFrac 1 100000

/-- everything after `coeff = o3.spherical_harmonics(...)`:
```
A = einsum("ai,bi->ab", coeff, coeff)
solution = torch.linalg.lstsq(A, values).solution.reshape(-1)
assert (values - A @ solution).abs().max() < 1e-5 * values.abs().max()     # .max() of an empty tensor: RuntimeError
return solution @ coeff
``` -/
def withPeaksAtCore (lstsq : List (List K) → List K → List K) (n : Nat) (coeff : List (List K)) (values : List K) :
    Except String (List K) :=
  let A := gram coeff
  let solution := lstsq A values
  if values.isEmpty then .error "RuntimeError"
  else if Scalar.lt (maxAbs (vsub values (matVec A solution))) (residualTol * maxAbs values) then
    .ok (vecMat n solution coeff)
  else .error "AssertionError"

/-- `self[0][1].p` (IndexError on the empty Irreps) -/
def firstParity : List MulIr → Except String Int
  | [] => .error "IndexError"
  | (_, _, p) :: _ => .ok p

/-- `with_peaks_at(vectors, values=None)`; `vectors : (N,3)`, `values : (N)` or `None` (then the radii). -/
def withPeaksAt (Y : Vec3 K → List K) (lstsq : List (List K) → List K → List K) (irs : List MulIr)
    (vectors : List (Vec3 K)) (values : Option (List K)) : Except String (List K) :=
  if vectors.isEmpty then .ok (zeros (dimOf irs))
  else do
    let p ← firstParity irs
    if p ≠ 1 then .error "AssertionError"
    else
      let vals := values.getD (vectors.map Vec3.norm)
      let kept := keptPairs vectors vals
      shGuard irs
      let coeff := kept.map fun q => Y (normalize q.1)
      withPeaksAtCore lstsq (dimOf irs) coeff (kept.map (·.2))

/-! ### an executable linear solver (stand-in for `lstsq` on square full-rank systems) -/

/-- pick the row with the largest `|first coefficient|`; returns (pivot row, the other rows) -/
def pickPivot : List (List K × K) → Option ((List K × K) × List (List K × K))
  | [] => none
  | r :: rs =>
    match pickPivot rs with
    | none => some (r, [])
    | some (best, others) =>
      if Scalar.lt (Scalar.abs (best.1.headD Scalar.zero)) (Scalar.abs (r.1.headD Scalar.zero))
      then some (r, best :: others) else some (best, r :: others)

/-- Gaussian elimination with partial pivoting on `rows = (coefficients, rhs)`, `n` unknowns -/
def gaussSolveAux : Nat → List (List K × K) → Option (List K)
  | 0, _ => some []
  | n + 1, rows =>
    match pickPivot rows with
    | none => none
    | some (piv, others) =>
      let p := piv.1.headD Scalar.zero
      if isNonzero p then
        let ptail := piv.1.tail
        let reduced := others.map fun r =>
          let m := r.1.headD Scalar.zero / p
          (vsub r.1.tail (smul m ptail), r.2 - m * piv.2)
        match gaussSolveAux n reduced with
        | none => none
        | some xs => some ((piv.2 - dot ptail xs) / p :: xs)
      else none

/-- solves `A x = b` for square `A`; `none` on a zero pivot; when it fails returns zeros like a rank-deficient
`lstsq` would return *something* — the residual assert of the caller decides -/
def gaussSolve (A : List (List K)) (b : List K) : List K :=
  (gaussSolveAux b.length (A.zip b)).getD (zeros b.length)

/-! ### `signal_on_grid` -/

/-- `_complete_lmax_res(lmax, res, None)`: `res_beta = res`, `res_alpha = max(2 lmax + 1, res - 1)`,
`assert res_beta % 2 == 0`, `assert lmax + 1 <= res_beta // 2` -/
def completeRes (lmax res : Nat) : Except String (Nat × Nat) :=
  let resBeta := res
  let resAlpha := Nat.max (2 * lmax + 1) (res - 1)
  if resBeta % 2 ≠ 0 then .error "AssertionError"
  else if ¬ (lmax + 1 ≤ resBeta / 2) then .error "AssertionError"
  else .ok (resBeta, resAlpha)

/-- `s2_grid`: `betas = (i + 0.5) / res_beta * pi` -/
def s2Betas (resBeta : Nat) : List K :=
  (List.range resBeta).map fun i => (Scalar.ofNat i + Scalar.ofFrac 1 2) / Scalar.ofNat resBeta * Scalar.pi
/-- `s2_grid`: `alphas = i / res_alpha * 2 * pi` -/
def s2Alphas (resAlpha : Nat) : List K :=
  (List.range resAlpha).map fun i => Scalar.ofNat i / Scalar.ofNat resAlpha * Scalar.ofNat 2 * Scalar.pi

/-- `ToS2Grid.grid`: `o3.angles_to_xyz(alpha, beta)` on `meshgrid(betas, alphas, indexing="ij")` -/
def s2GridPoints (resBeta resAlpha : Nat) : List (List (Vec3 K)) :=
  (s2Betas resBeta).map fun b => (s2Alphas resAlpha).map fun a => angles_to_xyz a b

/-- `signal_on_grid(signal, res)` = `(s2.grid, s2(signal))` with `s2 = ToS2Grid(lmax=self.lmax, res=res,
normalization='integral')`; `toGrid resBeta resAlpha signal` is that transform (property C11). -/
def signalOnGrid (toGrid : Nat → Nat → List K → List (List K)) (irs : List MulIr) (signal : List K) (res : Nat) :
    Except String (List (List (Vec3 K)) × List (List K)) := do
  let lmax ← lmaxOf irs
  let (rb, ra) ← completeRes lmax res
  pure (s2GridPoints rb ra, toGrid rb ra signal)

end E3nnVerif.SphericalTensor
