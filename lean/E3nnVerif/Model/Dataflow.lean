/-
Typed dataflow IR for the glue code of the point-cloud models in e3nn/nn/models (property C15).

Core Lean only (no Mathlib).  This file contains
  * the IR (`Instr`, a program is a `List Instr` in SSA form: instruction number k defines variable k),
  * the types (`Ty`: shape class, declared irreps, translation class, batch-locality),
  * the typing judgement as a decidable checker (`Instr.type`, `checkFrom`, `check`),
  * an exact model of the radius graph (`radiusGraph`) on integer lattice points, as written in
    gate_points_2101.py:26-31 / v2106/gate_points_networks.py:21-26 and as the harness shim implements
    torch_cluster.radius_graph.

What each glue op stands for in the Python sources
  input          a tensor handed to `forward` (pos, x, z, node_attr, edge_attr, ...) or a constant (`new_ones`)
  gatherSrc/Dst  `t[edge_src]`, `t[edge_dst]`                              (2101:323, 2101:123, 2102:352)
  sub            `pos[edge_src] - pos[edge_dst]`                           (2101:323)
  add            `a + b` of two features with the same irreps              (2101:130, v2106/points_convolution:112)
  scatterDst     `scatter(edge_features, edge_dst, dim_size=n_nodes)`      (2101:124)
  scatterBatch   `scatter(x, batch, dim_size=n_graphs)`                    (2101:352)
  reduceAll      a reduction over ALL nodes of the batch (no model of this property uses it; present so that the
                 batch-locality component of the types is not vacuous — e.g. a batch statistic)
  bcast          broadcasting of a global value to nodes/edges/graphs
  cat            `torch.cat([a, b], dim=1)`                                (2102:352, v2103/gate_points_networks:150)
  mul            `s * x` with `s` of shape [., 1] (one invariant scalar per row)  (2101:331, v2103/points_convolution:93)
  scale          multiplication/division by a Python float                 (2101:124 `.div(num_neighbors**0.5)`)
  mapInv         ANY function of invariant scalars: radial embedding, smooth_cutoff, FullyConnectedNet,
                 cos/sin of the mixing angle (no equivariance hypothesis is needed for it)
  prim           a declared-equivariant primitive with declared irreps in/out: tensor products, Linear, Gate,
                 spherical harmonics, norm, ExtractIr, multiplication by an `output_mask` that is constant on
                 irrep blocks
-/
import E3nnVerif.Model.Irreps

namespace E3nnVerif.Dataflow

open E3nnVerif.Model.Irreps (Irreps Irrep MulIr Parity)

/-- shape class of a value: one row per node / per edge / per graph, or a single global row -/
inductive Shape
  | node | edge | graph | glob
  deriving DecidableEq, Repr, Inhabited

/-- translation class: invariant under translations, a position (x ↦ R x + t), or a difference of positions -/
inductive TClass
  | inv | pos | diff
  deriving DecidableEq, Repr, Inhabited

/-- the irreps of a polar vector: `1x1o` -/
def vecRep : Irreps := [(1, ⟨1, .odd⟩)]

/-- `n x 0e` -/
def scalars (n : Nat) : Irreps := [(n, ⟨0, .even⟩)]

/-- every entry is `0e`: the value is a row of invariant scalars -/
def isScalars (ρ : Irreps) : Bool := ρ.all (fun e => e.2.isScalar)

structure Ty where
  shape : Shape
  irreps : Irreps
  tc : TClass
  /-- batch-local: the row of a node/edge/graph depends only on the data of its own graph -/
  loc : Bool
  deriving DecidableEq, Repr, Inhabited

abbrev Var := Nat

inductive Instr
  | input (id : Nat) (τ : Ty)
  | gatherSrc (x : Var)
  | gatherDst (x : Var)
  | sub (x y : Var)
  | add (x y : Var)
  | scatterDst (x : Var)
  | scatterBatch (x : Var)
  | reduceAll (x : Var)
  | bcast (s : Shape) (x : Var)
  | cat (d₁ : Nat) (x y : Var)
  | mul (s x : Var)
  | scale (c : String) (x : Var)
  | mapInv (name : String) (outDim : Nat) (args : List Var)
  | prim (name : String) (ins : List Irreps) (out : Irreps) (args : List Var)
  deriving DecidableEq, Repr, Inhabited

abbrev Prog := List Instr

/-! ## the typing judgement -/

/-- a declared input is well-formed: positions and position differences carry `1x1o`; inputs are batch-local -/
def inputOk (τ : Ty) : Bool :=
  τ.loc && (τ.tc == .inv || τ.irreps == vecRep)

/-- arguments of a pointwise call: same shape `s`, not positions, irreps as declared; returns the conjunction
of the locality flags -/
def checkArgs (tys : List Ty) (s : Shape) : List Var → List Irreps → Option Bool
  | [], [] => some true
  | a :: as, ρ :: ρs =>
    match tys[a]? with
    | none => none
    | some τ =>
      if τ.shape = s ∧ τ.tc ≠ .pos ∧ τ.irreps = ρ then
        match checkArgs tys s as ρs with
        | some l => some (τ.loc && l)
        | none => none
      else none
  | _, _ => none

/-- arguments of a function of invariants: same shape `s`, not positions, all irreps `0e` -/
def checkInvArgs (tys : List Ty) (s : Shape) : List Var → Option Bool
  | [] => some true
  | a :: as =>
    match tys[a]? with
    | none => none
    | some τ =>
      if τ.shape = s ∧ τ.tc ≠ .pos ∧ isScalars τ.irreps = true then
        match checkInvArgs tys s as with
        | some l => some (τ.loc && l)
        | none => none
      else none

/-- shape of the first argument of a pointwise call -/
def firstShape (tys : List Ty) : List Var → Option Shape
  | [] => none
  | a :: _ => (tys[a]?).map (·.shape)

/-- the type of the variable defined by an instruction, given the types of the earlier variables -/
def Instr.type (tys : List Ty) : Instr → Option Ty
  | .input _ τ => if inputOk τ then some τ else none
  | .gatherSrc x | .gatherDst x =>
    match tys[x]? with
    | some τ => if τ.shape = .node then some { τ with shape := .edge } else none
    | none => none
  | .sub x y =>
    match tys[x]?, tys[y]? with
    | some τx, some τy =>
      if τx.shape = τy.shape ∧ τx.tc = .pos ∧ τy.tc = .pos then
        some ⟨τx.shape, vecRep, .diff, τx.loc && τy.loc⟩
      else if τx.shape = τy.shape ∧ τx.tc ≠ .pos ∧ τy.tc ≠ .pos ∧ τx.irreps = τy.irreps then
        some ⟨τx.shape, τx.irreps, .inv, τx.loc && τy.loc⟩
      else none
    | _, _ => none
  | .add x y =>
    match tys[x]?, tys[y]? with
    | some τx, some τy =>
      if τx.shape = τy.shape ∧ τx.tc ≠ .pos ∧ τy.tc ≠ .pos ∧ τx.irreps = τy.irreps then
        some ⟨τx.shape, τx.irreps, .inv, τx.loc && τy.loc⟩
      else none
    | _, _ => none
  | .scatterDst x =>
    match tys[x]? with
    | some τ => if τ.shape = .edge ∧ τ.tc ≠ .pos then some ⟨.node, τ.irreps, .inv, τ.loc⟩ else none
    | none => none
  | .scatterBatch x =>
    match tys[x]? with
    | some τ => if τ.shape = .node ∧ τ.tc ≠ .pos then some ⟨.graph, τ.irreps, .inv, τ.loc⟩ else none
    | none => none
  | .reduceAll x =>
    match tys[x]? with
    | some τ => if τ.shape = .node ∧ τ.tc ≠ .pos then some ⟨.glob, τ.irreps, .inv, false⟩ else none
    | none => none
  | .bcast s x =>
    match tys[x]? with
    | some τ => if τ.shape = .glob then some { τ with shape := s } else none
    | none => none
  | .cat d₁ x y =>
    match tys[x]?, tys[y]? with
    | some τx, some τy =>
      if τx.shape = τy.shape ∧ τx.tc ≠ .pos ∧ τy.tc ≠ .pos ∧ E3nnVerif.Model.Irreps.dim τx.irreps = d₁ then
        some ⟨τx.shape, τx.irreps ++ τy.irreps, .inv, τx.loc && τy.loc⟩
      else none
    | _, _ => none
  | .mul s x =>
    match tys[s]?, tys[x]? with
    | some τs, some τx =>
      if τs.shape = τx.shape ∧ τs.tc ≠ .pos ∧ τx.tc ≠ .pos ∧ isScalars τs.irreps = true then
        some ⟨τx.shape, τx.irreps, .inv, τs.loc && τx.loc⟩
      else none
    | _, _ => none
  | .scale _ x =>
    match tys[x]? with
    | some τ => if τ.tc ≠ .pos then some { τ with tc := .inv } else none
    | none => none
  | .mapInv _ n args =>
    match firstShape tys args with
    | some s =>
      match checkInvArgs tys s args with
      | some l => some ⟨s, scalars n, .inv, l⟩
      | none => none
    | none => none
  | .prim _ ins out args =>
    match firstShape tys args with
    | some s =>
      match checkArgs tys s args ins with
      | some l => some ⟨s, out, .inv, l⟩
      | none => none
    | none => none

/-- type-check a program suffix, given the types of the variables defined so far -/
def checkFrom (tys : List Ty) : Prog → Option (List Ty)
  | [] => some tys
  | i :: is =>
    match i.type tys with
    | some τ => checkFrom (tys ++ [τ]) is
    | none => none

/-- the typing judgement: `check p = some tys` gives the type of every variable -/
def check (p : Prog) : Option (List Ty) := checkFrom [] p

/-- index and reason of the first ill-typed instruction (for the driver's diagnostics) -/
def firstError (tys : List Ty) : Prog → Option (Nat × Instr)
  | [] => none
  | i :: is =>
    match i.type tys with
    | some τ => firstError (tys ++ [τ]) is
    | none => some (tys.length, i)

/-! ## exact radius graph on integer points

`radius_graph(pos, r_max, batch)` keeps the ordered pairs `(i, j)` with `i ≠ j`, `batch i = batch j` and
`|pos i − pos j| < r_max`.  Points have integer coordinates, the cutoff is given through its square as the
rational `r2num / r2den`, so the comparison `|d|² < r_max²` is exact. -/

abbrev Pt := Int × Int × Int

def dist2 (p q : Pt) : Int :=
  (p.1 - q.1) * (p.1 - q.1) + (p.2.1 - q.2.1) * (p.2.1 - q.2.1) + (p.2.2 - q.2.2) * (p.2.2 - q.2.2)

/-- `within p q` ⇔ `|p − q|² < r2num / r2den` -/
def within (r2num r2den : Nat) (p q : Pt) : Bool := dist2 p q * (r2den : Int) < (r2num : Int)

/-- the shim / torch_cluster convention: self pairs are removed by index -/
def radiusGraph (pts : List (Pt × Nat)) (r2num r2den : Nat) : List (Nat × Nat) :=
  let ipts := pts.zipIdx
  ipts.flatMap fun (a, i) =>
    ipts.filterMap fun (b, j) =>
      if i ≠ j ∧ a.2 = b.2 ∧ within r2num r2den a.1 b.1 then some (i, j) else none

/-- the models' own convention (gate_points_2101.py:29): self pairs are removed by `r > 0`, which also removes
pairs of distinct coincident points -/
def radiusGraphPosDist (pts : List (Pt × Nat)) (r2num r2den : Nat) : List (Nat × Nat) :=
  let ipts := pts.zipIdx
  ipts.flatMap fun (a, i) =>
    ipts.filterMap fun (b, j) =>
      if 0 < dist2 a.1 b.1 ∧ a.2 = b.2 ∧ within r2num r2den a.1 b.1 then some (i, j) else none

end E3nnVerif.Dataflow
