import E3nnVerif.IR.Tensor
import E3nnVerif.Model.Wigner
/-
The SPECIFICATION of `e3nn.o3.TensorProduct` as an IR program, written from the documentation
(instruction list → Clebsch–Gordan contraction per path, combined over multiplicities as the connection mode
prescribes, times the documented normalisation coefficient, summed into the selected output block, weights
consumed in instruction order).  It uses the exact Wigner model for the Clebsch–Gordan tensors, its own reading
of the normalisation formula and its own offset arithmetic — it shares nothing with e3nn's code generator.

The generated FX program of a configuration is certified against `specProg cfg` by equality of coefficient
polynomials (Cert/TP/*.lean), for a concrete batch of size `B` (so that batch mixing is visible).
-/
namespace E3nnVerif.Model.TP
open E3nnVerif.Exact E3nnVerif.IR E3nnVerif.Model.Wigner

/-- connection modes in the order `uvw uvu uvv uuw uuu uvuv uvu<v u<vw` -/
inductive Mode | uvw | uvu | uvv | uuw | uuu | uvuv | uvuLTv | uLTvw
deriving DecidableEq, Repr, Inhabited

structure Ins where
  i1 : Nat
  i2 : Nat
  io : Nat
  mode : Mode
  hasW : Bool
  /-- user path weight -/
  pw : Q
deriving Repr, Inhabited

structure Cfg where
  /-- (mul, l) per entry -/
  in1 : List (Nat × Nat)
  in2 : List (Nat × Nat)
  out : List (Nat × Nat)
  ins : List Ins
  /-- 0 component, 1 norm, 2 none -/
  irrepNorm : Nat
  /-- 0 element, 1 path, 2 none -/
  pathNorm : Nat
  in1Var : List Q
  in2Var : List Q
  outVar : List Q
  shared : Bool
  /-- concrete batch size of the certified instance -/
  B : Nat
  /-- parities of the entries (true = odd); only used by the inversion check -/
  par1 : List Bool := []
  par2 : List Bool := []
  parO : List Bool := []
deriving Repr, Inhabited

def dimOf (e : Nat × Nat) : Nat := e.1 * (2 * e.2 + 1)
def totalDim (irr : List (Nat × Nat)) : Nat := (irr.map dimOf).foldl (· + ·) 0
def offsetOf (irr : List (Nat × Nat)) (i : Nat) : Nat := totalDim (irr.take i)

def mul1 (c : Cfg) (p : Ins) : Nat := (c.in1.getD p.i1 (0, 0)).1
def mul2 (c : Cfg) (p : Ins) : Nat := (c.in2.getD p.i2 (0, 0)).1
def mulO (c : Cfg) (p : Ins) : Nat := (c.out.getD p.io (0, 0)).1
def l1 (c : Cfg) (p : Ins) : Nat := (c.in1.getD p.i1 (0, 0)).2
def l2 (c : Cfg) (p : Ins) : Nat := (c.in2.getD p.i2 (0, 0)).2
def lO (c : Cfg) (p : Ins) : Nat := (c.out.getD p.io (0, 0)).2

/-- `path_shape` -/
def pathShape (c : Cfg) (p : Ins) : List Nat :=
  match p.mode with
  | .uvw => [mul1 c p, mul2 c p, mulO c p]
  | .uvu => [mul1 c p, mul2 c p]
  | .uvv => [mul1 c p, mul2 c p]
  | .uuw => [mul1 c p, mulO c p]
  | .uuu => [mul1 c p]
  | .uvuv => [mul1 c p, mul2 c p]
  | .uvuLTv => [mul1 c p * (mul2 c p - 1) / 2]
  | .uLTvw => [mul1 c p * (mul2 c p - 1) / 2, mulO c p]

def prodL (l : List Nat) : Nat := l.foldl (· * ·) 1
def pathSize (c : Cfg) (p : Ins) : Nat := prodL (pathShape c p)

/-- number of scalar weights the module reads -/
def weightNumel (c : Cfg) : Nat :=
  (c.ins.map fun p => if p.hasW then pathSize c p else 0).foldl (· + ·) 0

/-- offset of instruction `k`'s weights: only *weighted* instructions before it count -/
def weightOffset (c : Cfg) (k : Nat) : Nat :=
  ((c.ins.take k).map fun p => if p.hasW then pathSize c p else 0).foldl (· + ·) 0

/-- `num_elements` of the normalisation formula -/
def numElements (c : Cfg) (p : Ins) : Nat :=
  match p.mode with
  | .uvw => mul1 c p * mul2 c p
  | .uvu => mul2 c p
  | .uvv => mul1 c p
  | .uuw => mul1 c p
  | .uuu => 1
  | .uvuv => 1
  | .uvuLTv => 1
  | .uLTvw => mul1 c p * (mul2 c p - 1) / 2

def qsum (l : List Q) : Q := l.foldl Q.add Q.zero

/-- `alpha` of the documented normalisation (the path coefficient is `√alpha`) -/
def alpha (c : Cfg) (p : Ins) : Q :=
  let a0 : Q := match c.irrepNorm with
    | 0 => Q.ofNat (2 * lO c p + 1)
    | 1 => Q.ofNat ((2 * l1 c p + 1) * (2 * l2 c p + 1))
    | _ => Q.one
  let v (q : Ins) : Q := Q.mul (Q.mul (c.in1Var.getD q.i1 Q.one) (c.in2Var.getD q.i2 Q.one)) (Q.ofNat (numElements c q))
  let same := c.ins.filter fun q => q.io == p.io
  let x : Q := match c.pathNorm with
    | 0 => qsum (same.map v)
    | 1 => Q.mul (v p) (Q.ofNat same.length)
    | _ => Q.one
  let a1 := if Q.lt Q.zero x then Q.div a0 x else a0
  Q.mul (Q.mul a1 (c.outVar.getD p.io Q.one)) p.pw

/-- `√q` for a non-negative rational as an exact `SqrtQ` -/
def sqrtQ (q : Q) : SqrtQ :=
  if q.n ≤ 0 then [] else sqrtRat 64 Q.one q.n.toNat q.den

def coef (c : Cfg) (p : Ins) : SqrtQ := sqrtQ (alpha c p)

/-- strict upper-triangular pairs `(u,v)`, `u < v`, in `torch.triu_indices(n, n, 1)` order -/
def triuPairs (n : Nat) : List (Nat × Nat) :=
  (List.range n).flatMap fun u => ((List.range n).filter fun v => u < v).map fun v => (u, v)

/-- einsum node from symbolic labels: `outL` output labels, `ops` operands with their labels, `size` of a label -/
def mkEinsum (size : Nat → Nat) (outL : List Nat) (ops : List (Nat × List Nat)) : Node :=
  let others := (ops.flatMap fun o => o.2).foldl (fun acc l => if acc.contains l || outL.contains l then acc else acc ++ [l]) []
  let all := outL ++ others
  let newId (l : Nat) : Nat := (all.findIdx? (· == l)).getD 0
  Node.einsum (all.map size) outL.length (ops.map fun o => (o.1, o.2.map newId))

/-- flattened exact Clebsch–Gordan table -/
def w3jFlat (a b c : Nat) : List SqrtQ :=
  let t := w3j a b c
  (List.range (2 * a + 1)).flatMap fun i => (List.range (2 * b + 1)).flatMap fun j =>
    (List.range (2 * c + 1)).map fun k => t.get i j k

/- symbolic labels -/
def Lz := 0
def Lu := 1
def Lv := 2
def Lw := 3
def Li := 4
def Lj := 5
def Lk := 6
def Lq := 7

structure Build where
  nodes : List Node
  /-- (output block index, node holding that path's contribution of shape (B, mulO·dimO)) -/
  contribs : List (Nat × Nat)

def Build.push (b : Build) (n : Node) : Build × Nat := ({ b with nodes := b.nodes ++ [n] }, b.nodes.length)

/-- the IR program of the specification; node 0,1,2 are the inputs `x1 (B×d1)`, `x2 (B×d2)`, `w (Bw×nw)` -/
def specProg (c : Cfg) : List Node :=
  let B := c.B
  let d1 := totalDim c.in1
  let d2 := totalDim c.in2
  let dO := totalDim c.out
  let nw := weightNumel c
  let Bw := if c.shared then 1 else B
  let b0 : Build := ⟨[Node.input 0 (B * d1), Node.input (B * d1) (B * d2), Node.input (B * d1 + B * d2) (Bw * nw)], []⟩
  let step (acc : Build × Nat) (p : Ins) : Build × Nat :=
    let b := acc.1
    let k := acc.2
    let m1 := mul1 c p; let m2 := mul2 c p; let mo := mulO c p
    let a := l1 c p; let bb := l2 c p; let cc := lO c p
    let n1 := 2 * a + 1; let n2 := 2 * bb + 1; let n3 := 2 * cc + 1
    if m1 * n1 == 0 || m2 * n2 == 0 || mo * n3 == 0 || pathSize c p == 0 then (b, k + 1) else
    let o1 := offsetOf c.in1 p.i1
    let o2 := offsetOf c.in2 p.i2
    -- x1 block (B, m1, n1), x2 block (B, m2, n2)
    let (b, x1n) := b.push (Node.gather [0] ((List.range (B * m1 * n1)).map fun t => (0, (t / (m1 * n1)) * d1 + o1 + t % (m1 * n1))))
    let (b, x2n) := b.push (Node.gather [1] ((List.range (B * m2 * n2)).map fun t => (0, (t / (m2 * n2)) * d2 + o2 + t % (m2 * n2))))
    -- weights of this path, expanded to batch B: (B, pathSize)
    let ps := pathSize c p
    let wo := weightOffset c k
    let (b, wn) := b.push (Node.gather [2] ((List.range (B * ps)).map fun t => (0, (if c.shared then 0 else t / ps) * nw + wo + t % ps)))
    let (b, cn) := b.push (Node.const (w3jFlat a bb cc))
    let nq := m1 * (m2 - 1) / 2
    let size (l : Nat) : Nat :=
      if l == Lz then B else if l == Lu then m1 else if l == Lv then m2 else if l == Lw then mo
      else if l == Li then n1 else if l == Lj then n2 else if l == Lk then n3 else nq
    -- pair-gathered inputs for the `u<v` modes: (B, nq, n)
    let pairs := triuPairs m1
    let (b, x1p) := b.push (Node.gather [x1n] ((List.range (B * nq * n1)).map fun t =>
        (0, (t / (nq * n1)) * (m1 * n1) + ((pairs.getD ((t / n1) % nq) (0, 0)).1) * n1 + t % n1)))
    let (b, x2p) := b.push (Node.gather [x2n] ((List.range (B * nq * n2)).map fun t =>
        (0, (t / (nq * n2)) * (m2 * n2) + ((pairs.getD ((t / n2) % nq) (0, 0)).2) * n2 + t % n2)))
    let cg := (cn, [Li, Lj, Lk])
    let X1 := (x1n, [Lz, Lu, Li])
    let e : Node :=
      match p.mode, p.hasW with
      | .uvw, _ => mkEinsum size [Lz, Lw, Lk] [(wn, [Lz, Lu, Lv, Lw]), cg, X1, (x2n, [Lz, Lv, Lj])]
      | .uvu, true => mkEinsum size [Lz, Lu, Lk] [(wn, [Lz, Lu, Lv]), cg, X1, (x2n, [Lz, Lv, Lj])]
      | .uvu, false => mkEinsum size [Lz, Lu, Lk] [cg, X1, (x2n, [Lz, Lv, Lj])]
      | .uvv, true => mkEinsum size [Lz, Lv, Lk] [(wn, [Lz, Lu, Lv]), cg, X1, (x2n, [Lz, Lv, Lj])]
      | .uvv, false => mkEinsum size [Lz, Lv, Lk] [cg, X1, (x2n, [Lz, Lv, Lj])]
      | .uuw, true => mkEinsum size [Lz, Lw, Lk] [(wn, [Lz, Lu, Lw]), cg, X1, (x2n, [Lz, Lu, Lj])]
      | .uuw, false => mkEinsum size [Lz, Lk] [cg, X1, (x2n, [Lz, Lu, Lj])]
      | .uuu, true => mkEinsum size [Lz, Lu, Lk] [(wn, [Lz, Lu]), cg, X1, (x2n, [Lz, Lu, Lj])]
      | .uuu, false => mkEinsum size [Lz, Lu, Lk] [cg, X1, (x2n, [Lz, Lu, Lj])]
      | .uvuv, true => mkEinsum size [Lz, Lu, Lv, Lk] [(wn, [Lz, Lu, Lv]), cg, X1, (x2n, [Lz, Lv, Lj])]
      | .uvuv, false => mkEinsum size [Lz, Lu, Lv, Lk] [cg, X1, (x2n, [Lz, Lv, Lj])]
      | .uvuLTv, true => mkEinsum size [Lz, Lq, Lk] [(wn, [Lz, Lq]), cg, (x1p, [Lz, Lq, Li]), (x2p, [Lz, Lq, Lj])]
      | .uvuLTv, false => mkEinsum size [Lz, Lq, Lk] [cg, (x1p, [Lz, Lq, Li]), (x2p, [Lz, Lq, Lj])]
      | .uLTvw, _ => mkEinsum size [Lz, Lw, Lk] [(wn, [Lz, Lq, Lw]), cg, (x1p, [Lz, Lq, Li]), (x2p, [Lz, Lq, Lj])]
    let (b, en) := b.push e
    let (b, sn) := b.push (Node.scale (coef c p) en)
    ({ b with contribs := b.contribs ++ [(p.io, sn)] }, k + 1)
  let built := (c.ins.foldl step (b0, 0)).1
  -- per output block: zeros + Σ contributions  (shape (B, mul·dim))
  let blockStep (acc : Build × List Nat) (io : Nat) : Build × List Nat :=
    let b := acc.1
    let e := c.out.getD io (0, 0)
    let len := B * dimOf e
    let (b, z) := b.push (Node.const (List.replicate len []))
    let res := (b.contribs.filter fun cn => cn.1 == io).foldl (fun (st : Build × Nat) cn =>
        let (b', s) := st.1.push (Node.add st.2 cn.2); (b', s)) (b, z)
    (res.1, acc.2 ++ [res.2])
  let blocks := (List.range c.out.length).foldl blockStep (built, [])
  let b := blocks.1
  let blockNodes := blocks.2
  -- output (B, dO): out[z, off_io + t] = block_io[z, t]
  let idx : List (Nat × Nat) := (List.range (B * dO)).map fun t =>
    let z := t / dO
    let r := t % dO
    -- find the block containing r
    let io := ((List.range c.out.length).filter fun i => offsetOf c.out i ≤ r && r < offsetOf c.out i + dimOf (c.out.getD i (0, 0))).getD 0 0
    let bd := dimOf (c.out.getD io (0, 0))
    (io, z * bd + (r - offsetOf c.out io))
  b.nodes ++ [Node.gather blockNodes idx]

/-- expected `output_mask`: a block is 1 iff some path with non-zero path weight and non-empty shape reaches it -/
def outputMask (c : Cfg) : List Bool :=
  (List.range c.out.length).flatMap fun io =>
    let reached := c.ins.any fun p => p.io == io && !(alpha c p).isZero && pathSize c p != 0 &&
      dimOf (c.in1.getD p.i1 (0,0)) != 0 && dimOf (c.in2.getD p.i2 (0,0)) != 0
    List.replicate (dimOf (c.out.getD io (0, 0))) reached

end E3nnVerif.Model.TP
