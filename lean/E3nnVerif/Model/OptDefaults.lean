/-
C14, part 1: the process-global optimisation defaults of e3nn and everything that touches them.

Modelled code (as written in /repo):
  e3nn/__init__.py            `_OPT_DEFAULTS`, `set_optimization_defaults`, `get_optimization_defaults`
  e3nn/util/jit.py:328-334    `disable_e3nn_codegen` (generator context manager, NO try/finally),
  e3nn/util/jit.py:337-358    `prepare` (= enter; factory(); exit)
  option capture in `__init__`:
     o3/_tensor_product/_tensor_product.py:342-345   specialized_code, optimize_einsums (kwargs win when not None)
     o3/_linear.py:203-205                            optimize_einsums
     util/codegen/_mixin.py:37-48                     jit_script_fx  (TorchScript vs fx.GraphModule submodule)
     o3/_spherical_harmonics.py:88-92                 jit_script_fx
  No option is read after construction: `forward` uses the generated submodules, `__setstate__`
  rebuilds them from the `(buffer_type, bytes)` pairs stored in the state (`_mixin.py:113-133`).

Python dict objects are modelled with identity: reference 0 is the `_OPT_DEFAULTS` object itself,
reference `r+1` is the r-th other dict.  `get_optimization_defaults` allocates a new object
(`dict(_OPT_DEFAULTS)`); the references it handed out are remembered in `rets` so that
"mutate a returned dict" is an operation on a reference, and aliasing would be expressible.
No Mathlib.
-/
namespace E3nnVerif.Model.OptDefaults

/-- insertion-ordered python `dict[str, bool]` -/
abbrev Dict := List (String × Bool)

namespace Dict
def getKey? : Dict → String → Option Bool
  | [], _ => none
  | (k', v) :: d, k => if k' = k then some v else getKey? d k

def hasKey (d : Dict) (k : String) : Bool := (getKey? d k).isSome

/-- `d[k] = v`: overwrite in place when the key exists, else append at the end -/
def setKey : Dict → String → Bool → Dict
  | [], k, v => [(k, v)]
  | (k', v') :: d, k, v => if k' = k then (k', v) :: d else (k', v') :: setKey d k v

def keys (d : Dict) : List String := d.map Prod.fst
end Dict

def kSpec : String := "specialized_code"
def kEinsum : String := "optimize_einsums"
def kJit : String := "jit_script_fx"

/-- e3nn/__init__.py:7-11 -/
def defaults : Dict := [(kSpec, true), (kEinsum, true), (kJit, true)]

/-- `set_optimization_defaults(**kwargs)`: keys are processed in order; the first unknown key raises
`ValueError` — the keys before it HAVE been written (no rollback in the code).  Returns the new
dict and whether the call raised. -/
def setDefaults : Dict → List (String × Bool) → Dict × Bool
  | d, [] => (d, false)
  | d, (k, v) :: rest => if d.hasKey k then setDefaults (d.setKey k v) rest else (d, true)

/-- which classes read which option in `__init__` -/
inductive Cls
  | tensorProduct      -- specialized_code, optimize_einsums, jit_script_fx
  | linear             -- optimize_einsums, jit_script_fx
  | sphericalHarmonics -- jit_script_fx
  | codegenOnly        -- Extract, ReducedTensorProducts: jit_script_fx through `_codegen_register`
  deriving DecidableEq, Repr

/-- what a module keeps from the options (attributes `_specialized_code`, `_optimize_einsums`, and the
kind of its generated submodules: TorchScript (`true`) or `fx.GraphModule` (`false`)) -/
structure Captured where
  cls : Cls
  spec : Option Bool
  einsum : Option Bool
  scripted : Bool
  deriving DecidableEq, Repr

/-- `x if x is not None else opt_defaults[k]` — `none` result = `KeyError` -/
def pick (o : Option Bool) (d : Dict) (k : String) : Option Bool :=
  match o with
  | some b => some b
  | none => d.getKey? k

/-- the reads done by `__init__` (on the copy returned by `get_optimization_defaults()`); `none` = KeyError -/
def capture (d : Dict) : Cls → Option Bool → Option Bool → Option Captured
  | .tensorProduct, oS, oE =>
      match pick oS d kSpec, pick oE d kEinsum, d.getKey? kJit with
      | some s, some e, some j => some ⟨.tensorProduct, some s, some e, j⟩
      | _, _, _ => none
  | .linear, _, oE =>
      match pick oE d kEinsum, d.getKey? kJit with
      | some e, some j => some ⟨.linear, none, some e, j⟩
      | _, _ => none
  | .sphericalHarmonics, _, _ =>
      match d.getKey? kJit with
      | some j => some ⟨.sphericalHarmonics, none, none, j⟩
      | none => none
  | .codegenOnly, _, _ =>
      match d.getKey? kJit with
      | some j => some ⟨.codegenOnly, none, none, j⟩
      | none => none

structure World where
  /-- the `_OPT_DEFAULTS` object (reference 0) -/
  store : Dict
  /-- all other dict objects (reference r+1 ↦ others[r]) -/
  others : List Dict
  /-- references returned by `get_optimization_defaults()`, in call order -/
  rets : List Nat
  /-- `init_val` of every active `disable_e3nn_codegen` context, innermost first -/
  stack : List Bool
  /-- constructed modules -/
  mods : List Captured
  deriving Repr

def init : World := ⟨defaults, [], [], [], []⟩

def World.read (w : World) : Nat → Option Dict
  | 0 => some w.store
  | r + 1 => w.others[r]?

def World.write (w : World) : Nat → Dict → World
  | 0, d => { w with store := d }
  | r + 1, d => { w with others := w.others.set r d }

inductive Op
  /-- `with disable_e3nn_codegen():` entered -/
  | enter
  /-- the `with` body finished normally -/
  | exitNormal
  /-- the `with` body raised -/
  | exitException
  /-- `set_optimization_defaults(**kvs)` -/
  | set (kvs : List (String × Bool))
  /-- `get_optimization_defaults()` (the caller keeps the result) -/
  | get
  /-- `d[k] = v` on the i-th dict that `get` returned -/
  | mutate (i : Nat) (k : String) (v : Bool)
  /-- build a module of class `c` with explicit `_specialized_code`, `_optimize_einsums` kwargs -/
  | construct (c : Cls) (spec einsum : Option Bool)
  /-- `pickle.loads(pickle.dumps(mods[i]))`, kept as a new module -/
  | repickle (i : Nat)
  deriving DecidableEq, Repr

/-- "d[k] = v on a returned dict" -/
def Op.isMutate : Op → Bool
  | .mutate _ _ _ => true
  | _ => false

/-- everything except entering / leaving a `with disable_e3nn_codegen()` block -/
def Op.isPlain : Op → Bool
  | .enter | .exitNormal | .exitException => false
  | _ => true

inductive Outcome
  | ok | valueError | keyError | noContext | badIndex
  deriving DecidableEq, Repr

/-- the two candidate implementations of `disable_e3nn_codegen` -/
inductive Variant
  /-- jit.py:328-334 as written: `yield` without try/finally -/
  | asWritten
  /-- the obvious fix: `try: yield  finally: set_optimization_defaults(jit_script_fx=init_val)` -/
  | tryFinally
  deriving DecidableEq, Repr

/-- the exit code `set_optimization_defaults(jit_script_fx=init_val)` -/
def restore (w : World) (b : Bool) (s : List Bool) : World × Outcome :=
  let r := setDefaults w.store [(kJit, b)]
  ({ w with stack := s, store := r.1 }, if r.2 then .valueError else .ok)

def step (var : Variant) (w : World) : Op → World × Outcome
  | .enter =>
      -- init_val = get_optimization_defaults()["jit_script_fx"]; set_optimization_defaults(jit_script_fx=False)
      match w.store.getKey? kJit with
      | none => (w, .keyError)
      | some b =>
          let r := setDefaults w.store [(kJit, false)]
          ({ w with stack := b :: w.stack, store := r.1 }, if r.2 then .valueError else .ok)
  | .exitNormal =>
      match w.stack with
      | [] => (w, .noContext)
      | b :: s => restore w b s
  | .exitException =>
      match w.stack with
      | [] => (w, .noContext)
      | b :: s =>
          match var with
          | .asWritten => ({ w with stack := s }, .ok)   -- the generator is abandoned at `yield`
          | .tryFinally => restore w b s
  | .set kvs =>
      let r := setDefaults w.store kvs
      ({ w with store := r.1 }, if r.2 then .valueError else .ok)
  | .get =>
      -- dict(_OPT_DEFAULTS): a NEW object with the same items
      ({ w with others := w.others ++ [w.store], rets := w.rets ++ [w.others.length + 1] }, .ok)
  | .mutate i k v =>
      match w.rets[i]? with
      | none => (w, .badIndex)
      | some r =>
          match w.read r with
          | none => (w, .badIndex)
          | some d => (w.write r (d.setKey k v), .ok)
  | .construct c oS oE =>
      match capture w.store c oS oE with
      | none => (w, .keyError)
      | some m => ({ w with mods := w.mods ++ [m] }, .ok)
  | .repickle i =>
      -- __setstate__ rebuilds the generated submodules from (buffer_type, bytes): no option is read
      match w.mods[i]? with
      | none => (w, .badIndex)
      | some m => ({ w with mods := w.mods ++ [m] }, .ok)

def run (var : Variant) : List Op → World → World
  | [], w => w
  | op :: h, w => run var h (step var w op).1

/-- `prepare(factory)(…)` of jit.py:337-358 is the history `enter; <factory body>; exit` -/
def prepareOk (c : Cls) : List Op := [.enter, .construct c none none, .exitNormal]
def prepareRaise : List Op := [.enter, .exitException]

/-- well-nested histories: what a python program can do with `with disable_e3nn_codegen():` /
`prepare(f)(…)`; `onlyNormal = true` forbids exits by exception. -/
inductive Balanced (onlyNormal : Bool) : List Op → Prop
  | nil : Balanced onlyNormal []
  | plain (op : Op) (h : List Op) : op.isPlain = true → Balanced onlyNormal h → Balanced onlyNormal (op :: h)
  | blockNormal (b h : List Op) : Balanced onlyNormal b → Balanced onlyNormal h →
      Balanced onlyNormal (.enter :: b ++ .exitNormal :: h)
  | blockException (b h : List Op) : onlyNormal = false → Balanced onlyNormal b → Balanced onlyNormal h →
      Balanced onlyNormal (.enter :: b ++ .exitException :: h)


/-- value that `jit_script_fx` will have once every active context has exited: the oldest saved
`init_val`, or the current value when no context is active -/
def bottom (w : World) : Option Bool :=
  match w.stack.getLast? with
  | some b => some b
  | none => w.store.getKey? kJit


/-- the history never passes `jit_script_fx=` to `set_optimization_defaults` -/
def NoJitSet : List Op → Prop
  | [] => True
  | .set kvs :: h => (∀ kv ∈ kvs, kv.1 ≠ kJit) ∧ NoJitSet h
  | _ :: h => NoJitSet h


end E3nnVerif.Model.OptDefaults
