/-
Executable, Mathlib-free model of  e3nn/math/perm.py  as written (pinned tree in /repo).

A permutation is a Python tuple of ints, modelled as `List Nat` (negative entries are outside the model;
every function of perm.py rejects or mangles them exactly as it does out-of-range naturals).
Python sets of permutations are modelled as duplicate-free lists (insertion order = first occurrence);
all observable results are compared as sets by the harness.
Python exceptions are outputs: `Except Err _`.
-/
namespace E3nnVerif.PermModel

inductive Err where
  | assertion   -- AssertionError
  | value       -- ValueError  (tuple.index / list.index of a missing element)
  | index       -- IndexError
  | runtime     -- RuntimeError
  | diverge     -- the real code does not terminate on this input
  | fuel        -- model artefact: fuel exhausted (proved unreachable on valid inputs)
  deriving DecidableEq, Repr, Inhabited

abbrev P := List Nat

/-! ### is_perm :  `sorted(set(p)) == list(range(len(p)))` -/

/-- insertion into a strictly increasing list (no duplicates): one step of `sorted(set(·))` -/
def insertSorted (x : Nat) : List Nat → List Nat
  | [] => [x]
  | y :: ys => if x < y then x :: y :: ys else if x = y then y :: ys else y :: insertSorted x ys

/-- `sorted(set(p))` -/
def sortedSet (p : List Nat) : List Nat := p.foldr insertSorted []

def isPerm (p : P) : Bool := sortedSet p == List.range p.length

/-! ### identity, compose, inverse -/

def identity (n : Nat) : P := List.range n

/-- `tuple(p1[p2[i]] for i in range(len(p1)))`  (the guards are in `compose`) -/
def composeRaw (p1 p2 : P) : P := (List.range p1.length).map fun i => p1.getD (p2.getD i 0) 0

/-- perm.compose: `assert is_perm(p1) and is_perm(p2)`, `assert len(p1) == len(p2)`.
    Convention of the code: `compose p1 p2 = p1 ∘ p2`, i.e. `p2` is applied FIRST. -/
def compose (p1 p2 : P) : Except Err P :=
  if !(isPerm p1 && isPerm p2) then .error .assertion
  else if p1.length != p2.length then .error .assertion
  else .ok (composeRaw p1 p2)

/-- `tuple(p.index(i) for i in range(len(p)))` -/
def inverseRaw (p : P) : P := (List.range p.length).map fun i => p.idxOf i

/-- perm.inverse: `p.index(i)` raises ValueError as soon as some `i < len(p)` does not occur in `p`. -/
def inverse (p : P) : Except Err P :=
  if (List.range p.length).all (fun i => p.contains i) then .ok (inverseRaw p) else .error .value

/-! ### factorial number system -/

def fact : Nat → Nat
  | 0 => 1
  | n + 1 => (n + 1) * fact n

/-- the loop of `from_int`; first argument = current value of the python variable `n`
    (= `len(pool)`), `i` is a python int (floor division / non-negative remainder = `Int.ediv/emod`
    for a positive divisor). -/
def fromIntAux : Nat → Int → List Nat → List Nat
  | 0, _, _ => []
  | k + 1, i, pool =>
    let j := (i % ((k + 1 : Nat) : Int)).toNat
    pool.getD j 0 :: fromIntAux k (i / ((k + 1 : Nat) : Int)) (pool.eraseIdx j)

def fromInt (i : Int) (n : Nat) : P := fromIntAux n i (List.range n)

/-- the loop of `to_int` with its three state variables `pool, i, m` -/
def toIntLoop : List Nat → Nat → Nat → List Nat → Except Err Nat
  | _, i, _, [] => .ok i
  | pool, i, m, j :: rest =>
    if pool.contains j then
      let k := pool.idxOf j
      toIntLoop (pool.eraseIdx k) (i + k * m) (m * pool.length) rest
    else .error .value

def toInt (p : P) : Except Err Nat := toIntLoop (List.range p.length) 0 1 p

/-- `{from_int(i, n) for i in range(n!)}` (as a list, in the order of `i`) -/
def group (n : Nat) : List P := (List.range (fact n)).map fun (i : Nat) => fromInt (Int.ofNat i) n

/-! ### finite sets as duplicate-free lists; generic fixed-point closure
(used by perm.germinate and by _reduce.germinate_formulas) -/

section Closure
variable {α : Type} [DecidableEq α]

def insertNew (s : List α) (x : α) : List α := if x ∈ s then s else s ++ [x]

/-- `s.union(xs)` -/
def unionL (s xs : List α) : List α := xs.foldl insertNew s

/-- `[mul a b for a in s for b in s]` -/
def products (mul : α → α → α) (s : List α) : List α := s.flatMap fun a => s.map fun b => mul a b

/-- one pass of the `while True` body: add inverses, then all products -/
def closeStep (inv : α → α) (mul : α → α → α) (s : List α) : List α :=
  let s1 := unionL s (s.map inv)
  unionL s1 (products mul s1)

/-- `while True: n = len(s); s = step s; if len(s) == n: return s`  with fuel -/
def closeLoop (inv : α → α) (mul : α → α → α) : Nat → List α → Option (List α)
  | 0, _ => none
  | fuel + 1, s =>
    let s' := closeStep inv mul s
    if s'.length == s.length then some s' else closeLoop inv mul fuel s'

def dedup (l : List α) : List α := unionL [] l

end Closure

/-- perm.germinate(subset).  `subset` is given as a list (duplicates are removed first: it is a python set).
    Error behaviour of the real code (independent of set iteration order):
    * some element is not a permutation  → the list comprehension of `inverse` raises ValueError
    * else two elements of different length → `compose` raises AssertionError
    The loop needs at most `n!` productive passes (each one strictly enlarges a subset of S_n). -/
def germinate (subset : List P) : Except Err (List P) :=
  let s := dedup subset
  if !(s.all fun p => isPerm p) then .error .value
  else match s with
    | [] => .ok []
    | p0 :: _ =>
      if !(s.all fun p => p.length == p0.length) then .error .assertion
      else match closeLoop inverseRaw composeRaw (fact p0.length + 1) s with
        | some g => .ok g
        | none => .error .fuel

/-- perm.is_group(g).  Model domain: `g` a set of permutations (if `g` contains a non-permutation the real
    result depends on the set iteration order: ValueError or False).  `n` is the length of an arbitrary
    element; different lengths → AssertionError whichever element is drawn first. -/
def isGroup (g0 : List P) : Except Err Bool :=
  let g := dedup g0
  match g with
  | [] => .ok false
  | p0 :: _ =>
    let n := p0.length
    if !(g.all fun p => p.length == n) then .error .assertion
    else if !(g.contains (identity n)) then .ok false
    else if !(g.all fun p => isPerm p) then .error .value
    else if !(g.all fun p => g.contains (inverseRaw p)) then .ok false
    else .ok (g.all fun p1 => g.all fun p2 => g.contains (composeRaw p1 p2))

/-! ### cycles and sign -/

/-- the inner `while p[i] != c[0]: i = p[i]; c += [i]` ; `acc` is `c` reversed, `cur` is `i`.
    `p[i]` out of range → IndexError; when the fuel `len(p) + 1` is exhausted the real loop never terminates:
    `len(p)` successive in-range values different from `start` contain a repetition, so the orbit of
    `start` has entered a cycle that avoids `start` (and stays in range). -/
def cycleLoop (p : P) (start : Nat) : Nat → Nat → List Nat → Except Err (List Nat)
  | 0, _, _ => .error .diverge
  | fuel + 1, cur, acc =>
    match p[cur]? with
    | none => .error .index
    | some nxt => if nxt == start then .ok acc.reverse else cycleLoop p start fuel nxt (nxt :: acc)

def cycleFrom (p : P) (i : Nat) : Except Err (List Nat) := cycleLoop p i (p.length + 1) i [i]

def listMin : List Nat → Nat
  | [] => 0
  | x :: xs => xs.foldl min x

/-- `i = c.index(min(c)); c = c[i:] + c[:i]` -/
def rotateMin (c : List Nat) : List Nat :=
  let i := c.idxOf (listMin c)
  c.drop i ++ c.take i

/-- the `for i in range(n)` loop of to_cycles over the remaining start points, `cycles` the set so far -/
def toCyclesLoop (p : P) : List Nat → List (List Nat) → Except Err (List (List Nat))
  | [], cycles => .ok cycles
  | i :: rest, cycles =>
    match cycleFrom p i with
    | .error e => .error e
    | .ok c => toCyclesLoop p rest (if c.length ≥ 2 then insertNew cycles (rotateMin c) else cycles)

def toCycles (p : P) : Except Err (List (List Nat)) := toCyclesLoop p (List.range p.length) []

/-- apply one cycle `(c0 c1 … )` to a point: `c[k] ↦ c[(k+1) % len c]`, other points fixed -/
def applyCycle (c : List Nat) (x : Nat) : Nat :=
  let k := c.idxOf x
  if k < c.length then c.getD ((k + 1) % c.length) 0 else x

/-- apply the product of a list of cycles to a point -/
def applyCycles (cs : List (List Nat)) (x : Nat) : Nat := cs.foldl (fun y c => applyCycle c y) x

/-- rebuild the tuple of a permutation of `n` points from its cycles (the inverse of `to_cycles`) -/
def fromCycles (n : Nat) (cs : List (List Nat)) : P := (List.range n).map (applyCycles cs)

def signOfCycles (cs : List (List Nat)) : Int :=
  cs.foldl (fun s c => if c.length % 2 == 0 then -s else s) 1

def sign (p : P) : Except Err Int := (toCycles p).map signOfCycles

/-! ### natural representation -/

/-- `d = zeros(n, n); for a in range(n): d[a, ip[a]] = 1` as a list of rows over `Int` -/
def natRepRaw (p : P) : List (List Int) :=
  let n := p.length
  let ip := inverseRaw p
  (List.range n).map fun a => (List.range n).map fun b => if b = ip.getD a 0 then 1 else 0

def naturalRepresentation (p : P) : Except Err (List (List Int)) :=
  match inverse p with
  | .error e => .error e
  | .ok _ => .ok (natRepRaw p)

/-- list-of-rows matrix product and transpose (used to state the homomorphism / orthogonality laws
    executably; Theory/Perm.lean relates them to Mathlib's `Matrix`) -/
def dot (u v : List Int) : Int := (List.zipWith (· * ·) u v).foldl (· + ·) 0
def column (B : List (List Int)) (j : Nat) : List Int := B.map fun r => r.getD j 0
def matMul (A B : List (List Int)) (cols : Nat) : List (List Int) :=
  A.map fun r => (List.range cols).map fun j => dot r (column B j)
def transpose (A : List (List Int)) (cols : Nat) : List (List Int) :=
  (List.range cols).map fun j => column A j
def idMatrix (n : Nat) : List (List Int) :=
  (List.range n).map fun a => (List.range n).map fun b => if a = b then 1 else 0

end E3nnVerif.PermModel
