/-
Executable model of the decision logic of e3nn's shipped test helpers
  e3nn/util/test.py      : random_irreps, equivariance_error, assert_equivariant, assert_normalized
  e3nn/util/_argtools.py : _transform, _get_io_irreps
as written in /repo.  No Mathlib.  Numbers are an abstract `HNum K` (Float in drivers/C20.lean, ℝ in
Theory/TestHelpers.lean); everything that torch / the function under test / the PRNG computes is a
parameter (an oracle), everything the helpers decide is modelled here.
-/
namespace E3nnVerif.TestHelpers

/-- law-free numbers with the two comparisons python uses (`<`/`>` and `<=`; they differ on NaN). -/
class HNum (K : Type) extends Add K, Sub K, Mul K, Div K, Neg K where
  ofNat : Nat → K
  sqrt : K → K
  lt : K → K → Bool
  le : K → K → Bool

instance : HNum Float where
  ofNat := Float.ofNat
  sqrt := Float.sqrt
  lt := fun a b => a < b
  le := fun a b => a ≤ b

section Num
variable {K : Type} [HNum K]

/-- `torch.abs` on one entry -/
def absK (a : K) : K := if HNum.lt a (HNum.ofNat 0) then -a else a
/-- binary max as computed by a reduction (`b` wins only if strictly larger) -/
def maxK (a b : K) : K := if HNum.lt a b then b else a
/-- `tensor.max()` of a 1-d tensor; `none` = torch's RuntimeError on an empty tensor -/
def vecMax : List K → Option K
  | [] => none
  | x :: xs => some (xs.foldl maxK x)

/-! ## assert_normalized -/

/-- test.py:459  `if not isinstance(this_outs, list) or isinstance(this_outs, tuple): this_outs = (this_outs,)`
python parses this as `(not is_list) or is_tuple`. -/
def wrapCond (isList isTuple : Bool) : Bool := !isList || isTuple
/-- the intended condition `not (is_list or is_tuple)` = `not isinstance(this_outs, (list, tuple))` -/
def wrapCondFixed (isList isTuple : Bool) : Bool := !(isList || isTuple)

/-- what `forward` returned: one tensor, a list of `m` tensors, a tuple of `m` tensors -/
inductive OutKind where
  | tensor
  | list (m : Nat)
  | tuple (m : Nat)
  deriving DecidableEq, Repr

def OutKind.isList : OutKind → Bool
  | .list _ => true
  | _ => false
def OutKind.isTuple : OutKind → Bool
  | .tuple _ => true
  | _ => false
def OutKind.len : OutKind → Nat
  | .tensor => 1
  | .list m => m
  | .tuple m => m

inductive OutsOutcome where
  /-- `this_outs` is a sequence of `len(irreps_out)` tensors: the statistics are computed -/
  | ok
  /-- `assert len(this_outs) == len(irreps_out)` fails -/
  | assertLen
  /-- the sequence was wrapped once more: `e.square()` is called on a list/tuple -/
  | attrError
  deriving DecidableEq, Repr

/-- lines 458-464 for a given wrapping condition -/
def outsOutcome (wrap : Bool → Bool → Bool) (k : OutKind) (nOut : Nat) : OutsOutcome :=
  let wrapped := wrap k.isList k.isTuple
  let len := if wrapped then 1 else k.len
  if len != nOut then .assertLen
  else if wrapped && (k.isList || k.isTuple) then .attrError
  else .ok

/-- lines 435-439: number of weight initialisations; `none` = AssertionError -/
def resolveNWeight (numWeights : Nat) (nWeight : Option Nat) : Option Nat :=
  if numWeights == 0 then
    (if nWeight == none || nWeight == some 1 then some 1 else none)
  else some (nWeight.getD 20)

/-- lines 469-471 for one component:
`update = S - n_input * E ; update /= (n_input + n_samples) ; E += update` -/
def runStep (n N : Nat) (E S : K) : K := E + (S - HNum.ofNat n * E) / HNum.ofNat (n + N)

/-- the loop over weight initialisations for one component; `sums` = the per-batch `Σ_b out[b,c]²` -/
def runMeanAux (n : Nat) : Nat → K → List K → K
  | _, E, [] => E
  | N, E, S :: rest => runMeanAux n (N + n) (runStep n N E S) rest

def runMean (n : Nat) (sums : List K) : K := runMeanAux n 0 (HNum.ofNat 0) sums

inductive Normalization where
  | component
  | norm
  deriving DecidableEq, Repr

/-- lines 478-481 as written: `1.0` resp. `1.0 / math.sqrt(ir.dim)` -/
def targetCode : Normalization → Nat → K
  | .component, _ => HNum.ofNat 1
  | .norm, d => HNum.ofNat 1 / HNum.sqrt (HNum.ofNat d)

/-- the second moment per component promised by the normalisation (`‖x‖² = 1` per irrep for 'norm') -/
def targetSpec : Normalization → Nat → K
  | .component, _ => HNum.ofNat 1
  | .norm, d => HNum.ofNat 1 / HNum.ofNat d

/-- `(expected_square[ir_slice] - target).abs().max()`; `none` for an empty slice (skipped, line 484) -/
def sliceError (target : K) (slice : List K) : Option K := vecMax (slice.map (fun e => absK (e - target)))

/-- per-irrep errors of one output; `blocks` = [(mul, l)] of its irreps, `E` its running means.
Irrep `(mul, l)` owns the next `mul * (2l+1)` components. -/
def irrepErrors (target : Nat → K) : List (Nat × Nat) → List K → List (Option K)
  | [], _ => []
  | (mul, l) :: rest, E =>
      let w := mul * (2 * l + 1)
      sliceError (target (2 * l + 1)) (E.take w) :: irrepErrors target rest (E.drop w)

/-- lines 483-491: position of the first irrep whose error is not `<= atol` (the `assert`) -/
def firstFailure (atol : K) : List (Option K) → Nat → Option Nat
  | [], _ => none
  | none :: rest, i => firstFailure atol rest (i + 1)
  | some e :: rest, i => if HNum.le e atol then firstFailure atol rest (i + 1) else some i

/-- one output spec of the check loop: `None`/'cartesian_points' are skipped (line 476) -/
inductive OutSpec where
  | skip
  | irreps (blocks : List (Nat × Nat))
  deriving Repr

/-- lines 475-491: `none` = passes, `some (o, i)` = AssertionError for output `o`, irrep `i`.
`outs` = per output its spec and, per component, the list of per-batch sums of squares. -/
def checkOutputs (target : Nat → K) (atol : K) (nInput : Nat) :
    List (OutSpec × List (List K)) → Nat → Option (Nat × Nat)
  | [], _ => none
  | (.skip, _) :: rest, o => checkOutputs target atol nInput rest (o + 1)
  | (.irreps blocks, comps) :: rest, o =>
      match firstFailure atol (irrepErrors target blocks (comps.map (runMean nInput))) 0 with
      | some i => some (o, i)
      | none => checkOutputs target atol nInput rest (o + 1)

/-- line 424 short circuit: every input or every output has no irreps at all -/
def shortCircuit (numIrrepsIn numIrrepsOut : List Nat) : Bool :=
  numIrrepsIn.all (· == 0) || numIrrepsOut.all (· == 0)

/-! ## _transform, equivariance_error, assert_equivariant -/

/-- an entry of `irreps_in` / `irreps_out` after `_get_io_irreps` -/
inductive ArgKind (Irr : Type) where
  | none
  | cartesian
  | irreps (ir : Irr)

def ArgKind.isCartesian {Irr : Type} : ArgKind Irr → Bool
  | .cartesian => true
  | _ => false

/-- the operations `_transform` performs on data (`X` tensors, `G` 3×3 matrices, `T` translations) -/
structure Geom (G T X Irr : Type) where
  /-- `a @ rot_mat.T` -/
  rotPoints : G → X → X
  /-- `… + translation` -/
  addTrans : X → T → X
  /-- `a @ irreps.D_from_matrix(rot_mat).T` -/
  actIrreps : Irr → G → X → X
  /-- `rot_mat *= (-1) ** parity_k` -/
  negPow : Nat → G → G
  /-- `translation = 0.0` -/
  zeroT : T

section Transform
variable {G T X Irr : Type}

/-- _argtools.py:21-28 -/
def transformArg (A : Geom G T X Irr) : ArgKind Irr → G → T → X → X
  | .none, _, _, a => a
  | .cartesian, g, t, a => A.addTrans (A.rotPoints g a) t
  | .irreps ir, g, _, a => A.actIrreps ir g a

/-- _argtools.py:11-29 (`zip` truncates to the shorter list) -/
def transform (A : Geom G T X Irr) (kinds : List (ArgKind Irr)) (dat : List X) (g : G) (t : T) : List X :=
  List.zipWith (fun k a => transformArg A k g t a) kinds dat

/-- test.py:242-255: `itertools.product(parity_ks, do_translation)`;
`hasCart` = `"cartesian_points" in irreps_in` -/
def testCases (doParity hasCart doTranslation : Bool) : List (Nat × Bool) :=
  let ks := if doParity then [0, 1] else [0]
  let trs := if doTranslation && hasCart then [false, true] else [false]
  ks.flatMap (fun k => trs.map (fun t => (k, t)))

/-- test.py:306 `torch.where(errors > biggest, errors, biggest)` -/
def updBiggest (b e : List K) : List K := List.zipWith (fun e b => if HNum.lt b e then e else b) e b

/-- the inner `for this_test in tests` of one trial; `i` = number of transformations drawn so far,
`dev i c` = the per-output errors for the `i`-th drawn transformation (used for case `c`).  The dict
`biggest_errs` is kept as a list parallel to `tests` (insertion order = `tests`). -/
def trialStep {C : Type} (dev : Nat → C → List K) : Nat → List C → List (List K) → List (List K)
  | _, [], _ => []
  | _, _, [] => []
  | i, c :: cs, b :: bs => updBiggest b (dev i c) :: trialStep dev (i + 1) cs bs

/-- the outer `for trial in range(ntrials)` -/
def trialLoop {C : Type} (dev : Nat → C → List K) (tests : List C) : Nat → Nat → List (List K) → List (List K)
  | 0, _, st => st
  | k + 1, i, st => trialLoop dev tests k (i + tests.length) (trialStep dev i tests st)

/-- test.py:257-309 given the per-draw error vectors; `bot` = `-inf` -/
def errorLoop {C : Type} (tests : List C) (nOut : Nat) (bot : K) (dev : Nat → C → List K) (ntrials : Nat) :
    List (C × List K) :=
  List.zip tests (trialLoop dev tests ntrials 0 (tests.map (fun _ => List.replicate nOut bot)))

/-- the same with the assertion `len(x1) == len(irreps_out)` of line 296 (`none` = AssertionError) -/
def errorLoopChecked {C : Type} (tests : List C) (nOut : Nat) (bot : K) (dev : Nat → C → List K) (ntrials : Nat) :
    Option (List (C × List K)) :=
  if (List.range ntrials).all (fun t => (List.range tests.length).all (fun j =>
        match tests[j]? with
        | some c => (dev (t * tests.length + j) c).length == nOut
        | none => true))
  then some (errorLoop tests nOut bot dev ntrials) else none

/-- test.py:272-304: errors of one drawn transformation (`dist a b = (a - b).abs().max()`) -/
def deviationAt (A : Geom G T X Irr) (dist : X → X → K) (func : List X → List X)
    (kindsIn kindsOut : List (ArgKind Irr)) (args : List X) (g : G) (t : T) : List K :=
  List.zipWith dist (func (transform A kindsIn args g t)) (transform A kindsOut (func args) g t)

/-- the transformation used for the `i`-th draw in case `(k, translate)`:
`rand_matrix() * (-1)**k`,  `10*randn(1,3)` or `0.0` -/
def drawnRot (A : Geom G T X Irr) (randRot : Nat → G) (i : Nat) (c : Nat × Bool) : G := A.negPow c.1 (randRot i)
def drawnTrans (A : Geom G T X Irr) (randTr : Nat → T) (i : Nat) (c : Nat × Bool) : T :=
  if c.2 then randTr i else A.zeroT

/-- `equivariance_error` (test.py:201-309) as a function of the PRNG outcomes `randRot`, `randTr` -/
def equivarianceError (A : Geom G T X Irr) (dist : X → X → K) (func : List X → List X)
    (kindsIn kindsOut : List (ArgKind Irr)) (args : List X) (ntrials : Nat) (doParity doTranslation : Bool)
    (bot : K) (randRot : Nat → G) (randTr : Nat → T) : List ((Nat × Bool) × List K) :=
  errorLoop (testCases doParity (kindsIn.any ArgKind.isCartesian) doTranslation) kindsOut.length bot
    (fun i c => deviationAt A dist func kindsIn kindsOut args (drawnRot A randRot i c) (drawnTrans A randTr i c))
    ntrials

end Transform

inductive AssertOutcome where
  | pass
  | assertionError
  /-- `err.max()` of an empty tensor (`len(irreps_out) == 0`) -/
  | runtimeError
  deriving DecidableEq, Repr

/-- test.py:191-196 `problems = {case: err for case, err in errors.items() if err.max() > tolerance}` -/
def assertEquivariant {C : Type} (tol : K) (errs : List (C × List K)) : AssertOutcome :=
  if errs.any (fun cv => cv.2.isEmpty) then .runtimeError
  else if errs.any (fun cv => match vecMax cv.2 with
                              | some m => HNum.lt tol m
                              | none => false) then .assertionError
  else .pass

end Num

/-! ## random_irreps -/

/-- `random.randint(a, b)` on the `i`-th PRNG outcome; `none` = ValueError (empty range) -/
def randint (o : Nat → Nat) (i : Nat) (a b : Int) : Option Int :=
  if b < a then none else some (a + (o i : Int) % (b - a + 1))

structure RIArgs where
  n : Int
  lmax : Int
  mulMin : Int
  mulMax : Int
  lenMin : Int
  lenMax : Int
  clean : Bool
  allowEmpty : Bool
  deriving Repr

inductive RIErr where
  | assertion
  | valueError
  deriving DecidableEq, Repr

inductive OutType where
  | irreps
  | str
  | list
  deriving DecidableEq, Repr

/-- (mul, l, p) -/
abbrev MulIr := Int × Int × Int

/-- line 100-101 -/
def RIArgs.lenMin' (a : RIArgs) : Int := if !a.allowEmpty && a.lenMin == 0 then 1 else a.lenMin

/-- the asserts of lines 95-103 -/
def RIArgs.guards (a : RIArgs) : Bool :=
  decide (a.n ≥ 1) && decide (a.lmax ≥ 0) && decide (a.mulMin ≥ 0) && decide (a.mulMax ≥ a.mulMin)
    && decide (a.lenMin' ≥ 0) && decide (a.lenMax ≥ a.lenMin')

/-- line 108-109: `k` entries, three PRNG outcomes each (mul, l, p); `none` = ValueError -/
def genEntries (a : RIArgs) (o : Nat → Nat) : Nat → Nat → Option (List MulIr)
  | 0, _ => some []
  | k + 1, i =>
      match randint o i a.mulMin a.mulMax, randint o (i + 1) 0 a.lmax, genEntries a o k (i + 3) with
      | some m, some l, some rest => some ((m, l, if o (i + 2) % 2 == 0 then 1 else -1) :: rest)
      | _, _, _ => none

/-- `this_irreps[-1] = (m, this_irreps[-1][1])` -/
def setLastMul (m : Int) : List MulIr → List MulIr
  | [] => []
  | [(_, l, p)] => [(m, l, p)]
  | x :: y :: rest => x :: setLastMul m (y :: rest)

/-- lines 110-111: `if not allow_empty and all(m == 0 …): this_irreps[-1] = (randint(1, mul_max), …)`;
`none` = ValueError from `randint(1, 0)` -/
def patchEmpty (a : RIArgs) (o : Nat → Nat) (i : Nat) (es : List MulIr) : Option (List MulIr × Nat) :=
  if !a.allowEmpty && es.all (fun e => e.1 == 0) then
    (match randint o i 1 a.mulMax with
     | some m => some (setLastMul m es, i + 1)
     | none => none)
  else some (es, i)

/-- lines 114-117 -/
def pickType (a : RIArgs) (o : Nat → Nat) (i : Nat) : OutType × Nat :=
  if a.clean then (.irreps, i)
  else ((match o i % 3 with
         | 0 => .irreps
         | 1 => .str
         | _ => .list), i + 1)

/-- lines 107-123 for one of the `n` outputs; returns the irreps, its type and the PRNG position -/
def genOne (a : RIArgs) (o : Nat → Nat) (i : Nat) : Except RIErr (List MulIr × OutType × Nat) :=
  match randint o i a.lenMin' a.lenMax with
  | none => .error .valueError
  | some len =>
    match genEntries a o len.toNat (i + 1) with
    | none => .error .valueError
    | some es =>
      match patchEmpty a o (i + 1 + 3 * len.toNat) es with
      | none => .error .valueError
      | some (es, i) => .ok (es, (pickType a o i).1, (pickType a o i).2)

def genMany (a : RIArgs) (o : Nat → Nat) : Nat → Nat → Except RIErr (List (List MulIr × OutType))
  | 0, _ => .ok []
  | k + 1, i =>
      match genOne a o i with
      | .error e => .error e
      | .ok (es, ty, i') =>
        match genMany a o k i' with
        | .error e => .error e
        | .ok rest => .ok ((es, ty) :: rest)

/-- `random_irreps` (test.py:60-128) as a function of the PRNG outcomes `o 0, o 1, …`.
(The final `out[0] if n == 1 else out` is `RIArgs.n = 1`; the list is returned here in both cases.) -/
def randomIrreps (a : RIArgs) (o : Nat → Nat) : Except RIErr (List (List MulIr × OutType)) :=
  if a.guards then genMany a o a.n.toNat 0 else .error .assertion

/-! ## _get_io_irreps -/

/-- a value passed as / found in `irreps_in` (resp. `irreps_out`) -/
inductive IOElem where
  | irreps          -- anything `Irreps(...)` accepts (an Irreps, a str, …)
  | cartesian       -- the string 'cartesian_points'
  | none            -- None
  deriving DecidableEq, Repr

inductive IOSpec where
  | absent                          -- argument is None: infer from the function
  | irrepsObj                       -- an `o3.Irreps` instance
  | cartesian                       -- 'cartesian_points'
  | list (es : List IOElem)
  | tuple                           -- a tuple that is not an Irreps
  | other                           -- e.g. a str such as "2x1o"
  deriving DecidableEq, Repr

/-- _argtools.py:55-66 after inference: the normalised list, and whether the tuple warning is issued -/
def normalizeSpec : IOSpec → List IOElem × Bool
  | .absent => ([.none], false)         -- attribute value None is in SPECIAL_VALS
  | .irrepsObj => ([.irreps], false)
  | .cartesian => ([.cartesian], false)
  | .list es => (es, false)
  | .tuple => ([.irreps], true)
  | .other => ([.irreps], false)

/-- lines 42-53: `attr` = value of `func.irreps_in` if the attribute exists, `alt` = `[irreps_in1, irreps_in2]`
exists (only for inputs).  `none` = ValueError. -/
def inferSpec (given : IOSpec) (attr : Option IOSpec) (alt : Bool) : Option IOSpec :=
  match given with
  | .absent =>
    (match attr with
     | some s => some s
     | none => if alt then some (.list [.irreps, .irreps]) else none)
  | s => some s

/-- `_get_io_irreps`: `none` = ValueError; the Bool is "a tuple warning was issued".  For `irreps_out`
the warning of line 73 tests `irreps_in` (already a list at that point), so it is never issued. -/
def getIOIrreps (givenIn givenOut : IOSpec) (attrIn : Option IOSpec) (hasIn12 : Bool) (attrOut : Option IOSpec) :
    Option (List IOElem × List IOElem × Bool) :=
  match inferSpec givenIn attrIn hasIn12 with
  | none => none
  | some si =>
    match inferSpec givenOut attrOut false with
    | none => none
    | some so => some ((normalizeSpec si).1, (normalizeSpec so).1, (normalizeSpec si).2)

end E3nnVerif.TestHelpers
