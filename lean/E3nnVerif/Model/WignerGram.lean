import E3nnVerif.Model.WignerChecks
/-
One more Bool-valued decision procedure over the exact Wigner tables (same style as `Model/WignerChecks.lean`,
kept in a separate file so that the compiled certificates of that file stay valid):

  `gramCheck l1 l2 l3`:  Σ_{i,j} C[i,j,k]·C[i,j,k'] = δ_{kk'} / (2·l3+1)   for `C = wigner_3j(l1,l2,l3)`,

i.e. the `(2l1+1)(2l2+1)` vectors `C[i,j,·]` span ℝ^{2l3+1} (the Clebsch–Gordan contraction `l1 ⊗ l2 → l3` is onto).
It is evaluated by the kernel in `Cert/W3j/Gram*.lean`; `Sound/WignerGram.lean` proves what `= true` means over ℝ.
-/
namespace E3nnVerif.Model.Wigner
open E3nnVerif.Exact

/-- `Σ_{i<n1} Σ_{j<n2} C[i,j,k]·C[i,j,k']` (indices where `C[i,j,k']` is syntactically 0 are skipped) -/
def gramEntry (n1 n2 : Nat) (C : T3) (k k' : Nat) : SqrtQ :=
  dotRange n1 fun i => dotSkip n2 (fun j => C.get i j k) (fun j => C.get i j k')

/-- the Gram matrix of the last index of `wigner_3j(l1,l2,l3)` is `1/(2·l3+1)` times the identity -/
def gramCheck (l1 l2 l3 : Nat) : Bool :=
  let C := w3j l1 l2 l3
  let n1 := 2 * l1 + 1; let n2 := 2 * l2 + 1; let n3 := 2 * l3 + 1
  all2 n3 n3 fun k k' =>
    (gramEntry n1 n2 C k k' - (if k == k' then SqrtQ.ofQ (Q.mk' 1 n3) else [])).isZero

end E3nnVerif.Model.Wigner
