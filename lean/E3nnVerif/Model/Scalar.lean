/-
A law-free scalar interface.  Analytic models (rotations, radial bases, BatchNorm, …) are written ONCE
over `[Scalar K]`; the `Float` instance below is executed by the line-protocol drivers next to the
real implementation, the `ℝ` instance (E3nnVerif/Theory/ScalarReal.lean, built from Mathlib's
instances so that `ring`, `field_simp`, `linarith` see through it) carries the theorems.
No Mathlib import here.
-/
namespace E3nnVerif

class Scalar (K : Type) extends Add K, Sub K, Mul K, Div K, Neg K where
  ofNat : Nat → K
  sqrt : K → K
  sin : K → K
  cos : K → K
  acos : K → K
  atan2 : K → K → K
  exp : K → K
  pi : K
  /-- strict comparison as a Bool (classical on ℝ) -/
  lt : K → K → Bool

namespace Scalar
variable {K : Type} [Scalar K]
/-- `a ≤ b` as `¬ b < a` -/
def le (a b : K) : Bool := !(Scalar.lt b a)
def zero : K := Scalar.ofNat 0
def one : K := Scalar.ofNat 1
def two : K := Scalar.ofNat 2
def ofInt (i : Int) : K := match i with
  | .ofNat n => Scalar.ofNat n
  | .negSucc n => - Scalar.ofNat (n + 1)
/-- numerator / denominator -/
def ofFrac (n : Int) (d : Nat) : K := ofInt n / Scalar.ofNat d
def max (a b : K) : K := if Scalar.lt a b then b else a
def min (a b : K) : K := if Scalar.lt a b then a else b
def abs (a : K) : K := if Scalar.lt a (Scalar.ofNat 0) then -a else a
end Scalar

instance : Scalar Float where
  ofNat := Float.ofNat
  sqrt := Float.sqrt
  sin := Float.sin
  cos := Float.cos
  acos := Float.acos
  atan2 := Float.atan2
  exp := Float.exp
  pi := 3.141592653589793
  lt := fun a b => a < b

end E3nnVerif
