import E3nnVerif.Model.WignerChecks
import E3nnVerif.Model.Reduce
import E3nnVerif.IR.Tensor
/-
C10 — exact model of what `o3.ReducedTensorProducts(formula, **irreps)` stores, and the Bool-valued decision
procedures the kernel evaluates on it (`decide +kernel`, Cert/RTP/*.lean).  Mathlib-free, structural recursion only.
`Sound/RTPChecks.lean` proves what `= true` means over ℝ; `Props/C10.lean` lifts it to all of O(3).

A configuration (`Cfg`, emitted by harness/rtp_family.py from the module the real code builds) consists of
  * `terms`    the terms of the formula as signed permutations `(s, tuple(f.index(i) for i in f0))`, exactly the set of
               generators `germinate_formulas` starts from; the closed group is recomputed here by C17's model
               (`germinateSigned`), it is not data;
  * `irIn`     per index the `Irreps` of that index, expanded to multiplicity 1, as `(l, odd)`;
  * `irOut`    `irreps_out`, expanded, in row order;
  * `Q`        the buffer `change_of_basis`, every float lifted to `±(n/d)√r` (rows = flattened row-major tensors);
  * `complete` no `filter_ir_out` / `filter_ir_mid` was given, i.e. the rows are claimed to span all symmetric tensors.
-/
namespace E3nnVerif.Model.RTP
open E3nnVerif.Exact E3nnVerif.Model.Wigner E3nnVerif.ReduceModel

/-- one irreducible block: degree `l`, flag `odd` (parity −1) -/
abbrev Ir := Nat × Bool

structure Cfg where
  terms : List SPerm
  irIn : List (List Ir)
  irOut : List Ir
  complete : Bool
  Q : List (List SqrtQ)

def irDim : List Ir → Nat
  | [] => 0
  | ir :: rest => 2 * ir.1 + 1 + irDim rest

def Cfg.dims (c : Cfg) : List Nat := c.irIn.map irDim
def Cfg.D (c : Cfg) : Nat := irDim c.irOut
def Cfg.nIdx (c : Cfg) : Nat := c.irIn.length

/-- the group `germinate_formulas` returns (C17's model of the closure loop) -/
def Cfg.group (c : Cfg) : List SPerm :=
  match germinateSigned c.nIdx c.terms with
  | .ok g => g
  | .error _ => []

/-! ### block-diagonal so(3) generators and parities of an `Irreps` -/

/-- entry `(r, c)` of `direct_sum(so3_generators(l)[a] for l in irs)` -/
def bdGet (a : Nat) : List Ir → Nat → Nat → SqrtQ
  | [], _, _ => []
  | ir :: rest, r, c =>
    let n := 2 * ir.1 + 1
    bif Nat.blt r n then (bif Nat.blt c n then (so3Gen ir.1 a).get r c else [])
    else bif Nat.blt c n then [] else bdGet a rest (r - n) (c - n)

/-- dense table of `bdGet` -/
def bdMat (a : Nat) (irs : List Ir) : Mat :=
  tabulate2 (irDim irs) (irDim irs) fun r c => bdGet a irs r c

/-- parity flag of component `r` -/
def parAt : List Ir → Nat → Bool
  | [], _ => false
  | ir :: rest, r => bif Nat.blt r (2 * ir.1 + 1) then ir.2 else parAt rest (r - (2 * ir.1 + 1))

/-- `(offset, l)` of every block -/
def blocksFrom (o : Nat) : List Ir → List (Nat × Nat)
  | [] => []
  | ir :: rest => (o, ir.1) :: blocksFrom (o + (2 * ir.1 + 1)) rest

/-! ### multi-indices -/

/-- `p x` for every multi-index `x < dims` -/
def allIdx : List Nat → (List Nat → Bool) → Bool
  | [], p => p []
  | d :: ds, p => (List.range d).all fun k => allIdx ds fun t => p (k :: t)

/-- `Σ_x f x · g x` over all multi-indices, skipping `g x = 0` -/
def sumIdx2 : List Nat → (List Nat → SqrtQ) → (List Nat → SqrtQ) → SqrtQ
  | [], f, g => let y := g []; bif y.isZero then [] else f [] * y
  | d :: ds, f, g => dotRange d fun k => sumIdx2 ds (fun t => f (k :: t)) (fun t => g (k :: t))

def validIdx : List Nat → List Nat → Bool
  | [], [] => true
  | d :: ds, x :: xs => Nat.blt x d && validIdx ds xs
  | _, _ => false

/-- entry of a flattened (row-major) tensor -/
def entry (dims : List Nat) (row : List SqrtQ) (x : List Nat) : SqrtQ := row.getD (ReduceModel.flatIndex dims x) []

def Cfg.row (c : Cfg) (z : Nat) : List SqrtQ := c.Q.getD z []
/-- `Q[z, x₁, …, xₙ]` -/
def Cfg.q (c : Cfg) (z : Nat) (x : List Nat) : SqrtQ := entry c.dims (c.row z) x

def allRange (n : Nat) (p : Nat → Bool) : Bool := (List.range n).all p

/-! ### the checks -/

def shapeCheck (c : Cfg) : Bool :=
  let N := c.dims.foldl (· * ·) 1
  c.Q.length == c.D && c.Q.all fun r => r.length == N

/-- the recomputed group is non-empty, its signs are `±1`, it contains the formula's terms, and permuting a valid
    multi-index by a group element gives a valid multi-index (indices exchanged by the formula have equal dimension) -/
def groupCheck (c : Cfg) : Bool :=
  let G := c.group
  !G.isEmpty && (G.all fun a => a.1 == 1 || a.1 == -1) && (c.terms.all fun t => G.contains t) &&
  allIdx c.dims fun x => G.all fun a => validIdx c.dims (act x a.2)

/-- (i) `Q Qᵀ = 1` -/
def orthoCheck (c : Cfg) : Bool :=
  all2 c.D c.D fun z z' =>
    (sumIdx2 c.dims (c.q z) (c.q z') - (if z == z' then SqrtQ.one else [])).isZero

def sgnMul (s : Int) (v : SqrtQ) : SqrtQ := if s == 1 then v else -v

/-- (ii) every row satisfies every formula of the group: `Q[z, x] = s · Q[z, x∘p]` -/
def symCheck (c : Cfg) : Bool :=
  let G := c.group
  allRange c.D fun z => allIdx c.dims fun x => G.all fun a =>
    (c.q z x - sgnMul a.1 (c.q z (act x a.2))).isZero

/-- numerator of the group-average projector: `Σ_{(s,p) ∈ G, x∘p = y} s` -/
def pavgNum (G : List SPerm) (x y : List Nat) : Int :=
  G.foldl (fun acc a => if act x a.2 == y then acc + a.1 else acc) 0

/-- (iii) `|G| · (QᵀQ)[x, y] = Σ_{(s,p) ∈ G, x∘p = y} s`, i.e. `QᵀQ` is the group average -/
def complCheck (c : Cfg) : Bool :=
  let G := c.group
  allIdx c.dims fun x => allIdx c.dims fun y =>
    (SqrtQ.scale (Q.ofNat G.length) (dotSkip c.D (fun z => c.q z x) (fun z => c.q z y))
      - SqrtQ.ofInt (pavgNum G x y)).isZero

/-- number of rows = number of non-cancelling orbits of `reduce_permutation` (C17) -/
def countCheck (c : Cfg) : Bool := c.D == (reduceCore c.group c.dims).length

/-- `Σ_k Σ_y f(x[k ← y]) · X_k[y, x_k]` : one row of `Q · (X₁⊗1⊗… + … + 1⊗…⊗Xₙ)` -/
def ksRow : List Mat → List Nat → (List Nat → SqrtQ) → List Nat → SqrtQ
  | X :: Xs, d :: ds, f, x :: xs =>
    dotSkip d (fun y => f (y :: xs)) (fun y => X.get y x) + ksRow Xs ds (fun t => f (x :: t)) xs
  | _, _, _, _ => []

/-- (iv) `X_out^a · Q = Q · (Kronecker sum of the index generators X^a)` -/
def interCheck (c : Cfg) (a : Nat) : Bool :=
  let Xo := bdMat a c.irOut
  let Xs := c.irIn.map (bdMat a)
  allRange c.D fun z => allIdx c.dims fun x =>
    (dotSkip c.D (fun z' => c.q z' x) (fun z' => Xo.get z z') - ksRow Xs c.dims (c.q z) x).isZero

def parIdx : List (List Ir) → List Nat → Bool
  | irs :: rest, x :: xs => xor (parAt irs x) (parIdx rest xs)
  | _, _ => false

/-- (v) a non-zero entry couples components whose parities multiply to the row's parity -/
def parityCheck (c : Cfg) : Bool :=
  allRange c.D fun z => allIdx c.dims fun x => (c.q z x).isZero || parAt c.irOut z == parIdx c.irIn x

/-- (vi) the block-diagonal generator restricted to the columns of block `(o, l)` is `so3_generators(l)[a]` placed at
    rows `o … o+2l`, zero elsewhere -/
def blockCheck (a : Nat) (irs : List Ir) : Bool :=
  let n := irDim irs
  let X := bdMat a irs
  (blocksFrom 0 irs).all fun ol =>
    let w := 2 * ol.2 + 1
    Nat.ble (ol.1 + w) n && all2 n w fun r c =>
      (X.get r (ol.1 + c) - (bif Nat.ble ol.1 r && Nat.blt r (ol.1 + w) then (so3Gen ol.2 a).get (r - ol.1) c else [])).isZero

def blocksCheck (c : Cfg) : Bool :=
  (blockCheck 0 c.irOut && blockCheck 1 c.irOut) && c.irIn.all fun irs => blockCheck 0 irs && blockCheck 1 irs

/-! ### the specification program of `main`: one einsum of `Q` with the inputs (batch `B`) -/

def inputNodes (B : Nat) : Nat → List Nat → List IR.Node
  | _, [] => []
  | base, d :: ds => .input base (B * d) :: inputNodes B (base + B * d) ds

/-- `einsum("z i₁…iₙ, b i₁, …, b iₙ -> b z", Q, x₁, …, xₙ)` : labels `0 = b`, `1 = z`, `k + 2 = i_{k+1}` -/
def specProg (c : Cfg) (B : Nat) : List IR.Node :=
  let n := c.nIdx
  inputNodes B 0 c.dims ++
    [.const c.Q.flatten,
     .einsum (B :: c.D :: c.dims) 2
       ((n, 1 :: (List.range n).map (· + 2)) :: (List.range n).map fun k => (k, [0, k + 2]))]

def progCheck (c : Cfg) (B : Nat) (prog : List IR.Node) : Bool :=
  IR.polysEq (IR.interpPoly prog) (IR.interpPoly (specProg c B))

end E3nnVerif.Model.RTP
