import E3nnVerif.Model.WignerChecks
import E3nnVerif.Model.Reduce
import E3nnVerif.IR.Tensor
/-
C10 — exact model of what `o3.ReducedTensorProducts(formula, **irreps)` stores, and the Bool-valued decision
procedures the kernel evaluates on it (`decide +kernel`, Cert/RTP/*.lean).  Mathlib-free, structural recursion only.
`Sound/RTPChecks.lean` proves what `= true` means over ℝ; `Props/C10.lean` lifts it to all of O(3).

A configuration (`Cfg`, emitted by harness/rtp_family.py from the module the real code builds) consists of
  * `terms`    the terms of the formula as signed permutations `(s, tuple(f.index(i) for i in f0))`, exactly the set of
               generators `germinate_formulas` starts from; the closed group is recomputed here by C17's model
               (`germinateSigned`), it is not data;
  * `irIn`     per index the `Irreps` of that index, expanded to multiplicity 1, as `(l, odd)`;
  * `irOut`    `irreps_out`, expanded, in row order;
  * `Q`        the buffer `change_of_basis`, every float lifted to `±(n/d)√r`; row `z` is the nested list
               `Q[z][x₁]…[xₙ]` (type `Tens irIn`), so every check is a structural recursion over the index list;
  * `complete` no `filter_ir_out` / `filter_ir_mid` was given, i.e. the rows are claimed to span all symmetric tensors.
-/
namespace E3nnVerif.Model.RTP
open E3nnVerif.Exact E3nnVerif.Model.Wigner E3nnVerif.ReduceModel

/-- one irreducible block: degree `l`, flag `odd` (parity −1) -/
abbrev Ir := Nat × Bool

def irDim : List Ir → Nat
  | [] => 0
  | ir :: rest => 2 * ir.1 + 1 + irDim rest

/-- nested tensor with one level per index -/
def Tens : List (List Ir) → Type
  | [] => SqrtQ
  | _ :: L => List (Tens L)

/-- the zero tensor (missing entries read as zero everywhere below) -/
def tz : (L : List (List Ir)) → Tens L
  | [] => ([] : SqrtQ)
  | _ :: _ => ([] : List _)

structure Cfg where
  terms : List SPerm
  irIn : List (List Ir)
  irOut : List Ir
  complete : Bool
  Q : List (Tens irIn)

def Cfg.dims (c : Cfg) : List Nat := c.irIn.map irDim
def Cfg.D (c : Cfg) : Nat := irDim c.irOut
def Cfg.nIdx (c : Cfg) : Nat := c.irIn.length
def Cfg.row (c : Cfg) (z : Nat) : Tens c.irIn := c.Q.getD z (tz c.irIn)

/-- the group `germinate_formulas` returns (C17's model of the closure loop) -/
def Cfg.group (c : Cfg) : List SPerm :=
  match germinateSigned c.nIdx c.terms with
  | .ok g => g
  | .error _ => []

/-! ### block-diagonal so(3) generators and parities of an `Irreps` -/

/-- entry `(r, c)` of `direct_sum(so3_generators(l)[a] for l in irs)` -/
def bdGet (a : Nat) : List Ir → Nat → Nat → SqrtQ
  | [], _, _ => []
  | ir :: rest, r, c =>
    let n := 2 * ir.1 + 1
    bif Nat.blt r n then (bif Nat.blt c n then (so3Gen ir.1 a).get r c else [])
    else bif Nat.blt c n then [] else bdGet a rest (r - n) (c - n)

/-- dense table of `bdGet` -/
def bdMat (a : Nat) (irs : List Ir) : Mat :=
  tabulate2 (irDim irs) (irDim irs) fun r c => bdGet a irs r c

/-- parity flag of component `r` -/
def parAt : List Ir → Nat → Bool
  | [], _ => false
  | ir :: rest, r => bif Nat.blt r (2 * ir.1 + 1) then ir.2 else parAt rest (r - (2 * ir.1 + 1))

/-- `(offset, l)` of every block -/
def blocksFrom (o : Nat) : List Ir → List (Nat × Nat)
  | [] => []
  | ir :: rest => (o, ir.1) :: blocksFrom (o + (2 * ir.1 + 1)) rest

/-! ### nested tensors -/

/-- syntactic zero test (`SqrtQ` sums and products are pruned, so a zero result is `[]`); sound: `[]` denotes 0 -/
def isNil : SqrtQ → Bool
  | [] => true
  | _ :: _ => false

def allRange (n : Nat) (p : Nat → Bool) : Bool := (List.range n).all p

/-! Every check below is `allRange n rowPredicate`.  For large configurations the certificate files decide the row
predicate on consecutive blocks of rows in separate theorems (bounded kernel memory) and glue them with
`allRange_of_blocks`. -/

/-- `p i` for `lo ≤ i < hi` -/
def allFromTo (lo hi : Nat) (p : Nat → Bool) : Bool := (List.range (hi - lo)).all fun i => p (lo + i)

/-- the blocks are `[(lo,a),(a,b),…,(y,n)]` -/
def coverB : Nat → Nat → List (Nat × Nat) → Bool
  | lo, n, [] => lo == n
  | lo, n, ab :: rest => ab.1 == lo && Nat.ble ab.1 ab.2 && coverB ab.2 n rest

def blocksOk (p : Nat → Bool) : List (Nat × Nat) → Prop
  | [] => True
  | ab :: rest => allFromTo ab.1 ab.2 p = true ∧ blocksOk p rest

theorem blocksOk_nil {p : Nat → Bool} : blocksOk p [] := trivial
theorem blocksOk_cons {p : Nat → Bool} {lo hi : Nat} {rest : List (Nat × Nat)} (h : allFromTo lo hi p = true)
    (t : blocksOk p rest) : blocksOk p ((lo, hi) :: rest) := ⟨h, t⟩

theorem allFromTo_spec {lo hi : Nat} {p : Nat → Bool} (h : allFromTo lo hi p = true) (i : Nat) (h1 : lo ≤ i) (h2 : i < hi) :
    p i = true := by
  simp only [allFromTo, List.all_eq_true, List.mem_range] at h
  have := h (i - lo) (by omega)
  rwa [show lo + (i - lo) = i by omega] at this

theorem blocks_spec {n : Nat} {p : Nat → Bool} : ∀ (bs : List (Nat × Nat)) (lo : Nat), coverB lo n bs = true →
    blocksOk p bs → ∀ i, lo ≤ i → i < n → p i = true
  | [], lo, hc, _, i, h1, h2 => by
    simp only [coverB, beq_iff_eq] at hc
    omega
  | ab :: rest, lo, hc, hb, i, h1, h2 => by
    simp only [coverB, Bool.and_eq_true, beq_iff_eq, Nat.ble_eq] at hc
    by_cases hi : i < ab.2
    · exact allFromTo_spec hb.1 i (by omega) hi
    · exact blocks_spec rest ab.2 hc.2 hb.2 i (by omega) h2

theorem allRange_of_blocks {n : Nat} {p : Nat → Bool} (bs : List (Nat × Nat)) (hc : coverB 0 n bs = true)
    (hb : blocksOk p bs) : allRange n p = true := by
  simp only [allRange, List.all_eq_true, List.mem_range]
  intro i hi
  exact blocks_spec bs 0 hc hb i (Nat.zero_le _) hi

/-- `p x` for every multi-index `x` of the index list `L` -/
def allIdxL : (L : List (List Ir)) → (List Nat → Bool) → Bool
  | [], p => p []
  | s :: L, p => allRange (irDim s) fun k => allIdxL L fun t => p (k :: t)

def validIdxL : (L : List (List Ir)) → List Nat → Bool
  | [], [] => true
  | s :: L, x :: xs => Nat.blt x (irDim s) && validIdxL L xs
  | _, _ => false

/-- `t[x₁]…[xₙ]` -/
def tget : (L : List (List Ir)) → Tens L → List Nat → SqrtQ
  | [], v, _ => v
  | _ :: _, _, [] => []
  | _ :: L, t, k :: ks => tget L (t.getD k (tz L)) ks

/-- full-shape tensor of zeros -/
def tfull : (L : List (List Ir)) → Tens L
  | [] => ([] : SqrtQ)
  | s :: L => (List.range (irDim s)).map fun _ => tfull L

/-- `Σ_x a[x] · b[x]` (skipping zero factors) -/
def tdot : (L : List (List Ir)) → Tens L → Tens L → SqrtQ
  | [], a, b => bif isNil a || isNil b then [] else SqrtQ.mul a b
  | s :: L, a, b => dotRange (irDim s) fun k => tdot L (a.getD k (tz L)) (b.getD k (tz L))

/-- `acc + v · a`, full shape -/
def taxpy (v : SqrtQ) : (L : List (List Ir)) → Tens L → Tens L → Tens L
  | [], a, acc => bif isNil a then acc else SqrtQ.add acc (SqrtQ.mul v a)
  | s :: L, a, acc => (List.range (irDim s)).map fun k => taxpy v L (a.getD k (tz L)) (acc.getD k (tz L))

/-- replace the entry at the (valid) multi-index `x` by `f` of it, full shape -/
def tupd (f : SqrtQ → SqrtQ) : (L : List (List Ir)) → Tens L → List Nat → Tens L
  | [], v, _ => f v
  | _ :: _, t, [] => t
  | s :: L, t, k :: ks =>
    (List.range (irDim s)).map fun i => bif Nat.beq i k then tupd f L (t.getD i (tz L)) ks else t.getD i (tz L)

/-- every entry (of the shape of `L`) of `a - b` is zero -/
def teq : (L : List (List Ir)) → Tens L → Tens L → Bool
  | [], a, b => SqrtQ.isZero (SqrtQ.sub a b)
  | s :: L, a, b => allRange (irDim s) fun k => teq L (a.getD k (tz L)) (b.getD k (tz L))

def tallZero : (L : List (List Ir)) → Tens L → Bool
  | [], a => isNil a
  | s :: L, a => allRange (irDim s) fun k => tallZero L (a.getD k (tz L))

/-- `t · (X₁⊗1⊗… + … + 1⊗…⊗Xₙ)` for `X_k = direct_sum(so3_generators(l)[a])` of index `k`:
    `out[x] = Σ_k Σ_y t[x with x_k ← y] · X_k[y, x_k]` -/
def tks (a : Nat) : (L : List (List Ir)) → Tens L → Tens L
  | [], _ => ([] : SqrtQ)
  | s :: L, t =>
    let X := bdMat a s
    (List.range (irDim s)).map fun x1 =>
      (List.range (irDim s)).foldl
        (fun acc y => let c := X.get y x1; bif isNil c then acc else taxpy c L (t.getD y (tz L)) acc)
        (tks a L (t.getD x1 (tz L)))

/-! ### the checks -/

def twf : (L : List (List Ir)) → Tens L → Bool
  | [], _ => true
  | s :: L, t => t.length == irDim s && t.all (twf L)

def shapeCheck (c : Cfg) : Bool := c.Q.length == c.D && c.Q.all (twf c.irIn)

/-- the recomputed group is non-empty, its signs are `±1`, it contains the formula's terms, and permuting a valid
    multi-index by a group element gives a valid multi-index (indices exchanged by the formula have equal dimension) -/
def groupCheck (c : Cfg) : Bool :=
  let G := c.group
  !G.isEmpty && (G.all fun a => a.1 == 1 || a.1 == -1) && (c.terms.all fun t => G.contains t) &&
  allIdxL c.irIn fun x => G.all fun a => validIdxL c.irIn (act x a.2)

/-- (i) `Q Qᵀ = 1` (pairs `z ≤ z'`) -/
def orthoRow (c : Cfg) (z : Nat) : Bool :=
  allRange c.D fun z' =>
    Nat.blt z' z || (tdot c.irIn (c.row z) (c.row z') - (if z == z' then SqrtQ.one else [])).isZero
def orthoCheck (c : Cfg) : Bool := allRange c.D (orthoRow c)

def sgnMul (s : Int) (v : SqrtQ) : SqrtQ := if s == 1 then v else -v

/-- (ii) every row satisfies every formula of the group: `Q[z, x] = s · Q[z, x∘p]` -/
def symRow (c : Cfg) (z : Nat) : Bool :=
  allIdxL c.irIn fun x => c.group.all fun a =>
    (tget c.irIn (c.row z) x - sgnMul a.1 (tget c.irIn (c.row z) (act x a.2))).isZero
def symCheck (c : Cfg) : Bool := allRange c.D (symRow c)

/-- `|G| · (QᵀQ)[x, ·]` as a tensor: `Σ_z (|G| · Q[z,x]) · Q[z, ·]` -/
def mRow (c : Cfg) (x : List Nat) : Tens c.irIn :=
  (List.range c.D).foldl
    (fun acc z => let v := tget c.irIn (c.row z) x
      bif isNil v then acc else taxpy (SqrtQ.scale (Q.ofNat c.group.length) v) c.irIn (c.row z) acc)
    (tfull c.irIn)

/-- subtract `s` at `x∘p` for every `(s, p)` of the group -/
def subTargets (L : List (List Ir)) (x : List Nat) : List SPerm → Tens L → Tens L
  | [], t => t
  | a :: G, t => subTargets L x G (tupd (fun e => e - SqrtQ.ofInt a.1) L t (act x a.2))

/-- (iii) `|G| · (QᵀQ)[x, y] = Σ_{(s,p) ∈ G, x∘p = y} s`, i.e. `QᵀQ` is the group average -/
def firstDim : List (List Ir) → Nat
  | [] => 1
  | s :: _ => irDim s

/-- `p (k :: t)` for all multi-indices `t` of the remaining indices -/
def allIdxTail : (L : List (List Ir)) → Nat → (List Nat → Bool) → Bool
  | [], _, p => p []
  | _ :: L, k, p => allIdxL L fun t => p (k :: t)

/-- rows `x = (k, ·)` of the identity -/
def complRow (c : Cfg) (k : Nat) : Bool :=
  allIdxTail c.irIn k fun x => tallZero c.irIn (subTargets c.irIn x c.group (mRow c x))
def complCheck (c : Cfg) : Bool := allRange (firstDim c.irIn) (complRow c)

/-- number of rows = number of non-cancelling orbits of `reduce_permutation` (C17) -/
def countCheck (c : Cfg) : Bool := c.D == (reduceCore c.group c.dims).length

/-- row `z` of `X_out · Q` -/
def lhsRow (c : Cfg) (Xo : Mat) (z : Nat) : Tens c.irIn :=
  (List.range c.D).foldl
    (fun acc z' => let v := Xo.get z z'; bif isNil v then acc else taxpy v c.irIn (c.row z') acc)
    (tfull c.irIn)

/-- (iv) `X_out^a · Q = Q · (Kronecker sum of the index generators X^a)` -/
def interRow (c : Cfg) (a : Nat) (z : Nat) : Bool :=
  teq c.irIn (lhsRow c (bdMat a c.irOut) z) (tks a c.irIn (c.row z))
def interCheck (c : Cfg) (a : Nat) : Bool := allRange c.D (interRow c a)

def parIdx : List (List Ir) → List Nat → Bool
  | irs :: rest, x :: xs => xor (parAt irs x) (parIdx rest xs)
  | _, _ => false

/-- (v) a non-zero entry couples components whose parities multiply to the row's parity -/
def parityRow (c : Cfg) (z : Nat) : Bool :=
  allIdxL c.irIn fun x => isNil (tget c.irIn (c.row z) x) || parAt c.irOut z == parIdx c.irIn x
def parityCheck (c : Cfg) : Bool := allRange c.D (parityRow c)

/-! ### `main`: the coefficient polynomials of the FX program are `Σ_x Q[z,x] · x₁[b,x₁] ⋯ xₙ[b,xₙ]` -/

/-- variable id of component `k` of batch row `b` of each input: input `j` occupies `B·d_j` consecutive ids -/
def varBases (B b : Nat) : Nat → List (List Ir) → List Nat
  | _, [] => []
  | off, s :: L => (off + b * irDim s) :: varBases B b (off + B * irDim s) L

/-- the terms `Q[z,x] · Π_k var(base_k + x_k)` in row-major order of `x` (zero coefficients skipped) -/
def tterms : (L : List (List Ir)) → Tens L → List Nat → Mono → List (Mono × SqrtQ)
  | [], v, _, m => bif isNil v then [] else [(m, v)]
  | _ :: _, _, [], _ => []
  | s :: L, t, base :: bases, m =>
    (List.range (irDim s)).flatMap fun k => tterms L (t.getD k (tz L)) bases (m ++ [base + k])

def expPoly (c : Cfg) (B b z : Nat) : Poly := tterms c.irIn (c.row z) (varBases B b 0 c.irIn) []

/-- output `i = b·D + z` of the program has the expected coefficient polynomial -/
def progRow (c : Cfg) (B : Nat) (prog : List IR.Node) (i : Nat) : Bool :=
  Poly.beq ((IR.interpPoly prog).getD i []) (expPoly c B (i / c.D) (i % c.D))
def progLen (c : Cfg) (B : Nat) (prog : List IR.Node) : Bool := (IR.interpPoly prog).length == B * c.D
def progCheck (c : Cfg) (B : Nat) (prog : List IR.Node) : Bool :=
  progLen c B prog && allRange (B * c.D) (progRow c B prog)

theorem progCheck_of {c : Cfg} {B : Nat} {prog : List IR.Node} (h1 : progLen c B prog = true)
    (h2 : allRange (B * c.D) (progRow c B prog) = true) : progCheck c B prog = true := by
  simp [progCheck, h1, h2]

end E3nnVerif.Model.RTP
