import E3nnVerif.Model.Scalar
/-
Scalar-generic model of every deterministic function of `e3nn/o3/_rotation.py`, one batch element at a
time (the real functions are element-wise over the leading batch dims; broadcasting and stacking are
checked by the harness).  Written over the law-free `[Scalar K]`: executed at `Float` by
`drivers/C12.lean`, theorems at `ℝ` in `Props/C12.lean`.

Semantics that are modelled explicitly
  * `torch.nn.functional.normalize(v, dim=-1)`  =  `v / max(‖v‖₂, 1e-12)`   (so `normalize 0 = 0`,
    and vectors shorter than 1e-12 are NOT made unit),
  * `x.clamp(-1, 1)` = `min (max x (-1)) 1`,
  * `assert torch.allclose(torch.det(R), R.new_tensor(1))`  (rtol 1e-5, atol 1e-8) in `matrix_to_angles`
    and `matrix_to_axis_angle`: the functions return `none` (the real code raises `AssertionError`);
    every function that calls one of them inherits the guard,
  * `atan2 0 0 = 0`, `acos` on `[-1,1]`.
The `rand_*` functions are `angles_to_*` applied to random angles; they have no model of their own.
-/
namespace E3nnVerif.Rotation
open E3nnVerif Scalar

structure Vec3 (K : Type) where
  x : K
  y : K
  z : K

structure Quat (K : Type) where
  w : K
  x : K
  y : K
  z : K

/-- row-major 3×3 matrix: `mij` is row `i`, column `j` -/
structure Mat3 (K : Type) where
  m00 : K
  m01 : K
  m02 : K
  m10 : K
  m11 : K
  m12 : K
  m20 : K
  m21 : K
  m22 : K

structure Angles (K : Type) where
  alpha : K
  beta : K
  gamma : K

structure AxisAngle (K : Type) where
  axis : Vec3 K
  angle : K

variable {K : Type} [Scalar K]

/-! ### small helpers (torch primitives) -/

/-- default `eps` of `torch.nn.functional.normalize` -/
def eps : K := Scalar.ofFrac 1 1000000000000
/-- default `atol` of `torch.allclose` -/
def atol : K := Scalar.ofFrac 1 100000000
/-- default `rtol` of `torch.allclose` -/
def rtol : K := Scalar.ofFrac 1 100000

/-- `x.clamp(-1, 1)` -/
def clamp1 (a : K) : K := Scalar.min (Scalar.max a (-(Scalar.one : K))) Scalar.one

def Vec3.normSq (v : Vec3 K) : K := v.x * v.x + v.y * v.y + v.z * v.z
def Vec3.norm (v : Vec3 K) : K := Scalar.sqrt v.normSq

/-- `torch.nn.functional.normalize(v, p=2, dim=-1, eps=1e-12)` -/
def normalize (v : Vec3 K) : Vec3 K :=
  let d : K := Scalar.max v.norm eps
  ⟨v.x / d, v.y / d, v.z / d⟩

def Vec3.clamp1 (v : Vec3 K) : Vec3 K := ⟨Rotation.clamp1 v.x, Rotation.clamp1 v.y, Rotation.clamp1 v.z⟩

namespace Mat3
def one : Mat3 K := ⟨Scalar.one, Scalar.zero, Scalar.zero, Scalar.zero, Scalar.one, Scalar.zero, Scalar.zero, Scalar.zero, Scalar.one⟩

def mul (A B : Mat3 K) : Mat3 K :=
  ⟨A.m00 * B.m00 + A.m01 * B.m10 + A.m02 * B.m20,
   A.m00 * B.m01 + A.m01 * B.m11 + A.m02 * B.m21,
   A.m00 * B.m02 + A.m01 * B.m12 + A.m02 * B.m22,
   A.m10 * B.m00 + A.m11 * B.m10 + A.m12 * B.m20,
   A.m10 * B.m01 + A.m11 * B.m11 + A.m12 * B.m21,
   A.m10 * B.m02 + A.m11 * B.m12 + A.m12 * B.m22,
   A.m20 * B.m00 + A.m21 * B.m10 + A.m22 * B.m20,
   A.m20 * B.m01 + A.m21 * B.m11 + A.m22 * B.m21,
   A.m20 * B.m02 + A.m21 * B.m12 + A.m22 * B.m22⟩

def transpose (A : Mat3 K) : Mat3 K :=
  ⟨A.m00, A.m10, A.m20, A.m01, A.m11, A.m21, A.m02, A.m12, A.m22⟩

def mulVec (A : Mat3 K) (v : Vec3 K) : Vec3 K :=
  ⟨A.m00 * v.x + A.m01 * v.y + A.m02 * v.z,
   A.m10 * v.x + A.m11 * v.y + A.m12 * v.z,
   A.m20 * v.x + A.m21 * v.y + A.m22 * v.z⟩

def det (A : Mat3 K) : K :=
  A.m00 * (A.m11 * A.m22 - A.m12 * A.m21)
  - A.m01 * (A.m10 * A.m22 - A.m12 * A.m20)
  + A.m02 * (A.m10 * A.m21 - A.m11 * A.m20)

def trace (A : Mat3 K) : K := A.m00 + A.m11 + A.m22
end Mat3

/-- `torch.allclose(torch.det(R), R.new_tensor(1))`: `|det R − 1| ≤ atol + rtol·|1|` -/
def detIsOne (R : Mat3 K) : Bool :=
  Scalar.le (Scalar.abs (R.det - Scalar.one)) (atol + rtol * Scalar.abs (Scalar.one : K))

/-! ### identity constructors -/

def identity_angles : Angles K := ⟨Scalar.zero, Scalar.zero, Scalar.zero⟩
def identity_quaternion : Quat K := ⟨Scalar.one, Scalar.zero, Scalar.zero, Scalar.zero⟩

/-! ### elementary rotations -/

def matrix_x (angle : K) : Mat3 K :=
  let c : K := Scalar.cos angle
  let s : K := Scalar.sin angle
  let o : K := Scalar.one
  let z : K := Scalar.zero
  ⟨o, z, z,
   z, c, -s,
   z, s, c⟩

def matrix_y (angle : K) : Mat3 K :=
  let c : K := Scalar.cos angle
  let s : K := Scalar.sin angle
  let o : K := Scalar.one
  let z : K := Scalar.zero
  ⟨c, z, s,
   z, o, z,
   -s, z, c⟩

def matrix_z (angle : K) : Mat3 K :=
  let c : K := Scalar.cos angle
  let s : K := Scalar.sin angle
  let o : K := Scalar.one
  let z : K := Scalar.zero
  ⟨c, -s, z,
   s, c, z,
   z, z, o⟩

/-! ### points on the sphere -/

def angles_to_xyz (alpha beta : K) : Vec3 K :=
  ⟨Scalar.sin beta * Scalar.sin alpha, Scalar.cos beta, Scalar.sin beta * Scalar.cos alpha⟩

/-- returns `(alpha, beta)` -/
def xyz_to_angles (xyz : Vec3 K) : K × K :=
  let v := (normalize xyz).clamp1
  let beta : K := Scalar.acos v.y
  let alpha : K := Scalar.atan2 v.x v.z
  (alpha, beta)

/-! ### Euler angles (YXY) -/

/-- `matrix_y(alpha) @ matrix_x(beta) @ matrix_y(gamma)` (python `@` associates to the left) -/
def angles_to_matrix (alpha beta gamma : K) : Mat3 K :=
  ((matrix_y alpha).mul (matrix_x beta)).mul (matrix_y gamma)

def matrix_to_angles (R : Mat3 K) : Option (Angles K) :=
  if detIsOne R then
    let x := R.mulVec ⟨Scalar.zero, Scalar.one, Scalar.zero⟩
    let ab := xyz_to_angles x
    let R' := (angles_to_matrix ab.1 ab.2 Scalar.zero).transpose.mul R
    let c : K := Scalar.atan2 R'.m02 R'.m00
    some ⟨ab.1, ab.2, c⟩
  else none

def compose_angles (a1 b1 c1 a2 b2 c2 : K) : Option (Angles K) :=
  matrix_to_angles ((angles_to_matrix a1 b1 c1).mul (angles_to_matrix a2 b2 c2))

def inverse_angles (a b c : K) : Angles K := ⟨-c, -b, -a⟩

/-! ### quaternions -/

def compose_quaternion (q1 q2 : Quat K) : Quat K :=
  ⟨q1.w * q2.w - q1.x * q2.x - q1.y * q2.y - q1.z * q2.z,
   q1.x * q2.w + q1.w * q2.x + q1.y * q2.z - q1.z * q2.y,
   q1.w * q2.y - q1.x * q2.z + q1.y * q2.w + q1.z * q2.x,
   q1.w * q2.z + q1.x * q2.y - q1.y * q2.x + q1.z * q2.w⟩

def inverse_quaternion (q : Quat K) : Quat K := ⟨q.w, -q.x, -q.y, -q.z⟩

def Quat.normSq (q : Quat K) : K := q.w * q.w + q.x * q.x + q.y * q.y + q.z * q.z

def axis_angle_to_quaternion (xyz : Vec3 K) (angle : K) : Quat K :=
  let n := normalize xyz
  let c : K := Scalar.cos (angle / Scalar.two)
  let s : K := Scalar.sin (angle / Scalar.two)
  ⟨c, n.x * s, n.y * s, n.z * s⟩

def quaternion_to_axis_angle (q : Quat K) : AxisAngle K :=
  let angle : K := Scalar.two * Scalar.acos (clamp1 q.w)
  let axis := normalize ⟨q.x, q.y, q.z⟩
  ⟨axis, angle⟩

/-! ### axis-angle -/

def matrix_to_axis_angle (R : Mat3 K) : Option (AxisAngle K) :=
  if detIsOne R then
    let tr : K := R.m00 + R.m11 + R.m22
    let angle : K := Scalar.acos (clamp1 ((tr - Scalar.one) / Scalar.two))
    let axis : Vec3 K := ⟨R.m21 - R.m12, R.m02 - R.m20, R.m10 - R.m01⟩
    some ⟨normalize axis, angle⟩
  else none

def axis_angle_to_matrix (axis : Vec3 K) (angle : K) : Mat3 K :=
  let ab := xyz_to_angles axis
  let R := angles_to_matrix ab.1 ab.2 Scalar.zero
  let Ry := matrix_y angle
  (R.mul Ry).mul R.transpose

def angles_to_axis_angle (alpha beta gamma : K) : Option (AxisAngle K) :=
  matrix_to_axis_angle (angles_to_matrix alpha beta gamma)

def axis_angle_to_angles (axis : Vec3 K) (angle : K) : Option (Angles K) :=
  matrix_to_angles (axis_angle_to_matrix axis angle)

/-! ### remaining conversions -/

def quaternion_to_matrix (q : Quat K) : Mat3 K :=
  let aa := quaternion_to_axis_angle q
  axis_angle_to_matrix aa.axis aa.angle

def matrix_to_quaternion (R : Mat3 K) : Option (Quat K) :=
  (matrix_to_axis_angle R).map fun aa => axis_angle_to_quaternion aa.axis aa.angle

def quaternion_to_angles (q : Quat K) : Option (Angles K) :=
  matrix_to_angles (quaternion_to_matrix q)

def angles_to_quaternion (alpha beta gamma : K) : Quat K :=
  let qa := axis_angle_to_quaternion ⟨Scalar.zero, Scalar.one, Scalar.zero⟩ alpha
  let qb := axis_angle_to_quaternion ⟨Scalar.one, Scalar.zero, Scalar.zero⟩ beta
  let qc := axis_angle_to_quaternion ⟨Scalar.zero, Scalar.one, Scalar.zero⟩ gamma
  compose_quaternion qa (compose_quaternion qb qc)

def compose_axis_angle (axis1 : Vec3 K) (angle1 : K) (axis2 : Vec3 K) (angle2 : K) : AxisAngle K :=
  quaternion_to_axis_angle
    (compose_quaternion (axis_angle_to_quaternion axis1 angle1) (axis_angle_to_quaternion axis2 angle2))

end E3nnVerif.Rotation
