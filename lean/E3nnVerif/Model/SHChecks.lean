import E3nnVerif.IR.SExpr
import E3nnVerif.Model.Wigner
/-
Kernel-decidable checks on the symbolic spherical harmonics (the polynomials obtained by symbolic execution of
the translated Python source).  Meaning over ℝ: `Sound/SHChecks.lean`.
-/
namespace E3nnVerif.Model.SH
open E3nnVerif.Exact E3nnVerif.IR E3nnVerif.Model.Wigner

/-- the polynomials `Y^l_m`, `[l][m]`, selected from the evaluated program by the index table -/
def select (vals : List Poly) (index : List (List Nat)) : List (List Poly) :=
  index.map fun row => row.map fun i => vals.getD i []

def polyGet (Y : List (List Poly)) (l m : Nat) : Poly := (Y.getD l []).getD m []

def sumPolys (ps : List Poly) : Poly := ps.foldl (fun acc p => acc + p) []

/-- `x² + y² + z²` -/
def r2 : Poly := Poly.var 0 * Poly.var 0 + Poly.var 1 * Poly.var 1 + Poly.var 2 * Poly.var 2

/-- every component is homogeneous of degree `l` -/
def homogCheck (Y : List (List Poly)) (l : Nat) : Bool :=
  (Y.getD l []).length == 2 * l + 1 && (Y.getD l []).all (Poly.homogeneous l)

/-- `Σ_m (Y^l_m)² = (2l+1)·(x²+y²+z²)^l` -/
def unsoldCheck (Y : List (List Poly)) (l : Nat) : Bool :=
  Poly.beq (sumPolys ((Y.getD l []).map fun p => p * p))
           (Poly.scale (SqrtQ.ofQ (Q.ofNat (2 * l + 1))) (Poly.pow r2 l))

def laplacian (p : Poly) : Poly :=
  Poly.deriv 0 (Poly.deriv 0 p) + Poly.deriv 1 (Poly.deriv 1 p) + Poly.deriv 2 (Poly.deriv 2 p)

/-- formal Laplacian vanishes -/
def harmonicCheck (Y : List (List Poly)) (l : Nat) : Bool :=
  (Y.getD l []).all fun p => (laplacian p).isZero

/-- `c_l = (2l+3)/√(3(l+1))` -/
def recConst (l : Nat) : SqrtQ :=
  SqrtQ.scale (Q.mk' (2 * l + 3) (3 * (l + 1))) (sqrtConst (3 * (l + 1)))

/-- `Σ_{i<n} Σ_{j<m} C[i][j][k]·A_i·B_j` as a polynomial -/
def bilPoly (C : T3) (n m : Nat) (A B : List Poly) (k : Nat) : Poly :=
  (List.range n).foldl (fun acc i =>
    (List.range m).foldl (fun acc j =>
      let c := C.get i j k
      bif c.isZero then acc else acc + Poly.scale c (A.getD i [] * B.getD j [])) acc) []

/-- the recurrence the generator script used: `Y^{l+1}_k = c_l Σ_ij C^{l,1,l+1}_{ijk} Y^l_i Y^1_j` -/
def recurrenceCheck (Y : List (List Poly)) (l : Nat) : Bool :=
  let C := w3j l 1 (l + 1)
  let A := Y.getD l []
  let B := Y.getD 1 []
  (List.range (2 * l + 3)).all fun k =>
    Poly.beq (polyGet Y (l + 1) k) (Poly.scale (recConst l) (bilPoly C (2 * l + 1) 3 A B k))

/-- `Y^0 = 1`, `Y^1 = √3·(x,y,z)` -/
def baseCheck (Y : List (List Poly)) : Bool :=
  Poly.beq (polyGet Y 0 0) Poly.one &&
  (List.range 3).all fun k => Poly.beq (polyGet Y 1 k) (Poly.scale (sqrtConst 3) (Poly.var k))

/-- the `torch.stack` lists return exactly `sh_0_0 … sh_k_{2k}` in order -/
def stacksCheck (index stacks : List (List Nat)) : Bool :=
  (List.range stacks.length).all fun k =>
    stacks.getD k [] == ((index.take (k + 1)).flatMap id)

end E3nnVerif.Model.SH
