import E3nnVerif.Model.S2Grid
import E3nnVerif.Exact.SqrtQ
/-
Model of `o3.Legendre(range(lmax+1))` (`e3nn/o3/_angular_spherical_harmonics.py`): the module is an
`fx.GraphModule` whose graph evaluates, for every flat index `i = l² + k` (`m = k − l`), a polynomial
`Σ c·z^zn·y^yn` with float coefficients written by sympy.  The translator `harness/leg2poly.py` interprets the
graph of the running code and emits the table `Generated/Legendre.lean` with every coefficient lifted to
`(n/d)·√r / √π`.  This file gives the table its meaning (scalar-generic: `Float` in the driver, `ℝ` in the
theorems) and the kernel-computable orthonormality check used by `Cert/Leg`.
-/
namespace E3nnVerif.Legendre
open E3nnVerif E3nnVerif.Exact

/-- one monomial `(n/d)·√r/√π · z^zn · y^yn` -/
structure Mono where
  zn : Nat
  yn : Nat
  n : Int
  d : Nat
  r : Nat
  deriving Repr

abbrev Table := List (List Mono)

section Eval
variable {K : Type} [Scalar K]

def powK (x : K) : Nat → K
  | 0 => Scalar.one
  | n + 1 => powK x n * x

def monoEval (z y : K) (t : Mono) : K :=
  Scalar.ofFrac t.n t.d * Scalar.sqrt (Scalar.ofNat t.r) * powK z t.zn * powK y t.yn

def rowSum (z y : K) : List Mono → K
  | [] => Scalar.zero
  | t :: ts => monoEval z y t + rowSum z y ts

/-- value of one output slot of `Legendre(...)(z, y)` -/
def rowEval (z y : K) (row : List Mono) : K := rowSum z y row / Scalar.sqrt Scalar.pi

/-- `shb[j, i]` of `spherical_harmonics_s2_grid`: `Legendre(range(lmax+1))(betas.cos(), betas.sin().abs())` -/
def legendreGrid (tab : Table) (N j i : Nat) : K :=
  rowEval (Scalar.cos (S2Grid.betas N j : K)) (Scalar.abs (Scalar.sin (S2Grid.betas N j : K))) (tab.getD i [])

/-- `spherical_harmonics_alpha_beta(range(lmax+1), α, β, normalization)[l² + k]`
(`SphericalHarmonicsAlphaBeta.forward`: `Legendre(cos β, sin β)` — the signed sine — times `spherical_harmonics_alpha`,
then the per-normalisation factor) -/
def shAlphaBeta (tab : Table) (kind : S2Grid.Norm) (l k : Nat) (α β : K) : K :=
  let v : K := S2Grid.shaEntry l α k * rowEval (Scalar.cos β) (Scalar.sin β) (tab.getD (l ^ 2 + k) [])
  match kind with
  | .integral => v
  | .component => v * Scalar.sqrt (Scalar.ofNat 4 * Scalar.pi)
  | .norm => v / (Scalar.sqrt (Scalar.ofNat (2 * l + 1)) / Scalar.sqrt (Scalar.ofNat 4 * Scalar.pi))

end Eval

/-! ### kernel-computable orthonormality check

Dense univariate polynomials in `z` over `ℚ(√n)`, lowest degree first. -/

abbrev UPoly := List SqrtQ

def upAdd : UPoly → UPoly → UPoly
  | [], q => q
  | p, [] => p
  | a :: p, b :: q => (a + b) :: upAdd p q

def upScale (c : SqrtQ) (p : UPoly) : UPoly := p.map (fun a => c * a)
def upNeg (p : UPoly) : UPoly := p.map SqrtQ.neg
def upShift (p : UPoly) : UPoly := SqrtQ.zero :: p

def upMul : UPoly → UPoly → UPoly
  | [], _ => []
  | a :: p, q => upAdd (upScale a q) (upShift (upMul p q))

/-- times `(1 − z²)` -/
def upMulOmz2 (p : UPoly) : UPoly := upAdd p (upNeg (upShift (upShift p)))

def upMulOmz2Pow : Nat → UPoly → UPoly
  | 0, p => p
  | m + 1, p => upMulOmz2 (upMulOmz2Pow m p)

def upMono (zn : Nat) (c : SqrtQ) : UPoly := List.replicate zn SqrtQ.zero ++ [c]

/-- the `z`-part `R` of a row `y^m · R(z)/√π`; `none` unless every monomial carries exactly `y^m` (and a
positive denominator) -/
def rowPoly (m : Nat) : List Mono → Option UPoly
  | [] => some []
  | t :: ts =>
    if t.yn = m ∧ 0 < t.d then
      match rowPoly m ts with
      | some p => some (upAdd (upMono t.zn (SqrtQ.mk t.n t.d t.r)) p)
      | none => none
    else none

/-- `½∫_{-1}^{1} z^k p(z) dz` -/
def upInt : Nat → UPoly → SqrtQ
  | _, [] => SqrtQ.zero
  | k, c :: p => (if k % 2 = 0 then SqrtQ.scale (Q.mk' 1 (k + 1)) c else SqrtQ.zero) + upInt (k + 1) p

def absDiff (a b : Nat) : Nat := if a ≤ b then b - a else a - b

/-- orthonormality of the rows `(l, k)` and `(l', k')` (same order `m`) under `½∫ (·) sin β dβ`, times `π`:
the product `y^{2m} R R' = (1−z²)^m R R'` has degree `≤ l + l'` and integrates to `δ_{ll'}/4` -/
def krCheckPolys (l l' m : Nat) : Option UPoly → Option UPoly → Bool
  | some p, some q =>
    decide ((upMulOmz2Pow m (upMul p q)).length ≤ l + l' + 1) &&
      SqrtQ.beq (upInt 0 (upMulOmz2Pow m (upMul p q))) (if l = l' then SqrtQ.ofQ (Q.mk' 1 4) else SqrtQ.zero)
  | _, _ => false

def krCheck1 (tab : Table) (l l' k k' : Nat) : Bool :=
  krCheckPolys l l' (absDiff k l) (rowPoly (absDiff k l) (tab.getD (l ^ 2 + k) []))
    (rowPoly (absDiff k l) (tab.getD (l' ^ 2 + k') []))

/-- all pairs with `l' ≤ L` for one `l` -/
def krCheckRow (tab : Table) (L l : Nat) : Bool :=
  (List.range (L + 1)).all fun l' =>
    (List.range (2 * l + 1)).all fun k =>
      -- k' = k − l + l'
      if l ≤ k + l' ∧ k + l' ≤ l + 2 * l' then krCheck1 tab l l' k (k + l' - l) else true

def krCheckAll (tab : Table) (L : Nat) : Bool :=
  (List.range (L + 1)).all fun l => krCheckRow tab L l

end E3nnVerif.Legendre
