import E3nnVerif.Model.S2Grid
import E3nnVerif.Exact.SqrtQ
/-
Model of `o3.Legendre(range(lmax+1))` (`e3nn/o3/_angular_spherical_harmonics.py`): the module is an
`fx.GraphModule` whose graph evaluates, for every flat index `i = l² + k` (`m = k − l`), a polynomial
`Σ c·z^zn·y^yn` with float coefficients written by sympy.  The translator `harness/leg2poly.py` interprets the
graph of the running code and emits the table `Generated/Legendre.lean` with every coefficient lifted to
`(n/d)·√r / √π`.  This file gives the table its meaning (scalar-generic: `Float` in the driver, `ℝ` in the
theorems) and the kernel-computable orthonormality check used by `Cert/Leg`.
-/
namespace E3nnVerif.Legendre
open E3nnVerif E3nnVerif.Exact

/-- one monomial `(n/d)·√r/√π · z^zn · y^yn` -/
structure Mono where
  zn : Nat
  yn : Nat
  n : Int
  d : Nat
  r : Nat
  deriving Repr

abbrev Table := List (List Mono)

section Eval
variable {K : Type} [Scalar K]

def powK (x : K) : Nat → K
  | 0 => Scalar.one
  | n + 1 => powK x n * x

def monoEval (z y : K) (t : Mono) : K :=
  Scalar.ofFrac t.n t.d * Scalar.sqrt (Scalar.ofNat t.r) * powK z t.zn * powK y t.yn

def rowSum (z y : K) : List Mono → K
  | [] => Scalar.zero
  | t :: ts => monoEval z y t + rowSum z y ts

/-- value of one output slot of `Legendre(...)(z, y)` -/
def rowEval (z y : K) (row : List Mono) : K := rowSum z y row / Scalar.sqrt Scalar.pi

/-- `shb[j, i]` of `spherical_harmonics_s2_grid`: `Legendre(range(lmax+1))(betas.cos(), betas.sin().abs())` -/
def legendreGrid (tab : Table) (N j i : Nat) : K :=
  rowEval (Scalar.cos (S2Grid.betas N j : K)) (Scalar.abs (Scalar.sin (S2Grid.betas N j : K))) (tab.getD i [])

/-- `spherical_harmonics_alpha_beta(range(lmax+1), α, β, normalization)[l² + k]`
(`SphericalHarmonicsAlphaBeta.forward`: `Legendre(cos β, sin β)` — the signed sine — times `spherical_harmonics_alpha`,
then the per-normalisation factor) -/
def shAlphaBeta (tab : Table) (kind : S2Grid.Norm) (l k : Nat) (α β : K) : K :=
  let v : K := S2Grid.shaEntry l α k * rowEval (Scalar.cos β) (Scalar.sin β) (tab.getD (l ^ 2 + k) [])
  match kind with
  | .integral => v
  | .component => v * Scalar.sqrt (Scalar.ofNat 4 * Scalar.pi)
  | .norm => v / (Scalar.sqrt (Scalar.ofNat (2 * l + 1)) / Scalar.sqrt (Scalar.ofNat 4 * Scalar.pi))

end Eval

/-! ### kernel-computable orthonormality check

Dense univariate polynomials in `z` over `ℚ(√n)`, lowest degree first. -/

abbrev UPoly := List SqrtQ

def upAdd : UPoly → UPoly → UPoly
  | [], q => q
  | p, [] => p
  | a :: p, b :: q => (a + b) :: upAdd p q

def upScale (c : SqrtQ) (p : UPoly) : UPoly := p.map (fun a => c * a)
def upNeg (p : UPoly) : UPoly := p.map SqrtQ.neg
def upShift (p : UPoly) : UPoly := SqrtQ.zero :: p

def upMul : UPoly → UPoly → UPoly
  | [], _ => []
  | a :: p, q => upAdd (upScale a q) (upShift (upMul p q))

/-- times `(1 − z²)` -/
def upMulOmz2 (p : UPoly) : UPoly := upAdd p (upNeg (upShift (upShift p)))

def upMulOmz2Pow : Nat → UPoly → UPoly
  | 0, p => p
  | m + 1, p => upMulOmz2 (upMulOmz2Pow m p)

def upMono (zn : Nat) (c : SqrtQ) : UPoly := List.replicate zn SqrtQ.zero ++ [c]

/-- the `z`-part `R` of a row `y^m · R(z)/√π`; `none` unless every monomial carries exactly `y^m` (and a
positive denominator) -/
def rowPoly (m : Nat) : List Mono → Option UPoly
  | [] => some []
  | t :: ts =>
    if t.yn = m ∧ 0 < t.d then
      match rowPoly m ts with
      | some p => some (upAdd (upMono t.zn (SqrtQ.mk t.n t.d t.r)) p)
      | none => none
    else none

/-- `½∫_{-1}^{1} z^k p(z) dz` -/
def upInt : Nat → UPoly → SqrtQ
  | _, [] => SqrtQ.zero
  | k, c :: p => (if k % 2 = 0 then SqrtQ.scale (Q.mk' 1 (k + 1)) c else SqrtQ.zero) + upInt (k + 1) p

def absDiff (a b : Nat) : Nat := if a ≤ b then b - a else a - b

/-- orthonormality of the rows `(l, k)` and `(l', k')` (same order `m`) under `½∫ (·) sin β dβ`, times `π`:
the product `y^{2m} R R' = (1−z²)^m R R'` has degree `≤ l + l'` and integrates to `δ_{ll'}/4` -/
def krCheckPolys (l l' m : Nat) : Option UPoly → Option UPoly → Bool
  | some p, some q =>
    decide ((upMulOmz2Pow m (upMul p q)).length ≤ l + l' + 1) &&
      SqrtQ.beq (upInt 0 (upMulOmz2Pow m (upMul p q))) (if l = l' then SqrtQ.ofQ (Q.mk' 1 4) else SqrtQ.zero)
  | _, _ => false

def krCheck1 (tab : Table) (l l' k k' : Nat) : Bool :=
  krCheckPolys l l' (absDiff k l) (rowPoly (absDiff k l) (tab.getD (l ^ 2 + k) []))
    (rowPoly (absDiff k l) (tab.getD (l' ^ 2 + k') []))

/-- all pairs with `l' ≤ L` for one `l` -/
def krCheckRow (tab : Table) (L l : Nat) : Bool :=
  (List.range (L + 1)).all fun l' =>
    (List.range (2 * l + 1)).all fun k =>
      -- k' = k − l + l'
      if l ≤ k + l' ∧ k + l' ≤ l + 2 * l' then krCheck1 tab l l' k (k + l' - l) else true

def krCheckAll (tab : Table) (L : Nat) : Bool :=
  (List.range (L + 1)).all fun l => krCheckRow tab L l

/-! ### the documented formula of `_sympy_legendre`

`P_{l,m}(z, y) = √((2l+1)/(4π) · (l−m)!/(l+m)!) · y^m · 1/(2^l l!) · d^{l+m}/dz^{l+m} (z² − 1)^l`   (no Condon–Shortley phase, `P(l,−m) = P(l,m)`).
`stdCheck1` compares a row of the regenerated table with this formula, coefficient by coefficient (squares and signs, all rational). -/

def addInt : List Int → List Int → List Int
  | [], q => q
  | p, [] => p
  | a :: p, b :: q => (a + b) :: addInt p q

/-- `(z² − 1) · p` -/
def mulZ2m1 (p : List Int) : List Int := addInt (0 :: 0 :: p) (p.map fun c => -c)

def z2m1Pow : Nat → List Int
  | 0 => [1]
  | l + 1 => mulZ2m1 (z2m1Pow l)

def derivAux : Nat → List Int → List Int
  | _, [] => []
  | k, c :: cs => ((k : Int) * c) :: derivAux (k + 1) cs

/-- `d/dz` on coefficient lists (lowest degree first) -/
def derivInt : List Int → List Int
  | [] => []
  | _ :: cs => derivAux 1 cs

def derivIter : Nat → List Int → List Int
  | 0, p => p
  | n + 1, p => derivInt (derivIter n p)

def fact : Nat → Nat
  | 0 => 1
  | n + 1 => (n + 1) * fact n

/-- coefficients of `d^{l+m}/dz^{l+m} (z² − 1)^l` -/
def rodriguesInt (l m : Nat) : List Int := derivIter (l + m) (z2m1Pow l)

/-- `1/(2^l l!)` -/
def rodScale (l : Nat) : Q := Q.mk' 1 (2 ^ l * fact l)

/-- `(2l+1)/4 · (l−m)!/(l+m)!`  (the square of the normalisation constant of `_sympy_legendre`, times `π`) -/
def normSq (l m : Nat) : Q := Q.mk' (((2 * l + 1) * fact (l - m) : Nat) : Int) (4 * fact (l + m))

def sameSign (a t : Q) : Bool := (decide (0 < a.n) && decide (0 < t.n)) || (decide (a.n < 0) && decide (t.n < 0))

/-- `c = t·√q` for a table coefficient `c` (zero or a single term `a√r`) -/
def coefOK (q : Q) (c : SqrtQ) (t : Q) : Bool :=
  match c with
  | [] => t.isZero
  | [(r, a)] => decide (0 < r) && Q.beq (a * a * Q.ofNat r) (t * t * q) && sameSign a t
  | _ => false

def allOK (q : Q) : UPoly → List Q → Bool
  | [], [] => true
  | c :: p, t :: E => coefOK q c t && allOK q p E
  | _, _ => false

/-- the row `(l, k)` of the table IS the documented formula: `√(normSq/π) · y^m · (1/(2^l l!)) d^{l+m}/dz^{l+m}(z²−1)^l` -/
def stdCheck1 (tab : Table) (l k : Nat) : Bool :=
  let m := absDiff k l
  match rowPoly m (tab.getD (l ^ 2 + k) []) with
  | some p => allOK (normSq l m) p ((rodriguesInt l m).map fun c => Q.ofInt c * rodScale l)
  | none => false

def stdCheck (tab : Table) (l : Nat) : Bool := (List.range (2 * l + 1)).all fun k => stdCheck1 tab l k

end E3nnVerif.Legendre
