import E3nnVerif.Model.WignerChecks
import E3nnVerif.Model.Irreps
import E3nnVerif.Model.Scalar
/-
C03 — the discrete / exact half of the model of `o3.wigner_D`, `Irrep.D_from_*`, `Irreps.D_from_*`
(e3nn/o3/_wigner.py:60-97, e3nn/o3/_irreps.py:113-216, 646-722, e3nn/math/_linalg.py:6-19).

* kernel-decidable facts about the exact generator tables of `Model/Wigner.lean`
    `genYBlockCheck l` : `so3_generators(l)[1]` has the entry `l − r` at `(r, 2l − r)` and 0 elsewhere
                         (pairs the components `(l−m, l+m)` into blocks `m·J`),
    `genL1Check`       : for `l = 1` the three generators are the so(3) basis `X_a[i,k] = −ε_{aik}`
                         in the library's axis order,
* the closed form of `matrix_exp(θ·X[1])` as a table of trigonometric terms (`yRotTerms`; evaluated at a
  `Scalar` by `yRot`),
* `direct_sum` exactly as `_linalg.py` writes it (running offsets `i, j`; `matrices[0]` of an empty list raises
  `IndexError`), the list of blocks `Irreps.D_from_angles` hands to it, and the parity factor `p ** k`.

The analytic half (`matrix_exp`) is `Props/C04.wignerD` (Mathlib's `NormedSpace.exp` over ℝ); the harness evaluates
the same composition in float64 from the exact generator tables printed by `drivers/C04.lean`.
No Mathlib import here.
-/
namespace E3nnVerif.Model.WignerD
open E3nnVerif.Exact E3nnVerif.Model.Wigner E3nnVerif.Model.Irreps

/-! ### generator structure checks -/

/-- expected `so3_generators(l)[1][r, c]` -/
def yGenEntry (l r c : Nat) : SqrtQ :=
  if r + c == 2 * l then SqrtQ.ofInt ((l : Int) - (r : Int)) else []

/-- `so3_generators(l)[1]` is the anti-diagonal matrix `(r, 2l − r) ↦ l − r` -/
def genYBlockCheck (l : Nat) : Bool :=
  all2 (2 * l + 1) (2 * l + 1) fun r c => ((so3Gen l 1).get r c - yGenEntry l r c).isZero

/-- Levi-Civita symbol on `{0,1,2}` -/
def eps3 (a b c : Nat) : Int :=
  if (a, b, c) == (0, 1, 2) || (a, b, c) == (1, 2, 0) || (a, b, c) == (2, 0, 1) then 1
  else if (a, b, c) == (0, 2, 1) || (a, b, c) == (2, 1, 0) || (a, b, c) == (1, 0, 2) then -1
  else 0

/-- for `l = 1`: `so3_generators(1)[a][i, k] = −ε_{a i k}`, i.e. `X[a] v = e_a × v` in the order `(x, y, z) = (0, 1, 2)` -/
def genL1Check : Bool :=
  (List.range 3).all fun a =>
    all2 3 3 fun i k => ((so3Gen 1 a).get i k - SqrtQ.ofInt (-(eps3 a i k))).isZero

/-! ### closed form of `matrix_exp(θ · X[1])` -/

/-- one trigonometric term `cos(m θ)` / `sin(m θ)` -/
inductive Trig
  | cos (m : Int)
  | sin (m : Int)
deriving Repr, DecidableEq

/-- entry `(r, c)` of `matrix_exp(θ·X[1])` as a sum of terms: `cos((l−r)θ)` on the diagonal plus `sin((l−r)θ)` on the
anti-diagonal (at the centre `r = c = l` the second term is `sin 0`) -/
def yRotTerms (l r c : Nat) : List Trig :=
  (if r == c then [Trig.cos ((l : Int) - (r : Int))] else []) ++
  (if r + c == 2 * l then [Trig.sin ((l : Int) - (r : Int))] else [])

section
variable {K : Type} [Scalar K]
def Trig.eval (θ : K) : Trig → K
  | .cos m => Scalar.cos (Scalar.ofInt m * θ)
  | .sin m => Scalar.sin (Scalar.ofInt m * θ)

/-- `matrix_exp(θ·X[1])[r, c]` in closed form -/
def yRot (l : Nat) (θ : K) (r c : Nat) : K :=
  (yRotTerms l r c).foldl (fun acc t => acc + t.eval θ) Scalar.zero
end

/-! ### `direct_sum` (e3nn/math/_linalg.py) -/

/-- a square matrix as the code sees it: size and entries -/
structure Block (K : Type) where
  n : Nat
  e : Nat → Nat → K

section
variable {K : Type}

/-- `out[i, j]` after the loop `for x in matrices: out[i0:i0+m, j0:j0+n] = x; i0 += m; j0 += n` over an
`out` initialised with `zero` -/
def dsEntry (zero : K) : List (Block K) → Nat → Nat → K
  | [], _, _ => zero
  | x :: xs, i, j =>
    if i < x.n then (if j < x.n then x.e i j else zero)
    else if j < x.n then zero else dsEntry zero xs (i - x.n) (j - x.n)

def dsDim : List (Block K) → Nat
  | [] => 0
  | x :: xs => x.n + dsDim xs

/-- `direct_sum(*matrices)`; `none` is the `IndexError` raised by `matrices[0]` when no matrix is given -/
def directSum (zero : K) (ms : List (Block K)) : Option (Block K) :=
  match ms with
  | [] => none
  | _ => some ⟨dsDim ms, dsEntry zero ms⟩
end

/-- offsets of the blocks: `(offset, size)` in order -/
def layoutAux : Nat → List Nat → List (Nat × Nat)
  | _, [] => []
  | o, n :: ns => (o, n) :: layoutAux (o + n) ns
def layout (dims : List Nat) : List (Nat × Nat) := layoutAux 0 dims

/-- which block a flat index falls into: `(block number, index inside the block)` -/
def locateAux : Nat → List Nat → Nat → Option (Nat × Nat)
  | _, [], _ => none
  | b, n :: ns, i => if i < n then some (b, i) else locateAux (b + 1) ns (i - n)
def locate (dims : List Nat) (i : Nat) : Option (Nat × Nat) := locateAux 0 dims i

/-! ### parity factor and the blocks of an `Irreps` -/

/-- `self.p ** k` for an integer `k` -/
def parityFactor (p : Parity) (k : Int) : Int :=
  match p with
  | .even => 1
  | .odd => if k % 2 == 0 then 1 else -1

/-- `k = (1 − d)/2` for `d = sign(det R) = ±1` (`D_from_matrix`) -/
def kOfSign (d : Int) : Int := (1 - d) / 2

/-- dimensions of the blocks `[ir for mul, ir in irreps for _ in range(mul)]` -/
def blockDims (x : Irreps) : List Nat := (blocks x).map Irrep.dim

end E3nnVerif.Model.WignerD
