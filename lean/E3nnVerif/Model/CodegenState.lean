/-
C14, part 1b: `CodeGenMixin.__getstate__` / `__setstate__` (e3nn/util/codegen/_mixin.py:55-133) as pure
functions on a state dict.

What is modelled: the `_modules` OrderedDict as an object with identity (a reference into a heap of
ordered association lists), the `__codegen__` list of names, the shallow copy of `__dict__`, the copy
of `_modules`, the per-name serialisation (`fx` → pickle bytes, `torchscript` → `torch.jit.save` bytes,
anything else → `assert False`), the `del out["_modules"][fname]`, and on the way back
`d.pop("__codegen__")`, `nn.Module.__setstate__` (`self.__dict__.update(d)`: the module takes the
`_modules` OBJECT of the state) and `setattr(self, fname, smod)` (writes `self._modules[fname]`:
in place if the name exists, appended otherwise).
What is NOT modelled (correspondence only): that `torch.jit.load(torch.jit.save(m))` and
`pickle.loads(pickle.dumps(gm))` compute the same function — here serialisation keeps an opaque payload.
`codegen_state[fname] = …` is a dict assignment; the model appends to a list: the two differ only when
`__codegen__` contains a name twice, and then `del out["_modules"][fname]` raises `KeyError` before the
state is returned (modelled).
No Mathlib.
-/
namespace E3nnVerif.Model.CodegenState

/-- a child module, as far as `__getstate__` distinguishes them -/
inductive Sub
  | fx (payload : Nat)      -- isinstance(smod, fx.GraphModule)
  | ts (payload : Nat)      -- isinstance(smod, torch.jit.ScriptModule)
  | plain (id : Nat)        -- any other child
  deriving DecidableEq, Repr

/-- `(buffer_type, buffer)` -/
inductive Blob
  | fx (payload : Nat)
  | ts (payload : Nat)
  deriving DecidableEq, Repr

/-- pickle.loads / torch.jit.load -/
def Blob.load : Blob → Sub
  | .fx p => .fx p
  | .ts p => .ts p

/-- the two `isinstance` branches; `none` = `assert False` -/
def Sub.dump? : Sub → Option Blob
  | .fx p => some (.fx p)
  | .ts p => some (.ts p)
  | .plain _ => none

/-- ordered dict with string keys -/
abbrev ODict (α : Type) := List (String × α)

namespace ODict
variable {α : Type}
def getKey? : ODict α → String → Option α
  | [], _ => none
  | (k', v) :: d, k => if k' = k then some v else getKey? d k

def hasKey (d : ODict α) (k : String) : Bool := (getKey? d k).isSome

/-- `d[k] = v` -/
def setKey : ODict α → String → α → ODict α
  | [], k, v => [(k, v)]
  | (k', v') :: d, k, v => if k' = k then (k', v) :: d else (k', v') :: setKey d k v

/-- `del d[k]` (caller checks presence) -/
def delKey (d : ODict α) (k : String) : ODict α := d.filter (fun p => p.1 != k)

def keys (d : ODict α) : List String := d.map Prod.fst
end ODict

abbrev Modules := ODict Sub
/-- heap of `_modules` objects, reference = index -/
abbrev Heap := List Modules

/-- the module object: the rest of `__dict__` (opaque values, shared by the shallow copy), the reference of its
`_modules` dict, and the `__codegen__` attribute (`none`: `_codegen_register` was never called) -/
structure Obj where
  attrs : List (String × Nat)
  modules : Nat
  codegen : Option (List String)
  deriving DecidableEq, Repr

/-- the dict returned by `__getstate__` -/
structure State where
  attrs : List (String × Nat)
  modules : Nat
  codegen : Option (List (String × Blob))
  deriving DecidableEq, Repr

inductive Err
  | attributeError   -- getattr(self, fname) fails
  | assertionError   -- `assert False`: neither GraphModule nor ScriptModule
  | keyError         -- del out["_modules"][fname] on a missing key (name listed twice)
  deriving DecidableEq, Repr

deriving instance DecidableEq for Except

/-- the `for fname in self.__codegen__` loop of `__getstate__`; `orig` is the module's own `_modules`
(read by `getattr`), `out` the copy that is being stripped -/
def getstateLoop (orig : Modules) : List String → Modules → List (String × Blob) →
    Except Err (Modules × List (String × Blob))
  | [], out, cs => .ok (out, cs)
  | f :: fs, out, cs =>
      match orig.getKey? f with
      | none => .error .attributeError
      | some s =>
          match s.dump? with
          | none => .error .assertionError
          | some b =>
              if out.hasKey f then getstateLoop orig fs (out.delKey f) (cs ++ [(f, b)])
              else .error .keyError

/-- `__getstate__` (`_mixin.py:55-101`).  Returns the new heap (one object allocated: the copy of `_modules`)
and the state. -/
def getstate (h : Heap) (o : Obj) : Except Err (Heap × State) :=
  match h[o.modules]? with
  | none => .error .keyError
  | some ms =>
      match o.codegen with
      | none => .ok (h ++ [ms], ⟨o.attrs, h.length, none⟩)
      | some names =>
          match getstateLoop ms names ms [] with
          | .error e => .error e
          | .ok (out, cs) => .ok (h ++ [out], ⟨o.attrs, h.length, some cs⟩)

/-- the variant WITHOUT `out["_modules"] = out["_modules"].copy()` (used only to show that the
no-sharing theorem is not vacuous: here `del` strips the live module) -/
def getstateNoCopy (h : Heap) (o : Obj) : Except Err (Heap × State) :=
  match h[o.modules]? with
  | none => .error .keyError
  | some ms =>
      match o.codegen with
      | none => .ok (h, ⟨o.attrs, o.modules, none⟩)
      | some names =>
          match getstateLoop ms names ms [] with
          | .error e => .error e
          | .ok (out, cs) => .ok (h.set o.modules out, ⟨o.attrs, o.modules, some cs⟩)

/-- `pickle.loads(pickle.dumps(state))` / `copy.deepcopy(state)`: every container is a new object -/
def transport (h : Heap) (st : State) : Heap × State :=
  (h ++ [(h[st.modules]?).getD []], { st with modules := h.length })

/-- `__setstate__` (`_mixin.py:103-133`) on a new, empty object -/
def setstate (h : Heap) (st : State) : Heap × Obj :=
  match st.codegen with
  | none => (h, ⟨st.attrs, st.modules, none⟩)
  | some cs =>
      let ms := (h[st.modules]?).getD []
      let ms' := cs.foldl (fun m fb => m.setKey fb.1 fb.2.load) ms
      (h.set st.modules ms', ⟨st.attrs, st.modules, some (cs.map Prod.fst)⟩)

/-- pickle / deepcopy / torch.save+load of a module -/
def roundtrip (h : Heap) (o : Obj) : Except Err (Heap × Obj) :=
  match getstate h o with
  | .error e => .error e
  | .ok (h1, st) =>
      let (h2, st') := transport h1 st
      .ok (setstate h2 st')

/-- `m2 = M.__new__(M); m2.__setstate__(m.__getstate__())` (what `copy.copy` does) -/
def roundtripDirect (h : Heap) (o : Obj) : Except Err (Heap × Obj) :=
  match getstate h o with
  | .error e => .error e
  | .ok (h1, st) => .ok (setstate h1 st)

/-- `add_module` / `setattr` of a child on a live module -/
def addChild (h : Heap) (o : Obj) (name : String) (s : Sub) : Heap :=
  h.set o.modules (((h[o.modules]?).getD []).setKey name s)

/-- `_codegen_register(funcs)` (`_mixin.py:21-51`) with `scripted = opt_defaults["jit_script_fx"]` -/
def register (h : Heap) (o : Obj) (scripted : Bool) (funcs : List (String × Nat)) : Heap × Obj :=
  let o' := { o with codegen := some ((o.codegen.getD []) ++ funcs.map Prod.fst) }
  (funcs.foldl (fun hh fp => addChild hh o' fp.1 (if scripted then .ts fp.2 else .fx fp.2)) h, o')

/-! ### in-place conversion of a live module, and the memoising variant of `__getstate__` (NOT in e3nn)

`m.double()` / `m.to(dtype)` convert the tensors owned by the generated children in place: the child OBJECTS
stay the same, their content — the payload — changes.  `__getstate__` as written serialises the children as
they are at the time of the call.  `getstateMemo` models the seeded change "serialise every ScriptModule only
once" (a cache keyed by the identity of the child, here: the name under which the module holds it). -/

def Sub.retype (f : Nat → Nat) : Sub → Sub
  | .fx p => .fx (f p)
  | .ts p => .ts (f p)
  | .plain i => .plain i

def retypeMods (f : Nat → Nat) (ms : Modules) : Modules := ms.map fun p => (p.1, p.2.retype f)

/-- `m.to(...)` on the live module `o` -/
def retype (f : Nat → Nat) (h : Heap) (o : Obj) : Heap :=
  h.set o.modules (retypeMods f ((h[o.modules]?).getD []))

abbrev Cache := List (String × Blob)

def getstateLoopMemo (orig : Modules) : List String → Cache → Modules → List (String × Blob) →
    Except Err (Cache × Modules × List (String × Blob))
  | [], c, out, cs => .ok (c, out, cs)
  | f :: fs, c, out, cs =>
      match orig.getKey? f with
      | none => .error .attributeError
      | some s =>
          match s.dump? with
          | none => .error .assertionError
          | some b =>
              -- only TorchScript children are memoised; fx children are pickled every time
              let (c', b') := match s, ODict.getKey? c f with
                | .ts _, some cached => (c, cached)
                | .ts _, none => (c ++ [(f, b)], b)
                | _, _ => (c, b)
              if out.hasKey f then getstateLoopMemo orig fs c' (out.delKey f) (cs ++ [(f, b')])
              else .error .keyError

def getstateMemo (c : Cache) (h : Heap) (o : Obj) : Except Err (Cache × Heap × State) :=
  match h[o.modules]? with
  | none => .error .keyError
  | some ms =>
      match o.codegen with
      | none => .ok (c, h ++ [ms], ⟨o.attrs, h.length, none⟩)
      | some names =>
          match getstateLoopMemo ms names c ms [] with
          | .error e => .error e
          | .ok (c', out, cs) => .ok (c', h ++ [out], ⟨o.attrs, h.length, some cs⟩)

def roundtripMemo (c : Cache) (h : Heap) (o : Obj) : Except Err (Cache × Heap × Obj) :=
  match getstateMemo c h o with
  | .error e => .error e
  | .ok (c', h1, st) =>
      let (h2, st') := transport h1 st
      let r := setstate h2 st'
      .ok (c', r.1, r.2)

end E3nnVerif.Model.CodegenState
