import E3nnVerif.Model.Scalar
/-
Scalar-generic model of `e3nn/o3/_s2grid.py`, `e3nn/o3/_so3grid.py` and of `spherical_harmonics_alpha`
(`e3nn/o3/_angular_spherical_harmonics.py`), one batch element at a time.  Written over the law-free
`[Scalar K]`: executed at `Float` by `drivers/C11.lean` next to the real modules, theorems at `ℝ` in
`Props/C11.lean`.

Tensors are modelled as index functions `Nat → K` together with their sizes (the driver tabulates them);
sums are the left-to-right `sumRange`.

What is modelled literally
  * `_quadrature_weights`, `s2_grid`, `ToS2Grid.grid` (the documented points `x_ij`),
  * `_complete_lmax_res` on arbitrary python ints / `None` (all branches, including the dead ones, the
    `ValueError` and the two `assert`s),  the constructor's dispatch on `res` (None / int / pair),
  * `spherical_harmonics_alpha` (layout  √2 sin(lα) … √2 sin(α), 1, √2 cos(α) … √2 cos(lα)),
  * `_expand_matrix` for an arbitrary list `ls` (incl. `max([])` → `ValueError`),
  * the per-degree constants `n` of `ToS2Grid` / `FromS2Grid` for 'component' / 'norm' / 'integral'
    (a tensor-valued normalisation is an arbitrary function `n : Nat → K`),
  * the buffers `shb` of both modules as the literal einsums `lmj,bj,lmi,l->mbi` and `lmj,bj,lmi,l,b->mbi`,
  * `rfft` / `irfft` (padding, flips, ±√2, `* res`, the asserts) on top of the DFT *definitions*
    `rfftRe/rfftIm/irfftOddDef` that stand for `torch.fft.rfft/irfft` (trusted: torch.fft ≡ DFT),
  * `ToS2Grid.forward` / `FromS2Grid.forward` with their branch condition (FFT path vs einsum path),
  * `SO3Grid.to_grid/from_grid`, the grid sizes for a rational `aspect_ratio` incl. python's `round`.

What is data, not model:  the Legendre/beta factor `shb = o3.Legendre(range(lmax+1))(cos β, |sin β|)`
(a sympy-generated polynomial) enters as a function `P : (beta index) → (flat index l²+l+m) → K`; in the
correspondence stream its values are taken from the real code.  Likewise the Wigner matrices `D` of SO3Grid.
-/
namespace E3nnVerif.S2Grid
open E3nnVerif

variable {K : Type} [Scalar K]

inductive Err where
  | valueError | assertionError | typeError | runtimeError
  deriving DecidableEq, Repr

def Err.toString : Err → String
  | .valueError => "error:ValueError"
  | .assertionError => "error:AssertionError"
  | .typeError => "error:TypeError"
  | .runtimeError => "error:RuntimeError"

/-- `Σ_{i<n} f i`, summed left to right -/
def sumRange : Nat → (Nat → K) → K
  | 0, _ => Scalar.zero
  | n + 1, f => sumRange n f + f n

/-! ### `_quadrature_weights`, `s2_grid` -/

/-- entry `j` (`0 ≤ j < 2b`) of `_quadrature_weights(b)` -/
def quadratureWeight (b j : Nat) : K :=
  ((Scalar.two / Scalar.ofNat b)
      * Scalar.sin (Scalar.pi * Scalar.ofNat (2 * j + 1) / Scalar.ofNat (4 * b))
      * sumRange b (fun k => (Scalar.one / Scalar.ofNat (2 * k + 1))
          * Scalar.sin (Scalar.ofNat ((2 * j + 1) * (2 * k + 1)) * Scalar.pi / Scalar.ofNat (4 * b))))
    / (Scalar.two * Scalar.ofNat ((2 * b) ^ 2))

/-- `betas[i] = (i + 0.5) / res_beta * π` -/
def betas (N i : Nat) : K := (Scalar.ofNat i + Scalar.ofFrac 1 2) / Scalar.ofNat N * Scalar.pi

/-- `alphas[j] = j / res_alpha * 2 * π` -/
def alphas (M j : Nat) : K := Scalar.ofNat j / Scalar.ofNat M * Scalar.two * Scalar.pi

/-- `ToS2Grid.grid[i, j] = angles_to_xyz(α_j, β_i) = (sin β sin α, cos β, sin β cos α)` -/
def gridPoint (N M i j : Nat) : K × K × K :=
  let b : K := betas N i
  let a : K := alphas M j
  (Scalar.sin b * Scalar.sin a, Scalar.cos b, Scalar.sin b * Scalar.cos a)

/-! ### `_complete_lmax_res`

Python ints are `Int`; `//` and `%` by the positive literal 2 are floor division/modulus, which coincide
with Lean's `/` and `%` on `Int` for a positive divisor.  The three blocks of the python function are kept
apart, including the branches that can never be taken (`res_beta` is never `None` after block 1). -/

def completeBlock1 (lmax res_beta res_alpha : Option Int) : Except Err (Option Int) :=
  match res_beta with
  | some rb => .ok (some rb)
  | none =>
    match lmax with
    | some l => .ok (some (2 * (l + 1)))
    | none =>
      match res_alpha with
      | some ra => .ok (some (2 * ((ra + 1) / 2)))
      | none => .error .valueError

def completeBlock2 (lmax res_beta res_alpha : Option Int) : Option Int :=
  match res_alpha with
  | some ra => some ra
  | none =>
    match lmax with
    | some l =>
      match res_beta with
      | some rb => some (max (2 * l + 1) (rb - 1))
      | none => some (2 * l + 1)
    | none =>
      match res_beta with
      | some rb => some (rb - 1)
      | none => none

def completeBlock3 (lmax res_beta res_alpha : Option Int) : Except Err Int :=
  match lmax with
  | some l => .ok l
  | none =>
    match res_beta, res_alpha with
    | some rb, some ra => .ok (min (rb / 2 - 1) ((ra - 1) / 2))
    | _, _ => .error .typeError

def completeLmaxRes (lmax res_beta res_alpha : Option Int) : Except Err (Int × Int × Int) :=
  match completeBlock1 lmax res_beta res_alpha with
  | .error e => .error e
  | .ok res_beta =>
    let res_alpha := completeBlock2 lmax res_beta res_alpha
    match completeBlock3 lmax res_beta res_alpha with
    | .error e => .error e
    | .ok lmax =>
      match res_beta, res_alpha with
      | some rb, some ra =>
        if rb % 2 ≠ 0 then .error .assertionError            -- assert res_beta % 2 == 0
        else if ¬ (lmax + 1 ≤ rb / 2) then .error .assertionError   -- assert lmax + 1 <= res_beta // 2
        else .ok (lmax, rb, ra)
      | _, _ => .error .typeError

/-- the `res` argument of the constructors -/
inductive ResArg where
  | none
  | int (n : Int)
  | pair (res_beta res_alpha : Option Int)

/-- `if isinstance(res, int) or res is None: _complete_lmax_res(lmax, res, None) else: _complete_lmax_res(lmax, *res)` -/
def resolveRes (lmax : Option Int) : ResArg → Except Err (Int × Int × Int)
  | .none => completeLmaxRes lmax Option.none Option.none
  | .int n => completeLmaxRes lmax (some n) Option.none
  | .pair rb ra => completeLmaxRes lmax rb ra

/-- the configuration a constructor ends up with; a negative `lmax` or `res_alpha` makes the following
`torch.arange` calls raise `RuntimeError` -/
def initConfig (lmax : Option Int) (res : ResArg) : Except Err (Nat × Nat × Nat) :=
  match resolveRes lmax res with
  | .error e => .error e
  | .ok (l, rb, ra) =>
    if l < 0 ∨ rb < 0 ∨ ra < 0 then .error .runtimeError else .ok (l.toNat, rb.toNat, ra.toNat)

/-! ### `spherical_harmonics_alpha` -/

/-- entry `k` (`0 ≤ k < 2l+1`) of `spherical_harmonics_alpha(l, α)`:
`[√2 sin(lα), …, √2 sin(α), 1, √2 cos(α), …, √2 cos(lα)]` -/
def shaEntry (l : Nat) (α : K) (k : Nat) : K :=
  if k < l then Scalar.sqrt Scalar.two * Scalar.sin (Scalar.ofNat (l - k) * α)
  else if k = l then Scalar.one
  else Scalar.sqrt Scalar.two * Scalar.cos (Scalar.ofNat (k - l) * α)

/-- the buffer `sha[a, m]` of shape `(res_alpha, 2 lmax + 1)` -/
def sha (lmax M a m : Nat) : K := shaEntry lmax (alphas M a) m

/-! ### `_expand_matrix` -/

/-- python `max(ls)`; `none` is the `ValueError` of `max([])` -/
def listMax : List Nat → Option Nat
  | [] => none
  | l :: ls => match listMax ls with
    | none => some l
    | some m => some (if m < l then l else m)

/-- the running column offset `i` before block `j`: `Σ_{j' < j} (2 ls[j'] + 1)` -/
def offset : List Nat → Nat → Nat
  | [], _ => 0
  | _ :: _, 0 => 0
  | l :: ls, j + 1 => (2 * l + 1) + offset ls j

def totalDim : List Nat → Nat
  | [] => 0
  | l :: ls => (2 * l + 1) + totalDim ls

/-- `m[j, lmax - l : lmax + l + 1, i : i + 2l + 1] = eye(2l+1)` read off at `[j, mm, i]` -/
def expandEntry (ls : List Nat) (lmax j mm i : Nat) : K :=
  match ls[j]? with
  | none => Scalar.zero
  | some l =>
    if offset ls j ≤ i ∧ i < offset ls j + (2 * l + 1) ∧ lmax - l ≤ mm ∧ mm < lmax + l + 1
        ∧ mm - (lmax - l) = i - offset ls j
    then Scalar.one else Scalar.zero

/-- `_expand_matrix(ls)` with its shape `(len(ls), 2 lmax + 1, Σ (2l+1))` -/
def expandMatrix (ls : List Nat) : Except Err ((Nat × Nat × Nat) × (Nat → Nat → Nat → K)) :=
  match listMax ls with
  | none => .error .valueError
  | some lmax => .ok ((ls.length, 2 * lmax + 1, totalDim ls), expandEntry ls lmax)

/-! ### the Legendre factor for `lmax ≤ 1`, explicitly

`o3.Legendre([0, 1])(cos β, |sin β|)` is  `[1/√(4π), √(3/8π) sin β, √(3/4π) cos β, √(3/8π) sin β]`
(checked against the real module by the harness).  For these band limits the round trip is proved without
any hypothesis (`Props/C11.lean`, section 5b). -/
def legendre1 (N j i : Nat) : K :=
  if i = 0 then Scalar.one / Scalar.sqrt (Scalar.ofNat 4 * Scalar.pi)
  else if i = 1 then Scalar.sqrt (Scalar.ofNat 3 / (Scalar.ofNat 8 * Scalar.pi)) * Scalar.sin (betas N j)
  else if i = 2 then Scalar.sqrt (Scalar.ofNat 3 / (Scalar.ofNat 4 * Scalar.pi)) * Scalar.cos (betas N j)
  else if i = 3 then Scalar.sqrt (Scalar.ofNat 3 / (Scalar.ofNat 8 * Scalar.pi)) * Scalar.sin (betas N j)
  else Scalar.zero

/-! ### normalisation constants -/

inductive Norm where
  | component | norm | integral
  deriving DecidableEq, Repr

/-- `n[l]` of `ToS2Grid(lmax, …, normalization)` -/
def nTo (kind : Norm) (lmax l : Nat) : K :=
  match kind with
  | .component =>
    Scalar.sqrt (Scalar.ofNat 4 * Scalar.pi) * (Scalar.one / Scalar.sqrt (Scalar.ofNat (2 * l + 1)))
      / Scalar.sqrt (Scalar.ofNat (lmax + 1))
  | .norm => Scalar.sqrt (Scalar.ofNat 4 * Scalar.pi) * Scalar.one / Scalar.sqrt (Scalar.ofNat (lmax + 1))
  | .integral => Scalar.one

/-- `n[l]` of `FromS2Grid(…, lmax, normalization, lmax_in)` -/
def nFrom (kind : Norm) (lmax_in l : Nat) : K :=
  match kind with
  | .component =>
    Scalar.sqrt (Scalar.ofNat 4 * Scalar.pi) * Scalar.sqrt (Scalar.ofNat (2 * l + 1))
      * Scalar.sqrt (Scalar.ofNat (lmax_in + 1))
  | .norm => Scalar.sqrt (Scalar.ofNat 4 * Scalar.pi) * Scalar.one * Scalar.sqrt (Scalar.ofNat (lmax_in + 1))
  | .integral => Scalar.ofNat 4 * Scalar.pi * Scalar.one

/-! ### the buffers `shb` -/

/-- `_expand_matrix(range(lmax + 1))[l, m, i]` -/
def expandStd (lmax l m i : Nat) : K := expandEntry (List.range (lmax + 1)) lmax l m i

/-- `einsum("lmj,bj,lmi,l->mbi", m, shb, m, n)` for an expand matrix `E = m` -/
def shbToWith (E : Nat → Nat → Nat → K) (lmax : Nat) (n : Nat → K) (P : Nat → Nat → K) (m b i : Nat) : K :=
  sumRange (lmax + 1) fun l => sumRange ((lmax + 1) ^ 2) fun j => E l m j * P b j * E l m i * n l

/-- `ToS2Grid.shb = einsum("lmj,bj,lmi,l->mbi", m, shb, m, n)`, `m = _expand_matrix(range(lmax + 1))` -/
def shbTo (lmax : Nat) (n : Nat → K) (P : Nat → Nat → K) : Nat → Nat → Nat → K :=
  shbToWith (expandStd lmax) lmax n P

/-- `qw = _quadrature_weights(res_beta // 2) * res_beta**2 / res_alpha` -/
def qwFrom (N M b : Nat) : K := quadratureWeight (N / 2) b * Scalar.ofNat (N ^ 2) / Scalar.ofNat M

/-- `einsum("lmj,bj,lmi,l,b->mbi", m, shb, m, n, qw)` for an expand matrix `E = m` and weights `qw` -/
def shbFromWith (E : Nat → Nat → Nat → K) (qw : Nat → K) (lmax : Nat) (n : Nat → K) (P : Nat → Nat → K)
    (m b i : Nat) : K :=
  sumRange (lmax + 1) fun l => sumRange ((lmax + 1) ^ 2) fun j => E l m j * P b j * E l m i * n l * qw b

/-- `FromS2Grid.shb = einsum("lmj,bj,lmi,l,b->mbi", m, shb, m, n, qw)` -/
def shbFrom (lmax N M : Nat) (n : Nat → K) (P : Nat → Nat → K) : Nat → Nat → Nat → K :=
  shbFromWith (expandStd lmax) (qwFrom N M) lmax n P

/-! ### DFT definitions standing for `torch.fft.rfft` / `torch.fft.irfft` -/

/-- the angle `2π k a / n` -/
def dftAngle (n k a : Nat) : K := Scalar.two * Scalar.pi * Scalar.ofNat (k * a) / Scalar.ofNat n

/-- real part of `torch.fft.rfft(x)[k] = Σ_a x[a] e^{-2πi k a / n}` -/
def rfftRe (x : Nat → K) (n k : Nat) : K := sumRange n fun a => x a * Scalar.cos (dftAngle n k a)
/-- imaginary part of `torch.fft.rfft(x)[k]` -/
def rfftIm (x : Nat → K) (n k : Nat) : K := - sumRange n fun a => x a * Scalar.sin (dftAngle n k a)

/-- `torch.fft.irfft(X, n)[a]` for ODD `n`, `X = re + i·im` of length `n//2 + 1`:  the inverse DFT of the
Hermitian extension, `(1/n) (re₀ + 2 Σ_{k=1}^{n//2} (re_k cos(2πka/n) − im_k sin(2πka/n)))`
(the imaginary part of `X[0]` is ignored, as torch does) -/
def irfftOddDef (re im : Nat → K) (n a : Nat) : K :=
  (re 0 + Scalar.two * sumRange (n / 2) fun k =>
      re (k + 1) * Scalar.cos (dftAngle n (k + 1) a) - im (k + 1) * Scalar.sin (dftAngle n (k + 1) a))
    / Scalar.ofNat n

/-! ### `rfft`, `irfft` -/

/-- the computation of `rfft(x, l)` for `x` of length `res`, output index `k < 2l+1`:
`cat([-√2·Im X[l..1], Re X[0], √2·Re X[1..l]])` -/
def rfftCore (x : Nat → K) (l res k : Nat) : K :=
  if k < l then rfftIm x res (l - k) * (- Scalar.sqrt Scalar.two)
  else if k = l then rfftRe x res 0
  else rfftRe x res (k - l) * Scalar.sqrt Scalar.two

/-- `rfft(x, l)`: the slices `x[:, 1:l+1]` silently truncate when `l > res // 2`, and the final reshape to
`2l+1` columns then raises `RuntimeError` -/
def rfftCheck (l res : Nat) : Except Err Unit :=
  if res / 2 < l then .error .runtimeError else .ok ()

def rfft (x : Nat → K) (l res : Nat) : Except Err (Nat → K) :=
  match rfftCheck l res with
  | .error e => .error e
  | .ok _ => .ok (rfftCore x l res)

/-- zero padding of `irfft`: `(res - sm)//2` zeros on both sides -/
def irfftPad (x : Nat → K) (sm res k : Nat) : K :=
  let pad := (res - sm) / 2
  if k < pad then Scalar.zero else if k < pad + sm then x (k - pad) else Scalar.zero

/-- the computation of `irfft(x, res)` for `x` of length `sm`:  real part `[x_l, x_{l+1:}/√2]`,
imaginary part `[0, flip(x_{:l})/(−√2)]`, `torch.fft.irfft(…, n=res) * res` -/
def irfftCore (x : Nat → K) (sm res a : Nat) : K :=
  let l := res / 2
  let xp := irfftPad x sm res
  let re : Nat → K := fun k => if k = 0 then xp l else xp (l + k) / Scalar.sqrt Scalar.two
  let im : Nat → K := fun k => if k = 0 then Scalar.zero else xp (l - k) / (- Scalar.sqrt Scalar.two)
  irfftOddDef re im res a * Scalar.ofNat res

/-- `irfft(x, res)`: `assert res % 2 == 1`; a negative padding is a `RuntimeError`;
`assert x.shape[1] == res` after padding -/
def irfftCheck (sm res : Nat) : Except Err Unit :=
  if res % 2 ≠ 1 then .error .assertionError
  else if res < sm then .error .runtimeError
  else if 2 * ((res - sm) / 2) + sm ≠ res then .error .assertionError
  else .ok ()

def irfft (x : Nat → K) (sm res : Nat) : Except Err (Nat → K) :=
  match irfftCheck sm res with
  | .error e => .error e
  | .ok _ => .ok (irfftCore x sm res)

/-! ### `ToS2Grid.forward`, `FromS2Grid.forward` -/

/-- `einsum("mbi,zi->zbm", shb, x)` -/
def toCoeff (lmax : Nat) (shb : Nat → Nat → Nat → K) (x : Nat → K) (b m : Nat) : K :=
  sumRange ((lmax + 1) ^ 2) fun i => shb m b i * x i

/-- `einsum("am,zbm->zba", sha, x)` -/
def toAlphaDense (lmax M : Nat) (y : Nat → K) (a : Nat) : K :=
  sumRange (2 * lmax + 1) fun m => sha lmax M a m * y m

/-- `sa >= sm and sa % 2 == 1` with `(sa, sm) = sha.shape = (res_alpha, 2 lmax + 1)` -/
def useFFT (lmax M : Nat) : Bool := decide (2 * lmax + 1 ≤ M) && decide (M % 2 = 1)

/-- the second half of `ToS2Grid.forward`: `irfft(x, sa)` if `sa >= sm and sa % 2 == 1`, else the einsum with
`sha`;  `y` is indexed `[beta, m]`, the result `[beta, alpha]` -/
def toAlphaStep (lmax M : Nat) (y : Nat → Nat → K) : Except Err (Nat → Nat → K) :=
  if useFFT lmax M then
    match irfftCheck (2 * lmax + 1) M with
    | .error e => .error e
    | .ok _ => .ok fun b => irfftCore (y b) (2 * lmax + 1) M
  else .ok fun b => toAlphaDense lmax M (y b)

/-- `ToS2Grid.forward` given the buffer `shb`; result indexed `[beta, alpha]` -/
def toForwardWith (lmax M : Nat) (shb : Nat → Nat → Nat → K) (x : Nat → K) : Except Err (Nat → Nat → K) :=
  toAlphaStep lmax M (toCoeff lmax shb x)

/-- the einsum path regardless of the branch condition -/
def toForwardDenseWith (lmax M : Nat) (shb : Nat → Nat → Nat → K) (x : Nat → K) (b a : Nat) : K :=
  toAlphaDense lmax M (toCoeff lmax shb x b) a

/-- `ToS2Grid(lmax, (N, M), normalization=n).forward(x)` with Legendre data `P` -/
def toS2Grid (lmax M : Nat) (n : Nat → K) (P : Nat → Nat → K) (x : Nat → K) : Except Err (Nat → Nat → K) :=
  toForwardWith lmax M (shbTo lmax n P) x

/-- `einsum("am,zba->zbm", sha, x)` -/
def fromAlphaDense (lmax M : Nat) (g : Nat → K) (m : Nat) : K :=
  sumRange M fun a => sha lmax M a m * g a

/-- `einsum("mbi,zbm->zi", shb, x)` -/
def fromCoeff (lmax N : Nat) (shb : Nat → Nat → Nat → K) (y : Nat → Nat → K) (i : Nat) : K :=
  sumRange N fun b => sumRange (2 * lmax + 1) fun m => shb m b i * y b m

/-- the first half of `FromS2Grid.forward`: `rfft(x, sm // 2)` if `sm <= sa and sa % 2 == 1`, else the einsum
with `sha`;  `g` is indexed `[beta, alpha]`, the result `[beta, m]` -/
def fromAlphaStep (lmax M : Nat) (g : Nat → Nat → K) : Except Err (Nat → Nat → K) :=
  if useFFT lmax M then
    match rfftCheck ((2 * lmax + 1) / 2) M with
    | .error e => .error e
    | .ok _ => .ok fun b => rfftCore (g b) ((2 * lmax + 1) / 2) M
  else .ok fun b => fromAlphaDense lmax M (g b)

/-- `FromS2Grid.forward` given the buffer `shb`; the grid signal is indexed `[beta, alpha]` -/
def fromForwardWith (lmax N M : Nat) (shb : Nat → Nat → Nat → K) (g : Nat → Nat → K) : Except Err (Nat → K) :=
  match fromAlphaStep lmax M g with
  | .error e => .error e
  | .ok y => .ok (fromCoeff lmax N shb y)

def fromForwardDenseWith (lmax N M : Nat) (shb : Nat → Nat → Nat → K) (g : Nat → Nat → K) (i : Nat) : K :=
  fromCoeff lmax N shb (fun b => fromAlphaDense lmax M (g b)) i

/-- `FromS2Grid((N, M), lmax, normalization=n).forward(g)` with Legendre data `P` -/
def fromS2Grid (lmax N M : Nat) (n : Nat → K) (P : Nat → Nat → K) (g : Nat → Nat → K) : Except Err (Nat → K) :=
  fromForwardWith lmax N M (shbFrom lmax N M n P) g

/-- `S2Activation.forward` (without `random_rot`): `from_s2(act(to_s2(x)))` where
`to_s2 = ToS2Grid(lmax, res, normalization)`, `from_s2 = FromS2Grid(res, lmax_out, normalization, lmax_in=lmax)`
and `act` is the already normalised activation (`normalize2mom(act)`) -/
def s2Activation (kind : Norm) (lin lout N M : Nat) (act : K → K) (P : Nat → Nat → K) (F : Nat → K) :
    Except Err (Nat → K) :=
  match toS2Grid lin M (nTo kind lin) P F with
  | .error e => .error e
  | .ok g => fromS2Grid lout N M (nFrom kind lin) P (fun b a => act (g b a))

/-! ### `SO3Grid` (rational `aspect_ratio`, `normalization = 'component'`) -/

/-- `Σ_{l ≤ lmax} (2l+1)²`, the last dimension of `D` -/
def so3Dim : Nat → Nat
  | 0 => 1
  | l + 1 => so3Dim l + (2 * (l + 1) + 1) ^ 2

/-- python `round(n / q)` for a non-negative rational: nearest integer, ties to the EVEN one -/
def roundHalfEven (n q : Nat) : Nat :=
  let d := n / q
  let r := n % q
  if 2 * r < q then d
  else if q < 2 * r then d + 1
  else if d % 2 = 0 then d else d + 1

/-- `(nb, na) = (2 * resolution, round(2 * aspect_ratio * resolution))` for a rational `aspect_ratio = p / q`
(`q > 0`; an `int` aspect ratio is `q = 1`).  The real code multiplies floats; that the float product rounds like
the exact rational is checked per configuration by the harness (`so3resq` vs `res_alpha`). -/
def so3ResQ (resolution p q : Nat) : Nat × Nat := (2 * resolution, roundHalfEven (2 * p * resolution) q)

/-- integer `aspect_ratio` -/
def so3Res (resolution aspect : Nat) : Nat × Nat := so3ResQ resolution aspect 1

/-- `qw = _quadrature_weights(nb // 2) * nb**2 / na**2` -/
def so3Qw (nb na b : Nat) : K := quadratureWeight (nb / 2) b * Scalar.ofNat (nb ^ 2) / Scalar.ofNat (na ^ 2)

/-- the buffer `qw` of `SO3Grid(lmax, resolution, aspect_ratio = p / q)` as a function of the CONSTRUCTOR
arguments: `nb = 2 * resolution`, `na = round(2 * aspect_ratio * resolution)`,
`qw = _quadrature_weights(nb // 2) * nb**2 / na**2` (the ROUNDED `na`, not `2 * aspect_ratio * resolution`) -/
def so3QwOf (resolution p q b : Nat) : K :=
  so3Qw (so3ResQ resolution p q).1 (so3ResQ resolution p q).2 b

/-- `to_grid`: `einsum("...i,abci->...abc", features, D) / D.shape[-1] ** 0.5` -/
def so3ToGrid (dim : Nat) (D : Nat → Nat → Nat → Nat → K) (F : Nat → K) (a b c : Nat) : K :=
  (sumRange dim fun i => F i * D a b c i) / Scalar.sqrt (Scalar.ofNat dim)

/-- `from_grid`: `einsum("...abc,abci,b->...i", features, D, qw) * D.shape[-1] ** 0.5` -/
def so3FromGrid (dim nb na : Nat) (D : Nat → Nat → Nat → Nat → K) (f : Nat → Nat → Nat → K) (i : Nat) : K :=
  (sumRange na fun a => sumRange nb fun b => sumRange na fun c => f a b c * D a b c i * so3Qw nb na b)
    * Scalar.sqrt (Scalar.ofNat dim)

end E3nnVerif.S2Grid
