import E3nnVerif.Model.Scalar
/-
Executable model of  e3nn/nn/_batchnorm.py  (class BatchNorm)  and  e3nn/nn/_dropout.py  (class Dropout),
generic over a law-free scalar type `K` (`Scalar K`): the C13 driver runs it over exact rationals, the
theorems (Props/C13.lean) are about the instance `K = ℝ`.

Tensors are index functions.  A batch after `input.reshape(batch, -1, dim)` is  `x b s j`
(`b < B` batch, `s < S` flattened middle dimensions, `j < dim` stacked features); the slicing
`input[:, :, ix : ix + mul*d].reshape(batch, -1, mul, d)` is  `field x blk b s u i = x b s (ix + u*d + i)`;
`torch.cat` of chunks along the last axis is `cat`.  No Mathlib.
-/
namespace E3nnVerif.BN
open Scalar

variable {K : Type} [Scalar K]

/-! ### tensor primitives -/

/-- `Σ_{i<n} f i`  (`.sum(dim)`) -/
def sumN : Nat → (Nat → K) → K
  | 0, _ => zero
  | n + 1, f => sumN n f + f n

/-- `max_{i ≤ n} f i`  (`.max(dim).values` over `n+1 ≥ 1` entries; torch raises on an empty dimension) -/
def maxN1 : Nat → (Nat → K) → K
  | 0, f => f 0
  | n + 1, f => Scalar.max (maxN1 n f) (f (n + 1))

/-- memoisation of the first `n` values of `f` (semantically `f`: `Tab.get_of`).  A structure, not a
function: the compiler eta-expands function-valued definitions, which would recompute the table at every call -/
structure Tab (α : Type) where
  arr : Array α
  fn : Nat → α

def Tab.of {α : Type} (n : Nat) (f : Nat → α) : Tab α := ⟨((List.range n).map f).toArray, f⟩

def Tab.get {α : Type} (t : Tab α) (j : Nat) : α := if h : j < t.arr.size then t.arr[j] else t.fn j

@[simp] theorem Tab.get_of {α : Type} (n : Nat) (f : Nat → α) : (Tab.of n f).get = f := by
  funext j; simp [Tab.of, Tab.get]

/-- memoisation of an `n × m` table (semantically `f`: `Tab2.get_of`) -/
structure Tab2 (α : Type) where
  tab : Tab α
  m : Nat
  fn : Nat → Nat → α

def Tab2.of {α : Type} (n m : Nat) (f : Nat → Nat → α) : Tab2 α :=
  ⟨Tab.of (n * m) (fun j => f (j / m) (j % m)), m, f⟩

def Tab2.get {α : Type} (t : Tab2 α) (a b : Nat) : α := if b < t.m then t.tab.get (a * t.m + b) else t.fn a b

@[simp] theorem Tab2.get_of {α : Type} (n m : Nat) (f : Nat → Nat → α) : (Tab2.of n m f).get = f := by
  funext a b
  simp only [Tab2.of, Tab2.get, Tab.get_of]
  split
  · next h =>
    have hm : 0 < m := by omega
    rw [Nat.mul_comm a m, Nat.mul_add_div hm, Nat.mul_add_mod, Nat.div_eq_of_lt h, Nat.mod_eq_of_lt h]
    simp
  · rfl

/-- a chunk of a concatenation: its length and its entries -/
abbrev Chunk (K : Type) := Nat × (Nat → K)

/-- `torch.cat(chunks)` along the indexed axis; `0` beyond the end -/
def cat : List (Chunk K) → Nat → K
  | [], _ => zero
  | (n, f) :: rest, j => if j < n then f j else cat rest (j - n)

/-- total length of a concatenation -/
def catLen : List (Chunk K) → Nat
  | [] => 0
  | (n, _) :: rest => n + catLen rest

abbrev T3 (K : Type) := Nat → Nat → Nat → K
abbrev T4 (K : Type) := Nat → Nat → Nat → Nat → K

/-! ### irreps and the per-block cursor of the `for mul, d, is_scalar in self.irs` loop -/

structure Irrep where
  l : Nat
  /-- parity, `1` or `-1` -/
  p : Int
  deriving DecidableEq, Repr

def Irrep.dim (ir : Irrep) : Nat := 2 * ir.l + 1
/-- `Irrep.is_scalar`: `l == 0 and p == 1` -/
def Irrep.isScalar (ir : Irrep) : Bool := ir.l == 0 && ir.p == 1

/-- `o3.Irreps`: list of (mul, irrep) -/
abbrev Irreps := List (Nat × Irrep)

def Irreps.dim : Irreps → Nat
  | [] => 0
  | (mul, ir) :: rest => mul * ir.dim + Irreps.dim rest

/-- `irreps.num_irreps` = Σ mul -/
def Irreps.numIrreps : Irreps → Nat
  | [] => 0
  | (mul, _) :: rest => mul + Irreps.numIrreps rest

/-- `sum(mul for mul, ir in irreps if ir.is_scalar())` -/
def Irreps.numScalar : Irreps → Nat
  | [] => 0
  | (mul, ir) :: rest => (if ir.isScalar then mul else 0) + Irreps.numScalar rest

/-- one iteration of the loop: the entry `(mul, d, is_scalar)` of `self.irs` together with the values the
counters `ix, irm, irv, iw, ib` have when the iteration starts (`k` = position in the list) -/
structure Block where
  k : Nat
  mul : Nat
  d : Nat
  isScalar : Bool
  ix : Nat
  irm : Nat
  irv : Nat
  iw : Nat
  ib : Nat
  deriving Repr

/-- the counters advance exactly as in `forward`:
`ix += mul*d`; `irm += mul` (scalar blocks); `irv += mul`; `iw += mul` (if affine);
`ib += mul` (if affine and include_bias and scalar) -/
def blocksFrom (affine includeBias : Bool) : Irreps → (k ix irm irv iw ib : Nat) → List Block
  | [], _, _, _, _, _, _ => []
  | (mul, ir) :: rest, k, ix, irm, irv, iw, ib =>
    { k := k, mul := mul, d := ir.dim, isScalar := ir.isScalar, ix := ix, irm := irm, irv := irv, iw := iw, ib := ib } ::
      blocksFrom affine includeBias rest (k + 1) (ix + mul * ir.dim)
        (if ir.isScalar then irm + mul else irm) (irv + mul)
        (if affine then iw + mul else iw)
        (if affine && includeBias && ir.isScalar then ib + mul else ib)

/-! ### BatchNorm -/

inductive Reduce | mean | max
  deriving DecidableEq, Repr
inductive Normalization | norm | component
  deriving DecidableEq, Repr

/-- constructor arguments (constant during the life of the module) -/
structure Opts (K : Type) where
  irreps : Irreps
  eps : K
  momentum : K
  affine : Bool
  reduce : Reduce
  inst : Bool
  includeBias : Bool
  normalization : Normalization

/-- mutable state: `Module.training`, the two buffers, the two parameters (flat vectors, read at
`irm+u`, `irv+u`, `iw+u`, `ib+u`) -/
structure State (K : Type) where
  training : Bool
  runningMean : Nat → K
  runningVar : Nat → K
  weight : Nat → K
  bias : Nat → K

/-- state after `__init__` (`nn.Module` starts in training mode) -/
def State.init : State K :=
  { training := true, runningMean := fun _ => zero, runningVar := fun _ => one,
    weight := fun _ => one, bias := fun _ => zero }

def blocks (o : Opts K) : List Block := blocksFrom o.affine o.includeBias o.irreps 0 0 0 0 0 0

/-- `_roll_avg` -/
def rollAvg (m curr update : K) : K := (one - m) * curr + m * update

/-- `input[:, :, ix:ix+mul*d].reshape(batch, -1, mul, d)` -/
def field (x : T3 K) (blk : Block) : T4 K := fun b s u i => x b s (blk.ix + u * blk.d + i)

/-- `field.mean([0, 1]).reshape(mul)` of a scalar block (`d = 1`) -/
def batchMean (B S : Nat) (f : T4 K) : Nat → K :=
  fun u => sumN B (fun b => sumN S (fun s => f b s u 0)) / ofNat (B * S)

/-- `field.mean(1).reshape(batch, mul)` of a scalar block -/
def instMean (S : Nat) (f : T4 K) : Nat → Nat → K :=
  fun b u => sumN S (fun s => f b s u 0) / ofNat S

/-- `field_mean` has shape `[batch, mul]` in instance mode and `[mul]` otherwise; `reshape(-1, 1, mul, 1)`
then broadcasts it over the batch.  We store `[rows, mul]` with `rows = B` resp. `1`; sample `b` reads row `bidx o b`. -/
def bidx (o : Opts K) (b : Nat) : Nat := if o.inst then b else 0

def rows (o : Opts K) (B : Nat) : Nat := if o.inst then B else 1

/-- `field_mean` as `[row, u]`: the three branches of
`if self.training or self.instance: (if self.instance … else …) else running_mean[irm:irm+mul]` -/
def meanOf (o : Opts K) (st : State K) (B S : Nat) (blk : Block) (f : T4 K) : Nat → Nat → K :=
  if st.training || o.inst then
    if o.inst then instMean S f
    else fun _ u => batchMean B S f u
  else fun _ u => st.runningMean (blk.irm + u)

/-- `field - field_mean.reshape(-1, 1, mul, 1)` for scalar blocks, `field` otherwise -/
def centred (o : Opts K) (blk : Block) (f : T4 K) (mean : Nat → Nat → K) : T4 K :=
  if blk.isScalar then fun b s u i => f b s u i - mean (bidx o b) u else f

/-- `field.pow(2).sum(3)` / `field.pow(2).mean(3)` : `[b, s, u]` -/
def compNorm (nz : Normalization) (d : Nat) (c : T4 K) : T3 K :=
  match nz with
  | .norm => fun b s u => sumN d (fun i => c b s u i * c b s u i)
  | .component => fun b s u => sumN d (fun i => c b s u i * c b s u i) / ofNat d

/-- `.mean(1)` / `.max(1).values` : `[b, u]`  (S ≥ 1) -/
def reduceS (r : Reduce) (S : Nat) (n : T3 K) : Nat → Nat → K :=
  match r with
  | .mean => fun b u => sumN S (fun s => n b s u) / ofNat S
  | .max => fun b u => maxN1 (S - 1) (fun s => n b s u)

/-- per-sample statistic `[b, u]` of the (centred) block -/
def sampleStat (o : Opts K) (S : Nat) (blk : Block) (c : T4 K) : Nat → Nat → K :=
  reduceS o.reduce S (compNorm o.normalization blk.d c)

/-- `field_norm.mean(0)` : `[u]` -/
def batchStat (o : Opts K) (B S : Nat) (blk : Block) (c : T4 K) : Nat → K :=
  fun u => sumN B (fun b => sampleStat o S blk c b u) / ofNat B

/-- `field_norm` before `+ eps`, as `[row, u]` -/
def normOf (o : Opts K) (st : State K) (B S : Nat) (blk : Block) (c : T4 K) : Nat → Nat → K :=
  if st.training || o.inst then
    if o.inst then sampleStat o S blk c
    else fun _ u => batchStat o B S blk c u
  else fun _ u => st.runningVar (blk.irv + u)

/-- `(field_norm + eps).pow(-0.5)` then `* weight[iw:iw+mul]` if affine : `[row, u]` -/
def scaleOf (o : Opts K) (st : State K) (blk : Block) (nrm : Nat → Nat → K) : Nat → Nat → K :=
  if o.affine then fun r u => one / sqrt (nrm r u + o.eps) * st.weight (blk.iw + u)
  else fun r u => one / sqrt (nrm r u + o.eps)

/-- what one loop iteration computes: `field_mean` `[row,u]` (used by scalar blocks only), `field_norm` before
`+ eps` `[row,u]`, and the output field `[b,s,u,i]` -/
structure BlockRes (K : Type) where
  mean : Nat → Nat → K
  norm : Nat → Nat → K
  out : T4 K

def blockRes (o : Opts K) (st : State K) (B S : Nat) (x : T3 K) (blk : Block) : BlockRes K :=
  let f := field x blk
  let meanT := Tab2.of (rows o B) blk.mul (meanOf o st B S blk f)
  let c := centred o blk f meanT.get
  let nrmT := Tab2.of (rows o B) blk.mul (normOf o st B S blk c)
  let scT := Tab2.of (rows o B) blk.mul (scaleOf o st blk nrmT.get)
  { mean := meanT.get, norm := nrmT.get,
    out :=
      if o.affine && o.includeBias && blk.isScalar then
        fun b s u i => c b s u i * scT.get (bidx o b) u + st.bias (blk.ib + u)
      else fun b s u i => c b s u i * scT.get (bidx o b) u }

/-- entry appended to `new_means` by a (scalar) block: `_roll_avg(running_mean[irm:irm+mul], field_mean)` -/
def newMeanChunk (o : Opts K) (st : State K) (p : Block × BlockRes K) : Chunk K :=
  (p.1.mul, fun u => rollAvg o.momentum (st.runningMean (p.1.irm + u)) (p.2.mean 0 u))

/-- entry appended to `new_vars`: `_roll_avg(running_var[irv:irv+mul], field_norm)` -/
def newVarChunk (o : Opts K) (st : State K) (p : Block × BlockRes K) : Chunk K :=
  (p.1.mul, fun u => rollAvg o.momentum (st.runningVar (p.1.irv + u)) (p.2.norm 0 u))

/-- `torch.cat(fields, dim=2)` -/
def assemble (bs : List Block) (g : Block → T4 K) : T3 K :=
  fun b s => cat (bs.map fun blk => (blk.mul * blk.d, fun j => g blk b s (j / blk.d) (j % blk.d)))

/-- the body of `forward` on a well-shaped batch: new state and output -/
def forwardCore (o : Opts K) (st : State K) (B S : Nat) (x : T3 K) : State K × T3 K :=
  let res := (blocks o).map fun blk => (blk, blockRes o st B S x blk)
  let y : T3 K := fun b s =>
    cat (res.map fun p => (p.1.mul * p.1.d, fun j => p.2.out b s (j / p.1.d) (j % p.1.d)))
  let st' :=
    if st.training && !o.inst then
      let newMeans := (res.filter (·.1.isScalar)).map (newMeanChunk o st)
      let newVars := res.map (newVarChunk o st)
      let rm := Tab.of o.irreps.numScalar (cat newMeans)
      let rv := Tab.of o.irreps.numIrreps (cat newVars)
      { st with
        runningMean := if newMeans.isEmpty then st.runningMean else rm.get
        runningVar := if newVars.isEmpty then st.runningVar else rv.get }
    else st
  (st', y)

/-- inputs the real `forward` rejects (RuntimeError from a `reshape`, or the `ix == dim` assertion):
empty batch, last dimension different from `irreps.dim`, `irreps.dim = 0`, a block with `mul = 0` -/
def accepted (o : Opts K) (B dim : Nat) : Bool :=
  B != 0 && dim == o.irreps.dim && dim != 0 && o.irreps.all (fun p => p.1 != 0)

inductive Op (K : Type) where
  | train
  | eval
  | forward (B S dim : Nat) (x : T3 K)

inductive Out (K : Type) where
  | none
  /-- the call raises; the state is untouched (buffers are written only at the very end of `forward`) -/
  | error
  /-- `S = 0` (an empty middle dimension): the real code produces NaN statistics; not modelled -/
  | outOfScope
  | tensor (B S dim : Nat) (y : T3 K)

def step (o : Opts K) (st : State K) : Op K → State K × Out K
  | .train => ({ st with training := true }, .none)
  | .eval => ({ st with training := false }, .none)
  | .forward B S dim x =>
    if !accepted o B dim then (st, .error)
    else if S == 0 then (st, .outOfScope)
    else
      let r := forwardCore o st B S x
      (r.1, .tensor B S dim r.2)

/-- a whole history of calls: final state and the list of results -/
def run (o : Opts K) : State K → List (Op K) → State K × List (Out K)
  | st, [] => (st, [])
  | st, op :: ops =>
    let r := step o st op
    let r' := run o r.1 ops
    (r'.1, r.2 :: r'.2)

/-! ### `input.reshape(batch, -1, dim)` and back (used by the driver) -/

/-- `(B, S, dim)` of `input.reshape(input.shape[0], -1, input.shape[-1])`; `none` when torch raises
(0-dimensional input; ambiguous or impossible `-1`) -/
def shapeBSD (shape : List Nat) : Option (Nat × Nat × Nat) :=
  match shape with
  | [] => none
  | [n] => if n == 1 then some (1, 1, 1) else none
  | B :: rest =>
    let dim := rest.getLast?.getD 0
    let S := (rest.dropLast).foldl (· * ·) 1
    if B * dim == 0 then none else some (B, S, dim)

def ofFlat (S dim : Nat) (data : Array K) : T3 K := fun b s j => data.getD ((b * S + s) * dim + j) zero

def toFlat (B S dim : Nat) (y : T3 K) : List K :=
  (List.range B).flatMap fun b => (List.range S).flatMap fun s => (List.range dim).map fun j => y b s j

/-! ### Dropout -/

/-- value of `noise[b, u]` for one irrep block: `fill_(0)` if `p ≥ 1`, `fill_(1)` if `p ≤ 0`,
`bernoulli_(1-p).div_(1-p)` otherwise, `keep b u` being the Bernoulli outcome -/
def dropFactor (p : K) (keep : Bool) : K :=
  if Scalar.le one p then zero
  else if Scalar.le p zero then one
  else (if keep then one else zero) / (one - p)

/-- the loop `for mul, (l, _p) in self.irreps` of Dropout (only `k, mul, d, ix` matter) -/
def dblocks (irreps : Irreps) : List Block := blocksFrom false false irreps 0 0 0 0 0 0

/-- the `[batch, irreps.dim]` noise tensor: per block `noise[:, :, None].expand(-1, -1, dim).reshape(batch, mul*dim)`,
then `torch.cat(noises, dim=-1)`;  `mask b k u` = Bernoulli outcome of copy `u` of block `k` in sample `b` -/
def dropNoise (irreps : Irreps) (p : K) (mask : Nat → Nat → Nat → Bool) : Nat → Nat → K :=
  fun b => cat ((dblocks irreps).map fun blk =>
    (blk.mul * blk.d, fun j => dropFactor p (mask b blk.k (j / blk.d))))

/-- `Dropout.forward` on a `[B, S, irreps.dim]` input -/
def dropout (irreps : Irreps) (p : K) (training : Bool) (mask : Nat → Nat → Nat → Bool) (x : T3 K) : T3 K :=
  if !training then x
  else
    let noise := dropNoise irreps p mask
    fun b s j => x b s j * noise b j

end E3nnVerif.BN
