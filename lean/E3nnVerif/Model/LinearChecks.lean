import E3nnVerif.Model.LinearSpec
import E3nnVerif.Model.TPChecks
/-
Kernel-decidable introspection check (C19, Linear part) on the coefficient polynomials of a generated `o3.Linear`
program (batch `B`, variable numbering of Model/LinearSpec.lean):
  * what the module reports (`irreps_in.dim`, `irreps_out.dim`, `weight_numel`, `bias_numel`, its instruction list and
    biased outputs) is what the model derives from the configuration (incl. the default-instruction / default-bias rules);
  * `output_mask[k] = 0` ⇔ output component `k` is the zero polynomial (every batch row, every output channel);
    `= 1` ⇒ provably non-zero;
  * every monomial is `x·w` with `w` inside the weight slice of ONE instruction that connects the block of `x` to the block
    of the output (same batch row, matching channels), or a single bias variable inside the bias slice of that output
    block — i.e. the slices handed out by `weight_view_for_instruction` scale exactly their own path;
  * the views the module hands out are the model's slices, one per weight instruction, in instruction order.
-/
namespace E3nnVerif.Model.Lin
open E3nnVerif.Exact E3nnVerif.IR
open E3nnVerif.Model.TP (hasNonzeroTerm)

inductive VarKind | x (b xc r : Nat) | w (bw xc yc n : Nat) | bias (yc n : Nat) | other
deriving Repr

def classify (c : Cfg) (v : Nat) : VarKind :=
  let dI := totalDim c.inn
  let nw := weightNumel c
  let nb := biasNumel c
  if v < nX c then .x (v / (fIn c * dI)) ((v / dI) % fIn c) (v % dI)
  else if v < nX c + nW c then
    let r := v - nX c
    .w (r / (fIn c * fOut c * nw)) ((r / (fOut c * nw)) % fIn c) ((r / nw) % fOut c) (r % nw)
  else if v < nX c + nW c + nBias c then
    let r := v - (nX c + nW c)
    .bias (r / nb) (r % nb)
  else .other

/-- instruction whose weight slice contains flat weight index `n` -/
def pathOfWeight (c : Cfg) (n : Nat) : Option Nat :=
  (List.range c.ins.length).find? fun kk =>
    weightOffset c kk ≤ n && n < weightOffset c kk + pathSize c (c.ins.getD kk (0, 0))

def monoPlaced (c : Cfg) (b yc io : Nat) (m : Mono) : Bool :=
  match m.map (classify c) with
  | [.bias yc' n] =>
    yc' == yc && hasBias c io && biasOffset c io ≤ n && n < biasOffset c io + dimOf (c.out.getD io default)
  | [.x b' xc r, .w bw xc' yc' n] =>
    b' == b && bw == (if c.shared then 0 else b) && xc' == xc && yc' == yc &&
    (match pathOfWeight c n with
     | some kk => c.ins.getD kk (0, 0) == ((locate c.inn r).1, io)
     | none => false)
  | _ => false

def introspectionCheck (c : Cfg) (polys : List Poly) (mask : List Bool) (numel biasN : Nat)
    (mIns : List (Nat × Nat)) (mBiasOuts : List Nat) (views : List (Nat × Nat × Nat)) (dims : Nat × Nat) : Bool :=
  let dO := totalDim c.out
  let N := c.B * fOut c * dO
  dims == (totalDim c.inn, dO) && polys.length == N && mask.length == dO &&
  numel == weightNumel c && biasN == biasNumel c &&
  mIns == c.ins && mBiasOuts == (List.range c.out.length).filter (hasBias c) &&
  mask == outputMask c &&
  (List.range N).all (fun t =>
    let p := polys.getD t []
    if mask.getD (t % dO) false then hasNonzeroTerm p else p.isZero) &&
  (List.range N).all (fun t =>
    (polys.getD t []).all fun tm => tm.2.isZero ||
      monoPlaced c (t / (fOut c * dO)) ((t / dO) % fOut c) (locate c.out (t % dO)).1 tm.1) &&
  views == (List.range c.ins.length).map fun kk =>
    let ps := pathSize c (c.ins.getD kk (0, 0))
    (kk, (if ps == 0 then 0 else weightOffset c kk), ps)

end E3nnVerif.Model.Lin
