import E3nnVerif.IR.Tensor
import E3nnVerif.IR.SExpr
import E3nnVerif.Model.TPSpec
/-
The SPECIFICATION of `e3nn.o3.Linear` (e3nn/o3/_linear.py), written from the documentation:

  out[b, (y,) off_out(io) + w·n + i] =
      Σ_{instructions k = (i_in, io)}  a_k · Σ_{(x,) u}  W_k[(b,) (x, y,) u, w] · in[b, (x,) off_in(i_in) + u·n + i]
      (+ bias[(y,) boff(io) + w·n + i]   when output block `io` carries a bias)

with `n = 2l+1` the dimension of the common irrep, `W_k` the `k`-th slice (shape `mul_in × mul_out`, row-major) of the
flat weight vector in instruction order, and the fan-in coefficient `a_k = x_k^{-1/2}`,
  `x_k = f_in · Σ_{j → io} mul_in(j)`            (`path_normalization = "element"`)
  `x_k = f_in · mul_in(k) · #{j → io}`           (`path_normalization = "path"`),     `x_k = 0 ↦ a_k = 1`.

Three renderings of the same reading:
  * `validate`   the constructor's guards (which configurations are rejected, with which exception class);
  * `specProg`   an IR program (einsum per instruction, as the documentation describes it) — the generated FX program of
                 every certified configuration is proved equal to it (Cert/LIN/C08/*.lean);
  * `blockSpec`  the entry-wise formula above, generic in the scalar type — `specProg` is proved equal to it for the
                 certified family, and Props/C08.lean proves the structural theorems about it over ℝ.
They share only the offset arithmetic below; nothing is shared with e3nn's code generator.
-/
namespace E3nnVerif.Model.Lin
open E3nnVerif.Exact E3nnVerif.IR
open E3nnVerif.Model.TP (mkEinsum Build Build.push)

/-- one entry of an `Irreps`: (multiplicity, l, parity is odd) -/
abbrev Entry := Nat × Nat × Bool

structure Cfg where
  inn : List Entry
  out : List Entry
  /-- `(i_in, i_out)` -/
  ins : List (Nat × Nat)
  /-- 0 element, 1 path -/
  pathNorm : Nat
  /-- per output entry: has a bias -/
  biases : List Bool
  /-- `(f_in, f_out)` when the optional channel dimensions are used -/
  chan : Option (Nat × Nat)
  shared : Bool
  /-- concrete batch size of the certified instance -/
  B : Nat
deriving Repr, Inhabited

def irDim (e : Entry) : Nat := 2 * e.2.1 + 1
def dimOf (e : Entry) : Nat := e.1 * irDim e
def totalDim (irr : List Entry) : Nat := (irr.map dimOf).foldl (· + ·) 0
def offsetOf (irr : List Entry) (i : Nat) : Nat := totalDim (irr.take i)
def sameIr (a b : Entry) : Bool := a.2.1 == b.2.1 && a.2.2 == b.2.2
/-- `Irrep.is_scalar`: `l = 0` and even -/
def isScalar (e : Entry) : Bool := e.2.1 == 0 && !e.2.2

/-- `instructions=None`: every pair with the same irrep, input-major -/
def defaultIns (inn out : List Entry) : List (Nat × Nat) :=
  (List.range inn.length).flatMap fun i => (List.range out.length).filterMap fun o =>
    if sameIr (inn.getD i default) (out.getD o default) then some (i, o) else none

/-- `biases=True`: every even scalar; `biases=False`: none -/
def defaultBiases (out : List Entry) (b : Bool) : List Bool := out.map fun e => b && isScalar e

/-! ### the constructor's guards -/

inductive CtorErr | indexError | valueError | assertionError
deriving DecidableEq, Repr

/-- what `Linear.__init__` rejects, in the order the code reaches the checks: an out-of-range index fails first
    (`irreps_in[i_in]` while the instruction tuples are built), then a pair of different irreps (`ValueError`), then
    the two `assert`s on the bias mask. -/
def validate (c : Cfg) : Except CtorErr Unit :=
  if c.ins.any (fun k => !(k.1 < c.inn.length && k.2 < c.out.length)) then .error .indexError
  else if c.ins.any (fun k => !sameIr (c.inn.getD k.1 default) (c.out.getD k.2 default)) then .error .valueError
  else if c.biases.length != c.out.length then .error .assertionError
  else if (List.zip c.biases c.out).any (fun p => p.1 && !isScalar p.2) then .error .assertionError
  else .ok ()

/-! ### sizes and offsets -/

def fIn (c : Cfg) : Nat := match c.chan with | some p => p.1 | none => 1
def fOut (c : Cfg) : Nat := match c.chan with | some p => p.2 | none => 1
def mulIn (c : Cfg) (k : Nat × Nat) : Nat := (c.inn.getD k.1 default).1
def mulOut (c : Cfg) (k : Nat × Nat) : Nat := (c.out.getD k.2 default).1
def pathSize (c : Cfg) (k : Nat × Nat) : Nat := mulIn c k * mulOut c k

def nsum (l : List Nat) : Nat := l.foldl (· + ·) 0

/-- `weight_numel` (per channel pair) -/
def weightNumel (c : Cfg) : Nat := nsum (c.ins.map (pathSize c))
/-- first flat weight index of instruction number `kk`: weights are consumed in instruction order -/
def weightOffset (c : Cfg) (kk : Nat) : Nat := nsum ((c.ins.take kk).map (pathSize c))

def hasBias (c : Cfg) (io : Nat) : Bool := c.biases.getD io false
/-- `bias_numel` (per output channel) -/
def biasNumel (c : Cfg) : Nat :=
  nsum ((List.range c.out.length).map fun io => if hasBias c io then dimOf (c.out.getD io default) else 0)
def biasOffset (c : Cfg) (io : Nat) : Nat :=
  nsum ((List.range io).map fun j => if hasBias c j then dimOf (c.out.getD j default) else 0)

/-- the fan-in `x_k` of the normalisation -/
def fanIn (c : Cfg) (k : Nat × Nat) : Nat :=
  let same := c.ins.filter fun j => j.2 == k.2
  let x := match c.pathNorm with
    | 0 => nsum (same.map (mulIn c))
    | _ => mulIn c k * same.length
  x * fIn c

/-- `1/√x` as `(1/x)·√x` (`√x` through the checked `sqrtConst`);  `x = 0 ↦ 1` -/
def invSqrt (x : Nat) : SqrtQ :=
  if x == 0 then SqrtQ.one else SqrtQ.scale (Q.mk' 1 x) (sqrtConst x)

/-- the documented coefficient `a_k` -/
def coef (c : Cfg) (k : Nat × Nat) : SqrtQ := invSqrt (fanIn c k)

/-- index of the entry containing flat position `r`, and the position inside the entry -/
def locate (irr : List Entry) (r : Nat) : Nat × Nat :=
  let rec go (l : List Entry) (i off : Nat) : Nat × Nat :=
    match l with
    | [] => (i, 0)
    | e :: t => if r < off + dimOf e then (i, r - off) else go t (i + 1) (off + dimOf e)
  go irr 0 0

/-! ### variable numbering of a certified instance (batch `B`)
  `x[b, xc, r]` ↦ `(b·f_in + xc)·d_in + r`;   `w[bw, xc, yc, n]` ↦ `wBase + ((bw·f_in + xc)·f_out + yc)·nw + n` (`bw = 0` when
  shared);   `bias[yc, n]` ↦ `bBase + yc·nb + n`  (biases are always shared). -/
def nX (c : Cfg) : Nat := c.B * fIn c * totalDim c.inn
def bW (c : Cfg) : Nat := if c.shared then 1 else c.B
def nW (c : Cfg) : Nat := bW c * fIn c * fOut c * weightNumel c
def nBias (c : Cfg) : Nat := fOut c * biasNumel c
def xVar (c : Cfg) (b xc r : Nat) : Nat := (b * fIn c + xc) * totalDim c.inn + r
def wVar (c : Cfg) (b xc yc n : Nat) : Nat :=
  nX c + (((if c.shared then 0 else b) * fIn c + xc) * fOut c + yc) * weightNumel c + n
def bVar (c : Cfg) (yc n : Nat) : Nat := nX c + nW c + yc * biasNumel c + n

/-! ### the specification as an IR program -/

def Lz := 0
def Lx := 1
def Ly := 2
def Lu := 3
def Lw := 4
def Li := 5

/-- nodes 0,1,2 are the inputs `x (B×f_in×d_in)`, `w (Bw×f_in×f_out×nw)`, `bias (f_out×nb)` -/
def specProg (c : Cfg) : List Node :=
  let B := c.B
  let fi := fIn c
  let fo := fOut c
  let dI := totalDim c.inn
  let dO := totalDim c.out
  let nw := weightNumel c
  let nb := biasNumel c
  let b0 : Build := ⟨[Node.input 0 (nX c), Node.input (nX c) (nW c), Node.input (nX c + nW c) (nBias c)], []⟩
  let step (acc : Build × Nat) (k : Nat × Nat) : Build × Nat :=
    let b := acc.1
    let kk := acc.2
    let mi := mulIn c k
    let mo := mulOut c k
    let n := irDim (c.out.getD k.2 default)
    if mi == 0 || mo == 0 then (b, kk + 1) else
    let oI := offsetOf c.inn k.1
    -- the input block (B, f_in, mul_in, n)
    let (b, xn) := b.push (Node.gather [0] ((List.range (B * fi * mi * n)).map fun t =>
        (0, (t / (mi * n)) * dI + oI + t % (mi * n))))
    -- this instruction's weights, expanded to batch B: (B, f_in, f_out, mul_in, mul_out)
    let ps := mi * mo
    let wo := weightOffset c kk
    let (b, wn) := b.push (Node.gather [1] ((List.range (B * fi * fo * ps)).map fun t =>
        let z := t / (fi * fo * ps)
        let xy := (t / ps) % (fi * fo)
        (0, ((if c.shared then 0 else z) * (fi * fo) + xy) * nw + wo + t % ps)))
    let size (l : Nat) : Nat :=
      if l == Lz then B else if l == Lx then fi else if l == Ly then fo else if l == Lu then mi
      else if l == Lw then mo else n
    let (b, en) := b.push (mkEinsum size [Lz, Ly, Lw, Li] [(wn, [Lz, Lx, Ly, Lu, Lw]), (xn, [Lz, Lx, Lu, Li])])
    let (b, sn) := b.push (Node.scale (coef c k) en)
    ({ b with contribs := b.contribs ++ [(k.2, sn)] }, kk + 1)
  let built := (c.ins.foldl step (b0, 0)).1
  -- per output block (B, f_out, mul·n): zeros + Σ contributions (+ bias, broadcast over the batch)
  let blockStep (acc : Build × List Nat) (io : Nat) : Build × List Nat :=
    let b := acc.1
    let bd := dimOf (c.out.getD io default)
    let len := B * fo * bd
    let (b, z) := b.push (Node.const (List.replicate len []))
    let res := (b.contribs.filter fun cn => cn.1 == io).foldl (fun (st : Build × Nat) cn =>
        st.1.push (Node.add st.2 cn.2)) (b, z)
    let res := if hasBias c io && bd != 0 then
        let (b1, bn) := res.1.push (Node.gather [2] ((List.range len).map fun t =>
            (0, ((t / bd) % fo) * nb + biasOffset c io + t % bd)))
        b1.push (Node.add res.2 bn)
      else res
    (res.1, acc.2 ++ [res.2])
  let blocks := (List.range c.out.length).foldl blockStep (built, [])
  let b := blocks.1
  let blockNodes := blocks.2
  -- output (B, f_out, dO)
  let idx : List (Nat × Nat) := (List.range (B * fo * dO)).map fun t =>
    let zy := t / dO
    let r := t % dO
    let p := locate c.out r
    (p.1, zy * dimOf (c.out.getD p.1 default) + p.2)
  b.nodes ++ [Node.gather blockNodes idx]

/-! ### the specification entry by entry -/

section
variable {K : Type} [Sca K]

/-- the linear part of output entry `(b, yc, io, w, i)`:
    `Σ_k [k → io] a_k Σ_xc Σ_u W_k[bw, xc, yc, u, w] · x[b, xc, off_in + u·n + i]` -/
def linEntry (c : Cfg) (mkVar : Nat → K) (b yc io w i : Nat) : K :=
  sumK ((List.range c.ins.length).map fun kk =>
    let k := c.ins.getD kk (0, 0)
    if k.2 == io then
      Sca.ofC (coef c k) * sumK ((List.range (fIn c)).map fun xc => sumK ((List.range (mulIn c k)).map fun u =>
        mkVar (wVar c b xc yc (weightOffset c kk + u * mulOut c k + w)) *
        mkVar (xVar c b xc (offsetOf c.inn k.1 + u * irDim (c.inn.getD k.1 default) + i))))
    else Sca.zero)

/-- the bias part of output entry `(yc, io, q)`, `q = w·n + i` the position inside the block -/
def biasEntry (c : Cfg) (mkVar : Nat → K) (yc io q : Nat) : K :=
  if hasBias c io then mkVar (bVar c yc (biasOffset c io + q)) else Sca.zero

/-- all output entries in flat order `(b, yc, r)` -/
def blockSpec (c : Cfg) (mkVar : Nat → K) : List K :=
  let dO := totalDim c.out
  (List.range (c.B * fOut c * dO)).map fun t =>
    let b := t / (fOut c * dO)
    let yc := (t / dO) % fOut c
    let p := locate c.out (t % dO)
    let n := irDim (c.out.getD p.1 default)
    linEntry c mkVar b yc p.1 (p.2 / n) (p.2 % n) + biasEntry c mkVar yc p.1 p.2

end

/-- kernel-decidable: the IR rendering and the entry-wise rendering of the specification have the same
    coefficient polynomials -/
def specAgrees (c : Cfg) : Bool := polysEq (interpPoly (specProg c)) (blockSpec c Poly.var)

/-- expected `output_mask`: an entry is 1 iff some instruction with a non-empty weight block, or a non-empty bias,
    reaches its block -/
def outputMask (c : Cfg) : List Bool :=
  (List.range c.out.length).flatMap fun io =>
    let e := c.out.getD io default
    let reached := (c.ins.any fun k => k.2 == io && pathSize c k != 0) || (hasBias c io && dimOf e != 0)
    List.replicate (dimOf e) reached

end E3nnVerif.Model.Lin
