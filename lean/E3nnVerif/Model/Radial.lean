import E3nnVerif.Model.Scalar
/-
C16 — model of
  e3nn/math/_soft_unit_step.py          (`_SoftUnitStep.forward/backward`)
  e3nn/math/_soft_one_hot_linspace.py   (`soft_one_hot_linspace`, all five bases, both cutoffs)
  e3nn/math/_normalize_activation.py    (`moment`, `normalize2mom.__init__/forward`)
as written, generic over a law-free `[Scalar K]` (executed at `Float` by drivers/C16.lean, theorems at ℝ
in Props/C16.lean).  The order of the floating point operations follows the Python expressions.

What is *not* mirrored bit for bit: `torch.linspace` is modelled by the scalar CPU kernel
(`start + step*i` below the half way index, `end - step*(steps-1-i)` from it on); the vectorised kernel of
the installed torch computes `(start + step*i0) + lane*step` per SIMD chunk, which differs in the last ulp.
-/
namespace E3nnVerif.Radial
open Scalar

variable {K : Type} [Scalar K]

/-! ### `_soft_unit_step.py` -/

/-- `_SoftUnitStep.forward`: `y = zeros_like(x); m = x > 0.0; y[m] = (-1 / x[m]).exp()` -/
def softUnitStep (x : K) : K :=
  if Scalar.lt (ofNat 0) x then Scalar.exp ((-(ofNat 1)) / x) else ofNat 0

/-- the local factor of `_SoftUnitStep.backward`:
`dx = zeros_like(x); m = x > 0.0; dx[m] = (-1 / xm).exp() / xm.pow(2)` -/
def softUnitStepGrad (x : K) : K :=
  if Scalar.lt (ofNat 0) x then Scalar.exp ((-(ofNat 1)) / x) / (x * x) else ofNat 0

/-- `_SoftUnitStep.backward`: `return dx * dy` -/
def softUnitStepBackward (x dy : K) : K := softUnitStepGrad x * dy

/-! ### `torch.linspace` (scalar CPU kernel) -/

/-- element `i` of `torch.linspace(start, stop, steps)` -/
def linspaceAt (start stop : K) (steps i : Nat) : K :=
  if steps = 1 then start
  else
    let step := (stop - start) / ofNat (steps - 1)
    if i < steps / 2 then start + step * ofNat i else stop - step * ofNat (steps - i - 1)

def linspace (start stop : K) (steps : Nat) : List K :=
  (List.range steps).map (linspaceAt start stop steps)

/-! ### `soft_one_hot_linspace` -/

inductive Basis | gaussian | cosine | smoothFinite | fourier | bessel
  deriving DecidableEq, Repr

def Basis.ofString? : String → Option Basis
  | "gaussian" => some .gaussian
  | "cosine" => some .cosine
  | "smooth_finite" => some .smoothFinite
  | "fourier" => some .fourier
  | "bessel" => some .bessel
  | _ => none

/-- the exceptions `soft_one_hot_linspace` can raise on scalar `start,end`, integer `number` -/
inductive Err
  | cutoffUnspecified   -- ValueError("cutoff must be specified")
  | linspaceNegative    -- RuntimeError: number of steps must be non-negative
  | indexError          -- IndexError at `values[1]` (fewer than two linspace points)
  | invalidBasis        -- ValueError('basis=... is not a valid entry')
  deriving DecidableEq, Repr

/-- number of points given to `torch.linspace`: `number` or `number + 2` -/
def linSteps (number : Nat) (cutoff : Bool) : Nat := if cutoff then number + 2 else number

/-- `step = values[1] - values[0]` (a difference of two linspace values, as coded) -/
def stepOf (start stop : K) (number : Nat) (cutoff : Bool) : K :=
  linspaceAt start stop (linSteps number cutoff) 1 - linspaceAt start stop (linSteps number cutoff) 0

/-- centre `i` (`0 ≤ i < number`): `values[i]`, after `values = values[1:-1]` when `cutoff` -/
def center (start stop : K) (number : Nat) (cutoff : Bool) (i : Nat) : K :=
  linspaceAt start stop (linSteps number cutoff) (if cutoff then i + 1 else i)

/-- `diff = (x[..., None] - values) / step`, component `i` -/
def diffAt (start stop : K) (number : Nat) (cutoff : Bool) (x : K) (i : Nat) : K :=
  (x - center start stop number cutoff i) / stepOf start stop number cutoff

/-- a boolean mask multiplied into a float tensor -/
def mask (b : Bool) : K := if b then ofNat 1 else ofNat 0

/-- `diff.pow(2).neg().exp().div(1.12)` -/
def gaussianOf (d : K) : K := Scalar.exp (-(d * d)) / ofFrac 112 100

/-- `torch.cos(math.pi / 2 * diff) * (diff < 1) * (-1 < diff)` -/
def cosineOf (d : K) : K :=
  Scalar.cos (Scalar.pi / ofNat 2 * d) * mask (Scalar.lt d (ofNat 1)) * mask (Scalar.lt (-(ofNat 1)) d)

/-- the Python float `1.14136 * math.exp(2.0)` (since e3nn commit d69bad1; before it the expression was
`1.14136 * torch.exp(torch.tensor(2.0))`, a tensor of the ambient default dtype) -/
def smoothFiniteConst : K := ofFrac 114136 100000 * Scalar.exp (ofNat 2)

/-- `sfc * soft_unit_step(diff + 1) * soft_unit_step(1 - diff)` for an arbitrary constant `sfc` -/
def smoothFiniteWith (sfc d : K) : K :=
  sfc * softUnitStep (d + ofNat 1) * softUnitStep (ofNat 1 - d)

/-- `1.14136 * math.exp(2.0) * soft_unit_step(diff + 1) * soft_unit_step(1 - diff)` -/
def smoothFiniteOf (d : K) : K := smoothFiniteWith smoothFiniteConst d

/-- `math.sqrt(0.25 + number / 2)` -/
def fourierNorm (number : Nat) : K := Scalar.sqrt (ofFrac 1 4 + ofNat number / ofNat 2)

/-- fourier branch, component `i` (`0 ≤ i < number`); `x = (x - start) / (end - start)` -/
def fourierAt (start stop : K) (number : Nat) (cutoff : Bool) (x : K) (i : Nat) : K :=
  let u := (x - start) / (stop - start)
  if !cutoff then
    Scalar.cos (Scalar.pi * ofNat i * u) / fourierNorm number
  else
    Scalar.sin (Scalar.pi * ofNat (i + 1) * u) / fourierNorm number
      * mask (Scalar.lt (ofNat 0) u) * mask (Scalar.lt u (ofNat 1))

/-- the denominator of the bessel branch: `x = x[..., None] - start` -/
def besselDenom (start x : K) : K := x - start

/-- bessel branch, component `i`:
`math.sqrt(2 / c) * torch.sin(bessel_roots * x / c) / x` (`* ((x / c) < 1) * (0 < x)` when `cutoff`) -/
def besselAt (start stop : K) (cutoff : Bool) (x : K) (i : Nat) : K :=
  let r := besselDenom start x
  let c := stop - start
  let out := Scalar.sqrt (ofNat 2 / c) * Scalar.sin (ofNat (i + 1) * Scalar.pi * r / c) / r
  if !cutoff then out else out * mask (Scalar.lt (r / c) (ofNat 1)) * mask (Scalar.lt (ofNat 0) r)

/-- component `i` of the result for one element `x` -/
def basisAt (b : Basis) (cutoff : Bool) (start stop : K) (number : Nat) (x : K) (i : Nat) : K :=
  match b with
  | .gaussian => gaussianOf (diffAt start stop number cutoff x i)
  | .cosine => cosineOf (diffAt start stop number cutoff x i)
  | .smoothFinite => smoothFiniteOf (diffAt start stop number cutoff x i)
  | .fourier => fourierAt start stop number cutoff x i
  | .bessel => besselAt start stop cutoff x i

/-- the row `out[..., :]` for one element `x` (the function is elementwise in `x`) -/
def softOneHotRow (b : Basis) (cutoff : Bool) (start stop : K) (number : Nat) (x : K) : List K :=
  (List.range number).map (basisAt b cutoff start stop number x)

/-- `soft_one_hot_linspace(x, start, end, number, basis, cutoff)` for one element `x`, with the error
branches in the order the Python code reaches them:
1. `cutoff not in [True, False]`;
2. `torch.linspace` rejects a negative number of points;
3. `values[1]` needs two points;
4. after `diff` is computed, an unknown `basis` string. -/
def softOneHot (x start stop : K) (number : Int) (basis : String) (cutoff : Option Bool) :
    Except Err (List K) :=
  match cutoff with
  | none => .error .cutoffUnspecified
  | some c =>
    let steps : Int := if c then number + 2 else number
    if steps < 0 then .error .linspaceNegative
    else if steps < 2 then .error .indexError
    else
      match Basis.ofString? basis with
      | none => .error .invalidBasis
      | some b => .ok (softOneHotRow b c start stop number.toNat x)

def sumSq (l : List K) : K := l.foldr (fun y acc => y * y + acc) (ofNat 0)

/-! ### `_normalize_activation.py` -/

def npow (y : K) : Nat → K
  | 0 => ofNat 1
  | n + 1 => y * npow y n

/-- `moment(f, n)`: `f(z).pow(n).mean()` over the sample `z` (in the code: 1e6 normals from a generator
seeded with 0).  `fz` is the list `f(z)`. -/
def moment (fz : List K) (n : Nat) : K :=
  (fz.foldr (fun y acc => npow y n + acc) (ofNat 0)) / ofNat fz.length

/-- `cst = moment(f, 2).pow(-0.5)` -/
def cstOf (fz : List K) : K := ofNat 1 / Scalar.sqrt (moment fz 2)

/-- `abs(cst - 1) < 1e-4` -/
def isId (cst : K) : Bool := Scalar.lt (Scalar.abs (cst - ofNat 1)) (ofFrac 1 10000)

/-- `normalize2mom.forward` given `fx = f(x)`: `f(x)` if `_is_id` else `f(x).mul(cst)` -/
def normalize2momForward (cst fx : K) : K := if isId cst then fx else fx * cst

end E3nnVerif.Radial
