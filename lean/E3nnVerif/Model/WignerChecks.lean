import E3nnVerif.Model.Wigner
/-
Bool-valued decision procedures over the exact Wigner tables.  Each is evaluated by the kernel
(`decide +kernel`) in `Cert/`; `Sound/WignerChecks.lean` proves what `= true` means over ℝ.
-/
namespace E3nnVerif.Model.Wigner
open E3nnVerif.Exact

def dotRange (n : Nat) (f : Nat → SqrtQ) : SqrtQ := (List.range n).foldl (fun acc i => acc + f i) []

/-- `Σ_{i<n} f i · g i`, skipping the (many) indices where the sparse factor `g i` is syntactically 0 -/
def dotSkip (n : Nat) (f g : Nat → SqrtQ) : SqrtQ :=
  (List.range n).foldl (fun acc i => let x := g i; bif x.isZero then acc else acc + f i * x) []

def all2 (a b : Nat) (p : Nat → Nat → Bool) : Bool :=
  (List.range a).all fun i => (List.range b).all fun j => p i j
def all3 (a b c : Nat) (p : Nat → Nat → Nat → Bool) : Bool :=
  (List.range a).all fun i => (List.range b).all fun j => (List.range c).all fun k => p i j k

/-- `Xᵀ = -X` -/
def skewCheck (n : Nat) (X : Mat) : Bool :=
  all2 n n fun r c => (X.get r c + X.get c r).isZero

def matMulEntry (n : Nat) (A B : Mat) (r c : Nat) : SqrtQ := dotSkip n (fun k => A.get r k) (fun k => B.get k c)

/-- `A·B − B·A = Cm` -/
def commCheck (n : Nat) (A B Cm : Mat) : Bool :=
  all2 n n fun r c => (matMulEntry n A B r c - matMulEntry n B A r c - Cm.get r c).isZero

/-- `X₀² + X₁² + X₂² = −l(l+1)·1` -/
def casimirCheck (l : Nat) (X0 X1 X2 : Mat) : Bool :=
  let n := 2 * l + 1
  all2 n n fun r c =>
    (matMulEntry n X0 X0 r c + matMulEntry n X1 X1 r c + matMulEntry n X2 X2 r c
      + (if r == c then SqrtQ.ofInt (l * (l + 1)) else [])).isZero

/-- generator form of equivariance of the bilinear map with coefficient tensor `C`:
    `Σᵢ C[i,m,k]·X₁[i,l] + Σⱼ C[l,j,k]·X₂[j,m] = Σₖ' X₃[k,k']·C[l,m,k']` for all `l,m,k` -/
def invCheck (n1 n2 n3 : Nat) (C : T3) (X1 X2 X3 : Mat) : Bool :=
  all3 n1 n2 n3 fun l m k =>
    (dotSkip n1 (fun i => C.get i m k) (fun i => X1.get i l) + dotSkip n2 (fun j => C.get l j k) (fun j => X2.get j m)
      - dotSkip n3 (fun k' => C.get l m k') (fun k' => X3.get k k')).isZero

/-- `Σ C² = 1` -/
def normCheck (C : T3) : Bool := (C.normSq - SqrtQ.one).isZero

/-- `A[i,j,k] = s·B[j,k,i]` (cyclic) -/
def cyclicCheck (n1 n2 n3 : Nat) (A B : T3) : Bool :=
  all3 n1 n2 n3 fun i j k => (A.get i j k - B.get j k i).isZero

/-- `A[i,j,k] = s·B[j,i,k]` (transposition of the first two indices, sign `s = ±1`) -/
def swapCheck (n1 n2 n3 : Nat) (neg : Bool) (A B : T3) : Bool :=
  all3 n1 n2 n3 fun i j k => (if neg then A.get i j k + B.get j i k else A.get i j k - B.get j i k).isZero

def dimsOk3 (n1 n2 n3 : Nat) (C : T3) : Bool :=
  C.length == n1 && C.all fun a => a.length == n2 && a.all fun b => b.length == n3

/-- everything C04 needs about one triple, generators `a = 0,1,2` -/
def w3jCert (l1 l2 l3 : Nat) : Bool :=
  let C := w3j l1 l2 l3
  let n1 := 2 * l1 + 1; let n2 := 2 * l2 + 1; let n3 := 2 * l3 + 1
  dimsOk3 n1 n2 n3 C && w3jImagZero l1 l2 l3 && normCheck C &&
  invCheck n1 n2 n3 C (so3Gen l1 0) (so3Gen l2 0) (so3Gen l3 0) &&
  invCheck n1 n2 n3 C (so3Gen l1 1) (so3Gen l2 1) (so3Gen l3 1)

/-- generator certificate for one degree -/
def genCert (l : Nat) : Bool :=
  let n := 2 * l + 1
  let X0 := so3Gen l 0; let X1 := so3Gen l 1; let X2 := so3Gen l 2
  so3GenImagZero l 0 && so3GenImagZero l 1 && so3GenImagZero l 2 &&
  skewCheck n X0 && skewCheck n X1 && skewCheck n X2 &&
  commCheck n X0 X1 X2 && commCheck n X1 X2 X0 && commCheck n X2 X0 X1 &&
  casimirCheck l X0 X1 X2

end E3nnVerif.Model.Wigner

namespace E3nnVerif.Model.Wigner
open E3nnVerif.Exact
/-- cyclic symmetry and the transposition sign `(-1)^(l1+l2+l3)` of one triple -/
def w3jSymCert (l1 l2 l3 : Nat) : Bool :=
  let n1 := 2 * l1 + 1; let n2 := 2 * l2 + 1; let n3 := 2 * l3 + 1
  cyclicCheck n1 n2 n3 (w3j l1 l2 l3) (w3j l2 l3 l1) &&
  swapCheck n1 n2 n3 ((l1 + l2 + l3) % 2 == 1) (w3j l1 l2 l3) (w3j l2 l1 l3)
end E3nnVerif.Model.Wigner
