/-
Model of `e3nn.o3.Irrep` / `e3nn.o3.Irreps` (files e3nn/o3/_irreps.py, e3nn/o3/irrep/__init__.py,
`e3nn.math.perm.inverse`) *as the Python code behaves*, property C06.

Core Lean only (no Mathlib).  Strings are `List Char` (a Python `str` without lone surrogates).

What is modelled (with the line of `_irreps.py` each definition mirrors):
  * the CPython pieces the parser leans on: `str.strip()` (Unicode whitespace), `str.split(c)`,
    `c in s`, `int(str)` (ASCII whitespace + non-ASCII Unicode whitespace, sign, `_` digit separators,
    Unicode decimal digits of Unicode 15.0 = CPython 3.12's table) — `strip`, `splitOn`, `pyInt`
  * `Irrep.__new__` for a string (l.61-72), for the other spellings (l.56-80)  — `parseIrrep`, `irrepOfArg`
  * `Irreps.__new__` (l.350-396)                                            — `parseIrreps`, `ofItems`, `ofInput`
  * `__repr__` of Irrep / _MulIr / Irreps (l.92-94, 285-286, 643-644)         — `printIrrep`, `printMulIr`, `printIrreps`
  * dim, num_irreps, ls, lmax, slices, count, __contains__, __getitem__, __add__, __mul__, simplify,
    remove_zero_multiplicities, sort, regroup, spherical_harmonics
  * `Irrep.__mul__` (triangle rule), `Irrep.iterator`, `Irrep.__rmul__`, `Irrep.__add__`, `is_scalar`, `Irrep.dim`
  * `blocks`: the list `[ir for mul, ir in self for _ in range(mul)]` that `Irreps.D_from_angles` (l.668)
    hands to `direct_sum`
  * `e3nn.o3.irrep.__getattr__`                                             — `lookup`

Not modelled: CPython's `sys.get_int_max_str_digits()` limit (4300 digits) on `int(str)`/`str(int)`;
`python -O` (the `assert`s of the parser are taken to be active); memory limits.
-/
namespace E3nnVerif.Model.Irreps

/-! ## Parity and Irrep -/

/-- `odd` is the Python value `-1` (letter `o`), `even` is `+1` (letter `e`). -/
inductive Parity
  | odd
  | even
  deriving DecidableEq, Repr, Inhabited

namespace Parity

def toInt : Parity → Int
  | odd => -1
  | even => 1

/-- rank used by tuple comparison: `-1 < 1` -/
def rank : Parity → Nat
  | odd => 0
  | even => 1

/-- `p1 * p2` -/
def mul : Parity → Parity → Parity
  | odd, odd => even
  | odd, even => odd
  | even, odd => odd
  | even, even => even

def neg : Parity → Parity
  | odd => even
  | even => odd

/-- `(-1) ** l` -/
def negOnePow (l : Nat) : Parity := if l % 2 = 0 then even else odd

/-- `p ** l` -/
def pow (p : Parity) (l : Nat) : Parity :=
  match p with
  | even => even
  | odd => negOnePow l

def letter : Parity → Char
  | odd => 'o'
  | even => 'e'

end Parity

structure Irrep where
  l : Nat
  p : Parity
  deriving DecidableEq, Repr, Inhabited

/-- `Irrep.dim` (l.218-220) -/
def Irrep.dim (ir : Irrep) : Nat := 2 * ir.l + 1

/-- `Irrep.is_scalar` (l.222-224) -/
def Irrep.isScalar (ir : Irrep) : Bool := ir.l == 0 && ir.p == .even

/-- one entry `_MulIr(mul, ir)` -/
abbrev MulIr := Nat × Irrep

/-- `Irreps`: a tuple of `_MulIr` -/
abbrev Irreps := List MulIr

/-- exceptions the modelled code raises (the harness maps Python exceptions to these names) -/
inductive Err
  | value            -- ValueError
  | valueLmaxEmpty   -- ValueError("Cannot get lmax of empty Irreps")  (l.639-640)
  | valueMaxEmpty    -- ValueError raised by `max([])` inside lmax       (l.641)
  | index            -- IndexError
  | attribute        -- AttributeError
  | type             -- TypeError
  | notImplemented   -- NotImplementedError
  deriving DecidableEq, Repr, Inhabited

abbrev Str := List Char

/-! ## CPython string primitives -/

/-- `str.isspace` for one character = `_PyUnicode_IsWhitespace` (Unicode 15.0). -/
def isSpace (c : Char) : Bool :=
  let n := c.toNat
  (9 ≤ n && n ≤ 13) || (28 ≤ n && n ≤ 32) || n == 0x85 || n == 0xA0 || n == 0x1680 ||
  (0x2000 ≤ n && n ≤ 0x200A) || n == 0x2028 || n == 0x2029 || n == 0x202F || n == 0x205F || n == 0x3000

/-- code points of every character with `unicodedata.decimal(c) == 0` (Unicode 15.0); each is followed by the
characters of decimal value 1..9.  Checked against the running interpreter by harness/c06.py. -/
def decimalZeros : List Nat :=
  [48, 1632, 1776, 1984, 2406, 2534, 2662, 2790, 2918, 3046, 3174, 3302, 3430, 3558, 3664, 3792, 3872,
   4160, 4240, 6112, 6160, 6470, 6608, 6784, 6800, 6992, 7088, 7232, 7248, 42528, 43216, 43264, 43472,
   43504, 43600, 44016, 65296, 66720, 68912, 69734, 69872, 69942, 70096, 70384, 70736, 70864, 71248,
   71360, 71472, 71904, 72016, 72784, 73040, 73120, 73552, 92768, 92864, 93008, 120782, 120792, 120802,
   120812, 120822, 123200, 123632, 124144, 125264, 130032]

/-- `Py_UNICODE_TODECIMAL` -/
def decimalVal (n : Nat) : Option Nat :=
  match decimalZeros.find? (fun z => z ≤ n && n < z + 10) with
  | some z => some (n - z)
  | none => none

/-- what `int()` sees of one character after `_PyUnicode_TransformDecimalAndSpaceToASCII`:
code points < 127 are kept (so only `\t\n\v\f\r` and space are blanks there: `Py_ISSPACE`), other Unicode
whitespace becomes a blank, other Unicode decimal digits become ASCII digits, the rest is rejected. -/
inductive Tok
  | ws
  | plus
  | minus
  | us
  | digit (d : Nat)
  | bad
  deriving DecidableEq, Repr

def tok (c : Char) : Tok :=
  let n := c.toNat
  if n < 127 then
    if n = 32 ∨ (9 ≤ n ∧ n ≤ 13) then .ws
    else if n = 43 then .plus
    else if n = 45 then .minus
    else if n = 95 then .us
    else if 48 ≤ n ∧ n ≤ 57 then .digit (n - 48)
    else .bad
  else if isSpace c then .ws
  else
    match decimalVal n with
    | some d => .digit d
    | none => .bad

def Tok.isWs : Tok → Bool
  | .ws => true
  | _ => false

/-- the digit scan of `long_from_non_binary_base`: digits with single `_` between digits; returns the value
and the unread rest, `none` on a doubled or trailing underscore. -/
def digitsLoop (acc : Nat) (prevUs : Bool) : Str → Option (Nat × Str)
  | [] => if prevUs then none else some (acc, [])
  | c :: r =>
    match tok c with
    | .digit d => digitsLoop (10 * acc + d) false r
    | .us => if prevUs then none else digitsLoop acc true r
    | _ => if prevUs then none else some (acc, c :: r)

/-- after the optional sign: at least one digit first (no leading `_`), digit scan, trailing blanks, end. -/
def pyIntUnsigned : Str → Option Nat
  | [] => none
  | c :: r =>
    match tok c with
    | .digit d =>
      match digitsLoop d false r with
      | some (v, rest) => if rest.all (fun c => (tok c).isWs) then some v else none
      | none => none
    | _ => none

/-- `int(s)` for a `str` (base 10): `none` = ValueError. -/
def pyInt (s : Str) : Option Int :=
  match s.dropWhile (fun c => (tok c).isWs) with
  | [] => none
  | c :: r =>
    match tok c with
    | .plus => (pyIntUnsigned r).map Int.ofNat
    | .minus => (pyIntUnsigned r).map (fun v => -Int.ofNat v)
    | _ => (pyIntUnsigned (c :: r)).map Int.ofNat

/-- `s.strip()` -/
def strip (s : Str) : Str :=
  ((s.dropWhile isSpace).reverse.dropWhile isSpace).reverse

/-- `s.split(sep)` for a one-character separator: always `count(sep) + 1` pieces. -/
def splitOn (sep : Char) : Str → List Str
  | [] => [[]]
  | c :: cs =>
    if c = sep then [] :: splitOn sep cs
    else
      match splitOn sep cs with
      | [] => [[c]]
      | h :: t => (c :: h) :: t

/-! ## Decimal printing (`f"{n}"` for a non-negative int) -/

def digitChar (d : Nat) : Char := Char.ofNat (48 + d)

/-- least significant digit first; `fuel` bounds the number of digits (structural recursion) -/
def revDigitsFuel : Nat → Nat → List Nat
  | 0, n => [n]
  | fuel + 1, n => if n < 10 then [n] else (n % 10) :: revDigitsFuel fuel (n / 10)

def revDigits (n : Nat) : List Nat := revDigitsFuel n n

def natStr (n : Nat) : Str := (revDigits n).reverse.map digitChar

/-! ## Irrep: parser and printer -/

/-- `Irrep(s)` for a string `s` (l.61-72): strip, `int(name[:-1])`, `assert l >= 0`, parity letter
`e`/`o`/`y` (`y` = `(-1)**l`).  Every failure is re-raised as ValueError. -/
def parseIrrep (s : Str) : Except Err Irrep :=
  let name := strip s
  match pyInt name.dropLast, name.getLast? with
  | some l, some c =>
    if l < 0 then .error .value
    else if c = 'e' then .ok ⟨l.toNat, .even⟩
    else if c = 'o' then .ok ⟨l.toNat, .odd⟩
    else if c = 'y' then .ok ⟨l.toNat, Parity.negOnePow l.toNat⟩
    else .error .value
  | _, _ => .error .value

/-- `repr(Irrep)` (l.92-94) -/
def printIrrep (ir : Irrep) : Str := natStr ir.l ++ [ir.p.letter]

/-- `repr(_MulIr)` (l.285-286) -/
def printMulIr (e : MulIr) : Str := natStr e.1 ++ 'x' :: printIrrep e.2

/-- `repr(Irreps)` (l.643-644): `"+".join(...)` -/
def printIrreps (x : Irreps) : Str := List.intercalate ['+'] (x.map printMulIr)

/-! ## Irreps: constructors -/

/-- one `+`-separated piece of the string form (l.361-370) -/
def parseMulIr (piece : Str) : Except Err MulIr :=
  if piece.contains 'x' then
    match splitOn 'x' piece with
    | [m, ir] =>
      match pyInt m with
      | none => .error .value
      | some mul =>
        match parseIrrep ir with
        | .error e => .error e
        | .ok i => if mul < 0 then .error .value else .ok (mul.toNat, i)
    | _ => .error .value        -- `mul, ir = mul_ir.split("x")` with ≠ 2 pieces
  else
    match parseIrrep piece with
    | .error e => .error e
    | .ok i => .ok (1, i)

/-- `Irreps(s)` for a string (l.357-372) -/
def parseIrreps (s : Str) : Except Err Irreps :=
  if strip s = [] then .ok [] else (splitOn '+' s).mapM parseMulIr

/-- a Python object in a position where the code tests `isinstance(·, int)` -/
inductive PyScalar
  | int (z : Int)
  | bool (b : Bool)     -- `bool` is a subclass of `int`; `True == 1`
  | other               -- None, float (≠ ±1), str, ... : not an `int` instance, not `in (-1, 1)`
  deriving DecidableEq, Repr

def PyScalar.asInt? : PyScalar → Option Int
  | .int z => some z
  | .bool b => some (if b then 1 else 0)
  | .other => none

/-- argument of `Irrep(·)` called with `p=None` -/
inductive IrArg
  | ir (i : Irrep)
  | str (s : Str)
  | tup (l p : PyScalar)          -- a 2-tuple
  | tupBad                        -- a tuple of another length: `l, p = l` raises ValueError
  | scalar (v : PyScalar)         -- `Irrep(3)`: p stays None -> ValueError
  deriving Repr

/-- `Irrep(l, p)` with both given (l.76-80) -/
def irrepOfLP (l p : PyScalar) : Except Err Irrep :=
  match l.asInt?, p.asInt? with
  | some l, some p =>
    if l < 0 then .error .value
    else if p = 1 then .ok ⟨l.toNat, .even⟩
    else if p = -1 then .ok ⟨l.toNat, .odd⟩
    else .error .value
  | _, _ => .error .value

/-- `Irrep(arg)` (l.56-80) -/
def irrepOfArg : IrArg → Except Err Irrep
  | .ir i => .ok i
  | .str s => parseIrrep s
  | .tup l p => irrepOfLP l p
  | .tupBad => .error .value
  | .scalar _ => .error .value

/-- one element of the iterable handed to `Irreps(·)` (l.376-395) -/
inductive Item
  | str (s : Str)
  | ir (i : Irrep)
  | mulir (mul : Nat) (i : Irrep)
  | pair (mul : PyScalar) (ir : IrArg)   -- any other sequence of length 2
  | badLen                               -- a sequence of length ≠ 2: ValueError
  | noLen                                -- an object without `len()`: TypeError
  deriving Repr

def ofItem : Item → Except Err MulIr
  | .str s =>
    match parseIrrep s with
    | .error e => .error e
    | .ok i => .ok (1, i)
  | .ir i => .ok (1, i)
  | .mulir m i => .ok (m, i)
  | .pair mul ir =>
    match irrepOfArg ir with
    | .error e => .error e
    | .ok i =>
      match mul.asInt? with
      | some m => if m < 0 then .error .value else .ok (m.toNat, i)
      | none => .error .value
  | .badLen => .error .value
  | .noLen => .error .type

def ofItems (items : List Item) : Except Err Irreps := items.mapM ofItem

/-- the argument of `Irreps(·)` -/
inductive Input
  | irreps (x : Irreps)
  | irrep (i : Irrep)
  | str (s : Str)
  | none
  | items (l : List Item)
  deriving Repr

/-- `Irreps(·)` (l.350-396) -/
def ofInput : Input → Except Err Irreps
  | .irreps x => .ok x
  | .irrep i => .ok [(1, i)]
  | .str s => parseIrreps s
  | .none => .ok []
  | .items l => ofItems l

/-- `Irreps.spherical_harmonics(lmax, p)` (l.424) for `p ∈ {1,-1}` -/
def sphericalHarmonics (lmax : Int) (p : Parity) : Irreps :=
  (List.range (lmax + 1).toNat).map (fun l => (1, ⟨l, p.pow l⟩))

/-! ## Derived quantities -/

/-- `Irreps.dim` (l.625-627) -/
def dim (x : Irreps) : Nat := (x.map (fun e => e.1 * e.2.dim)).sum

/-- `Irreps.num_irreps` (l.629-631) -/
def numIrreps (x : Irreps) : Nat := (x.map (fun e => e.1)).sum

/-- `Irreps.ls` (l.633-635) -/
def ls (x : Irreps) : List Nat := x.flatMap (fun e => List.replicate e.1 e.2.l)

/-- `[ir for mul, ir in self for _ in range(mul)]`: the blocks `D_from_angles` direct-sums (l.668) -/
def blocks (x : Irreps) : List Irrep := x.flatMap (fun e => List.replicate e.1 e.2)

/-- `Irreps.lmax` (l.637-641): the explicit guard only catches `len(self) == 0`;
an Irreps whose multiplicities are all zero reaches `max([])`. -/
def lmax (x : Irreps) : Except Err Nat :=
  if x.length = 0 then .error .valueLmaxEmpty
  else
    match ls x with
    | [] => .error .valueMaxEmpty
    | a :: r => .ok (r.foldl max a)

def slicesAux (i : Nat) : Irreps → List (Nat × Nat)
  | [] => []
  | e :: r => (i, i + e.1 * e.2.dim) :: slicesAux (i + e.1 * e.2.dim) r

/-- `Irreps.slices()` (l.426-440) as `(start, stop)` pairs -/
def slices (x : Irreps) : List (Nat × Nat) := slicesAux 0 x

/-- `Irreps.count(ir)` (l.496-509) -/
def count (x : Irreps) (ir : Irrep) : Nat := (x.map (fun e => if ir = e.2 then e.1 else 0)).sum

/-- `ir in irreps` (l.492-494) -/
def contains (x : Irreps) (ir : Irrep) : Bool := x.any (fun e => ir = e.2)

/-- `s in irreps` / `irreps.count(s)` for a string `s` go through `Irrep(s)` -/
def containsStr (x : Irreps) (s : Str) : Except Err Bool :=
  match parseIrrep s with
  | .error e => .error e
  | .ok ir => .ok (contains x ir)

def countStr (x : Irreps) (s : Str) : Except Err Nat :=
  match parseIrrep s with
  | .error e => .error e
  | .ok ir => .ok (count x ir)

/-! ## Indexing -/

/-- `irreps[i]` for an int (tuple indexing, l.486-490) -/
def getItem (x : Irreps) (i : Int) : Except Err MulIr :=
  let n : Int := x.length
  let j := if i < 0 then i + n else i
  if j < 0 ∨ n ≤ j then .error .index
  else
    match x[j.toNat]? with
    | some e => .ok e
    | none => .error .index

/-- `PySlice_AdjustIndices`: clamp one bound -/
def adjustBound (len : Int) (stepNeg : Bool) (b : Int) : Int :=
  if b < 0 then
    let b := b + len
    if b < 0 then (if stepNeg then -1 else 0) else b
  else if b ≥ len then (if stepNeg then len - 1 else len)
  else b

/-- `slice(start, stop, step).indices(len)` together with the number of selected items -/
def sliceIndices (len : Nat) (start stop step : Option Int) : Except Err (Int × Int × Nat) :=
  let step := step.getD 1
  if step = 0 then .error .value
  else
    let n : Int := len
    let neg := decide (step < 0)
    let start := match start with
      | none => if neg then n - 1 else 0
      | some s => adjustBound n neg s
    let stop := match stop with
      | none => if neg then -1 else n
      | some s => adjustBound n neg s
    let cnt : Nat :=
      if neg then
        if stop < start then ((start - stop - 1) / (-step)).toNat + 1 else 0
      else
        if start < stop then ((stop - start - 1) / step).toNat + 1 else 0
    .ok (start, step, cnt)

/-- `irreps[start:stop:step]` (l.486-490) -/
def getSlice (x : Irreps) (start stop step : Option Int) : Except Err Irreps :=
  match sliceIndices x.length start stop step with
  | .error e => .error e
  | .ok (s, st, cnt) =>
    .ok ((List.range cnt).filterMap (fun (k : Nat) => x[(s + (k : Int) * st).toNat]?))

/-! ## Algebra -/

/-- `irreps + other` (l.514-516) once `other` has been converted -/
def add (x y : Irreps) : Irreps := x ++ y

/-- `irreps + other` for any accepted spelling of `other` -/
def addInput (x : Irreps) (y : Input) : Except Err Irreps :=
  match ofInput y with
  | .error e => .error e
  | .ok y => .ok (add x y)

def repeatList (n : Nat) (x : Irreps) : Irreps :=
  match n with
  | 0 => []
  | n + 1 => x ++ repeatList n x

/-- `irreps * n` and `n * irreps` for an int `n` (l.518-532): tuple repetition, `n ≤ 0` gives the empty tuple -/
def mulInt (x : Irreps) (n : Int) : Irreps := repeatList n.toNat x

/-- `n * Irrep` (l.246-252): `Irreps([(n, ir)])`, which rejects negative `n` -/
def irrepRMul (n : Int) (ir : Irrep) : Except Err Irreps :=
  if n < 0 then .error .value else .ok [(n.toNat, ir)]

/-- `Irrep + Irrep` (l.254-255) -/
def irrepAdd (a b : Irrep) : Irreps := [(1, a), (1, b)]

/-- `Irreps.remove_zero_multiplicities` (l.562-577) -/
def removeZero (x : Irreps) : Irreps := x.filter (fun e => e.1 > 0)

/-- one iteration of the loop of `simplify` (l.555-559); `out` is kept reversed (head = `out[-1]`) -/
def simplifyStep (out : List MulIr) (e : MulIr) : List MulIr :=
  match out with
  | (m', ir') :: t =>
    if ir' = e.2 then (m' + e.1, e.2) :: t
    else if e.1 > 0 then e :: out
    else out
  | [] => if e.1 > 0 then [e] else []

/-- `Irreps.simplify` (l.534-560) -/
def simplify (x : Irreps) : Irreps := (x.foldl simplifyStep []).reverse

/-! ## sort -/

/-- the triples `(ir, i, mul)` that `sort` builds (l.601) -/
abbrev Triple := Irrep × Nat × Nat

/-- Python's `<=` on the tuples `((l, p), i, mul)`: lexicographic, `-1 < 1` for the parity -/
def tripleLe (a b : Triple) : Bool :=
  if a.1.l ≠ b.1.l then a.1.l < b.1.l
  else if a.1.p.rank ≠ b.1.p.rank then a.1.p.rank < b.1.p.rank
  else if a.2.1 ≠ b.2.1 then a.2.1 < b.2.1
  else a.2.2 ≤ b.2.2

def insertSorted (a : Triple) : List Triple → List Triple
  | [] => [a]
  | b :: r => if tripleLe a b then a :: b :: r else b :: insertSorted a r

/-- `sorted(out)`: stable insertion sort (the triples are pairwise distinct and `tripleLe` is a total order,
so every correct sorting algorithm returns this list) -/
def sortTriples : List Triple → List Triple
  | [] => []
  | a :: r => insertSorted a (sortTriples r)

/-- `[(ir, i, mul) for i, (mul, ir) in enumerate(self)]` -/
def triplesFrom (i : Nat) : Irreps → List Triple
  | [] => []
  | e :: r => (e.2, i, e.1) :: triplesFrom (i + 1) r

/-- `e3nn.math.perm.inverse`: `tuple(p.index(i) for i in range(len(p)))` -/
def permInverse (p : List Nat) : List Nat := (List.range p.length).map (fun i => p.idxOf i)

structure SortResult where
  irreps : Irreps
  p : List Nat
  inv : List Nat
  deriving Repr, DecidableEq

/-- `Irreps.sort()` (l.579-606) -/
def sort (x : Irreps) : SortResult :=
  let out := sortTriples (triplesFrom 0 x)
  let inv := out.map (fun t => t.2.1)
  { irreps := out.map (fun t => (t.2.2, t.1)), p := permInverse inv, inv := inv }

/-- `Irreps.regroup()` (l.608-623) -/
def regroup (x : Irreps) : Irreps := simplify (sort x).irreps

/-! ## Irrep product, iterator, lookup -/

/-- `list(ir1 * ir2)` (l.226-238) -/
def irrepMul (a b : Irrep) : List Irrep :=
  let lmin := if a.l ≤ b.l then b.l - a.l else a.l - b.l
  let lmax := a.l + b.l
  (List.range' lmin (lmax + 1 - lmin)).map (fun l => ⟨l, a.p.mul b.p⟩)

/-- the `k`-th element yielded by `Irrep.iterator()` (l.96-111): `0e, 0o, 1o, 1e, 2e, 2o, ...` -/
def iterNth (k : Nat) : Irrep :=
  let l := k / 2
  ⟨l, if k % 2 = 0 then Parity.negOnePow l else (Parity.negOnePow l).neg⟩

/-- `list(Irrep.iterator(lmax))` for `lmax ≥ 0` (for `None` or a negative `lmax` the generator never stops;
its first `n` elements are `(List.range n).map iterNth`) -/
def iterator (lmax : Nat) : List Irrep := (List.range (2 * (lmax + 1))).map iterNth

/-- `getattr(e3nn.o3.irrep, name)` for a name that is not a real module attribute
(e3nn/o3/irrep/__init__.py): `prefix, *ir = name` raises ValueError on the empty name. -/
def lookup (name : Str) : Except Err Irrep :=
  match name with
  | [] => .error .value
  | pre :: ir =>
    if pre ≠ 'l' ∨ ir = [] then .error .attribute
    else
      match parseIrrep ir with
      | .ok i => .ok i
      | .error _ => .error .attribute

end E3nnVerif.Model.Irreps
