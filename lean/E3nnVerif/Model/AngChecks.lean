import E3nnVerif.Model.SHChecks
import E3nnVerif.Model.Legendre
/-
Kernel-computable check that the Cartesian spherical harmonics of the source (`Generated/SH.lean`, translator T2)
and the angular form `S^l_k(α) · P_{l,k}(cos β, sin β)` built from the Legendre table of `o3.Legendre`
(`Generated/Legendre.lean`, translator T5) and `spherical_harmonics_alpha` are THE SAME function of `(α, β)`:

    Y_{l,k}(sin β sin α, cos β, sin β cos α) = √(4π) · S^l_k(α) · P_{l,k}(cos β, sin β)       (component normalisation)

Both sides are polynomials in `Z = cos β, Y = sin β, C = cos α, S = sin α`; they are compared after reduction to the
normal form of degree ≤ 1 in `Y` and in `S` (`Y² → 1 − Z²`, `S² → 1 − C²`).
-/
namespace E3nnVerif.Ang
open E3nnVerif.Exact E3nnVerif.Model.SH
open E3nnVerif.Legendre (Table)

/-- variables: `Z = cos β`, `Yv = sin β`, `C = cos α`, `S = sin α` -/
def vZ : Nat := 3
def vY : Nat := 4
def vC : Nat := 5
def vS : Nat := 6

/-- substitution of polynomials for variables -/
def substMono (σ : Nat → Poly) (m : Exact.Mono) : Poly := m.foldr (fun v q => σ v * q) Poly.one
def subst (σ : Nat → Poly) (p : Poly) : Poly :=
  p.foldr (fun t acc => Poly.scale t.2 (substMono σ t.1) + acc) []

/-- `angles_to_xyz(α, β) = (sin β sin α, cos β, sin β cos α)` -/
def sigma (v : Nat) : Poly :=
  if v = 0 then Poly.var vY * Poly.var vS
  else if v = 1 then Poly.var vZ
  else if v = 2 then Poly.var vY * Poly.var vC
  else Poly.zero

/-- `v^e` with `v² ↦ 1 − w²`:  `v^(e % 2) · (1 − w²)^(e / 2)` -/
def redPow (v w e : Nat) : Poly :=
  (if e % 2 = 1 then Poly.var v else Poly.one) * Poly.pow (Poly.one - Poly.var w * Poly.var w) (e / 2)

def monoOf (m : Exact.Mono) : Poly := [(m, SqrtQ.one)]

def redMono (v w : Nat) (m : Exact.Mono) : Poly :=
  monoOf (m.filter (fun u => !(Nat.beq v u))) * redPow v w (Exact.Mono.expo v m)

/-- normal form of degree ≤ 1 in `v` modulo `v² + w² = 1` -/
def red (v w : Nat) (p : Poly) : Poly :=
  p.foldr (fun t acc => Poly.scale t.2 (redMono v w t.1) + acc) []

/-- `(cos kα, sin kα)` as polynomials in `C, S` -/
def cosSin : Nat → Poly × Poly
  | 0 => (Poly.one, Poly.zero)
  | k + 1 =>
    let cs := cosSin k
    (cs.1 * Poly.var vC - cs.2 * Poly.var vS, cs.2 * Poly.var vC + cs.1 * Poly.var vS)

/-- `spherical_harmonics_alpha(l, α)[k]` -/
def shaPoly (l k : Nat) : Poly :=
  if k < l then Poly.scale (SqrtQ.mk 1 1 2) (cosSin (l - k)).2
  else if k = l then Poly.one
  else Poly.scale (SqrtQ.mk 1 1 2) (cosSin (k - l)).1

/-- `√π ·` one row of the Legendre table as a polynomial in `Z, Yv` -/
def rowToPoly : List Legendre.Mono → Poly
  | [] => Poly.zero
  | t :: ts =>
    Poly.scale (SqrtQ.mk t.n t.d t.r) (Poly.pow (Poly.var vZ) t.zn * Poly.pow (Poly.var vY) t.yn) + rowToPoly ts

def rowDenOk (row : List Legendre.Mono) : Bool := row.all fun t => decide (0 < t.d)

def nf (p : Poly) : Poly := red vS vC (red vY vZ p)

/-- the identity for degree `l`, component `k` (`√(4π)/√π = 2`) -/
def angCheck1 (Ysym : List (List Poly)) (tab : Table) (l k : Nat) : Bool :=
  rowDenOk (tab.getD (l ^ 2 + k) []) &&
  Poly.beq (nf (subst sigma (polyGet Ysym l k)))
    (nf (Poly.scale (SqrtQ.ofInt 2) (shaPoly l k * rowToPoly (tab.getD (l ^ 2 + k) []))))

def angCheck (Ysym : List (List Poly)) (tab : Table) (l : Nat) : Bool :=
  (List.range (2 * l + 1)).all fun k => angCheck1 Ysym tab l k

end E3nnVerif.Ang
