import E3nnVerif.Model.TPSpec
/-
Kernel-decidable checks on the coefficient polynomials of a tensor-product program (batch `B`, variables
`x1[b,i] = b·d1+i`, `x2[b,j] = B·d1+b·d2+j`, `w[b,n] = B·d1+B·d2+b·nw+n`):
  * `introspectionCheck` (C19): output mask ↔ zero polynomials, weight count, weight views ↔ paths, reported dims
  * `momentCheck`        (C07): exact second moments under the documented input/weight statistics
  * `equivCheck`         (C01): the so(3)-generator identity and the parity rule, monomial by monomial
-/
namespace E3nnVerif.Model.TP
open E3nnVerif.Exact E3nnVerif.IR E3nnVerif.Model.Wigner

/-- index of the irreps entry containing flat position `r`, and the position inside the entry -/
def locate (irr : List (Nat × Nat)) (r : Nat) : Nat × Nat :=
  let rec go (l : List (Nat × Nat)) (i off : Nat) : Nat × Nat :=
    match l with
    | [] => (i, 0)
    | e :: t => if r < off + dimOf e then (i, r - off) else go t (i + 1) (off + dimOf e)
  go irr 0 0

inductive VarKind | x1 (b i : Nat) | x2 (b j : Nat) | w (b n : Nat) | other
deriving Repr

def classify (c : Cfg) (v : Nat) : VarKind :=
  let d1 := totalDim c.in1; let d2 := totalDim c.in2; let nw := weightNumel c
  if v < c.B * d1 then .x1 (v / d1) (v % d1)
  else if v < c.B * d1 + c.B * d2 then .x2 ((v - c.B * d1) / d2) ((v - c.B * d1) % d2)
  else
    let r := v - (c.B * d1 + c.B * d2)
    let Bw := if c.shared then 1 else c.B
    if nw != 0 && r < Bw * nw then .w (r / nw) (r % nw) else .other

/-- weighted instruction whose weight slice contains flat weight index `n` -/
def pathOfWeight (c : Cfg) (n : Nat) : Option Nat :=
  (List.range c.ins.length).find? fun k =>
    (c.ins.getD k default).hasW && weightOffset c k ≤ n && n < weightOffset c k + pathSize c (c.ins.getD k default)

/-- a monomial of output component `k` (batch row `b`) is *well-placed*: exactly one x1 and one x2 variable of the same
    batch row, at most one weight variable (of that row, or row 0 when shared); if it has a weight variable, the
    weight belongs to the slice of a path that connects exactly those input blocks to that output block; without one,
    some unweighted path does -/
def monoPlaced (c : Cfg) (b k : Nat) (m : Mono) : Bool :=
  let ks := m.map (classify c)
  let xs := ks.filterMap fun | .x1 b' i => some (b', i) | _ => none
  let ys := ks.filterMap fun | .x2 b' j => some (b', j) | _ => none
  let ws := ks.filterMap fun | .w b' n => some (b', n) | _ => none
  let bad := ks.any fun | .other => true | _ => false
  match xs, ys with
  | [(bx, i)], [(by_, j)] =>
    let io := (locate c.out k).1
    let i1 := (locate c.in1 i).1
    let i2 := (locate c.in2 j).1
    !bad && bx == b && by_ == b &&
    (match ws with
     | [] => c.ins.any fun p => !p.hasW && p.i1 == i1 && p.i2 == i2 && p.io == io
     | [(bw, n)] => (bw == (if c.shared then 0 else b)) &&
        (match pathOfWeight c n with
         | some kk => let p := c.ins.getD kk default; p.i1 == i1 && p.i2 == i2 && p.io == io
         | none => false)
     | _ => false)
  | _, _ => false

/-- some coefficient is a single non-zero term `q·√r` (so the polynomial is provably not the zero function) -/
def hasNonzeroTerm (p : Poly) : Bool :=
  p.any fun t => match t.2 with
    | [(r, q)] => !q.isZero && r != 0
    | _ => false

def introspectionCheck (c : Cfg) (polys : List Poly) (mask : List Bool) (numel : Nat)
    (views : List (Nat × Nat × Nat)) (dims : Nat × Nat × Nat) : Bool :=
  let dO := totalDim c.out
  -- reported sizes
  dims == (totalDim c.in1, totalDim c.in2, dO) && polys.length == c.B * dO && mask.length == dO &&
  numel == weightNumel c &&
  -- mask 0 ⇔ identically zero ; mask 1 ⇒ provably non-zero (every batch row)
  (List.range (c.B * dO)).all (fun t =>
    let p := polys.getD t []
    if mask.getD (t % dO) false then hasNonzeroTerm p else p.isZero) &&
  -- every monomial sits in the slice / blocks of one path (weights of slice k scale path k and nothing else)
  (List.range (c.B * dO)).all (fun t => (polys.getD t []).all fun tm => tm.2.isZero || monoPlaced c (t / dO) (t % dO) tm.1) &&
  -- the views the module hands out are the model's slices, one per weighted instruction, in order
  views == ((List.range c.ins.length).filterMap fun k =>
      let p := c.ins.getD k default
      if p.hasW then some (k, (if pathSize c p == 0 then 0 else weightOffset c k), pathSize c p) else none)

/-! ### exact second moments -/

/-- group a sorted monomial into (variable, exponent) runs -/
def runs : Mono → List (Nat × Nat)
  | [] => []
  | v :: t =>
    match runs t with
    | (w, e) :: r => if v == w then (w, e + 1) :: r else (v, 1) :: (w, e) :: r
    | [] => [(v, 1)]

/-- Gaussian moments `E z^e` of a centred variable of variance `σ²` (`e ≤ 6`; higher exponents do not occur) -/
def moment (s2 : Q) (e : Nat) : Q :=
  match e with
  | 0 => Q.one
  | 2 => s2
  | 4 => Q.mul (Q.ofNat 3) (Q.mul s2 s2)
  | 6 => Q.mul (Q.ofNat 15) (Q.mul s2 (Q.mul s2 s2))
  | _ => Q.zero

/-- `E[m]` for independent centred Gaussian variables -/
def monoExpect (var : Nat → Q) (m : Mono) : Q :=
  (runs m).foldl (fun acc ve => Q.mul acc (moment (var ve.1) ve.2)) Q.one

/-- `E[p]` -/
def polyExpect (var : Nat → Q) (p : Poly) : SqrtQ :=
  p.foldl (fun acc t => acc + SqrtQ.scale (monoExpect var t.1) t.2) []

/-- variance assumed for each variable: inputs as the chosen irrep normalisation prescribes, weights standard normal -/
def varOf (c : Cfg) (v : Nat) : Q :=
  match classify c v with
  | .x1 _ i =>
    let e := locate c.in1 i
    let base := c.in1Var.getD e.1 Q.one
    if c.irrepNorm == 1 then Q.div base (Q.ofNat (2 * (c.in1.getD e.1 (0, 0)).2 + 1)) else base
  | .x2 _ j =>
    let e := locate c.in2 j
    let base := c.in2Var.getD e.1 Q.one
    if c.irrepNorm == 1 then Q.div base (Q.ofNat (2 * (c.in2.getD e.1 (0, 0)).2 + 1)) else base
  | _ => Q.one

/-- does the documented normalisation law apply to this configuration (unit path weights, a normalisation chosen)? -/
def momentApplies (c : Cfg) : Bool :=
  c.irrepNorm != 2 && c.pathNorm != 2 && c.ins.all fun p => Q.beq p.pw Q.one

/-- every reached output component has second moment exactly its declared variance (`out_var`, or `out_var/dim`
    under 'norm'); unreached components have second moment 0 -/
def momentCheck (c : Cfg) (polys : List Poly) : Bool :=
  !momentApplies c ||
  (let dO := totalDim c.out
   (List.range dO).all fun k =>
    let p := polys.getD k []
    let m2 := polyExpect (varOf c) (p * p)
    let e := locate c.out k
    let ov := c.outVar.getD e.1 Q.one
    let target : Q := if c.irrepNorm == 1 then Q.div ov (Q.ofNat (2 * (c.out.getD e.1 (0, 0)).2 + 1)) else ov
    if p.isZero then m2.isZero else SqrtQ.beq m2 (SqrtQ.ofQ target))

/-! ### equivariance at the Lie-algebra level -/

/-- non-zero entries `(row, col, value)` of the block-diagonal generator `a` on a feature vector with layout `irr` -/
def blockGen (irr : List (Nat × Nat)) (a : Nat) : List (Nat × Nat × SqrtQ) :=
  (List.range irr.length).flatMap fun e =>
    let me := irr.getD e (0, 0)
    let n := 2 * me.2 + 1
    let off := offsetOf irr e
    let X := so3Gen me.2 a
    (List.range me.1).flatMap fun u =>
      (List.range n).flatMap fun r => (List.range n).filterMap fun cc =>
        let v := X.get r cc
        if v.isZero then none else some (off + u * n + r, off + u * n + cc, v)

/-- `Σ_i (X u)_i ∂_i P` for the variables `base + i` -/
def lieDeriv (G : List (Nat × Nat × SqrtQ)) (base : Nat) (P : Poly) : Poly :=
  G.foldl (fun acc g =>
    let d := Poly.deriv (base + g.1) P
    if d.isZero then acc else acc + Poly.scale g.2.2 (Poly.var (base + g.2.1) * d)) []

def equivCheckGen (c : Cfg) (polys : List Poly) (a : Nat) : Bool :=
  let d1 := totalDim c.in1; let d2 := totalDim c.in2; let dO := totalDim c.out
  let G1 := blockGen c.in1 a; let G2 := blockGen c.in2 a; let G3 := blockGen c.out a
  (List.range (c.B * dO)).all fun t =>
    let b := t / dO; let k := t % dO
    let P := polys.getD t []
    let lhs := lieDeriv G1 (b * d1) P + lieDeriv G2 (c.B * d1 + b * d2) P
    let rhs := (G3.filter fun g => g.1 == k).foldl (fun acc g => acc + Poly.scale g.2.2 (polys.getD (b * dO + g.2.1) [])) []
    Poly.beq lhs rhs

/-- parity rule, monomial by monomial -/
def parityCheck (c : Cfg) (polys : List Poly) : Bool :=
  let dO := totalDim c.out
  (List.range (c.B * dO)).all fun t =>
    (polys.getD t []).all fun tm => tm.2.isZero ||
      (let ks := tm.1.map (classify c)
       let px := ks.foldl (fun acc kd => match kd with
          | .x1 _ i => acc != c.par1.getD (locate c.in1 i).1 false
          | .x2 _ j => acc != c.par2.getD (locate c.in2 j).1 false
          | _ => acc) false
       px == c.parO.getD (locate c.out (t % dO)).1 false)

/-- generator identity for the `x` and `y` generators (⇒ every rotation) and the parity rule (⇒ inversion) -/
def equivCheck (c : Cfg) (polys : List Poly) : Bool :=
  equivCheckGen c polys 0 && equivCheckGen c polys 1 && parityCheck c polys

end E3nnVerif.Model.TP
