import E3nnVerif.Model.Perm
/-
Executable, Mathlib-free model of  e3nn/math/_reduce.py  as written:
`germinate_formulas` (formula string → f0, closed set of (sign, permutation)) and the exact (rational) part of
`reduce_permutation` (orbits with signs, sign cancellation, canonical choice of the representative, flat index).
The float tensor `Q` of the real code is `Q[i, flat e] = s / sqrt(len(rows[i]))` for `(s, e) ∈ rows[i]`, zero elsewhere.
-/
namespace E3nnVerif.ReduceModel
open E3nnVerif.PermModel

abbrev SPerm := Int × List Nat

/-! ### germinate_formulas -/

/-- `[(-1 if f.startswith("-") else 1, f.replace("-", "")) for f in formula.split("=")]` -/
def parseTerms (formula : String) : List (Int × List Char) :=
  (formula.splitOn "=").map fun f =>
    ((if f.startsWith "-" then (-1 : Int) else 1), f.toList.filter (· != '-'))

def nodupB {α : Type} [DecidableEq α] (l : List α) : Bool := (dedup l).length == l.length

/-- the validity loop: `len(set(f)) != len(f) or set(f) != set(f0)` → RuntimeError, then
    `len(f0) != len(f)` → RuntimeError -/
def termOk (f0 f : List Char) : Bool :=
  nodupB f && f.all (fun c => f0.contains c) && f0.all (fun c => f.contains c) && f.length == f0.length

/-- `(s, tuple(f.index(i) for i in f0))` -/
def termPerm (f0 : List Char) (t : Int × List Char) : SPerm := (t.1, f0.map fun c => t.2.idxOf c)

def sInv (a : SPerm) : SPerm := (a.1, inverseRaw a.2)
def sMul (a b : SPerm) : SPerm := (a.1 * b.1, composeRaw a.2 b.2)

/-- the signed closure loop of germinate_formulas; at most `2 * n!` productive passes -/
def germinateSigned (n : Nat) (gens : List SPerm) : Except Err (List SPerm) :=
  match closeLoop sInv sMul (2 * fact n + 1) (dedup gens) with
  | some g => .ok g
  | none => .error .fuel

def germinateFormulas (formula : String) : Except Err (List Char × List SPerm) :=
  match parseTerms formula with
  | [] => .error .index           -- unreachable: split never returns an empty list
  | (s0, f0) :: rest =>
    if s0 != 1 then .error .assertion
    else if !(((s0, f0) :: rest).all fun t => termOk f0 t.2) then .error .runtime
    else match germinateSigned f0.length (((s0, f0) :: rest).map (termPerm f0)) with
      | .ok g => .ok (f0, g)
      | .error e => .error e

/-! ### reduce_permutation -/

/-- `tuple(x[i] for i in p)` -/
def act (x : List Nat) (p : List Nat) : List Nat := p.map fun i => x.getD i 0

/-- python dict `dims` as an association list -/
abbrev Dims := List (Char × Nat)
def dGet (d : Dims) (c : Char) : Option Nat := (d.find? fun e => e.1 == c).map (·.2)
def dSet (d : Dims) (c : Char) (v : Nat) : Dims :=
  if (d.any fun e => e.1 == c) then d.map fun e => if e.1 == c then (c, v) else e else d ++ [(c, v)]

/-- body of `for i, j in zip(f0, f)` -/
def dimsPair (d : Dims) (ij : Char × Char) : Except Err Dims :=
  let (i, j) := ij
  match dGet d i, dGet d j with
  | some a, some b => if a != b then .error .runtime else .ok (dSet (dSet d j a) i a)
  | some a, none => .ok (dSet (dSet d j a) i a)
  | none, some b => .ok (dSet d i b)
  | none, none => .ok d

def dimsPairs : Dims → List (Char × Char) → Except Err Dims
  | d, [] => .ok d
  | d, ij :: rest => match dimsPair d ij with
    | .error e => .error e
    | .ok d' => dimsPairs d' rest

/-- the first loop of reduce_permutation over `formulas` (in the given list order) -/
def dimsLoop (f0 : List Char) : Dims → List SPerm → Except Err Dims
  | d, [] => .ok d
  | d, (_, p) :: rest =>
    let f := p.map fun i => f0.getD i ' '
    match dimsPairs d (f0.zip f) with
    | .error e => .error e
    | .ok d' => dimsLoop f0 d' rest

/-- `itertools.product(*(range(d) for d in dims))` in lexicographic order -/
def fullBase : List Nat → List (List Nat)
  | [] => [[]]
  | d :: ds => (List.range d).flatMap fun k => (fullBase ds).map fun t => k :: t

/-! python's ordering of tuples / lists (lexicographic) -/
def ltList : List Nat → List Nat → Bool
  | [], [] => false
  | [], _ :: _ => true
  | _ :: _, [] => false
  | a :: as, b :: bs => a < b || (a == b && ltList as bs)

abbrev Entry := Int × List Nat
def ltEntry (a b : Entry) : Bool := a.1 < b.1 || (a.1 == b.1 && ltList a.2 b.2)

def lexLt {α : Type} [DecidableEq α] (lt : α → α → Bool) : List α → List α → Bool
  | [], [] => false
  | [], _ :: _ => true
  | _ :: _, [] => false
  | a :: as, b :: bs => lt a b || (a == b && lexLt lt as bs)

def insertBy {α : Type} (lt : α → α → Bool) (x : α) : List α → List α
  | [] => [x]
  | y :: ys => if lt x y then x :: y :: ys else y :: insertBy lt x ys
/-- `sorted(·)` -/
def sortBy {α : Type} (lt : α → α → Bool) (l : List α) : List α := l.foldr (insertBy lt) []

abbrev Row := List Entry

/-- `xs = {(s, tuple(x[i] for i in p)) for s, p in formulas}` -/
def orbit (formulas : List SPerm) (x : List Nat) : List Entry :=
  dedup (formulas.map fun sp => (sp.1, act x sp.2))

def negRow (xs : List Entry) : List Entry := xs.map fun e => (-e.1, e.2)

/-- `sorted([sorted(xs) for xs in frozenset({frozenset(xs), frozenset(-xs)})])` -/
def canonPair (xs : List Entry) : List Row :=
  let a := sortBy ltEntry xs
  let b := sortBy ltEntry (negRow xs)
  if a = b then [a] else if lexLt ltEntry a b then [a, b] else [b, a]

/-- the `for x in full_base` loop building the set `base` -/
def baseSet (formulas : List SPerm) (full : List (List Nat)) : List (List Row) :=
  full.foldl (fun base x =>
    let xs := orbit formulas x
    if xs.contains ((-1 : Int), x) then base else insertNew base (canonPair xs)) []

def signSum (r : Row) : Int := r.foldl (fun a e => a + e.1) 0

/-- `max(x, key=lambda xs: sum(s for s, x in xs))` (python's max keeps the FIRST maximal element) -/
def pickMax : List Row → Row
  | [] => []
  | r :: rs => rs.foldl (fun best c => if signSum c > signSum best then c else best) r

/-- `j = 0; for k, d in zip(e, dims): j *= d; j += k` -/
def flatIndex (dims : List Nat) (e : List Nat) : Nat := (e.zip dims).foldl (fun j kd => j * kd.2 + kd.1) 0

structure Out where
  dims : List Nat
  rows : List Row        -- `ret`; row i of Q has entries s/sqrt(len(rows[i])) at flatIndex e for (s,e) in rows[i]
  deriving Repr

/-- the part of reduce_permutation after the dimension bookkeeping -/
def reduceCore (formulas : List SPerm) (dims : List Nat) : List Row :=
  let base := sortBy (lexLt (lexLt ltEntry)) (baseSet formulas (fullBase dims))
  base.map pickMax

def reducePermutation (f0 : List Char) (formulas : List SPerm) (dims0 : Dims) : Except Err Out :=
  match dimsLoop f0 dims0 formulas with
  | .error e => .error e
  | .ok d =>
    if !(f0.all fun c => (dGet d c).isSome) then .error .runtime
    else
      let dims := f0.map fun c => (dGet d c).getD 0
      .ok { dims := dims, rows := reduceCore formulas dims }

/-- coefficient (before the 1/sqrt normalisation) of multi-index `y` in a row -/
def coef (r : Row) (y : List Nat) : Int :=
  match r.find? (fun e => e.2 == y) with
  | some e => e.1
  | none => 0

end E3nnVerif.ReduceModel
