import E3nnVerif.Model.SphericalTensor
import E3nnVerif.Theory.Rotation
import Mathlib.Data.List.OfFn
import Mathlib.LinearAlgebra.Matrix.NonsingularInverse
import Mathlib.LinearAlgebra.UnitaryGroup
import Mathlib.LinearAlgebra.Matrix.Rank
import Mathlib.Tactic.Ring
import Mathlib.Tactic.Linarith
/-
Helper lemmas for C18 (`Model/SphericalTensor.lean`):
  * the discrete constructor / guards (closed forms),
  * bridges from the model's list algebra to Mathlib (`List.ofFn f` ↔ `Fin n → ℝ`, `Matrix`),
  * `O(3)` acts on `Vec3` compatibly with `normalize`,
  * `maxAbs`, `keptPairs`, the algebra of `withPeaksAtCore`.
-/
namespace E3nnVerif.SphericalTensor
open E3nnVerif Rotation

/-! ## discrete -/

theorem mapM_ok {α β : Type} (f : α → Except String β) (g : α → β) :
    ∀ l : List α, (∀ x ∈ l, f x = .ok (g x)) → l.mapM f = .ok (l.map g)
  | [], _ => rfl
  | a :: l, h => by
    rw [List.mapM_cons, h a (by simp), mapM_ok f g l (fun x hx => h x (by simp [hx]))]
    rfl

theorem mapM_error {α β : Type} (f : α → Except String β) :
    ∀ l : List α, (∃ x ∈ l, ∃ e, f x = .error e) → ∃ e, l.mapM f = .error e
  | [], h => by simp at h
  | a :: l, h => by
    rw [List.mapM_cons]
    cases hfa : f a with
    | error e => exact ⟨e, rfl⟩
    | ok y =>
      obtain ⟨x, hx, e, he⟩ := h
      have hx' : x ∈ l := by
        rcases List.mem_cons.mp hx with rfl | hx'
        · rw [hfa] at he; cases he
        · exact hx'
      obtain ⟨e', he'⟩ := mapM_error f l ⟨x, hx', e, he⟩
      exact ⟨e', by rw [he']; rfl⟩

def parityOf (pVal pArg : Int) (l : Nat) : Int := if l % 2 = 0 ∨ pArg = 1 then pVal else -pVal

theorem mul_pow_parity {pv pa : Int} (ha : pa = 1 ∨ pa = -1) (l : Nat) :
    pv * pa ^ l = parityOf pv pa l := by
  unfold parityOf
  rcases ha with rfl | rfl
  · simp
  · rcases Nat.even_or_odd l with h | h
    · have : l % 2 = 0 := Nat.even_iff.mp h
      simp [this, h.neg_one_pow]
    · have : l % 2 = 1 := Nat.odd_iff.mp h
      simp [this, h.neg_one_pow]

def stIrreps (n : Nat) (pv pa : Int) : List MulIr :=
  (List.range n).map fun l => (1, l, parityOf pv pa l)

theorem parityOf_pm {pv : Int} (hv : pv = 1 ∨ pv = -1) (pa : Int) (l : Nat) :
    parityOf pv pa l = 1 ∨ parityOf pv pa l = -1 := by
  unfold parityOf; split <;> rcases hv with rfl | rfl <;> simp

theorem irreps_eq {pv pa : Int} (hv : pv = 1 ∨ pv = -1) (ha : pa = 1 ∨ pa = -1) (lmax : Int) :
    irreps lmax pv pa = .ok (stIrreps (lmax + 1).toNat pv pa) := by
  unfold irreps stIrreps
  apply mapM_ok
  intro l _
  rw [mul_pow_parity ha]
  simp [mkIrrep, parityOf_pm hv pa l]

theorem int_mul_pm {a b : Int} (h : a * b = 1 ∨ a * b = -1) : (a = 1 ∨ a = -1) ∧ (b = 1 ∨ b = -1) := by
  have h1 : Int.natAbs a * Int.natAbs b = 1 := by
    rw [← Int.natAbs_mul]; rcases h with h | h <;> simp [h]
  have ha : a.natAbs = 1 := Nat.eq_one_of_mul_eq_one_right h1
  have hb : b.natAbs = 1 := Nat.eq_one_of_mul_eq_one_left h1
  exact ⟨Int.natAbs_eq_iff.mp ha |>.imp id id, Int.natAbs_eq_iff.mp hb |>.imp id id⟩

/-- which arguments the constructor accepts -/
theorem irreps_ok_iff (lmax pv pa : Int) :
    (∃ irs, irreps lmax pv pa = .ok irs) ↔
      lmax < 0 ∨ ((pv = 1 ∨ pv = -1) ∧ (lmax = 0 ∨ pa = 1 ∨ pa = -1)) := by
  constructor
  · rintro ⟨irs, h⟩
    by_cases hl : lmax < 0
    · exact Or.inl hl
    · right
      have hnot : ¬ ∃ e, irreps lmax pv pa = .error e := by rintro ⟨e, he⟩; rw [he] at h; cases h
      have key : ∀ l : Nat, (l : Int) ≤ lmax → (pv * pa ^ l = 1 ∨ pv * pa ^ l = -1) := by
        intro l hl'
        by_contra hc
        apply hnot
        apply mapM_error
        refine ⟨l, by simp; omega, "ValueError", ?_⟩
        simp [mkIrrep, hc]
      have h0 := key 0 (by omega)
      simp at h0
      refine ⟨h0, ?_⟩
      by_cases hl0 : lmax = 0
      · exact Or.inl hl0
      · right
        have h1 := key 1 (by omega)
        simp at h1
        exact (int_mul_pm h1).2
  · rintro (hl | ⟨hv, hl | ha⟩)
    · refine ⟨[], ?_⟩
      have : (lmax + 1).toNat = 0 := by omega
      simp [irreps, this]; rfl
    · subst hl
      refine ⟨[(1, 0, pv)], ?_⟩
      simp [irreps, mkIrrep, hv]
    · exact ⟨_, irreps_eq hv ha lmax⟩

theorem dimOf_append (a b : List MulIr) : dimOf (a ++ b) = dimOf a + dimOf b := by
  induction a with
  | nil => simp [dimOf]
  | cons x a ih => obtain ⟨m, l, p⟩ := x; simp [dimOf, ih]; omega

theorem dimOf_stIrreps (n : Nat) (pv pa : Int) : dimOf (stIrreps n pv pa) = n ^ 2 := by
  induction n with
  | zero => rfl
  | succ n ih =>
    unfold stIrreps at *
    rw [List.range_succ, List.map_append, dimOf_append, ih]
    simp [dimOf]; ring

theorem lsOf_append (a b : List MulIr) : lsOf (a ++ b) = lsOf a ++ lsOf b := by
  induction a with
  | nil => simp [lsOf]
  | cons x a ih => obtain ⟨m, l, p⟩ := x; simp [lsOf, ih]

theorem lsOf_stIrreps (n : Nat) (pv pa : Int) : lsOf (stIrreps n pv pa) = List.range n := by
  induction n with
  | zero => rfl
  | succ n ih =>
    unfold stIrreps at *
    rw [List.range_succ, List.map_append, lsOf_append, ih]
    simp [lsOf]

theorem maxL_append (a b : List MulIr) : maxL (a ++ b) = Nat.max (maxL a) (maxL b) := by
  induction a with
  | nil => simp [maxL]
  | cons x a ih =>
    obtain ⟨m, l, p⟩ := x
    simp only [List.cons_append, maxL, ih]
    split
    · rfl
    · simp only [Nat.max_def]; repeat' split
      all_goals omega

theorem maxL_stIrreps (n : Nat) (pv pa : Int) : maxL (stIrreps (n + 1) pv pa) = n := by
  induction n with
  | zero => rfl
  | succ n ih =>
    unfold stIrreps at *
    rw [List.range_succ, List.map_append, maxL_append, ih]
    simp [maxL]

theorem lmaxOf_stIrreps (n : Nat) (pv pa : Int) : lmaxOf (stIrreps (n + 1) pv pa) = .ok n := by
  unfold lmaxOf
  rw [maxL_stIrreps]
  simp [stIrreps, List.range_succ]

theorem range_max (n : Nat) : (List.range (n + 1)).max? = some n := by
  rw [List.max?_eq_some_iff]
  refine ⟨by simp, fun b hb => ?_⟩
  have := List.mem_range.mp hb
  omega

theorem shGuard_stIrreps (n : Nat) {pv pa : Int} (hv : pv = 1 ∨ pv = -1) (ha : pa = 1 ∨ pa = -1) :
    shGuard (stIrreps (n + 1) pv pa) =
      if pv = 1 then (if n > 11 then .error "NotImplementedError" else .ok ()) else .error "ValueError" := by
  unfold shGuard
  rw [lsOf_stIrreps, range_max]
  rcases hv with rfl | rfl
  · -- pv = 1: the consistency check passes
    have hall : (stIrreps (n + 1) 1 pa).all (fun ir => ir.2.2 == shInputParity (stIrreps (n + 1) 1 pa) ^ ir.2.1) = true := by
      rw [List.all_eq_true]
      intro ir hir
      simp only [stIrreps, List.mem_map, List.mem_range] at hir
      obtain ⟨l, hl, rfl⟩ := hir
      simp only [beq_iff_eq]
      rcases ha with rfl | rfl
      · -- pa = 1 : all parities are 1
        have hp : parityOf 1 1 l = 1 := by simp [parityOf]
        rw [hp]
        unfold shInputParity
        split
        · simp
        · rename_i hany
          -- no odd l in the list, so l is even
          have : l % 2 = 0 := by
            by_contra hodd
            apply hany
            rw [List.any_eq_true]
            refine ⟨(1, l, parityOf 1 1 l), ?_, ?_⟩
            · simp only [stIrreps, List.mem_map, List.mem_range]; exact ⟨l, hl, rfl⟩
            · simp [hp]; omega
          have he : Even l := Nat.even_iff.mpr this
          simp [he.neg_one_pow]
      · -- pa = -1 : parity (-1)^l, input parity -1
        have hip : shInputParity (stIrreps (n + 1) 1 (-1)) = -1 := by
          unfold shInputParity
          rw [if_neg]
          rw [List.any_eq_true]
          rintro ⟨ir, hir, hc⟩
          simp only [stIrreps, List.mem_map, List.mem_range] at hir
          obtain ⟨l', _, rfl⟩ := hir
          simp [parityOf] at hc
          omega
        rw [hip, ← mul_pow_parity (Or.inr rfl)]; simp
    simp [hall]
  · -- pv = -1 : l = 0 asks for parity -1 ≠ input_p^0
    have hall : (stIrreps (n + 1) (-1) pa).all (fun ir => ir.2.2 == shInputParity (stIrreps (n + 1) (-1) pa) ^ ir.2.1) = false := by
      rw [List.all_eq_false]
      refine ⟨(1, 0, parityOf (-1) pa 0), ?_, ?_⟩
      · simp only [stIrreps, List.mem_map, List.mem_range]; exact ⟨0, by omega, rfl⟩
      · simp [parityOf]
    simp [hall]

/-! ## lists ↔ functions on `Fin n` -/

theorem dot_ofFn : ∀ {n : Nat} (f g : Fin n → ℝ), dot (List.ofFn f) (List.ofFn g) = ∑ i, f i * g i
  | 0, f, g => by simp [dot]
  | n + 1, f, g => by
    rw [List.ofFn_succ, List.ofFn_succ (f := g), dot, dot_ofFn, Fin.sum_univ_succ]

theorem dot_ofFn' {n : Nat} (f g : Fin n → ℝ) : dot (List.ofFn f) (List.ofFn g) = f ⬝ᵥ g := by
  rw [dot_ofFn]; rfl

theorem vadd_ofFn : ∀ {n : Nat} (f g : Fin n → ℝ), vadd (List.ofFn f) (List.ofFn g) = List.ofFn (f + g)
  | 0, f, g => by simp [vadd]
  | n + 1, f, g => by
    have := vadd_ofFn (fun i => f i.succ) (fun i => g i.succ)
    unfold vadd at *
    rw [List.ofFn_succ, List.ofFn_succ (f := g), List.ofFn_succ (f := f + g), List.zipWith_cons_cons, this]
    rfl

theorem vsub_ofFn : ∀ {n : Nat} (f g : Fin n → ℝ), vsub (List.ofFn f) (List.ofFn g) = List.ofFn (f - g)
  | 0, f, g => by simp [vsub]
  | n + 1, f, g => by
    have := vsub_ofFn (fun i => f i.succ) (fun i => g i.succ)
    unfold vsub at *
    rw [List.ofFn_succ, List.ofFn_succ (f := g), List.ofFn_succ (f := f - g), List.zipWith_cons_cons, this]
    rfl

theorem smul_ofFn {n : Nat} (s : ℝ) (f : Fin n → ℝ) : smul s (List.ofFn f) = List.ofFn (s • f) := by
  unfold smul; rw [List.map_ofFn]; rfl

theorem zeros_ofFn (n : Nat) : (zeros n : List ℝ) = List.ofFn (0 : Fin n → ℝ) := by
  unfold zeros; rw [zero_real]; exact (List.ofFn_const n 0).symm

theorem vsum_ofFn {n : Nat} : ∀ (vs : List (Fin n → ℝ)), vsum n (vs.map List.ofFn) = List.ofFn vs.sum
  | [] => by simp [vsum, zeros_ofFn]
  | v :: vs => by simp [vsum, vsum_ofFn vs, vadd_ofFn]

theorem matVec_ofFn {m n : Nat} (A : Matrix (Fin m) (Fin n) ℝ) (x : Fin n → ℝ) :
    matVec (List.ofFn fun i => List.ofFn (A i)) (List.ofFn x) = List.ofFn (A.mulVec x) := by
  unfold matVec
  rw [List.map_ofFn]
  congr 1; funext i
  simp only [Function.comp, dot_ofFn']
  rfl

theorem gram_ofFn {m n : Nat} (C : Matrix (Fin m) (Fin n) ℝ) :
    gram (List.ofFn fun i => List.ofFn (C i)) = List.ofFn fun i => List.ofFn ((C * C.transpose) i) := by
  unfold gram
  rw [List.map_ofFn]
  congr 1; funext i
  simp only [Function.comp, List.map_ofFn]
  congr 1; funext j
  simp only [Function.comp, dot_ofFn', Matrix.mul_apply, Matrix.transpose_apply]
  rfl

theorem zipWith_ofFn {α β γ : Type} (h : α → β → γ) : ∀ {n : Nat} (f : Fin n → α) (g : Fin n → β),
    List.zipWith h (List.ofFn f) (List.ofFn g) = List.ofFn fun i => h (f i) (g i)
  | 0, f, g => by simp
  | n + 1, f, g => by
    rw [List.ofFn_succ, List.ofFn_succ (f := g), List.zipWith_cons_cons, zipWith_ofFn h, List.ofFn_succ (f := fun i => h (f i) (g i))]

theorem vecMat_ofFn {m n : Nat} (x : Fin m → ℝ) (C : Matrix (Fin m) (Fin n) ℝ) :
    vecMat n (List.ofFn x) (List.ofFn fun i => List.ofFn (C i)) = List.ofFn (Matrix.vecMul x C) := by
  unfold vecMat
  rw [zipWith_ofFn]
  have : (List.ofFn fun i => smul (x i) (List.ofFn (C i))) = (List.ofFn fun i => x i • C i).map List.ofFn := by
    rw [List.map_ofFn]; congr 1; funext i; simp [smul_ofFn]
  rw [this, vsum_ofFn]
  congr 1
  rw [List.sum_ofFn]
  funext j
  simp [Matrix.vecMul, dotProduct, Finset.sum_apply]

/-! ## orthogonal maps -/

/-- `R ∈ O(3)` (proper or improper) -/
def IsOrtho (R : Mat3 ℝ) : Prop := R.transpose.mul R = Mat3.one

theorem IsOrtho.normSq {R : Mat3 ℝ} (h : IsOrtho R) (v : Vec3 ℝ) : (R.mulVec v).normSq = v.normSq := by
  unfold IsOrtho at h
  simp only [Mat3.mul, Mat3.transpose, Mat3.one, Mat3.mk.injEq, one_real, zero_real] at h
  obtain ⟨h00, h01, h02, h10, h11, h12, h20, h21, h22⟩ := h
  simp only [Vec3.normSq, Mat3.mulVec]
  linear_combination v.x * v.x * h00 + v.x * v.y * h01 + v.x * v.z * h02 + v.y * v.x * h10 + v.y * v.y * h11
    + v.y * v.z * h12 + v.z * v.x * h20 + v.z * v.y * h21 + v.z * v.z * h22

theorem IsOrtho.normalize {R : Mat3 ℝ} (h : IsOrtho R) (v : Vec3 ℝ) :
    normalize (R.mulVec v) = R.mulVec (normalize v) := by
  have hn : (R.mulVec v).norm = v.norm := by rw [Vec3.norm_real, Vec3.norm_real, h.normSq]
  unfold Rotation.normalize
  rw [hn]
  simp only [Mat3.mulVec]
  congr 1 <;> ring

theorem isOrtho_of_isRot {R : Mat3 ℝ} (h : IsRot R) : IsOrtho R := h.transpose_mul

/-- the point reflection `-1` is orthogonal (improper) -/
theorem isOrtho_neg_one : IsOrtho (⟨-1, 0, 0, 0, -1, 0, 0, 0, -1⟩ : Mat3 ℝ) := by
  simp [IsOrtho, Mat3.mul, Mat3.transpose, Mat3.one]

theorem normalize_scale (v : Vec3 ℝ) (t : ℝ) (ht : 0 < t) (h1 : eps ≤ v.norm) (h2 : eps ≤ t * v.norm) :
    normalize (⟨t * v.x, t * v.y, t * v.z⟩ : Vec3 ℝ) = normalize v := by
  have hn : (⟨t * v.x, t * v.y, t * v.z⟩ : Vec3 ℝ).norm = t * v.norm := by
    rw [Vec3.norm_real, Vec3.norm_real]
    simp only [Vec3.normSq]
    rw [show t * v.x * (t * v.x) + t * v.y * (t * v.y) + t * v.z * (t * v.z) = t ^ 2 * (v.x * v.x + v.y * v.y + v.z * v.z) by ring,
      Real.sqrt_mul (by positivity), Real.sqrt_sq ht.le]
  have hpos : 0 < v.norm := lt_of_lt_of_le eps_pos h1
  rw [normalize_of_le _ (by rw [hn]; exact h2), normalize_of_le _ h1, hn]
  congr 1 <;> field_simp

theorem ortho_dot {n : Nat} {D : Matrix (Fin n) (Fin n) ℝ} (hD : D.transpose * D = 1) (f g : Fin n → ℝ) :
    (D.mulVec f) ⬝ᵥ (D.mulVec g) = f ⬝ᵥ g := by
  rw [Matrix.dotProduct_mulVec, Matrix.vecMul_mulVec, hD, Matrix.vecMul_one]

theorem ortho_of_mem {n : Nat} {D : Matrix (Fin n) (Fin n) ℝ} (hD : D ∈ Matrix.orthogonalGroup (Fin n) ℝ) :
    D.transpose * D = 1 := by
  have := (Matrix.mem_orthogonalGroup_iff' (Fin n) ℝ).mp hD
  simpa [Matrix.star_eq_conjTranspose] using this

theorem norms_flatten : ∀ (irs : List MulIr) (blocks : List (List ℝ)),
    List.Forall₂ (fun ir b => b.length = 2 * ir.2.1 + 1) irs blocks →
    norms irs blocks.flatten = blocks.map fun b => Real.sqrt (dot b b)
  | _, _, .nil => rfl
  | (m, l, p) :: irs, b :: bs, .cons h ht => by
    simp only at h
    simp only [List.flatten_cons, norms, List.map_cons]
    rw [List.take_left' h, List.drop_left' h, norms_flatten irs bs ht]
    rfl

/-! ## `with_peaks_at` -/

theorem isNonzero_real (v : ℝ) : isNonzero v = true ↔ v ≠ 0 := by
  simp only [isNonzero, zero_real, Bool.or_eq_true, Scalar.lt_real]
  exact ⟨fun h => by rcases h with h | h; exact ne_of_lt h; exact ne_of_gt h, fun h => lt_or_gt_of_ne h⟩

theorem maxAbs_nonneg : ∀ l : List ℝ, 0 ≤ maxAbs l
  | [] => by simp [maxAbs]
  | x :: xs => by simp only [maxAbs, max_real, abs_real]; exact le_max_of_le_left (abs_nonneg x)

theorem le_maxAbs : ∀ {l : List ℝ} {x : ℝ}, x ∈ l → |x| ≤ maxAbs l
  | y :: ys, x, h => by
    simp only [maxAbs, max_real, abs_real]
    rcases List.mem_cons.mp h with rfl | h
    · exact le_max_left _ _
    · exact le_max_of_le_right (le_maxAbs h)

theorem maxAbs_eq_zero : ∀ {l : List ℝ}, (∀ x ∈ l, x = 0) → maxAbs l = 0
  | [], _ => by simp [maxAbs]
  | y :: ys, h => by
    simp only [maxAbs, max_real, abs_real]
    rw [h y (by simp), maxAbs_eq_zero (fun x hx => h x (by simp [hx]))]; simp

theorem exists_ofFn_of_length : ∀ (N : Nat) (l : List ℝ), l.length = N → ∃ s : Fin N → ℝ, l = List.ofFn s := by
  rintro _ l rfl; exact ⟨l.get, (List.ofFn_get l).symm⟩

theorem residualTol_real : (residualTol : ℝ) = 1 / 100000 := by
  simp [residualTol, Scalar.ofFrac, Scalar.ofInt]

abbrev LL {m n : Nat} (C : Matrix (Fin m) (Fin n) ℝ) : List (List ℝ) := List.ofFn fun i => List.ofFn (C i)


theorem core_ofFn (lstsq : List (List ℝ) → List ℝ → List ℝ) {N n : Nat} (C : Matrix (Fin N) (Fin n) ℝ)
    (vals s : Fin N → ℝ) (hs : lstsq (LL (C * C.transpose)) (List.ofFn vals) = List.ofFn s) :
    withPeaksAtCore lstsq n (LL C) (List.ofFn vals) =
      if N = 0 then .error "RuntimeError"
      else if maxAbs (List.ofFn (vals - (C * C.transpose).mulVec s)) < 1 / 100000 * maxAbs (List.ofFn vals) then
        .ok (List.ofFn (Matrix.vecMul s C))
      else .error "AssertionError" := by
  unfold withPeaksAtCore
  simp only [LL, gram_ofFn, hs, matVec_ofFn, vsub_ofFn, vecMat_ofFn, residualTol_real]
  by_cases hN : N = 0
  · subst hN; simp
  · have : (List.ofFn vals).isEmpty = false := by
      cases N with
      | zero => exact absurd rfl hN
      | succ k => simp [List.ofFn_succ]
    simp only [this, hN, if_false, Bool.false_eq_true]
    simp

/-- evaluating the returned coefficients at the `a`-th retained direction gives `(A s)_a` -/
theorem eval_vecMul {N n : Nat} (C : Matrix (Fin N) (Fin n) ℝ) (s : Fin N → ℝ) (a : Fin N) :
    C a ⬝ᵥ Matrix.vecMul s C = (C * C.transpose).mulVec s a := by
  rw [← Matrix.mulVec_mulVec, Matrix.mulVec_transpose]
  rfl

/-- the model's `Y` built from a function into `Fin n → ℝ` (every `Y` with outputs of constant length `n` is one) -/
def ofY {n : Nat} (Yf : Vec3 ℝ → Fin n → ℝ) : Vec3 ℝ → List ℝ := fun x => List.ofFn (Yf x)

/-- collocation matrix `C[a, i] = Y_i(normalize v_a)` of the retained pairs -/
noncomputable def keptC {n : Nat} (Yf : Vec3 ℝ → Fin n → ℝ) (kept : List (Vec3 ℝ × ℝ)) : Matrix (Fin kept.length) (Fin n) ℝ :=
  fun a => Yf (normalize kept[a].1)
/-- the retained values -/
def keptVals (kept : List (Vec3 ℝ × ℝ)) : Fin kept.length → ℝ := fun a => kept[a].2

theorem kept_coeff {n : Nat} (Yf : Vec3 ℝ → Fin n → ℝ) (kept : List (Vec3 ℝ × ℝ)) :
    kept.map (fun q => ofY Yf (normalize q.1)) = LL (keptC Yf kept) := by
  unfold LL keptC ofY
  exact (List.ofFn_getElem_eq_map kept (fun q => List.ofFn (Yf (normalize q.1)))).symm

theorem kept_vals (kept : List (Vec3 ℝ × ℝ)) : kept.map (·.2) = List.ofFn (keptVals kept) := by
  unfold keptVals
  exact (List.ofFn_getElem_eq_map kept (·.2)).symm

theorem withPeaksAt_unfold {n : Nat} (Yf : Vec3 ℝ → Fin n → ℝ) (lstsq : List (List ℝ) → List ℝ → List ℝ)
    (irs : List MulIr) (vectors : List (Vec3 ℝ)) (values : Option (List ℝ))
    (hv : vectors ≠ []) (hp : firstParity irs = .ok 1) (hg : shGuard irs = .ok ()) (hn : dimOf irs = n) :
    withPeaksAt (ofY Yf) lstsq irs vectors values =
      withPeaksAtCore lstsq n (LL (keptC Yf (keptPairs vectors (values.getD (vectors.map Vec3.norm)))))
        (List.ofFn (keptVals (keptPairs vectors (values.getD (vectors.map Vec3.norm))))) := by
  unfold withPeaksAt
  have : vectors.isEmpty = false := by cases vectors with | nil => exact absurd rfl hv | cons => rfl
  simp only [this, hp, hg, hn, Bool.false_eq_true, if_false, bind, Except.bind, ne_eq, not_true_eq_false, kept_coeff, kept_vals]

theorem keptPairs_real (vectors : List (Vec3 ℝ)) (values : List ℝ) (p : Vec3 ℝ × ℝ) :
    p ∈ keptPairs vectors values ↔ p ∈ vectors.zip values ∧ p.2 ≠ 0 := by
  simp [keptPairs, List.mem_filter, isNonzero_real]

/-! ## `sum_of_diracs` -/

theorem diracFactor_real (L : Nat) : (diracFactor L : ℝ) = 4 * Real.pi / ((L : ℝ) + 1) ^ 2 := by
  simp [diracFactor]

theorem diracSum_ofFn {n N : Nat} (Yf : Vec3 ℝ → Fin n → ℝ) (p : Fin N → Vec3 ℝ) (v : Fin N → ℝ) :
    diracSum (ofY Yf) n (List.ofFn p) (List.ofFn v) = List.ofFn (∑ i, v i • Yf (normalize (p i))) := by
  unfold diracSum
  rw [zipWith_ofFn]
  have : (List.ofFn fun i => (ofY Yf (normalize (p i))).map (· * v i))
      = (List.ofFn fun i => v i • Yf (normalize (p i))).map List.ofFn := by
    rw [List.map_ofFn]; congr 1; funext i
    simp only [ofY, List.map_ofFn, Function.comp]
    congr 1; funext k; simp [mul_comm]
  rw [this, vsum_ofFn, List.sum_ofFn]

theorem sumOfDiracs_ofFn {n N L : Nat} (Yf : Vec3 ℝ → Fin n → ℝ) (irs : List MulIr)
    (hg : shGuard irs = .ok ()) (hl : lmaxOf irs = .ok L) (hd : dimOf irs = n)
    (p : Fin N → Vec3 ℝ) (v : Fin N → ℝ) :
    sumOfDiracs (ofY Yf) irs (List.ofFn p) (List.ofFn v)
      = .ok (List.ofFn ((4 * Real.pi / ((L : ℝ) + 1) ^ 2) • ∑ i, v i • Yf (normalize (p i)))) := by
  unfold sumOfDiracs
  cases N with
  | zero => simp [hd, zeros_ofFn]
  | succ k =>
    have : (List.ofFn p).isEmpty = false := by simp [List.ofFn_succ]
    simp only [this, Bool.false_eq_true, if_false, hg, hl, hd, bind, Except.bind, pure, Except.pure,
      diracSum_ofFn, smul_ofFn, diracFactor_real]

/-! ## least squares / Gram matrix -/

/-- a least-squares minimiser of an invertible system solves it exactly -/
theorem lstsq_exact {N : Nat} (A : Matrix (Fin N) (Fin N) ℝ) (hdet : A.det ≠ 0) (b s : Fin N → ℝ)
    (hls : ∀ x : Fin N → ℝ, ∑ i, (A.mulVec s i - b i) ^ 2 ≤ ∑ i, (A.mulVec x i - b i) ^ 2) : A.mulVec s = b := by
  have hu : IsUnit A.det := isUnit_iff_ne_zero.mpr hdet
  have h0 := hls (A⁻¹.mulVec b)
  rw [Matrix.mulVec_mulVec, Matrix.mul_nonsing_inv A hu, Matrix.one_mulVec] at h0
  simp only [sub_self, ne_eq, OfNat.ofNat_ne_zero, not_false_eq_true, zero_pow, Finset.sum_const_zero] at h0
  have hz : ∑ i, (A.mulVec s i - b i) ^ 2 = 0 := le_antisymm h0 (Finset.sum_nonneg fun i _ => sq_nonneg _)
  rw [Finset.sum_eq_zero_iff_of_nonneg (fun i _ => sq_nonneg _)] at hz
  funext i
  have := hz i (Finset.mem_univ i)
  nlinarith [sq_nonneg (A.mulVec s i - b i)]

/-- an invertible Gram matrix needs at most as many directions as coefficients -/
theorem gram_card_le {N n : Nat} (C : Matrix (Fin N) (Fin n) ℝ) (hdet : (C * C.transpose).det ≠ 0) : N ≤ n := by
  have hu : IsUnit (C * C.transpose) := (Matrix.isUnit_iff_isUnit_det _).mpr (isUnit_iff_ne_zero.mpr hdet)
  have h1 : (C * C.transpose).rank = N := by simpa using Matrix.rank_of_isUnit _ hu
  have h2 : (C * C.transpose).rank ≤ C.rank := Matrix.rank_mul_le_left C C.transpose
  have h3 : C.rank ≤ n := by simpa using Matrix.rank_le_card_width C
  omega

/-- … and pairwise different rows `Y(v_a)` -/
theorem gram_det_zero_of_repeated {N n : Nat} (C : Matrix (Fin N) (Fin n) ℝ) (a b : Fin N) (hab : a ≠ b)
    (h : C a = C b) : (C * C.transpose).det = 0 := by
  apply Matrix.det_zero_of_row_eq hab
  funext j
  simp [Matrix.mul_apply, h]

theorem maxAbs_pos {l : List ℝ} {x : ℝ} (hx : x ∈ l) (h0 : x ≠ 0) : 0 < maxAbs l :=
  lt_of_lt_of_le (abs_pos.mpr h0) (le_maxAbs hx)

/-! ## the executable solver -/

theorem pickPivot_spec : ∀ (rows : List (List ℝ × ℝ)) (piv : List ℝ × ℝ) (others : List (List ℝ × ℝ)),
    pickPivot rows = some (piv, others) →
      others.length + 1 = rows.length ∧ ∀ r, r ∈ rows ↔ r = piv ∨ r ∈ others
  | [], _, _, h => by simp [pickPivot] at h
  | r :: rs, piv, others, h => by
    unfold pickPivot at h
    cases hp : pickPivot rs with
    | none =>
      rw [hp] at h
      simp only [Option.some.injEq, Prod.mk.injEq] at h
      obtain ⟨rfl, rfl⟩ := h
      cases rs with
      | nil => simp
      | cons a as =>
        exfalso
        unfold pickPivot at hp
        cases h2 : pickPivot as with
        | none => rw [h2] at hp; cases hp
        | some q => rw [h2] at hp; obtain ⟨b, o⟩ := q; simp only at hp; split at hp <;> cases hp
    | some q =>
      obtain ⟨best, oth⟩ := q
      rw [hp] at h
      simp only at h
      obtain ⟨hlen, hmem⟩ := pickPivot_spec rs best oth hp
      split at h
      · simp only [Option.some.injEq, Prod.mk.injEq] at h
        obtain ⟨rfl, rfl⟩ := h
        refine ⟨by simp [← hlen], fun x => ?_⟩
        simp only [List.mem_cons, hmem]
      · simp only [Option.some.injEq, Prod.mk.injEq] at h
        obtain ⟨rfl, rfl⟩ := h
        refine ⟨by simp [← hlen], fun x => ?_⟩
        simp only [List.mem_cons, hmem]
        tauto

theorem dot_vsub_smul (t u xs : List ℝ) (m : ℝ) (n : Nat) (ht : t.length = n) (hu : u.length = n) (hx : xs.length = n) :
    dot (vsub t (smul m u)) xs = dot t xs - m * dot u xs := by
  obtain ⟨f, rfl⟩ := exists_ofFn_of_length n t ht
  obtain ⟨g, rfl⟩ := exists_ofFn_of_length n u hu
  obtain ⟨x, rfl⟩ := exists_ofFn_of_length n xs hx
  rw [smul_ofFn, vsub_ofFn, dot_ofFn', dot_ofFn', dot_ofFn']
  simp [sub_dotProduct, smul_dotProduct]

theorem length_vsub (a b : List ℝ) : (vsub a b).length = min a.length b.length := by simp [vsub]
theorem length_smul (m : ℝ) (a : List ℝ) : (smul m a).length = a.length := by simp [smul]

/-- soundness of the executable solver: whatever it returns solves every equation of the system -/
theorem gaussSolveAux_sound : ∀ (n : Nat) (rows : List (List ℝ × ℝ)) (xs : List ℝ),
    (∀ r ∈ rows, r.1.length = n) → rows.length ≤ n → gaussSolveAux n rows = some xs →
      xs.length = n ∧ ∀ r ∈ rows, dot r.1 xs = r.2
  | 0, rows, xs, _, hlen, h => by
    simp only [gaussSolveAux, Option.some.injEq] at h
    subst h
    have : rows = [] := List.length_eq_zero_iff.mp (Nat.le_zero.mp hlen)
    subst this; simp
  | n + 1, rows, xs, hw, hlen, h => by
    unfold gaussSolveAux at h
    cases hp : pickPivot rows with
    | none => rw [hp] at h; cases h
    | some q =>
      obtain ⟨piv, others⟩ := q
      rw [hp] at h
      simp only at h
      obtain ⟨hl, hmem⟩ := pickPivot_spec rows piv others hp
      split at h
      · rename_i hnz
        rw [isNonzero_real] at hnz
        -- the pivot row
        have hpiv : piv.1.length = n + 1 := hw piv ((hmem piv).mpr (Or.inl rfl))
        obtain ⟨p, ptail, hpe⟩ : ∃ p ptail, piv.1 = p :: ptail := by
          cases hh : piv.1 with
          | nil => rw [hh] at hpiv; cases hpiv
          | cons a as => exact ⟨a, as, rfl⟩
        have hpt : ptail.length = n := by rw [hpe] at hpiv; simpa using hpiv
        simp only [hpe, List.headD_cons, List.tail_cons] at h hnz
        split at h
        · cases h
        · rename_i ys hys
          simp only [Option.some.injEq] at h
          subst h
          have hred := gaussSolveAux_sound n _ ys (by
              intro r hr
              simp only [List.mem_map] at hr
              obtain ⟨r0, hr0, rfl⟩ := hr
              have h0 : r0.1.length = n + 1 := hw r0 ((hmem r0).mpr (Or.inr hr0))
              simp only [length_vsub, length_smul, List.length_tail, h0, hpt]
              simp) (by simp; omega) hys
          obtain ⟨hyl, hyr⟩ := hred
          refine ⟨by simp [hyl], fun r hr => ?_⟩
          rcases (hmem r).mp hr with rfl | hro
          · rw [hpe]
            simp only [dot]
            field_simp
            ring
          · have h0 : r.1.length = n + 1 := hw r hr
            obtain ⟨a, t, hre⟩ : ∃ a t, r.1 = a :: t := by
              cases hh : r.1 with
              | nil => rw [hh] at h0; cases h0
              | cons a as => exact ⟨a, as, rfl⟩
            have htl : t.length = n := by rw [hre] at h0; simpa using h0
            have := hyr _ (List.mem_map.mpr ⟨r, hro, rfl⟩)
            simp only [hre, List.headD_cons, List.tail_cons] at this
            rw [dot_vsub_smul t ptail ys (a / p) n htl hpt hyl] at this
            rw [hre]
            simp only [dot]
            linear_combination this
      · cases h

theorem map_eq_of_zip {α β : Type} (f : α → β) : ∀ (A : List α) (b : List β), A.length = b.length →
    (∀ r ∈ A.zip b, f r.1 = r.2) → A.map f = b
  | [], [], _, _ => rfl
  | [], _ :: _, h, _ => by simp at h
  | _ :: _, [], h, _ => by simp at h
  | a :: A, y :: b, h, hr => by
    simp only [List.map_cons, List.cons.injEq]
    exact ⟨hr (a, y) (by simp), map_eq_of_zip f A b (by simpa using h) fun r hr' => hr r (by simp [hr'])⟩

/-- `gaussSolve` on a square system with rows of the right length: if the elimination succeeds the result solves
the system -/
theorem gaussSolve_sound (A : List (List ℝ)) (b x : List ℝ) (hsq : A.length = b.length)
    (hrows : ∀ row ∈ A, row.length = b.length) (h : gaussSolveAux b.length (A.zip b) = some x) :
    gaussSolve A b = x ∧ x.length = b.length ∧ matVec A x = b := by
  obtain ⟨h1, h2⟩ := gaussSolveAux_sound b.length (A.zip b) x
    (fun r hr => hrows r.1 (List.of_mem_zip hr).1) (by simp [hsq]) h
  refine ⟨by simp [gaussSolve, h], h1, ?_⟩
  exact map_eq_of_zip (fun row => dot row x) A b hsq h2

/-! ## helpers for the statements of Props/C18 -/

/-- `b' = D b` for some orthogonal matrix `D` of the size of the block -/
def OrthoImage (b b' : List ℝ) : Prop :=
  ∃ (n : ℕ) (D : Matrix (Fin n) (Fin n) ℝ) (f : Fin n → ℝ),
    D ∈ Matrix.orthogonalGroup (Fin n) ℝ ∧ b = List.ofFn f ∧ b' = List.ofFn (D.mulVec f)

theorem dot_self_eq_sum_sq : ∀ b : List ℝ, dot b b = (b.map fun x => x ^ 2).sum
  | [] => by simp [dot]
  | x :: xs => by simp [dot, dot_self_eq_sum_sq xs]; ring

theorem OrthoImage.spec {b b' : List ℝ} (h : OrthoImage b b') : b'.length = b.length ∧ dot b' b' = dot b b := by
  obtain ⟨n, D, f, hD, rfl, rfl⟩ := h
  refine ⟨by simp, ?_⟩
  rw [dot_ofFn', dot_ofFn', ortho_dot ((Matrix.mem_orthogonalGroup_iff' (Fin n) ℝ).mp hD)]

/-- degree ≤ 1 harmonics up to scaling, used in the concrete instances -/
noncomputable def Y1 : Vec3 ℝ → Fin 4 → ℝ := fun v => ![1, v.x, v.y, v.z]
def irs1 : List MulIr := [(1, 0, 1), (1, 1, -1)]

theorem irs1_guards : irreps 1 1 (-1) = .ok irs1 ∧ firstParity irs1 = .ok 1 ∧ shGuard irs1 = .ok () ∧
    lmaxOf irs1 = .ok 1 ∧ dimOf irs1 = 4 := by decide

theorem norm_ex : normalize (⟨1, 0, 0⟩ : Vec3 ℝ) = ⟨1, 0, 0⟩ := normalize_unit _ (by simp [Vec3.normSq])
theorem norm_ey : normalize (⟨0, 1, 0⟩ : Vec3 ℝ) = ⟨0, 1, 0⟩ := normalize_unit _ (by simp [Vec3.normSq])

theorem isNonzero_one : isNonzero (1 : ℝ) = true := (isNonzero_real 1).mpr one_ne_zero
theorem isNonzero_zero : isNonzero (0 : ℝ) = false := by
  rw [← Bool.not_eq_true, isNonzero_real]; simp

theorem gram_example :
    keptC Y1 [(⟨1, 0, 0⟩, 1), (⟨0, 1, 0⟩, 5)] * (keptC Y1 [(⟨1, 0, 0⟩, 1), (⟨0, 1, 0⟩, 5)]).transpose = !![2, 1; 1, 2] := by
  ext i j
  fin_cases i <;> fin_cases j <;>
    simp [keptC, Matrix.mul_apply, Fin.sum_univ_succ, Y1, norm_ex, norm_ey] <;> norm_num

theorem keptPairs_idem {K : Type} [Scalar K] (vectors : List (Vec3 K)) (vals : List K) :
    keptPairs ((keptPairs vectors vals).map (·.1)) ((keptPairs vectors vals).map (·.2)) = keptPairs vectors vals := by
  have hz : ∀ l : List (Vec3 K × K), (l.map (·.1)).zip (l.map (·.2)) = l := by
    intro l; induction l with
    | nil => rfl
    | cons a l ih => simp [ih]
  unfold keptPairs
  rw [hz, List.filter_filter]
  simp

end E3nnVerif.SphericalTensor
