import E3nnVerif.Theory.S2GridFFT
import E3nnVerif.Theory.S2GridBuffers
/-
`FromS2Grid ∘ ToS2Grid` on the dense path, reduced to the discrete alpha orthogonality (proved), the
inverse-pair property of the constants (hypothesis `nT l * nF l = 4π`, proved for the three named
normalisations in `Props/C11.lean`) and ONE explicit hypothesis `KRExact` on the beta quadrature.
-/
namespace E3nnVerif.S2Grid
open E3nnVerif Finset

/-- Exactness of the Kostelec–Rockmore beta quadrature on products of Legendre factors of equal order `m`
up to the band limit `L`:
`Σ_b w_b N² P_l^m(β_b) P_{l'}^m(β_b) = δ_{ll'} / 4π`   (`w = _quadrature_weights(N // 2)`, flat index
`i = l² + k`, `m = k − l`). -/
def KRExact (P : ℕ → ℕ → ℝ) (N L : ℕ) : Prop :=
  ∀ l l' k k' : ℕ, l ≤ L → l' ≤ L → k ≤ 2 * l → k' ≤ 2 * l' → (k : ℤ) - l = (k' : ℤ) - l' →
    ∑ b ∈ range N, quadratureWeight (N / 2) b * ((N ^ 2 : ℕ) : ℝ) * (P b (l ^ 2 + k) * P b (l' ^ 2 + k'))
      = if l = l' then 1 / (4 * Real.pi) else 0

theorem alpha_collapse (lin lout M : ℕ) (hM : lin + lout < M) (y : ℕ → ℝ) (m' : ℕ) (hm' : m' ≤ 2 * lout) :
    fromAlphaDense lout M (fun a => toAlphaDense lin M y a) m'
      = ∑ m ∈ range (2 * lin + 1), (if (m' : ℤ) - lout = (m : ℤ) - lin then (M : ℝ) else 0) * y m := by
  simp only [fromAlphaDense, toAlphaDense, sumRange_real]
  simp_rw [Finset.mul_sum]
  rw [Finset.sum_comm]
  refine Finset.sum_congr rfl fun m hm => ?_
  have hm2 : m ≤ 2 * lin := by have := Finset.mem_range.mp hm; omega
  rw [← sum_sha_mul M lout lin m' m (by omega) hm' hm2, Finset.sum_mul]
  exact Finset.sum_congr rfl fun a _ => by ring

theorem toCoeff_flat (lin : ℕ) (nT : ℕ → ℝ) (P : ℕ → ℕ → ℝ) (F : ℕ → ℝ) (b m : ℕ) :
    toCoeff lin (shbTo lin nT P) F b m
      = ∑ l ∈ range (lin + 1), ∑ k ∈ range (2 * l + 1),
          if m = lin - l + k then nT l * P b (l ^ 2 + k) * F (l ^ 2 + k) else 0 := by
  simp only [toCoeff, sumRange_real]
  rw [sum_flat]
  refine Finset.sum_congr rfl fun l hl => Finset.sum_congr rfl fun k hk => ?_
  have hl' : l ≤ lin := by have := Finset.mem_range.mp hl; omega
  have hk' : k ≤ 2 * l := by have := Finset.mem_range.mp hk; omega
  rw [shbTo_flat lin nT P m b l k hl' hk']
  split_ifs <;> ring

theorem coeff_collapse (lin : ℕ) (c : ℝ) (k' l' : ℕ) (t : ℕ → ℕ → ℝ) :
    ∑ m ∈ range (2 * lin + 1), (if (k' : ℤ) - l' = (m : ℤ) - lin then c else 0)
        * (∑ l ∈ range (lin + 1), ∑ k ∈ range (2 * l + 1), if m = lin - l + k then t l k else 0)
      = ∑ l ∈ range (lin + 1), ∑ k ∈ range (2 * l + 1),
          if (k' : ℤ) - l' = (k : ℤ) - l then c * t l k else 0 := by
  simp_rw [Finset.mul_sum]
  rw [Finset.sum_comm]
  refine Finset.sum_congr rfl fun l hl => ?_
  rw [Finset.sum_comm]
  refine Finset.sum_congr rfl fun k hk => ?_
  have hl' : l ≤ lin := by have := Finset.mem_range.mp hl; omega
  have hk' : k ≤ 2 * l := by have := Finset.mem_range.mp hk; omega
  rw [Finset.sum_eq_single (lin - l + k)]
  · rw [if_pos rfl]
    by_cases h : (k' : ℤ) - l' = (k : ℤ) - l
    · have h2 : (k' : ℤ) - l' = ((lin - l + k : ℕ) : ℤ) - lin := by omega
      rw [if_pos h, if_pos h2]
    · have h2 : ¬ ((k' : ℤ) - l' = ((lin - l + k : ℕ) : ℤ) - lin) := by omega
      rw [if_neg h, if_neg h2, zero_mul]
  · intro m _ hne
    rw [if_neg hne, mul_zero]
  · intro hh; exact absurd (Finset.mem_range.mpr (by omega : lin - l + k < 2 * lin + 1)) hh

/-- the round trip on the dense path, coefficient `i' = l'² + k'` of the output -/
theorem roundtrip_dense (lin lout N M : ℕ) (nT nF : ℕ → ℝ) (P : ℕ → ℕ → ℝ) (F : ℕ → ℝ)
    (hM : lin + lout < M) (hn : ∀ l, l ≤ lin → l ≤ lout → nT l * nF l = 4 * Real.pi)
    (hKR : KRExact P N (max lin lout)) (l' k' : ℕ) (hl' : l' ≤ lout) (hk' : k' ≤ 2 * l') :
    fromForwardDenseWith lout N M (shbFrom lout N M nF P) (toForwardDenseWith lin M (shbTo lin nT P) F) (l' ^ 2 + k')
      = if l' ≤ lin then F (l' ^ 2 + k') else 0 := by
  have hM0 : (M : ℝ) ≠ 0 := by have : M ≠ 0 := by omega
                               exact_mod_cast this
  have hpi : (4 * Real.pi) ≠ 0 := by positivity
  simp only [fromForwardDenseWith, fromCoeff, sumRange_real]
  -- collapse the m' sum and the alpha sum
  have step1 : ∀ b ∈ range N,
      ∑ m' ∈ range (2 * lout + 1), shbFrom lout N M nF P m' b (l' ^ 2 + k')
          * fromAlphaDense lout M (fun a => toAlphaDense lin M (toCoeff lin (shbTo lin nT P) F b) a) m'
        = ∑ l ∈ range (lin + 1), ∑ k ∈ range (2 * l + 1),
            if (k' : ℤ) - l' = (k : ℤ) - l then
              nF l' * nT l * F (l ^ 2 + k)
                * (quadratureWeight (N / 2) b * ((N ^ 2 : ℕ) : ℝ) * (P b (l' ^ 2 + k') * P b (l ^ 2 + k)))
            else 0 := by
    intro b _
    rw [Finset.sum_eq_single (lout - l' + k')]
    · rw [shbFrom_eq, shbTo_flat lout nF P _ b l' k' hl' hk', if_pos rfl,
        alpha_collapse lin lout M hM _ _ (by omega)]
      simp_rw [toCoeff_flat]
      have e : ∀ m : ℕ, (((lout - l' + k' : ℕ) : ℤ) - lout = (m : ℤ) - lin) ↔ ((k' : ℤ) - l' = (m : ℤ) - lin) := by
        intro m; omega
      simp_rw [e]
      rw [coeff_collapse, Finset.mul_sum]
      refine Finset.sum_congr rfl fun l _ => ?_
      rw [Finset.mul_sum]
      refine Finset.sum_congr rfl fun k _ => ?_
      split_ifs
      · simp only [qwFrom, Scalar.ofNat_real]
        field_simp
      · rw [mul_zero]
    · intro m' hm' hne
      have hm2 : m' ≤ 2 * lout := by have := Finset.mem_range.mp hm'; omega
      rw [shbFrom_eq, shbTo_flat lout nF P _ b l' k' hl' hk', if_neg hne]; ring
    · intro hh; exact absurd (Finset.mem_range.mpr (by omega : lout - l' + k' < 2 * lout + 1)) hh
  refine (Finset.sum_congr rfl step1).trans ?_
  rw [Finset.sum_comm]
  -- the beta sum: KRExact
  have step2 : ∀ l ∈ range (lin + 1),
      ∑ b ∈ range N, ∑ k ∈ range (2 * l + 1),
          (if (k' : ℤ) - l' = (k : ℤ) - l then
            nF l' * nT l * F (l ^ 2 + k)
              * (quadratureWeight (N / 2) b * ((N ^ 2 : ℕ) : ℝ) * (P b (l' ^ 2 + k') * P b (l ^ 2 + k)))
          else 0)
        = if l = l' then F (l' ^ 2 + k') else 0 := by
    intro l hl
    have hl2 : l ≤ lin := by have := Finset.mem_range.mp hl; omega
    rw [Finset.sum_comm]
    have inner : ∀ k ∈ range (2 * l + 1),
        ∑ b ∈ range N, (if (k' : ℤ) - l' = (k : ℤ) - l then
            nF l' * nT l * F (l ^ 2 + k)
              * (quadratureWeight (N / 2) b * ((N ^ 2 : ℕ) : ℝ) * (P b (l' ^ 2 + k') * P b (l ^ 2 + k)))
          else 0)
        = if (k' : ℤ) - l' = (k : ℤ) - l then
            nF l' * nT l * F (l ^ 2 + k) * (if l' = l then 1 / (4 * Real.pi) else 0) else 0 := by
      intro k hk
      have hk2 : k ≤ 2 * l := by have := Finset.mem_range.mp hk; omega
      by_cases h : (k' : ℤ) - l' = (k : ℤ) - l
      · simp only [if_pos h]
        rw [← Finset.mul_sum, hKR l' l k' k (by omega) (by omega) hk' hk2 h]
      · simp only [if_neg h, Finset.sum_const_zero]
    rw [Finset.sum_congr rfl inner]
    by_cases h : l = l'
    · subst h
      rw [if_pos rfl, Finset.sum_eq_single k']
      · rw [if_pos rfl, if_pos rfl, mul_comm (nF l) (nT l), hn l hl2 hl']
        field_simp
      · intro k _ hne
        have : ¬ ((k' : ℤ) - l = (k : ℤ) - l) := by omega
        rw [if_neg this]
      · intro hh; exact absurd (Finset.mem_range.mpr (by omega : k' < 2 * l + 1)) hh
    · rw [if_neg h]
      refine Finset.sum_eq_zero fun k _ => ?_
      have h' : ¬ l' = l := fun hh => h hh.symm
      rw [if_neg h']; simp
  rw [Finset.sum_congr rfl step2]
  by_cases h : l' ≤ lin
  · rw [if_pos h, Finset.sum_ite_eq' (range (lin + 1)) l', if_pos (Finset.mem_range.mpr (by omega))]
  · rw [if_neg h]
    refine Finset.sum_eq_zero fun l hl => ?_
    have : l ≠ l' := by have := Finset.mem_range.mp hl; omega
    rw [if_neg this]

end E3nnVerif.S2Grid
