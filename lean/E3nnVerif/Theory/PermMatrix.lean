import E3nnVerif.Theory.PermSign
import Mathlib.LinearAlgebra.Matrix.Permutation
/-
perm.natural_representation: the list-of-rows 0/1 matrix is Mathlib's permutation matrix of `p⁻¹`
(`Matrix.permMatrixHom`), a homomorphism for `compose`, orthogonal; the executable list-of-rows
`matMul / transpose / idMatrix` are Mathlib's matrix product / transpose / 1.
-/
namespace E3nnVerif.PermModel

/-- a list of rows as a Mathlib matrix -/
def toMatrix (m n : ℕ) (M : List (List ℤ)) : Matrix (Fin m) (Fin n) ℤ :=
  Matrix.of fun i j => (M.getD i []).getD j 0

/-- `M` has `m` rows of length `n` -/
def HasShape (m n : ℕ) (M : List (List ℤ)) : Prop := M.length = m ∧ ∀ r ∈ M, r.length = n

theorem hasShape_natRepRaw (p : List ℕ) : HasShape p.length p.length (natRepRaw p) := by
  constructor
  · simp [natRepRaw]
  · intro r hr
    simp only [natRepRaw, List.mem_map, List.mem_range] at hr
    obtain ⟨a, _, rfl⟩ := hr
    simp

theorem natRepRaw_entry {p : List ℕ} {a b : ℕ} (ha : a < p.length) (hb : b < p.length) :
    ((natRepRaw p).getD a []).getD b 0 = if b = (inverseRaw p).getD a 0 then 1 else 0 := by
  simp [natRepRaw, List.getD_eq_getElem?_getD, ha, hb]

theorem natRepRaw_entry_mem (p : List ℕ) : ∀ r ∈ natRepRaw p, ∀ e ∈ r, e = 0 ∨ e = 1 := by
  intro r hr e he
  simp only [natRepRaw, List.mem_map, List.mem_range] at hr
  obtain ⟨a, _, rfl⟩ := hr
  simp only [List.mem_map, List.mem_range] at he
  obtain ⟨b, _, rfl⟩ := he
  split_ifs <;> simp

/-- `d[a, b] = 1 ⇔ p[b] = a` -/
theorem toMatrix_natRepRaw_apply {n : ℕ} {p : List ℕ} (hp : IsPerm p) (hn : p.length = n) (i j : Fin n) :
    toMatrix n n (natRepRaw p) i j = if toEquiv p hp hn j = i then 1 else 0 := by
  unfold toMatrix
  rw [Matrix.of_apply, natRepRaw_entry (by omega) (by omega)]
  have hiff : ((j : ℕ) = (inverseRaw p).getD i 0) ↔ toEquiv p hp hn j = i := by
    have hinv : ((toEquiv p hp hn)⁻¹ i : ℕ) = (inverseRaw p).getD i 0 := rfl
    rw [← hinv]
    constructor
    · intro h
      have : j = (toEquiv p hp hn)⁻¹ i := Fin.ext h
      rw [this]; simp
    · intro h
      rw [← h]; simp
  by_cases h : toEquiv p hp hn j = i
  · rw [if_pos h, if_pos (hiff.2 h)]
  · rw [if_neg h, if_neg (fun hh => h (hiff.1 hh))]

/-- the natural representation is Mathlib's permutation-matrix homomorphism `σ ↦ permMatrix σ⁻¹` -/
theorem toMatrix_natRepRaw {n : ℕ} {p : List ℕ} (hp : IsPerm p) (hn : p.length = n) :
    toMatrix n n (natRepRaw p) = Matrix.permMatrixHom (R := ℤ) (toEquiv p hp hn) := by
  ext i j
  rw [toMatrix_natRepRaw_apply hp hn]
  change _ = (toEquiv p hp hn)⁻¹.toPEquiv.toMatrix i j
  rw [PEquiv.toMatrix_apply]
  simp only [Equiv.toPEquiv_apply, Option.mem_def, Option.some.injEq]
  by_cases h : toEquiv p hp hn j = i
  · rw [if_pos h, if_pos]; rw [← h]; simp
  · rw [if_neg h, if_neg]; intro hh; apply h; rw [← hh]; simp

/-- homomorphism, in the convention of the code: `rep (compose p q) = rep p * rep q` -/
theorem toMatrix_natRepRaw_composeRaw {n : ℕ} {p q : List ℕ} (hp : IsPerm p) (hq : IsPerm q)
    (hn : p.length = n) (hm : q.length = n) :
    toMatrix n n (natRepRaw (composeRaw p q)) = toMatrix n n (natRepRaw p) * toMatrix n n (natRepRaw q) := by
  rw [toMatrix_natRepRaw (hp.composeRaw hq (by omega)) (by simp [hn]), toMatrix_natRepRaw hp hn,
    toMatrix_natRepRaw hq hm, toEquiv_composeRaw hp hq hn hm, map_mul]

theorem toMatrix_natRepRaw_identity (n : ℕ) : toMatrix n n (natRepRaw (identity n)) = 1 := by
  rw [toMatrix_natRepRaw (isPerm_identity n) (length_identity n), toEquiv_identity, map_one]

/-- orthogonality: `rep p * (rep p)ᵀ = 1` and `(rep p)ᵀ * rep p = 1` -/
theorem toMatrix_natRepRaw_mul_transpose {n : ℕ} {p : List ℕ} (hp : IsPerm p) (hn : p.length = n) :
    toMatrix n n (natRepRaw p) * (toMatrix n n (natRepRaw p)).transpose = 1 ∧
    (toMatrix n n (natRepRaw p)).transpose * toMatrix n n (natRepRaw p) = 1 := by
  rw [toMatrix_natRepRaw hp hn, Matrix.permMatrixHom_apply, Matrix.transpose_permMatrix, inv_inv,
    ← Matrix.permMatrix_mul, ← Matrix.permMatrix_mul]
  simp

/-- determinant of the natural representation = sign of the permutation -/
theorem det_toMatrix_natRepRaw {n : ℕ} {p : List ℕ} (hp : IsPerm p) (hn : p.length = n) :
    (toMatrix n n (natRepRaw p)).det = ((Equiv.Perm.sign (toEquiv p hp hn) : ℤˣ) : ℤ) := by
  rw [toMatrix_natRepRaw hp hn, Matrix.permMatrixHom_apply, Matrix.det_permutation, Equiv.Perm.sign_inv]
  simp

/-! ### the executable list-of-rows operations are the Mathlib ones -/

theorem foldl_add_eq (l : List ℤ) (a : ℤ) : l.foldl (· + ·) a = a + l.sum := by
  induction l generalizing a with
  | nil => simp
  | cons x l ih => rw [List.foldl_cons, ih, List.sum_cons]; ring

theorem dot_eq_sum {n : ℕ} {u v : List ℤ} (hu : u.length = n) (hv : v.length = n) :
    dot u v = ∑ k : Fin n, u.getD k 0 * v.getD k 0 := by
  unfold dot
  rw [foldl_add_eq, zero_add]
  have : List.zipWith (· * ·) u v = List.ofFn fun k : Fin n => u.getD k 0 * v.getD k 0 := by
    apply List.ext_getElem
    · simp [hu, hv]
    · intro k h1 h2
      have hk : k < n := by simpa using h2
      simp [List.getD_eq_getElem?_getD, hu, hv]
  rw [this, List.sum_ofFn]

theorem getD_column {B : List (List ℤ)} {j k : ℕ} (hk : k < B.length) :
    (column B j).getD k 0 = (B.getD k []).getD j 0 := by
  simp [column, List.getD_eq_getElem?_getD, hk]

theorem toMatrix_matMul {m n l : ℕ} {A B : List (List ℤ)} (hA : HasShape m n A) (hB : HasShape n l B) :
    toMatrix m l (matMul A B l) = toMatrix m n A * toMatrix n l B := by
  ext i j
  rw [Matrix.mul_apply]
  unfold toMatrix
  simp only [Matrix.of_apply]
  have hi : (i : ℕ) < A.length := by rw [hA.1]; exact i.2
  have hrow : (A.getD i []).length = n := by
    rw [List.getD_eq_getElem?_getD, List.getElem?_eq_getElem hi, Option.getD_some]
    exact hA.2 _ (List.getElem_mem hi)
  have hcol : (column B j).length = n := by simp [column, hB.1]
  have e1 : ((matMul A B l).getD i []).getD j 0 = dot (A.getD i []) (column B j) := by
    simp [matMul, List.getD_eq_getElem?_getD, hi]
  rw [e1, dot_eq_sum hrow hcol]
  apply Finset.sum_congr rfl
  intro k _
  rw [getD_column (by rw [hB.1]; exact k.2)]

theorem toMatrix_transpose {m n : ℕ} {A : List (List ℤ)} (hA : HasShape m n A) :
    toMatrix n m (transpose A n) = (toMatrix m n A).transpose := by
  ext i j
  unfold toMatrix
  simp only [Matrix.of_apply, Matrix.transpose_apply]
  have : (transpose A n).getD i [] = column A i := by
    simp [transpose, List.getD_eq_getElem?_getD]
  rw [this, getD_column (by rw [hA.1]; exact j.2)]

theorem toMatrix_idMatrix (n : ℕ) : toMatrix n n (idMatrix n) = 1 := by
  ext i j
  unfold toMatrix
  simp only [Matrix.of_apply, Matrix.one_apply]
  have : ((idMatrix n).getD i []).getD j 0 = if (i : ℕ) = j then 1 else 0 := by
    simp [idMatrix, List.getD_eq_getElem?_getD]
  rw [this]
  by_cases h : i = j
  · simp [h]
  · rw [if_neg h, if_neg (fun hh => h (Fin.ext hh))]

theorem getD_getD_eq {A : List (List ℤ)} {i j : ℕ} (h1 : i < A.length) (h3 : j < A[i].length) :
    (A.getD i []).getD j 0 = A[i][j] := by
  simp [List.getD_eq_getElem?_getD, h1, h3]

theorem toMatrix_injective {m n : ℕ} {A B : List (List ℤ)} (hA : HasShape m n A) (hB : HasShape m n B)
    (h : toMatrix m n A = toMatrix m n B) : A = B := by
  apply List.ext_getElem (by rw [hA.1, hB.1])
  intro i h1 h2
  have hr1 : A[i].length = n := hA.2 _ (List.getElem_mem h1)
  have hr2 : B[i].length = n := hB.2 _ (List.getElem_mem h2)
  apply List.ext_getElem (by rw [hr1, hr2])
  intro j h3 h4
  have := congrFun (congrFun h ⟨i, by rw [← hA.1]; exact h1⟩) ⟨j, by rw [← hr1]; exact h3⟩
  simp only [toMatrix, Matrix.of_apply] at this
  rw [getD_getD_eq h1 h3, getD_getD_eq h2 h4] at this
  exact this

theorem hasShape_matMul {m n l : ℕ} {A B : List (List ℤ)} (hA : HasShape m n A) :
    HasShape m l (matMul A B l) := by
  refine ⟨by simp [matMul, hA.1], ?_⟩
  intro r hr
  simp only [matMul, List.mem_map] at hr
  obtain ⟨_, _, rfl⟩ := hr
  simp

theorem hasShape_transpose {m n : ℕ} {A : List (List ℤ)} (hA : HasShape m n A) :
    HasShape n m (transpose A n) := by
  refine ⟨by simp [transpose], ?_⟩
  intro r hr
  simp only [transpose, List.mem_map] at hr
  obtain ⟨_, _, rfl⟩ := hr
  simp [column, hA.1]

theorem hasShape_idMatrix (n : ℕ) : HasShape n n (idMatrix n) := by
  refine ⟨by simp [idMatrix], ?_⟩
  intro r hr
  simp only [idMatrix, List.mem_map] at hr
  obtain ⟨_, _, rfl⟩ := hr
  simp

/-- the executable law checked by the driver: list-level homomorphism -/
theorem matMul_natRepRaw {p q : List ℕ} (hp : IsPerm p) (hq : IsPerm q) (h : p.length = q.length) :
    matMul (natRepRaw p) (natRepRaw q) p.length = natRepRaw (composeRaw p q) := by
  have s1 := hasShape_natRepRaw p
  have s2 : HasShape p.length p.length (natRepRaw q) := by rw [h]; exact hasShape_natRepRaw q
  have s3 : HasShape p.length p.length (natRepRaw (composeRaw p q)) := by
    have := hasShape_natRepRaw (composeRaw p q); rwa [length_composeRaw] at this
  apply toMatrix_injective (hasShape_matMul s1) s3
  rw [toMatrix_matMul s1 s2, toMatrix_natRepRaw_composeRaw hp hq rfl h.symm]

/-- the executable law checked by the driver: list-level orthogonality -/
theorem matMul_natRepRaw_transpose {p : List ℕ} (hp : IsPerm p) :
    matMul (natRepRaw p) (transpose (natRepRaw p) p.length) p.length = idMatrix p.length := by
  have s1 := hasShape_natRepRaw p
  apply toMatrix_injective (hasShape_matMul s1) (hasShape_idMatrix _)
  rw [toMatrix_matMul s1 (hasShape_transpose s1), toMatrix_transpose s1, toMatrix_idMatrix]
  exact (toMatrix_natRepRaw_mul_transpose hp rfl).1

end E3nnVerif.PermModel
