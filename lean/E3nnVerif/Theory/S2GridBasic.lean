import Mathlib.Algebra.BigOperators.Intervals
import Mathlib.Algebra.Order.BigOperators.Group.Finset
import E3nnVerif.Theory.ScalarReal
import E3nnVerif.Model.S2Grid
/-
Bridges between the scalar-generic model `Model/S2Grid.lean` at `K = ℝ` and Mathlib:
`sumRange = Finset.sum (range n)`, constants.
-/
namespace E3nnVerif.S2Grid
open E3nnVerif Finset

@[simp] theorem zero_real : (Scalar.zero : ℝ) = 0 := by simp [Scalar.zero]
@[simp] theorem one_real : (Scalar.one : ℝ) = 1 := by simp [Scalar.one]
@[simp] theorem two_real : (Scalar.two : ℝ) = 2 := by simp [Scalar.two]
@[simp] theorem ofFrac_half_real : (Scalar.ofFrac 1 2 : ℝ) = 1 / 2 := by
  simp [Scalar.ofFrac, Scalar.ofInt]

theorem sumRange_real (n : ℕ) (f : ℕ → ℝ) : sumRange n f = ∑ i ∈ range n, f i := by
  induction n with
  | zero => simp [sumRange]
  | succ n ih => rw [sumRange, ih, Finset.sum_range_succ]

theorem alphas_real (M j : ℕ) : (alphas M j : ℝ) = 2 * Real.pi * j / M := by
  simp only [alphas, Scalar.ofNat_real, two_real, Scalar.pi_real]; ring

theorem betas_real (N i : ℕ) : (betas N i : ℝ) = Real.pi * (i + 1 / 2) / N := by
  simp only [betas, Scalar.ofNat_real, ofFrac_half_real, Scalar.pi_real]; ring

theorem dftAngle_real (n k a : ℕ) : (dftAngle n k a : ℝ) = (k : ℝ) * alphas n a := by
  simp only [dftAngle, alphas_real, Scalar.ofNat_real, two_real, Scalar.pi_real]; push_cast; ring

end E3nnVerif.S2Grid
