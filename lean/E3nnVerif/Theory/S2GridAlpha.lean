import Mathlib.RingTheory.RootsOfUnity.Complex
import Mathlib.Algebra.Ring.GeomSum
import Mathlib.Algebra.BigOperators.Field
import E3nnVerif.Theory.S2GridBasic
/-
Discrete orthogonality of the alpha basis `1, √2 cos(mα), √2 sin(mα)` on the equally spaced grid
`α_j = 2πj/M` — geometric sums of roots of unity over ℂ.
-/
namespace E3nnVerif.S2Grid
open E3nnVerif Finset

/-- `Σ_{j<M} e^{i k α_j} = M` if `M ∣ k`, else `0` -/
theorem sum_exp_alpha (M : ℕ) (hM : M ≠ 0) (k : ℕ) :
    ∑ j ∈ range M, Complex.exp ((((k : ℝ) * alphas M j : ℝ) : ℂ) * Complex.I) = if M ∣ k then (M : ℂ) else 0 := by
  have hprim := Complex.isPrimitiveRoot_exp M hM
  have hMc : (M : ℂ) ≠ 0 := by exact_mod_cast hM
  have hterm : ∀ j : ℕ, Complex.exp ((((k : ℝ) * alphas M j : ℝ) : ℂ) * Complex.I)
      = (Complex.exp (2 * Real.pi * Complex.I / M) ^ k) ^ j := by
    intro j
    rw [← Complex.exp_nat_mul, ← Complex.exp_nat_mul, alphas_real]
    congr 1; push_cast; field_simp
  simp_rw [hterm]
  split_ifs with hd
  · have : Complex.exp (2 * Real.pi * Complex.I / M) ^ k = 1 := (hprim.pow_eq_one_iff_dvd k).mpr hd
    simp [this]
  · have hne : Complex.exp (2 * Real.pi * Complex.I / M) ^ k ≠ 1 :=
      fun h => hd ((hprim.pow_eq_one_iff_dvd k).mp h)
    have h1 := geom_sum_mul (Complex.exp (2 * Real.pi * Complex.I / M) ^ k) M
    have : (Complex.exp (2 * Real.pi * Complex.I / M) ^ k) ^ M = 1 := by
      rw [← pow_mul, mul_comm k M, pow_mul, hprim.pow_eq_one, one_pow]
    rw [this, sub_self] at h1
    exact (mul_eq_zero.mp h1).resolve_right (sub_ne_zero.mpr hne)

theorem sum_cos_alpha (M : ℕ) (hM : M ≠ 0) (k : ℕ) :
    ∑ j ∈ range M, Real.cos ((k : ℝ) * alphas M j) = if M ∣ k then (M : ℝ) else 0 := by
  have h := congrArg Complex.re (sum_exp_alpha M hM k)
  rw [Complex.re_sum] at h
  simp only [Complex.exp_ofReal_mul_I_re] at h
  rw [h]; split_ifs <;> simp

theorem sum_sin_alpha (M : ℕ) (hM : M ≠ 0) (k : ℕ) :
    ∑ j ∈ range M, Real.sin ((k : ℝ) * alphas M j) = 0 := by
  have h := congrArg Complex.im (sum_exp_alpha M hM k)
  rw [Complex.im_sum] at h
  simp only [Complex.exp_ofReal_mul_I_im] at h
  rw [h]; split_ifs <;> simp

private theorem dvd_small {M k : ℕ} (hk : k < M) : M ∣ k ↔ k = 0 :=
  ⟨fun h => Nat.eq_zero_of_dvd_of_lt h hk, fun h => h ▸ dvd_zero M⟩

/-- auxiliary: ordered case `m' ≤ m` -/
private theorem sums_ordered (M : ℕ) (hM : M ≠ 0) (m m' : ℕ) (hle : m' ≤ m) (hlt : m + m' < M) :
    (∑ j ∈ range M, Real.cos ((m : ℝ) * alphas M j) * Real.cos ((m' : ℝ) * alphas M j)
        = if m = m' then (if m = 0 then (M : ℝ) else M / 2) else 0) ∧
    (∑ j ∈ range M, Real.sin ((m : ℝ) * alphas M j) * Real.sin ((m' : ℝ) * alphas M j)
        = if m = m' ∧ m ≠ 0 then (M : ℝ) / 2 else 0) ∧
    (∑ j ∈ range M, Real.sin ((m : ℝ) * alphas M j) * Real.cos ((m' : ℝ) * alphas M j) = 0) ∧
    (∑ j ∈ range M, Real.cos ((m : ℝ) * alphas M j) * Real.sin ((m' : ℝ) * alphas M j) = 0) := by
  have hp := sum_cos_alpha M hM (m + m')
  have hq := sum_cos_alpha M hM (m - m')
  have hsp := sum_sin_alpha M hM (m + m')
  have hsq := sum_sin_alpha M hM (m - m')
  simp only [dvd_small hlt] at hp
  simp only [dvd_small (by omega : m - m' < M)] at hq
  have hcast : ∀ x : ℝ, ((m - m' : ℕ) : ℝ) * x = (m : ℝ) * x - (m' : ℝ) * x := by
    intro x; rw [Nat.cast_sub hle]; ring
  have hcast2 : ∀ x : ℝ, ((m + m' : ℕ) : ℝ) * x = (m : ℝ) * x + (m' : ℝ) * x := by
    intro x; push_cast; ring
  simp only [hcast, hcast2] at hp hq hsp hsq
  refine ⟨?_, ?_, ?_, ?_⟩
  · have : ∀ j, Real.cos ((m : ℝ) * alphas M j) * Real.cos ((m' : ℝ) * alphas M j)
        = (Real.cos ((m : ℝ) * alphas M j - (m' : ℝ) * alphas M j)
            + Real.cos ((m : ℝ) * alphas M j + (m' : ℝ) * alphas M j)) / 2 := by
      intro j; rw [Real.cos_sub, Real.cos_add]; ring
    simp_rw [this]
    rw [← Finset.sum_div, Finset.sum_add_distrib, hp, hq]
    by_cases h1 : m = m'
    · subst h1
      by_cases h0 : m = 0
      · subst h0; simp
      · have h2 : m + m ≠ 0 := by omega
        simp [h0]
    · have h2 : m - m' ≠ 0 := by omega
      have h3 : m + m' ≠ 0 := by omega
      rw [if_neg h2, if_neg h3, if_neg h1]
      simp
  · have : ∀ j, Real.sin ((m : ℝ) * alphas M j) * Real.sin ((m' : ℝ) * alphas M j)
        = (Real.cos ((m : ℝ) * alphas M j - (m' : ℝ) * alphas M j)
            - Real.cos ((m : ℝ) * alphas M j + (m' : ℝ) * alphas M j)) / 2 := by
      intro j; rw [Real.cos_sub, Real.cos_add]; ring
    simp_rw [this]
    rw [← Finset.sum_div, Finset.sum_sub_distrib, hp, hq]
    by_cases h1 : m = m'
    · subst h1
      by_cases h0 : m = 0
      · subst h0; simp
      · have h2 : m + m ≠ 0 := by omega
        simp [h0]
    · have h2 : m - m' ≠ 0 := by omega
      have h3 : m + m' ≠ 0 := by omega
      have h4 : ¬ (m = m' ∧ m ≠ 0) := fun h => h1 h.1
      rw [if_neg h2, if_neg h3, if_neg h4]
      simp
  · have : ∀ j, Real.sin ((m : ℝ) * alphas M j) * Real.cos ((m' : ℝ) * alphas M j)
        = (Real.sin ((m : ℝ) * alphas M j + (m' : ℝ) * alphas M j)
            + Real.sin ((m : ℝ) * alphas M j - (m' : ℝ) * alphas M j)) / 2 := by
      intro j; rw [Real.sin_sub, Real.sin_add]; ring
    simp_rw [this]
    rw [← Finset.sum_div, Finset.sum_add_distrib, hsp, hsq]; simp
  · have : ∀ j, Real.cos ((m : ℝ) * alphas M j) * Real.sin ((m' : ℝ) * alphas M j)
        = (Real.sin ((m : ℝ) * alphas M j + (m' : ℝ) * alphas M j)
            - Real.sin ((m : ℝ) * alphas M j - (m' : ℝ) * alphas M j)) / 2 := by
      intro j; rw [Real.sin_sub, Real.sin_add]; ring
    simp_rw [this]
    rw [← Finset.sum_div, Finset.sum_sub_distrib, hsp, hsq]; simp

/-- `Σ_j cos(mα_j) cos(m'α_j) = M` (m = m' = 0), `M/2` (m = m' ≠ 0), `0` otherwise, as soon as `m + m' < M` -/
theorem sum_cos_cos (M : ℕ) (m m' : ℕ) (hlt : m + m' < M) :
    ∑ j ∈ range M, Real.cos ((m : ℝ) * alphas M j) * Real.cos ((m' : ℝ) * alphas M j)
      = if m = m' then (if m = 0 then (M : ℝ) else M / 2) else 0 := by
  have hM : M ≠ 0 := by omega
  rcases Nat.le_total m' m with h | h
  · exact (sums_ordered M hM m m' h hlt).1
  · have := (sums_ordered M hM m' m h (by omega)).1
    simp_rw [mul_comm (Real.cos ((m : ℝ) * _))]
    rw [this]
    by_cases h1 : m = m'
    · subst h1; rfl
    · have : m' ≠ m := fun h => h1 h.symm
      simp [*]

theorem sum_sin_sin (M : ℕ) (m m' : ℕ) (hlt : m + m' < M) :
    ∑ j ∈ range M, Real.sin ((m : ℝ) * alphas M j) * Real.sin ((m' : ℝ) * alphas M j)
      = if m = m' ∧ m ≠ 0 then (M : ℝ) / 2 else 0 := by
  have hM : M ≠ 0 := by omega
  rcases Nat.le_total m' m with h | h
  · exact (sums_ordered M hM m m' h hlt).2.1
  · have := (sums_ordered M hM m' m h (by omega)).2.1
    simp_rw [mul_comm (Real.sin ((m : ℝ) * _))]
    rw [this]
    by_cases h1 : m = m'
    · subst h1; rfl
    · have : m' ≠ m := fun h => h1 h.symm
      simp [*]

theorem sum_sin_cos (M : ℕ) (m m' : ℕ) (hlt : m + m' < M) :
    ∑ j ∈ range M, Real.sin ((m : ℝ) * alphas M j) * Real.cos ((m' : ℝ) * alphas M j) = 0 := by
  have hM : M ≠ 0 := by omega
  rcases Nat.le_total m' m with h | h
  · exact (sums_ordered M hM m m' h hlt).2.2.1
  · have := (sums_ordered M hM m' m h (by omega)).2.2.2
    simp_rw [mul_comm (Real.sin ((m : ℝ) * _))]
    exact this

/-- the ℝ reading of `spherical_harmonics_alpha`: `sin` block, then `c·cos` with `c = 1` at the centre -/
theorem shaEntry_real (l : ℕ) (α : ℝ) (k : ℕ) :
    shaEntry l α k = if k < l then Real.sqrt 2 * Real.sin (((l - k : ℕ) : ℝ) * α)
      else (if k = l then 1 else Real.sqrt 2) * Real.cos (((k - l : ℕ) : ℝ) * α) := by
  simp only [shaEntry, two_real, one_real, Scalar.sqrt_real, Scalar.sin_real, Scalar.cos_real, Scalar.ofNat_real]
  split_ifs with h1 h2
  · rfl
  · subst h2; simp
  · rfl

/-- Gram matrix of the alpha basis on the grid: `Σ_a S^l_k(α_a) S^{l'}_{k'}(α_a) = M δ_{k-l, k'-l'}`
whenever `l + l' < M` -/
theorem sum_sha_mul (M l l' k k' : ℕ) (hM : l + l' < M) (hk : k ≤ 2 * l) (hk' : k' ≤ 2 * l') :
    ∑ a ∈ range M, sha l M a k * sha l' M a k' = if (k : ℤ) - l = (k' : ℤ) - l' then (M : ℝ) else 0 := by
  have hs2 : Real.sqrt 2 * Real.sqrt 2 = 2 := Real.mul_self_sqrt (by norm_num)
  simp only [sha, shaEntry_real]
  by_cases h1 : k < l <;> by_cases h2 : k' < l' <;> simp only [h1, h2, if_true, if_false]
  · have := sum_sin_sin M (l - k) (l' - k') (by omega)
    have e : ∀ a, Real.sqrt 2 * Real.sin (((l - k : ℕ) : ℝ) * alphas M a) * (Real.sqrt 2 * Real.sin (((l' - k' : ℕ) : ℝ) * alphas M a))
        = (Real.sqrt 2 * Real.sqrt 2) * (Real.sin (((l - k : ℕ) : ℝ) * alphas M a) * Real.sin (((l' - k' : ℕ) : ℝ) * alphas M a)) := by
      intro a; ring
    simp_rw [e]; rw [← Finset.mul_sum, this, hs2]
    by_cases h3 : (k : ℤ) - l = (k' : ℤ) - l'
    · have h4 : l - k = l' - k' ∧ l - k ≠ 0 := by omega
      rw [if_pos h3, if_pos h4]; ring
    · have h4 : ¬ (l - k = l' - k' ∧ l - k ≠ 0) := by omega
      rw [if_neg h3, if_neg h4]; ring
  · have := sum_sin_cos M (l - k) (k' - l') (by omega)
    have e : ∀ a, Real.sqrt 2 * Real.sin (((l - k : ℕ) : ℝ) * alphas M a) * ((if k' = l' then 1 else Real.sqrt 2) * Real.cos (((k' - l' : ℕ) : ℝ) * alphas M a))
        = (Real.sqrt 2 * (if k' = l' then 1 else Real.sqrt 2)) * (Real.sin (((l - k : ℕ) : ℝ) * alphas M a) * Real.cos (((k' - l' : ℕ) : ℝ) * alphas M a)) := by
      intro a; ring
    simp_rw [e]; rw [← Finset.mul_sum, this]
    have h3 : ¬ ((k : ℤ) - l = (k' : ℤ) - l') := by omega
    rw [if_neg h3, mul_zero]
  · have := sum_sin_cos M (l' - k') (k - l) (by omega)
    have e : ∀ a, (if k = l then 1 else Real.sqrt 2) * Real.cos (((k - l : ℕ) : ℝ) * alphas M a) * (Real.sqrt 2 * Real.sin (((l' - k' : ℕ) : ℝ) * alphas M a))
        = ((if k = l then 1 else Real.sqrt 2) * Real.sqrt 2) * (Real.sin (((l' - k' : ℕ) : ℝ) * alphas M a) * Real.cos (((k - l : ℕ) : ℝ) * alphas M a)) := by
      intro a; ring
    simp_rw [e]; rw [← Finset.mul_sum, this]
    have h3 : ¬ ((k : ℤ) - l = (k' : ℤ) - l') := by omega
    rw [if_neg h3, mul_zero]
  · have := sum_cos_cos M (k - l) (k' - l') (by omega)
    have e : ∀ a, (if k = l then 1 else Real.sqrt 2) * Real.cos (((k - l : ℕ) : ℝ) * alphas M a) * ((if k' = l' then 1 else Real.sqrt 2) * Real.cos (((k' - l' : ℕ) : ℝ) * alphas M a))
        = ((if k = l then 1 else Real.sqrt 2) * (if k' = l' then 1 else Real.sqrt 2)) * (Real.cos (((k - l : ℕ) : ℝ) * alphas M a) * Real.cos (((k' - l' : ℕ) : ℝ) * alphas M a)) := by
      intro a; ring
    simp_rw [e]; rw [← Finset.mul_sum, this]
    by_cases h3 : (k : ℤ) - l = (k' : ℤ) - l'
    · have h4 : k - l = k' - l' := by omega
      by_cases h5 : k = l
      · have h6 : k' = l' := by omega
        have h7 : k - l = 0 := by omega
        rw [if_pos h3, if_pos h4, if_pos h5, if_pos h6, if_pos h7]; ring
      · have h6 : k' ≠ l' := by omega
        have h7 : k - l ≠ 0 := by omega
        rw [if_pos h3, if_pos h4, if_neg h5, if_neg h6, if_neg h7, hs2]; ring
    · have h4 : k - l ≠ k' - l' := by omega
      rw [if_neg h3, if_neg h4, mul_zero]

end E3nnVerif.S2Grid
