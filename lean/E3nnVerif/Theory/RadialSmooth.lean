import Mathlib.Algebra.Order.Floor.Ring
import Mathlib.Algebra.Order.BigOperators.Group.Finset
import E3nnVerif.Theory.Radial
/-
Bounds for the `smooth_finite` family of `soft_one_hot_linspace`: on its support the squared bump is `c²·exp(4 − 4/(1 − d²))`
(`c = 1.14136`), at most two bumps overlap, so `Σ_i bump(t − i)² < 2` for every `t` and every number of functions, and between the
first and the last centre the sum exceeds 0.4 (certified enclosures `exp x ≤ (1/(1 − x/k))^k`).
-/
namespace E3nnVerif.Radial
open Finset

/-- the square of the `smooth_finite` bump on its support: `c² · exp(4 − 4/(1 − d²))`, `c = 1.14136` -/
theorem smoothFiniteOf_sq_inside {d : ℝ} (h1 : -1 < d) (h2 : d < 1) :
    smoothFiniteOf d ^ 2 = (114136 / 100000) ^ 2 * Real.exp (4 - 4 / (1 - d ^ 2)) := by
  have ha : (0 : ℝ) < d + 1 := by linarith
  have hb : (0 : ℝ) < 1 - d := by linarith
  have hq : (1 : ℝ) - d ^ 2 ≠ 0 := by
    have : (1 : ℝ) - d ^ 2 = (1 - d) * (d + 1) := by ring
    rw [this]; positivity
  rw [smoothFiniteOf_real]
  unfold expNegInvGlue
  rw [if_neg (by linarith), if_neg (by linarith)]
  rw [mul_pow, mul_pow, mul_pow, ← Real.exp_nat_mul, ← Real.exp_nat_mul, ← Real.exp_nat_mul, mul_assoc, mul_assoc,
    ← Real.exp_add, ← Real.exp_add]
  congr 2
  push_cast
  field_simp
  ring

theorem smoothFiniteOf_sq_nonneg (d : ℝ) : 0 ≤ smoothFiniteOf d ^ 2 := sq_nonneg _

/-- lower bound on the support: `q = d² ≤ q₀ < 1` -/
theorem smoothFiniteOf_sq_ge {d q0 : ℝ} (hq : d ^ 2 ≤ q0) (hq0 : q0 < 1) :
    (114136 / 100000) ^ 2 * Real.exp (4 - 4 / (1 - q0)) ≤ smoothFiniteOf d ^ 2 := by
  have hd : d ^ 2 < 1 := lt_of_le_of_lt hq hq0
  have habs : |d| < 1 := by
    rw [← sq_lt_one_iff_abs_lt_one]; exact hd
  obtain ⟨h1, h2⟩ := abs_lt.mp habs
  rw [smoothFiniteOf_sq_inside h1 h2]
  apply mul_le_mul_of_nonneg_left _ (by positivity)
  apply Real.exp_le_exp.mpr
  have p1 : 0 < 1 - q0 := by linarith
  have p2 : 0 < 1 - d ^ 2 := by linarith
  have : 4 / (1 - d ^ 2) ≤ 4 / (1 - q0) := div_le_div_of_nonneg_left (by norm_num) p1 (by linarith)
  linarith

/-- upper bounds: always `≤ c²`; `≤ c²·e^{−4/3}` at distance `≥ ½` from the centre -/
theorem smoothFiniteOf_sq_le (d : ℝ) : smoothFiniteOf d ^ 2 ≤ (114136 / 100000) ^ 2 := by
  by_cases h : -1 < d ∧ d < 1
  · rw [smoothFiniteOf_sq_inside h.1 h.2]
    have p2 : 0 < 1 - d ^ 2 := by nlinarith [h.1, h.2]
    have : 4 - 4 / (1 - d ^ 2) ≤ 0 := by
      rw [sub_nonpos, le_div_iff₀ p2]; nlinarith [sq_nonneg d]
    have := Real.exp_le_one_iff.mpr this
    nlinarith
  · have : d ≤ -1 ∨ 1 ≤ d := by
      by_contra hc
      rw [not_or, not_le, not_le] at hc
      exact h ⟨hc.1, hc.2⟩
    rw [smoothFiniteOf_eq_zero this]; norm_num

theorem smoothFiniteOf_sq_le_far {d : ℝ} (hd : 1 / 2 ≤ |d|) :
    smoothFiniteOf d ^ 2 ≤ (114136 / 100000) ^ 2 * (3 / 7) := by
  by_cases h : -1 < d ∧ d < 1
  · rw [smoothFiniteOf_sq_inside h.1 h.2]
    apply mul_le_mul_of_nonneg_left _ (by positivity)
    have hsq : (1 / 4 : ℝ) ≤ d ^ 2 := by
      have := pow_le_pow_left₀ (by norm_num : (0:ℝ) ≤ 1 / 2) hd 2
      rw [sq_abs] at this; linarith
    have p2 : 0 < 1 - d ^ 2 := by nlinarith [h.1, h.2]
    have hexp : 4 - 4 / (1 - d ^ 2) ≤ -(4 / 3) := by
      have : 16 / 3 ≤ 4 / (1 - d ^ 2) := by rw [le_div_iff₀ p2]; linarith
      linarith
    calc Real.exp (4 - 4 / (1 - d ^ 2)) ≤ Real.exp (-(4 / 3)) := Real.exp_le_exp.mpr hexp
      _ ≤ 3 / 7 := by
        rw [Real.exp_neg, inv_le_comm₀ (Real.exp_pos _) (by norm_num)]
        have := Real.add_one_le_exp (4 / 3 : ℝ)
        norm_num at this ⊢; linarith
  · have : d ≤ -1 ∨ 1 ≤ d := by
      by_contra hc
      rw [not_or, not_le, not_le] at hc
      exact h ⟨hc.1, hc.2⟩
    rw [smoothFiniteOf_eq_zero this]; norm_num

/-- a sum supported on one index is at most the value there -/
theorem sum_le_of_support_one (s : Finset ℕ) (f : ℕ → ℝ) (j : ℕ) (A : ℝ) (hA : 0 ≤ A)
    (h : ∀ i ∈ s, f i ≤ if i = j then A else 0) : ∑ i ∈ s, f i ≤ A := by
  calc ∑ i ∈ s, f i ≤ ∑ i ∈ s, (if i = j then A else 0) := Finset.sum_le_sum h
    _ ≤ A := by
      rw [Finset.sum_ite_eq']
      split_ifs <;> linarith

theorem smoothFinite_pair_le (u : ℝ) :
    smoothFiniteOf u ^ 2 + smoothFiniteOf (u - 1) ^ 2 ≤ (114136 / 100000) ^ 2 + (114136 / 100000) ^ 2 * (3 / 7) := by
  by_cases hd : u ≤ 1 / 2
  · have h1 := smoothFiniteOf_sq_le u
    have h2 : smoothFiniteOf (u - 1) ^ 2 ≤ (114136 / 100000) ^ 2 * (3 / 7) := by
      apply smoothFiniteOf_sq_le_far
      rw [abs_of_nonpos (by linarith)]; linarith
    linarith
  · rw [not_le] at hd
    have h1 : smoothFiniteOf u ^ 2 ≤ (114136 / 100000) ^ 2 * (3 / 7) := by
      apply smoothFiniteOf_sq_le_far
      rw [abs_of_nonneg (by linarith)]; linarith
    have h2 := smoothFiniteOf_sq_le (u - 1)
    linarith

/-- **upper bound for `smooth_finite`**: `Σ_i bump(t − i)² < 2` for every real `t` and every number of terms (at most two bumps
overlap, one of them at distance ≥ ½ from its centre) -/
theorem sum_smoothFiniteOf_sq_lt_two (n : ℕ) (t : ℝ) : ∑ i ∈ range n, smoothFiniteOf (t - (i : ℝ)) ^ 2 < 2 := by
  obtain ⟨m, hm0, hm1⟩ : ∃ m : ℤ, (m : ℝ) ≤ t ∧ t < (m : ℝ) + 1 := ⟨⌊t⌋, Int.floor_le t, Int.lt_floor_add_one t⟩
  have hAB := smoothFinite_pair_le (t - m)
  have hsum : ∑ i ∈ range n, smoothFiniteOf (t - (i : ℝ)) ^ 2
      ≤ smoothFiniteOf (t - m) ^ 2 + smoothFiniteOf (t - m - 1) ^ 2 := by
    have hsplit : ∑ i ∈ range n, smoothFiniteOf (t - (i : ℝ)) ^ 2
        = ∑ i ∈ (range n).filter (fun i : ℕ => (i : ℤ) ≤ m), smoothFiniteOf (t - (i : ℝ)) ^ 2
          + ∑ i ∈ (range n).filter (fun i : ℕ => ¬ (i : ℤ) ≤ m), smoothFiniteOf (t - (i : ℝ)) ^ 2 :=
      (Finset.sum_filter_add_sum_filter_not (range n) _ _).symm
    rw [hsplit]
    apply add_le_add
    · apply sum_le_of_support_one _ _ m.toNat _ (sq_nonneg _)
      intro i hi
      have hle : (i : ℤ) ≤ m := (Finset.mem_filter.mp hi).2
      by_cases hi' : i = m.toNat
      · rw [if_pos hi']
        have hz : (i : ℤ) = m := by rw [hi']; exact Int.toNat_of_nonneg (by omega)
        have e : (i : ℝ) = (m : ℝ) := by exact_mod_cast hz
        rw [e]
      · rw [if_neg hi']
        have hlt : (i : ℤ) + 1 ≤ m := by
          rcases lt_or_eq_of_le hle with h | h
          · omega
          · exfalso; apply hi'; rw [← h]; simp
        have : (i : ℝ) + 1 ≤ m := by exact_mod_cast hlt
        rw [smoothFiniteOf_eq_zero (Or.inr (by linarith))]; norm_num
    · apply sum_le_of_support_one _ _ (m + 1).toNat _ (sq_nonneg _)
      intro i hi
      have hgt : ¬ (i : ℤ) ≤ m := (Finset.mem_filter.mp hi).2
      by_cases hi' : (i : ℤ) = m + 1
      · have : i = (m + 1).toNat := by rw [← hi']; simp
        rw [if_pos this]
        have e : (i : ℝ) = (m : ℝ) + 1 := by exact_mod_cast hi'
        rw [e]
        apply le_of_eq; congr 2; ring
      · have hlt : m + 2 ≤ (i : ℤ) := by omega
        have : (m : ℝ) + 2 ≤ i := by exact_mod_cast hlt
        rw [smoothFiniteOf_eq_zero (Or.inl (by linarith))]
        split_ifs
        · rw [zero_pow two_ne_zero]; exact sq_nonneg _
        · norm_num
  have : (114136 / 100000 : ℝ) ^ 2 + (114136 / 100000) ^ 2 * (3 / 7) < 2 := by norm_num
  have e : t - (m : ℝ) - 1 = t - m - 1 := rfl
  linarith

/-- `exp x ≤ (1/(1 − x/k))^k` for `0 ≤ x < k` (from `1 − y ≤ exp(−y)`) -/
theorem exp_le_inv_pow (x : ℝ) (k : ℕ) (hk : 0 < k) (hxk : x < k) : Real.exp x ≤ (1 / (1 - x / k)) ^ k := by
  have hkr : (0 : ℝ) < k := by exact_mod_cast hk
  have hy : x / k < 1 := by rw [div_lt_one hkr]; exact hxk
  have hpos : 0 < 1 - x / k := by linarith
  have h1 : Real.exp (x / k) ≤ 1 / (1 - x / k) := by
    rw [le_div_iff₀ hpos]
    have h2 := Real.add_one_le_exp (-(x / k))
    have h3 : Real.exp (x / k) * Real.exp (-(x / k)) = 1 := by rw [← Real.exp_add]; simp
    have h4 : 0 < Real.exp (x / k) := Real.exp_pos _
    nlinarith
  have e : x = (k : ℝ) * (x / k) := by field_simp
  calc Real.exp x = Real.exp ((k : ℝ) * (x / k)) := by rw [← e]
    _ = Real.exp (x / k) ^ k := Real.exp_nat_mul _ _
    _ ≤ (1 / (1 - x / k)) ^ k := pow_le_pow_left₀ (Real.exp_pos _).le h1 k

theorem smoothFinite_K1 : (2 / 5 : ℝ) < (114136 / 100000) ^ 2 * Real.exp (4 - 4 / (1 - 81 / 400)) := by
  have e : (4 : ℝ) - 4 / (1 - 81 / 400) = -(324 / 319) := by norm_num
  rw [e, Real.exp_neg]
  have hb := exp_le_inv_pow (324 / 319) 8 (by norm_num) (by norm_num)
  have hpos : 0 < Real.exp (324 / 319) := Real.exp_pos _
  have hlt : Real.exp (324 / 319) < (114136 / 100000) ^ 2 * (5 / 2) := by
    refine lt_of_le_of_lt hb ?_
    norm_num
  rw [← div_eq_mul_inv, lt_div_iff₀ hpos]
  linarith

theorem smoothFinite_K2 : (1 / 5 : ℝ) < (114136 / 100000) ^ 2 * Real.exp (4 - 4 / (1 - 121 / 400)) := by
  have e : (4 : ℝ) - 4 / (1 - 121 / 400) = -(484 / 279) := by norm_num
  rw [e, Real.exp_neg]
  have hb := exp_le_inv_pow (484 / 279) 16 (by norm_num) (by norm_num)
  have hpos : 0 < Real.exp (484 / 279) := Real.exp_pos _
  have hlt : Real.exp (484 / 279) < (114136 / 100000) ^ 2 * 5 := by
    refine lt_of_le_of_lt hb ?_
    norm_num
  rw [← div_eq_mul_inv, lt_div_iff₀ hpos]
  linarith

/-- **lower bound for `smooth_finite`**: between the first and the last centre (`0 ≤ t ≤ n − 1` in units of the step) the sum of
squares exceeds 0.4 — the nearest bump alone when `t` is within 0.45 of a centre, the two neighbours together otherwise -/
theorem sum_smoothFiniteOf_sq_gt (n : ℕ) (t : ℝ) (h0 : 0 ≤ t) (h1 : t ≤ (n : ℝ) - 1) :
    2 / 5 < ∑ i ∈ range n, smoothFiniteOf (t - (i : ℝ)) ^ 2 := by
  have hm0 : ((⌊t⌋₊ : ℕ) : ℝ) ≤ t := Nat.floor_le h0
  have hm1 : t < ((⌊t⌋₊ : ℕ) : ℝ) + 1 := Nat.lt_floor_add_one t
  obtain ⟨m, hm0, hm1⟩ : ∃ m : ℕ, (m : ℝ) ≤ t ∧ t < (m : ℝ) + 1 := ⟨_, hm0, hm1⟩
  have hmn : m < n := by
    have : (m : ℝ) < n := by linarith
    exact_mod_cast this
  have hnn : ∀ i ∈ range n, 0 ≤ smoothFiniteOf (t - (i : ℝ)) ^ 2 := fun i _ => sq_nonneg _
  by_cases hA : t - m ≤ 9 / 20
  · -- the bump centred at m
    have hq : (t - m) ^ 2 ≤ 81 / 400 := by nlinarith
    have hge := smoothFiniteOf_sq_ge hq (by norm_num)
    have hsingle := Finset.single_le_sum hnn (Finset.mem_range.mpr hmn)
    have := smoothFinite_K1
    linarith
  rw [not_le] at hA
  have hm1n : m + 1 < n := by
    have : (m : ℝ) + 1 < n := by linarith
    exact_mod_cast this
  by_cases hB : 11 / 20 ≤ t - m
  · -- the bump centred at m + 1
    have hq : (t - ((m + 1 : ℕ) : ℝ)) ^ 2 ≤ 81 / 400 := by push_cast; nlinarith
    have hge := smoothFiniteOf_sq_ge hq (by norm_num)
    have hsingle := Finset.single_le_sum hnn (Finset.mem_range.mpr hm1n)
    have := smoothFinite_K1
    linarith
  · rw [not_le] at hB
    have hq1 : (t - m) ^ 2 ≤ 121 / 400 := by nlinarith
    have hq2 : (t - ((m + 1 : ℕ) : ℝ)) ^ 2 ≤ 121 / 400 := by push_cast; nlinarith
    have hge1 := smoothFiniteOf_sq_ge hq1 (by norm_num)
    have hge2 := smoothFiniteOf_sq_ge hq2 (by norm_num)
    have hpair := Finset.add_le_sum hnn (Finset.mem_range.mpr hmn) (Finset.mem_range.mpr hm1n) (by omega)
    have := smoothFinite_K2
    linarith

end E3nnVerif.Radial
