import Mathlib.Analysis.SpecialFunctions.Trigonometric.Arctan
import Mathlib.Analysis.SpecialFunctions.Trigonometric.Inverse
import Mathlib.Analysis.SpecialFunctions.Complex.Arg
import Mathlib.Analysis.SpecialFunctions.Sqrt
import E3nnVerif.Model.Scalar
/-
The real instance of `Scalar`.  `atan2 y x` is `Complex.arg (x + y i)` (value in (-π, π], atan2 0 0 = 0,
the C/torch convention).
-/
namespace E3nnVerif
open Classical in
noncomputable instance : Scalar ℝ where
  ofNat := fun n => (n : ℝ)
  sqrt := Real.sqrt
  sin := Real.sin
  cos := Real.cos
  acos := Real.arccos
  atan2 := fun y x => Complex.arg ⟨x, y⟩
  exp := Real.exp
  pi := Real.pi
  lt := fun a b => decide (a < b)

@[simp] theorem Scalar.lt_real (a b : ℝ) : Scalar.lt a b = true ↔ a < b := by
  simp [Scalar.lt]
@[simp] theorem Scalar.ofNat_real (n : Nat) : (Scalar.ofNat n : ℝ) = (n : ℝ) := rfl
@[simp] theorem Scalar.sqrt_real (a : ℝ) : Scalar.sqrt a = Real.sqrt a := rfl
@[simp] theorem Scalar.sin_real (a : ℝ) : Scalar.sin a = Real.sin a := rfl
@[simp] theorem Scalar.cos_real (a : ℝ) : Scalar.cos a = Real.cos a := rfl
@[simp] theorem Scalar.exp_real (a : ℝ) : Scalar.exp a = Real.exp a := rfl
@[simp] theorem Scalar.acos_real (a : ℝ) : Scalar.acos a = Real.arccos a := rfl
@[simp] theorem Scalar.pi_real : (Scalar.pi : ℝ) = Real.pi := rfl

-- sanity: `ring` sees through generic definitions instantiated at ℝ
private def quad {K : Type} [Scalar K] (a b : K) : K := (a + b) * (a + b)
example (a b : ℝ) : quad a b = a * a + Scalar.two * a * b + b * b := by
  simp only [quad, Scalar.two, Scalar.ofNat_real]; push_cast; ring
end E3nnVerif
