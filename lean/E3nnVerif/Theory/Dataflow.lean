/-
Semantics of the dataflow IR of Model/Dataflow.lean and the generic part of its soundness proof (property C15).

Values are families of rows `(s : Shape) → Idx s → F`: one feature row (an element of the real vector space `F`)
per node, per edge, per graph, or one global row.  Only the component at the declared shape of a variable is ever
inspected by the theorems.

`fundamental`: a relation between the values of two evaluations that is preserved by every single well-typed
instruction is preserved by every well-typed program (induction over the program).
-/
import Mathlib.Data.Real.Basic
import Mathlib.Algebra.Module.LinearMap.Defs
import Mathlib.Algebra.BigOperators.Group.Finset.Basic
import Mathlib.Algebra.BigOperators.Fin
import Mathlib.Data.Fintype.BigOperators
import E3nnVerif.Model.Dataflow

namespace E3nnVerif.Dataflow

open E3nnVerif.Model.Irreps (Irreps)

/-- the combinatorial structure a batch of graphs provides to the glue code -/
structure Graph (N E G : Type) where
  src : E → N
  dst : E → N
  batch : N → G

/-- index set of each shape class -/
@[reducible] def Idx (N E G : Type) : Shape → Type
  | .node => N
  | .edge => E
  | .graph => G
  | .glob => Unit

/-- a value: one row of `F` per index, for every shape class -/
abbrev Val (N E G F : Type) := (s : Shape) → Idx N E G s → F

/-- the operations on rows the glue code uses besides the vector-space structure, and the (arbitrary) functions
the named primitives compute.  `fn name` covers tensor products *with their parameters*, radial networks, ... :
every theorem below holds for every `Sem`, hence for all parameter values. -/
structure Sem (F : Type) where
  /-- `torch.cat([x, y])` where `x` has `d₁` components -/
  catF : Nat → F → F → F
  /-- `s * x` for a one-component row `s` -/
  mulF : F → F → F
  /-- the Python floats -/
  const : String → ℝ
  /-- the named row-wise functions (primitives and functions of invariants) -/
  fn : String → List F → F

section Eval

variable {N E G F : Type} [Fintype N] [Fintype E] [DecidableEq N] [DecidableEq G]
variable [AddCommGroup F] [Module ℝ F]

/-- value of variable `x` (the zero family if undefined) -/
def getV (vals : List (Val N E G F)) (x : Var) : Val N E G F := vals.getD x (fun _ _ => 0)

/-- the rows of the arguments of a pointwise call at index `i` of shape `s` -/
def argRows (vals : List (Val N E G F)) (args : List Var) (s : Shape) (i : Idx N E G s) : List F :=
  args.map (fun a => getV vals a s i)

/-- denotation of one instruction -/
def evalInstr (Γ : Graph N E G) (S : Sem F) (inp : Nat → Val N E G F) (vals : List (Val N E G F)) :
    Instr → Val N E G F
  | .input id _ => inp id
  | .gatherSrc x => fun s => match s with
    | .edge => fun e => getV vals x .node (Γ.src e)
    | .node => fun _ => 0
    | .graph => fun _ => 0
    | .glob => fun _ => 0
  | .gatherDst x => fun s => match s with
    | .edge => fun e => getV vals x .node (Γ.dst e)
    | .node => fun _ => 0
    | .graph => fun _ => 0
    | .glob => fun _ => 0
  | .sub x y => fun s i => getV vals x s i - getV vals y s i
  | .add x y => fun s i => getV vals x s i + getV vals y s i
  | .scatterDst x => fun s => match s with
    | .node => fun n => ∑ e ∈ Finset.univ.filter (fun e => Γ.dst e = n), getV vals x .edge e
    | .edge => fun _ => 0
    | .graph => fun _ => 0
    | .glob => fun _ => 0
  | .scatterBatch x => fun s => match s with
    | .graph => fun g => ∑ n ∈ Finset.univ.filter (fun n => Γ.batch n = g), getV vals x .node n
    | .node => fun _ => 0
    | .edge => fun _ => 0
    | .glob => fun _ => 0
  | .reduceAll x => fun _ _ => ∑ n : N, getV vals x .node n
  | .bcast _ x => fun _ _ => getV vals x .glob ()
  | .cat d₁ x y => fun s i => S.catF d₁ (getV vals x s i) (getV vals y s i)
  | .mul c x => fun s i => S.mulF (getV vals c s i) (getV vals x s i)
  | .scale c x => fun s i => S.const c • getV vals x s i
  | .mapInv name _ args => fun s i => S.fn name (argRows vals args s i)
  | .prim name _ _ args => fun s i => S.fn name (argRows vals args s i)

/-- denotation of a program suffix: the list of the values of all variables -/
def evalFrom (Γ : Graph N E G) (S : Sem F) (inp : Nat → Val N E G F) :
    List (Val N E G F) → Prog → List (Val N E G F)
  | vals, [] => vals
  | vals, i :: is => evalFrom Γ S inp (vals ++ [evalInstr Γ S inp vals i]) is

/-- denotation of a program -/
def eval (Γ : Graph N E G) (S : Sem F) (inp : Nat → Val N E G F) (p : Prog) : List (Val N E G F) :=
  evalFrom Γ S inp [] p

end Eval

/-! ## the fundamental lemma -/

section Fundamental
set_option linter.unusedSectionVars false

variable {N₁ E₁ G₁ N₂ E₂ G₂ F : Type}
variable [Fintype N₁] [Fintype E₁] [DecidableEq N₁] [DecidableEq G₁]
variable [Fintype N₂] [Fintype E₂] [DecidableEq N₂] [DecidableEq G₂]
variable [AddCommGroup F] [Module ℝ F]

/-- every variable defined so far is related at its type -/
def AllRel (R : Ty → Val N₁ E₁ G₁ F → Val N₂ E₂ G₂ F → Prop) (tys : List Ty)
    (v₁ : List (Val N₁ E₁ G₁ F)) (v₂ : List (Val N₂ E₂ G₂ F)) : Prop :=
  v₁.length = tys.length ∧ v₂.length = tys.length ∧
    ∀ k τ, tys[k]? = some τ → R τ (getV v₁ k) (getV v₂ k)

theorem AllRel.get {R : Ty → Val N₁ E₁ G₁ F → Val N₂ E₂ G₂ F → Prop} {tys v₁ v₂}
    (h : AllRel R tys v₁ v₂) {k : Var} {τ : Ty} (hk : tys[k]? = some τ) : R τ (getV v₁ k) (getV v₂ k) :=
  h.2.2 k τ hk

theorem AllRel.nil (R : Ty → Val N₁ E₁ G₁ F → Val N₂ E₂ G₂ F → Prop) : AllRel R [] [] [] :=
  ⟨rfl, rfl, by simp⟩

theorem AllRel.snoc {R : Ty → Val N₁ E₁ G₁ F → Val N₂ E₂ G₂ F → Prop} {tys v₁ v₂}
    (h : AllRel R tys v₁ v₂) {τ : Ty} {a : Val N₁ E₁ G₁ F} {b : Val N₂ E₂ G₂ F} (hab : R τ a b) :
    AllRel R (tys ++ [τ]) (v₁ ++ [a]) (v₂ ++ [b]) := by
  obtain ⟨h1, h2, h3⟩ := h
  refine ⟨by simp [h1], by simp [h2], ?_⟩
  intro k σ hk
  by_cases hlt : k < tys.length
  · have hk' : tys[k]? = some σ := by
      rwa [List.getElem?_append_left hlt] at hk
    have e1 : getV (v₁ ++ [a]) k = getV v₁ k := by
      simp [getV, List.getD_eq_getElem?_getD, List.getElem?_append_left (h1 ▸ hlt)]
    have e2 : getV (v₂ ++ [b]) k = getV v₂ k := by
      simp [getV, List.getD_eq_getElem?_getD, List.getElem?_append_left (h2 ▸ hlt)]
    rw [e1, e2]
    exact h3 k σ hk'
  · have hge : tys.length ≤ k := Nat.le_of_not_lt hlt
    rw [List.getElem?_append_right hge] at hk
    rcases Nat.eq_zero_or_pos (k - tys.length) with hm | hm
    · have hkeq : k = tys.length := Nat.le_antisymm (Nat.le_of_sub_eq_zero hm) hge
      rw [hm] at hk
      simp only [List.getElem?_cons_zero, Option.some.injEq] at hk
      subst hk
      have e1 : getV (v₁ ++ [a]) k = a := by
        have : k = v₁.length := hkeq.trans h1.symm
        subst this
        simp [getV, List.getD_eq_getElem?_getD]
      have e2 : getV (v₂ ++ [b]) k = b := by
        have : k = v₂.length := hkeq.trans h2.symm
        subst this
        simp [getV, List.getD_eq_getElem?_getD]
      rw [e1, e2]
      exact hab
    · rw [List.getElem?_eq_none (by simpa using Nat.succ_le_of_lt hm)] at hk
      cases hk

/-- **Fundamental lemma.**  Let `R` be a type-indexed relation between the values of two evaluations (possibly over
different graphs and different inputs) and `P` a predicate on instructions.  If every single well-typed
instruction satisfying `P` maps related environments to related values, then every well-typed program all of
whose instructions satisfy `P` maps related environments to related environments. -/
theorem fundamental
    (Γ₁ : Graph N₁ E₁ G₁) (Γ₂ : Graph N₂ E₂ G₂) (S₁ S₂ : Sem F)
    (inp₁ : Nat → Val N₁ E₁ G₁ F) (inp₂ : Nat → Val N₂ E₂ G₂ F)
    (R : Ty → Val N₁ E₁ G₁ F → Val N₂ E₂ G₂ F → Prop) (P : Instr → Prop)
    (step : ∀ tys v₁ v₂ i τ, P i → i.type tys = some τ → AllRel R tys v₁ v₂ →
      R τ (evalInstr Γ₁ S₁ inp₁ v₁ i) (evalInstr Γ₂ S₂ inp₂ v₂ i)) :
    ∀ (p : Prog) (tys tys' : List Ty) v₁ v₂, (∀ i ∈ p, P i) → checkFrom tys p = some tys' →
      AllRel R tys v₁ v₂ → AllRel R tys' (evalFrom Γ₁ S₁ inp₁ v₁ p) (evalFrom Γ₂ S₂ inp₂ v₂ p) := by
  intro p
  induction p with
  | nil =>
    intro tys tys' v₁ v₂ _ hc h
    simp only [checkFrom, Option.some.injEq] at hc
    subst hc
    simpa [evalFrom] using h
  | cons i is ih =>
    intro tys tys' v₁ v₂ hP hc h
    simp only [checkFrom] at hc
    split at hc
    · rename_i τ hτ
      have hi : P i := hP i (by simp)
      have := step tys v₁ v₂ i τ hi hτ h
      exact ih (tys ++ [τ]) tys' _ _ (fun j hj => hP j (by simp [hj])) hc (h.snoc this)
    · cases hc

/-- the closed form used by the corollaries: all variables of a well-typed program are related -/
theorem fundamental_closed
    (Γ₁ : Graph N₁ E₁ G₁) (Γ₂ : Graph N₂ E₂ G₂) (S₁ S₂ : Sem F)
    (inp₁ : Nat → Val N₁ E₁ G₁ F) (inp₂ : Nat → Val N₂ E₂ G₂ F)
    (R : Ty → Val N₁ E₁ G₁ F → Val N₂ E₂ G₂ F → Prop) (P : Instr → Prop)
    (step : ∀ tys v₁ v₂ i τ, P i → i.type tys = some τ → AllRel R tys v₁ v₂ →
      R τ (evalInstr Γ₁ S₁ inp₁ v₁ i) (evalInstr Γ₂ S₂ inp₂ v₂ i))
    (p : Prog) (tys : List Ty) (hP : ∀ i ∈ p, P i) (hc : check p = some tys) (k : Var) (τ : Ty)
    (hk : tys[k]? = some τ) :
    R τ (getV (eval Γ₁ S₁ inp₁ p) k) (getV (eval Γ₂ S₂ inp₂ p) k) :=
  (fundamental Γ₁ Γ₂ S₁ S₂ inp₁ inp₂ R P step p [] tys [] [] hP hc (AllRel.nil R)).get hk

end Fundamental

/-! ## inversion of the typing judgement -/

section Inversion

variable {tys : List Ty} {τ : Ty}

theorem inv_input {id : Nat} {σ : Ty} (h : (Instr.input id σ).type tys = some τ) : τ = σ ∧ inputOk σ = true := by
  simp only [Instr.type] at h
  split at h
  · exact ⟨(Option.some.inj h).symm, ‹_›⟩
  · cases h

theorem inv_gatherSrc {x : Var} (h : (Instr.gatherSrc x).type tys = some τ) :
    ∃ τx, tys[x]? = some τx ∧ τx.shape = .node ∧ τ = { τx with shape := .edge } := by
  simp only [Instr.type] at h
  split at h
  · rename_i τx hx
    split at h
    · exact ⟨τx, hx, ‹_›, (Option.some.inj h).symm⟩
    · cases h
  · cases h

theorem inv_gatherDst {x : Var} (h : (Instr.gatherDst x).type tys = some τ) :
    ∃ τx, tys[x]? = some τx ∧ τx.shape = .node ∧ τ = { τx with shape := .edge } := by
  simp only [Instr.type] at h
  split at h
  · rename_i τx hx
    split at h
    · exact ⟨τx, hx, ‹_›, (Option.some.inj h).symm⟩
    · cases h
  · cases h

theorem inv_sub {x y : Var} (h : (Instr.sub x y).type tys = some τ) :
    ∃ τx τy, tys[x]? = some τx ∧ tys[y]? = some τy ∧ τx.shape = τy.shape ∧
      ((τx.tc = .pos ∧ τy.tc = .pos ∧ τ = ⟨τx.shape, vecRep, .diff, τx.loc && τy.loc⟩) ∨
       (τx.tc ≠ .pos ∧ τy.tc ≠ .pos ∧ τx.irreps = τy.irreps ∧ τ = ⟨τx.shape, τx.irreps, .inv, τx.loc && τy.loc⟩)) := by
  simp only [Instr.type] at h
  split at h
  · rename_i τx τy hx hy
    split at h
    · rename_i hc
      exact ⟨τx, τy, hx, hy, hc.1, Or.inl ⟨hc.2.1, hc.2.2, (Option.some.inj h).symm⟩⟩
    · split at h
      · rename_i hc
        exact ⟨τx, τy, hx, hy, hc.1, Or.inr ⟨hc.2.1, hc.2.2.1, hc.2.2.2, (Option.some.inj h).symm⟩⟩
      · cases h
  · cases h

theorem inv_add {x y : Var} (h : (Instr.add x y).type tys = some τ) :
    ∃ τx τy, tys[x]? = some τx ∧ tys[y]? = some τy ∧ τx.shape = τy.shape ∧ τx.tc ≠ .pos ∧ τy.tc ≠ .pos ∧
      τx.irreps = τy.irreps ∧ τ = ⟨τx.shape, τx.irreps, .inv, τx.loc && τy.loc⟩ := by
  simp only [Instr.type] at h
  split at h
  · rename_i τx τy hx hy
    split at h
    · rename_i hc
      exact ⟨τx, τy, hx, hy, hc.1, hc.2.1, hc.2.2.1, hc.2.2.2, (Option.some.inj h).symm⟩
    · cases h
  · cases h

theorem inv_scatterDst {x : Var} (h : (Instr.scatterDst x).type tys = some τ) :
    ∃ τx, tys[x]? = some τx ∧ τx.shape = .edge ∧ τx.tc ≠ .pos ∧ τ = ⟨.node, τx.irreps, .inv, τx.loc⟩ := by
  simp only [Instr.type] at h
  split at h
  · rename_i τx hx
    split at h
    · rename_i hc
      exact ⟨τx, hx, hc.1, hc.2, (Option.some.inj h).symm⟩
    · cases h
  · cases h

theorem inv_scatterBatch {x : Var} (h : (Instr.scatterBatch x).type tys = some τ) :
    ∃ τx, tys[x]? = some τx ∧ τx.shape = .node ∧ τx.tc ≠ .pos ∧ τ = ⟨.graph, τx.irreps, .inv, τx.loc⟩ := by
  simp only [Instr.type] at h
  split at h
  · rename_i τx hx
    split at h
    · rename_i hc
      exact ⟨τx, hx, hc.1, hc.2, (Option.some.inj h).symm⟩
    · cases h
  · cases h

theorem inv_reduceAll {x : Var} (h : (Instr.reduceAll x).type tys = some τ) :
    ∃ τx, tys[x]? = some τx ∧ τx.shape = .node ∧ τx.tc ≠ .pos ∧ τ = ⟨.glob, τx.irreps, .inv, false⟩ := by
  simp only [Instr.type] at h
  split at h
  · rename_i τx hx
    split at h
    · rename_i hc
      exact ⟨τx, hx, hc.1, hc.2, (Option.some.inj h).symm⟩
    · cases h
  · cases h

theorem inv_bcast {s : Shape} {x : Var} (h : (Instr.bcast s x).type tys = some τ) :
    ∃ τx, tys[x]? = some τx ∧ τx.shape = .glob ∧ τ = { τx with shape := s } := by
  simp only [Instr.type] at h
  split at h
  · rename_i τx hx
    split at h
    · exact ⟨τx, hx, ‹_›, (Option.some.inj h).symm⟩
    · cases h
  · cases h

theorem inv_cat {d₁ : Nat} {x y : Var} (h : (Instr.cat d₁ x y).type tys = some τ) :
    ∃ τx τy, tys[x]? = some τx ∧ tys[y]? = some τy ∧ τx.shape = τy.shape ∧ τx.tc ≠ .pos ∧ τy.tc ≠ .pos ∧
      E3nnVerif.Model.Irreps.dim τx.irreps = d₁ ∧ τ = ⟨τx.shape, τx.irreps ++ τy.irreps, .inv, τx.loc && τy.loc⟩ := by
  simp only [Instr.type] at h
  split at h
  · rename_i τx τy hx hy
    split at h
    · rename_i hc
      exact ⟨τx, τy, hx, hy, hc.1, hc.2.1, hc.2.2.1, hc.2.2.2, (Option.some.inj h).symm⟩
    · cases h
  · cases h

theorem inv_mul {c x : Var} (h : (Instr.mul c x).type tys = some τ) :
    ∃ τs τx, tys[c]? = some τs ∧ tys[x]? = some τx ∧ τs.shape = τx.shape ∧ τs.tc ≠ .pos ∧ τx.tc ≠ .pos ∧
      isScalars τs.irreps = true ∧ τ = ⟨τx.shape, τx.irreps, .inv, τs.loc && τx.loc⟩ := by
  simp only [Instr.type] at h
  split at h
  · rename_i τs τx hs hx
    split at h
    · rename_i hc
      exact ⟨τs, τx, hs, hx, hc.1, hc.2.1, hc.2.2.1, hc.2.2.2, (Option.some.inj h).symm⟩
    · cases h
  · cases h

theorem inv_scale {c : String} {x : Var} (h : (Instr.scale c x).type tys = some τ) :
    ∃ τx, tys[x]? = some τx ∧ τx.tc ≠ .pos ∧ τ = { τx with tc := .inv } := by
  simp only [Instr.type] at h
  split at h
  · rename_i τx hx
    split at h
    · exact ⟨τx, hx, ‹_›, (Option.some.inj h).symm⟩
    · cases h
  · cases h

/-- what `checkArgs` establishes, argument by argument -/
def ArgOk (tys : List Ty) (s : Shape) (l : Bool) (a : Var) (ρ : Irreps) : Prop :=
  ∃ τa, tys[a]? = some τa ∧ τa.shape = s ∧ τa.tc ≠ .pos ∧ τa.irreps = ρ ∧ (l = true → τa.loc = true)

theorem checkArgs_spec {s : Shape} : ∀ {args : List Var} {ins : List Irreps} {l : Bool},
    checkArgs tys s args ins = some l → List.Forall₂ (ArgOk tys s l) args ins := by
  intro args
  induction args with
  | nil =>
    intro ins l h
    cases ins with
    | nil => exact List.Forall₂.nil
    | cons _ _ => simp [checkArgs] at h
  | cons a as ih =>
    intro ins l h
    cases ins with
    | nil => simp [checkArgs] at h
    | cons ρ ρs =>
      simp only [checkArgs] at h
      split at h
      · cases h
      · rename_i τa ha
        split at h
        · rename_i hc
          split at h
          · rename_i l' hl'
            have hl : l = (τa.loc && l') := (Option.some.inj h).symm
            have ih' := ih hl'
            refine List.Forall₂.cons ⟨τa, ha, hc.1, hc.2.1, hc.2.2, ?_⟩ ?_
            · intro hl1; rw [hl] at hl1; simp at hl1; exact hl1.1
            · refine ih'.imp ?_
              rintro b σ ⟨τb, h1, h2, h3, h4, h5⟩
              refine ⟨τb, h1, h2, h3, h4, ?_⟩
              intro hl1; rw [hl] at hl1; simp at hl1; exact h5 hl1.2
          · cases h
        · cases h

theorem checkInvArgs_spec {s : Shape} : ∀ {args : List Var} {l : Bool},
    checkInvArgs tys s args = some l →
      ∀ a ∈ args, ∃ τa, tys[a]? = some τa ∧ τa.shape = s ∧ τa.tc ≠ .pos ∧ isScalars τa.irreps = true ∧
        (l = true → τa.loc = true) := by
  intro args
  induction args with
  | nil => intro l _ a ha; cases ha
  | cons b bs ih =>
    intro l h a ha
    simp only [checkInvArgs] at h
    split at h
    · cases h
    · rename_i τb hb
      split at h
      · rename_i hc
        split at h
        · rename_i l' hl'
          have hl : l = (τb.loc && l') := (Option.some.inj h).symm
          rcases List.mem_cons.mp ha with rfl | ha'
          · exact ⟨τb, hb, hc.1, hc.2.1, hc.2.2, by intro hl1; rw [hl] at hl1; simp at hl1; exact hl1.1⟩
          · obtain ⟨τa, h1, h2, h3, h4, h5⟩ := ih hl' a ha'
            exact ⟨τa, h1, h2, h3, h4, by intro hl1; rw [hl] at hl1; simp at hl1; exact h5 hl1.2⟩
        · cases h
      · cases h

theorem inv_mapInv {name : String} {n : Nat} {args : List Var} (h : (Instr.mapInv name n args).type tys = some τ) :
    ∃ s l, τ = ⟨s, scalars n, .inv, l⟩ ∧
      ∀ a ∈ args, ∃ τa, tys[a]? = some τa ∧ τa.shape = s ∧ τa.tc ≠ .pos ∧ isScalars τa.irreps = true ∧
        (l = true → τa.loc = true) := by
  simp only [Instr.type] at h
  split at h
  · rename_i s _
    split at h
    · rename_i l hl
      exact ⟨s, l, (Option.some.inj h).symm, checkInvArgs_spec hl⟩
    · cases h
  · cases h

theorem inv_prim {name : String} {ins : List Irreps} {out : Irreps} {args : List Var}
    (h : (Instr.prim name ins out args).type tys = some τ) :
    ∃ s l, τ = ⟨s, out, .inv, l⟩ ∧ List.Forall₂ (ArgOk tys s l) args ins := by
  simp only [Instr.type] at h
  split at h
  · rename_i s _
    split at h
    · rename_i l hl
      exact ⟨s, l, (Option.some.inj h).symm, checkArgs_spec hl⟩
    · cases h
  · cases h

end Inversion

end E3nnVerif.Dataflow
