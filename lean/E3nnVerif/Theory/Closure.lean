/-
Helper lemmas about the generic closure machinery of `E3nnVerif.Model.Perm` (section `Closure`):
`insertNew`, `unionL`, `dedup`, `products`, `closeStep`, `closeLoop`.

Everything is generic in the carrier `α`, the unary operation `inv` and the binary operation `mul`.
Main results:
* `closeLoop_spec`       – a successful `closeLoop` returns the smallest list containing the seed that is
                           closed under `inv` and `mul` (and duplicate-free if the seed is);
* `closeLoop_terminates` – inside a finite closed universe `U`, `U.length + 1 - s.length` fuel suffices.
-/
import E3nnVerif.Model.Perm
import Mathlib.Data.List.Basic
import Mathlib.Data.List.Nodup
import Mathlib.Data.List.Perm.Subperm

namespace E3nnVerif.PermModel

variable {α : Type} [DecidableEq α]

/-! ### insertNew -/

theorem mem_insertNew {s : List α} {x y : α} : y ∈ insertNew s x ↔ y ∈ s ∨ y = x := by
  unfold insertNew
  by_cases hx : x ∈ s
  · rw [if_pos hx]
    constructor
    · exact Or.inl
    · rintro (h | rfl)
      · exact h
      · exact hx
  · rw [if_neg hx, List.mem_append, List.mem_singleton]

theorem nodup_insertNew {s : List α} {x : α} (h : s.Nodup) : (insertNew s x).Nodup := by
  unfold insertNew
  by_cases hx : x ∈ s
  · rw [if_pos hx]; exact h
  · rw [if_neg hx, List.nodup_append]
    refine ⟨h, List.nodup_singleton x, ?_⟩
    intro a ha b hb hab
    rw [List.mem_singleton] at hb
    subst hb; subst hab
    exact hx ha

theorem insertNew_prefix (s : List α) (x : α) : ∃ t, insertNew s x = s ++ t := by
  unfold insertNew
  by_cases hx : x ∈ s
  · exact ⟨[], by rw [if_pos hx, List.append_nil]⟩
  · exact ⟨[x], by rw [if_neg hx]⟩

/-! ### unionL -/

theorem unionL_nil (s : List α) : unionL s [] = s := rfl

theorem unionL_cons (s : List α) (x : α) (xs : List α) :
    unionL s (x :: xs) = unionL (insertNew s x) xs := rfl

theorem mem_unionL {s xs : List α} {x : α} : x ∈ unionL s xs ↔ x ∈ s ∨ x ∈ xs := by
  induction xs generalizing s with
  | nil =>
    rw [unionL_nil]
    constructor
    · exact Or.inl
    · rintro (h | h)
      · exact h
      · cases h
  | cons y ys ih =>
    rw [unionL_cons, ih, mem_insertNew, List.mem_cons]
    constructor
    · rintro ((h | h) | h)
      · exact Or.inl h
      · exact Or.inr (Or.inl h)
      · exact Or.inr (Or.inr h)
    · rintro (h | h | h)
      · exact Or.inl (Or.inl h)
      · exact Or.inl (Or.inr h)
      · exact Or.inr h

theorem nodup_unionL {s xs : List α} (h : s.Nodup) : (unionL s xs).Nodup := by
  induction xs generalizing s with
  | nil => exact h
  | cons y ys ih =>
    rw [unionL_cons]
    exact ih (nodup_insertNew h)

theorem unionL_prefix (s xs : List α) : ∃ t, unionL s xs = s ++ t := by
  induction xs generalizing s with
  | nil => exact ⟨[], by rw [unionL_nil, List.append_nil]⟩
  | cons y ys ih =>
    obtain ⟨t1, h1⟩ := insertNew_prefix s y
    obtain ⟨t2, h2⟩ := ih (insertNew s y)
    exact ⟨t1 ++ t2, by rw [unionL_cons, h2, h1, List.append_assoc]⟩

theorem length_le_unionL (s xs : List α) : s.length ≤ (unionL s xs).length := by
  obtain ⟨t, ht⟩ := unionL_prefix s xs
  rw [ht, List.length_append]
  exact Nat.le_add_right _ _

theorem unionL_eq_of_length_eq {s xs : List α} (h : (unionL s xs).length = s.length) :
    unionL s xs = s := by
  obtain ⟨t, ht⟩ := unionL_prefix s xs
  rw [ht, List.length_append] at h
  have ht0 : t.length = 0 := by omega
  have : t = [] := List.eq_nil_of_length_eq_zero ht0
  rw [ht, this, List.append_nil]

/-! ### dedup -/

theorem mem_dedup {l : List α} {x : α} : x ∈ dedup l ↔ x ∈ l := by
  unfold dedup
  rw [mem_unionL]
  constructor
  · rintro (h | h)
    · cases h
    · exact h
  · exact Or.inr

theorem nodup_dedup (l : List α) : (dedup l).Nodup := by
  unfold dedup
  exact nodup_unionL List.nodup_nil

/-! ### products -/

omit [DecidableEq α] in
theorem mem_products {mul : α → α → α} {s : List α} {c : α} :
    c ∈ products mul s ↔ ∃ a ∈ s, ∃ b ∈ s, mul a b = c := by
  unfold products
  rw [List.mem_flatMap]
  constructor
  · rintro ⟨a, ha, hc⟩
    rw [List.mem_map] at hc
    obtain ⟨b, hb, hab⟩ := hc
    exact ⟨a, ha, b, hb, hab⟩
  · rintro ⟨a, ha, b, hb, hab⟩
    exact ⟨a, ha, List.mem_map.mpr ⟨b, hb, hab⟩⟩

/-! ### closeStep -/

/-- the intermediate list of `closeStep`: the seed together with its inverses -/
def withInv (inv : α → α) (s : List α) : List α := unionL s (s.map inv)

theorem closeStep_eq (inv : α → α) (mul : α → α → α) (s : List α) :
    closeStep inv mul s = unionL (withInv inv s) (products mul (withInv inv s)) := rfl

theorem mem_withInv {inv : α → α} {s : List α} {a : α} :
    a ∈ withInv inv s ↔ a ∈ s ∨ ∃ c ∈ s, inv c = a := by
  unfold withInv
  rw [mem_unionL, List.mem_map]

theorem mem_closeStep {inv : α → α} {mul : α → α → α} {s : List α} {x : α} :
    x ∈ closeStep inv mul s ↔
      (x ∈ s ∨ ∃ c ∈ s, inv c = x) ∨
      ∃ a, (a ∈ s ∨ ∃ c ∈ s, inv c = a) ∧ ∃ b, (b ∈ s ∨ ∃ c ∈ s, inv c = b) ∧ mul a b = x := by
  rw [closeStep_eq, mem_unionL, mem_products, mem_withInv]
  constructor
  · rintro (h | ⟨a, ha, b, hb, hab⟩)
    · exact Or.inl h
    · exact Or.inr ⟨a, mem_withInv.mp ha, b, mem_withInv.mp hb, hab⟩
  · rintro (h | ⟨a, ha, b, hb, hab⟩)
    · exact Or.inl h
    · exact Or.inr ⟨a, mem_withInv.mpr ha, b, mem_withInv.mpr hb, hab⟩

theorem subset_closeStep {inv : α → α} {mul : α → α → α} {s : List α} :
    ∀ x ∈ s, x ∈ closeStep inv mul s :=
  fun _ hx => mem_closeStep.mpr (Or.inl (Or.inl hx))

theorem inv_mem_closeStep {inv : α → α} {mul : α → α → α} {s : List α} :
    ∀ a ∈ s, inv a ∈ closeStep inv mul s :=
  fun a ha => mem_closeStep.mpr (Or.inl (Or.inr ⟨a, ha, rfl⟩))

theorem mul_mem_closeStep {inv : α → α} {mul : α → α → α} {s : List α} :
    ∀ a ∈ s, ∀ b ∈ s, mul a b ∈ closeStep inv mul s :=
  fun a ha b hb => mem_closeStep.mpr (Or.inr ⟨a, Or.inl ha, b, Or.inl hb, rfl⟩)

theorem nodup_closeStep {inv : α → α} {mul : α → α → α} {s : List α} (h : s.Nodup) :
    (closeStep inv mul s).Nodup := by
  rw [closeStep_eq]
  exact nodup_unionL (nodup_unionL h)

theorem length_le_closeStep (inv : α → α) (mul : α → α → α) (s : List α) :
    s.length ≤ (closeStep inv mul s).length := by
  rw [closeStep_eq]
  exact Nat.le_trans (length_le_unionL s (s.map inv)) (length_le_unionL _ _)

theorem closeStep_eq_of_length_eq {inv : α → α} {mul : α → α → α} {s : List α}
    (h : (closeStep inv mul s).length = s.length) : closeStep inv mul s = s := by
  rw [closeStep_eq] at h ⊢
  have h1 : s.length ≤ (withInv inv s).length := length_le_unionL s (s.map inv)
  have h2 : (withInv inv s).length ≤
      (unionL (withInv inv s) (products mul (withInv inv s))).length := length_le_unionL _ _
  have e2 : (unionL (withInv inv s) (products mul (withInv inv s))).length =
      (withInv inv s).length := by omega
  have e1 : (withInv inv s).length = s.length := by omega
  rw [unionL_eq_of_length_eq e2]
  exact unionL_eq_of_length_eq e1

theorem closed_of_closeStep_eq {inv : α → α} {mul : α → α → α} {s : List α}
    (h : closeStep inv mul s = s) :
    (∀ a ∈ s, inv a ∈ s) ∧ (∀ a ∈ s, ∀ b ∈ s, mul a b ∈ s) := by
  constructor
  · intro a ha
    have := inv_mem_closeStep (inv := inv) (mul := mul) a ha
    rw [h] at this
    exact this
  · intro a ha b hb
    have := mul_mem_closeStep (inv := inv) (mul := mul) a ha b hb
    rw [h] at this
    exact this

/-- every member of `closeStep inv mul s` satisfies any predicate that holds on `s` and is preserved by
`inv` and `mul` -/
theorem closeStep_induction {inv : α → α} {mul : α → α → α} {s : List α} (T : α → Prop)
    (hs : ∀ a ∈ s, T a) (hinv : ∀ a, T a → T (inv a)) (hmul : ∀ a b, T a → T b → T (mul a b)) :
    ∀ a ∈ closeStep inv mul s, T a := by
  have h1 : ∀ a, (a ∈ s ∨ ∃ c ∈ s, inv c = a) → T a := by
    rintro a (ha | ⟨c, hc, rfl⟩)
    · exact hs a ha
    · exact hinv c (hs c hc)
  intro x hx
  rcases mem_closeStep.mp hx with h | ⟨a, ha, b, hb, rfl⟩
  · exact h1 x h
  · exact hmul a b (h1 a ha) (h1 b hb)

/-! ### closeLoop -/

theorem closeLoop_zero (inv : α → α) (mul : α → α → α) (s : List α) :
    closeLoop inv mul 0 s = none := rfl

theorem closeLoop_succ (inv : α → α) (mul : α → α → α) (fuel : Nat) (s : List α) :
    closeLoop inv mul (fuel + 1) s =
      if (closeStep inv mul s).length = s.length then some (closeStep inv mul s)
      else closeLoop inv mul fuel (closeStep inv mul s) := by
  show (if ((closeStep inv mul s).length == s.length) = true then _ else _) = _
  by_cases h : (closeStep inv mul s).length = s.length
  · rw [if_pos h, if_pos (beq_iff_eq.mpr h)]
  · rw [if_neg h, if_neg (fun hb => h (beq_iff_eq.mp hb))]

/-- A successful run of `closeLoop` returns a list `g` that contains the seed, is closed under `inv`
and `mul`, is contained in every closed predicate containing the seed (minimality), and is
duplicate-free whenever the seed is. -/
theorem closeLoop_spec {inv : α → α} {mul : α → α → α} {fuel : Nat} {s g : List α}
    (h : closeLoop inv mul fuel s = some g) :
    (∀ a ∈ s, a ∈ g) ∧ (∀ a ∈ g, inv a ∈ g) ∧ (∀ a ∈ g, ∀ b ∈ g, mul a b ∈ g) ∧
    (∀ T : α → Prop, (∀ a ∈ s, T a) → (∀ a, T a → T (inv a)) →
        (∀ a b, T a → T b → T (mul a b)) → ∀ a ∈ g, T a) ∧
    (s.Nodup → g.Nodup) := by
  induction fuel generalizing s with
  | zero =>
    rw [closeLoop_zero] at h
    cases h
  | succ fuel ih =>
    rw [closeLoop_succ] at h
    by_cases hl : (closeStep inv mul s).length = s.length
    · rw [if_pos hl] at h
      have hfix : closeStep inv mul s = s := closeStep_eq_of_length_eq hl
      have hg : g = s := by
        rw [hfix] at h
        exact (Option.some.inj h).symm
      subst hg
      obtain ⟨hi, hm⟩ := closed_of_closeStep_eq hfix
      exact ⟨fun _ ha => ha, hi, hm, fun _ hT _ _ => hT, fun hn => hn⟩
    · rw [if_neg hl] at h
      obtain ⟨hsub, hi, hm, hmin, hnd⟩ := ih h
      refine ⟨fun a ha => hsub a (subset_closeStep a ha), hi, hm, ?_, ?_⟩
      · intro T hT hTi hTm
        exact hmin T (closeStep_induction T hT hTi hTm) hTi hTm
      · intro hn
        exact hnd (nodup_closeStep hn)

theorem closeLoop_subset {inv : α → α} {mul : α → α → α} {fuel : Nat} {s g : List α}
    (h : closeLoop inv mul fuel s = some g) : ∀ a ∈ s, a ∈ g := (closeLoop_spec h).1

theorem closeLoop_inv_closed {inv : α → α} {mul : α → α → α} {fuel : Nat} {s g : List α}
    (h : closeLoop inv mul fuel s = some g) : ∀ a ∈ g, inv a ∈ g := (closeLoop_spec h).2.1

theorem closeLoop_mul_closed {inv : α → α} {mul : α → α → α} {fuel : Nat} {s g : List α}
    (h : closeLoop inv mul fuel s = some g) : ∀ a ∈ g, ∀ b ∈ g, mul a b ∈ g :=
  (closeLoop_spec h).2.2.1

theorem closeLoop_minimal {inv : α → α} {mul : α → α → α} {fuel : Nat} {s g : List α}
    (h : closeLoop inv mul fuel s = some g) (T : α → Prop) (hs : ∀ a ∈ s, T a)
    (hinv : ∀ a, T a → T (inv a)) (hmul : ∀ a b, T a → T b → T (mul a b)) : ∀ a ∈ g, T a :=
  (closeLoop_spec h).2.2.2.1 T hs hinv hmul

theorem closeLoop_nodup {inv : α → α} {mul : α → α → α} {fuel : Nat} {s g : List α}
    (h : closeLoop inv mul fuel s = some g) (hs : s.Nodup) : g.Nodup :=
  (closeLoop_spec h).2.2.2.2 hs

omit [DecidableEq α] in
/-- a duplicate-free list all of whose members lie in `U` is at most as long as `U` -/
theorem length_le_of_nodup_of_subset {s U : List α} (hs : s.Nodup) (hsub : ∀ a ∈ s, a ∈ U) :
    s.length ≤ U.length :=
  (List.Nodup.subperm hs (fun a ha => hsub a ha)).length_le

/-- Termination: inside a finite universe `U` closed under `inv` and `mul`, the loop started at a
duplicate-free `s ⊆ U` succeeds as soon as `fuel ≥ U.length + 1 - s.length`.
(`hU` is not needed by the proof; it is kept so that `U.length` is the honest size of the universe.) -/
theorem closeLoop_terminates {inv : α → α} {mul : α → α → α} {fuel : Nat} {s : List α}
    (U : List α) (hU : U.Nodup) (hs : s.Nodup) (hsub : ∀ a ∈ s, a ∈ U)
    (hinv : ∀ a ∈ U, inv a ∈ U) (hmul : ∀ a ∈ U, ∀ b ∈ U, mul a b ∈ U)
    (hfuel : U.length + 1 ≤ fuel + s.length) : ∃ g, closeLoop inv mul fuel s = some g := by
  have _ := hU
  induction fuel generalizing s with
  | zero =>
    have := length_le_of_nodup_of_subset hs hsub
    omega
  | succ fuel ih =>
    rw [closeLoop_succ]
    by_cases hl : (closeStep inv mul s).length = s.length
    · rw [if_pos hl]
      exact ⟨_, rfl⟩
    · rw [if_neg hl]
      have hle := length_le_closeStep inv mul s
      have hsub' : ∀ a ∈ closeStep inv mul s, a ∈ U :=
        closeStep_induction (fun a => a ∈ U) hsub hinv
          (fun a b ha hb => hmul a ha b hb)
      exact ih (nodup_closeStep hs) hsub' (by omega)

end E3nnVerif.PermModel
