/-
Helper lemmas about E3nnVerif.Model.OptDefaults (C14).  Core Lean only.
-/
import E3nnVerif.Model.OptDefaults

namespace E3nnVerif.Model.OptDefaults

namespace Dict

theorem getKey?_setKey_same (d : Dict) (k : String) (v : Bool) : (d.setKey k v).getKey? k = some v := by
  induction d with
  | nil => simp [setKey, getKey?]
  | cons p d ih =>
    obtain ⟨k', v'⟩ := p
    by_cases h : k' = k <;> simp [setKey, getKey?, h, ih]

theorem getKey?_setKey_other (d : Dict) (k k' : String) (v : Bool) (h : k' ≠ k) :
    (d.setKey k v).getKey? k' = d.getKey? k' := by
  induction d with
  | nil => simp [setKey, getKey?, Ne.symm h]
  | cons p d ih =>
    obtain ⟨k0, v0⟩ := p
    by_cases h0 : k0 = k
    · subst h0
      have : ¬ k0 = k' := fun e => h e.symm
      simp [setKey, getKey?, this]
    · by_cases h1 : k0 = k'
      · subst h1; simp [setKey, getKey?, h0]
      · simp [setKey, getKey?, h0, h1, ih]

theorem keys_setKey_of_hasKey (d : Dict) (k : String) (v : Bool) (h : d.hasKey k = true) :
    (d.setKey k v).keys = d.keys := by
  induction d with
  | nil => simp [hasKey, getKey?] at h
  | cons p d ih =>
    obtain ⟨k0, v0⟩ := p
    by_cases h0 : k0 = k
    · simp [setKey, keys, h0]
    · have : hasKey d k = true := by simpa [hasKey, getKey?, h0] using h
      have ih' := ih this
      simp only [keys] at ih'
      simp [setKey, keys, h0, ih']

theorem hasKey_iff_getKey? (d : Dict) (k : String) : d.hasKey k = true ↔ ∃ b, d.getKey? k = some b := by
  simp [hasKey, Option.isSome_iff_exists]

theorem hasKey_eq_keys_contains (d : Dict) (k : String) : d.hasKey k = d.keys.contains k := by
  induction d with
  | nil => simp [hasKey, getKey?, keys]
  | cons p d ih =>
    obtain ⟨k0, v0⟩ := p
    by_cases h0 : k0 = k
    · simp [hasKey, getKey?, keys, h0]
    · have h1 : ¬ k = k0 := fun e => h0 e.symm
      simp only [hasKey, keys] at ih
      simp [hasKey, getKey?, keys, h0, h1, ih]

theorem hasKey_of_keys_eq (d d' : Dict) (k : String) (h : d.keys = d'.keys) : d.hasKey k = d'.hasKey k := by
  rw [hasKey_eq_keys_contains, hasKey_eq_keys_contains, h]

end Dict

/-! ### `setDefaults` -/

theorem setDefaults_keys (d : Dict) (kvs : List (String × Bool)) : (setDefaults d kvs).1.keys = d.keys := by
  induction kvs generalizing d with
  | nil => rfl
  | cons kv kvs ih =>
    obtain ⟨k, v⟩ := kv
    by_cases h : d.hasKey k = true
    · simp [setDefaults, h, ih, Dict.keys_setKey_of_hasKey d k v h]
    · simp [setDefaults, h]

/-- keys that are not named in the call keep their value -/
theorem setDefaults_getKey?_other (d : Dict) (kvs : List (String × Bool)) (k : String)
    (h : ∀ kv ∈ kvs, kv.1 ≠ k) : (setDefaults d kvs).1.getKey? k = d.getKey? k := by
  induction kvs generalizing d with
  | nil => rfl
  | cons kv kvs ih =>
    obtain ⟨k0, v⟩ := kv
    have hk0 : k0 ≠ k := h (k0, v) (by simp)
    have hrest : ∀ kv ∈ kvs, kv.1 ≠ k := fun kv hkv => h kv (by simp [hkv])
    by_cases hc : d.hasKey k0 = true
    · simp [setDefaults, hc, ih _ hrest, Dict.getKey?_setKey_other d k0 k v (Ne.symm hk0)]
    · simp [setDefaults, hc]

theorem setDefaults_single (d : Dict) (k : String) (v : Bool) (h : d.hasKey k = true) :
    setDefaults d [(k, v)] = (d.setKey k v, false) := by
  simp [setDefaults, h]

/-! ### frame facts of `step` -/

@[simp] theorem World.write_rets (w : World) (r : Nat) (d : Dict) : (w.write r d).rets = w.rets := by
  cases r <;> rfl
@[simp] theorem World.write_stack (w : World) (r : Nat) (d : Dict) : (w.write r d).stack = w.stack := by
  cases r <;> rfl
@[simp] theorem World.write_mods (w : World) (r : Nat) (d : Dict) : (w.write r d).mods = w.mods := by
  cases r <;> rfl
@[simp] theorem World.write_store_succ (w : World) (r : Nat) (d : Dict) : (w.write (r + 1) d).store = w.store := rfl
@[simp] theorem World.write_others_length (w : World) (r : Nat) (d : Dict) :
    (w.write r d).others.length = w.others.length := by
  cases r <;> simp [World.write]

theorem step_store_keys (var : Variant) (w : World) (op : Op) :
    (step var w op).1.store.keys = w.store.keys ∨
      (∃ i k v r, op = .mutate i k v ∧ w.rets[i]? = some r ∧ r = 0) := by
  cases op with
  | enter =>
    left; simp only [step]; split <;> simp [setDefaults_keys]
  | exitNormal =>
    left; simp only [step]; split <;> simp [restore, setDefaults_keys]
  | exitException =>
    left; simp only [step]; split
    · rfl
    · cases var <;> simp [restore, setDefaults_keys]
  | set kvs => left; simp [step, setDefaults_keys]
  | get => left; simp [step]
  | mutate i k v =>
    simp only [step]
    cases hr : w.rets[i]? with
    | none => left; rfl
    | some r =>
      cases r with
      | zero => right; exact ⟨i, k, v, 0, rfl, hr, rfl⟩
      | succ r =>
        left
        simp only [World.read]
        cases w.others[r]? <;> simp [World.write]
  | construct c oS oE =>
    left; simp only [step]; split <;> rfl
  | repickle i =>
    left; simp only [step]; split <;> rfl

/-- no returned reference is the `_OPT_DEFAULTS` object itself -/
def NoAlias (w : World) : Prop := ∀ r ∈ w.rets, r ≠ 0

theorem noAlias_init : NoAlias init := by simp [NoAlias, init]

theorem noAlias_step (var : Variant) (w : World) (op : Op) (h : NoAlias w) : NoAlias (step var w op).1 := by
  cases op with
  | enter => simp only [step]; split <;> exact h
  | exitNormal => simp only [step]; split <;> simp only [restore] <;> exact h
  | exitException =>
    simp only [step]; split
    · exact h
    · cases var <;> simp only [restore] <;> exact h
  | set kvs => exact h
  | get =>
    intro r hr
    simp only [step, List.mem_append, List.mem_singleton] at hr
    rcases hr with hr | hr
    · exact h r hr
    · omega
  | mutate i k v =>
    simp only [step]
    split
    · exact h
    · split
      · exact h
      · intro x hx
        rw [World.write_rets] at hx
        exact h x hx
  | construct c oS oE => simp only [step]; split <;> exact h
  | repickle i => simp only [step]; split <;> exact h

theorem noAlias_run (var : Variant) (hs : List Op) (w : World) (h : NoAlias w) : NoAlias (run var hs w) := by
  induction hs generalizing w with
  | nil => exact h
  | cons op hs ih => exact ih _ (noAlias_step var w op h)

theorem run_append (var : Variant) (h1 h2 : List Op) (w : World) :
    run var (h1 ++ h2) w = run var h2 (run var h1 w) := by
  induction h1 generalizing w with
  | nil => rfl
  | cons op h1 ih => simp [run, ih]

/-! ### the invariant of reachable worlds -/

/-- no alias of the store was handed out and the key `jit_script_fx` exists -/
def Good (w : World) : Prop := NoAlias w ∧ w.store.hasKey kJit = true

theorem good_init : Good init := ⟨noAlias_init, by decide⟩

theorem good_step (var : Variant) (w : World) (op : Op) (h : Good w) : Good (step var w op).1 := by
  refine ⟨noAlias_step var w op h.1, ?_⟩
  rcases step_store_keys var w op with hk | ⟨i, k, v, r, _, hr, h0⟩
  · rw [Dict.hasKey_of_keys_eq _ _ kJit hk]; exact h.2
  · exact absurd h0 (h.1 r (List.mem_of_getElem? hr))

theorem good_run (var : Variant) (hs : List Op) (w : World) (h : Good w) : Good (run var hs w) := by
  induction hs generalizing w with
  | nil => exact h
  | cons op hs ih => exact ih _ (good_step var w op h)

/-- the part of the world that `mutate` cannot touch when no alias was handed out -/
structure Core where
  store : Dict
  rets : List Nat
  stack : List Bool
  mods : List Captured
  nOthers : Nat

def World.core (w : World) : Core := ⟨w.store, w.rets, w.stack, w.mods, w.others.length⟩

/-! ### lemmas behind the theorems of Props/C14 -/

theorem step_core_congr (var : Variant) (w w' : World) (op : Op) (hop : op.isMutate = false)
    (h : w.core = w'.core) : (step var w op).1.core = (step var w' op).1.core := by
  obtain ⟨store, others, rets, stack, mods⟩ := w
  obtain ⟨store', others', rets', stack', mods'⟩ := w'
  simp only [World.core, Core.mk.injEq] at h
  obtain ⟨rfl, rfl, rfl, rfl, hlen⟩ := h
  cases op with
  | mutate i k v => simp [Op.isMutate] at hop
  | enter => simp only [step]; split <;> simp [World.core, hlen]
  | exitNormal => simp only [step]; split <;> simp [World.core, restore, hlen]
  | exitException =>
    simp only [step]; split
    · simp [World.core, hlen]
    · cases var <;> simp [World.core, restore, hlen]
  | set kvs => simp [step, World.core, hlen]
  | get => simp [step, World.core, hlen]
  | construct c oS oE => simp only [step]; split <;> simp [World.core, hlen]
  | repickle i => simp only [step]; split <;> simp [World.core, hlen]

theorem step_mutate_core (var : Variant) (w : World) (hw : NoAlias w) (i : Nat) (k : String) (v : Bool) :
    (step var w (.mutate i k v)).1.core = w.core := by
  simp only [step]
  split
  · rfl
  · rename_i r hr
    have : r ≠ 0 := hw r (List.mem_of_getElem? hr)
    obtain ⟨r', rfl⟩ := Nat.exists_eq_succ_of_ne_zero this
    split <;> simp [World.core]

/-- The restoration claim for one implementation `var` of `disable_e3nn_codegen` and one class of
bodies: for every reachable-like world (`Good`: the invariant of all reachable worlds, `good_reachable`),
every well-nested body `b` — which may itself call `set_optimization_defaults` on ANY key, nest further
contexts, build modules … — and every way `x` of leaving the block, after `with …: b` the value of
`jit_script_fx` and the stack of active contexts are what they were before the `with`. -/
def RestoresOn (var : Variant) (onlyNormal : Bool) : Prop :=
  ∀ (w : World) (b : List Op) (x : Op), Good w → Balanced onlyNormal b →
    (x = Op.exitNormal ∨ (onlyNormal = false ∧ x = Op.exitException)) →
      (run var (.enter :: b ++ [x]) w).store.getKey? kJit = w.store.getKey? kJit ∧
      (run var (.enter :: b ++ [x]) w).stack = w.stack


theorem plain_stack (var : Variant) (w : World) (op : Op) (hop : op.isPlain = true) :
    (step var w op).1.stack = w.stack := by
  cases op with
  | enter => simp [Op.isPlain] at hop
  | exitNormal => simp [Op.isPlain] at hop
  | exitException => simp [Op.isPlain] at hop
  | set kvs => rfl
  | get => rfl
  | mutate i k v =>
    simp only [step]; split
    · rfl
    · split <;> simp
  | construct c oS oE => simp only [step]; split <;> rfl
  | repickle i => simp only [step]; split <;> rfl

theorem enter_spec (var : Variant) (w : World) (hw : Good w) :
    ∃ j, w.store.getKey? kJit = some j ∧ (step var w .enter).1.stack = j :: w.stack := by
  obtain ⟨j, hj⟩ := (Dict.hasKey_iff_getKey? _ _).1 hw.2
  exact ⟨j, hj, by simp [step, hj]⟩

/-- leaving a block through the restoring exit code -/
theorem restore_spec (w : World) (j : Bool) (s : List Bool) (hw : Good w) :
    (restore w j s).1.stack = s ∧ (restore w j s).1.store.getKey? kJit = some j := by
  simp [restore, setDefaults_single _ _ _ hw.2, Dict.getKey?_setKey_same]

theorem exit_restoring (var : Variant) (w : World) (x : Op) (j : Bool) (s : List Bool) (hw : Good w)
    (hs : w.stack = j :: s)
    (hx : x = Op.exitNormal ∨ (var = .tryFinally ∧ x = Op.exitException)) :
    (step var w x).1.stack = s ∧ (step var w x).1.store.getKey? kJit = some j := by
  rcases hx with rfl | ⟨rfl, rfl⟩
  · simp only [step, hs]; exact restore_spec w j s hw
  · simp only [step, hs]; exact restore_spec w j s hw

/-- a well-nested body leaves the stack of active contexts as it found it -/
theorem balanced_stack (var : Variant) (on : Bool) (hv : on = true ∨ var = .tryFinally)
    (b : List Op) (hb : Balanced on b) : ∀ w, Good w → (run var b w).stack = w.stack := by
  induction hb with
  | nil => intro w _; rfl
  | plain op h hop _ ih =>
    intro w hw
    simp only [run]
    rw [ih _ (good_step var w op hw), plain_stack var w op hop]
  | blockNormal b h _ _ ihb ihh =>
    intro w hw
    obtain ⟨j, _, hst⟩ := enter_spec var w hw
    have hg1 := good_step var w .enter hw
    have hg2 := good_run var b _ hg1
    have hs2 := (ihb _ hg1).trans hst
    simp only [run, run_append]
    rw [ihh _ (good_step var _ .exitNormal hg2)]
    exact (exit_restoring var _ .exitNormal j w.stack hg2 hs2 (Or.inl rfl)).1
  | blockException b h hon _ _ ihb ihh =>
    intro w hw
    have hvar : var = .tryFinally := by
      rcases hv with h | h
      · simp [hon] at h
      · exact h
    obtain ⟨j, _, hst⟩ := enter_spec var w hw
    have hg1 := good_step var w .enter hw
    have hg2 := good_run var b _ hg1
    have hs2 := (ihb _ hg1).trans hst
    simp only [run, run_append]
    rw [ihh _ (good_step var _ .exitException hg2)]
    exact (exit_restoring var _ .exitException j w.stack hg2 hs2 (Or.inr ⟨hvar, rfl⟩)).1

theorem restoresOn_of (var : Variant) (on : Bool) (hv : on = true ∨ var = .tryFinally) :
    RestoresOn var on := by
  intro w b x hw hb hx
  obtain ⟨j, hj, hst⟩ := enter_spec var w hw
  have hg1 := good_step var w .enter hw
  have hg2 := good_run var b _ hg1
  have hs2 := (balanced_stack var on hv b hb _ hg1).trans hst
  have hx' : x = Op.exitNormal ∨ (var = .tryFinally ∧ x = Op.exitException) := by
    rcases hx with h | ⟨hon, h⟩
    · exact Or.inl h
    · rcases hv with h' | h'
      · simp [hon] at h'
      · exact Or.inr ⟨h', h⟩
  have := exit_restoring var _ x j w.stack hg2 hs2 hx'
  simp only [run, run_append]
  exact ⟨this.2.trans hj.symm, this.1⟩


theorem bottom_nonempty (w : World) (b : Bool) (s : List Bool) (hs : w.stack = b :: s) :
    bottom w = (b :: s).getLast? := by
  simp only [bottom, hs]
  cases h : (b :: s).getLast? with
  | none => simp at h
  | some l => rfl


theorem bottom_restore (w : World) (j : Bool) (s : List Bool) (hw : Good w) (hs : w.stack = j :: s) :
    bottom (restore w j s).1 = bottom w := by
  obtain ⟨h1, h2⟩ := restore_spec w j s hw
  cases s with
  | nil => simp [bottom, h1, h2, hs]
  | cons b s => rw [bottom_nonempty _ b s h1, bottom_nonempty w j (b :: s) hs, List.getLast?_cons_cons]


theorem step_mods_prefix (var : Variant) (w : World) (op : Op) : ∃ l, (step var w op).1.mods = w.mods ++ l := by
  cases op with
  | enter => simp only [step]; split <;> exact ⟨[], by simp⟩
  | exitNormal => simp only [step]; split <;> exact ⟨[], by simp [restore]⟩
  | exitException =>
    simp only [step]; split
    · exact ⟨[], by simp⟩
    · cases var <;> exact ⟨[], by simp [restore]⟩
  | set kvs => exact ⟨[], by simp [step]⟩
  | get => exact ⟨[], by simp [step]⟩
  | mutate i k v =>
    simp only [step]; split
    · exact ⟨[], by simp⟩
    · split
      · exact ⟨[], by simp⟩
      · exact ⟨[], by simp⟩
  | construct c oS oE =>
    simp only [step]; split
    · exact ⟨[], by simp⟩
    · rename_i m _; exact ⟨[m], rfl⟩
  | repickle i =>
    simp only [step]; split
    · exact ⟨[], by simp⟩
    · rename_i m _; exact ⟨[m], rfl⟩

theorem run_mods_prefix (var : Variant) (h : List Op) (w : World) : ∃ l, (run var h w).mods = w.mods ++ l := by
  induction h generalizing w with
  | nil => exact ⟨[], by simp [run]⟩
  | cons op h ih =>
    obtain ⟨l1, h1⟩ := step_mods_prefix var w op
    obtain ⟨l2, h2⟩ := ih (step var w op).1
    exact ⟨l1 ++ l2, by simp [run, h2, h1]⟩


end E3nnVerif.Model.OptDefaults
