import Mathlib.Data.List.Basic
import Mathlib.Data.List.Pairwise
import E3nnVerif.Sound.AList
import E3nnVerif.IR.Tensor
/-
Structural invariants of the kernel polynomials, and an induction principle for the IR interpreter.

* `interp_forall`: a predicate on scalars that is closed under the `Sca` operations holds for every output component
  of every IR program.
* `Poly.WF`: every monomial is a sorted list of variables, the keys are strictly increasing for `listCmp`
  (in particular pairwise distinct), and a term with a syntactically zero coefficient can only be the constant term.
  `WF` is closed under `0, 1, const, var, +, *, -`, hence `interpPoly_wf`: it holds for the coefficient polynomials
  of EVERY program.
* the keys of a product are products of keys (`mem_mul_key`), so degrees add.
-/
namespace E3nnVerif.IR
open E3nnVerif.Exact

section InterpForall
variable {K : Type} [Sca K] (P : K → Prop)

theorem getD_forall {l : List K} (hl : ∀ x ∈ l, P x) (h0 : P Sca.zero) (i : Nat) : P (getK l i) := by
  unfold getK
  rw [List.getD_eq_getElem?_getD]
  cases h : l[i]? with
  | none => exact h0
  | some x => exact hl x (List.mem_of_getElem? h)

omit [Sca K] in
theorem envGetD_forall {env : List (List K)} (henv : ∀ l ∈ env, ∀ x ∈ l, P x) (i : Nat) :
    ∀ x ∈ env.getD i [], P x := by
  rw [List.getD_eq_getElem?_getD]
  cases h : env[i]? with
  | none => intro x hx; simp at hx
  | some l => exact henv l (List.mem_of_getElem? h)

theorem sumK_forall (hadd : ∀ a b, P a → P b → P (a + b)) (h0 : P Sca.zero) {l : List K} (hl : ∀ x ∈ l, P x) :
    P (sumK l) := by
  unfold sumK
  have : ∀ (a : K), P a → P (l.foldl (fun acc x => acc + x) a) := by
    induction l with
    | nil => intro a ha; exact ha
    | cons h t ih =>
      intro a ha
      exact ih (fun x hx => hl x (List.mem_cons_of_mem _ hx)) _ (hadd _ _ ha (hl h (List.mem_cons_self ..)))
  exact this _ h0

theorem prodK_forall (hmul : ∀ a b, P a → P b → P (a * b)) (h1 : P Sca.one) {l : List K} (hl : ∀ x ∈ l, P x) :
    P (prodK l) := by
  unfold prodK
  have : ∀ (a : K), P a → P (l.foldl (fun acc x => acc * x) a) := by
    induction l with
    | nil => intro a ha; exact ha
    | cons h t ih =>
      intro a ha
      exact ih (fun x hx => hl x (List.mem_cons_of_mem _ hx)) _ (hmul _ _ ha (hl h (List.mem_cons_self ..)))
  exact this _ h1

omit [Sca K] in
theorem zipWithK_forall (f : K → K → K) (hf : ∀ a b, P a → P b → P (f a b)) {a b : List K}
    (ha : ∀ x ∈ a, P x) (hb : ∀ x ∈ b, P x) : ∀ x ∈ zipWithK f a b, P x := by
  unfold zipWithK
  induction a generalizing b with
  | nil => intro x hx; simp at hx
  | cons h t ih =>
    cases b with
    | nil => intro x hx; simp at hx
    | cons h' t' =>
      intro x hx
      simp only [List.zipWith_cons_cons, List.mem_cons] at hx
      rcases hx with rfl | hx
      · exact hf _ _ (ha _ (List.mem_cons_self ..)) (hb _ (List.mem_cons_self ..))
      · exact ih (fun x hx => ha x (List.mem_cons_of_mem _ hx)) (fun x hx => hb x (List.mem_cons_of_mem _ hx)) x hx

variable (h0 : P Sca.zero) (h1 : P Sca.one) (hc : ∀ c, P (Sca.ofC c))
  (hadd : ∀ a b, P a → P b → P (a + b)) (hmul : ∀ a b, P a → P b → P (a * b)) (hneg : ∀ a, P a → P (-a))
  (mkVar : Nat → K) (hv : ∀ i, P (mkVar i))
include h0 h1 hc hadd hmul hneg hv

theorem evalNode_forall {env : List (List K)} (henv : ∀ l ∈ env, ∀ x ∈ l, P x) (n : Node) :
    ∀ x ∈ evalNode mkVar env n, P x := by
  intro x hx
  cases n with
  | input base len =>
    simp only [evalNode, List.mem_map] at hx
    obtain ⟨i, _, rfl⟩ := hx; exact hv _
  | const data =>
    simp only [evalNode, List.mem_map] at hx
    obtain ⟨i, _, rfl⟩ := hx; exact hc _
  | gather srcs idx =>
    simp only [evalNode, List.mem_map] at hx
    obtain ⟨p, _, rfl⟩ := hx
    exact getD_forall P (envGetD_forall P henv _) h0 _
  | einsum dims nOut ops =>
    simp only [evalNode, einsumK, List.mem_map] at hx
    obtain ⟨ao, _, rfl⟩ := hx
    apply sumK_forall P hadd h0
    intro y hy
    simp only [List.mem_map] at hy
    obtain ⟨as_, _, rfl⟩ := hy
    apply prodK_forall P hmul h1
    intro z hz
    simp only [List.mem_map] at hz
    obtain ⟨op, hop, rfl⟩ := hz
    obtain ⟨op', _, rfl⟩ := hop
    exact getD_forall P (envGetD_forall P henv _) h0 _
  | scale c src =>
    simp only [evalNode, List.mem_map] at hx
    obtain ⟨y, hy, rfl⟩ := hx
    exact hmul _ _ (hc c) (envGetD_forall P henv _ y hy)
  | add a b =>
    exact zipWithK_forall P _ hadd (envGetD_forall P henv a) (envGetD_forall P henv b) x hx
  | sub a b =>
    exact zipWithK_forall P _ (fun u v hu hv' => hadd _ _ hu (hneg _ hv'))
      (envGetD_forall P henv a) (envGetD_forall P henv b) x hx
  | mul a b =>
    exact zipWithK_forall P _ hmul (envGetD_forall P henv a) (envGetD_forall P henv b) x hx
  | neg a =>
    simp only [evalNode, List.mem_map] at hx
    obtain ⟨y, hy, rfl⟩ := hx
    exact hneg _ (envGetD_forall P henv _ y hy)

theorem interpAll_forall (prog : List Node) : ∀ l ∈ interpAll mkVar prog, ∀ x ∈ l, P x := by
  unfold interpAll
  have : ∀ (env : List (List K)), (∀ l ∈ env, ∀ x ∈ l, P x) →
      ∀ l ∈ prog.foldl (fun env n => env ++ [evalNode mkVar env n]) env, ∀ x ∈ l, P x := by
    induction prog with
    | nil => intro env henv; exact henv
    | cons n t ih =>
      intro env henv
      simp only [List.foldl]
      apply ih
      intro l hl
      rcases List.mem_append.mp hl with hl | hl
      · exact henv l hl
      · simp only [List.mem_singleton] at hl
        subst hl
        exact evalNode_forall P h0 h1 hc hadd hmul hneg mkVar hv henv n
  exact this [] (by intro l hl; simp at hl)

/-- **induction principle for the interpreter**: a predicate closed under the scalar operations holds for every
    output component of every program -/
theorem interp_forall (prog : List Node) : ∀ x ∈ interp mkVar prog, P x := by
  unfold interp
  have hall := interpAll_forall P h0 h1 hc hadd hmul hneg mkVar hv prog
  generalize interpAll mkVar prog = env at hall
  intro x hx
  rcases List.eq_nil_or_concat env with rfl | ⟨l, a, rfl⟩
  · simp at hx
  · have : (l.concat a).getLastD [] = a := by simp [List.getLastD_eq_getLast?]
    rw [this] at hx
    exact hall a (by simp) x hx

end InterpForall
end E3nnVerif.IR

namespace E3nnVerif.Exact

/-! ### the order on keys -/

theorem blt_iff (a b : Nat) : Nat.blt a b = true ↔ a < b := by rw [Nat.blt_eq]
theorem blt_false_iff (a b : Nat) : Nat.blt a b = false ↔ ¬ a < b := by
  rw [← Bool.not_eq_true, Nat.blt_eq]
theorem beq_iff (a b : Nat) : Nat.beq a b = true ↔ a = b :=
  ⟨Nat.eq_of_beq_eq_true, fun h => by subst h; exact Nat.beq_refl a⟩
theorem beq_false_iff (a b : Nat) : Nat.beq a b = false ↔ ¬ a = b := by
  rw [← Bool.not_eq_true, beq_iff]

theorem natCmp_lt_iff {a b : Nat} : natCmp a b = .lt ↔ a < b := by
  unfold natCmp
  cases h1 : Nat.blt a b <;> cases h2 : Nat.beq a b <;>
    simp only [blt_iff, blt_false_iff, beq_iff, beq_false_iff] at h1 h2 <;> simp <;> omega

theorem natCmp_gt_iff {a b : Nat} : natCmp a b = .gt ↔ b < a := by
  unfold natCmp
  cases h1 : Nat.blt a b <;> cases h2 : Nat.beq a b <;>
    simp only [blt_iff, blt_false_iff, beq_iff, beq_false_iff] at h1 h2 <;> simp <;> omega

theorem natCmp_eq_iff {a b : Nat} : natCmp a b = .eq ↔ a = b := by
  unfold natCmp
  cases h1 : Nat.blt a b <;> cases h2 : Nat.beq a b <;>
    simp only [blt_iff, blt_false_iff, beq_iff, beq_false_iff] at h1 h2 <;> simp <;> omega

theorem listCmp_self (a : List Nat) : listCmp a a = .eq := by
  induction a with
  | nil => rfl
  | cons h t ih => unfold listCmp; rw [natCmp_eq_iff.mpr rfl]; exact ih

theorem listCmp_gt_swap : ∀ {a b : List Nat}, listCmp a b = .gt → listCmp b a = .lt
  | [], [], h => by simp [listCmp] at h
  | [], _ :: _, h => by simp [listCmp] at h
  | _ :: _, [], _ => by simp [listCmp]
  | a :: as, b :: bs, h => by
    unfold listCmp at h ⊢
    cases hc : natCmp a b with
    | lt => simp [hc] at h
    | gt =>
      have : natCmp b a = .lt := natCmp_lt_iff.mpr (natCmp_gt_iff.mp hc)
      simp [this]
    | eq =>
      have hab := natCmp_eq hc
      subst hab
      simp only [hc] at h ⊢
      exact listCmp_gt_swap h

theorem listCmp_lt_trans : ∀ {a b c : List Nat}, listCmp a b = .lt → listCmp b c = .lt → listCmp a c = .lt
  | [], [], _, h, _ => by simp [listCmp] at h
  | [], _ :: _, [], _, h => by simp [listCmp] at h
  | [], _ :: _, _ :: _, _, _ => by simp [listCmp]
  | _ :: _, [], _, h, _ => by simp [listCmp] at h
  | _ :: _, _ :: _, [], _, h => by simp [listCmp] at h
  | a :: as, b :: bs, c :: cs, h1, h2 => by
    unfold listCmp at h1 h2 ⊢
    cases hab : natCmp a b with
    | gt => simp [hab] at h1
    | lt =>
      cases hbc : natCmp b c with
      | gt => simp [hbc] at h2
      | lt =>
        have : natCmp a c = .lt := natCmp_lt_iff.mpr (Nat.lt_trans (natCmp_lt_iff.mp hab) (natCmp_lt_iff.mp hbc))
        simp [this]
      | eq =>
        have := natCmp_eq hbc; subst this
        simp [hab]
    | eq =>
      have := natCmp_eq hab; subst this
      cases hbc : natCmp a c with
      | gt => simp [hbc] at h2
      | lt => simp
      | eq =>
        simp only [hab] at h1
        simp only [hbc] at h2 ⊢
        exact listCmp_lt_trans h1 h2

theorem listCmp_lt_irrefl (a : List Nat) : listCmp a a ≠ .lt := by
  rw [listCmp_self]; decide

/-- the keys of an association list are strictly increasing -/
def KeysSorted {C : Type} (l : AList Mono C) : Prop := (l.map Prod.fst).Pairwise fun a b => listCmp a b = .lt

namespace AList
variable {C : Type} [Add C]

theorem mem_insert_key (k : Mono) (c : C) (l : AList Mono C) :
    ∀ t ∈ insert k c l, t.1 = k ∨ t.1 ∈ l.map Prod.fst := by
  induction l with
  | nil => intro t ht; simp [insert] at ht; simp [ht]
  | cons h tl ih =>
    obtain ⟨k', c'⟩ := h
    intro t ht
    unfold insert at ht
    cases hc : Key.cmp k k' with
    | lt =>
      simp only [hc, List.mem_cons] at ht
      rcases ht with rfl | rfl | ht
      · simp
      · simp
      · right; simp only [List.map_cons, List.mem_cons]; right; exact List.mem_map_of_mem (f := Prod.fst) ht
    | eq =>
      simp only [hc, List.mem_cons] at ht
      rcases ht with rfl | ht
      · simp
      · right; simp only [List.map_cons, List.mem_cons]; right; exact List.mem_map_of_mem (f := Prod.fst) ht
    | gt =>
      simp only [hc, List.mem_cons] at ht
      rcases ht with rfl | ht
      · simp
      · rcases ih t ht with h | h
        · exact Or.inl h
        · right; simp only [List.map_cons, List.mem_cons]; right; exact h

theorem keysSorted_insert (k : Mono) (c : C) (l : AList Mono C) (hl : KeysSorted l) : KeysSorted (insert k c l) := by
  unfold KeysSorted at *
  induction l with
  | nil => simp [insert]
  | cons h tl ih =>
    obtain ⟨k', c'⟩ := h
    simp only [List.map_cons, List.pairwise_cons] at hl
    unfold insert
    cases hc : Key.cmp k k' with
    | lt =>
      have hlt : listCmp k k' = .lt := hc
      simp only [List.map_cons, List.pairwise_cons, List.mem_cons]
      refine ⟨?_, hl.1, hl.2⟩
      rintro x (rfl | hx)
      · exact hlt
      · exact listCmp_lt_trans hlt (hl.1 x hx)
    | eq =>
      simp only [List.map_cons, List.pairwise_cons]
      exact ⟨hl.1, hl.2⟩
    | gt =>
      have hgt : listCmp k k' = .gt := hc
      simp only [List.map_cons, List.pairwise_cons]
      refine ⟨?_, ih hl.2⟩
      intro x hx
      obtain ⟨t, ht, rfl⟩ := List.mem_map.mp hx
      rcases mem_insert_key k c tl t ht with h | h
      · rw [h]; exact listCmp_gt_swap hgt
      · exact hl.1 _ h

omit [Add C] in
theorem keysSorted_prune (isZero : C → Bool) (l : AList Mono C) (hl : KeysSorted l) : KeysSorted (prune isZero l) := by
  unfold KeysSorted prune at *
  exact hl.sublist ((List.filter_sublist).map _)

omit [Add C] in
theorem mem_prune {isZero : C → Bool} {l : AList Mono C} {t : Mono × C} (h : t ∈ prune isZero l) :
    t ∈ l ∧ isZero t.2 = false := by
  unfold prune at h
  simpa using List.mem_filter.mp h

theorem mem_add_key (a b : AList Mono C) : ∀ t ∈ add a b, t.1 ∈ a.map Prod.fst ∨ t.1 ∈ b.map Prod.fst := by
  unfold add
  induction a with
  | nil => intro t ht; right; exact List.mem_map_of_mem (f := Prod.fst) ht
  | cons h tl ih =>
    intro t ht
    simp only [List.foldr] at ht
    rcases mem_insert_key _ _ _ t ht with h1 | h1
    · left; simp [h1]
    · obtain ⟨t', ht', he⟩ := List.mem_map.mp h1
      rcases ih t' ht' with h2 | h2
      · left; rw [← he]; simp only [List.map_cons, List.mem_cons]; right; exact h2
      · right; rw [← he]; exact h2

theorem keysSorted_add (a b : AList Mono C) (hb : KeysSorted b) : KeysSorted (add a b) := by
  unfold add
  induction a with
  | nil => exact hb
  | cons h tl ih => simp only [List.foldr]; exact keysSorted_insert _ _ _ ih

end AList

/-! ### sorted monomials -/

namespace Mono

/-- the variables of the monomial are listed in non-decreasing order -/
def Sorted (m : Mono) : Prop := m.Pairwise (· ≤ ·)

instance (m : Mono) : Decidable (Sorted m) := by unfold Sorted; infer_instance

theorem mem_insert (v : Nat) (m : Mono) : ∀ x, x ∈ insert v m ↔ x = v ∨ x ∈ m := by
  induction m with
  | nil => intro x; simp [insert]
  | cons w t ih =>
    intro x
    unfold insert
    cases h : Nat.ble v w
    · simp only [cond_false, List.mem_cons, ih]; tauto
    · simp only [cond_true, List.mem_cons]

theorem sorted_insert (v : Nat) (m : Mono) (hm : Sorted m) : Sorted (insert v m) := by
  unfold Sorted at *
  induction m with
  | nil => simp [insert]
  | cons w t ih =>
    simp only [List.pairwise_cons] at hm
    unfold insert
    cases h : Nat.ble v w
    · have hvw : w ≤ v := by
        have : ¬ v ≤ w := by intro h'; rw [Nat.ble_eq_true_of_le h'] at h; exact absurd h (by decide)
        omega
      simp only [cond_false, List.pairwise_cons]
      refine ⟨?_, ih hm.2⟩
      intro x hx
      rcases (mem_insert v t x).mp hx with rfl | hx
      · exact hvw
      · exact hm.1 x hx
    · have hvw : v ≤ w := Nat.le_of_ble_eq_true h
      simp only [cond_true, List.pairwise_cons, List.mem_cons]
      refine ⟨?_, hm.1, hm.2⟩
      rintro x (rfl | hx)
      · exact hvw
      · exact Nat.le_trans hvw (hm.1 x hx)

theorem sorted_mul (a b : Mono) (hb : Sorted b) : Sorted (mul a b) := by
  unfold mul
  induction a with
  | nil => exact hb
  | cons h t ih => simp only [List.foldr]; exact sorted_insert _ _ ih

theorem length_insert (v : Nat) (m : Mono) : (insert v m).length = m.length + 1 := by
  induction m with
  | nil => simp [insert]
  | cons w t ih => unfold insert; cases h : Nat.ble v w <;> simp [ih]

theorem length_mul (a b : Mono) : (mul a b).length = a.length + b.length := by
  unfold mul
  induction a with
  | nil => simp
  | cons h t ih => simp only [List.foldr, length_insert, ih, List.length_cons]; omega

end Mono

/-! ### zero tests -/

theorem Q.isZero_neg (q : Q) : (Q.neg q).isZero = q.isZero := by
  simp [Q.neg, Q.isZero]

theorem SqrtQ.isZero_neg (c : SqrtQ) : (SqrtQ.neg c).isZero = c.isZero := by
  unfold SqrtQ.neg SqrtQ.isZero AList.mapCoef AList.allZero
  induction c with
  | nil => rfl
  | cons h t ih => simp only [List.map_cons, List.all_cons, Q.isZero_neg, ih]

theorem SqrtQ.isZero_one : SqrtQ.isZero SqrtQ.one = false := by decide

/-! ### well-formed polynomials -/

namespace Poly

structure WF (p : Poly) : Prop where
  /-- every monomial is sorted -/
  monos : ∀ t ∈ p, Mono.Sorted t.1
  /-- a syntactically zero coefficient only occurs at the constant term -/
  zeroKey : ∀ t ∈ p, SqrtQ.isZero t.2 = true → t.1 = []
  /-- strictly increasing keys -/
  sorted : KeysSorted p

theorem wf_nil : WF ([] : Poly) := ⟨by simp, by simp, by simp [KeysSorted]⟩

theorem wf_const (c : SqrtQ) : WF (const c) := by
  refine ⟨?_, ?_, by simp [KeysSorted, const]⟩
  · intro t ht; simp only [const, List.mem_singleton] at ht; subst ht; simp [Mono.Sorted]
  · intro t ht _; simp only [const, List.mem_singleton] at ht; subst ht; rfl

theorem wf_one : WF one := wf_const _

theorem wf_var (i : Nat) : WF (var i) := by
  refine ⟨?_, ?_, by simp [KeysSorted, var]⟩
  · intro t ht; simp only [var, List.mem_singleton] at ht; subst ht; simp [Mono.Sorted]
  · intro t ht hz; simp only [var, List.mem_singleton] at ht; subst ht
    rw [SqrtQ.isZero_one] at hz; exact absurd hz (by decide)

theorem wf_prune {p : Poly} (hm : ∀ t ∈ p, Mono.Sorted t.1) (hs : KeysSorted p) : WF (prune p) := by
  refine ⟨?_, ?_, AList.keysSorted_prune _ _ hs⟩
  · intro t ht; exact hm t (AList.mem_prune ht).1
  · intro t ht hz; rw [(AList.mem_prune ht).2] at hz; exact absurd hz (by decide)

theorem wf_add {a b : Poly} (ha : WF a) (hb : WF b) : WF (add a b) := by
  unfold add
  apply wf_prune
  · intro t ht
    rcases AList.mem_add_key a b t ht with h | h
    · obtain ⟨t', ht', he⟩ := List.mem_map.mp h; rw [← he]; exact ha.monos t' ht'
    · obtain ⟨t', ht', he⟩ := List.mem_map.mp h; rw [← he]; exact hb.monos t' ht'
  · exact AList.keysSorted_add a b hb.sorted

theorem wf_neg {a : Poly} (ha : WF a) : WF (neg a) := by
  unfold neg AList.mapCoef
  refine ⟨?_, ?_, ?_⟩
  · intro t ht
    obtain ⟨t', ht', rfl⟩ := List.mem_map.mp ht
    exact ha.monos t' ht'
  · intro t ht hz
    obtain ⟨t', ht', rfl⟩ := List.mem_map.mp ht
    simp only [SqrtQ.isZero_neg] at hz
    exact ha.zeroKey t' ht' hz
  · have : (a.map fun kc => (kc.1, SqrtQ.neg kc.2)).map Prod.fst = a.map Prod.fst := by
      simp [List.map_map, Function.comp_def]
    unfold KeysSorted; rw [this]; exact ha.sorted

theorem mem_mulTermAll_key (t : Mono × SqrtQ) (b acc : Poly) :
    ∀ x ∈ mulTermAll t b acc, (∃ u ∈ b, x.1 = Mono.mul t.1 u.1) ∨ x.1 ∈ acc.map Prod.fst := by
  unfold mulTermAll
  induction b with
  | nil => intro x hx; right; exact List.mem_map_of_mem (f := Prod.fst) hx
  | cons h tl ih =>
    intro x hx
    simp only [List.foldr] at hx
    rcases AList.mem_insert_key _ _ _ x hx with h1 | h1
    · left; exact ⟨h, List.mem_cons_self .., h1⟩
    · obtain ⟨x', hx', he⟩ := List.mem_map.mp h1
      rcases ih x' hx' with ⟨u, hu, h2⟩ | h2
      · left; exact ⟨u, List.mem_cons_of_mem _ hu, by rw [← he]; exact h2⟩
      · right; rw [← he]; exact h2

theorem keysSorted_mulTermAll (t : Mono × SqrtQ) (b acc : Poly) (h : KeysSorted acc) :
    KeysSorted (mulTermAll t b acc) := by
  unfold mulTermAll
  induction b with
  | nil => exact h
  | cons hd tl ih => simp only [List.foldr]; exact AList.keysSorted_insert _ _ _ ih

theorem mem_mulRaw_key (a b : Poly) :
    ∀ x ∈ a.foldr (fun t acc => mulTermAll t b acc) [], ∃ t ∈ a, ∃ u ∈ b, x.1 = Mono.mul t.1 u.1 := by
  induction a with
  | nil => intro x hx; simp at hx
  | cons h tl ih =>
    intro x hx
    simp only [List.foldr] at hx
    rcases mem_mulTermAll_key h b _ x hx with ⟨u, hu, h1⟩ | h1
    · exact ⟨h, List.mem_cons_self .., u, hu, h1⟩
    · obtain ⟨x', hx', he⟩ := List.mem_map.mp h1
      obtain ⟨t, ht, u, hu, h2⟩ := ih x' hx'
      exact ⟨t, List.mem_cons_of_mem _ ht, u, hu, by rw [← he]; exact h2⟩

/-- **the keys of a product are products of keys** -/
theorem mem_mul_key (a b : Poly) : ∀ x ∈ mul a b, ∃ t ∈ a, ∃ u ∈ b, x.1 = Mono.mul t.1 u.1 := by
  intro x hx
  exact mem_mulRaw_key a b x (AList.mem_prune hx).1

theorem keysSorted_mulRaw (a b : Poly) : KeysSorted (a.foldr (fun t acc => mulTermAll t b acc) []) := by
  induction a with
  | nil => simp [KeysSorted]
  | cons h tl ih => simp only [List.foldr]; exact keysSorted_mulTermAll _ _ _ ih

theorem wf_mul {a b : Poly} (hb : WF b) : WF (mul a b) := by
  unfold mul
  apply wf_prune
  · intro x hx
    obtain ⟨t, _, u, hu, he⟩ := mem_mulRaw_key a b x hx
    rw [he]; exact Mono.sorted_mul _ _ (hb.monos u hu)
  · exact keysSorted_mulRaw a b

end Poly

/-- **every coefficient polynomial of every IR program is well formed** -/
theorem interpPoly_wf (prog : List IR.Node) : ∀ p ∈ IR.interpPoly prog, Poly.WF p :=
  IR.interp_forall Poly.WF Poly.wf_nil Poly.wf_one Poly.wf_const
    (fun _ _ ha hb => Poly.wf_add ha hb) (fun _ _ _ hb => Poly.wf_mul hb) (fun _ ha => Poly.wf_neg ha)
    Poly.var Poly.wf_var prog

theorem interpPoly_getD_wf (prog : List IR.Node) (t : Nat) : Poly.WF ((IR.interpPoly prog).getD t []) := by
  rw [List.getD_eq_getElem?_getD]
  cases h : (IR.interpPoly prog)[t]? with
  | none => exact Poly.wf_nil
  | some p => exact interpPoly_wf prog p (List.mem_of_getElem? h)

/-- the keys of a well-formed polynomial are pairwise distinct -/
theorem Poly.WF.nodup {p : Poly} (h : Poly.WF p) : (p.map Prod.fst).Nodup := by
  have := h.sorted
  unfold KeysSorted at this
  exact this.imp (fun {a b} hab he => by subst he; exact listCmp_lt_irrefl a hab)

end E3nnVerif.Exact
