import E3nnVerif.Theory.ReduceDefs
import E3nnVerif.Theory.ReduceOrder
import E3nnVerif.Theory.Closure
import Mathlib.Data.List.Forall2
import Mathlib.Tactic.Ring
import Mathlib.Tactic.Linarith
/-
Correctness of the exact part of `reduce_permutation` (model: `reduceCore` of `Model/Reduce.lean`),
for ALL index counts `n`, all signed permutation groups `G` and all dimension lists `dims`:

* (A) `mem_fullBase`, `act_mem_fullBase`    the multi-index set and the (right) action of the group on it
* (B) `row_entries`, `coef_sq_sum`          every row has entries ±1 at pairwise distinct multi-indices
* (C) `rows_disjoint`                       different rows have disjoint supports
* (D) `row_invariant`                       every row is a `G`-invariant tensor
* (E) `rows_complete`                       every `G`-invariant tensor is a combination of the rows
* (F) `support_iff`                         the rows cover exactly the non-cancelling orbits
* (G) `reducePermutation_dims`              a successful dimension bookkeeping loop yields `DimsCompatible` dims
-/
namespace E3nnVerif.ReduceModel
open E3nnVerif.PermModel

/-! ### (A) `fullBase` and the action -/

theorem mem_fullBase_iff_forall₂ {dims x : List ℕ} :
    x ∈ fullBase dims ↔ List.Forall₂ (· < ·) x dims := by
  induction dims generalizing x with
  | nil =>
    simp only [fullBase, List.mem_singleton]
    constructor
    · rintro rfl; exact List.Forall₂.nil
    · intro h; cases h; rfl
  | cons d ds ih =>
    simp only [fullBase, List.mem_flatMap, List.mem_range, List.mem_map]
    constructor
    · rintro ⟨k, hk, t, ht, rfl⟩
      exact List.Forall₂.cons hk (ih.1 ht)
    · intro h
      cases h with
      | cons hk ht => exact ⟨_, hk, _, ih.2 ht, rfl⟩

/-- (A) the members of `itertools.product(*(range(d) for d in dims))` -/
theorem mem_fullBase {dims x : List ℕ} :
    x ∈ fullBase dims ↔
      x.length = dims.length ∧ ∀ k (h : k < x.length) (h' : k < dims.length), x[k] < dims[k] := by
  rw [mem_fullBase_iff_forall₂, List.forall₂_iff_get]
  simp only [List.get_eq_getElem]

theorem length_of_mem_fullBase {dims x : List ℕ} (h : x ∈ fullBase dims) : x.length = dims.length :=
  (mem_fullBase.1 h).1

theorem nodup_fullBase (dims : List ℕ) : (fullBase dims).Nodup := by
  induction dims with
  | nil => simp [fullBase]
  | cons d ds ih =>
    simp only [fullBase]
    rw [List.nodup_flatMap]
    refine ⟨fun k _ => ih.map (fun a b h => List.tail_eq_of_cons_eq h), ?_⟩
    refine List.Pairwise.imp_of_mem ?_ (List.nodup_range (n := d))
    intro a b _ _ hab
    show List.Disjoint _ _
    intro t h1 h2
    rw [List.mem_map] at h1 h2
    obtain ⟨t1, _, rfl⟩ := h1
    obtain ⟨t2, _, e⟩ := h2
    exact hab (List.head_eq_of_cons_eq e).symm

@[simp] theorem length_act (x p : List ℕ) : (act x p).length = p.length := by simp [act]

theorem getD_act {x p : List ℕ} {i : ℕ} (hi : i < p.length) :
    (act x p).getD i 0 = x.getD (p.getD i 0) 0 := by
  unfold act
  simp [List.getD_eq_getElem?_getD, hi]

/-- `x ∘ id = x` -/
theorem act_identity {x : List ℕ} {n : ℕ} (h : x.length = n) : act x (identity n) = x := by
  subst h
  exact map_getD_range x

/-- the action is a RIGHT action: `(x ∘ q) ∘ p = x ∘ (q ∘ p)` -/
theorem act_act {x p q : List ℕ} (hp : IsPerm p) (hpq : q.length = p.length) :
    act (act x q) p = act x (composeRaw q p) := by
  rw [composeRaw_eq_map hpq]
  unfold act
  rw [List.map_map]
  apply List.map_congr_left
  intro i hi
  have hi' : i < q.length := by rw [hpq]; exact hp.lt hi
  simp [List.getD_eq_getElem?_getD, hi']

theorem act_act_inverseRaw {x p : List ℕ} (hp : IsPerm p) (h : x.length = p.length) :
    act (act x p) (inverseRaw p) = x := by
  rw [act_act hp.inverseRaw (by simp), composeRaw_inverseRaw hp]
  exact act_identity h

section Group
variable {n : ℕ} {G : List SPerm} {dims : List ℕ}

/-- (A) the group acts on the multi-index set -/
theorem act_mem_fullBase (hG : IsSignedGroup n G) (hd : dims.length = n) (hc : DimsCompatible G dims)
    {a : SPerm} (ha : a ∈ G) {x : List ℕ} (hx : x ∈ fullBase dims) : act x a.2 ∈ fullBase dims := by
  obtain ⟨hp, hl⟩ := hG.isPerm a ha
  obtain ⟨hxl, hxk⟩ := mem_fullBase.1 hx
  rw [mem_fullBase]
  refine ⟨by rw [length_act, hl, hd], ?_⟩
  intro k h h'
  have hk : k < a.2.length := by simpa using h
  have hpk : a.2.getD k 0 < a.2.length := hp.getD_lt hk
  have e1 : (act x a.2)[k] = x.getD (a.2.getD k 0) 0 := by
    rw [← getD_of_lt h, getD_act hk]
  have e2 : dims[k] = dims.getD (a.2.getD k 0) 0 := by
    have hk' : k < (act dims a.2).length := by simpa using hk
    have : (act dims a.2).getD k 0 = dims.getD k 0 := by rw [hc a ha]
    rw [getD_act hk, getD_of_lt h'] at this
    exact this.symm
  rw [e1, e2, getD_of_lt (by omega : a.2.getD k 0 < x.length), getD_of_lt (by omega : a.2.getD k 0 < dims.length)]
  exact hxk _ _ _

/-! ### the signed orbit relation -/

/-- `Rel G s x y`: some group element with sign `s` maps the multi-index `x` to `y`,
    i.e. `(s, y) ∈ orbit G x` -/
def Rel (G : List SPerm) (s : ℤ) (x y : List ℕ) : Prop := ∃ a ∈ G, a.1 = s ∧ act x a.2 = y

theorem mem_orbit {e : Entry} {x : List ℕ} : e ∈ orbit G x ↔ Rel G e.1 x e.2 := by
  unfold orbit Rel
  rw [mem_dedup, List.mem_map]
  constructor
  · rintro ⟨a, ha, rfl⟩; exact ⟨a, ha, rfl, rfl⟩
  · rintro ⟨a, ha, h1, h2⟩; exact ⟨a, ha, Prod.ext h1 h2⟩

theorem mem_orbit' {s : ℤ} {x y : List ℕ} : (s, y) ∈ orbit G x ↔ Rel G s x y := mem_orbit

theorem nodup_orbit (G : List SPerm) (x : List ℕ) : (orbit G x).Nodup := nodup_dedup _

theorem Rel.sign (hG : IsSignedGroup n G) {s : ℤ} {x y : List ℕ} (h : Rel G s x y) : s = 1 ∨ s = -1 := by
  obtain ⟨a, ha, rfl, _⟩ := h
  exact hG.sign a ha

theorem Rel.length (hG : IsSignedGroup n G) {s : ℤ} {x y : List ℕ} (h : Rel G s x y) : y.length = n := by
  obtain ⟨a, ha, _, rfl⟩ := h
  rw [length_act]
  exact (hG.isPerm a ha).2

theorem Rel.mem_fullBase (hG : IsSignedGroup n G) (hd : dims.length = n) (hc : DimsCompatible G dims)
    {s : ℤ} {x y : List ℕ} (h : Rel G s x y) (hx : x ∈ fullBase dims) : y ∈ fullBase dims := by
  obtain ⟨a, ha, _, rfl⟩ := h
  exact act_mem_fullBase hG hd hc ha hx

theorem sq_of_sign {s : ℤ} (h : s = 1 ∨ s = -1) : s * s = 1 := by
  rcases h with rfl | rfl <;> norm_num

theorem Rel.refl (hG : IsSignedGroup n G) {x : List ℕ} (hx : x.length = n) : Rel G 1 x x :=
  ⟨_, hG.one_mem, rfl, act_identity hx⟩

theorem Rel.trans (hG : IsSignedGroup n G) {s t : ℤ} {x y z : List ℕ}
    (h1 : Rel G s x y) (h2 : Rel G t y z) : Rel G (s * t) x z := by
  obtain ⟨a, ha, rfl, rfl⟩ := h1
  obtain ⟨b, hb, rfl, rfl⟩ := h2
  refine ⟨sMul a b, hG.mul_mem a ha b hb, rfl, ?_⟩
  obtain ⟨_, hal⟩ := hG.isPerm a ha
  obtain ⟨hbp, hbl⟩ := hG.isPerm b hb
  show act x (composeRaw a.2 b.2) = _
  rw [act_act hbp (by rw [hal, hbl])]

theorem Rel.symm (hG : IsSignedGroup n G) {s : ℤ} {x y : List ℕ} (hx : x.length = n)
    (h : Rel G s x y) : Rel G s y x := by
  obtain ⟨a, ha, rfl, rfl⟩ := h
  obtain ⟨hap, hal⟩ := hG.isPerm a ha
  exact ⟨sInv a, hG.inv_mem a ha, rfl, act_act_inverseRaw hap (by rw [hx, hal])⟩

/-- L2: the orbit of a member of the orbit of `x` is the orbit of `x`, up to the sign of the member -/
theorem Rel.shift (hG : IsSignedGroup n G) {s t : ℤ} {x y z : List ℕ} (hx : x.length = n)
    (h : Rel G t x y) : Rel G s y z ↔ Rel G (t * s) x z := by
  constructor
  · exact fun h2 => h.trans hG h2
  · intro h2
    have := (h.symm hG hx).trans hG h2
    rwa [← mul_assoc, sq_of_sign (h.sign hG), one_mul] at this

/-- `x` is non-cancelling: no group element maps `x` to itself with sign `-1`
    (the python test `(-1, x) not in xs`) -/
def NonCancel (G : List SPerm) (x : List ℕ) : Prop := ((-1 : ℤ), x) ∉ orbit G x

theorem nonCancel_iff {x : List ℕ} : NonCancel G x ↔ ¬ Rel G (-1) x x := by
  unfold NonCancel
  rw [mem_orbit']

/-- L3: in a non-cancelling orbit every multi-index occurs with exactly one sign -/
theorem Rel.sign_unique (hG : IsSignedGroup n G) {s t : ℤ} {x y : List ℕ} (hx : x.length = n)
    (hnc : NonCancel G x) (h1 : Rel G s x y) (h2 : Rel G t x y) : s = t := by
  have h3 := h1.trans hG (h2.symm hG hx)
  rcases h1.sign hG with rfl | rfl <;> rcases h2.sign hG with rfl | rfl
  · rfl
  · exact absurd (by simpa using h3) (nonCancel_iff.1 hnc)
  · exact absurd (by simpa using h3) (nonCancel_iff.1 hnc)
  · rfl

theorem Rel.nonCancel (hG : IsSignedGroup n G) {t : ℤ} {x y : List ℕ} (hx : x.length = n)
    (h : Rel G t x y) (hnc : NonCancel G x) : NonCancel G y := by
  rw [nonCancel_iff] at hnc ⊢
  intro h2
  apply hnc
  have := (h.trans hG h2).trans hG (h.symm hG hx)
  have e : t * -1 * t = -1 := by
    rw [mul_comm t (-1), mul_assoc, sq_of_sign (h.sign hG)]; norm_num
  rwa [e] at this

/-! ### the set `base` built by the loop over `full_base` -/

theorem baseSet_fold_spec (G : List SPerm) (X : List (List ℕ)) (acc : List (List Row)) :
    (∀ c, c ∈ X.foldl (fun base x =>
          let xs := orbit G x
          if xs.contains ((-1 : Int), x) then base else insertNew base (canonPair xs)) acc ↔
        c ∈ acc ∨ ∃ x ∈ X, NonCancel G x ∧ canonPair (orbit G x) = c) ∧
    (acc.Nodup → (X.foldl (fun base x =>
          let xs := orbit G x
          if xs.contains ((-1 : Int), x) then base else insertNew base (canonPair xs)) acc).Nodup) := by
  induction X generalizing acc with
  | nil => simp
  | cons x X ih =>
    rw [List.foldl_cons]
    by_cases hx : ((-1 : ℤ), x) ∈ orbit G x
    · have e : (let xs := orbit G x
          if xs.contains ((-1 : Int), x) then acc else insertNew acc (canonPair xs)) = acc := by
        simp only [List.contains_iff_mem, hx, if_true]
      rw [e]
      refine ⟨fun c => ?_, (ih acc).2⟩
      rw [(ih acc).1 c]
      constructor
      · rintro (h | ⟨y, hy, h⟩)
        · exact Or.inl h
        · exact Or.inr ⟨y, List.mem_cons_of_mem _ hy, h⟩
      · rintro (h | ⟨y, hy, hnc, h⟩)
        · exact Or.inl h
        · rcases List.mem_cons.1 hy with rfl | hy
          · exact absurd hx hnc
          · exact Or.inr ⟨y, hy, hnc, h⟩
    · have e : (let xs := orbit G x
          if xs.contains ((-1 : Int), x) then acc else insertNew acc (canonPair xs)) =
          insertNew acc (canonPair (orbit G x)) := by
        simp only [List.contains_iff_mem, hx, if_false]
      rw [e]
      refine ⟨fun c => ?_, fun h => (ih _).2 (nodup_insertNew h)⟩
      rw [(ih _).1 c, mem_insertNew]
      constructor
      · rintro ((h | h) | ⟨y, hy, h⟩)
        · exact Or.inl h
        · exact Or.inr ⟨x, List.mem_cons_self, hx, h.symm⟩
        · exact Or.inr ⟨y, List.mem_cons_of_mem _ hy, h⟩
      · rintro (h | ⟨y, hy, hnc, h⟩)
        · exact Or.inl (Or.inl h)
        · rcases List.mem_cons.1 hy with rfl | hy
          · exact Or.inl (Or.inr h.symm)
          · exact Or.inr ⟨y, hy, hnc, h⟩

/-- `base` = the set of `{xs, -xs}` for the orbits `xs` of the non-cancelling multi-indices -/
theorem mem_baseSet {X : List (List ℕ)} {c : List Row} :
    c ∈ baseSet G X ↔ ∃ x ∈ X, NonCancel G x ∧ canonPair (orbit G x) = c := by
  unfold baseSet
  rw [(baseSet_fold_spec G X []).1 c]
  simp

theorem nodup_baseSet (G : List SPerm) (X : List (List ℕ)) : (baseSet G X).Nodup :=
  (baseSet_fold_spec G X []).2 List.nodup_nil

theorem mem_reduceCore {r : Row} :
    r ∈ reduceCore G dims ↔ ∃ c ∈ baseSet G (fullBase dims), pickMax c = r := by
  unfold reduceCore
  simp only [List.mem_map, mem_sortBy]

/-! ### rows as signed orbits -/

/-- `r` lists, without repetition, the orbit of `x` with all signs multiplied by `ε` -/
def IsOrbitRow (G : List SPerm) (r : Row) (x : List ℕ) (ε : ℤ) : Prop :=
  r.Nodup ∧ ∀ e : Entry, e ∈ r ↔ Rel G (ε * e.1) x e.2

theorem isOrbitRow_pickMax (G : List SPerm) (x : List ℕ) :
    IsOrbitRow G (pickMax (canonPair (orbit G x))) x 1 ∨
    IsOrbitRow G (pickMax (canonPair (orbit G x))) x (-1) := by
  rcases pickMax_canonPair (orbit G x) with h | h
  · left
    rw [h]
    refine ⟨nodup_sortBy.2 (nodup_orbit G x), fun e => ?_⟩
    rw [mem_sortBy, mem_orbit, one_mul]
  · right
    rw [h]
    refine ⟨nodup_sortBy.2 (nodup_negRow (nodup_orbit G x)), fun e => ?_⟩
    rw [mem_sortBy, mem_negRow, mem_orbit', neg_one_mul]

/-- every row is a signed non-cancelling orbit -/
theorem row_spec {r : Row} (hr : r ∈ reduceCore G dims) :
    ∃ x ∈ fullBase dims, NonCancel G x ∧ ∃ ε : ℤ, (ε = 1 ∨ ε = -1) ∧ IsOrbitRow G r x ε := by
  obtain ⟨c, hc, rfl⟩ := mem_reduceCore.1 hr
  obtain ⟨x, hx, hnc, rfl⟩ := mem_baseSet.1 hc
  refine ⟨x, hx, hnc, ?_⟩
  rcases isOrbitRow_pickMax G x with h | h
  · exact ⟨1, Or.inl rfl, h⟩
  · exact ⟨-1, Or.inr rfl, h⟩

/-- every non-cancelling orbit is a row -/
theorem exists_row {x : List ℕ} (hx : x ∈ fullBase dims) (hnc : NonCancel G x) :
    ∃ r ∈ reduceCore G dims, ∃ ε : ℤ, (ε = 1 ∨ ε = -1) ∧ IsOrbitRow G r x ε := by
  refine ⟨pickMax (canonPair (orbit G x)),
    mem_reduceCore.2 ⟨_, mem_baseSet.2 ⟨x, hx, hnc, rfl⟩, rfl⟩, ?_⟩
  rcases isOrbitRow_pickMax G x with h | h
  · exact ⟨1, Or.inl rfl, h⟩
  · exact ⟨-1, Or.inr rfl, h⟩

namespace IsOrbitRow
variable {r : Row} {x : List ℕ} {ε : ℤ}

theorem base_mem (h : IsOrbitRow G r x ε) (hG : IsSignedGroup n G) (hx : x.length = n)
    (hε : ε = 1 ∨ ε = -1) : (ε, x) ∈ r := by
  rw [h.2]
  show Rel G (ε * ε) x x
  rw [sq_of_sign hε]
  exact Rel.refl hG hx

theorem rel (h : IsOrbitRow G r x ε) (hG : IsSignedGroup n G) (hx : x.length = n)
    (hε : ε = 1 ∨ ε = -1) {e₁ e₂ : Entry} (h1 : e₁ ∈ r) (h2 : e₂ ∈ r) :
    Rel G (e₁.1 * e₂.1) e₁.2 e₂.2 := by
  have := (((h.2 e₁).1 h1).symm hG hx).trans hG ((h.2 e₂).1 h2)
  have e : ε * e₁.1 * (ε * e₂.1) = (ε * ε) * (e₁.1 * e₂.1) := by ring
  rwa [e, sq_of_sign hε, one_mul] at this

theorem closed (h : IsOrbitRow G r x ε) (hG : IsSignedGroup n G) {e : Entry} (he : e ∈ r)
    {a : SPerm} (ha : a ∈ G) : (e.1 * a.1, act e.2 a.2) ∈ r := by
  rw [h.2]
  show Rel G (ε * (e.1 * a.1)) x (act e.2 a.2)
  rw [← mul_assoc]
  exact ((h.2 e).1 he).trans hG ⟨a, ha, rfl, rfl⟩

theorem sign (h : IsOrbitRow G r x ε) (hG : IsSignedGroup n G) (hε : ε = 1 ∨ ε = -1)
    {e : Entry} (he : e ∈ r) : e.1 = 1 ∨ e.1 = -1 := by
  have := ((h.2 e).1 he).sign hG
  rcases hε with rfl | rfl
  · simpa using this
  · rcases this with h1 | h1
    · right; linarith
    · left; linarith

theorem snd_inj (h : IsOrbitRow G r x ε) (hG : IsSignedGroup n G) (hx : x.length = n)
    (hnc : NonCancel G x) (hε : ε = 1 ∨ ε = -1) {e₁ e₂ : Entry} (h1 : e₁ ∈ r) (h2 : e₂ ∈ r)
    (e : e₁.2 = e₂.2) : e₁ = e₂ := by
  have r1 := (h.2 e₁).1 h1
  have r2 := (h.2 e₂).1 h2
  rw [e] at r1
  have := Rel.sign_unique hG hx hnc r1 r2
  have e' : e₁.1 = e₂.1 := by
    rcases hε with rfl | rfl
    · simpa using this
    · linarith
  exact Prod.ext e' e

theorem ne_nil (h : IsOrbitRow G r x ε) (hG : IsSignedGroup n G) (hx : x.length = n)
    (hε : ε = 1 ∨ ε = -1) : r ≠ [] :=
  List.ne_nil_of_mem (h.base_mem hG hx hε)

theorem nodup_support (h : IsOrbitRow G r x ε) (hG : IsSignedGroup n G) (hx : x.length = n)
    (hnc : NonCancel G x) (hε : ε = 1 ∨ ε = -1) : (r.map (·.2)).Nodup :=
  List.Nodup.map_on (fun _ h1 _ h2 e => h.snd_inj hG hx hnc hε h1 h2 e) h.1

end IsOrbitRow

/-! ### `coef` -/

theorem coef_of_mem {r : Row} (hn : (r.map (·.2)).Nodup) {e : Entry} (he : e ∈ r) : coef r e.2 = e.1 := by
  unfold coef
  cases hf : r.find? (fun e' => e'.2 == e.2) with
  | none =>
    rw [List.find?_eq_none] at hf
    exact absurd (by simp) (hf e he)
  | some e' =>
    have h1 : e' ∈ r := List.mem_of_find?_eq_some hf
    have h2 : e'.2 = e.2 := by simpa using List.find?_some hf
    rw [List.inj_on_of_nodup_map hn h1 he h2]

theorem coef_of_not_mem {r : Row} {y : List ℕ} (h : ∀ e ∈ r, e.2 ≠ y) : coef r y = 0 := by
  unfold coef
  have : r.find? (fun e => e.2 == y) = none := by
    rw [List.find?_eq_none]
    intro e he
    simpa using h e he
  rw [this]

/-! ### the main theorems -/

/-- (B) every row of `Q` is non-empty, its entries are `±1` (before the normalisation `1/sqrt(len r)`) at
    pairwise distinct multi-indices of `fullBase dims`: the row of `Q` has unit norm -/
theorem row_entries (hG : IsSignedGroup n G) (hd : dims.length = n) (hc : DimsCompatible G dims) :
    ∀ r ∈ reduceCore G dims,
      r ≠ [] ∧ (∀ e ∈ r, (e.1 = 1 ∨ e.1 = -1) ∧ e.2 ∈ fullBase dims) ∧ (r.map (·.2)).Nodup := by
  intro r hr
  obtain ⟨x, hx, hnc, ε, hε, h⟩ := row_spec hr
  have hxl : x.length = n := (length_of_mem_fullBase hx).trans hd
  refine ⟨h.ne_nil hG hxl hε, fun e he => ⟨h.sign hG hε he, ?_⟩, h.nodup_support hG hxl hnc hε⟩
  exact ((h.2 e).1 he).mem_fullBase hG hd hc hx

/-- two non-cancelling multi-indices in the same orbit produce the same element `{xs, -xs}` of `base` -/
theorem canonPair_eq_of_rel (hG : IsSignedGroup n G) {t : ℤ} {x₁ x₂ : List ℕ} (hx : x₁.length = n)
    (h : Rel G t x₁ x₂) : canonPair (orbit G x₂) = canonPair (orbit G x₁) := by
  rcases h.sign hG with rfl | rfl
  · apply canonPair_congr
    rw [List.perm_ext_iff_of_nodup (nodup_orbit G x₂) (nodup_orbit G x₁)]
    intro e
    rw [mem_orbit, mem_orbit, h.shift hG hx, one_mul]
  · rw [← canonPair_negRow (orbit G x₁)]
    apply canonPair_congr
    rw [List.perm_ext_iff_of_nodup (nodup_orbit G x₂) (nodup_negRow (nodup_orbit G x₁))]
    intro e
    rw [mem_negRow, mem_orbit, mem_orbit', h.shift hG hx, neg_one_mul]

/-- (C) different rows have disjoint supports (with (B): the rows of `Q` are orthonormal) -/
theorem rows_disjoint (hG : IsSignedGroup n G) (hd : dims.length = n) :
    (reduceCore G dims).Pairwise (fun r₁ r₂ => ∀ e₁ ∈ r₁, ∀ e₂ ∈ r₂, e₁.2 ≠ e₂.2) := by
  unfold reduceCore
  simp only
  rw [List.pairwise_map]
  refine ((perm_sortBy _ _).pairwise_iff ?_).2 ?_
  · intro c₁ c₂ h e₁ h1 e₂ h2 e
    exact h e₂ h2 e₁ h1 e.symm
  · refine List.Pairwise.imp_of_mem ?_ (nodup_baseSet G (fullBase dims))
    intro c₁ c₂ hc₁ hc₂ hne e₁ h1 e₂ h2 e
    apply hne
    obtain ⟨x₁, hx₁, -, rfl⟩ := mem_baseSet.1 hc₁
    obtain ⟨x₂, hx₂, -, rfl⟩ := mem_baseSet.1 hc₂
    have hl₁ : x₁.length = n := (length_of_mem_fullBase hx₁).trans hd
    have hl₂ : x₂.length = n := (length_of_mem_fullBase hx₂).trans hd
    have key : ∃ t, Rel G t x₁ x₂ := by
      rcases isOrbitRow_pickMax G x₁ with o1 | o1 <;> rcases isOrbitRow_pickMax G x₂ with o2 | o2
      all_goals
        have r1 := (o1.2 e₁).1 h1
        have r2 := (o2.2 e₂).1 h2
        rw [e] at r1
        exact ⟨_, r1.trans hG (r2.symm hG hl₂)⟩
    obtain ⟨t, ht⟩ := key
    exact (canonPair_eq_of_rel hG hl₁ ht).symm

/-- (D) every row is a `G`-invariant tensor -/
theorem row_invariant (hG : IsSignedGroup n G) (hd : dims.length = n) :
    ∀ r ∈ reduceCore G dims, Invariant G dims (coef r) := by
  intro r hr a ha y hy
  obtain ⟨x, hx, hnc, ε, hε, h⟩ := row_spec hr
  have hxl : x.length = n := (length_of_mem_fullBase hx).trans hd
  have hyl : y.length = n := (length_of_mem_fullBase hy).trans hd
  have hn := h.nodup_support hG hxl hnc hε
  obtain ⟨hap, hal⟩ := hG.isPerm a ha
  by_cases hex : ∃ e ∈ r, e.2 = y
  · obtain ⟨e, he, rfl⟩ := hex
    have h2 := h.closed hG he ha
    rw [coef_of_mem hn he, coef_of_mem hn h2]
    show e.1 = a.1 * (e.1 * a.1)
    have := sq_of_sign (hG.sign a ha)
    calc e.1 = e.1 * (a.1 * a.1) := by rw [this, mul_one]
      _ = a.1 * (e.1 * a.1) := by ring
  · have h0 : ∀ e ∈ r, e.2 ≠ y := fun e he e2 => hex ⟨e, he, e2⟩
    have h1 : ∀ e ∈ r, e.2 ≠ act y a.2 := by
      intro e he e2
      have := h.closed hG he (hG.inv_mem a ha)
      rw [e2] at this
      have e3 : act (act y a.2) (sInv a).2 = y := act_act_inverseRaw hap (by rw [hyl, hal])
      rw [e3] at this
      exact h0 _ this rfl
    rw [coef_of_not_mem h0, coef_of_not_mem h1, mul_zero]

/-- (F) the rows cover exactly the non-cancelling multi-indices: the number of rows is the number of
    non-cancelling orbits -/
theorem support_iff (hG : IsSignedGroup n G) (hd : dims.length = n) :
    ∀ x ∈ fullBase dims,
      (∃ r ∈ reduceCore G dims, ∃ e ∈ r, e.2 = x) ↔ ((-1 : ℤ), x) ∉ orbit G x := by
  intro x hx
  have hxl : x.length = n := (length_of_mem_fullBase hx).trans hd
  constructor
  · rintro ⟨r, hr, e, he, rfl⟩
    obtain ⟨x₀, hx₀, hnc, ε, hε, h⟩ := row_spec hr
    have hl₀ : x₀.length = n := (length_of_mem_fullBase hx₀).trans hd
    exact ((h.2 e).1 he).nonCancel hG hl₀ hnc
  · intro hnc
    obtain ⟨r, hr, ε, hε, h⟩ := exists_row hx hnc
    exact ⟨r, hr, (ε, x), h.base_mem hG hxl hε, rfl⟩

theorem list_sum_eq_zero {l : List ℤ} (h : ∀ v ∈ l, v = 0) : l.sum = 0 := by
  induction l with
  | nil => rfl
  | cons a l ih =>
    rw [List.sum_cons, h a List.mem_cons_self, ih (fun v hv => h v (List.mem_cons_of_mem _ hv)), add_zero]

theorem sum_map_eq_single {α : Type} {D : α → α → Prop} {f : α → ℤ} {l : List α} {r₀ : α}
    (hp : l.Pairwise D) (h0 : r₀ ∈ l) (hz : ∀ r ∈ l, D r₀ r ∨ D r r₀ → f r = 0) :
    (l.map f).sum = f r₀ := by
  induction l with
  | nil => cases h0
  | cons a l ih =>
    rw [List.pairwise_cons] at hp
    rw [List.map_cons, List.sum_cons]
    rcases List.mem_cons.1 h0 with rfl | h0
    · have : (l.map f).sum = 0 := by
        apply list_sum_eq_zero
        intro v hv
        obtain ⟨b, hb, rfl⟩ := List.mem_map.1 hv
        exact hz b (List.mem_cons_of_mem _ hb) (Or.inl (hp.1 b hb))
      rw [this, add_zero]
    · rw [ih hp.2 h0 (fun r hr => hz r (List.mem_cons_of_mem _ hr)),
        hz a List.mem_cons_self (Or.inr (hp.1 r₀ h0)), zero_add]

/-- (E) every `G`-invariant tensor is the combination of the rows with coefficients `rowCoeff T r` -/
theorem rows_complete (hG : IsSignedGroup n G) (hd : dims.length = n) (hc : DimsCompatible G dims) :
    ∀ T, Invariant G dims T → ∀ x ∈ fullBase dims,
      T x = ((reduceCore G dims).map fun r => rowCoeff T r * coef r x).sum := by
  intro T hT x hx
  have hxl : x.length = n := (length_of_mem_fullBase hx).trans hd
  by_cases hnc : ((-1 : ℤ), x) ∈ orbit G x
  · -- cancelling: `T x = - T x`, and no row contains `x`
    obtain ⟨a, ha, ha1, ha2⟩ := mem_orbit'.1 hnc
    have h1 := hT a ha x hx
    rw [ha1, ha2] at h1
    have hT0 : T x = 0 := by linarith
    have : ((reduceCore G dims).map fun r => rowCoeff T r * coef r x).sum = 0 := by
      apply list_sum_eq_zero
      intro v hv
      obtain ⟨r, hr, rfl⟩ := List.mem_map.1 hv
      have : ∀ e ∈ r, e.2 ≠ x := fun e he e2 =>
        ((support_iff hG hd x hx).1 ⟨r, hr, e, he, e2⟩) hnc
      rw [coef_of_not_mem this, mul_zero]
    rw [hT0, this]
  · obtain ⟨r₀, hr₀, ε, hε, h⟩ := exists_row hx hnc
    have hmem : (ε, x) ∈ r₀ := h.base_mem hG hxl hε
    have hn := h.nodup_support hG hxl hnc hε
    rw [sum_map_eq_single (rows_disjoint hG hd) hr₀ (r₀ := r₀)]
    · -- the single remaining term
      have hcoef : coef r₀ x = ε := coef_of_mem hn hmem
      rw [hcoef]
      cases hr : r₀ with
      | nil => exact absurd hr (h.ne_nil hG hxl hε)
      | cons e₀ tl =>
        show T x = e₀.1 * T e₀.2 * ε
        have he₀ : e₀ ∈ r₀ := by rw [hr]; exact List.mem_cons_self
        obtain ⟨a, ha, ha1, ha2⟩ := h.rel hG hxl hε he₀ hmem
        have he₀b : e₀.2 ∈ fullBase dims := ((h.2 e₀).1 he₀).mem_fullBase hG hd hc hx
        have h1 := hT a ha e₀.2 he₀b
        rw [ha1, ha2] at h1
        change T e₀.2 = e₀.1 * ε * T x at h1
        rw [h1]
        have s1 := sq_of_sign (h.sign hG hε he₀)
        have s2 := sq_of_sign hε
        calc T x = (e₀.1 * e₀.1) * (ε * ε) * T x := by rw [s1, s2]; ring
          _ = e₀.1 * (e₀.1 * ε * T x) * ε := by ring
    · intro r hr hD
      have : ∀ e ∈ r, e.2 ≠ x := by
        intro e he e2
        rcases hD with hD | hD
        · exact hD (ε, x) hmem e he e2.symm
        · exact hD e he (ε, x) hmem e2
      rw [coef_of_not_mem this, mul_zero]

theorem sum_indicator {α : Type} (l : List α) (p : α → Prop) [DecidablePred p] :
    (l.map fun x => if p x then (1 : ℤ) else 0).sum = ((l.filter fun x => decide (p x)).length : ℤ) := by
  induction l with
  | nil => rfl
  | cons a l ih =>
    rw [List.map_cons, List.sum_cons, ih]
    by_cases h : p a
    · rw [if_pos h, List.filter_cons_of_pos (by simpa using h), List.length_cons]
      push_cast
      ring
    · rw [if_neg h, List.filter_cons_of_neg (by simpa using h), zero_add]

/-- (B) the squared entries of a row sum to its length: after the normalisation by `1/sqrt(len r)` the
    row of `Q` has norm one -/
theorem coef_sq_sum (hG : IsSignedGroup n G) (hd : dims.length = n) (hc : DimsCompatible G dims) :
    ∀ r ∈ reduceCore G dims, ((fullBase dims).map fun x => coef r x ^ 2).sum = r.length := by
  intro r hr
  obtain ⟨-, hent, hn⟩ := row_entries hG hd hc r hr
  have e1 : ((fullBase dims).map fun x => coef r x ^ 2) =
      (fullBase dims).map fun x => if x ∈ r.map (·.2) then (1 : ℤ) else 0 := by
    apply List.map_congr_left
    intro x _
    by_cases hx : x ∈ r.map (·.2)
    · rw [if_pos hx]
      obtain ⟨e, he, rfl⟩ := List.mem_map.1 hx
      rw [coef_of_mem hn he]
      rcases (hent e he).1 with h | h <;> rw [h] <;> norm_num
    · rw [if_neg hx, coef_of_not_mem (fun e he e2 => hx (List.mem_map.2 ⟨e, he, e2⟩))]
      norm_num
  rw [e1, sum_indicator]
  have hp : ((fullBase dims).filter fun x => decide (x ∈ r.map (·.2))).Perm (r.map (·.2)) := by
    rw [List.perm_ext_iff_of_nodup ((nodup_fullBase dims).filter _) hn]
    intro x
    rw [List.mem_filter, decide_eq_true_eq]
    constructor
    · exact fun h => h.2
    · intro h
      refine ⟨?_, h⟩
      obtain ⟨e, he, rfl⟩ := List.mem_map.1 h
      exact (hent e he).2
  rw [hp.length_eq, List.length_map]

end Group

/-! ### (G) the dimension bookkeeping loop -/

theorem dGet_nil (c : Char) : dGet [] c = none := rfl

theorem dGet_cons (e : Char × ℕ) (d : Dims) (c : Char) :
    dGet (e :: d) c = if e.1 = c then some e.2 else dGet d c := by
  unfold dGet
  rw [List.find?_cons]
  by_cases h : e.1 = c
  · simp [h]
  · have : (e.1 == c) = false := by simpa using h
    simp [this, h]

theorem dGet_append (d₁ d₂ : Dims) (c : Char) : dGet (d₁ ++ d₂) c = (dGet d₁ c).or (dGet d₂ c) := by
  induction d₁ with
  | nil => simp [dGet_nil]
  | cons e d ih =>
    rw [List.cons_append, dGet_cons, dGet_cons, ih]
    split_ifs <;> simp

theorem any_key (d : Dims) (c : Char) : (d.any fun e => e.1 == c) = (dGet d c).isSome := by
  induction d with
  | nil => rfl
  | cons e d ih =>
    rw [List.any_cons, dGet_cons, ih]
    by_cases h : e.1 = c <;> simp [h]

theorem dGet_map_set (d : Dims) (c c' : Char) (v : ℕ) :
    dGet (d.map fun e => if e.1 == c then (c, v) else e) c' =
      if c' = c then (dGet d c).map (fun _ => v) else dGet d c' := by
  induction d with
  | nil => simp [dGet_nil]
  | cons e d ih =>
    rw [List.map_cons, dGet_cons, ih, dGet_cons, dGet_cons]
    by_cases h1 : e.1 = c <;> by_cases h2 : c' = c
    · subst h1; subst h2; simp
    · subst h1; simp [h2, Ne.symm h2]
    · subst h2; simp [h1]
    · simp [h1, h2]

theorem dGet_dSet (d : Dims) (c c' : Char) (v : ℕ) :
    dGet (dSet d c v) c' = if c' = c then some v else dGet d c' := by
  unfold dSet
  rw [any_key]
  cases h : dGet d c with
  | none =>
    simp only [Option.isSome_none, Bool.false_eq_true, if_false]
    rw [dGet_append, dGet_cons, dGet_nil]
    by_cases h2 : c' = c
    · subst h2; simp [h]
    · simp [h2, Ne.symm h2]
  | some w =>
    simp only [Option.isSome_some, if_true]
    rw [dGet_map_set, h]
    simp

/-- successful step of the inner loop: the two dimensions do not conflict, and afterwards both indices carry
    the dimension that was known for one of them; nothing else changes -/
theorem dimsPair_ok {d d' : Dims} {i j : Char} (h : dimsPair d (i, j) = .ok d') :
    (∀ a b, dGet d i = some a → dGet d j = some b → a = b) ∧
    ∀ c, dGet d' c = if c = i ∨ c = j then (dGet d i).or (dGet d j) else dGet d c := by
  unfold dimsPair at h
  simp only at h
  cases hi : dGet d i with
  | none =>
    cases hj : dGet d j with
    | none =>
      rw [hi, hj] at h
      simp only [Except.ok.injEq] at h
      subst h
      refine ⟨fun a b h1 => (by cases h1), fun c => ?_⟩
      split_ifs with hc
      · rcases hc with rfl | rfl
        · rw [hi]; rfl
        · rw [hj]; rfl
      · rfl
    | some b =>
      rw [hi, hj] at h
      simp only [Except.ok.injEq] at h
      subst h
      refine ⟨fun a b h1 => (by cases h1), fun c => ?_⟩
      rw [dGet_dSet]
      by_cases h1 : c = i
      · simp [h1]
      · by_cases h2 : c = j
        · simp [h2, hj]
        · simp [h1, h2]
  | some a =>
    cases hj : dGet d j with
    | none =>
      rw [hi, hj] at h
      simp only [Except.ok.injEq] at h
      subst h
      refine ⟨fun a b _ h2 => (by cases h2), fun c => ?_⟩
      rw [dGet_dSet, dGet_dSet]
      by_cases h1 : c = i
      · simp [h1]
      · by_cases h2 : c = j
        · simp [h2]
        · simp [h1, h2]
    | some b =>
      rw [hi, hj] at h
      simp only at h
      by_cases hab : a = b
      · subst hab
        simp only [bne_self_eq_false, Bool.false_eq_true, if_false, Except.ok.injEq] at h
        subst h
        refine ⟨fun a' b' h1 h2 => (by cases h1; cases h2; rfl), fun c => ?_⟩
        rw [dGet_dSet, dGet_dSet]
        by_cases h1 : c = i
        · simp [h1]
        · by_cases h2 : c = j
          · simp [h2]
          · simp [h1, h2]
      · have : (a != b) = true := by simpa using hab
        rw [this] at h
        simp at h

theorem dimsPairs_nil (d : Dims) : dimsPairs d [] = .ok d := rfl

theorem dimsPairs_cons (d : Dims) (ij : Char × Char) (L : List (Char × Char)) :
    dimsPairs d (ij :: L) = match dimsPair d ij with
      | .error e => .error e
      | .ok d' => dimsPairs d' L := rfl

theorem dimsPairs_append (d : Dims) (L₁ L₂ : List (Char × Char)) :
    dimsPairs d (L₁ ++ L₂) = match dimsPairs d L₁ with
      | .error e => .error e
      | .ok d' => dimsPairs d' L₂ := by
  induction L₁ generalizing d with
  | nil => rfl
  | cons ij L ih =>
    rw [List.cons_append, dimsPairs_cons, dimsPairs_cons]
    cases dimsPair d ij with
    | error e => rfl
    | ok d' => exact ih d'

/-- the double loop of `reduce_permutation` is one loop over the concatenated pairs -/
theorem dimsLoop_eq (f0 : List Char) (d : Dims) (G : List SPerm) :
    dimsLoop f0 d G =
      dimsPairs d (G.flatMap fun a => f0.zip (a.2.map fun i => f0.getD i ' ')) := by
  induction G generalizing d with
  | nil => rfl
  | cons a G ih =>
    obtain ⟨s, p⟩ := a
    rw [List.flatMap_cons, dimsPairs_append]
    show (match dimsPairs d (f0.zip (p.map fun i => f0.getD i ' ')) with
      | .error e => .error e
      | .ok d' => dimsLoop f0 d' G : Except Err Dims) = _
    cases dimsPairs d (f0.zip (p.map fun i => f0.getD i ' ')) with
    | error e => rfl
    | ok d' => exact ih d'

/-- `d'` extends `d`: dimensions, once known, never change -/
def DLe (d d' : Dims) : Prop := ∀ c v, dGet d c = some v → dGet d' c = some v

theorem DLe.refl (d : Dims) : DLe d d := fun _ _ h => h
theorem DLe.trans {d₁ d₂ d₃ : Dims} (h1 : DLe d₁ d₂) (h2 : DLe d₂ d₃) : DLe d₁ d₃ :=
  fun c v h => h2 c v (h1 c v h)

theorem dimsPair_le {d d' : Dims} {i j : Char} (h : dimsPair d (i, j) = .ok d') : DLe d d' := by
  obtain ⟨h1, h2⟩ := dimsPair_ok h
  intro c v hc
  rw [h2]
  split_ifs with hij
  · rcases hij with rfl | rfl
    · rw [hc]; rfl
    · cases hi : dGet d i with
      | none => rw [hc]; rfl
      | some a => rw [h1 a v hi hc]; rfl
  · exact hc

/-- a successful run of the loop only extends `d`, and no processed pair had conflicting dimensions in `d` -/
theorem dimsPairs_spec {L : List (Char × Char)} {d d' : Dims} (h : dimsPairs d L = .ok d') :
    DLe d d' ∧ ∀ ij ∈ L, ∀ a b, dGet d ij.1 = some a → dGet d ij.2 = some b → a = b := by
  induction L generalizing d with
  | nil =>
    rw [dimsPairs_nil] at h
    cases h
    exact ⟨DLe.refl _, fun _ h => by cases h⟩
  | cons ij L ih =>
    rw [dimsPairs_cons] at h
    cases h1 : dimsPair d ij with
    | error e => rw [h1] at h; cases h
    | ok d₁ =>
      rw [h1] at h
      simp only at h
      obtain ⟨i, j⟩ := ij
      have hle := dimsPair_le h1
      obtain ⟨ih1, ih2⟩ := ih h
      refine ⟨hle.trans ih1, ?_⟩
      intro kl hkl a b ha hb
      rcases List.mem_cons.1 hkl with rfl | hkl
      · exact (dimsPair_ok h1).1 a b ha hb
      · exact ih2 kl hkl a b (hle _ _ ha) (hle _ _ hb)

/-- indices related by `E` have the same dimension (as far as both are known) -/
def DConsistent (E : Char → Char → Prop) (d : Dims) : Prop :=
  ∀ c c' a b, E c c' → dGet d c = some a → dGet d c' = some b → a = b

theorem or_eq_some {o₁ o₂ : Option ℕ} {a : ℕ} (h : o₁.or o₂ = some a) : o₁ = some a ∨ o₂ = some a := by
  cases o₁ with
  | none => right; simpa using h
  | some v => left; simpa using h

theorem dimsPair_consistent {E : Char → Char → Prop} (hs : ∀ u v, E u v → E v u)
    (ht : ∀ u v w, E u v → E v w → E u w) {d d' : Dims} {i j : Char} (hij : E i j)
    (h : dimsPair d (i, j) = .ok d') (hJ : DConsistent E d) : DConsistent E d' := by
  obtain ⟨hno, hd'⟩ := dimsPair_ok h
  have hpair : ∀ u v, (u = i ∨ u = j) → (v = i ∨ v = j) → u ≠ v → E u v := by
    rintro u v (rfl | rfl) (rfl | rfl) hne
    · exact absurd rfl hne
    · exact hij
    · exact hs _ _ hij
    · exact absurd rfl hne
  have hsrc : ∀ a, (dGet d i).or (dGet d j) = some a → ∃ w, (w = i ∨ w = j) ∧ dGet d w = some a := by
    intro a ha
    rcases or_eq_some ha with h1 | h1
    · exact ⟨i, Or.inl rfl, h1⟩
    · exact ⟨j, Or.inr rfl, h1⟩
  intro c c' a b hE h1 h2
  rw [hd'] at h1 h2
  by_cases hc : c = i ∨ c = j <;> by_cases hc' : c' = i ∨ c' = j
  · rw [if_pos hc] at h1
    rw [if_pos hc', h1] at h2
    exact Option.some.inj h2
  · rw [if_pos hc] at h1
    rw [if_neg hc'] at h2
    obtain ⟨w, hw, hdw⟩ := hsrc a h1
    by_cases hwc : w = c
    · subst hwc; exact hJ _ _ a b hE hdw h2
    · exact hJ _ _ a b (ht _ _ _ (hpair w c hw hc hwc) hE) hdw h2
  · rw [if_neg hc] at h1
    rw [if_pos hc'] at h2
    obtain ⟨w, hw, hdw⟩ := hsrc b h2
    by_cases hwc : c' = w
    · subst hwc; exact hJ _ _ a b hE h1 hdw
    · exact hJ _ _ a b (ht _ _ _ hE (hpair c' w hc' hw hwc)) h1 hdw
  · rw [if_neg hc] at h1
    rw [if_neg hc'] at h2
    exact hJ _ _ a b hE h1 h2

theorem dimsPairs_consistent {E : Char → Char → Prop} (hs : ∀ u v, E u v → E v u)
    (ht : ∀ u v w, E u v → E v w → E u w) {L : List (Char × Char)} (hL : ∀ ij ∈ L, E ij.1 ij.2)
    {d d' : Dims} (h : dimsPairs d L = .ok d') (hJ : DConsistent E d) : DConsistent E d' := by
  induction L generalizing d with
  | nil =>
    rw [dimsPairs_nil] at h
    cases h
    exact hJ
  | cons ij L ih =>
    rw [dimsPairs_cons] at h
    cases h1 : dimsPair d ij with
    | error e => rw [h1] at h; cases h
    | ok d₁ =>
      rw [h1] at h
      simp only at h
      obtain ⟨i, j⟩ := ij
      exact ih (fun kl hkl => hL kl (List.mem_cons_of_mem _ hkl)) h
        (dimsPair_consistent hs ht (hL (i, j) List.mem_cons_self) h1 hJ)

/-- if every pair of `E`-related indices is processed by the loop, a successful run ends in a consistent state -/
theorem dimsPairs_final_consistent {E : Char → Char → Prop} (hs : ∀ u v, E u v → E v u)
    (ht : ∀ u v w, E u v → E v w → E u w) {L : List (Char × Char)}
    (hL : ∀ ij : Char × Char, ij ∈ L ↔ E ij.1 ij.2)
    {d d' : Dims} (h : dimsPairs d L = .ok d') : DConsistent E d' := by
  refine dimsPairs_consistent hs ht (fun ij hij => (hL ij).1 hij) h ?_
  intro c c' a b hE h1 h2
  exact (dimsPairs_spec h).2 (c, c') ((hL (c, c')).2 hE) a b h1 h2

/-- the index characters `c`, `c'` of `f0` are exchanged by some group element: `c = f0[k]`, `c' = f0[p[k]]` -/
def IdxRel (f0 : List Char) (G : List SPerm) (c c' : Char) : Prop :=
  ∃ a ∈ G, ∃ k, k < f0.length ∧ f0.getD k ' ' = c ∧ f0.getD (a.2.getD k 0) ' ' = c'

theorem getD_char_of_lt {l : List Char} {i : ℕ} (h : i < l.length) : l.getD i ' ' = l[i] := by
  simp [List.getD_eq_getElem?_getD, h]

theorem mem_zip_iff_getD {f0 : List Char} {p : List ℕ} (hp : p.length = f0.length) {c c' : Char} :
    (c, c') ∈ f0.zip (p.map fun i => f0.getD i ' ') ↔
      ∃ k, k < f0.length ∧ f0.getD k ' ' = c ∧ f0.getD (p.getD k 0) ' ' = c' := by
  rw [List.mem_iff_getElem]
  constructor
  · rintro ⟨k, hk, e⟩
    have hk1 : k < f0.length := by
      rw [List.length_zip] at hk; omega
    have hk2 : k < p.length := by omega
    rw [List.getElem_zip, Prod.mk.injEq, List.getElem_map] at e
    refine ⟨k, hk1, ?_, ?_⟩
    · rw [getD_char_of_lt hk1]; exact e.1
    · rw [getD_of_lt hk2]; exact e.2
  · rintro ⟨k, hk1, e1, e2⟩
    have hk2 : k < p.length := by omega
    refine ⟨k, by rw [List.length_zip, List.length_map]; omega, ?_⟩
    rw [List.getElem_zip, Prod.mk.injEq, List.getElem_map]
    refine ⟨?_, ?_⟩
    · rw [← e1, getD_char_of_lt hk1]
    · rw [← e2, getD_of_lt hk2]

theorem mem_pairs_iff {f0 : List Char} {G : List SPerm} (hG : IsSignedGroup f0.length G)
    (ij : Char × Char) :
    ij ∈ (G.flatMap fun a => f0.zip (a.2.map fun i => f0.getD i ' ')) ↔ IdxRel f0 G ij.1 ij.2 := by
  obtain ⟨c, c'⟩ := ij
  rw [List.mem_flatMap]
  constructor
  · rintro ⟨a, ha, h⟩
    exact ⟨a, ha, (mem_zip_iff_getD (hG.isPerm a ha).2).1 h⟩
  · rintro ⟨a, ha, h⟩
    exact ⟨a, ha, (mem_zip_iff_getD (hG.isPerm a ha).2).2 h⟩

theorem IdxRel.symm {f0 : List Char} {G : List SPerm} (hG : IsSignedGroup f0.length G)
    {c c' : Char} (h : IdxRel f0 G c c') : IdxRel f0 G c' c := by
  obtain ⟨a, ha, k, hk, rfl, rfl⟩ := h
  obtain ⟨hp, hl⟩ := hG.isPerm a ha
  have hk' : k < a.2.length := by omega
  refine ⟨sInv a, hG.inv_mem a ha, a.2.getD k 0, by rw [← hl]; exact hp.getD_lt hk', rfl, ?_⟩
  show f0.getD ((inverseRaw a.2).getD (a.2.getD k 0) 0) ' ' = _
  have : (inverseRaw a.2).getD (a.2.getD k 0) 0 = k := by
    rw [← getD_composeRaw (by simpa using hk'), inverseRaw_composeRaw hp, getD_identity hk']
  rw [this]

theorem IdxRel.trans {f0 : List Char} {G : List SPerm} (hG : IsSignedGroup f0.length G) (hf : f0.Nodup)
    {c c' c'' : Char} (h1 : IdxRel f0 G c c') (h2 : IdxRel f0 G c' c'') : IdxRel f0 G c c'' := by
  obtain ⟨a, ha, k, hk, rfl, rfl⟩ := h1
  obtain ⟨b, hb, k', hk', e, rfl⟩ := h2
  obtain ⟨hap, hal⟩ := hG.isPerm a ha
  obtain ⟨hbp, hbl⟩ := hG.isPerm b hb
  have hka : k < a.2.length := by omega
  have hak : a.2.getD k 0 < f0.length := by rw [← hal]; exact hap.getD_lt hka
  have ek : k' = a.2.getD k 0 := by
    rw [getD_char_of_lt hk', getD_char_of_lt hak] at e
    exact (List.Nodup.getElem_inj_iff hf).1 e
  subst ek
  refine ⟨sMul b a, hG.mul_mem b hb a ha, k, hk, rfl, ?_⟩
  show f0.getD ((composeRaw b.2 a.2).getD k 0) ' ' = _
  rw [getD_composeRaw (by omega)]

/-- (G) when the dimension bookkeeping of `reduce_permutation` succeeds, the resulting `dims` list is
    compatible with the group: indices exchanged by a group element have the same dimension -/
theorem reducePermutation_dims {f0 : List Char} {G : List SPerm} {dims0 : Dims} {out : Out}
    (h : reducePermutation f0 G dims0 = .ok out) (hG : IsSignedGroup f0.length G) (hf : f0.Nodup) :
    DimsCompatible G out.dims ∧ out.dims.length = f0.length := by
  unfold reducePermutation at h
  cases hl : dimsLoop f0 dims0 G with
  | error e => rw [hl] at h; cases h
  | ok d =>
    rw [hl] at h
    simp only at h
    by_cases hall : (f0.all fun c => (dGet d c).isSome) = true
    · rw [hall] at h
      simp only [Bool.not_true, Bool.false_eq_true, if_false, Except.ok.injEq] at h
      subst h
      rw [List.all_eq_true] at hall
      rw [dimsLoop_eq] at hl
      have hJ : DConsistent (IdxRel f0 G) d :=
        dimsPairs_final_consistent (fun _ _ h => h.symm hG) (fun _ _ _ h1 h2 => h1.trans hG hf h2)
          (mem_pairs_iff hG) hl
      refine ⟨?_, by simp⟩
      intro a ha
      obtain ⟨hp, hal⟩ := hG.isPerm a ha
      show act (f0.map fun c => (dGet d c).getD 0) a.2 = f0.map fun c => (dGet d c).getD 0
      have hget : ∀ m, m < f0.length →
          (f0.map fun c => (dGet d c).getD 0).getD m 0 = (dGet d (f0.getD m ' ')).getD 0 := by
        intro m hm
        rw [getD_of_lt (by simpa using hm), List.getElem_map, getD_char_of_lt hm]
      apply ext_getD (by rw [length_act, List.length_map, hal])
      intro k hk
      rw [length_act] at hk
      have hk' : k < f0.length := by omega
      have hpk : a.2.getD k 0 < f0.length := by rw [← hal]; exact hp.getD_lt hk
      rw [getD_act hk, hget _ hpk, hget _ hk']
      have m1 : f0.getD k ' ' ∈ f0 := by
        rw [getD_char_of_lt hk']; exact List.getElem_mem _
      have m2 : f0.getD (a.2.getD k 0) ' ' ∈ f0 := by
        rw [getD_char_of_lt hpk]; exact List.getElem_mem _
      obtain ⟨v1, hv1⟩ := Option.isSome_iff_exists.1 (hall _ m1)
      obtain ⟨v2, hv2⟩ := Option.isSome_iff_exists.1 (hall _ m2)
      rw [hv1, hv2, hJ _ _ v1 v2 ⟨a, ha, k, hk', rfl, rfl⟩ hv1 hv2]
    · have : (f0.all fun c => (dGet d c).isSome) = false := by simpa using hall
      rw [this] at h
      simp at h

/-! ### the hypotheses are satisfiable: `ij=-ji` with `i, j ∈ range(3)` -/

example : IsSignedGroup 2 [((1 : ℤ), [0, 1]), ((-1 : ℤ), [1, 0])] where
  one_mem := by decide
  isPerm := by
    intro a ha
    simp only [List.mem_cons, List.not_mem_nil, or_false] at ha
    rcases ha with rfl | rfl
    · exact ⟨isPerm_iff.1 (by decide), rfl⟩
    · exact ⟨isPerm_iff.1 (by decide), rfl⟩
  sign := by decide
  inv_mem := by decide
  mul_mem := by decide

example : DimsCompatible [((1 : ℤ), [0, 1]), ((-1 : ℤ), [1, 0])] [3, 3] := by
  unfold DimsCompatible; decide

end E3nnVerif.ReduceModel
