import Mathlib.Analysis.SpecialFunctions.SmoothTransition
import Mathlib.Algebra.Order.Floor.Semiring
import Mathlib.Analysis.Complex.ExponentialBounds
import E3nnVerif.Theory.ScalarReal
import E3nnVerif.Model.Radial
/-
C16 helper lemmas: the ℝ-instance of the model in closed form.
-/
namespace E3nnVerif.Radial
open Scalar

theorem ofInt_real (i : Int) : (Scalar.ofInt i : ℝ) = (i : ℝ) := by
  cases i with
  | ofNat n => simp [Scalar.ofInt]
  | negSucc n => simp [Scalar.ofInt, Int.negSucc_eq]

theorem ofFrac_real (n : Int) (d : Nat) : (Scalar.ofFrac n d : ℝ) = (n : ℝ) / (d : ℝ) := by
  simp [Scalar.ofFrac, ofInt_real]

theorem softUnitStep_real (x : ℝ) : softUnitStep x = if 0 < x then Real.exp (-1 / x) else 0 := by
  simp [softUnitStep]

theorem softUnitStep_eq_glue (x : ℝ) : softUnitStep x = expNegInvGlue x := by
  rw [softUnitStep_real, expNegInvGlue]
  by_cases h : 0 < x
  · simp [h, not_le.mpr h, div_eq_mul_inv]
  · simp [h, not_lt.mp h]

theorem softUnitStepGrad_real (x : ℝ) :
    softUnitStepGrad x = if 0 < x then Real.exp (-1 / x) / x ^ 2 else 0 := by
  simp [softUnitStepGrad, sq]

theorem hasDerivAt_softUnitStep (x : ℝ) : HasDerivAt (softUnitStep : ℝ → ℝ) (softUnitStepGrad x) x := by
  have h := expNegInvGlue.hasDerivAt_polynomial_eval_inv_mul 1 x
  have hf : (softUnitStep : ℝ → ℝ) = fun x => (1 : Polynomial ℝ).eval x⁻¹ * expNegInvGlue x := by
    funext y; simp [softUnitStep_eq_glue]
  rw [hf]
  convert h using 1
  rw [softUnitStepGrad_real]
  by_cases hx : 0 < x
  · simp [hx, expNegInvGlue, not_le.mpr hx, div_eq_mul_inv]; ring
  · simp [hx, expNegInvGlue.zero_of_nonpos (not_lt.mp hx)]
theorem linspaceAt_real (start stop : ℝ) (steps i : ℕ) (hs : 2 ≤ steps) (hi : i < steps) :
    linspaceAt start stop steps i = start + (i : ℝ) * ((stop - start) / ((steps : ℝ) - 1)) := by
  have h1 : steps ≠ 1 := by omega
  have hc : ((steps - 1 : ℕ) : ℝ) = (steps : ℝ) - 1 := by
    rw [Nat.cast_sub (by omega)]; simp
  have hne : (steps : ℝ) - 1 ≠ 0 := by
    have : (2 : ℝ) ≤ steps := by exact_mod_cast hs
    linarith
  simp only [linspaceAt, h1, if_false, Scalar.ofNat_real, hc]
  split
  · ring
  · have hc2 : ((steps - i - 1 : ℕ) : ℝ) = (steps : ℝ) - i - 1 := by
      rw [Nat.sub_sub, Nat.cast_sub (by omega)]; push_cast; ring
    rw [hc2]; field_simp; ring

/-- the real step: `(end - start) / (number - 1)`, resp. `/ (number + 1)` with cutoff -/
noncomputable def realStep (start stop : ℝ) (number : ℕ) (cutoff : Bool) : ℝ :=
  if cutoff then (stop - start) / ((number : ℝ) + 1) else (stop - start) / ((number : ℝ) - 1)

theorem stepOf_real (start stop : ℝ) (number : ℕ) (cutoff : Bool) (hn : 2 ≤ number) :
    stepOf start stop number cutoff = realStep start stop number cutoff := by
  cases cutoff
  · simp only [stepOf, linSteps, realStep, Bool.false_eq_true, if_false]
    rw [linspaceAt_real _ _ _ _ hn (by omega), linspaceAt_real _ _ _ _ hn (by omega)]
    push_cast; ring
  · simp only [stepOf, linSteps, realStep, if_true]
    rw [linspaceAt_real _ _ _ _ (by omega) (by omega), linspaceAt_real _ _ _ _ (by omega) (by omega)]
    push_cast; ring

theorem center_real (start stop : ℝ) (number : ℕ) (cutoff : Bool) (hn : 2 ≤ number) (i : ℕ)
    (hi : i < number) :
    center start stop number cutoff i
      = start + ((i : ℝ) + (if cutoff then 1 else 0)) * realStep start stop number cutoff := by
  cases cutoff
  · simp only [center, linSteps, realStep, Bool.false_eq_true, if_false]
    rw [linspaceAt_real _ _ _ _ hn hi]; ring
  · simp only [center, linSteps, realStep, if_true]
    rw [linspaceAt_real _ _ _ _ (by omega) (by omega)]
    push_cast; ring

theorem realStep_pos (start stop : ℝ) (number : ℕ) (cutoff : Bool) (hn : 2 ≤ number) (h : start < stop) :
    0 < realStep start stop number cutoff := by
  have : (2 : ℝ) ≤ number := by exact_mod_cast hn
  cases cutoff <;> simp only [realStep, Bool.false_eq_true, if_false, if_true] <;>
    apply div_pos <;> linarith


theorem diffAt_real (start stop : ℝ) (number : ℕ) (cutoff : Bool) (hn : 2 ≤ number) (x : ℝ) (i : ℕ)
    (hi : i < number) :
    diffAt start stop number cutoff x i
      = (x - (start + ((i : ℝ) + (if cutoff then 1 else 0)) * realStep start stop number cutoff))
          / realStep start stop number cutoff := by
  rw [diffAt, stepOf_real _ _ _ _ hn, center_real _ _ _ _ hn i hi]

theorem stop_eq_cutoff (start stop : ℝ) (number : ℕ) :
    stop = start + ((number : ℝ) + 1) * realStep start stop number true := by
  have : (number : ℝ) + 1 ≠ 0 := by positivity
  simp only [realStep, if_true]; field_simp; ring

theorem diffAt_le_neg_one (start stop : ℝ) (number : ℕ) (hn : 2 ≤ number) (h : start < stop)
    (x : ℝ) (hx : x ≤ start) (i : ℕ) (hi : i < number) :
    diffAt start stop number true x i ≤ -1 := by
  have hs := realStep_pos start stop number true hn h
  rw [diffAt_real _ _ _ _ hn x i hi, div_le_iff₀ hs]
  simp only [if_true]
  have : 0 ≤ (i : ℝ) * realStep start stop number true := by positivity
  nlinarith

theorem one_le_diffAt (start stop : ℝ) (number : ℕ) (hn : 2 ≤ number) (h : start < stop)
    (x : ℝ) (hx : stop ≤ x) (i : ℕ) (hi : i < number) :
    1 ≤ diffAt start stop number true x i := by
  have hs := realStep_pos start stop number true hn h
  rw [diffAt_real _ _ _ _ hn x i hi, le_div_iff₀ hs]
  simp only [if_true]
  have h2 := stop_eq_cutoff start stop number
  have : (i : ℝ) + 1 ≤ number := by exact_mod_cast hi
  nlinarith

theorem mask_real (b : Bool) : (mask b : ℝ) = if b then 1 else 0 := by
  cases b <;> simp [mask]

theorem cosineOf_real (d : ℝ) :
    cosineOf d = if -1 < d ∧ d < 1 then Real.cos (Real.pi / 2 * d) else 0 := by
  by_cases h1 : d < 1 <;> by_cases h2 : -1 < d <;> simp [cosineOf, mask, h1, h2]

theorem smoothFiniteWith_real (sfc d : ℝ) :
    smoothFiniteWith sfc d = sfc * expNegInvGlue (d + 1) * expNegInvGlue (1 - d) := by
  simp [smoothFiniteWith, softUnitStep_eq_glue]

theorem smoothFiniteConst_real : (smoothFiniteConst : ℝ) = 114136 / 100000 * Real.exp 2 := by
  simp [smoothFiniteConst, ofFrac_real]

theorem smoothFiniteOf_real (d : ℝ) :
    smoothFiniteOf d = 114136 / 100000 * Real.exp 2 * expNegInvGlue (d + 1) * expNegInvGlue (1 - d) := by
  rw [smoothFiniteOf, smoothFiniteWith_real, smoothFiniteConst_real]

theorem cosineOf_eq_zero {d : ℝ} (h : d ≤ -1 ∨ 1 ≤ d) : cosineOf d = 0 := by
  rw [cosineOf_real, if_neg]; rintro ⟨h1, h2⟩; rcases h with h | h <;> linarith

theorem smoothFiniteOf_eq_zero {d : ℝ} (h : d ≤ -1 ∨ 1 ≤ d) : smoothFiniteOf d = 0 := by
  rw [smoothFiniteOf_real]
  rcases h with h | h
  · rw [expNegInvGlue.zero_of_nonpos (by linarith)]; ring
  · rw [expNegInvGlue.zero_of_nonpos (x := 1 - d) (by linarith)]; ring

theorem fourierAt_cutoff_real (start stop : ℝ) (number : ℕ) (x : ℝ) (i : ℕ) :
    fourierAt start stop number true x i
      = if 0 < (x - start) / (stop - start) ∧ (x - start) / (stop - start) < 1 then
          Real.sin (Real.pi * ((i : ℝ) + 1) * ((x - start) / (stop - start)))
            / Real.sqrt (1 / 4 + (number : ℝ) / 2)
        else 0 := by
  by_cases h1 : 0 < (x - start) / (stop - start) <;> by_cases h2 : (x - start) / (stop - start) < 1 <;>
    simp [fourierAt, fourierNorm, mask, h1, h2, ofFrac_real]

theorem fourierAt_nocutoff_real (start stop : ℝ) (number : ℕ) (x : ℝ) (i : ℕ) :
    fourierAt start stop number false x i
      = Real.cos (Real.pi * (i : ℝ) * ((x - start) / (stop - start)))
            / Real.sqrt (1 / 4 + (number : ℝ) / 2) := by
  simp [fourierAt, fourierNorm, ofFrac_real]

theorem besselAt_cutoff_real (start stop : ℝ) (x : ℝ) (i : ℕ) :
    besselAt start stop true x i
      = if 0 < x - start ∧ (x - start) / (stop - start) < 1 then
          Real.sqrt (2 / (stop - start)) * Real.sin (((i : ℝ) + 1) * Real.pi * (x - start) / (stop - start))
            / (x - start)
        else 0 := by
  by_cases h1 : 0 < x - start <;> by_cases h2 : (x - start) / (stop - start) < 1 <;>
    simp [besselAt, besselDenom, mask, h1, h2]


theorem sumSq_append_singleton (l : List ℝ) (a : ℝ) : sumSq (l ++ [a]) = sumSq l + a ^ 2 := by
  induction l with
  | nil => simp [sumSq]; ring
  | cons b l ih =>
    simp only [sumSq, List.cons_append, List.foldr_cons] at ih ⊢
    rw [ih]; ring

theorem sumSq_map_range (f : ℕ → ℝ) (n : ℕ) :
    sumSq ((List.range n).map f) = ∑ i ∈ Finset.range n, f i ^ 2 := by
  induction n with
  | zero => simp [sumSq]
  | succ n ih => rw [List.range_succ, List.map_append, List.map_singleton, sumSq_append_singleton, ih,
      Finset.sum_range_succ]

/-- the partition of unity behind the cosine basis -/
theorem cosine_partition (n : ℕ) (t : ℝ) (h0 : 0 ≤ t) (h1 : t ≤ (n : ℝ) - 1) :
    ∑ i ∈ Finset.range n, cosineOf (t - (i : ℝ)) ^ 2 = 1 := by
  obtain ⟨k, hk⟩ : ∃ k : ℕ, (k : ℝ) ≤ t ∧ t < k + 1 :=
    ⟨⌊t⌋₊, Nat.floor_le h0, Nat.lt_floor_add_one t⟩
  have hkn : k < n := by
    have : (k : ℝ) < n := by linarith [hk.1]
    exact_mod_cast this
  rcases eq_or_lt_of_le hk.1 with heq | hlt
  · -- t is the centre k: a single non-zero term
    rw [Finset.sum_eq_single k]
    · rw [← heq, sub_self, cosineOf_real]; simp
    · intro i _ hik
      have : cosineOf (t - (i : ℝ)) = 0 := by
        apply cosineOf_eq_zero
        rcases Nat.lt_or_gt_of_ne hik with h | h
        · right
          have : (i : ℝ) + 1 ≤ k := by exact_mod_cast h
          linarith
        · left
          have : (k : ℝ) + 1 ≤ i := by exact_mod_cast h
          linarith
      rw [this]; ring
    · intro h; exact absurd (Finset.mem_range.mpr hkn) h
  · -- strictly between the centres k and k+1
    have hk1 : k + 1 < n := by
      have : (k : ℝ) + 1 < n := by linarith
      exact_mod_cast this
    rw [Finset.sum_eq_add k (k + 1) (by omega)]
    · rw [cosineOf_real, cosineOf_real, if_pos ⟨by linarith, by linarith [hk.2]⟩,
        if_pos ⟨by push_cast; linarith [hk.2], by push_cast; linarith⟩]
      have : Real.pi / 2 * (t - ((k + 1 : ℕ) : ℝ)) = Real.pi / 2 * (t - k) - Real.pi / 2 := by
        push_cast; ring
      rw [this, Real.cos_sub_pi_div_two]
      exact Real.cos_sq_add_sin_sq _
    · intro i _ ⟨hik, hik1⟩
      have : cosineOf (t - (i : ℝ)) = 0 := by
        apply cosineOf_eq_zero
        rcases Nat.lt_or_gt_of_ne hik with h | h
        · right
          have : (i : ℝ) + 1 ≤ k := by exact_mod_cast h
          linarith
        · left
          have : (k : ℝ) + 2 ≤ i := by
            have : k + 2 ≤ i := by omega
            exact_mod_cast this
          linarith [hk.2]
      rw [this]; ring
    · intro h; exact absurd (Finset.mem_range.mpr hkn) h
    · intro h; exact absurd (Finset.mem_range.mpr hk1) h

open scoped ContDiff

theorem softUnitStep_fun_eq : (softUnitStep : ℝ → ℝ) = expNegInvGlue := funext softUnitStep_eq_glue

theorem contDiff_softUnitStep : ContDiff ℝ ∞ (softUnitStep : ℝ → ℝ) := by
  rw [softUnitStep_fun_eq]; exact expNegInvGlue.contDiff

/-- one smooth_finite bump as a function of `x`, centre `c`, width `s` -/
theorem contDiff_smoothFinite_bump (c s : ℝ) :
    ContDiff ℝ ∞ (fun x : ℝ => smoothFiniteOf ((x - c) / s)) := by
  simp only [smoothFiniteOf_real]
  have h1 : ContDiff ℝ ∞ (fun x : ℝ => (x - c) / s + 1) := by fun_prop
  have h2 : ContDiff ℝ ∞ (fun x : ℝ => 1 - (x - c) / s) := by fun_prop
  exact (contDiff_const.mul (expNegInvGlue.contDiff.comp h1)).mul (expNegInvGlue.contDiff.comp h2)

theorem softUnitStepGrad_zero : softUnitStepGrad (0 : ℝ) = 0 := by
  rw [softUnitStepGrad_real]; simp

/-- at the two edges of its support a bump has derivative 0 -/
theorem hasDerivAt_smoothFinite_bump_edge (c s : ℝ) (hs : s ≠ 0) (x₀ : ℝ)
    (hx : x₀ = c + s ∨ x₀ = c - s) :
    HasDerivAt (fun x : ℝ => smoothFiniteOf ((x - c) / s)) 0 x₀ := by
  set sfc : ℝ := smoothFiniteConst with hsfc
  have hA : HasDerivAt (fun x : ℝ => (x - c) / s + 1) (1 / s) x₀ := by
    have := ((hasDerivAt_id x₀).sub_const c).div_const s
    simpa using this.add_const 1
  have hB : HasDerivAt (fun x : ℝ => 1 - (x - c) / s) (-(1 / s)) x₀ := by
    have := ((hasDerivAt_id x₀).sub_const c).div_const s
    simpa using this.const_sub 1
  have hSA := (hasDerivAt_softUnitStep ((x₀ - c) / s + 1)).comp x₀ hA
  have hSB := (hasDerivAt_softUnitStep (1 - (x₀ - c) / s)).comp x₀ hB
  have hprod := ((hasDerivAt_const x₀ sfc).mul hSA).mul hSB
  have hfun : (fun x : ℝ => smoothFiniteOf ((x - c) / s))
      = ((fun _ => sfc) * (softUnitStep ∘ fun x : ℝ => (x - c) / s + 1)) *
          (softUnitStep ∘ fun x : ℝ => 1 - (x - c) / s) := by
    funext x; simp [smoothFiniteOf, smoothFiniteWith, hsfc]
  rw [hfun]
  refine hprod.congr_deriv ?_
  rcases hx with rfl | rfl
  · have e : 1 - (c + s - c) / s = 0 := by field_simp; ring
    simp only [Function.comp, Pi.mul_apply, e, softUnitStepGrad_zero, softUnitStep_eq_glue,
      expNegInvGlue.zero]
    ring
  · have e : (c - s - c) / s + 1 = 0 := by field_simp; ring
    simp only [Function.comp, Pi.mul_apply, e, softUnitStepGrad_zero, softUnitStep_eq_glue,
      expNegInvGlue.zero]
    ring


/-- Lagrange: `4 sin θ · Σ_{i<N} cos²(iθ) = (2N+1) sin θ + sin((2N-1)θ)` -/
theorem four_sin_mul_sum_cos_sq (N : ℕ) (θ : ℝ) :
    4 * Real.sin θ * ∑ i ∈ Finset.range N, Real.cos ((i : ℝ) * θ) ^ 2
      = (2 * (N : ℝ) + 1) * Real.sin θ + Real.sin ((2 * (N : ℝ) - 1) * θ) := by
  induction N with
  | zero => simp [Real.sin_neg]
  | succ N ih =>
    rw [Finset.sum_range_succ, mul_add, ih]
    have e1 : (2 * ((N + 1 : ℕ) : ℝ) - 1) * θ = 2 * ((N : ℝ) * θ) + θ := by push_cast; ring
    have e2 : (2 * (N : ℝ) - 1) * θ = 2 * ((N : ℝ) * θ) - θ := by ring
    rw [e1, e2, Real.sin_add, Real.sin_sub, Real.cos_sq ((N : ℝ) * θ)]
    push_cast; ring

/-- `4 sin θ · Σ_{i<N} sin²((i+1)θ) = (2N+1) sin θ - sin((2N+1)θ)` -/
theorem four_sin_mul_sum_sin_sq (N : ℕ) (θ : ℝ) :
    4 * Real.sin θ * ∑ i ∈ Finset.range N, Real.sin (((i : ℝ) + 1) * θ) ^ 2
      = (2 * (N : ℝ) + 1) * Real.sin θ - Real.sin ((2 * (N : ℝ) + 1) * θ) := by
  induction N with
  | zero => simp
  | succ N ih =>
    rw [Finset.sum_range_succ, mul_add, ih]
    have e1 : (2 * ((N + 1 : ℕ) : ℝ) + 1) * θ = 2 * (((N : ℝ) + 1) * θ) + θ := by push_cast; ring
    have e2 : (2 * (N : ℝ) + 1) * θ = 2 * (((N : ℝ) + 1) * θ) - θ := by ring
    rw [e1, e2, Real.sin_add, Real.sin_sub, Real.sin_sq_eq_half_sub (((N : ℝ) + 1) * θ)]
    push_cast; ring

/-! normalize2mom -/
theorem npow_two_real (y : ℝ) : npow y 2 = y ^ 2 := by simp [npow]; ring

theorem moment_two_real (l : List ℝ) : moment l 2 = (l.map (· ^ 2)).sum / (l.length : ℝ) := by
  have : ∀ l : List ℝ, l.foldr (fun y acc => npow y 2 + acc) (0 : ℝ) = (l.map (· ^ 2)).sum := by
    intro l
    induction l with
    | nil => simp
    | cons a l ih => rw [List.foldr_cons, ih, List.map_cons, List.sum_cons, npow_two_real]
  unfold moment
  rw [Scalar.ofNat_real, Scalar.ofNat_real, Nat.cast_zero, this]

theorem sum_sq_map_mul (l : List ℝ) (c : ℝ) :
    ((l.map (· * c)).map (· ^ 2)).sum = c ^ 2 * (l.map (· ^ 2)).sum := by
  induction l with
  | nil => simp
  | cons a l ih => simp only [List.map_cons, List.sum_cons, ih]; ring

theorem moment_two_map_mul (l : List ℝ) (c : ℝ) : moment (l.map (· * c)) 2 = c ^ 2 * moment l 2 := by
  rw [moment_two_real, moment_two_real, sum_sq_map_mul, List.length_map]; ring

theorem cstOf_real (l : List ℝ) : cstOf l = 1 / Real.sqrt (moment l 2) := by simp [cstOf]

theorem isId_real (c : ℝ) : isId c = true ↔ |c - 1| < 1 / 10000 := by
  have habs : ∀ a : ℝ, Scalar.abs a = |a| := by
    intro a
    by_cases h : a < 0
    · simp [Scalar.abs, h, abs_of_neg h]
    · simp [Scalar.abs, h, abs_of_nonneg (not_lt.mp h)]
  simp [isId, habs, ofFrac_real]


theorem exp_neg_half_gt : (3 : ℝ) / 5 < Real.exp (-(1 / 2)) := by
  have h1 : Real.exp (1 / 2) ^ 2 = Real.exp 1 := by
    rw [← Real.exp_nat_mul]; norm_num
  have hpos := Real.exp_pos (1 / 2 : ℝ)
  have h2 : Real.exp (1 / 2) < 5 / 3 := by
    have := Real.exp_one_lt_d9
    nlinarith
  rw [Real.exp_neg, lt_inv_comm₀ (by norm_num) hpos]
  linarith

theorem gaussianOf_sq_ge (d : ℝ) (hd : |d| ≤ 1 / 2) : 2 / 5 < gaussianOf d ^ 2 := by
  have hd2 : d * d ≤ 1 / 4 := by
    have := abs_le.mp hd; nlinarith
  have h1 : Real.exp (-(1 / 4)) ≤ Real.exp (-(d * d)) := Real.exp_le_exp.mpr (by linarith)
  have h2 : Real.exp (-(1 / 4)) ^ 2 = Real.exp (-(1 / 2)) := by
    rw [← Real.exp_nat_mul]; norm_num
  have h3 := exp_neg_half_gt
  have hp := Real.exp_pos (-(1 / 4) : ℝ)
  simp only [gaussianOf, Scalar.exp_real, ofFrac_real]
  rw [div_pow]
  have : Real.exp (-(1 / 2)) ≤ Real.exp (-(d * d)) ^ 2 := by
    rw [← h2]; exact pow_le_pow_left₀ hp.le h1 2
  rw [lt_div_iff₀ (by norm_num)]
  norm_num
  nlinarith

/-- some centre is within half a step -/
theorem exists_near_index (n : ℕ) (t : ℝ) (h0 : 0 ≤ t) (h1 : t ≤ (n : ℝ) - 1) :
    ∃ i, i < n ∧ |t - (i : ℝ)| ≤ 1 / 2 := by
  refine ⟨⌊t + 1 / 2⌋₊, ?_, ?_⟩
  · have : (⌊t + 1 / 2⌋₊ : ℝ) ≤ t + 1 / 2 := Nat.floor_le (by linarith)
    have : (⌊t + 1 / 2⌋₊ : ℝ) < n := by linarith
    exact_mod_cast this
  · have a : (⌊t + 1 / 2⌋₊ : ℝ) ≤ t + 1 / 2 := Nat.floor_le (by linarith)
    have b := Nat.lt_floor_add_one (t + 1 / 2)
    rw [abs_le]; constructor <;> linarith

end E3nnVerif.Radial
