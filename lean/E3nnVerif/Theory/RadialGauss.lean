import Mathlib.Analysis.SpecialFunctions.Exponential
import Mathlib.Analysis.SpecialFunctions.Exp
import Mathlib.Algebra.Order.Floor.Ring
import Mathlib.Algebra.Field.GeomSum
import Mathlib.Algebra.BigOperators.Field
import Mathlib.Analysis.Complex.ExponentialBounds
import E3nnVerif.Theory.Radial
/-
Upper bound for the gaussian family of `soft_one_hot_linspace`: for every real `t` and every `n`
`Σ_{i<n} exp(−2 (t − i)²) ≤ 2/(1 − e^{−2})` (two geometric series around `⌊t⌋`), hence the sum of squares of the
gaussian basis (`exp(−d²)/1.12`) stays below 2 for EVERY `x`, every interval and every number of functions.
-/
namespace E3nnVerif.Radial
open Finset
theorem geom_part_le (r : ℝ) (hr0 : 0 ≤ r) (hr1 : r < 1) (S : Finset ℕ) (k : ℕ → ℕ)
    (hinj : Set.InjOn k S) : ∑ i ∈ S, r ^ k i ≤ 1 / (1 - r) := by
  rw [← Finset.sum_image (f := fun j => r ^ j) hinj]
  set B := (S.image k).sup id + 1 with hB
  have hsub : S.image k ⊆ range B := by
    intro j hj
    have : j ≤ (S.image k).sup id := Finset.le_sup (f := id) hj
    exact Finset.mem_range.mpr (by omega)
  calc ∑ j ∈ S.image k, r ^ j ≤ ∑ j ∈ range B, r ^ j :=
        Finset.sum_le_sum_of_subset_of_nonneg hsub (fun j _ _ => pow_nonneg hr0 j)
    _ = (1 - r ^ B) / (1 - r) := by
        have h1 : r ≠ 1 := ne_of_lt hr1
        rw [geom_sum_eq h1]
        have : r - 1 ≠ 0 := sub_ne_zero.mpr h1
        have : 1 - r ≠ 0 := by intro h; apply this; linarith
        field_simp
        ring
    _ ≤ 1 / (1 - r) := by
        apply div_le_div_of_nonneg_right _ (by linarith)
        have := pow_nonneg hr0 B
        linarith

theorem exp_term_le (t : ℝ) (i : ℕ) (k : ℕ) (h : (k : ℝ) ≤ |t - i|) :
    Real.exp (-(2 * (t - i) ^ 2)) ≤ Real.exp (-2) ^ k := by
  rw [← Real.exp_nat_mul]
  apply Real.exp_le_exp.mpr
  have hk : (k : ℝ) ≤ (k : ℝ) ^ 2 := by
    rcases Nat.eq_zero_or_pos k with h0 | hp
    · simp [h0]
    · have : (1 : ℝ) ≤ k := by exact_mod_cast hp
      nlinarith
  have hsq : (k : ℝ) ^ 2 ≤ (t - i) ^ 2 := by
    rw [← sq_abs (t - i)]
    exact pow_le_pow_left₀ (Nat.cast_nonneg k) h 2
  nlinarith

theorem sum_gauss_le (n : ℕ) (t : ℝ) :
    ∑ i ∈ range n, Real.exp (-(2 * (t - i) ^ 2)) ≤ 2 / (1 - Real.exp (-2)) := by
  set r := Real.exp (-2) with hr
  have hr0 : 0 ≤ r := (Real.exp_pos _).le
  have hr1 : r < 1 := by rw [hr]; exact Real.exp_lt_one_iff.mpr (by norm_num)
  set m : ℤ := ⌊t⌋ with hm
  have hm0 : (m : ℝ) ≤ t := Int.floor_le t
  have hm1 : t < (m : ℝ) + 1 := Int.lt_floor_add_one t
  let kL : ℕ → ℕ := fun i => (m - i).toNat
  let kR : ℕ → ℕ := fun i => ((i : ℤ) - m - 1).toNat
  set SL := (range n).filter (fun i : ℕ => (i : ℤ) ≤ m) with hSL
  set SR := (range n).filter (fun i : ℕ => ¬ (i : ℤ) ≤ m) with hSR
  have hsplit : ∑ i ∈ range n, Real.exp (-(2 * (t - i) ^ 2))
      = ∑ i ∈ SL, Real.exp (-(2 * (t - i) ^ 2)) + ∑ i ∈ SR, Real.exp (-(2 * (t - i) ^ 2)) :=
    (Finset.sum_filter_add_sum_filter_not (range n) _ _).symm
  have hL : ∑ i ∈ SL, Real.exp (-(2 * (t - i) ^ 2)) ≤ 1 / (1 - r) := by
    calc ∑ i ∈ SL, Real.exp (-(2 * (t - i) ^ 2)) ≤ ∑ i ∈ SL, r ^ kL i := by
          apply Finset.sum_le_sum
          intro i hi
          have hle : (i : ℤ) ≤ m := (Finset.mem_filter.mp hi).2
          apply exp_term_le
          have hk : ((kL i : ℕ) : ℝ) = (m : ℝ) - i := by
            have : ((m - i).toNat : ℤ) = m - i := Int.toNat_of_nonneg (by omega)
            have h2 : (((m - i).toNat : ℤ) : ℝ) = ((m - i : ℤ) : ℝ) := by rw [this]
            push_cast at h2
            simpa [kL] using h2
          rw [hk, abs_of_nonneg (by
            have : (i : ℝ) ≤ m := by exact_mod_cast hle
            linarith)]
          linarith
      _ ≤ 1 / (1 - r) := by
          apply geom_part_le r hr0 hr1
          intro a ha b hb hab
          have ha' : (a : ℤ) ≤ m := (Finset.mem_filter.mp ha).2
          have hb' : (b : ℤ) ≤ m := (Finset.mem_filter.mp hb).2
          simp only [kL] at hab
          have : (m - a).toNat = (m - b).toNat := hab
          omega
  have hR : ∑ i ∈ SR, Real.exp (-(2 * (t - i) ^ 2)) ≤ 1 / (1 - r) := by
    calc ∑ i ∈ SR, Real.exp (-(2 * (t - i) ^ 2)) ≤ ∑ i ∈ SR, r ^ kR i := by
          apply Finset.sum_le_sum
          intro i hi
          have hgt : ¬ (i : ℤ) ≤ m := (Finset.mem_filter.mp hi).2
          apply exp_term_le
          have hk : ((kR i : ℕ) : ℝ) = (i : ℝ) - m - 1 := by
            have : (((i : ℤ) - m - 1).toNat : ℤ) = (i : ℤ) - m - 1 := Int.toNat_of_nonneg (by omega)
            have h2 : ((((i : ℤ) - m - 1).toNat : ℤ) : ℝ) = (((i : ℤ) - m - 1 : ℤ) : ℝ) := by rw [this]
            push_cast at h2
            simpa [kR] using h2
          have hneg : t - i ≤ 0 := by
            have : (m : ℝ) + 1 ≤ i := by exact_mod_cast (by omega : m + 1 ≤ (i : ℤ))
            linarith
          rw [hk, abs_of_nonpos hneg]
          linarith
      _ ≤ 1 / (1 - r) := by
          apply geom_part_le r hr0 hr1
          intro a ha b hb hab
          have ha' : ¬ (a : ℤ) ≤ m := (Finset.mem_filter.mp ha).2
          have hb' : ¬ (b : ℤ) ≤ m := (Finset.mem_filter.mp hb).2
          simp only [kR] at hab
          have : ((a : ℤ) - m - 1).toNat = ((b : ℤ) - m - 1).toNat := hab
          omega
  rw [hsplit]
  have : 2 / (1 - r) = 1 / (1 - r) + 1 / (1 - r) := by ring
  rw [this]
  exact add_le_add hL hR

theorem exp_neg_two_lt : Real.exp (-2) < 1 / 5 := by
  have h1 : (2.7182818283 : ℝ) < Real.exp 1 := Real.exp_one_gt_d9
  have h2 : Real.exp 2 = Real.exp 1 * Real.exp 1 := by rw [← Real.exp_add]; norm_num
  have h3 : (5 : ℝ) < Real.exp 2 := by rw [h2]; nlinarith
  rw [Real.exp_neg, inv_lt_comm₀ (Real.exp_pos 2) (by norm_num)]
  norm_num; linarith

theorem gaussianOf_sq_real (d : ℝ) : gaussianOf d ^ 2 = Real.exp (-(2 * d ^ 2)) / (112 / 100) ^ 2 := by
  simp only [gaussianOf, Scalar.exp_real, ofFrac_real]
  rw [div_pow, ← Real.exp_nat_mul]
  congr 2
  push_cast; ring

/-- `Σ_i gaussianOf(t − i)² < 2` for every real `t` and every number of terms -/
theorem sum_gaussianOf_sq_lt_two (n : ℕ) (t : ℝ) : ∑ i ∈ range n, gaussianOf (t - (i : ℝ)) ^ 2 < 2 := by
  simp_rw [gaussianOf_sq_real]
  rw [← Finset.sum_div]
  have h := sum_gauss_le n t
  have hr := exp_neg_two_lt
  have hpos : (0 : ℝ) < 1 - Real.exp (-2) := by linarith
  have h2 : 2 / (1 - Real.exp (-2)) < 2 * (112 / 100) ^ 2 := by
    rw [div_lt_iff₀ hpos]; norm_num; nlinarith
  rw [div_lt_iff₀ (by norm_num)]
  linarith

end E3nnVerif.Radial
