import Mathlib.Analysis.SpecialFunctions.Sqrt
import E3nnVerif.Theory.ScalarReal
import E3nnVerif.Model.Pointwise

namespace E3nnVerif.Pointwise
open E3nnVerif

@[simp] theorem zero_real : (Scalar.zero : ℝ) = 0 := by simp [Scalar.zero]

/-! ### layout -/
def cdim : List Ir → Nat
  | [] => 0
  | c :: cs => irDim c.1 + cdim cs

@[simp] theorem cdim_nil : cdim [] = 0 := rfl
@[simp] theorem cdim_cons (c : Ir) (cs) : cdim (c :: cs) = irDim c.1 + cdim cs := rfl
@[simp] theorem cdim_append (a b : List Ir) : cdim (a ++ b) = cdim a + cdim b := by
  induction a with
  | nil => simp
  | cons c cs ih => simp [ih]; omega
@[simp] theorem cdim_replicate (n : Nat) (c : Ir) : cdim (List.replicate n c) = n * irDim c.1 := by
  induction n with
  | zero => simp
  | succ n ih => simp [List.replicate_succ, ih]; ring

@[simp] theorem expand_nil : expand [] = [] := rfl
@[simp] theorem expand_cons (mul l p bs) : expand ((mul, l, p) :: bs) = List.replicate mul (l, p) ++ expand bs := rfl
@[simp] theorem expand_append (a b : Irreps) : expand (a ++ b) = expand a ++ expand b := by
  induction a with
  | nil => simp
  | cons c cs ih => obtain ⟨m, l, p⟩ := c; simp [ih]

@[simp] theorem dim_nil : dim [] = 0 := rfl
@[simp] theorem dim_cons (b bs) : dim (b :: bs) = mulIrDim b + dim bs := rfl
@[simp] theorem dim_append (a b : Irreps) : dim (a ++ b) = dim a + dim b := by
  induction a with
  | nil => simp
  | cons c cs ih => simp [ih]; omega

theorem cdim_expand (irr : Irreps) : cdim (expand irr) = dim irr := by
  induction irr with
  | nil => rfl
  | cons b bs ih => obtain ⟨m, l, p⟩ := b; simp [ih, mulIrDim]

theorem length_expand (irr : Irreps) : (expand irr).length = numIrreps irr := by
  induction irr with
  | nil => rfl
  | cons b bs ih => obtain ⟨m, l, p⟩ := b; simp [ih, numIrreps]

theorem expand_simplifyAux (acc rest : Irreps) :
    expand (simplifyAux acc rest) = expand acc.reverse ++ expand rest := by
  induction rest generalizing acc with
  | nil => simp [simplifyAux]
  | cons b bs ih =>
    obtain ⟨m, ir⟩ := b
    obtain ⟨l, p⟩ := ir
    cases acc with
    | nil =>
      simp only [simplifyAux]
      split
      · rw [ih]; simp
      · rw [ih]; have : m = 0 := by omega
        simp [this]
    | cons a as =>
      obtain ⟨m0, l0, p0⟩ := a
      simp only [simplifyAux]
      split
      · rename_i h
        have h' : (l0, p0) = (l, p) := by simpa using h
        obtain ⟨rfl, rfl⟩ := Prod.mk.inj h'
        rw [ih]; simp only [List.reverse_cons, expand_append, expand_cons, expand_nil, List.append_nil, List.append_assoc, List.replicate_add]
      · split
        · rw [ih]; simp
        · rw [ih]; have : m = 0 := by omega
          simp [this]

theorem expand_simplify (irr : Irreps) : expand (simplify irr) = expand irr := by
  simp [simplify, expand_simplifyAux]

theorem dim_simplify (irr : Irreps) : dim (simplify irr) = dim irr := by
  rw [← cdim_expand, expand_simplify, cdim_expand]

noncomputable section

/-! ### the block action of a group element -/

/-- One element of O(3) acting on every irrep type: `M l odd` acts on a copy of degree `l`.  Only what the
layers use is required: lengths, preservation of `Σ x²`, homogeneity, and the scalar blocks
(`0e` fixed, `0o` multiplied by `σ = ±1`). -/
structure Action where
  M : Nat → Bool → List ℝ → List ℝ
  σ : ℝ
  hσ : σ = 1 ∨ σ = -1
  len : ∀ l p v, v.length = irDim l → (M l p v).length = irDim l
  normSq : ∀ l p v, v.length = irDim l → sumSq (M l p v) = sumSq v
  smul : ∀ l p (c : ℝ) v, v.length = irDim l → M l p (v.map (· * c)) = (M l p v).map (· * c)
  even0 : ∀ a, M 0 false [a] = [a]
  odd0 : ∀ a, M 0 true [a] = [σ * a]

/-- `(l, odd) = (l, even) ⊗ 0o`: needed only where a layer multiplies by an odd scalar (Gate) -/
def Action.Twisted (A : Action) : Prop :=
  ∀ l p v, v.length = irDim l → A.M l (!p) v = (A.M l p v).map (· * A.σ)

/-- sign by which the group element acts on a scalar of parity `p` -/
def Action.sgn (A : Action) (p : Bool) : ℝ := if p then A.σ else 1

theorem Action.sgn_sq (A : Action) (p : Bool) : A.sgn p * A.sgn p = 1 := by
  unfold Action.sgn; split
  · rcases A.hσ with h | h <;> simp [h]
  · simp

theorem Action.scalar (A : Action) (p : Bool) (a : ℝ) : A.M 0 p [a] = [A.sgn p * a] := by
  cases p <;> simp [Action.sgn, A.even0, A.odd0]

def rhoC (A : Action) : List Ir → List ℝ → List ℝ
  | [], _ => []
  | (l, p) :: cs, x => A.M l p (x.take (irDim l)) ++ rhoC A cs (x.drop (irDim l))

/-- the representation `irreps.D(g)` applied to one feature fibre -/
def rho (A : Action) (irr : Irreps) (x : List ℝ) : List ℝ := rhoC A (expand irr) x

@[simp] theorem rhoC_nil (A : Action) (x) : rhoC A [] x = [] := rfl

theorem rhoC_append (A : Action) (a b : List Ir) (x : List ℝ) :
    rhoC A (a ++ b) x = rhoC A a (x.take (cdim a)) ++ rhoC A b (x.drop (cdim a)) := by
  induction a generalizing x with
  | nil => simp
  | cons c cs ih =>
    obtain ⟨l, p⟩ := c
    simp only [List.cons_append, rhoC, cdim_cons, ih, List.append_assoc]
    congr 2
    · simp [List.take_take]
    · congr 1
      · rw [List.drop_take]; simp
    · simp [List.drop_drop]

theorem length_rhoC (A : Action) (cs : List Ir) (x : List ℝ) (hx : x.length = cdim cs) :
    (rhoC A cs x).length = cdim cs := by
  induction cs generalizing x with
  | nil => simp
  | cons c cs ih =>
    obtain ⟨l, p⟩ := c
    simp only [cdim_cons] at hx
    simp only [rhoC, List.length_append, cdim_cons]
    rw [A.len, ih]
    · simp; omega
    · simp; omega

theorem length_rho (A : Action) (irr : Irreps) (x : List ℝ) (hx : x.length = dim irr) :
    (rho A irr x).length = dim irr := by
  unfold rho; rw [length_rhoC, cdim_expand]; rw [cdim_expand]; exact hx

theorem rho_simplify (A : Action) (irr : Irreps) (x : List ℝ) : rho A (simplify irr) x = rho A irr x := by
  simp [rho, expand_simplify]

theorem rho_append (A : Action) (a b : Irreps) (x y : List ℝ) (hx : x.length = dim a) :
    rho A (a ++ b) (x ++ y) = rho A a x ++ rho A b y := by
  simp [rho, rhoC_append, cdim_expand, ← hx]

theorem rho_nil (A : Action) (x) : rho A [] x = [] := rfl

/-! ### per-copy forms of the model's block loops -/

def sqNormsC : List Ir → List ℝ → List ℝ
  | [], _ => []
  | (l, _) :: cs, x => sumSq (x.take (irDim l)) :: sqNormsC cs (x.drop (irDim l))

theorem sqNormsC_replicate (n l : Nat) (p : Bool) (cs : List Ir) (x : List ℝ) :
    sqNormsC (List.replicate n (l, p) ++ cs) x
      = copySqNorms (irDim l) n (x.take (n * irDim l)) ++ sqNormsC cs (x.drop (n * irDim l)) := by
  induction n generalizing x with
  | zero => simp [copySqNorms]
  | succ n ih =>
    simp only [List.replicate_succ, List.cons_append, sqNormsC, copySqNorms, ih]
    have h1 : (x.take ((n + 1) * irDim l)).take (irDim l) = x.take (irDim l) := by
      rw [List.take_take]; congr 1; rw [Nat.add_mul]; omega
    have h2 : (x.take ((n + 1) * irDim l)).drop (irDim l) = (x.drop (irDim l)).take (n * irDim l) := by
      rw [List.drop_take]; congr 1; rw [Nat.add_mul]; omega
    have h3 : (x.drop (irDim l)).drop (n * irDim l) = x.drop ((n + 1) * irDim l) := by
      rw [List.drop_drop]; congr 1; rw [Nat.add_mul]; omega
    rw [h1, h2, h3]

theorem sqNorms_eq (irr : Irreps) (x : List ℝ) : sqNorms irr x = sqNormsC (expand irr) x := by
  induction irr generalizing x with
  | nil => rfl
  | cons b bs ih =>
    obtain ⟨m, l, p⟩ := b
    simp only [sqNorms, expand_cons, sqNormsC_replicate, ih]

def ewMulC : List Ir → List ℝ → List ℝ → List ℝ
  | [], _, _ => []
  | _ :: _, [], _ => []
  | (l, _) :: cs, g :: gs, x => (x.take (irDim l)).map (· * g) ++ ewMulC cs gs (x.drop (irDim l))

@[simp] theorem ewMulC_nil_g (cs : List Ir) (x : List ℝ) : ewMulC cs [] x = [] := by
  cases cs <;> rfl

theorem ewMulC_replicate (n l : Nat) (p : Bool) (cs : List Ir) (g x : List ℝ) :
    ewMulC (List.replicate n (l, p) ++ cs) g x
      = scaleCopies (irDim l) n (g.take n) (x.take (n * irDim l))
          ++ ewMulC cs (g.drop n) (x.drop (n * irDim l)) := by
  induction n generalizing x g with
  | zero => simp [scaleCopies]
  | succ n ih =>
    cases g with
    | nil => simp [scaleCopies, List.replicate_succ]
    | cons g0 gs =>
      simp only [List.replicate_succ, List.cons_append, ewMulC, List.take_succ_cons, scaleCopies, ih,
        List.drop_succ_cons]
      have h1 : (x.take ((n + 1) * irDim l)).take (irDim l) = x.take (irDim l) := by
        rw [List.take_take]; congr 1; rw [Nat.add_mul]; omega
      have h2 : (x.take ((n + 1) * irDim l)).drop (irDim l) = (x.drop (irDim l)).take (n * irDim l) := by
        rw [List.drop_take]; congr 1; rw [Nat.add_mul]; omega
      have h3 : (x.drop (irDim l)).drop (n * irDim l) = x.drop ((n + 1) * irDim l) := by
        rw [List.drop_drop]; congr 1; rw [Nat.add_mul]; omega
      rw [h1, h2, h3]; simp

theorem ewMul_eq (irr : Irreps) (g x : List ℝ) : ewMul irr g x = ewMulC (expand irr) g x := by
  induction irr generalizing x g with
  | nil => rfl
  | cons b bs ih =>
    obtain ⟨m, l, p⟩ := b
    simp only [ewMul, expand_cons, ewMulC_replicate, ih]



/-! ### invariants and scalar multiplication commute with the action -/

theorem sqNormsC_rhoC (A : Action) (cs : List Ir) (x : List ℝ) (hx : x.length = cdim cs) :
    sqNormsC cs (rhoC A cs x) = sqNormsC cs x := by
  induction cs generalizing x with
  | nil => rfl
  | cons c cs ih =>
    obtain ⟨l, p⟩ := c
    simp only [cdim_cons] at hx
    have hl : (A.M l p (x.take (irDim l))).length = irDim l := A.len _ _ _ (by simp; omega)
    simp only [rhoC, sqNormsC, List.take_left' hl, List.drop_left' hl]
    rw [A.normSq _ _ _ (by simp; omega), ih _ (by simp; omega)]

theorem length_sqNormsC (cs : List Ir) (x : List ℝ) : (sqNormsC cs x).length = cs.length := by
  induction cs generalizing x with
  | nil => rfl
  | cons c cs ih => obtain ⟨l, p⟩ := c; simp [sqNormsC, ih]

/-- multiplying copy `u` by an invariant scalar `g_u` commutes with the action -/
theorem ewMulC_rhoC (A : Action) (cs : List Ir) (g x : List ℝ) (hg : cs.length ≤ g.length)
    (hx : x.length = cdim cs) :
    ewMulC cs g (rhoC A cs x) = rhoC A cs (ewMulC cs g x) := by
  induction cs generalizing x g with
  | nil => rfl
  | cons c cs ih =>
    obtain ⟨l, p⟩ := c
    cases g with
    | nil => simp at hg
    | cons g0 gs =>
      simp only [cdim_cons] at hx
      simp only [List.length_cons, Nat.add_le_add_iff_right] at hg
      have hl : (A.M l p (x.take (irDim l))).length = irDim l := A.len _ _ _ (by simp; omega)
      have hl' : ((x.take (irDim l)).map (· * g0)).length = irDim l := by simp; omega
      simp only [rhoC, ewMulC, List.take_left' hl, List.drop_left' hl, List.take_left' hl', List.drop_left' hl']
      rw [A.smul _ _ _ _ (by simp; omega), ih _ _ hg (by simp; omega)]

theorem length_ewMulC (cs : List Ir) (g x : List ℝ) (hg : cs.length ≤ g.length) (hx : x.length = cdim cs) :
    (ewMulC cs g x).length = cdim cs := by
  induction cs generalizing x g with
  | nil => rfl
  | cons c cs ih =>
    obtain ⟨l, p⟩ := c
    cases g with
    | nil => simp at hg
    | cons g0 gs =>
      simp only [cdim_cons] at hx
      simp only [List.length_cons, Nat.add_le_add_iff_right] at hg
      simp only [ewMulC, List.length_append, List.length_map, List.length_take, cdim_cons]
      rw [ih _ _ hg (by simp; omega)]; omega

/-- output type of a copy `(l, p)` multiplied by a scalar of parity `pg` -/
def twist (c : Ir) (pg : Bool) : Ir := (c.1, c.2 != pg)

/-- the scalars transform too (a gate of parity `pg` picks up `sgn pg`): the product transforms with the
twisted parity.  Needs `(l, !p) = (l, p) ⊗ 0o`. -/
theorem ewMulC_rhoC_twisted (A : Action) (hA : A.Twisted) (cs : List Ir) (gp : List Bool) (g x : List ℝ)
    (hgp : gp.length = cs.length) (hg : g.length = cs.length) (hx : x.length = cdim cs) :
    ewMulC cs (List.zipWith (fun p a => A.sgn p * a) gp g) (rhoC A cs x)
      = rhoC A (List.zipWith twist cs gp) (ewMulC cs g x) := by
  induction cs generalizing x g gp with
  | nil => simp [ewMulC]
  | cons c cs ih =>
    obtain ⟨l, p⟩ := c
    cases g with
    | nil => simp at hg
    | cons g0 gs =>
    cases gp with
    | nil => simp at hgp
    | cons pg gps =>
      simp only [cdim_cons] at hx
      simp only [List.length_cons, Nat.add_right_cancel_iff] at hg hgp
      have hl : (A.M l p (x.take (irDim l))).length = irDim l := A.len _ _ _ (by simp; omega)
      have hl' : ((x.take (irDim l)).map (· * g0)).length = irDim l := by simp; omega
      simp only [List.zipWith_cons_cons, rhoC, ewMulC, twist, List.take_left' hl, List.drop_left' hl,
        List.take_left' hl', List.drop_left' hl']
      rw [A.smul _ _ _ _ (by simp; omega)]
      have ih' := ih gps gs (x.drop (irDim l)) hgp hg (by simp; omega)
      rw [ih']
      congr 1
      cases pg with
      | false => simp [Action.sgn]
      | true =>
        have : (p != true) = !p := by cases p <;> rfl
        rw [this, hA l p _ (by simp; omega)]
        simp [Action.sgn, List.map_map, Function.comp_def, mul_assoc]

/-- on a list of scalar copies the action is the list of signs -/
theorem rhoC_scalars (A : Action) (ps : List Bool) (g : List ℝ) (hg : g.length = ps.length) :
    rhoC A (ps.map fun p => (0, p)) g = List.zipWith (fun p a => A.sgn p * a) ps g := by
  induction ps generalizing g with
  | nil => simp
  | cons p ps ih =>
    cases g with
    | nil => simp at hg
    | cons g0 gs =>
      simp only [List.length_cons, Nat.add_right_cancel_iff] at hg
      simp only [List.map_cons, rhoC, irDim, List.zipWith_cons_cons]
      simp [A.scalar, ih gs hg]



/-! ### Activation -/

/-- the detection flags tell the truth about the function on all of ℝ -/
def Truthful (a : Act ℝ) (d : Detect) : Prop :=
  (d.even = true → ∀ t, a.f (-t) = a.f t) ∧ (d.odd = true → ∀ t, a.f (-t) = -a.f t)

/-- the activation list given to the constructor (seen through the grid test) and to the forward -/
inductive Specs : List (Option (Act ℝ)) → List (Option Detect) → Prop
  | nil : Specs [] []
  | none {as ds} : Specs as ds → Specs (none :: as) (none :: ds)
  | some {a d as ds} : Truthful a d → Specs as ds → Specs (some a :: as) (some d :: ds)

theorem Specs.length_eq {as ds} (h : Specs as ds) : as.length = ds.length := by
  induction h <;> simp [*]

theorem act_scalar_comm (A : Action) (a : Act ℝ) (d : Detect) (hT : Truthful a d) (p q : Bool)
    (h : (if p then d.pAct else some p) = some q) (t : ℝ) :
    a.apply (A.sgn p * t) = A.sgn q * a.apply t := by
  cases p with
  | false =>
    simp only [Bool.false_eq_true, if_false, Option.some.injEq] at h
    subst h; simp [Action.sgn]
  | true =>
    simp only [if_true, Detect.pAct] at h
    rcases A.hσ with hs | hs
    · cases q <;> simp [Action.sgn, hs]
    · by_cases he : d.even = true
      · simp only [he, if_true, Option.some.injEq] at h
        subst h
        simp [Action.sgn, hs, Act.apply, hT.1 he]
      · by_cases ho : d.odd = true
        · simp [he, ho] at h
          subst h
          simp only [Action.sgn, hs, Act.apply, if_true, neg_mul, one_mul, hT.2 ho]
          split <;> ring
        · simp [he, ho] at h

theorem rhoC_replicate_scalars (A : Action) (n : Nat) (p : Bool) (cs : List Ir) (x : List ℝ)
    (hx : n ≤ x.length) :
    rhoC A (List.replicate n (0, p) ++ cs) x = (x.take n).map (A.sgn p * ·) ++ rhoC A cs (x.drop n) := by
  induction n generalizing x with
  | zero => simp
  | succ n ih =>
    cases x with
    | nil => simp at hx
    | cons a xs =>
      simp only [List.length_cons, Nat.add_le_add_iff_right] at hx
      simp only [List.replicate_succ, List.cons_append, rhoC, irDim, Nat.mul_zero, Nat.zero_add,
        List.take_succ_cons, List.take_zero, List.drop_succ_cons, List.drop_zero, A.scalar, ih xs hx]
      simp

theorem rho_cons (A : Action) (mul l : Nat) (p : Bool) (rest : Irreps) (x : List ℝ) :
    rho A ((mul, l, p) :: rest) x
      = rhoC A (List.replicate mul (l, p)) (x.take (mul * irDim l)) ++ rho A rest (x.drop (mul * irDim l)) := by
  simp [rho, rhoC_append]

theorem rho_cons_scalar (A : Action) (mul : Nat) (p : Bool) (rest : Irreps) (x : List ℝ)
    (hx : mul ≤ x.length) :
    rho A ((mul, 0, p) :: rest) x = (x.take mul).map (A.sgn p * ·) ++ rho A rest (x.drop mul) := by
  simp [rho, rhoC_replicate_scalars A mul p _ x hx]

/-- `Activation`: for a layout accepted by the constructor with truthful detection, the forward succeeds on
every input of the right length and commutes with the action, the output carrying the reported irreps -/
theorem actBlocks_equivariant (A : Action) (irr : Irreps) (acts : List (Option (Act ℝ)))
    (dets : List (Option Detect)) (hS : Specs acts dets) (out : Irreps)
    (hC : actOutLoop irr dets = .ok out) (hlen : irr.length = dets.length)
    (x : List ℝ) (hx : x.length = dim irr) :
    ∃ y, actBlocks irr acts x = .ok y ∧ y.length = dim out ∧
      actBlocks irr acts (rho A irr x) = .ok (rho A out y) := by
  induction irr generalizing acts dets out x with
  | nil =>
    simp only [actOutLoop, Except.ok.injEq] at hC
    subst hC
    exact ⟨[], by simp [actBlocks], rfl, by simp [actBlocks, rho_nil]⟩
  | cons b rest ih =>
    obtain ⟨mul, l, p⟩ := b
    cases hS with
    | nil => simp at hlen
    | @none as ds hS' =>
      simp only [List.length_cons, Nat.add_right_cancel_iff] at hlen
      simp only [actOutLoop] at hC
      cases hrec : actOutLoop rest ds with
      | error e => simp [hrec, Except.map] at hC
      | ok out' =>
        simp only [hrec, Except.map, Except.ok.injEq] at hC
        subst hC
        simp only [dim_cons, mulIrDim] at hx
        obtain ⟨y', hy1, hy2, hy3⟩ := ih as ds hS' out' hrec hlen (x.drop (mul * irDim l)) (by simp; omega)
        refine ⟨x.take (mul * irDim l) ++ y', ?_, ?_, ?_⟩
        · simp only [actBlocks]
          rw [if_neg (by omega), hy1]; rfl
        · simp [mulIrDim, hy2]; omega
        · have hl : (rhoC A (List.replicate mul (l, p)) (x.take (mul * irDim l))).length = mul * irDim l := by
            rw [length_rhoC] <;> simp; omega
          have hl2 : (x.take (mul * irDim l)).length = mul * irDim l := by simp; omega
          simp only [actBlocks, rho_cons, List.length_append, hl, List.take_left' hl, List.drop_left' hl,
            List.take_left' hl2, List.drop_left' hl2]
          rw [if_neg (by omega), hy3]; rfl
    | @some a d as ds hT hS' =>
      simp only [List.length_cons, Nat.add_right_cancel_iff] at hlen
      simp only [actOutLoop] at hC
      by_cases hl0 : l = 0
      · subst hl0
        simp only [bne_self_eq_false, Bool.false_eq_true, if_false] at hC
        cases hq : (if p then d.pAct else some p) with
        | none => simp [hq] at hC
        | some q =>
          simp only [hq] at hC
          cases hrec : actOutLoop rest ds with
          | error e => simp [hrec, Except.map] at hC
          | ok out' =>
            simp only [hrec, Except.map, Except.ok.injEq] at hC
            subst hC
            simp only [dim_cons, mulIrDim, irDim, Nat.mul_zero, Nat.zero_add, Nat.mul_one] at hx
            obtain ⟨y', hy1, hy2, hy3⟩ := ih as ds hS' out' hrec hlen (x.drop mul) (by simp; omega)
            refine ⟨(x.take mul).map a.apply ++ y', ?_, ?_, ?_⟩
            · simp only [actBlocks, irDim, Nat.mul_zero, Nat.zero_add, Nat.mul_one]
              rw [if_neg (by omega), hy1]; rfl
            · simp [mulIrDim, irDim, hy2]; omega
            · have hl : ((x.take mul).map (A.sgn p * ·)).length = mul := by simp; omega
              have hl2 : ((x.take mul).map a.apply).length = mul := by simp; omega
              rw [rho_cons_scalar A mul p rest x (by omega),
                rho_cons_scalar A mul q out' _ (by simp; omega)]
              simp only [actBlocks, irDim, Nat.mul_zero, Nat.zero_add, Nat.mul_one, List.length_append, hl,
                List.take_left' hl, List.drop_left' hl, List.take_left' hl2, List.drop_left' hl2]
              rw [if_neg (by omega), hy3]
              simp only [Except.map, List.map_map, Function.comp_def, act_scalar_comm A a d hT p q hq]
      · have : (l != 0) = true := by simpa using hl0
        simp [this] at hC



/-! ### Norm -/

theorem sumSq_nonneg (v : List ℝ) : 0 ≤ sumSq v := by
  induction v with
  | nil => simp [sumSq]
  | cons a as ih => simp only [sumSq]; nlinarith [mul_self_nonneg a]

theorem relu_of_nonneg (a : ℝ) (h : 0 ≤ a) : relu a = a := by
  simp [relu, not_lt.mpr h]

theorem expand_scalars_even (irr : Irreps) :
    expand (irr.map fun b => (b.1, 0, false)) = List.replicate (numIrreps irr) (0, false) := by
  induction irr with
  | nil => rfl
  | cons b bs ih =>
    obtain ⟨m, l, p⟩ := b
    simp only [List.map_cons, expand_cons, ih, numIrreps, List.replicate_add]

theorem numIrreps_simplify (irr : Irreps) : numIrreps (simplify irr) = numIrreps irr := by
  rw [← length_expand, expand_simplify, length_expand]

theorem expand_normIrrepsOut (irr : Irreps) :
    expand (normIrrepsOut irr) = List.replicate (numIrreps irr) (0, false) := by
  rw [normIrrepsOut, expand_simplify, expand_scalars_even, numIrreps_simplify]

theorem dim_normIrrepsOut (irr : Irreps) : dim (normIrrepsOut irr) = numIrreps irr := by
  rw [← cdim_expand, expand_normIrrepsOut]; simp [irDim]

/-- the action on `n x 0e` is trivial -/
theorem rhoC_even_scalars (A : Action) (n : Nat) (y : List ℝ) (hy : y.length = n) :
    rhoC A (List.replicate n (0, false)) y = y := by
  have := rhoC_replicate_scalars A n false [] y (by omega)
  simp only [List.append_nil] at this
  rw [this]; subst hy; simp [Action.sgn]

theorem length_sqNorms (irr : Irreps) (x : List ℝ) : (sqNorms irr x).length = numIrreps irr := by
  rw [sqNorms_eq, length_sqNormsC, length_expand]

theorem sqNorms_rho (A : Action) (irr : Irreps) (x : List ℝ) (hx : x.length = dim irr) :
    sqNorms irr (rho A irr x) = sqNorms irr x := by
  rw [sqNorms_eq, sqNorms_eq, rho, sqNormsC_rhoC A _ x (by rw [cdim_expand]; exact hx)]

theorem normFwd_ok (irr : Irreps) (sq : Bool) (x : List ℝ) (hx : x.length = dim irr) :
    normFwd irr sq x = .ok (if sq then sqNorms irr x else (sqNorms irr x).map fun n => Scalar.sqrt (relu n)) := by
  simp [normFwd, hx]

/-- `o3.Norm` is invariant: input transformed with the reported `irreps_in`, output with the reported `irreps_out` -/
theorem normFwd_equivariant (A : Action) (irr : Irreps) (sq : Bool) (x : List ℝ) (hx : x.length = dim irr) :
    ∃ y, normFwd irr sq x = .ok y ∧ y.length = dim (normIrrepsOut irr) ∧
      normFwd irr sq (rho A (normIrrepsIn irr) x) = .ok (rho A (normIrrepsOut irr) y) := by
  refine ⟨_, normFwd_ok irr sq x hx, ?_, ?_⟩
  · rw [dim_normIrrepsOut]; split <;> simp [length_sqNorms]
  · rw [normIrrepsIn, rho_simplify, normFwd_ok irr sq _ (length_rho A irr x hx), sqNorms_rho A irr x hx]
    congr 1
    rw [rho, expand_normIrrepsOut, rhoC_even_scalars]
    split <;> simp [length_sqNorms]

/-! ### NormActivation -/

theorem length_clampNorms (epsilon : Option ℝ) (n0 : List ℝ) : (clampNorms epsilon n0).length = n0.length := by
  unfold clampNorms; simp only []; split <;> split <;> simp

theorem length_normActScalings (phi : ℝ → ℝ) (normalize : Bool) (bias : Option (List ℝ))
    (n : List ℝ) (hb : ∀ b, bias = some b → n.length ≤ b.length) :
    (normActScalings phi normalize bias n).length = n.length := by
  unfold normActScalings
  cases bias with
  | none => cases normalize <;> simp
  | some b =>
    have := hb b rfl
    cases normalize <;> simp <;> omega

/-- `NormActivation` commutes with the action (any nonlinearity, any stored epsilon, normalize or not, bias or not),
for every input including zero vectors -/
theorem normActFwd_equivariant (A : Action) (irr : Irreps) (phi : ℝ → ℝ) (normalize : Bool)
    (epsilon : Option ℝ) (bias : Option (List ℝ)) (hb : ∀ b, bias = some b → numIrreps irr ≤ b.length)
    (x : List ℝ) (hx : x.length = dim irr) :
    ∃ y, normActFwd irr phi normalize epsilon bias x = .ok y ∧ y.length = dim irr ∧
      normActFwd irr phi normalize epsilon bias (rho A irr x) = .ok (rho A irr y) := by
  have hlen : ∀ sq, (if sq = true then sqNorms irr x else (sqNorms irr x).map fun n => Scalar.sqrt (relu n)).length
      = numIrreps irr := by
    intro sq; split <;> simp [length_sqNorms]
  have hs := length_normActScalings phi normalize bias (clampNorms epsilon
      (if epsilon.isSome = true then sqNorms irr x else (sqNorms irr x).map fun n => Scalar.sqrt (relu n)))
      (fun b h => by rw [length_clampNorms, hlen]; exact hb b h)
  rw [length_clampNorms, hlen] at hs
  refine ⟨_, by rw [normActFwd, normFwd_ok irr _ x hx], ?_, ?_⟩
  · rw [ewMul_eq, length_ewMulC _ _ _ (by rw [hs, length_expand]) (by rw [cdim_expand]; exact hx), cdim_expand]
  · rw [normActFwd, normFwd_ok irr _ _ (length_rho A irr x hx), sqNorms_rho A irr x hx]
    simp only []
    rw [ewMul_eq, ewMul_eq, rho, rho,
      ewMulC_rhoC A _ _ x (by rw [hs, length_expand]) (by rw [cdim_expand]; exact hx)]



/-! ### closed forms per copy -/

theorem sumSq_eq_sum (v : List ℝ) : sumSq v = (v.map fun a => a ^ 2).sum := by
  induction v with
  | nil => simp [sumSq]
  | cons a as ih => simp [sumSq, ih, pow_two]

/-- copy `u` multiplied by `s_u (Σ_m x_{u,m}²)`: a rescaling by a function of the copy's Euclidean norm only -/
def scaleByC : List Ir → List (ℝ → ℝ) → List ℝ → List ℝ
  | [], _, _ => []
  | _ :: _, [], _ => []
  | (l, _) :: cs, s :: ss, x =>
    (x.take (irDim l)).map (· * s (sumSq (x.take (irDim l)))) ++ scaleByC cs ss (x.drop (irDim l))

/-- `sqrt(max(q, ε²))`: the clamped norm of a copy with squared norm `q` -/
def clampNorm (ε q : ℝ) : ℝ := Real.sqrt (if q < ε * ε then ε * ε else q)

/-- the factor applied to a copy of squared norm `q` with bias `b` -/
def normScale (phi : ℝ → ℝ) (normalize : Bool) (ε b q : ℝ) : ℝ :=
  if normalize then phi (clampNorm ε q + b) / clampNorm ε q else phi (clampNorm ε q + b)

theorem clampNorm_of_ge {ε q : ℝ} (h : ε * ε ≤ q) : clampNorm ε q = Real.sqrt q := by
  simp [clampNorm, not_lt.mpr h]

theorem clampNorm_of_lt {ε q : ℝ} (hε : 0 < ε) (h : q < ε * ε) : clampNorm ε q = ε := by
  simp [clampNorm, h, Real.sqrt_mul_self hε.le]

theorem clampNorm_pos {ε : ℝ} (hε : 0 < ε) (q : ℝ) : 0 < clampNorm ε q := by
  unfold clampNorm; apply Real.sqrt_pos.mpr
  split
  · exact mul_pos hε hε
  · rename_i h; exact lt_of_lt_of_le (mul_pos hε hε) (not_lt.mp h)

theorem clampNorms_cons {ε : ℝ} (hε : 0 < ε) (q : ℝ) (qs : List ℝ) :
    clampNorms (some ε) (q :: qs) = clampNorm ε q :: clampNorms (some ε) qs := by
  simp [clampNorms, clampNorm, mul_pos hε hε]

theorem normActScalings_cons (phi : ℝ → ℝ) (nz : Bool) (b0 : ℝ) (bs : List ℝ) (n : ℝ) (ns : List ℝ) :
    normActScalings phi nz (some (b0 :: bs)) (n :: ns)
      = (if nz then phi (n + b0) / n else phi (n + b0)) :: normActScalings phi nz (some bs) ns := by
  cases nz <;> simp [normActScalings]

theorem normActScalings_none (phi : ℝ → ℝ) (nz : Bool) (ns : List ℝ) :
    normActScalings phi nz none ns = normActScalings phi nz (some (List.replicate ns.length 0)) ns := by
  have : List.zipWith (fun x1 x2 : ℝ => x1 + x2) ns (List.replicate ns.length 0) = ns := by
    induction ns with
    | nil => rfl
    | cons a as ih => simp [List.replicate_succ, ih]
  simp [normActScalings, this]

theorem ewMulC_scalings {ε : ℝ} (hε : 0 < ε) (phi : ℝ → ℝ) (nz : Bool) (cs : List Ir) (b x : List ℝ)
    (hb : b.length = cs.length) :
    ewMulC cs (normActScalings phi nz (some b) (clampNorms (some ε) (sqNormsC cs x))) x
      = scaleByC cs (b.map (normScale phi nz ε)) x := by
  induction cs generalizing x b with
  | nil => rfl
  | cons c cs ih =>
    obtain ⟨l, p⟩ := c
    cases b with
    | nil => simp at hb
    | cons b0 bs =>
      simp only [List.length_cons, Nat.add_right_cancel_iff] at hb
      simp only [sqNormsC, clampNorms_cons hε, normActScalings_cons, ewMulC, List.map_cons, scaleByC, ih _ _ hb]
      congr 1

/-- the bias vector as a list (`0` without bias) -/
def biasList (bias : Option (List ℝ)) (n : Nat) : List ℝ :=
  match bias with | some b => b | none => List.replicate n 0

/-- `NormActivation` in closed form: copy `u` is multiplied by `normScale φ normalize ε b_u (‖x_u‖²)` -/
theorem normActFwd_closed_form {ε : ℝ} (hε : 0 < ε) (irr : Irreps) (phi : ℝ → ℝ) (nz : Bool)
    (bias : Option (List ℝ)) (hb : ∀ b, bias = some b → b.length = numIrreps irr)
    (x : List ℝ) (hx : x.length = dim irr) :
    normActFwd irr phi nz (some ε) bias x
      = .ok (scaleByC (expand irr) ((biasList bias (numIrreps irr)).map (normScale phi nz ε)) x) := by
  rw [normActFwd, normFwd_ok irr _ x hx]
  simp only [Option.isSome_some, if_true, ewMul_eq, sqNorms_eq]
  cases bias with
  | some b => rw [ewMulC_scalings hε _ _ _ _ _ (by rw [hb b rfl, length_expand])]; rfl
  | none =>
    rw [normActScalings_none, length_clampNorms, length_sqNormsC,
      ewMulC_scalings hε _ _ _ _ _ (by simp), length_expand]; rfl

theorem scaleByC_zero (cs : List Ir) (ss : List (ℝ → ℝ)) (hs : cs.length ≤ ss.length) :
    scaleByC cs ss (List.replicate (cdim cs) 0) = List.replicate (cdim cs) 0 := by
  induction cs generalizing ss with
  | nil => rfl
  | cons c cs ih =>
    obtain ⟨l, p⟩ := c
    cases ss with
    | nil => simp at hs
    | cons s ss =>
      simp only [List.length_cons, Nat.add_le_add_iff_right] at hs
      simp only [cdim_cons, scaleByC, List.take_replicate, List.drop_replicate, Nat.add_sub_cancel_left,
        Nat.min_eq_left (Nat.le_add_right _ _), ih ss hs]
      simp

theorem scaleByC_single (l : Nat) (p : Bool) (s : ℝ → ℝ) (v : List ℝ) (hv : v.length = irDim l) :
    scaleByC [(l, p)] [s] v = v.map (· * s (sumSq v)) := by
  simp [scaleByC, ← hv]

/-- `Norm` in closed form: the Euclidean norm of every copy -/
theorem normFwd_closed_form (irr : Irreps) (x : List ℝ) (hx : x.length = dim irr) :
    normFwd irr false x = .ok ((sqNormsC (expand irr) x).map Real.sqrt) := by
  rw [normFwd_ok irr _ x hx, sqNorms_eq]
  simp only [Bool.false_eq_true, if_false, Except.ok.injEq]
  have : ∀ cs (x : List ℝ), ∀ n ∈ sqNormsC cs x, 0 ≤ n := by
    intro cs
    induction cs with
    | nil => intro x n hn; simp [sqNormsC] at hn
    | cons c cs ih =>
      obtain ⟨l, p⟩ := c
      intro x n hn
      simp only [sqNormsC, List.mem_cons] at hn
      rcases hn with rfl | hn
      · exact sumSq_nonneg _
      · exact ih _ _ hn
  apply List.map_congr_left
  intro n hn
  rw [relu_of_nonneg n (this _ _ n hn)]; rfl



/-! ### Extract -/

/-- every output block carries the irreps of the input block it copies.  `Extract.__init__` does NOT check this;
`ExtractIr` and `_Sortcut` establish it by construction. -/
def WellFormed (irrIn out : Irreps) (ins : List Nat) : Prop :=
  out.map some = ins.map fun i => irrIn[i]?

theorem block_zero (c : MulIr) (rest : Irreps) (z : List ℝ) : block (c :: rest) 0 z = z.take (mulIrDim c) := by
  simp [block]

theorem block_succ (c : MulIr) (rest : Irreps) (i : Nat) (z : List ℝ) :
    block (c :: rest) (i + 1) z = block rest i (z.drop (mulIrDim c)) := by
  simp [block, List.drop_drop, Nat.add_comm]

theorem length_block (irr : Irreps) (i : Nat) (b : MulIr) (h : irr[i]? = some b) (x : List ℝ)
    (hx : x.length = dim irr) : (block irr i x).length = mulIrDim b := by
  induction irr generalizing i x with
  | nil => simp at h
  | cons c rest ih =>
    simp only [dim_cons] at hx
    cases i with
    | zero =>
      simp only [List.getElem?_cons_zero, Option.some.injEq] at h
      subst h; rw [block_zero]; simp; omega
    | succ i =>
      simp only [List.getElem?_cons_succ] at h
      rw [block_succ]; exact ih i h _ (by simp; omega)

theorem rho_single (A : Action) (b : MulIr) (x : List ℝ) (hx : x.length = mulIrDim b) :
    rho A [b] x = rhoC A (List.replicate b.1 (b.2.1, b.2.2)) x := by
  obtain ⟨m, l, p⟩ := b
  simp only [mulIrDim] at hx
  rw [rho_cons, rho_nil, List.append_nil, ← hx, List.take_length]

theorem block_rho (A : Action) (irr : Irreps) (i : Nat) (b : MulIr) (h : irr[i]? = some b) (x : List ℝ)
    (hx : x.length = dim irr) : block irr i (rho A irr x) = rho A [b] (block irr i x) := by
  induction irr generalizing i x with
  | nil => simp at h
  | cons c rest ih =>
    obtain ⟨m, l, p⟩ := c
    simp only [dim_cons, mulIrDim] at hx
    have hl : (rhoC A (List.replicate m (l, p)) (x.take (m * irDim l))).length = m * irDim l := by
      rw [length_rhoC] <;> simp; omega
    cases i with
    | zero =>
      simp only [List.getElem?_cons_zero, Option.some.injEq] at h
      subst h
      rw [block_zero, block_zero, rho_cons, mulIrDim, List.take_left' hl, rho_single]
      simp [mulIrDim]; omega
    | succ i =>
      simp only [List.getElem?_cons_succ] at h
      rw [block_succ, block_succ, rho_cons, mulIrDim, List.drop_left' hl]
      exact ih i h _ (by simp; omega)

theorem fit_self (y : List ℝ) (n : Nat) (h : y.length = n) : fit y n = .ok y := by
  simp [fit, h]

theorem extractOne_ok (irrIn : Irreps) (x : List ℝ) (hx : x.length = dim irrIn) (out : Irreps)
    (ins : List Nat) (hW : WellFormed irrIn out ins) :
    extractOne irrIn x out ins = .ok ((ins.map fun i => block irrIn i x).flatten) := by
  induction out generalizing ins with
  | nil => cases ins <;> simp_all [WellFormed, extractOne]
  | cons b bs ih =>
    cases ins with
    | nil => simp [WellFormed] at hW
    | cons i is =>
      simp only [WellFormed, List.map_cons, List.cons.injEq] at hW
      obtain ⟨h0, hW'⟩ := hW
      simp only [extractOne, fit_self _ _ (length_block irrIn i b h0.symm x hx), ih is hW']
      rfl

theorem length_flatten_blocks (irrIn : Irreps) (x : List ℝ) (hx : x.length = dim irrIn) (out : Irreps)
    (ins : List Nat) (hW : WellFormed irrIn out ins) :
    ((ins.map fun i => block irrIn i x).flatten).length = dim out := by
  induction out generalizing ins with
  | nil => cases ins <;> simp_all [WellFormed]
  | cons b bs ih =>
    cases ins with
    | nil => simp [WellFormed] at hW
    | cons i is =>
      simp only [WellFormed, List.map_cons, List.cons.injEq] at hW
      obtain ⟨h0, hW'⟩ := hW
      simp only [List.map_cons, List.flatten_cons, List.length_append, dim_cons,
        length_block irrIn i b h0.symm x hx, ih is hW']

theorem flatten_blocks_rho (A : Action) (irrIn : Irreps) (x : List ℝ) (hx : x.length = dim irrIn)
    (out : Irreps) (ins : List Nat) (hW : WellFormed irrIn out ins) :
    (ins.map fun i => block irrIn i (rho A irrIn x)).flatten
      = rho A out ((ins.map fun i => block irrIn i x).flatten) := by
  induction out generalizing ins with
  | nil => cases ins <;> simp_all [WellFormed, rho_nil]
  | cons b bs ih =>
    cases ins with
    | nil => simp [WellFormed] at hW
    | cons i is =>
      simp only [WellFormed, List.map_cons, List.cons.injEq] at hW
      obtain ⟨h0, hW'⟩ := hW
      simp only [List.map_cons, List.flatten_cons]
      have := rho_append A [b] bs (block irrIn i x) ((is.map fun i => block irrIn i x).flatten)
        (by rw [length_block irrIn i b h0.symm x hx]; simp)
      simp only [List.singleton_append] at this
      rw [this, block_rho A irrIn i b h0.symm x hx, ih is hW']

theorem range_getElem? {α} (l : List α) : ((List.range l.length).map fun i => l[i]?) = l.map some := by
  apply List.ext_getElem?
  intro i
  by_cases h : i < l.length
  · simp [h]
  · simp [h]

/-- a feature vector is the concatenation of all its blocks -/
theorem flatten_all_blocks (irr : Irreps) (z : List ℝ) (hz : z.length = dim irr) :
    ((List.range irr.length).map fun i => block irr i z).flatten = z := by
  induction irr generalizing z with
  | nil => simp at hz; simp [hz]
  | cons c rest ih =>
    simp only [dim_cons] at hz
    rw [List.length_cons, List.range_succ_eq_map, List.map_cons, List.map_map, List.flatten_cons, block_zero]
    have : ((fun i => block (c :: rest) i z) ∘ Nat.succ) = fun i => block rest i (z.drop (mulIrDim c)) := by
      funext i; simp [block_succ]
    rw [this, ih _ (by simp; omega), List.take_append_drop]

/-- one output of `Extract` under the consistency assumption: it succeeds on inputs of the right length,
returns the selected blocks, and commutes with the action -/
theorem extractOut_equivariant (A : Action) (irrIn : Irreps) (x : List ℝ) (hx : x.length = dim irrIn)
    (out : Irreps) (ins : List Nat) (hW : WellFormed irrIn out ins) :
    extractOut irrIn x out ins = .ok ((ins.map fun i => block irrIn i x).flatten) ∧
    ((ins.map fun i => block irrIn i x).flatten).length = dim out ∧
    extractOut irrIn (rho A irrIn x) out ins = .ok (rho A out ((ins.map fun i => block irrIn i x).flatten)) := by
  have hlen := length_flatten_blocks irrIn x hx out ins hW
  have hx' := length_rho A irrIn x hx
  refine ⟨?_, hlen, ?_⟩
  · unfold extractOut
    split
    · rename_i h
      have h' : ins = List.range irrIn.length := by simpa using h
      rw [← extractOne_ok irrIn x hx out ins hW]
      subst h'
      have hout : out = irrIn := by
        have := hW; rw [WellFormed, range_getElem?] at this
        exact List.map_injective_iff.mpr (Option.some_injective _) this
      subst hout
      rw [fit_self _ _ hx, extractOne_ok out x hx out _ hW]
      congr 1
      exact (flatten_all_blocks out x hx).symm
    · exact extractOne_ok irrIn x hx out ins hW
  · rw [← flatten_blocks_rho A irrIn x hx out ins hW]
    unfold extractOut
    split
    · rename_i h
      have h' : ins = List.range irrIn.length := by simpa using h
      rw [← extractOne_ok irrIn _ hx' out ins hW]
      subst h'
      have hout : out = irrIn := by
        have := hW; rw [WellFormed, range_getElem?] at this
        exact List.map_injective_iff.mpr (Option.some_injective _) this
      subst hout
      rw [fit_self _ _ hx', extractOne_ok out _ hx' out _ hW]
      congr 1
      exact (flatten_all_blocks out _ hx').symm
    · exact extractOne_ok irrIn _ hx' out ins hW

/-- the blocks selected by one instruction -/
def selected (irrIn : Irreps) (x : List ℝ) (ins : List Nat) : List ℝ := (ins.map fun i => block irrIn i x).flatten

theorem extractAll_equivariant (A : Action) (irrIn : Irreps) (x : List ℝ) (hx : x.length = dim irrIn)
    (outs : List Irreps) (inss : List (List Nat)) (hW : List.Forall₂ (WellFormed irrIn) outs inss) :
    extractAll irrIn x outs inss = .ok (inss.map (selected irrIn x)) ∧
    extractAll irrIn (rho A irrIn x) outs inss = .ok (List.zipWith (rho A) outs (inss.map (selected irrIn x))) := by
  induction hW with
  | nil => simp [extractAll]
  | @cons o i os is h _ ih =>
    obtain ⟨h1, _, h3⟩ := extractOut_equivariant A irrIn x hx o i h
    simp only [extractAll, h1, h3, ih.1, ih.2, Except.map, List.map_cons, List.zipWith_cons_cons, selected, and_self]

/-- `Extract.forward` (all outputs) commutes with the action, output `k` carrying `irreps_outs[k]` -/
theorem extractFwd_equivariant (A : Action) (irrIn : Irreps) (x : List ℝ) (hx : x.length = dim irrIn)
    (outs : List Irreps) (inss : List (List Nat)) (hW : List.Forall₂ (WellFormed irrIn) outs inss) :
    extractFwd irrIn outs inss x = .ok (inss.map (selected irrIn x)) ∧
    extractFwd irrIn outs inss (rho A irrIn x)
      = .ok (List.zipWith (rho A) outs (inss.map (selected irrIn x))) := by
  have := extractAll_equivariant A irrIn x hx outs inss hW
  simp [extractFwd, hx, length_rho A irrIn x hx, this.1, this.2]

theorem irIndicesFrom_wellFormed (ir : Ir) (pre rest : Irreps) :
    (rest.filter fun b => b.2 == ir).map some
      = (irIndicesFrom ir pre.length rest).map fun i => (pre ++ rest)[i]? := by
  induction rest generalizing pre with
  | nil => simp [irIndicesFrom]
  | cons b bs ih =>
    have h := ih (pre ++ [b])
    simp only [List.length_append, List.length_singleton, List.append_assoc, List.singleton_append] at h
    simp only [List.filter_cons, irIndicesFrom]
    split
    · simp [h]
    · exact h

/-- `ExtractIr` builds consistent instructions -/
theorem extractIr_wellFormed (irr : Irreps) (ir : Ir) :
    WellFormed irr (extractIrOut irr ir) (extractIrIns irr ir) := by
  have := irIndicesFrom_wellFormed ir [] irr
  simpa [WellFormed, extractIrOut, extractIrIns] using this

/-- `ExtractIr` commutes with the action, with the reported `irreps_out` -/
theorem extractIrFwd_equivariant (A : Action) (irr : Irreps) (ir : Ir) (x : List ℝ) (hx : x.length = dim irr) :
    extractIrFwd irr ir x = .ok (selected irr x (extractIrIns irr ir)) ∧
    extractIrFwd irr ir (rho A irr x) = .ok (rho A (extractIrOut irr ir) (selected irr x (extractIrIns irr ir))) := by
  have := extractFwd_equivariant A irr x hx [extractIrOut irr ir] [extractIrIns irr ir]
    (List.Forall₂.cons (extractIr_wellFormed irr ir) List.Forall₂.nil)
  simp [extractIrFwd, this.1, this.2]



/-! ### `_Sortcut`: the sort permutation and the instructions -/

def tagFrom : Nat → Irreps → List (MulIr × Nat)
  | _, [] => []
  | i, b :: bs => (b, i) :: tagFrom (i + 1) bs

theorem insertSorted_perm (e : MulIr × Nat) (l : List (MulIr × Nat)) : (insertSorted e l).Perm (e :: l) := by
  induction l with
  | nil => simp [insertSorted]
  | cons h t ih =>
    simp only [insertSorted]
    split
    · exact (List.Perm.cons h ih).trans (List.Perm.swap e h t)
    · exact List.Perm.refl _

theorem sortIdxFrom_perm (i : Nat) (l : Irreps) : (sortIdxFrom i l).Perm (tagFrom i l) := by
  induction l generalizing i with
  | nil => simp [sortIdxFrom, tagFrom]
  | cons b bs ih =>
    simp only [sortIdxFrom, tagFrom]
    exact (insertSorted_perm _ _).trans (List.Perm.cons _ (ih (i + 1)))

theorem tagFrom_mem (pre l : Irreps) (e : MulIr × Nat) (he : e ∈ tagFrom pre.length l) :
    (pre ++ l)[e.2]? = some e.1 := by
  induction l generalizing pre with
  | nil => simp [tagFrom] at he
  | cons b bs ih =>
    simp only [tagFrom, List.mem_cons] at he
    rcases he with rfl | he
    · simp
    · have := ih (pre ++ [b]) (by simpa using he)
      simpa using this

theorem tagFrom_snd (i : Nat) (l : Irreps) : (tagFrom i l).map (·.2) = List.range' i l.length := by
  induction l generalizing i with
  | nil => rfl
  | cons b bs ih => simp [tagFrom, ih, List.range'_succ]

/-- block `i` of the concatenation is found in the sorted irreps at position `p[i] = inv.index(i)` -/
theorem sorted_lookup (cat : Irreps) (i : Nat) (hi : i < cat.length) :
    ((sortIdx cat).map (·.1))[((sortIdx cat).map (·.2)).idxOf i]? = cat[i]? := by
  have hperm := sortIdxFrom_perm 0 cat
  have hinv : ((sortIdx cat).map (·.2)).Perm (List.range' 0 cat.length) := by
    rw [← tagFrom_snd]; exact hperm.map _
  have hmem : i ∈ (sortIdx cat).map (·.2) := by
    rw [hinv.mem_iff]; simp [List.mem_range']; omega
  have hk := List.getElem?_idxOf hmem
  rw [List.getElem?_map] at hk
  rw [List.getElem?_map]
  cases hsrt : (sortIdx cat)[((sortIdx cat).map (·.2)).idxOf i]? with
  | none => simp [hsrt] at hk
  | some e =>
    simp only [hsrt, Option.map_some, Option.some.injEq] at hk
    have he : e ∈ sortIdx cat := List.mem_of_getElem? hsrt
    have he' : e ∈ tagFrom ([] : Irreps).length cat := by simpa using (hperm.mem_iff.mp he)
    have := tagFrom_mem [] cat e he'
    simp only [List.nil_append, hk] at this
    simp [this]

theorem range'_lookup (pre o rest : Irreps) :
    (List.range' pre.length o.length).map (fun i => (pre ++ o ++ rest)[i]?) = o.map some := by
  induction o generalizing pre with
  | nil => simp
  | cons b bs ih =>
    have := ih (pre ++ [b])
    simp only [List.length_append, List.length_singleton, List.append_assoc, List.singleton_append] at this
    simp only [List.length_cons, List.range'_succ, List.map_cons]
    rw [show pre ++ (b :: bs) ++ rest = pre ++ (b :: bs ++ rest) by simp, this]
    simp

theorem consecRanges_wellFormed (sorted : Irreps) (f : Nat → Nat) (pre : Irreps) (outs : List Irreps)
    (hf : ∀ i, i < (pre ++ outs.flatten).length → sorted[f i]? = (pre ++ outs.flatten)[i]?) :
    List.Forall₂ (WellFormed sorted) outs ((consecRanges pre.length outs).map fun r => r.map f) := by
  induction outs generalizing pre with
  | nil => simp [consecRanges]
  | cons o os ih =>
    simp only [consecRanges, List.map_cons]
    refine List.Forall₂.cons ?_ ?_
    · rw [WellFormed, List.map_map, ← range'_lookup pre o os.flatten]
      apply List.map_congr_left
      intro i hi
      simp only [List.mem_range'_1] at hi
      simp only [Function.comp]
      rw [hf i (by simp; omega)]
      simp
    · have := ih (pre ++ o) (by simpa using hf)
      simpa using this

/-- `_Sortcut` routes every block of the sorted input to an output block of the same irreps -/
theorem sortcut_wellFormed (outs : List Irreps) :
    List.Forall₂ (WellFormed (sortcut outs).sorted) (sortcut outs).outs (sortcut outs).instructions := by
  have := consecRanges_wellFormed ((sortIdx (outs.map simplify).flatten).map (·.1))
    (fun i => ((sortIdx (outs.map simplify).flatten).map (·.2)).idxOf i) [] (outs.map simplify)
    (by intro i hi; simp only [List.nil_append] at hi ⊢; exact sorted_lookup _ i hi)
  simpa [sortcut] using this

/-- the sorted irreps are a permutation of the concatenation: same total dimension -/
theorem dim_sorted (outs : List Irreps) : dim (sortcut outs).sorted = dim (outs.map simplify).flatten := by
  have h1 : ∀ (l : List (MulIr × Nat)) , dim (l.map (·.1)) = (l.map fun e => mulIrDim e.1).sum := by
    intro l; induction l with
    | nil => rfl
    | cons a as ih => simp [ih]
  have h2 : ∀ i (l : Irreps), ((tagFrom i l).map fun e => mulIrDim e.1).sum = dim l := by
    intro i l; induction l generalizing i with
    | nil => rfl
    | cons a as ih => simp [tagFrom, ih]
  simp only [sortcut]
  rw [h1, ← h2 0]
  exact ((sortIdxFrom_perm 0 _).map _).sum_eq


end
end E3nnVerif.Pointwise
