import Mathlib.Analysis.SpecialFunctions.Sqrt
import Mathlib.Data.Matrix.Mul
import E3nnVerif.Theory.ScalarReal
import E3nnVerif.Model.Pointwise
/-
C09 — lemmas about the model of the pointwise layers (Model/Pointwise.lean) instantiated at `K = ℝ`.

Plan.  `rho A irreps x` is the block action of one group element on a flat feature vector, defined per COPY
(`expand irreps` lists the copies), so that `simplify`, `+` and block selection are transparent to it.
  * `Action`: what the layers need from a group element (lengths, `Σx²`, homogeneity, signs on scalars);
    `OrthFamily.toAction`: every family of orthogonal matrices provides it; `O3Family.twisted`: `(l,odd) = (l,even)⊗0o`.
  * per-copy forms of the model's block loops (`sqNormsC`, `ewMulC`) and the two key facts
    `sqNormsC_rhoC` (invariants) and `ewMulC_rhoC[_twisted]` (multiplication by invariant / sign-carrying scalars).
  * one equivariance theorem per layer: `actBlocks_equivariant`, `normFwd_equivariant`, `normActFwd_equivariant`,
    `extractFwd_equivariant`, `gateFwd_equivariant`; closed forms `normActFwd_closed_form`, `normFwd_closed_form`,
    `gateFwd_formula`, `actBlocks_block`; `_Sortcut` bookkeeping `sortcut_wellFormed`, `sortcut_instructions_perm`;
    `ElementwiseTensorProduct` chunk alignment `expand_ewAlign`.
  * `Action.inversion` and the grid witness `wit`.
-/

namespace E3nnVerif.Pointwise
open E3nnVerif

@[simp] theorem zero_real : (Scalar.zero : ℝ) = 0 := by simp [Scalar.zero]

/-! ### layout -/
def cdim : List Ir → Nat
  | [] => 0
  | c :: cs => irDim c.1 + cdim cs

@[simp] theorem cdim_nil : cdim [] = 0 := rfl
@[simp] theorem cdim_cons (c : Ir) (cs) : cdim (c :: cs) = irDim c.1 + cdim cs := rfl
@[simp] theorem cdim_append (a b : List Ir) : cdim (a ++ b) = cdim a + cdim b := by
  induction a with
  | nil => simp
  | cons c cs ih => simp [ih]; omega
@[simp] theorem cdim_replicate (n : Nat) (c : Ir) : cdim (List.replicate n c) = n * irDim c.1 := by
  induction n with
  | zero => simp
  | succ n ih => simp [List.replicate_succ, ih]; ring

@[simp] theorem expand_nil : expand [] = [] := rfl
@[simp] theorem expand_cons (mul l p bs) : expand ((mul, l, p) :: bs) = List.replicate mul (l, p) ++ expand bs := rfl
@[simp] theorem expand_append (a b : Irreps) : expand (a ++ b) = expand a ++ expand b := by
  induction a with
  | nil => simp
  | cons c cs ih => obtain ⟨m, l, p⟩ := c; simp [ih]

@[simp] theorem dim_nil : dim [] = 0 := rfl
@[simp] theorem dim_cons (b bs) : dim (b :: bs) = mulIrDim b + dim bs := rfl
@[simp] theorem dim_append (a b : Irreps) : dim (a ++ b) = dim a + dim b := by
  induction a with
  | nil => simp
  | cons c cs ih => simp [ih]; omega

theorem cdim_expand (irr : Irreps) : cdim (expand irr) = dim irr := by
  induction irr with
  | nil => rfl
  | cons b bs ih => obtain ⟨m, l, p⟩ := b; simp [ih, mulIrDim]

theorem length_expand (irr : Irreps) : (expand irr).length = numIrreps irr := by
  induction irr with
  | nil => rfl
  | cons b bs ih => obtain ⟨m, l, p⟩ := b; simp [ih, numIrreps]

theorem expand_simplifyAux (acc rest : Irreps) :
    expand (simplifyAux acc rest) = expand acc.reverse ++ expand rest := by
  induction rest generalizing acc with
  | nil => simp [simplifyAux]
  | cons b bs ih =>
    obtain ⟨m, ir⟩ := b
    obtain ⟨l, p⟩ := ir
    cases acc with
    | nil =>
      simp only [simplifyAux]
      split
      · rw [ih]; simp
      · rw [ih]; have : m = 0 := by omega
        simp [this]
    | cons a as =>
      obtain ⟨m0, l0, p0⟩ := a
      simp only [simplifyAux]
      split
      · rename_i h
        have h' : (l0, p0) = (l, p) := by simpa using h
        obtain ⟨rfl, rfl⟩ := Prod.mk.inj h'
        rw [ih]; simp only [List.reverse_cons, expand_append, expand_cons, expand_nil, List.append_nil, List.append_assoc, List.replicate_add]
      · split
        · rw [ih]; simp
        · rw [ih]; have : m = 0 := by omega
          simp [this]

theorem expand_simplify (irr : Irreps) : expand (simplify irr) = expand irr := by
  simp [simplify, expand_simplifyAux]

theorem dim_simplify (irr : Irreps) : dim (simplify irr) = dim irr := by
  rw [← cdim_expand, expand_simplify, cdim_expand]

noncomputable section

/-! ### the block action of a group element -/

/-- One element of O(3) acting on every irrep type: `M l odd` acts on a copy of degree `l`.  Only what the
layers use is required: lengths, preservation of `Σ x²`, homogeneity, and the scalar blocks
(`0e` fixed, `0o` multiplied by `σ = ±1`). -/
structure Action where
  M : Nat → Bool → List ℝ → List ℝ
  σ : ℝ
  hσ : σ = 1 ∨ σ = -1
  len : ∀ l p v, v.length = irDim l → (M l p v).length = irDim l
  normSq : ∀ l p v, v.length = irDim l → sumSq (M l p v) = sumSq v
  smul : ∀ l p (c : ℝ) v, v.length = irDim l → M l p (v.map (· * c)) = (M l p v).map (· * c)
  even0 : ∀ a, M 0 false [a] = [a]
  odd0 : ∀ a, M 0 true [a] = [σ * a]

/-- `(l, odd) = (l, even) ⊗ 0o`: needed only where a layer multiplies by an odd scalar (Gate) -/
def Action.Twisted (A : Action) : Prop :=
  ∀ l p v, v.length = irDim l → A.M l (!p) v = (A.M l p v).map (· * A.σ)

/-- sign by which the group element acts on a scalar of parity `p` -/
def Action.sgn (A : Action) (p : Bool) : ℝ := if p then A.σ else 1

theorem Action.sgn_sq (A : Action) (p : Bool) : A.sgn p * A.sgn p = 1 := by
  unfold Action.sgn; split
  · rcases A.hσ with h | h <;> simp [h]
  · simp

theorem Action.scalar (A : Action) (p : Bool) (a : ℝ) : A.M 0 p [a] = [A.sgn p * a] := by
  cases p <;> simp [Action.sgn, A.even0, A.odd0]

def rhoC (A : Action) : List Ir → List ℝ → List ℝ
  | [], _ => []
  | (l, p) :: cs, x => A.M l p (x.take (irDim l)) ++ rhoC A cs (x.drop (irDim l))

/-- the representation `irreps.D(g)` applied to one feature fibre -/
def rho (A : Action) (irr : Irreps) (x : List ℝ) : List ℝ := rhoC A (expand irr) x

@[simp] theorem rhoC_nil (A : Action) (x) : rhoC A [] x = [] := rfl

theorem rhoC_append (A : Action) (a b : List Ir) (x : List ℝ) :
    rhoC A (a ++ b) x = rhoC A a (x.take (cdim a)) ++ rhoC A b (x.drop (cdim a)) := by
  induction a generalizing x with
  | nil => simp
  | cons c cs ih =>
    obtain ⟨l, p⟩ := c
    simp only [List.cons_append, rhoC, cdim_cons, ih, List.append_assoc]
    congr 2
    · simp [List.take_take]
    · congr 1
      · rw [List.drop_take]; simp
    · simp [List.drop_drop]

theorem length_rhoC (A : Action) (cs : List Ir) (x : List ℝ) (hx : x.length = cdim cs) :
    (rhoC A cs x).length = cdim cs := by
  induction cs generalizing x with
  | nil => simp
  | cons c cs ih =>
    obtain ⟨l, p⟩ := c
    simp only [cdim_cons] at hx
    simp only [rhoC, List.length_append, cdim_cons]
    rw [A.len, ih]
    · simp; omega
    · simp; omega

theorem length_rho (A : Action) (irr : Irreps) (x : List ℝ) (hx : x.length = dim irr) :
    (rho A irr x).length = dim irr := by
  unfold rho; rw [length_rhoC, cdim_expand]; rw [cdim_expand]; exact hx

theorem rho_simplify (A : Action) (irr : Irreps) (x : List ℝ) : rho A (simplify irr) x = rho A irr x := by
  simp [rho, expand_simplify]

theorem rho_append (A : Action) (a b : Irreps) (x y : List ℝ) (hx : x.length = dim a) :
    rho A (a ++ b) (x ++ y) = rho A a x ++ rho A b y := by
  simp [rho, rhoC_append, cdim_expand, ← hx]

theorem rho_nil (A : Action) (x) : rho A [] x = [] := rfl

/-! ### per-copy forms of the model's block loops -/

def sqNormsC : List Ir → List ℝ → List ℝ
  | [], _ => []
  | (l, _) :: cs, x => sumSq (x.take (irDim l)) :: sqNormsC cs (x.drop (irDim l))

theorem sqNormsC_replicate (n l : Nat) (p : Bool) (cs : List Ir) (x : List ℝ) :
    sqNormsC (List.replicate n (l, p) ++ cs) x
      = copySqNorms (irDim l) n (x.take (n * irDim l)) ++ sqNormsC cs (x.drop (n * irDim l)) := by
  induction n generalizing x with
  | zero => simp [copySqNorms]
  | succ n ih =>
    simp only [List.replicate_succ, List.cons_append, sqNormsC, copySqNorms, ih]
    have h1 : (x.take ((n + 1) * irDim l)).take (irDim l) = x.take (irDim l) := by
      rw [List.take_take]; congr 1; rw [Nat.add_mul]; omega
    have h2 : (x.take ((n + 1) * irDim l)).drop (irDim l) = (x.drop (irDim l)).take (n * irDim l) := by
      rw [List.drop_take]; congr 1; rw [Nat.add_mul]; omega
    have h3 : (x.drop (irDim l)).drop (n * irDim l) = x.drop ((n + 1) * irDim l) := by
      rw [List.drop_drop]; congr 1; rw [Nat.add_mul]; omega
    rw [h1, h2, h3]

theorem sqNorms_eq (irr : Irreps) (x : List ℝ) : sqNorms irr x = sqNormsC (expand irr) x := by
  induction irr generalizing x with
  | nil => rfl
  | cons b bs ih =>
    obtain ⟨m, l, p⟩ := b
    simp only [sqNorms, expand_cons, sqNormsC_replicate, ih]

def ewMulC : List Ir → List ℝ → List ℝ → List ℝ
  | [], _, _ => []
  | _ :: _, [], _ => []
  | (l, _) :: cs, g :: gs, x => (x.take (irDim l)).map (· * g) ++ ewMulC cs gs (x.drop (irDim l))

@[simp] theorem ewMulC_nil_g (cs : List Ir) (x : List ℝ) : ewMulC cs [] x = [] := by
  cases cs <;> rfl

theorem ewMulC_replicate (n l : Nat) (p : Bool) (cs : List Ir) (g x : List ℝ) :
    ewMulC (List.replicate n (l, p) ++ cs) g x
      = scaleCopies (irDim l) n (g.take n) (x.take (n * irDim l))
          ++ ewMulC cs (g.drop n) (x.drop (n * irDim l)) := by
  induction n generalizing x g with
  | zero => simp [scaleCopies]
  | succ n ih =>
    cases g with
    | nil => simp [scaleCopies, List.replicate_succ]
    | cons g0 gs =>
      simp only [List.replicate_succ, List.cons_append, ewMulC, List.take_succ_cons, scaleCopies, ih,
        List.drop_succ_cons]
      have h1 : (x.take ((n + 1) * irDim l)).take (irDim l) = x.take (irDim l) := by
        rw [List.take_take]; congr 1; rw [Nat.add_mul]; omega
      have h2 : (x.take ((n + 1) * irDim l)).drop (irDim l) = (x.drop (irDim l)).take (n * irDim l) := by
        rw [List.drop_take]; congr 1; rw [Nat.add_mul]; omega
      have h3 : (x.drop (irDim l)).drop (n * irDim l) = x.drop ((n + 1) * irDim l) := by
        rw [List.drop_drop]; congr 1; rw [Nat.add_mul]; omega
      rw [h1, h2, h3]; simp

theorem ewMul_eq (irr : Irreps) (g x : List ℝ) : ewMul irr g x = ewMulC (expand irr) g x := by
  induction irr generalizing x g with
  | nil => rfl
  | cons b bs ih =>
    obtain ⟨m, l, p⟩ := b
    simp only [ewMul, expand_cons, ewMulC_replicate, ih]



/-! ### invariants and scalar multiplication commute with the action -/

theorem sqNormsC_rhoC (A : Action) (cs : List Ir) (x : List ℝ) (hx : x.length = cdim cs) :
    sqNormsC cs (rhoC A cs x) = sqNormsC cs x := by
  induction cs generalizing x with
  | nil => rfl
  | cons c cs ih =>
    obtain ⟨l, p⟩ := c
    simp only [cdim_cons] at hx
    have hl : (A.M l p (x.take (irDim l))).length = irDim l := A.len _ _ _ (by simp; omega)
    simp only [rhoC, sqNormsC, List.take_left' hl, List.drop_left' hl]
    rw [A.normSq _ _ _ (by simp; omega), ih _ (by simp; omega)]

theorem length_sqNormsC (cs : List Ir) (x : List ℝ) : (sqNormsC cs x).length = cs.length := by
  induction cs generalizing x with
  | nil => rfl
  | cons c cs ih => obtain ⟨l, p⟩ := c; simp [sqNormsC, ih]

/-- multiplying copy `u` by an invariant scalar `g_u` commutes with the action -/
theorem ewMulC_rhoC (A : Action) (cs : List Ir) (g x : List ℝ) (hg : cs.length ≤ g.length)
    (hx : x.length = cdim cs) :
    ewMulC cs g (rhoC A cs x) = rhoC A cs (ewMulC cs g x) := by
  induction cs generalizing x g with
  | nil => rfl
  | cons c cs ih =>
    obtain ⟨l, p⟩ := c
    cases g with
    | nil => simp at hg
    | cons g0 gs =>
      simp only [cdim_cons] at hx
      simp only [List.length_cons, Nat.add_le_add_iff_right] at hg
      have hl : (A.M l p (x.take (irDim l))).length = irDim l := A.len _ _ _ (by simp; omega)
      have hl' : ((x.take (irDim l)).map (· * g0)).length = irDim l := by simp; omega
      simp only [rhoC, ewMulC, List.take_left' hl, List.drop_left' hl, List.take_left' hl', List.drop_left' hl']
      rw [A.smul _ _ _ _ (by simp; omega), ih _ _ hg (by simp; omega)]

theorem length_ewMulC (cs : List Ir) (g x : List ℝ) (hg : cs.length ≤ g.length) (hx : x.length = cdim cs) :
    (ewMulC cs g x).length = cdim cs := by
  induction cs generalizing x g with
  | nil => rfl
  | cons c cs ih =>
    obtain ⟨l, p⟩ := c
    cases g with
    | nil => simp at hg
    | cons g0 gs =>
      simp only [cdim_cons] at hx
      simp only [List.length_cons, Nat.add_le_add_iff_right] at hg
      simp only [ewMulC, List.length_append, List.length_map, List.length_take, cdim_cons]
      rw [ih _ _ hg (by simp; omega)]; omega

/-- output type of a copy `(l, p)` multiplied by a scalar of parity `pg` -/
def twist (c : Ir) (pg : Bool) : Ir := (c.1, c.2 != pg)

/-- the scalars transform too (a gate of parity `pg` picks up `sgn pg`): the product transforms with the
twisted parity.  Needs `(l, !p) = (l, p) ⊗ 0o`. -/
theorem ewMulC_rhoC_twisted (A : Action) (hA : A.Twisted) (cs : List Ir) (gp : List Bool) (g x : List ℝ)
    (hgp : gp.length = cs.length) (hg : g.length = cs.length) (hx : x.length = cdim cs) :
    ewMulC cs (List.zipWith (fun p a => A.sgn p * a) gp g) (rhoC A cs x)
      = rhoC A (List.zipWith twist cs gp) (ewMulC cs g x) := by
  induction cs generalizing x g gp with
  | nil => simp [ewMulC]
  | cons c cs ih =>
    obtain ⟨l, p⟩ := c
    cases g with
    | nil => simp at hg
    | cons g0 gs =>
    cases gp with
    | nil => simp at hgp
    | cons pg gps =>
      simp only [cdim_cons] at hx
      simp only [List.length_cons, Nat.add_right_cancel_iff] at hg hgp
      have hl : (A.M l p (x.take (irDim l))).length = irDim l := A.len _ _ _ (by simp; omega)
      have hl' : ((x.take (irDim l)).map (· * g0)).length = irDim l := by simp; omega
      simp only [List.zipWith_cons_cons, rhoC, ewMulC, twist, List.take_left' hl, List.drop_left' hl,
        List.take_left' hl', List.drop_left' hl']
      rw [A.smul _ _ _ _ (by simp; omega)]
      have ih' := ih gps gs (x.drop (irDim l)) hgp hg (by simp; omega)
      rw [ih']
      congr 1
      cases pg with
      | false => simp [Action.sgn]
      | true =>
        have : (p != true) = !p := by cases p <;> rfl
        rw [this, hA l p _ (by simp; omega)]
        simp [Action.sgn, List.map_map, Function.comp_def, mul_assoc]

/-- on a list of scalar copies the action is the list of signs -/
theorem rhoC_scalars (A : Action) (ps : List Bool) (g : List ℝ) (hg : g.length = ps.length) :
    rhoC A (ps.map fun p => (0, p)) g = List.zipWith (fun p a => A.sgn p * a) ps g := by
  induction ps generalizing g with
  | nil => simp
  | cons p ps ih =>
    cases g with
    | nil => simp at hg
    | cons g0 gs =>
      simp only [List.length_cons, Nat.add_right_cancel_iff] at hg
      simp only [List.map_cons, rhoC, irDim, List.zipWith_cons_cons]
      simp [A.scalar, ih gs hg]



/-! ### Activation -/

/-- the detection flags tell the truth about the function on all of ℝ -/
def Truthful (a : Act ℝ) (d : Detect) : Prop :=
  (d.even = true → ∀ t, a.f (-t) = a.f t) ∧ (d.odd = true → ∀ t, a.f (-t) = -a.f t)

/-- the activation list given to the constructor (seen through the grid test) and to the forward -/
inductive Specs : List (Option (Act ℝ)) → List (Option Detect) → Prop
  | nil : Specs [] []
  | none {as ds} : Specs as ds → Specs (none :: as) (none :: ds)
  | some {a d as ds} : Truthful a d → Specs as ds → Specs (some a :: as) (some d :: ds)

theorem Specs.length_eq {as ds} (h : Specs as ds) : as.length = ds.length := by
  induction h <;> simp [*]

theorem act_scalar_comm (A : Action) (a : Act ℝ) (d : Detect) (hT : Truthful a d) (p q : Bool)
    (h : (if p then d.pAct else some p) = some q) (t : ℝ) :
    a.apply (A.sgn p * t) = A.sgn q * a.apply t := by
  cases p with
  | false =>
    simp only [Bool.false_eq_true, if_false, Option.some.injEq] at h
    subst h; simp [Action.sgn]
  | true =>
    simp only [if_true, Detect.pAct] at h
    rcases A.hσ with hs | hs
    · cases q <;> simp [Action.sgn, hs]
    · by_cases he : d.even = true
      · simp only [he, if_true, Option.some.injEq] at h
        subst h
        simp [Action.sgn, hs, Act.apply, hT.1 he]
      · by_cases ho : d.odd = true
        · simp [he, ho] at h
          subst h
          simp only [Action.sgn, hs, Act.apply, if_true, neg_mul, one_mul, hT.2 ho]
          split <;> ring
        · simp [he, ho] at h

theorem rhoC_replicate_scalars (A : Action) (n : Nat) (p : Bool) (cs : List Ir) (x : List ℝ)
    (hx : n ≤ x.length) :
    rhoC A (List.replicate n (0, p) ++ cs) x = (x.take n).map (A.sgn p * ·) ++ rhoC A cs (x.drop n) := by
  induction n generalizing x with
  | zero => simp
  | succ n ih =>
    cases x with
    | nil => simp at hx
    | cons a xs =>
      simp only [List.length_cons, Nat.add_le_add_iff_right] at hx
      simp only [List.replicate_succ, List.cons_append, rhoC, irDim, Nat.mul_zero, Nat.zero_add,
        List.take_succ_cons, List.take_zero, List.drop_succ_cons, List.drop_zero, A.scalar, ih xs hx]
      simp

theorem rho_cons (A : Action) (mul l : Nat) (p : Bool) (rest : Irreps) (x : List ℝ) :
    rho A ((mul, l, p) :: rest) x
      = rhoC A (List.replicate mul (l, p)) (x.take (mul * irDim l)) ++ rho A rest (x.drop (mul * irDim l)) := by
  simp [rho, rhoC_append]

theorem rho_cons_scalar (A : Action) (mul : Nat) (p : Bool) (rest : Irreps) (x : List ℝ)
    (hx : mul ≤ x.length) :
    rho A ((mul, 0, p) :: rest) x = (x.take mul).map (A.sgn p * ·) ++ rho A rest (x.drop mul) := by
  simp [rho, rhoC_replicate_scalars A mul p _ x hx]

/-- `Activation`: for a layout accepted by the constructor with truthful detection, the forward succeeds on
every input of the right length and commutes with the action, the output carrying the reported irreps -/
theorem actBlocks_equivariant (A : Action) (irr : Irreps) (acts : List (Option (Act ℝ)))
    (dets : List (Option Detect)) (hS : Specs acts dets) (out : Irreps)
    (hC : actOutLoop irr dets = .ok out) (hlen : irr.length = dets.length)
    (x : List ℝ) (hx : x.length = dim irr) :
    ∃ y, actBlocks irr acts x = .ok y ∧ y.length = dim out ∧
      actBlocks irr acts (rho A irr x) = .ok (rho A out y) := by
  induction irr generalizing acts dets out x with
  | nil =>
    simp only [actOutLoop, Except.ok.injEq] at hC
    subst hC
    exact ⟨[], by simp [actBlocks], rfl, by simp [actBlocks, rho_nil]⟩
  | cons b rest ih =>
    obtain ⟨mul, l, p⟩ := b
    cases hS with
    | nil => simp at hlen
    | @none as ds hS' =>
      simp only [List.length_cons, Nat.add_right_cancel_iff] at hlen
      simp only [actOutLoop] at hC
      cases hrec : actOutLoop rest ds with
      | error e => simp [hrec, Except.map] at hC
      | ok out' =>
        simp only [hrec, Except.map, Except.ok.injEq] at hC
        subst hC
        simp only [dim_cons, mulIrDim] at hx
        obtain ⟨y', hy1, hy2, hy3⟩ := ih as ds hS' out' hrec hlen (x.drop (mul * irDim l)) (by simp; omega)
        refine ⟨x.take (mul * irDim l) ++ y', ?_, ?_, ?_⟩
        · simp only [actBlocks]
          rw [if_neg (by omega), hy1]; rfl
        · simp [mulIrDim, hy2]; omega
        · have hl : (rhoC A (List.replicate mul (l, p)) (x.take (mul * irDim l))).length = mul * irDim l := by
            rw [length_rhoC] <;> simp; omega
          have hl2 : (x.take (mul * irDim l)).length = mul * irDim l := by simp; omega
          simp only [actBlocks, rho_cons, List.length_append, hl, List.take_left' hl, List.drop_left' hl,
            List.take_left' hl2, List.drop_left' hl2]
          rw [if_neg (by omega), hy3]; rfl
    | @some a d as ds hT hS' =>
      simp only [List.length_cons, Nat.add_right_cancel_iff] at hlen
      simp only [actOutLoop] at hC
      by_cases hl0 : l = 0
      · subst hl0
        simp only [bne_self_eq_false, Bool.false_eq_true, if_false] at hC
        cases hq : (if p then d.pAct else some p) with
        | none => simp [hq] at hC
        | some q =>
          simp only [hq] at hC
          cases hrec : actOutLoop rest ds with
          | error e => simp [hrec, Except.map] at hC
          | ok out' =>
            simp only [hrec, Except.map, Except.ok.injEq] at hC
            subst hC
            simp only [dim_cons, mulIrDim, irDim, Nat.mul_zero, Nat.zero_add, Nat.mul_one] at hx
            obtain ⟨y', hy1, hy2, hy3⟩ := ih as ds hS' out' hrec hlen (x.drop mul) (by simp; omega)
            refine ⟨(x.take mul).map a.apply ++ y', ?_, ?_, ?_⟩
            · simp only [actBlocks, irDim, Nat.mul_zero, Nat.zero_add, Nat.mul_one]
              rw [if_neg (by omega), hy1]; rfl
            · simp [mulIrDim, irDim, hy2]; omega
            · have hl : ((x.take mul).map (A.sgn p * ·)).length = mul := by simp; omega
              have hl2 : ((x.take mul).map a.apply).length = mul := by simp; omega
              rw [rho_cons_scalar A mul p rest x (by omega),
                rho_cons_scalar A mul q out' _ (by simp; omega)]
              simp only [actBlocks, irDim, Nat.mul_zero, Nat.zero_add, Nat.mul_one, List.length_append, hl,
                List.take_left' hl, List.drop_left' hl, List.take_left' hl2, List.drop_left' hl2]
              rw [if_neg (by omega), hy3]
              simp only [Except.map, List.map_map, Function.comp_def, act_scalar_comm A a d hT p q hq]
      · have : (l != 0) = true := by simpa using hl0
        simp [this] at hC



/-! ### Norm -/

theorem sumSq_nonneg (v : List ℝ) : 0 ≤ sumSq v := by
  induction v with
  | nil => simp [sumSq]
  | cons a as ih => simp only [sumSq]; nlinarith [mul_self_nonneg a]

theorem relu_of_nonneg (a : ℝ) (h : 0 ≤ a) : relu a = a := by
  simp [relu, not_lt.mpr h]

theorem expand_scalars_even (irr : Irreps) :
    expand (irr.map fun b => (b.1, 0, false)) = List.replicate (numIrreps irr) (0, false) := by
  induction irr with
  | nil => rfl
  | cons b bs ih =>
    obtain ⟨m, l, p⟩ := b
    simp only [List.map_cons, expand_cons, ih, numIrreps, List.replicate_add]

theorem numIrreps_simplify (irr : Irreps) : numIrreps (simplify irr) = numIrreps irr := by
  rw [← length_expand, expand_simplify, length_expand]

theorem expand_normIrrepsOut (irr : Irreps) :
    expand (normIrrepsOut irr) = List.replicate (numIrreps irr) (0, false) := by
  rw [normIrrepsOut, expand_simplify, expand_scalars_even, numIrreps_simplify]

theorem dim_normIrrepsOut (irr : Irreps) : dim (normIrrepsOut irr) = numIrreps irr := by
  rw [← cdim_expand, expand_normIrrepsOut]; simp [irDim]

/-- the action on `n x 0e` is trivial -/
theorem rhoC_even_scalars (A : Action) (n : Nat) (y : List ℝ) (hy : y.length = n) :
    rhoC A (List.replicate n (0, false)) y = y := by
  have := rhoC_replicate_scalars A n false [] y (by omega)
  simp only [List.append_nil] at this
  rw [this]; subst hy; simp [Action.sgn]

theorem length_sqNorms (irr : Irreps) (x : List ℝ) : (sqNorms irr x).length = numIrreps irr := by
  rw [sqNorms_eq, length_sqNormsC, length_expand]

theorem sqNorms_rho (A : Action) (irr : Irreps) (x : List ℝ) (hx : x.length = dim irr) :
    sqNorms irr (rho A irr x) = sqNorms irr x := by
  rw [sqNorms_eq, sqNorms_eq, rho, sqNormsC_rhoC A _ x (by rw [cdim_expand]; exact hx)]

theorem normFwd_ok (irr : Irreps) (sq : Bool) (x : List ℝ) (hx : x.length = dim irr) :
    normFwd irr sq x = .ok (if sq then sqNorms irr x else (sqNorms irr x).map fun n => Scalar.sqrt (relu n)) := by
  simp [normFwd, hx]

/-- `o3.Norm` is invariant: input transformed with the reported `irreps_in`, output with the reported `irreps_out` -/
theorem normFwd_equivariant (A : Action) (irr : Irreps) (sq : Bool) (x : List ℝ) (hx : x.length = dim irr) :
    ∃ y, normFwd irr sq x = .ok y ∧ y.length = dim (normIrrepsOut irr) ∧
      normFwd irr sq (rho A (normIrrepsIn irr) x) = .ok (rho A (normIrrepsOut irr) y) := by
  refine ⟨_, normFwd_ok irr sq x hx, ?_, ?_⟩
  · rw [dim_normIrrepsOut]; split <;> simp [length_sqNorms]
  · rw [normIrrepsIn, rho_simplify, normFwd_ok irr sq _ (length_rho A irr x hx), sqNorms_rho A irr x hx]
    congr 1
    rw [rho, expand_normIrrepsOut, rhoC_even_scalars]
    split <;> simp [length_sqNorms]

/-! ### NormActivation -/

theorem length_clampNorms (epsilon : Option ℝ) (n0 : List ℝ) : (clampNorms epsilon n0).length = n0.length := by
  unfold clampNorms; simp only []; split <;> split <;> simp

theorem length_normActScalings (phi : ℝ → ℝ) (normalize : Bool) (bias : Option (List ℝ))
    (n : List ℝ) (hb : ∀ b, bias = some b → n.length ≤ b.length) :
    (normActScalings phi normalize bias n).length = n.length := by
  unfold normActScalings
  cases bias with
  | none => cases normalize <;> simp
  | some b =>
    have := hb b rfl
    cases normalize <;> simp <;> omega

/-- `NormActivation` commutes with the action (any nonlinearity, any stored epsilon, normalize or not, bias or not),
for every input including zero vectors -/
theorem normActFwd_equivariant (A : Action) (irr : Irreps) (phi : ℝ → ℝ) (normalize : Bool)
    (epsilon : Option ℝ) (bias : Option (List ℝ)) (hb : ∀ b, bias = some b → numIrreps irr ≤ b.length)
    (x : List ℝ) (hx : x.length = dim irr) :
    ∃ y, normActFwd irr phi normalize epsilon bias x = .ok y ∧ y.length = dim irr ∧
      normActFwd irr phi normalize epsilon bias (rho A irr x) = .ok (rho A irr y) := by
  have hlen : ∀ sq, (if sq = true then sqNorms irr x else (sqNorms irr x).map fun n => Scalar.sqrt (relu n)).length
      = numIrreps irr := by
    intro sq; split <;> simp [length_sqNorms]
  have hs := length_normActScalings phi normalize bias (clampNorms epsilon
      (if epsilon.isSome = true then sqNorms irr x else (sqNorms irr x).map fun n => Scalar.sqrt (relu n)))
      (fun b h => by rw [length_clampNorms, hlen]; exact hb b h)
  rw [length_clampNorms, hlen] at hs
  refine ⟨_, by rw [normActFwd, normFwd_ok irr _ x hx], ?_, ?_⟩
  · rw [ewMul_eq, length_ewMulC _ _ _ (by rw [hs, length_expand]) (by rw [cdim_expand]; exact hx), cdim_expand]
  · rw [normActFwd, normFwd_ok irr _ _ (length_rho A irr x hx), sqNorms_rho A irr x hx]
    simp only []
    rw [ewMul_eq, ewMul_eq, rho, rho,
      ewMulC_rhoC A _ _ x (by rw [hs, length_expand]) (by rw [cdim_expand]; exact hx)]



/-! ### closed forms per copy -/

theorem sumSq_eq_sum (v : List ℝ) : sumSq v = (v.map fun a => a ^ 2).sum := by
  induction v with
  | nil => simp [sumSq]
  | cons a as ih => simp [sumSq, ih, pow_two]

/-- copy `u` multiplied by `s_u (Σ_m x_{u,m}²)`: a rescaling by a function of the copy's Euclidean norm only -/
def scaleByC : List Ir → List (ℝ → ℝ) → List ℝ → List ℝ
  | [], _, _ => []
  | _ :: _, [], _ => []
  | (l, _) :: cs, s :: ss, x =>
    (x.take (irDim l)).map (· * s (sumSq (x.take (irDim l)))) ++ scaleByC cs ss (x.drop (irDim l))

/-- `sqrt(max(q, ε²))`: the clamped norm of a copy with squared norm `q` -/
def clampNorm (ε q : ℝ) : ℝ := Real.sqrt (if q < ε * ε then ε * ε else q)

/-- the factor applied to a copy of squared norm `q` with bias `b` -/
def normScale (phi : ℝ → ℝ) (normalize : Bool) (ε b q : ℝ) : ℝ :=
  if normalize then phi (clampNorm ε q + b) / clampNorm ε q else phi (clampNorm ε q + b)

theorem clampNorm_of_ge {ε q : ℝ} (h : ε * ε ≤ q) : clampNorm ε q = Real.sqrt q := by
  simp [clampNorm, not_lt.mpr h]

theorem clampNorm_of_lt {ε q : ℝ} (hε : 0 < ε) (h : q < ε * ε) : clampNorm ε q = ε := by
  simp [clampNorm, h, Real.sqrt_mul_self hε.le]

theorem clampNorm_pos {ε : ℝ} (hε : 0 < ε) (q : ℝ) : 0 < clampNorm ε q := by
  unfold clampNorm; apply Real.sqrt_pos.mpr
  split
  · exact mul_pos hε hε
  · rename_i h; exact lt_of_lt_of_le (mul_pos hε hε) (not_lt.mp h)

theorem clampNorms_cons {ε : ℝ} (hε : 0 < ε) (q : ℝ) (qs : List ℝ) :
    clampNorms (some ε) (q :: qs) = clampNorm ε q :: clampNorms (some ε) qs := by
  simp [clampNorms, clampNorm, mul_pos hε hε]

theorem normActScalings_cons (phi : ℝ → ℝ) (nz : Bool) (b0 : ℝ) (bs : List ℝ) (n : ℝ) (ns : List ℝ) :
    normActScalings phi nz (some (b0 :: bs)) (n :: ns)
      = (if nz then phi (n + b0) / n else phi (n + b0)) :: normActScalings phi nz (some bs) ns := by
  cases nz <;> simp [normActScalings]

theorem normActScalings_none (phi : ℝ → ℝ) (nz : Bool) (ns : List ℝ) :
    normActScalings phi nz none ns = normActScalings phi nz (some (List.replicate ns.length 0)) ns := by
  have : List.zipWith (fun x1 x2 : ℝ => x1 + x2) ns (List.replicate ns.length 0) = ns := by
    induction ns with
    | nil => rfl
    | cons a as ih => simp [List.replicate_succ, ih]
  simp [normActScalings, this]

theorem ewMulC_scalings {ε : ℝ} (hε : 0 < ε) (phi : ℝ → ℝ) (nz : Bool) (cs : List Ir) (b x : List ℝ)
    (hb : b.length = cs.length) :
    ewMulC cs (normActScalings phi nz (some b) (clampNorms (some ε) (sqNormsC cs x))) x
      = scaleByC cs (b.map (normScale phi nz ε)) x := by
  induction cs generalizing x b with
  | nil => rfl
  | cons c cs ih =>
    obtain ⟨l, p⟩ := c
    cases b with
    | nil => simp at hb
    | cons b0 bs =>
      simp only [List.length_cons, Nat.add_right_cancel_iff] at hb
      simp only [sqNormsC, clampNorms_cons hε, normActScalings_cons, ewMulC, List.map_cons, scaleByC, ih _ _ hb]
      congr 1

/-- the bias vector as a list (`0` without bias) -/
def biasList (bias : Option (List ℝ)) (n : Nat) : List ℝ :=
  match bias with | some b => b | none => List.replicate n 0

/-- `NormActivation` in closed form: copy `u` is multiplied by `normScale φ normalize ε b_u (‖x_u‖²)` -/
theorem normActFwd_closed_form {ε : ℝ} (hε : 0 < ε) (irr : Irreps) (phi : ℝ → ℝ) (nz : Bool)
    (bias : Option (List ℝ)) (hb : ∀ b, bias = some b → b.length = numIrreps irr)
    (x : List ℝ) (hx : x.length = dim irr) :
    normActFwd irr phi nz (some ε) bias x
      = .ok (scaleByC (expand irr) ((biasList bias (numIrreps irr)).map (normScale phi nz ε)) x) := by
  rw [normActFwd, normFwd_ok irr _ x hx]
  simp only [Option.isSome_some, if_true, ewMul_eq, sqNorms_eq]
  cases bias with
  | some b => rw [ewMulC_scalings hε _ _ _ _ _ (by rw [hb b rfl, length_expand])]; rfl
  | none =>
    rw [normActScalings_none, length_clampNorms, length_sqNormsC,
      ewMulC_scalings hε _ _ _ _ _ (by simp), length_expand]; rfl

theorem scaleByC_zero (cs : List Ir) (ss : List (ℝ → ℝ)) (hs : cs.length ≤ ss.length) :
    scaleByC cs ss (List.replicate (cdim cs) 0) = List.replicate (cdim cs) 0 := by
  induction cs generalizing ss with
  | nil => rfl
  | cons c cs ih =>
    obtain ⟨l, p⟩ := c
    cases ss with
    | nil => simp at hs
    | cons s ss =>
      simp only [List.length_cons, Nat.add_le_add_iff_right] at hs
      simp only [cdim_cons, scaleByC, List.take_replicate, List.drop_replicate, Nat.add_sub_cancel_left,
        Nat.min_eq_left (Nat.le_add_right _ _), ih ss hs]
      simp

theorem scaleByC_single (l : Nat) (p : Bool) (s : ℝ → ℝ) (v : List ℝ) (hv : v.length = irDim l) :
    scaleByC [(l, p)] [s] v = v.map (· * s (sumSq v)) := by
  simp [scaleByC, ← hv]

/-- `Norm` in closed form: the Euclidean norm of every copy -/
theorem normFwd_closed_form (irr : Irreps) (x : List ℝ) (hx : x.length = dim irr) :
    normFwd irr false x = .ok ((sqNormsC (expand irr) x).map Real.sqrt) := by
  rw [normFwd_ok irr _ x hx, sqNorms_eq]
  simp only [Bool.false_eq_true, if_false, Except.ok.injEq]
  have : ∀ cs (x : List ℝ), ∀ n ∈ sqNormsC cs x, 0 ≤ n := by
    intro cs
    induction cs with
    | nil => intro x n hn; simp [sqNormsC] at hn
    | cons c cs ih =>
      obtain ⟨l, p⟩ := c
      intro x n hn
      simp only [sqNormsC, List.mem_cons] at hn
      rcases hn with rfl | hn
      · exact sumSq_nonneg _
      · exact ih _ _ hn
  apply List.map_congr_left
  intro n hn
  rw [relu_of_nonneg n (this _ _ n hn)]; rfl



/-! ### Extract -/

/-- every output block carries the irreps of the input block it copies.  `Extract.__init__` does NOT check this;
`ExtractIr` and `_Sortcut` establish it by construction. -/
def WellFormed (irrIn out : Irreps) (ins : List Nat) : Prop :=
  out.map some = ins.map fun i => irrIn[i]?

theorem block_zero (c : MulIr) (rest : Irreps) (z : List ℝ) : block (c :: rest) 0 z = z.take (mulIrDim c) := by
  simp [block]

theorem block_succ (c : MulIr) (rest : Irreps) (i : Nat) (z : List ℝ) :
    block (c :: rest) (i + 1) z = block rest i (z.drop (mulIrDim c)) := by
  simp [block, List.drop_drop, Nat.add_comm]

theorem length_block (irr : Irreps) (i : Nat) (b : MulIr) (h : irr[i]? = some b) (x : List ℝ)
    (hx : x.length = dim irr) : (block irr i x).length = mulIrDim b := by
  induction irr generalizing i x with
  | nil => simp at h
  | cons c rest ih =>
    simp only [dim_cons] at hx
    cases i with
    | zero =>
      simp only [List.getElem?_cons_zero, Option.some.injEq] at h
      subst h; rw [block_zero]; simp; omega
    | succ i =>
      simp only [List.getElem?_cons_succ] at h
      rw [block_succ]; exact ih i h _ (by simp; omega)

theorem rho_single (A : Action) (b : MulIr) (x : List ℝ) (hx : x.length = mulIrDim b) :
    rho A [b] x = rhoC A (List.replicate b.1 (b.2.1, b.2.2)) x := by
  obtain ⟨m, l, p⟩ := b
  simp only [mulIrDim] at hx
  rw [rho_cons, rho_nil, List.append_nil, ← hx, List.take_length]

theorem block_rho (A : Action) (irr : Irreps) (i : Nat) (b : MulIr) (h : irr[i]? = some b) (x : List ℝ)
    (hx : x.length = dim irr) : block irr i (rho A irr x) = rho A [b] (block irr i x) := by
  induction irr generalizing i x with
  | nil => simp at h
  | cons c rest ih =>
    obtain ⟨m, l, p⟩ := c
    simp only [dim_cons, mulIrDim] at hx
    have hl : (rhoC A (List.replicate m (l, p)) (x.take (m * irDim l))).length = m * irDim l := by
      rw [length_rhoC] <;> simp; omega
    cases i with
    | zero =>
      simp only [List.getElem?_cons_zero, Option.some.injEq] at h
      subst h
      rw [block_zero, block_zero, rho_cons, mulIrDim, List.take_left' hl, rho_single]
      simp [mulIrDim]; omega
    | succ i =>
      simp only [List.getElem?_cons_succ] at h
      rw [block_succ, block_succ, rho_cons, mulIrDim, List.drop_left' hl]
      exact ih i h _ (by simp; omega)

theorem fit_self (y : List ℝ) (n : Nat) (h : y.length = n) : fit y n = .ok y := by
  simp [fit, h]

theorem extractOne_ok (irrIn : Irreps) (x : List ℝ) (hx : x.length = dim irrIn) (out : Irreps)
    (ins : List Nat) (hW : WellFormed irrIn out ins) :
    extractOne irrIn x out ins = .ok ((ins.map fun i => block irrIn i x).flatten) := by
  induction out generalizing ins with
  | nil => cases ins <;> simp_all [WellFormed, extractOne]
  | cons b bs ih =>
    cases ins with
    | nil => simp [WellFormed] at hW
    | cons i is =>
      simp only [WellFormed, List.map_cons, List.cons.injEq] at hW
      obtain ⟨h0, hW'⟩ := hW
      simp only [extractOne, fit_self _ _ (length_block irrIn i b h0.symm x hx), ih is hW']
      rfl

theorem length_flatten_blocks (irrIn : Irreps) (x : List ℝ) (hx : x.length = dim irrIn) (out : Irreps)
    (ins : List Nat) (hW : WellFormed irrIn out ins) :
    ((ins.map fun i => block irrIn i x).flatten).length = dim out := by
  induction out generalizing ins with
  | nil => cases ins <;> simp_all [WellFormed]
  | cons b bs ih =>
    cases ins with
    | nil => simp [WellFormed] at hW
    | cons i is =>
      simp only [WellFormed, List.map_cons, List.cons.injEq] at hW
      obtain ⟨h0, hW'⟩ := hW
      simp only [List.map_cons, List.flatten_cons, List.length_append, dim_cons,
        length_block irrIn i b h0.symm x hx, ih is hW']

theorem flatten_blocks_rho (A : Action) (irrIn : Irreps) (x : List ℝ) (hx : x.length = dim irrIn)
    (out : Irreps) (ins : List Nat) (hW : WellFormed irrIn out ins) :
    (ins.map fun i => block irrIn i (rho A irrIn x)).flatten
      = rho A out ((ins.map fun i => block irrIn i x).flatten) := by
  induction out generalizing ins with
  | nil => cases ins <;> simp_all [WellFormed, rho_nil]
  | cons b bs ih =>
    cases ins with
    | nil => simp [WellFormed] at hW
    | cons i is =>
      simp only [WellFormed, List.map_cons, List.cons.injEq] at hW
      obtain ⟨h0, hW'⟩ := hW
      simp only [List.map_cons, List.flatten_cons]
      have := rho_append A [b] bs (block irrIn i x) ((is.map fun i => block irrIn i x).flatten)
        (by rw [length_block irrIn i b h0.symm x hx]; simp)
      simp only [List.singleton_append] at this
      rw [this, block_rho A irrIn i b h0.symm x hx, ih is hW']

theorem range_getElem? {α} (l : List α) : ((List.range l.length).map fun i => l[i]?) = l.map some := by
  apply List.ext_getElem?
  intro i
  by_cases h : i < l.length
  · simp [h]
  · simp [h]

/-- a feature vector is the concatenation of all its blocks -/
theorem flatten_all_blocks (irr : Irreps) (z : List ℝ) (hz : z.length = dim irr) :
    ((List.range irr.length).map fun i => block irr i z).flatten = z := by
  induction irr generalizing z with
  | nil => simp at hz; simp [hz]
  | cons c rest ih =>
    simp only [dim_cons] at hz
    rw [List.length_cons, List.range_succ_eq_map, List.map_cons, List.map_map, List.flatten_cons, block_zero]
    have : ((fun i => block (c :: rest) i z) ∘ Nat.succ) = fun i => block rest i (z.drop (mulIrDim c)) := by
      funext i; simp [block_succ]
    rw [this, ih _ (by simp; omega), List.take_append_drop]

/-- one output of `Extract` under the consistency assumption: it succeeds on inputs of the right length,
returns the selected blocks, and commutes with the action -/
theorem extractOut_equivariant (A : Action) (irrIn : Irreps) (x : List ℝ) (hx : x.length = dim irrIn)
    (out : Irreps) (ins : List Nat) (hW : WellFormed irrIn out ins) :
    extractOut irrIn x out ins = .ok ((ins.map fun i => block irrIn i x).flatten) ∧
    ((ins.map fun i => block irrIn i x).flatten).length = dim out ∧
    extractOut irrIn (rho A irrIn x) out ins = .ok (rho A out ((ins.map fun i => block irrIn i x).flatten)) := by
  have hlen := length_flatten_blocks irrIn x hx out ins hW
  have hx' := length_rho A irrIn x hx
  refine ⟨?_, hlen, ?_⟩
  · unfold extractOut
    split
    · rename_i h
      have h' : ins = List.range irrIn.length := by simpa using h
      rw [← extractOne_ok irrIn x hx out ins hW]
      subst h'
      have hout : out = irrIn := by
        have := hW; rw [WellFormed, range_getElem?] at this
        exact List.map_injective_iff.mpr (Option.some_injective _) this
      subst hout
      rw [fit_self _ _ hx, extractOne_ok out x hx out _ hW]
      congr 1
      exact (flatten_all_blocks out x hx).symm
    · exact extractOne_ok irrIn x hx out ins hW
  · rw [← flatten_blocks_rho A irrIn x hx out ins hW]
    unfold extractOut
    split
    · rename_i h
      have h' : ins = List.range irrIn.length := by simpa using h
      rw [← extractOne_ok irrIn _ hx' out ins hW]
      subst h'
      have hout : out = irrIn := by
        have := hW; rw [WellFormed, range_getElem?] at this
        exact List.map_injective_iff.mpr (Option.some_injective _) this
      subst hout
      rw [fit_self _ _ hx', extractOne_ok out _ hx' out _ hW]
      congr 1
      exact (flatten_all_blocks out _ hx').symm
    · exact extractOne_ok irrIn _ hx' out ins hW

/-- the blocks selected by one instruction -/
def selected (irrIn : Irreps) (x : List ℝ) (ins : List Nat) : List ℝ := (ins.map fun i => block irrIn i x).flatten

theorem extractAll_equivariant (A : Action) (irrIn : Irreps) (x : List ℝ) (hx : x.length = dim irrIn)
    (outs : List Irreps) (inss : List (List Nat)) (hW : List.Forall₂ (WellFormed irrIn) outs inss) :
    extractAll irrIn x outs inss = .ok (inss.map (selected irrIn x)) ∧
    extractAll irrIn (rho A irrIn x) outs inss = .ok (List.zipWith (rho A) outs (inss.map (selected irrIn x))) := by
  induction hW with
  | nil => simp [extractAll]
  | @cons o i os is h _ ih =>
    obtain ⟨h1, _, h3⟩ := extractOut_equivariant A irrIn x hx o i h
    simp only [extractAll, h1, h3, ih.1, ih.2, Except.map, List.map_cons, List.zipWith_cons_cons, selected, and_self]

/-- `Extract.forward` (all outputs) commutes with the action, output `k` carrying `irreps_outs[k]` -/
theorem extractFwd_equivariant (A : Action) (irrIn : Irreps) (x : List ℝ) (hx : x.length = dim irrIn)
    (outs : List Irreps) (inss : List (List Nat)) (hW : List.Forall₂ (WellFormed irrIn) outs inss) :
    extractFwd irrIn outs inss x = .ok (inss.map (selected irrIn x)) ∧
    extractFwd irrIn outs inss (rho A irrIn x)
      = .ok (List.zipWith (rho A) outs (inss.map (selected irrIn x))) := by
  have := extractAll_equivariant A irrIn x hx outs inss hW
  simp [extractFwd, hx, length_rho A irrIn x hx, this.1, this.2]

theorem irIndicesFrom_wellFormed (ir : Ir) (pre rest : Irreps) :
    (rest.filter fun b => b.2 == ir).map some
      = (irIndicesFrom ir pre.length rest).map fun i => (pre ++ rest)[i]? := by
  induction rest generalizing pre with
  | nil => simp [irIndicesFrom]
  | cons b bs ih =>
    have h := ih (pre ++ [b])
    simp only [List.length_append, List.length_singleton, List.append_assoc, List.singleton_append] at h
    simp only [List.filter_cons, irIndicesFrom]
    split
    · simp [h]
    · exact h

/-- `ExtractIr` builds consistent instructions -/
theorem extractIr_wellFormed (irr : Irreps) (ir : Ir) :
    WellFormed irr (extractIrOut irr ir) (extractIrIns irr ir) := by
  have := irIndicesFrom_wellFormed ir [] irr
  simpa [WellFormed, extractIrOut, extractIrIns] using this

/-- `ExtractIr` commutes with the action, with the reported `irreps_out` -/
theorem extractIrFwd_equivariant (A : Action) (irr : Irreps) (ir : Ir) (x : List ℝ) (hx : x.length = dim irr) :
    extractIrFwd irr ir x = .ok (selected irr x (extractIrIns irr ir)) ∧
    extractIrFwd irr ir (rho A irr x) = .ok (rho A (extractIrOut irr ir) (selected irr x (extractIrIns irr ir))) := by
  have := extractFwd_equivariant A irr x hx [extractIrOut irr ir] [extractIrIns irr ir]
    (List.Forall₂.cons (extractIr_wellFormed irr ir) List.Forall₂.nil)
  simp [extractIrFwd, this.1, this.2]



/-! ### `_Sortcut`: the sort permutation and the instructions -/

def tagFrom : Nat → Irreps → List (MulIr × Nat)
  | _, [] => []
  | i, b :: bs => (b, i) :: tagFrom (i + 1) bs

theorem insertSorted_perm (e : MulIr × Nat) (l : List (MulIr × Nat)) : (insertSorted e l).Perm (e :: l) := by
  induction l with
  | nil => simp [insertSorted]
  | cons h t ih =>
    simp only [insertSorted]
    split
    · exact (List.Perm.cons h ih).trans (List.Perm.swap e h t)
    · exact List.Perm.refl _

theorem sortIdxFrom_perm (i : Nat) (l : Irreps) : (sortIdxFrom i l).Perm (tagFrom i l) := by
  induction l generalizing i with
  | nil => simp [sortIdxFrom, tagFrom]
  | cons b bs ih =>
    simp only [sortIdxFrom, tagFrom]
    exact (insertSorted_perm _ _).trans (List.Perm.cons _ (ih (i + 1)))

theorem tagFrom_mem (pre l : Irreps) (e : MulIr × Nat) (he : e ∈ tagFrom pre.length l) :
    (pre ++ l)[e.2]? = some e.1 := by
  induction l generalizing pre with
  | nil => simp [tagFrom] at he
  | cons b bs ih =>
    simp only [tagFrom, List.mem_cons] at he
    rcases he with rfl | he
    · simp
    · have := ih (pre ++ [b]) (by simpa using he)
      simpa using this

theorem tagFrom_snd (i : Nat) (l : Irreps) : (tagFrom i l).map (·.2) = List.range' i l.length := by
  induction l generalizing i with
  | nil => rfl
  | cons b bs ih => simp [tagFrom, ih, List.range'_succ]

/-- block `i` of the concatenation is found in the sorted irreps at position `p[i] = inv.index(i)` -/
theorem sorted_lookup (cat : Irreps) (i : Nat) (hi : i < cat.length) :
    ((sortIdx cat).map (·.1))[((sortIdx cat).map (·.2)).idxOf i]? = cat[i]? := by
  have hperm := sortIdxFrom_perm 0 cat
  have hinv : ((sortIdx cat).map (·.2)).Perm (List.range' 0 cat.length) := by
    rw [← tagFrom_snd]; exact hperm.map _
  have hmem : i ∈ (sortIdx cat).map (·.2) := by
    rw [hinv.mem_iff]; simp [List.mem_range']; omega
  have hk := List.getElem?_idxOf hmem
  rw [List.getElem?_map] at hk
  rw [List.getElem?_map]
  cases hsrt : (sortIdx cat)[((sortIdx cat).map (·.2)).idxOf i]? with
  | none => simp [hsrt] at hk
  | some e =>
    simp only [hsrt, Option.map_some, Option.some.injEq] at hk
    have he : e ∈ sortIdx cat := List.mem_of_getElem? hsrt
    have he' : e ∈ tagFrom ([] : Irreps).length cat := by simpa using (hperm.mem_iff.mp he)
    have := tagFrom_mem [] cat e he'
    simp only [List.nil_append, hk] at this
    simp [this]

theorem range'_lookup (pre o rest : Irreps) :
    (List.range' pre.length o.length).map (fun i => (pre ++ o ++ rest)[i]?) = o.map some := by
  induction o generalizing pre with
  | nil => simp
  | cons b bs ih =>
    have := ih (pre ++ [b])
    simp only [List.length_append, List.length_singleton, List.append_assoc, List.singleton_append] at this
    simp only [List.length_cons, List.range'_succ, List.map_cons]
    rw [show pre ++ (b :: bs) ++ rest = pre ++ (b :: bs ++ rest) by simp, this]
    simp

theorem consecRanges_wellFormed (sorted : Irreps) (f : Nat → Nat) (pre : Irreps) (outs : List Irreps)
    (hf : ∀ i, i < (pre ++ outs.flatten).length → sorted[f i]? = (pre ++ outs.flatten)[i]?) :
    List.Forall₂ (WellFormed sorted) outs ((consecRanges pre.length outs).map fun r => r.map f) := by
  induction outs generalizing pre with
  | nil => simp [consecRanges]
  | cons o os ih =>
    simp only [consecRanges, List.map_cons]
    refine List.Forall₂.cons ?_ ?_
    · rw [WellFormed, List.map_map, ← range'_lookup pre o os.flatten]
      apply List.map_congr_left
      intro i hi
      simp only [List.mem_range'_1] at hi
      simp only [Function.comp]
      rw [hf i (by simp; omega)]
      simp
    · have := ih (pre ++ o) (by simpa using hf)
      simpa using this

/-- `_Sortcut` routes every block of the sorted input to an output block of the same irreps -/
theorem sortcut_wellFormed (outs : List Irreps) :
    List.Forall₂ (WellFormed (sortcut outs).sorted) (sortcut outs).outs (sortcut outs).instructions := by
  have := consecRanges_wellFormed ((sortIdx (outs.map simplify).flatten).map (·.1))
    (fun i => ((sortIdx (outs.map simplify).flatten).map (·.2)).idxOf i) [] (outs.map simplify)
    (by intro i hi; simp only [List.nil_append] at hi ⊢; exact sorted_lookup _ i hi)
  simpa [sortcut] using this

/-- the sorted irreps are a permutation of the concatenation: same total dimension -/
theorem dim_sorted (outs : List Irreps) : dim (sortcut outs).sorted = dim (outs.map simplify).flatten := by
  have h1 : ∀ (l : List (MulIr × Nat)) , dim (l.map (·.1)) = (l.map fun e => mulIrDim e.1).sum := by
    intro l; induction l with
    | nil => rfl
    | cons a as ih => simp [ih]
  have h2 : ∀ i (l : Irreps), ((tagFrom i l).map fun e => mulIrDim e.1).sum = dim l := by
    intro i l; induction l generalizing i with
    | nil => rfl
    | cons a as ih => simp [tagFrom, ih]
  simp only [sortcut]
  rw [h1, ← h2 0]
  exact ((sortIdxFrom_perm 0 _).map _).sum_eq



/-! ### `ElementwiseTensorProduct` output irreps -/

/-- product of two irreps when the second is a scalar (the general `l` range collapses to `l₁ + l₂`) -/
def irMul (c1 c2 : Ir) : Ir := (c1.1 + c2.1, c1.2 != c2.2)

theorem zipWith_replicate_append {α β γ} (g : α → β → γ) (n : Nat) (a : α) (b : β) (l1 : List α) (l2 : List β) :
    List.zipWith g (List.replicate n a ++ l1) (List.replicate n b ++ l2)
      = List.replicate n (g a b) ++ List.zipWith g l1 l2 := by
  induction n with
  | zero => simp
  | succ n ih => simp [List.replicate_succ, ih]

theorem expand_ewAlign (f : Nat) (a b : Irreps) (hf : a.length + b.length ≤ f) :
    expand ((ewAlign f a b).map fun (m, ir1, ir2) => (m, ir1.1 + ir2.1, ir1.2 != ir2.2))
      = List.zipWith irMul (expand a) (expand b) := by
  induction f generalizing a b with
  | zero =>
    have ha : a = [] := List.eq_nil_of_length_eq_zero (by omega)
    subst ha; simp [ewAlign]
  | succ f ih =>
    cases a with
    | nil => simp [ewAlign]
    | cons a1 r1 =>
      cases b with
      | nil => simp [ewAlign]
      | cons b1 r2 =>
        obtain ⟨m1, l1, p1⟩ := a1
        obtain ⟨m2, l2, p2⟩ := b1
        simp only [List.length_cons] at hf
        simp only [ewAlign]
        split
        · rename_i h
          have hm : m2 = m1 + (m2 - m1) := by omega
          rw [List.map_cons, expand_cons, ih r1 ((m2 - m1, l2, p2) :: r2) (by simp; omega)]
          conv_rhs => rw [expand_cons, expand_cons, hm, List.replicate_add, List.append_assoc,
            zipWith_replicate_append]
          simp [irMul]
        · split
          · rename_i h
            have hm : m1 = m2 + (m1 - m2) := by omega
            rw [List.map_cons, expand_cons, ih ((m1 - m2, l1, p1) :: r1) r2 (by simp; omega)]
            conv_rhs => rw [expand_cons, expand_cons, hm, List.replicate_add, List.append_assoc,
              zipWith_replicate_append]
            simp [irMul]
          · have hm : m2 = m1 := by omega
            subst hm
            rw [List.map_cons, expand_cons, ih r1 r2 (by omega)]
            conv_rhs => rw [expand_cons, expand_cons, zipWith_replicate_append]
            simp [irMul]

theorem expand_ewIrrepsOut (a b : Irreps) :
    expand (ewIrrepsOut a b) = List.zipWith irMul (expand a) (expand b) := by
  rw [ewIrrepsOut]
  simp only []
  rw [expand_ewAlign _ _ _ (Nat.le_refl _), expand_simplify, expand_simplify]



/-! ### Activation, full statement -/

theorem activationFwd_eq (irr : Irreps) (acts : List (Option (Act ℝ))) (x : List ℝ) (hx : x.length = dim irr) :
    activationFwd irr acts x = actBlocks irr acts x := by
  cases irr with
  | nil =>
    have : x = [] := List.eq_nil_of_length_eq_zero (by simpa using hx)
    subst this; simp [activationFwd, actBlocks]
  | cons b bs => rfl

theorem activationCtor_ok {irr : Irreps} {dets : List (Option Detect)} {out : Irreps}
    (h : activationCtor irr dets = .ok out) : irr.length = dets.length ∧ actOutLoop irr dets = .ok out := by
  unfold activationCtor at h
  split at h
  · simp at h
  · rename_i hne; exact ⟨by simpa using hne, h⟩

/-- `Activation` commutes with the action whenever the constructor accepts and the detection is truthful -/
theorem activationFwd_equivariant (A : Action) (irr : Irreps) (acts : List (Option (Act ℝ)))
    (dets : List (Option Detect)) (hS : Specs acts dets) (out : Irreps)
    (hC : activationCtor irr dets = .ok out) (x : List ℝ) (hx : x.length = dim irr) :
    ∃ y, activationFwd irr acts x = .ok y ∧ y.length = dim out ∧
      activationFwd irr acts (rho A irr x) = .ok (rho A out y) := by
  obtain ⟨hl, hloop⟩ := activationCtor_ok hC
  rw [activationFwd_eq irr acts x hx, activationFwd_eq irr acts _ (length_rho A irr x hx)]
  exact actBlocks_equivariant A irr acts dets hS out hloop hl x hx

/-! ### Gate -/

theorem mem_expand (irr : Irreps) (c : Ir) : c ∈ expand irr ↔ ∃ b ∈ irr, 0 < b.1 ∧ c = b.2 := by
  induction irr with
  | nil => simp
  | cons b bs ih =>
    obtain ⟨m, l, p⟩ := b
    simp only [expand_cons, List.mem_append, List.mem_replicate, ih, List.mem_cons]
    constructor
    · rintro (⟨hm, rfl⟩ | ⟨b, hb, h⟩)
      · exact ⟨(m, l, p), Or.inl rfl, by omega, rfl⟩
      · exact ⟨b, Or.inr hb, h⟩
    · rintro ⟨b, (rfl | hb), h1, h2⟩
      · exact Or.inl ⟨by simpa using Nat.ne_of_gt h1, h2⟩
      · exact Or.inr ⟨b, hb, h1, h2⟩

theorem lmaxGuard_scalar (irr : Irreps) (e : Err) (h : lmaxGuard irr e = .ok ()) : ∀ c ∈ expand irr, c.1 = 0 := by
  intro c hc
  obtain ⟨b, hb, hpos, rfl⟩ := (mem_expand irr c).mp hc
  unfold lmaxGuard at h
  have hlen : irr.length > 0 := List.length_pos_of_mem hb
  rw [if_pos hlen] at h
  split at h
  · simp at h
  · split at h
    · simp at h
    · rename_i hany
      simp only [List.any_eq_true, not_exists, not_and, Bool.and_eq_true, decide_eq_true_eq] at hany
      have := hany b hb
      omega

theorem scalar_cdim (cs : List Ir) (h : ∀ c ∈ cs, c.1 = 0) : cdim cs = cs.length := by
  induction cs with
  | nil => rfl
  | cons c cs ih =>
    have h0 : c.1 = 0 := h c (by simp)
    simp [h0, irDim, ih (fun c hc => h c (by simp [hc]))]; omega

theorem scalars_as_map (cs : List Ir) (h : ∀ c ∈ cs, c.1 = 0) : cs = (cs.map (·.2)).map fun p => (0, p) := by
  induction cs with
  | nil => rfl
  | cons c cs ih =>
    obtain ⟨l, p⟩ := c
    have h0 : l = 0 := h (l, p) (by simp)
    subst h0
    simp only [List.map_cons, List.cons.injEq, true_and]
    exact ih (fun c hc => h c (by simp [hc]))

theorem actOutLoop_ls (irr : Irreps) (dets : List (Option Detect)) (out : Irreps)
    (hlen : irr.length = dets.length)
    (h : actOutLoop irr dets = .ok out) : (expand out).map (·.1) = (expand irr).map (·.1) := by
  induction irr generalizing dets out with
  | nil => simp only [actOutLoop, Except.ok.injEq] at h; subst h; rfl
  | cons b rest ih =>
    obtain ⟨mul, l, p⟩ := b
    cases dets with
    | nil => simp at hlen
    | cons d ds =>
      simp only [List.length_cons, Nat.add_right_cancel_iff] at hlen
      simp only [actOutLoop] at h
      cases d with
      | none =>
        simp only [] at h
        cases hrec : actOutLoop rest ds with
        | error e => simp [hrec, Except.map] at h
        | ok out' =>
          simp only [hrec, Except.map, Except.ok.injEq] at h
          subst h
          simp [ih ds out' hlen hrec]
      | some d =>
        simp only [] at h
        by_cases hl0 : l = 0
        · subst hl0
          simp only [bne_self_eq_false, Bool.false_eq_true, if_false] at h
          cases hq : (if p then d.pAct else some p) with
          | none => simp [hq] at h
          | some q =>
            simp only [hq] at h
            cases hrec : actOutLoop rest ds with
            | error e => simp [hrec, Except.map] at h
            | ok out' =>
              simp only [hrec, Except.map, Except.ok.injEq] at h
              subst h
              simp [ih ds out' hlen hrec]
        · have : (l != 0) = true := by simpa using hl0
          simp [this] at h

theorem zipWith_irMul_scalars (cs : List Ir) (ps : List Bool) :
    List.zipWith irMul cs (ps.map fun p => (0, p)) = List.zipWith twist cs ps := by
  induction cs generalizing ps with
  | nil => simp
  | cons c cs ih =>
    cases ps with
    | nil => simp
    | cons p ps => simp [irMul, twist, ih]

theorem cdim_zipWith_twist (cs : List Ir) (ps : List Bool) (h : ps.length = cs.length) :
    cdim (List.zipWith twist cs ps) = cdim cs := by
  induction cs generalizing ps with
  | nil => simp
  | cons c cs ih =>
    cases ps with
    | nil => simp at h
    | cons p ps =>
      simp only [List.length_cons, Nat.add_right_cancel_iff] at h
      simp [twist, ih ps h]

theorem sortcut_irrepsIn (outs : List Irreps) : (sortcut outs).irrepsIn = simplify (sortcut outs).sorted := rfl
theorem sortcut_outs (outs : List Irreps) : (sortcut outs).outs = outs.map simplify := rfl

/-- `Gate` commutes with the action: input transformed with the reported (sorted, simplified) `irreps_in`,
output with the reported `irreps_out = irreps_scalars_out + irreps_gated_out` -/
theorem gateFwd_equivariant (A : Action) (hA : A.Twisted) (irrS irrG irrY : Irreps)
    (actS : List (Option (Act ℝ))) (detS : List (Option Detect)) (hSS : Specs actS detS)
    (actG : List (Option (Act ℝ))) (detG : List (Option Detect)) (hSG : Specs actG detG)
    (info : GateInfo) (hC : gateCtor irrS detS irrG detG irrY = .ok info)
    (x : List ℝ) (hx : x.length = dim info.irrepsIn) :
    ∃ y, gateFwd irrS actS irrG actG irrY x = .ok y ∧ y.length = dim info.irrepsOut ∧
      gateFwd irrS actS irrG actG irrY (rho A info.irrepsIn x) = .ok (rho A info.irrepsOut y) := by
  unfold gateCtor at hC
  cases hg1 : lmaxGuard irrG .gateGates with
  | error e => simp [hg1] at hC
  | ok u1 =>
  cases hg2 : lmaxGuard irrS .gateScalars with
  | error e => simp [hg1, hg2] at hC
  | ok u2 =>
  simp only [hg1, hg2] at hC
  split at hC
  · simp at hC
  rename_i hnum
  have hnum' : numIrreps irrG = numIrreps irrY := by simpa using hnum
  cases hcs : activationCtor irrS detS with
  | error e => simp [hcs] at hC
  | ok scalarsOut =>
  cases hcg : activationCtor irrG detG with
  | error e => simp [hcs, hcg] at hC
  | ok gatesOut =>
  simp only [hcs, hcg, Except.ok.injEq] at hC
  subst hC
  have hW := sortcut_wellFormed [irrS, irrG, irrY]
  have hxs : x.length = dim (sortcut [irrS, irrG, irrY]).sorted := by
    simpa [GateInfo.irrepsIn, sortcut_irrepsIn, dim_simplify] using hx
  have hE := extractFwd_equivariant A _ x hxs _ _ hW
  obtain ⟨i1, i2, i3, hins⟩ : ∃ i1 i2 i3, (sortcut [irrS, irrG, irrY]).instructions = [i1, i2, i3] := by
    simp [sortcut, consecRanges]
  rw [sortcut_outs, hins] at hW
  simp only [List.map_cons, List.map_nil] at hW
  obtain ⟨w1, hW⟩ := List.forall₂_cons.mp hW
  obtain ⟨w2, hW⟩ := List.forall₂_cons.mp hW
  obtain ⟨w3, -⟩ := List.forall₂_cons.mp hW
  rw [hins] at hE
  simp only [List.map_cons, List.map_nil, sortcut_outs, List.zipWith_cons_cons, List.zipWith_nil_right,
    rho_simplify] at hE
  obtain ⟨hE1, hE2⟩ := hE
  generalize hS : selected (sortcut [irrS, irrG, irrY]).sorted x i1 = S at hE1 hE2
  generalize hG : selected (sortcut [irrS, irrG, irrY]).sorted x i2 = G at hE1 hE2
  generalize hY : selected (sortcut [irrS, irrG, irrY]).sorted x i3 = Y at hE1 hE2
  have lS : S.length = dim irrS := by
    rw [← hS, selected, length_flatten_blocks _ x hxs _ _ w1, dim_simplify]
  have lG : G.length = dim irrG := by
    rw [← hG, selected, length_flatten_blocks _ x hxs _ _ w2, dim_simplify]
  have lY : Y.length = dim irrY := by
    rw [← hY, selected, length_flatten_blocks _ x hxs _ _ w3, dim_simplify]
  obtain ⟨S', hS1, hS2, hS3⟩ := activationFwd_equivariant A irrS actS detS hSS scalarsOut hcs S lS
  -- the gates are scalars, before and after their activation
  have u1eq : u1 = () := rfl
  subst u1eq
  have scG := lmaxGuard_scalar irrG _ hg1
  obtain ⟨hlG, hloopG⟩ := activationCtor_ok hcg
  have hls := actOutLoop_ls irrG detG gatesOut hlG hloopG
  have scG' : ∀ c ∈ expand gatesOut, c.1 = 0 := by
    intro c hc
    have : c.1 ∈ (expand gatesOut).map (·.1) := List.mem_map_of_mem hc
    rw [hls] at this
    obtain ⟨c', hc', h⟩ := List.mem_map.mp this
    rw [← h]; exact scG c' hc'
  have hps := scalars_as_map _ scG'
  generalize hpsdef : (expand gatesOut).map (·.2) = ps at hps
  have lps : ps.length = (expand irrY).length := by
    have hn : numIrreps gatesOut = numIrreps irrG := by
      have := congrArg List.length hls
      simpa [length_expand] using this
    rw [← hpsdef, List.length_map, length_expand, hn, hnum', length_expand]
  have hgated : expand (ewIrrepsOut irrY gatesOut) = List.zipWith twist (expand irrY) ps := by
    rw [expand_ewIrrepsOut, hps, zipWith_irMul_scalars]
  have hdimGated : dim (ewIrrepsOut irrY gatesOut) = dim irrY := by
    rw [← cdim_expand, hgated, cdim_zipWith_twist _ _ lps, cdim_expand]
  have hdimG : dim irrG = numIrreps irrG := by
    rw [← cdim_expand, scalar_cdim _ scG, length_expand]
  simp only [GateInfo.irrepsIn, GateInfo.irrepsOut, sortcut_irrepsIn, rho_simplify, dim_append]
  unfold gateFwd
  simp only [sortcut_outs, hins, List.map_cons, List.map_nil, hE1, hE2]
  by_cases hG0 : G.length = 0
  · have hY0 : expand irrY = [] := by
      apply List.eq_nil_of_length_eq_zero; rw [length_expand, ← hnum', ← hdimG, ← lG, hG0]
    have hgo : expand (ewIrrepsOut irrY gatesOut) = [] := by rw [hgated, hY0]; rfl
    have hlr : (rho A irrG G).length = 0 := by rw [length_rho A irrG G lG, ← lG, hG0]
    refine ⟨S', ?_, ?_, ?_⟩
    · simp [hS1, hG0]
    · rw [hS2, ← cdim_expand (ewIrrepsOut irrY gatesOut), hgo]; rfl
    · simp only [hS3, hlr]
      simp [rho, hgo]
  · obtain ⟨G', hG1, hG2, hG3⟩ := activationFwd_equivariant A irrG actG detG hSG gatesOut hcg G lG
    have lG' : G'.length = ps.length := by
      rw [hG2, ← cdim_expand, scalar_cdim _ scG', ← hpsdef, List.length_map]
    have hlr : (rho A irrG G).length ≠ 0 := by rw [length_rho A irrG G lG, ← lG]; exact hG0
    have lE : (ewMul irrY G' Y).length = dim irrY := by
      rw [ewMul_eq, length_ewMulC _ _ _ (by omega) (by rw [cdim_expand]; exact lY), cdim_expand]
    refine ⟨S' ++ ewMul irrY G' Y, ?_, ?_, ?_⟩
    · simp [hS1, hG0, hG1]
    · rw [List.length_append, hS2, lE, hdimGated]
    · simp only [hS3, hG3]
      rw [if_pos (by simpa using hlr)]
      rw [rho_append A scalarsOut _ S' _ hS2]
      congr 2
      rw [ewMul_eq, ewMul_eq]
      conv_lhs => rw [rho, hps, rhoC_scalars A ps G' lG', rho]
      rw [ewMulC_rhoC_twisted A hA _ ps G' Y lps (by omega) (by rw [cdim_expand]; exact lY)]
      rw [rho, hgated]



/-! ### `_Sortcut` uses every input block exactly once -/

theorem flatten_consecRanges (i : Nat) (outs : List Irreps) :
    (consecRanges i outs).flatten = List.range' i outs.flatten.length := by
  induction outs generalizing i with
  | nil => simp [consecRanges]
  | cons o os ih =>
    simp only [consecRanges, List.flatten_cons, ih, List.length_append]
    rw [List.range'_append_1]

/-- the instructions of `_Sortcut`, read one after the other, are a permutation of all block indices of the
sorted input: no block is dropped, none is used twice -/
theorem sortcut_instructions_perm (outs : List Irreps) :
    (sortcut outs).instructions.flatten.Perm (List.range (sortcut outs).sorted.length) := by
  have hperm := sortIdxFrom_perm 0 (outs.map simplify).flatten
  have hinv : ((sortIdx (outs.map simplify).flatten).map (·.2)).Perm
      (List.range' 0 (outs.map simplify).flatten.length) := by
    rw [← tagFrom_snd]; exact hperm.map _
  have hnd : ((sortIdx (outs.map simplify).flatten).map (·.2)).Nodup :=
    hinv.nodup_iff.mpr (List.nodup_range')
  have hlen : ((sortIdx (outs.map simplify).flatten).map (·.2)).length = (outs.map simplify).flatten.length := by
    rw [hinv.length_eq]; simp
  have key : ∀ l : List Nat, l.Nodup → l.map (fun i => l.idxOf i) = List.range l.length := by
    intro l hl
    apply List.ext_getElem
    · simp
    · intro i h1 h2
      simp [hl.idxOf_getElem i (by simpa using h1)]
  simp only [sortcut, List.length_map]
  rw [← List.map_flatten, flatten_consecRanges]
  have h1 := (hinv.symm.map fun i => ((sortIdx (outs.map simplify).flatten).map (·.2)).idxOf i)
  rw [key _ hnd, hlen] at h1
  rw [List.length_map] at hlen
  rw [hlen]
  exact h1

/-! ### per-copy readings -/

/-- the components of copy `u` -/
def copyAt (cs : List Ir) (u : Nat) (z : List ℝ) : List ℝ :=
  (z.drop (cdim (cs.take u))).take (match cs[u]? with | some c => irDim c.1 | none => 0)

theorem copyAt_zero (c : Ir) (cs : List Ir) (z : List ℝ) : copyAt (c :: cs) 0 z = z.take (irDim c.1) := by
  simp [copyAt]

theorem copyAt_succ (c : Ir) (cs : List Ir) (u : Nat) (z : List ℝ) :
    copyAt (c :: cs) (u + 1) z = copyAt cs u (z.drop (irDim c.1)) := by
  simp [copyAt, List.drop_drop, Nat.add_comm]

/-- copy `u` of the elementwise product is copy `u` of the features times the `u`-th scalar -/
theorem copyAt_ewMulC (cs : List Ir) (g y : List ℝ) (hy : y.length = cdim cs) (u : Nat) (a : ℝ)
    (hu : u < cs.length) (ha : g[u]? = some a) (hg : cs.length ≤ g.length) :
    copyAt cs u (ewMulC cs g y) = (copyAt cs u y).map (· * a) := by
  induction cs generalizing g y u with
  | nil => simp at hu
  | cons c cs ih =>
    obtain ⟨l, p⟩ := c
    cases g with
    | nil => simp at ha
    | cons g0 gs =>
      simp only [cdim_cons] at hy
      simp only [List.length_cons, Nat.add_le_add_iff_right] at hg
      have hl : ((y.take (irDim l)).map (· * g0)).length = irDim l := by simp; omega
      cases u with
      | zero =>
        simp only [List.getElem?_cons_zero, Option.some.injEq] at ha
        subst ha
        simp only [copyAt_zero, ewMulC, List.take_left' hl]
      | succ u =>
        simp only [List.getElem?_cons_succ] at ha
        simp only [List.length_cons, Nat.add_lt_add_iff_right] at hu
        simp only [copyAt_succ, ewMulC, List.drop_left' hl]
        exact ih gs _ (by simp; omega) u hu ha hg

/-- copy `u` of a norm-rescaling is copy `u` times `s_u(‖x_u‖²)` -/
theorem copyAt_scaleByC (cs : List Ir) (ss : List (ℝ → ℝ)) (x : List ℝ) (hx : x.length = cdim cs) (u : Nat)
    (s : ℝ → ℝ) (hu : u < cs.length) (hs : ss[u]? = some s) (hss : cs.length ≤ ss.length) :
    copyAt cs u (scaleByC cs ss x) = (copyAt cs u x).map (· * s (sumSq (copyAt cs u x))) := by
  induction cs generalizing ss x u with
  | nil => simp at hu
  | cons c cs ih =>
    obtain ⟨l, p⟩ := c
    cases ss with
    | nil => simp at hs
    | cons s0 ss =>
      simp only [cdim_cons] at hx
      simp only [List.length_cons, Nat.add_le_add_iff_right] at hss
      have hl : ((x.take (irDim l)).map (· * s0 (sumSq (x.take (irDim l))))).length = irDim l := by simp; omega
      cases u with
      | zero =>
        simp only [List.getElem?_cons_zero, Option.some.injEq] at hs
        subst hs
        simp only [copyAt_zero, scaleByC, List.take_left' hl]
      | succ u =>
        simp only [List.getElem?_cons_succ] at hs
        simp only [List.length_cons, Nat.add_lt_add_iff_right] at hu
        simp only [copyAt_succ, scaleByC, List.drop_left' hl]
        exact ih ss _ (by simp; omega) u hu hs hss

/-- entry `u` of the squared norms is `Σ_m x_{u,m}²` of copy `u` -/
theorem getElem?_sqNormsC (cs : List Ir) (x : List ℝ) (u : Nat) (hu : u < cs.length) :
    (sqNormsC cs x)[u]? = some (sumSq (copyAt cs u x)) := by
  induction cs generalizing x u with
  | nil => simp at hu
  | cons c cs ih =>
    obtain ⟨l, p⟩ := c
    cases u with
    | zero => simp [sqNormsC, copyAt_zero]
    | succ u =>
      simp only [List.length_cons, Nat.add_lt_add_iff_right] at hu
      simp only [sqNormsC, List.getElem?_cons_succ, copyAt_succ]
      exact ih _ u hu


open Matrix

/-! ### the action of a family of orthogonal matrices -/

def vecOf (n : Nat) (v : List ℝ) : Fin n → ℝ := fun i => v.getD i 0

/-- `D v` for a matrix `D` and a copy `v` -/
def applyMat {n : Nat} (Q : Matrix (Fin n) (Fin n) ℝ) (v : List ℝ) : List ℝ := List.ofFn (Q *ᵥ vecOf n v)

theorem sumSq_ofFn {n : Nat} (w : Fin n → ℝ) : sumSq (List.ofFn w) = w ⬝ᵥ w := by
  induction n with
  | zero => simp [sumSq, dotProduct]
  | succ n ih =>
    rw [List.ofFn_succ, sumSq, ih, dotProduct, dotProduct, Fin.sum_univ_succ]

theorem ofFn_vecOf {n : Nat} (v : List ℝ) (h : v.length = n) : List.ofFn (vecOf n v) = v := by
  subst h
  apply List.ext_getElem
  · simp
  · intro i h1 h2; simp [vecOf, List.getD_eq_getElem?_getD, h2]

theorem vecOf_ofFn {n : Nat} (w : Fin n → ℝ) : vecOf n (List.ofFn w) = w := by
  funext i; simp [vecOf, List.getD_eq_getElem?_getD]

theorem sumSq_applyMat {n : Nat} (Q : Matrix (Fin n) (Fin n) ℝ) (hQ : Qᵀ * Q = 1) (v : List ℝ)
    (hv : v.length = n) : sumSq (applyMat Q v) = sumSq v := by
  conv_rhs => rw [← ofFn_vecOf v hv]
  rw [applyMat, sumSq_ofFn, sumSq_ofFn, dotProduct_mulVec, ← vecMul_transpose, vecMul_vecMul, hQ, vecMul_one]

theorem applyMat_smul {n : Nat} (Q : Matrix (Fin n) (Fin n) ℝ) (c : ℝ) (v : List ℝ) :
    applyMat Q (v.map (· * c)) = (applyMat Q v).map (· * c) := by
  have : vecOf n (v.map (· * c)) = c • vecOf n v := by
    funext i
    simp only [vecOf, List.getD_eq_getElem?_getD, List.getElem?_map, Pi.smul_apply, smul_eq_mul]
    cases v[(i : Nat)]? <;> simp [mul_comm]
  rw [applyMat, this, mulVec_smul, applyMat, List.map_ofFn]
  congr 1; funext i; simp [mul_comm]

/-- a family of orthogonal matrices, one per irrep type, trivial on `0e` -/
structure OrthFamily where
  Q : (l : Nat) → Bool → Matrix (Fin (irDim l)) (Fin (irDim l)) ℝ
  orth : ∀ l p, (Q l p)ᵀ * Q l p = 1
  even0 : Q 0 false = 1

theorem one_by_one (M : Matrix (Fin 1) (Fin 1) ℝ) (h : Mᵀ * M = 1) : M 0 0 = 1 ∨ M 0 0 = -1 := by
  have := congrFun (congrFun h 0) 0
  simp [Matrix.mul_apply] at this
  have h2 : (M 0 0 - 1) * (M 0 0 + 1) = 0 := by ring_nf; linarith
  rcases mul_eq_zero.mp h2 with h3 | h3
  · left; linarith
  · right; linarith

/-- the `1 × 1` matrix acting on `0o` -/
def OrthFamily.q0 (F : OrthFamily) : Matrix (Fin 1) (Fin 1) ℝ := F.Q 0 true

/-- every such family is an `Action` -/
def OrthFamily.toAction (F : OrthFamily) : Action where
  M := fun l p v => applyMat (F.Q l p) v
  σ := F.q0 0 0
  hσ := one_by_one F.q0 (F.orth 0 true)
  len := by intro l p v _; simp [applyMat]
  normSq := by intro l p v hv; exact sumSq_applyMat _ (F.orth l p) v hv
  smul := by intro l p c v _; exact applyMat_smul _ c v
  even0 := by
    intro a
    rw [F.even0, applyMat, one_mulVec]
    exact ofFn_vecOf [a] rfl
  odd0 := by
    intro a
    simp only [applyMat]
    show List.ofFn (F.q0 *ᵥ vecOf 1 [a]) = [F.q0 0 0 * a]
    rw [List.ofFn_succ, List.ofFn_zero]
    simp [mulVec, dotProduct, vecOf]

/-- an element of O(3): rotation matrices `R l` and the inversion sign `s`, acting by `s^{odd} R l` -/
structure O3Family where
  R : (l : Nat) → Matrix (Fin (irDim l)) (Fin (irDim l)) ℝ
  orth : ∀ l, (R l)ᵀ * R l = 1
  triv : R 0 = 1
  s : ℝ
  hs : s = 1 ∨ s = -1

def O3Family.toOrth (G : O3Family) : OrthFamily where
  Q := fun l p => if p then G.s • G.R l else G.R l
  orth := by
    intro l p
    cases p
    · simpa using G.orth l
    · have hs2 : G.s * G.s = 1 := by rcases G.hs with h | h <;> simp [h]
      simp only [if_true, transpose_smul]
      rw [Matrix.smul_mul, Matrix.mul_smul, smul_smul, hs2, one_smul, G.orth l]
  even0 := by simp [G.triv]

theorem O3Family.twisted (G : O3Family) : G.toOrth.toAction.Twisted := by
  intro l p v _
  have hσ : G.toOrth.toAction.σ = G.s := by
    show (G.toOrth.Q 0 true : Matrix (Fin 1) (Fin 1) ℝ) ⟨0, by decide⟩ ⟨0, by decide⟩ = G.s
    simp only [O3Family.toOrth, if_true, G.triv]
    show G.s * (1 : Matrix (Fin 1) (Fin 1) ℝ) 0 0 = G.s
    simp
  have hs2 : G.s * G.s = 1 := by rcases G.hs with h | h <;> simp [h]
  rw [hσ]
  simp only [OrthFamily.toAction, O3Family.toOrth, applyMat]
  cases p
  · simp only [Bool.not_false, if_true, Bool.false_eq_true, if_false, smul_mulVec, List.map_ofFn]
    congr 1; funext i; simp [mul_comm]
  · simp only [Bool.not_true, Bool.false_eq_true, if_false, if_true, smul_mulVec, List.map_ofFn]
    congr 1; funext i
    simp only [Function.comp, Pi.smul_apply, smul_eq_mul]
    rw [mul_comm, ← mul_assoc, hs2, one_mul]



/-- reversal of the coordinates: an orthogonal matrix of every size, different from `1` for size ≥ 2 -/
def revM (n : Nat) : Matrix (Fin n) (Fin n) ℝ := fun i j => if j = i.rev then 1 else 0

theorem revM_orth (n : Nat) : (revM n)ᵀ * revM n = 1 := by
  ext i j
  simp only [Matrix.mul_apply, Matrix.transpose_apply, revM, Matrix.one_apply]
  have : ∀ k : Fin n, ((if i = k.rev then (1:ℝ) else 0) * (if j = k.rev then 1 else 0))
      = if k = i.rev then (if i = j then 1 else 0) else 0 := by
    intro k
    by_cases h : i = k.rev
    · have hk : k = i.rev := by rw [h, Fin.rev_rev]
      subst h
      by_cases h2 : j = k.rev
      · simp [h2]
      · have : ¬ k.rev = j := fun e => h2 e.symm
        simp [h2, this]
    · have hk : ¬ k = i.rev := by intro e; apply h; rw [e, Fin.rev_rev]
      simp [h, hk]
  simp only [this, Finset.sum_ite_eq', Finset.mem_univ, if_true]

/-- a non-trivial element of the hypothesis class: coordinate reversal on every `l ≥ 1`, inversion sign `-1` -/
def O3Family.example : O3Family where
  R := fun l => if l = 0 then 1 else revM (irDim l)
  orth := by intro l; split <;> simp [revM_orth]
  triv := by simp
  s := -1
  hs := Or.inr rfl



/-! ### the inversion as an `Action`, and the grid witness -/

theorem sumSq_map_neg (v : List ℝ) : sumSq (v.map (· * -1)) = sumSq v := by
  induction v with
  | nil => rfl
  | cons a as ih => simp only [List.map_cons, sumSq, ih]; ring

/-- the inversion `x ↦ -x` of O(3): odd irreps change sign, even ones are fixed -/
def Action.inversion : Action where
  M := fun _ p v => if p then v.map (· * -1) else v
  σ := -1
  hσ := Or.inr rfl
  len := by intro l p v h; split <;> simp [h]
  normSq := by
    intro l p v _
    split
    · exact sumSq_map_neg v
    · rfl
  smul := by intro l p c v _; split <;> simp [List.map_map, Function.comp_def, mul_comm]
  even0 := by intro a; simp
  odd0 := by intro a; simp

theorem Action.inversion_twisted : Action.inversion.Twisted := by
  intro l p v _
  cases p <;> simp [Action.inversion, List.map_map]

/-- the grid of the constructor's parity test: `torch.linspace(0, 10, 256)` -/
def gridPoint (k : Nat) : ℝ := 10 * (k : ℝ) / 255

/-- the even-test of the constructor evaluated exactly: `max_k |φ(x_k) - φ(-x_k)| < 1e-5` -/
def GridEven (phi : ℝ → ℝ) : Prop := ∀ k : Nat, k < 256 → |phi (gridPoint k) - phi (-gridPoint k)| < 1 / 100000

/-- even on the grid, not even on ℝ -/
def wit (x : ℝ) : ℝ := x * x + 1 / 100 * Real.sin (Real.pi * (51 / 2) * x)

theorem wit_gridEven : GridEven wit := by
  intro k _
  have h1 : Real.pi * (51 / 2) * gridPoint k = (k : ℝ) * Real.pi := by unfold gridPoint; ring
  have h2 : Real.pi * (51 / 2) * -gridPoint k = -((k : ℝ) * Real.pi) := by unfold gridPoint; ring
  simp only [wit, h1, h2, Real.sin_neg, Real.sin_nat_mul_pi]
  norm_num

theorem wit_not_even : wit (-(1 / 51)) ≠ wit (1 / 51) := by
  have h1 : Real.pi * (51 / 2) * (1 / 51) = Real.pi / 2 := by ring
  have h2 : Real.pi * (51 / 2) * -(1 / 51) = -(Real.pi / 2) := by ring
  simp only [wit, h1, h2, Real.sin_neg, Real.sin_pi_div_two]
  norm_num



/-! ### block-wise reading of `Activation.forward` -/

/-- block `i` of the output: the activation applied to every entry of a block that carries one,
an untouched copy of the block otherwise (`hC`: the constructor accepted, so blocks with an activation are scalar) -/
theorem actBlocks_block (irr : Irreps) (acts : List (Option (Act ℝ))) (dets : List (Option Detect))
    (hS : Specs acts dets) (out : Irreps) (hC : actOutLoop irr dets = .ok out) (hlen : irr.length = dets.length)
    (x y : List ℝ) (hx : x.length = dim irr) (hy : actBlocks irr acts x = .ok y) (i : Nat) (hi : i < irr.length) :
    block irr i y = match acts[i]? with
      | some (some a) => (block irr i x).map a.apply
      | _ => block irr i x := by
  induction irr generalizing acts dets out x y i with
  | nil => simp at hi
  | cons b rest ih =>
    obtain ⟨mul, l, p⟩ := b
    simp only [dim_cons, mulIrDim] at hx
    cases hS with
    | nil => simp at hlen
    | @none as ds hS' =>
      simp only [List.length_cons, Nat.add_right_cancel_iff] at hlen
      simp only [actOutLoop] at hC
      cases hrec : actOutLoop rest ds with
      | error e => simp [hrec, Except.map] at hC
      | ok out' =>
        simp only [actBlocks] at hy
        rw [if_neg (by omega)] at hy
        cases hr : actBlocks rest as (x.drop (mul * irDim l)) with
        | error e => simp [hr, Except.map] at hy
        | ok y' =>
          simp only [hr, Except.map, Except.ok.injEq] at hy
          subst hy
          have hl2 : (x.take (mul * irDim l)).length = mul * irDim l := by simp; omega
          cases i with
          | zero => simp [block_zero, mulIrDim, List.take_left' hl2]
          | succ i =>
            simp only [List.length_cons, Nat.add_lt_add_iff_right] at hi
            simp only [block_succ, mulIrDim, List.drop_left' hl2, List.getElem?_cons_succ]
            exact ih as ds hS' out' hrec hlen _ y' (by simp; omega) hr i hi
    | @some a d as ds hT hS' =>
      simp only [List.length_cons, Nat.add_right_cancel_iff] at hlen
      simp only [actOutLoop] at hC
      by_cases hl0 : l = 0
      · subst hl0
        simp only [bne_self_eq_false, Bool.false_eq_true, if_false] at hC
        cases hq : (if p then d.pAct else some p) with
        | none => simp [hq] at hC
        | some q =>
          simp only [hq] at hC
          cases hrec : actOutLoop rest ds with
          | error e => simp [hrec, Except.map] at hC
          | ok out' =>
            simp only [irDim, Nat.mul_zero, Nat.zero_add, Nat.mul_one] at hx
            simp only [actBlocks, irDim, Nat.mul_zero, Nat.zero_add, Nat.mul_one] at hy
            rw [if_neg (by omega)] at hy
            cases hr : actBlocks rest as (x.drop mul) with
            | error e => simp [hr, Except.map] at hy
            | ok y' =>
              simp only [hr, Except.map, Except.ok.injEq] at hy
              subst hy
              have hl2 : ((x.take mul).map a.apply).length = mul := by simp; omega
              cases i with
              | zero =>
                simp only [block_zero, mulIrDim, irDim, Nat.mul_zero, Nat.zero_add, Nat.mul_one,
                  List.take_left' hl2, List.getElem?_cons_zero]
              | succ i =>
                simp only [List.length_cons, Nat.add_lt_add_iff_right] at hi
                simp only [block_succ, mulIrDim, irDim, Nat.mul_zero, Nat.zero_add, Nat.mul_one,
                  List.drop_left' hl2, List.getElem?_cons_succ]
                exact ih as ds hS' out' hrec hlen _ y' (by simp; omega) hr i hi
      · have : (l != 0) = true := by simpa using hl0
        simp [this] at hC

/-! ### the value of `Gate.forward` -/

/-- `Gate.forward` = activated scalars followed by (gated copies × their own activated gate scalars), where the three
parts are the blocks selected by the three `_Sortcut` instructions -/
theorem gateFwd_formula (irrS irrG irrY : Irreps)
    (actS : List (Option (Act ℝ))) (detS : List (Option Detect)) (hSS : Specs actS detS)
    (actG : List (Option (Act ℝ))) (detG : List (Option Detect)) (hSG : Specs actG detG)
    (info : GateInfo) (hC : gateCtor irrS detS irrG detG irrY = .ok info)
    (x : List ℝ) (hx : x.length = dim info.irrepsIn) :
    ∃ iS iG iY S' G', info.sc.instructions = [iS, iG, iY] ∧
      activationFwd irrS actS (selected info.sc.sorted x iS) = .ok S' ∧
      activationFwd irrG actG (selected info.sc.sorted x iG) = .ok G' ∧
      G'.length = numIrreps irrY ∧ (selected info.sc.sorted x iY).length = dim irrY ∧
      gateFwd irrS actS irrG actG irrY x = .ok (S' ++ ewMul irrY G' (selected info.sc.sorted x iY)) := by
  unfold gateCtor at hC
  cases hg1 : lmaxGuard irrG .gateGates with
  | error e => simp [hg1] at hC
  | ok u1 =>
  cases hg2 : lmaxGuard irrS .gateScalars with
  | error e => simp [hg1, hg2] at hC
  | ok u2 =>
  simp only [hg1, hg2] at hC
  split at hC
  · simp at hC
  rename_i hnum
  have hnum' : numIrreps irrG = numIrreps irrY := by simpa using hnum
  cases hcs : activationCtor irrS detS with
  | error e => simp [hcs] at hC
  | ok scalarsOut =>
  cases hcg : activationCtor irrG detG with
  | error e => simp [hcs, hcg] at hC
  | ok gatesOut =>
  simp only [hcs, hcg, Except.ok.injEq] at hC
  subst hC
  have hW := sortcut_wellFormed [irrS, irrG, irrY]
  have hxs : x.length = dim (sortcut [irrS, irrG, irrY]).sorted := by
    simpa [GateInfo.irrepsIn, sortcut_irrepsIn, dim_simplify] using hx
  have hE := extractFwd_equivariant Action.inversion _ x hxs _ _ hW
  obtain ⟨i1, i2, i3, hins⟩ : ∃ i1 i2 i3, (sortcut [irrS, irrG, irrY]).instructions = [i1, i2, i3] := by
    simp [sortcut, consecRanges]
  rw [sortcut_outs, hins] at hW
  simp only [List.map_cons, List.map_nil] at hW
  obtain ⟨w1, hW⟩ := List.forall₂_cons.mp hW
  obtain ⟨w2, hW⟩ := List.forall₂_cons.mp hW
  obtain ⟨w3, -⟩ := List.forall₂_cons.mp hW
  rw [hins] at hE
  simp only [List.map_cons, List.map_nil, sortcut_outs] at hE
  obtain ⟨hE1, -⟩ := hE
  have lS : (selected (sortcut [irrS, irrG, irrY]).sorted x i1).length = dim irrS := by
    rw [selected, length_flatten_blocks _ x hxs _ _ w1, dim_simplify]
  have lG : (selected (sortcut [irrS, irrG, irrY]).sorted x i2).length = dim irrG := by
    rw [selected, length_flatten_blocks _ x hxs _ _ w2, dim_simplify]
  have lY : (selected (sortcut [irrS, irrG, irrY]).sorted x i3).length = dim irrY := by
    rw [selected, length_flatten_blocks _ x hxs _ _ w3, dim_simplify]
  obtain ⟨S', hS1, -, -⟩ := activationFwd_equivariant Action.inversion irrS actS detS hSS scalarsOut hcs _ lS
  obtain ⟨G', hG1, hG2, -⟩ := activationFwd_equivariant Action.inversion irrG actG detG hSG gatesOut hcg _ lG
  have u1eq : u1 = () := rfl
  subst u1eq
  have scG := lmaxGuard_scalar irrG _ hg1
  obtain ⟨hlG, hloopG⟩ := activationCtor_ok hcg
  have hls := actOutLoop_ls irrG detG gatesOut hlG hloopG
  have scG' : ∀ c ∈ expand gatesOut, c.1 = 0 := by
    intro c hc
    have : c.1 ∈ (expand gatesOut).map (·.1) := List.mem_map_of_mem hc
    rw [hls] at this
    obtain ⟨c', hc', h⟩ := List.mem_map.mp this
    rw [← h]; exact scG c' hc'
  have hn : numIrreps gatesOut = numIrreps irrG := by
    have := congrArg List.length hls
    simpa [length_expand] using this
  have lG' : G'.length = numIrreps irrY := by
    rw [hG2, ← cdim_expand, scalar_cdim _ scG', length_expand, hn, hnum']
  have hdimG : dim irrG = numIrreps irrG := by
    rw [← cdim_expand, scalar_cdim _ scG, length_expand]
  refine ⟨i1, i2, i3, S', G', hins, hS1, hG1, lG', lY, ?_⟩
  unfold gateFwd
  simp only [sortcut_outs, hins, List.map_cons, List.map_nil, hE1, hS1]
  by_cases hG0 : (selected (sortcut [irrS, irrG, irrY]).sorted x i2).length = 0
  · have hY0 : expand irrY = [] := by
      apply List.eq_nil_of_length_eq_zero; rw [length_expand, ← hnum', ← hdimG, ← lG, hG0]
    simp [hG0, ewMul_eq, hY0, ewMulC]
  · simp [hG0, hG1]



/-! ### `NormActivation(normalize=False)`: stored epsilon `None`, `Norm(squared=False)` -/

theorem clampNorms_none (n0 : List ℝ) : clampNorms (none : Option ℝ) n0 = n0 := by
  simp [clampNorms]

/-- the factor without normalisation: `φ(|x| + b)` -/
def plainScale (phi : ℝ → ℝ) (b q : ℝ) : ℝ := phi (Real.sqrt q + b)

theorem ewMulC_plain_scalings (phi : ℝ → ℝ) (cs : List Ir) (b x : List ℝ) (hb : b.length = cs.length) :
    ewMulC cs (normActScalings phi false (some b) ((sqNormsC cs x).map Real.sqrt)) x
      = scaleByC cs (b.map (plainScale phi)) x := by
  induction cs generalizing x b with
  | nil => rfl
  | cons c cs ih =>
    obtain ⟨l, p⟩ := c
    cases b with
    | nil => simp at hb
    | cons b0 bs =>
      simp only [List.length_cons, Nat.add_right_cancel_iff] at hb
      simp only [sqNormsC, List.map_cons, normActScalings_cons, ewMulC, scaleByC, ih _ _ hb]
      congr 1

/-- closed form of `NormActivation(normalize=False).forward`: copy `u` is multiplied by `φ(‖x_u‖ + b_u)` -/
theorem normActFwd_closed_form_plain (irr : Irreps) (phi : ℝ → ℝ)
    (bias : Option (List ℝ)) (hb : ∀ b, bias = some b → b.length = numIrreps irr)
    (x : List ℝ) (hx : x.length = dim irr) :
    normActFwd irr phi false none bias x
      = .ok (scaleByC (expand irr) ((biasList bias (numIrreps irr)).map (plainScale phi)) x) := by
  rw [normActFwd]
  simp only [Option.isSome_none]
  rw [normFwd_closed_form irr x hx]
  simp only [clampNorms_none, ewMul_eq]
  cases bias with
  | some b => rw [ewMulC_plain_scalings _ _ _ _ (by rw [hb b rfl, length_expand])]; rfl
  | none =>
    rw [normActScalings_none, List.length_map, length_sqNormsC,
      ewMulC_plain_scalings _ _ _ _ (by simp), length_expand]; rfl


end
end E3nnVerif.Pointwise
