import Mathlib.Analysis.Normed.Algebra.MatrixExponential
import Mathlib.Analysis.SpecialFunctions.Exponential
import Mathlib.Analysis.Calculus.MeanValue
import Mathlib.Analysis.Calculus.Deriv.Prod
import Mathlib.Analysis.Calculus.Deriv.Mul
import Mathlib.Analysis.Calculus.Deriv.Add

/-
General theorems about one-parameter groups `t ↦ exp(t • X)` of real square matrices.

They lift Lie-algebra (generator) identities — finitely many exact equations between structure
constants and generator matrices — to statements about ALL finite rotations `exp(t • X)` and all
Euler compositions `exp(α•Xy) * exp(β•Xx) * exp(γ•Xy)`.

Core tool: `ode_unique` — a curve `y : ℝ → (n → ℝ)` with `y' = X *ᵥ y` equals `exp(t•X) *ᵥ y 0`.
All statements mention only the canonical (sup) norm on `n → ℝ` / `ℝ`; the (non-canonical) matrix
norm is used only inside proofs, except in `eq_expM_of_hasDerivAt` where the matrix-valued
`HasDerivAt` refers to the L∞ operator norm (`open scoped Matrix.Norms.Operator`); use
`eq_expM_of_hasDerivAt_entry` to stay norm-free.
-/

open Matrix

namespace E3nnVerif.Theory

variable {n m : Type*} [Fintype n] [DecidableEq n] [Fintype m] [DecidableEq m]

noncomputable def expM (A : Matrix n n ℝ) : Matrix n n ℝ := NormedSpace.exp A

theorem expM_eq (A : Matrix n n ℝ) : expM A = NormedSpace.exp A := rfl

theorem expM_zero : expM (0 : Matrix n n ℝ) = 1 := by
  rw [expM_eq, NormedSpace.exp_zero]

theorem expM_neg (A : Matrix n n ℝ) : expM (-A) = (expM A)⁻¹ := Matrix.exp_neg A

theorem expM_transpose (A : Matrix n n ℝ) : expM Aᵀ = (expM A)ᵀ := Matrix.exp_transpose A

theorem isUnit_expM (A : Matrix n n ℝ) : IsUnit (expM A) := Matrix.isUnit_exp A

theorem isUnit_det_expM (A : Matrix n n ℝ) : IsUnit (expM A).det :=
  (Matrix.isUnit_iff_isUnit_det _).mp (isUnit_expM A)

theorem expM_add_of_commute (A B : Matrix n n ℝ) (h : Commute A B) :
    expM (A + B) = expM A * expM B := Matrix.exp_add_of_commute A B h

theorem expM_zero_smul (A : Matrix n n ℝ) : expM ((0 : ℝ) • A) = 1 := by
  rw [zero_smul, expM_zero]

/-! ### 1. exp of a skew matrix is orthogonal -/

theorem expM_transpose_of_skew (A : Matrix n n ℝ) (h : Aᵀ = -A) : (expM A)ᵀ = (expM A)⁻¹ := by
  rw [← expM_transpose, h, expM_neg]

theorem exp_orthogonal_of_skew (A : Matrix n n ℝ) (h : Aᵀ = -A) : (expM A)ᵀ * expM A = 1 := by
  rw [expM_transpose_of_skew A h]
  exact Matrix.nonsing_inv_mul _ (isUnit_det_expM A)

theorem exp_orthogonal_of_skew' (A : Matrix n n ℝ) (h : Aᵀ = -A) : expM A * (expM A)ᵀ = 1 := by
  rw [expM_transpose_of_skew A h]
  exact Matrix.mul_nonsing_inv _ (isUnit_det_expM A)

omit [Fintype n] [DecidableEq n] in
theorem skew_smul (A : Matrix n n ℝ) (h : Aᵀ = -A) (t : ℝ) : (t • A)ᵀ = -(t • A) := by
  rw [Matrix.transpose_smul, h, smul_neg]

theorem exp_smul_orthogonal_of_skew (A : Matrix n n ℝ) (h : Aᵀ = -A) (t : ℝ) :
    (expM (t • A))ᵀ * expM (t • A) = 1 :=
  exp_orthogonal_of_skew _ (skew_smul A h t)

theorem exp_smul_orthogonal_of_skew' (A : Matrix n n ℝ) (h : Aᵀ = -A) (t : ℝ) :
    expM (t • A) * (expM (t • A))ᵀ = 1 :=
  exp_orthogonal_of_skew' _ (skew_smul A h t)

/-! ### 2. group law -/

theorem expM_neg_smul (A : Matrix n n ℝ) (t : ℝ) : expM ((-t) • A) = (expM (t • A))⁻¹ := by
  rw [neg_smul, expM_neg]

theorem expM_neg_smul_of_skew (A : Matrix n n ℝ) (h : Aᵀ = -A) (t : ℝ) :
    expM ((-t) • A) = (expM (t • A))ᵀ := by
  rw [expM_neg_smul, expM_transpose_of_skew _ (skew_smul A h t)]

theorem expM_add_smul (A : Matrix n n ℝ) (s t : ℝ) :
    expM ((s + t) • A) = expM (s • A) * expM (t • A) := by
  rw [add_smul]
  exact expM_add_of_commute _ _ (((Commute.refl A).smul_left s).smul_right t)

theorem expM_smul_mul_neg_smul (A : Matrix n n ℝ) (t : ℝ) :
    expM (t • A) * expM ((-t) • A) = 1 := by
  rw [expM_neg_smul]
  exact Matrix.mul_nonsing_inv _ (isUnit_det_expM _)

theorem expM_neg_smul_mul_smul (A : Matrix n n ℝ) (t : ℝ) :
    expM ((-t) • A) * expM (t • A) = 1 := by
  rw [expM_neg_smul]
  exact Matrix.nonsing_inv_mul _ (isUnit_det_expM _)

/-! ### derivatives -/

section deriv
open scoped Matrix.Norms.Operator

theorem hasDerivAt_expM_smul_entry (A : Matrix n n ℝ) (t : ℝ) (i j : n) :
    HasDerivAt (fun s : ℝ => expM (s • A) i j) ((A * expM (t • A)) i j) t := by
  have h := hasDerivAt_exp_smul_const' (𝕂 := ℝ) A t
  let L : Matrix n n ℝ →ₗ[ℝ] ℝ :=
    { toFun := fun M => M i j, map_add' := fun _ _ => rfl, map_smul' := fun _ _ => rfl }
  have := (LinearMap.toContinuousLinearMap L).hasFDerivAt.comp_hasDerivAt t h
  exact this

theorem hasDerivAt_expM_smul_entry' (A : Matrix n n ℝ) (t : ℝ) (i j : n) :
    HasDerivAt (fun s : ℝ => expM (s • A) i j) ((expM (t • A) * A) i j) t := by
  have h := hasDerivAt_exp_smul_const (𝕂 := ℝ) A t
  let L : Matrix n n ℝ →ₗ[ℝ] ℝ :=
    { toFun := fun M => M i j, map_add' := fun _ _ => rfl, map_smul' := fun _ _ => rfl }
  have := (LinearMap.toContinuousLinearMap L).hasFDerivAt.comp_hasDerivAt t h
  exact this

omit [DecidableEq n] [DecidableEq m] in
/-- matrix-valued `HasDerivAt` (for the L∞ operator norm) implies entrywise. -/
theorem hasDerivAt_entry_of_hasDerivAt {M : ℝ → Matrix n m ℝ} {M' : Matrix n m ℝ} {t : ℝ}
    (h : HasDerivAt M M' t) (i : n) (j : m) : HasDerivAt (fun s => M s i j) (M' i j) t := by
  let L : Matrix n m ℝ →ₗ[ℝ] ℝ :=
    { toFun := fun M => M i j, map_add' := fun _ _ => rfl, map_smul' := fun _ _ => rfl }
  have := (LinearMap.toContinuousLinearMap L).hasFDerivAt.comp_hasDerivAt t h
  exact this

end deriv

theorem hasDerivAt_expM_neg_smul_entry (A : Matrix n n ℝ) (t : ℝ) (i j : n) :
    HasDerivAt (fun s : ℝ => expM ((-s) • A) i j) (-(expM ((-t) • A) * A) i j) t := by
  have h := (hasDerivAt_expM_smul_entry' A (-t) i j).scomp t (hasDerivAt_neg t)
  refine h.congr_deriv ?_
  simp

theorem hasDerivAt_expM_smul_mulVec (A : Matrix n n ℝ) (v : n → ℝ) (t : ℝ) :
    HasDerivAt (fun s : ℝ => expM (s • A) *ᵥ v) (A *ᵥ (expM (t • A) *ᵥ v)) t := by
  rw [hasDerivAt_pi]
  intro i
  have h := HasDerivAt.fun_sum (u := Finset.univ) (fun j _ =>
    (hasDerivAt_expM_smul_entry A t i j).mul_const (v j))
  rw [Matrix.mulVec_mulVec]
  exact h

/-! ### uniqueness of solutions of `y' = X y` -/

theorem ode_unique (X : Matrix n n ℝ) (y : ℝ → n → ℝ)
    (hy : ∀ t, HasDerivAt y (X *ᵥ y t) t) (t : ℝ) : y t = expM (t • X) *ᵥ y 0 := by
  have hg : ∀ s, HasDerivAt (fun s => expM ((-s) • X) *ᵥ y s) 0 s := by
    intro s
    rw [hasDerivAt_pi]
    intro k
    have h := HasDerivAt.fun_sum (u := Finset.univ) (fun j _ =>
      (hasDerivAt_expM_neg_smul_entry X s k j).mul (hasDerivAt_pi.1 (hy s) j))
    have h1 : ∑ j, (expM ((-s) • X) * X) k j * y s j = ((expM ((-s) • X) * X) *ᵥ y s) k := rfl
    have h2 : ∑ j, expM ((-s) • X) k j * (X *ᵥ y s) j = (expM ((-s) • X) *ᵥ (X *ᵥ y s)) k := rfl
    refine HasDerivAt.congr_deriv h ?_
    simp only [neg_mul, Finset.sum_add_distrib, Finset.sum_neg_distrib, h1, h2,
      Matrix.mulVec_mulVec]
    simp
  have hconst := is_const_of_deriv_eq_zero (fun s => (hg s).differentiableAt)
    (fun s => (hg s).deriv) t 0
  simp only [neg_zero, zero_smul, expM_zero, Matrix.one_mulVec] at hconst
  rw [← hconst, Matrix.mulVec_mulVec, expM_smul_mul_neg_smul, Matrix.one_mulVec]

/-! ### 3. invariant vectors -/

theorem expM_smul_mulVec_of_mulVec_eq_zero (A : Matrix n n ℝ) (v : n → ℝ) (h : A *ᵥ v = 0)
    (t : ℝ) : expM (t • A) *ᵥ v = v := by
  have := ode_unique A (fun _ => v) (fun s => by rw [h]; exact hasDerivAt_const s v) t
  exact this.symm

/-! ### 4. uniqueness of the one-parameter group -/

theorem eq_expM_of_hasDerivAt_entry (A : Matrix n n ℝ) (M : ℝ → Matrix n n ℝ) (h0 : M 0 = 1)
    (hd : ∀ t i j, HasDerivAt (fun s => M s i j) ((A * M t) i j) t) :
    ∀ t, M t = expM (t • A) := by
  intro t
  ext i j
  have := ode_unique A (fun s i => M s i j) (fun s => by
    rw [hasDerivAt_pi]
    intro i
    exact hd s i j) t
  have h2 := congrFun this i
  simp only [h0] at h2
  rw [h2]
  simp [Matrix.mulVec, dotProduct, Matrix.one_apply]

section
open scoped Matrix.Norms.Operator
theorem eq_expM_of_hasDerivAt (A : Matrix n n ℝ) (M : ℝ → Matrix n n ℝ) (h0 : M 0 = 1)
    (hd : ∀ t, HasDerivAt M (A * M t) t) : ∀ t, M t = expM (t • A) :=
  eq_expM_of_hasDerivAt_entry A M h0 (fun t i j => hasDerivAt_entry_of_hasDerivAt (hd t) i j)
end

/-! ### 8. differentiable maps (stated for a general finite index type) -/

theorem map_equivariant_of_generator {Y : (m → ℝ) → (n → ℝ)}
    {Y' : (m → ℝ) → ((m → ℝ) →L[ℝ] (n → ℝ))} (A : Matrix m m ℝ) (X : Matrix n n ℝ)
    (hY : ∀ x, HasFDerivAt Y (Y' x) x) (h : ∀ x, Y' x (A *ᵥ x) = X *ᵥ Y x) :
    ∀ (t : ℝ) x, Y (expM (t • A) *ᵥ x) = expM (t • X) *ᵥ Y x := by
  intro t x
  have := ode_unique X (fun s => Y (expM (s • A) *ᵥ x)) (fun s => by
    have := (hY (expM (s • A) *ᵥ x)).comp_hasDerivAt s (hasDerivAt_expM_smul_mulVec A x s)
    rw [h] at this
    exact this) t
  simpa [expM_zero] using this

/-! ### 5. linear intertwiners -/

theorem intertwiner_mulVec_of_generator (Xin : Matrix m m ℝ) (Xout : Matrix n n ℝ)
    (Q : Matrix n m ℝ) (h : Xout * Q = Q * Xin) (t : ℝ) (v : m → ℝ) :
    expM (t • Xout) *ᵥ (Q *ᵥ v) = Q *ᵥ (expM (t • Xin) *ᵥ v) := by
  let L : (m → ℝ) →L[ℝ] (n → ℝ) := LinearMap.toContinuousLinearMap Q.mulVecLin
  have := map_equivariant_of_generator (Y := fun x => Q *ᵥ x) (Y' := fun _ => L) Xin Xout
    (fun x => L.hasFDerivAt) (fun x => by
      show Q *ᵥ (Xin *ᵥ x) = Xout *ᵥ (Q *ᵥ x)
      rw [Matrix.mulVec_mulVec, Matrix.mulVec_mulVec, h]) t v
  exact this.symm

theorem intertwiner_of_generator (Xin : Matrix m m ℝ) (Xout : Matrix n n ℝ)
    (Q : Matrix n m ℝ) (h : Xout * Q = Q * Xin) (t : ℝ) :
    expM (t • Xout) * Q = Q * expM (t • Xin) := by
  have := fun v => intertwiner_mulVec_of_generator Xin Xout Q h t v
  simp only [Matrix.mulVec_mulVec] at this
  exact Matrix.toLin'.injective (LinearMap.ext fun v => by simpa using this v)

/-! ### 6. bilinear maps -/

variable {n₁ n₂ n₃ : Type*} [Fintype n₁] [DecidableEq n₁] [Fintype n₂] [DecidableEq n₂]
  [Fintype n₃] [DecidableEq n₃]

theorem bilinear_equivariant_of_generator
    (B : (n₁ → ℝ) →ₗ[ℝ] (n₂ → ℝ) →ₗ[ℝ] (n₃ → ℝ))
    (X₁ : Matrix n₁ n₁ ℝ) (X₂ : Matrix n₂ n₂ ℝ) (X₃ : Matrix n₃ n₃ ℝ)
    (h : ∀ u v, B (X₁ *ᵥ u) v + B u (X₂ *ᵥ v) = X₃ *ᵥ (B u v)) :
    ∀ (t : ℝ) u v, B (expM (t • X₁) *ᵥ u) (expM (t • X₂) *ᵥ v) = expM (t • X₃) *ᵥ (B u v) := by
  intro t u v
  let B' : (n₁ → ℝ) →L[ℝ] (n₂ → ℝ) →L[ℝ] (n₃ → ℝ) :=
    LinearMap.toContinuousLinearMap
      ((LinearMap.toContinuousLinearMap :
        ((n₂ → ℝ) →ₗ[ℝ] (n₃ → ℝ)) ≃ₗ[ℝ] _).toLinearMap ∘ₗ B)
  have hB : ∀ a b, B' a b = B a b := fun a b => rfl
  have := ode_unique X₃ (fun s => B (expM (s • X₁) *ᵥ u) (expM (s • X₂) *ᵥ v)) (fun s => by
    have h1 := B'.hasFDerivAt.comp_hasDerivAt s (hasDerivAt_expM_smul_mulVec X₁ u s)
    have h2 := h1.clm_apply (hasDerivAt_expM_smul_mulVec X₂ v s)
    refine HasDerivAt.congr_deriv h2 ?_
    simp only [Function.comp, hB]
    rw [← h, Matrix.mulVec_mulVec, Matrix.mulVec_mulVec]) t
  simpa [expM_zero] using this

/-- coordinate form of a bilinear map with structure constants `C`. -/
noncomputable def bil (C : n₁ → n₂ → n₃ → ℝ) (u : n₁ → ℝ) (v : n₂ → ℝ) : n₃ → ℝ :=
  fun k => ∑ i, ∑ j, C i j k * u i * v j

omit [DecidableEq n₁] [DecidableEq n₂] [DecidableEq n₃] [Fintype n₃] in
theorem bil_apply (C : n₁ → n₂ → n₃ → ℝ) (u : n₁ → ℝ) (v : n₂ → ℝ) (k : n₃) :
    bil C u v k = ∑ i, ∑ j, C i j k * u i * v j := rfl

/-- `bil C` as a bundled bilinear map. -/
noncomputable def bilLin (C : n₁ → n₂ → n₃ → ℝ) :
    (n₁ → ℝ) →ₗ[ℝ] (n₂ → ℝ) →ₗ[ℝ] (n₃ → ℝ) :=
  LinearMap.mk₂ ℝ (bil C)
    (fun u u' v => by
      ext k
      simp only [bil_apply, Pi.add_apply, ← Finset.sum_add_distrib]
      exact Finset.sum_congr rfl fun i _ => Finset.sum_congr rfl fun j _ => by ring)
    (fun c u v => by
      ext k
      simp only [bil_apply, Pi.smul_apply, smul_eq_mul, Finset.mul_sum]
      exact Finset.sum_congr rfl fun i _ => Finset.sum_congr rfl fun j _ => by ring)
    (fun u v v' => by
      ext k
      simp only [bil_apply, Pi.add_apply, ← Finset.sum_add_distrib]
      exact Finset.sum_congr rfl fun i _ => Finset.sum_congr rfl fun j _ => by ring)
    (fun c u v => by
      ext k
      simp only [bil_apply, Pi.smul_apply, smul_eq_mul, Finset.mul_sum]
      exact Finset.sum_congr rfl fun i _ => Finset.sum_congr rfl fun j _ => by ring)

omit [DecidableEq n₁] [DecidableEq n₂] [DecidableEq n₃] [Fintype n₃] in
@[simp] theorem bilLin_apply (C : n₁ → n₂ → n₃ → ℝ) (u : n₁ → ℝ) (v : n₂ → ℝ) :
    bilLin C u v = bil C u v := rfl

omit [DecidableEq n₁] [DecidableEq n₂] [DecidableEq n₃] in
/-- the generator (infinitesimal) identity in coordinates implies it for all vectors. -/
theorem bil_generator_identity (C : n₁ → n₂ → n₃ → ℝ)
    (X₁ : Matrix n₁ n₁ ℝ) (X₂ : Matrix n₂ n₂ ℝ) (X₃ : Matrix n₃ n₃ ℝ)
    (h : ∀ l m k, (∑ i, C i m k * X₁ i l) + (∑ j, C l j k * X₂ j m) = ∑ k', X₃ k k' * C l m k')
    (u : n₁ → ℝ) (v : n₂ → ℝ) :
    bil C (X₁ *ᵥ u) v + bil C u (X₂ *ᵥ v) = X₃ *ᵥ bil C u v := by
  ext k
  have A1 : bil C (X₁ *ᵥ u) v k = ∑ l, ∑ m, u l * v m * ∑ i, C i m k * X₁ i l := by
    simp only [bil_apply, Matrix.mulVec, dotProduct, Finset.mul_sum, Finset.sum_mul]
    rw [Finset.sum_comm]
    rw [Finset.sum_congr rfl fun j _ => Finset.sum_comm]
    rw [Finset.sum_comm]
    exact Finset.sum_congr rfl fun l _ => Finset.sum_congr rfl fun j _ =>
      Finset.sum_congr rfl fun i _ => by ring
  have A2 : bil C u (X₂ *ᵥ v) k = ∑ l, ∑ m, u l * v m * ∑ j, C l j k * X₂ j m := by
    simp only [bil_apply, Matrix.mulVec, dotProduct, Finset.mul_sum]
    refine Finset.sum_congr rfl fun l _ => ?_
    rw [Finset.sum_comm]
    exact Finset.sum_congr rfl fun m _ => Finset.sum_congr rfl fun j _ => by ring
  have A3 : (X₃ *ᵥ bil C u v) k = ∑ l, ∑ m, u l * v m * ∑ k', X₃ k k' * C l m k' := by
    simp only [bil_apply, Matrix.mulVec, dotProduct, Finset.mul_sum]
    rw [Finset.sum_comm]
    refine Finset.sum_congr rfl fun l _ => ?_
    rw [Finset.sum_comm]
    exact Finset.sum_congr rfl fun m _ => Finset.sum_congr rfl fun j _ => by ring
  rw [Pi.add_apply, A1, A2, A3, ← Finset.sum_add_distrib]
  refine Finset.sum_congr rfl fun l _ => ?_
  rw [← Finset.sum_add_distrib]
  refine Finset.sum_congr rfl fun m _ => ?_
  rw [← mul_add, h]

theorem bil_equivariant_of_generator (C : n₁ → n₂ → n₃ → ℝ)
    (X₁ : Matrix n₁ n₁ ℝ) (X₂ : Matrix n₂ n₂ ℝ) (X₃ : Matrix n₃ n₃ ℝ)
    (h : ∀ l m k, (∑ i, C i m k * X₁ i l) + (∑ j, C l j k * X₂ j m) = ∑ k', X₃ k k' * C l m k')
    (t : ℝ) (u : n₁ → ℝ) (v : n₂ → ℝ) :
    bil C (expM (t • X₁) *ᵥ u) (expM (t • X₂) *ᵥ v) = expM (t • X₃) *ᵥ bil C u v :=
  bilinear_equivariant_of_generator (bilLin C) X₁ X₂ X₃
    (fun u v => bil_generator_identity C X₁ X₂ X₃ h u v) t u v

/-! ### 7. multilinear maps -/

section multilinear
variable {ι : Type*} [Fintype ι] [DecidableEq ι] {N : ι → Type*} [∀ i, Fintype (N i)]
  [∀ i, DecidableEq (N i)]

omit [Fintype n] [DecidableEq n] in
theorem multilinear_continuous (B : MultilinearMap ℝ (fun i => N i → ℝ) (n → ℝ)) :
    Continuous B := by
  have hexp : ∀ u : (∀ i, N i → ℝ), B u =
      ∑ r : (∀ i, N i), (∏ i, u i (r i)) • B (fun i => Pi.single (r i) (1 : ℝ)) := by
    intro u
    have hu : u = fun i => ∑ j, u i j • (Pi.single j (1 : ℝ) : N i → ℝ) := by
      funext i
      exact pi_eq_sum_univ' (u i)
    conv_lhs => rw [hu]
    rw [MultilinearMap.map_sum]
    exact Finset.sum_congr rfl fun r _ => MultilinearMap.map_smul_univ _ _ _
  rw [show (⇑B) = fun u => ∑ r : (∀ i, N i), (∏ i, u i (r i)) •
    B (fun i => Pi.single (r i) (1 : ℝ)) from funext hexp]
  fun_prop

theorem multilinear_equivariant_of_generator
    (B : MultilinearMap ℝ (fun i => N i → ℝ) (n → ℝ))
    (X : ∀ i, Matrix (N i) (N i) ℝ) (Xout : Matrix n n ℝ)
    (h : ∀ u, ∑ i, B (Function.update u i (X i *ᵥ u i)) = Xout *ᵥ B u) :
    ∀ (t : ℝ) (u : ∀ i, N i → ℝ),
      B (fun i => expM (t • X i) *ᵥ u i) = expM (t • Xout) *ᵥ B u := by
  intro t u
  let Bc : ContinuousMultilinearMap ℝ (fun i => N i → ℝ) (n → ℝ) := ⟨B, multilinear_continuous B⟩
  have hBc : ∀ w, Bc w = B w := fun w => rfl
  have := ode_unique Xout (fun s => B (fun i => expM (s • X i) *ᵥ u i)) (fun s => by
    have hc : HasDerivAt (fun s : ℝ => (fun i => expM (s • X i) *ᵥ u i : ∀ i, N i → ℝ))
        (fun i => X i *ᵥ (expM (s • X i) *ᵥ u i)) s := by
      rw [hasDerivAt_pi]
      intro i
      exact hasDerivAt_expM_smul_mulVec (X i) (u i) s
    have h1 := (Bc.hasFDerivAt (fun i => expM (s • X i) *ᵥ u i)).comp_hasDerivAt s hc
    refine HasDerivAt.congr_deriv h1 ?_
    rw [ContinuousMultilinearMap.linearDeriv_apply]
    simp only [hBc]
    exact h _) t
  simpa [expM_zero] using this

end multilinear

/-! ### 7a. curried trilinear / quadrilinear maps -/

section curried
variable {E₁ E₂ E₃ E₄ F : Type*}
  [NormedAddCommGroup E₁] [NormedSpace ℝ E₁] [FiniteDimensional ℝ E₁]
  [NormedAddCommGroup E₂] [NormedSpace ℝ E₂] [FiniteDimensional ℝ E₂]
  [NormedAddCommGroup E₃] [NormedSpace ℝ E₃] [FiniteDimensional ℝ E₃]
  [NormedAddCommGroup E₄] [NormedSpace ℝ E₄] [FiniteDimensional ℝ E₄]
  [NormedAddCommGroup F] [NormedSpace ℝ F]

/-- linear maps on a finite-dimensional space are continuous (bundled, linear in the map). -/
noncomputable def clm₁ : (E₁ →ₗ[ℝ] F) →ₗ[ℝ] (E₁ →L[ℝ] F) :=
  (LinearMap.toContinuousLinearMap : (E₁ →ₗ[ℝ] F) ≃ₗ[ℝ] _).toLinearMap

theorem hasDerivAt_linear (L : E₁ →ₗ[ℝ] F) {f₁ : ℝ → E₁} {f₁'} {t : ℝ}
    (h₁ : HasDerivAt f₁ f₁' t) : HasDerivAt (fun s => L (f₁ s)) (L f₁') t :=
  (clm₁ L).hasFDerivAt.comp_hasDerivAt t h₁

theorem hasDerivAt_bilinear (B : E₁ →ₗ[ℝ] E₂ →ₗ[ℝ] F)
    {f₁ : ℝ → E₁} {f₂ : ℝ → E₂} {f₁' f₂'} {t : ℝ}
    (h₁ : HasDerivAt f₁ f₁' t) (h₂ : HasDerivAt f₂ f₂' t) :
    HasDerivAt (fun s => B (f₁ s) (f₂ s)) (B f₁' (f₂ t) + B (f₁ t) f₂') t := by
  have a := hasDerivAt_linear (clm₁ ∘ₗ B) h₁
  have b := a.clm_apply h₂
  exact b

theorem hasDerivAt_trilinear (T : E₁ →ₗ[ℝ] E₂ →ₗ[ℝ] E₃ →ₗ[ℝ] F)
    {f₁ : ℝ → E₁} {f₂ : ℝ → E₂} {f₃ : ℝ → E₃} {f₁' f₂' f₃'} {t : ℝ}
    (h₁ : HasDerivAt f₁ f₁' t) (h₂ : HasDerivAt f₂ f₂' t) (h₃ : HasDerivAt f₃ f₃' t) :
    HasDerivAt (fun s => T (f₁ s) (f₂ s) (f₃ s))
      (T f₁' (f₂ t) (f₃ t) + T (f₁ t) f₂' (f₃ t) + T (f₁ t) (f₂ t) f₃') t := by
  have a := hasDerivAt_bilinear (LinearMap.compRight ℝ clm₁ ∘ₗ T) h₁ h₂
  have b := a.clm_apply h₃
  exact b

theorem hasDerivAt_quadrilinear (T : E₁ →ₗ[ℝ] E₂ →ₗ[ℝ] E₃ →ₗ[ℝ] E₄ →ₗ[ℝ] F)
    {f₁ : ℝ → E₁} {f₂ : ℝ → E₂} {f₃ : ℝ → E₃} {f₄ : ℝ → E₄} {f₁' f₂' f₃' f₄'} {t : ℝ}
    (h₁ : HasDerivAt f₁ f₁' t) (h₂ : HasDerivAt f₂ f₂' t) (h₃ : HasDerivAt f₃ f₃' t)
    (h₄ : HasDerivAt f₄ f₄' t) :
    HasDerivAt (fun s => T (f₁ s) (f₂ s) (f₃ s) (f₄ s))
      (T f₁' (f₂ t) (f₃ t) (f₄ t) + T (f₁ t) f₂' (f₃ t) (f₄ t) + T (f₁ t) (f₂ t) f₃' (f₄ t)
        + T (f₁ t) (f₂ t) (f₃ t) f₄') t := by
  have a := hasDerivAt_trilinear (LinearMap.compRight ℝ (LinearMap.compRight ℝ clm₁) ∘ₗ T)
    h₁ h₂ h₃
  have b := a.clm_apply h₄
  exact b

end curried

theorem trilinear_equivariant_of_generator
    (T : (n₁ → ℝ) →ₗ[ℝ] (n₂ → ℝ) →ₗ[ℝ] (n₃ → ℝ) →ₗ[ℝ] (n → ℝ))
    (X₁ : Matrix n₁ n₁ ℝ) (X₂ : Matrix n₂ n₂ ℝ) (X₃ : Matrix n₃ n₃ ℝ) (Xout : Matrix n n ℝ)
    (h : ∀ u v w, T (X₁ *ᵥ u) v w + T u (X₂ *ᵥ v) w + T u v (X₃ *ᵥ w) = Xout *ᵥ (T u v w)) :
    ∀ (t : ℝ) u v w, T (expM (t • X₁) *ᵥ u) (expM (t • X₂) *ᵥ v) (expM (t • X₃) *ᵥ w)
      = expM (t • Xout) *ᵥ (T u v w) := by
  intro t u v w
  have := ode_unique Xout
    (fun s => T (expM (s • X₁) *ᵥ u) (expM (s • X₂) *ᵥ v) (expM (s • X₃) *ᵥ w)) (fun s => by
      have h3 := hasDerivAt_trilinear T (hasDerivAt_expM_smul_mulVec X₁ u s)
        (hasDerivAt_expM_smul_mulVec X₂ v s) (hasDerivAt_expM_smul_mulVec X₃ w s)
      refine HasDerivAt.congr_deriv h3 ?_
      exact h _ _ _) t
  simpa [expM_zero] using this


theorem quadrilinear_equivariant_of_generator {n₄ : Type*} [Fintype n₄] [DecidableEq n₄]
    (T : (n₁ → ℝ) →ₗ[ℝ] (n₂ → ℝ) →ₗ[ℝ] (n₃ → ℝ) →ₗ[ℝ] (n₄ → ℝ) →ₗ[ℝ] (n → ℝ))
    (X₁ : Matrix n₁ n₁ ℝ) (X₂ : Matrix n₂ n₂ ℝ) (X₃ : Matrix n₃ n₃ ℝ) (X₄ : Matrix n₄ n₄ ℝ)
    (Xout : Matrix n n ℝ)
    (h : ∀ u v w z, T (X₁ *ᵥ u) v w z + T u (X₂ *ᵥ v) w z + T u v (X₃ *ᵥ w) z
      + T u v w (X₄ *ᵥ z) = Xout *ᵥ (T u v w z)) :
    ∀ (t : ℝ) u v w z,
      T (expM (t • X₁) *ᵥ u) (expM (t • X₂) *ᵥ v) (expM (t • X₃) *ᵥ w) (expM (t • X₄) *ᵥ z)
        = expM (t • Xout) *ᵥ (T u v w z) := by
  intro t u v w z
  have := ode_unique Xout
    (fun s => T (expM (s • X₁) *ᵥ u) (expM (s • X₂) *ᵥ v) (expM (s • X₃) *ᵥ w)
      (expM (s • X₄) *ᵥ z)) (fun s => by
      have h4 := hasDerivAt_quadrilinear T (hasDerivAt_expM_smul_mulVec X₁ u s)
        (hasDerivAt_expM_smul_mulVec X₂ v s) (hasDerivAt_expM_smul_mulVec X₃ w s)
        (hasDerivAt_expM_smul_mulVec X₄ z s)
      refine HasDerivAt.congr_deriv h4 ?_
      exact h _ _ _ _) t
  simpa [expM_zero] using this

/-! ### 9. Euler-angle compositions -/

/-- `D(α,β,γ) = exp(α Xy) exp(β Xx) exp(γ Xy)` (e3nn's YXY convention). -/
noncomputable def eulerD (Xx Xy : Matrix n n ℝ) (α β γ : ℝ) : Matrix n n ℝ :=
  expM (α • Xy) * expM (β • Xx) * expM (γ • Xy)

theorem eulerD_zero (Xx Xy : Matrix n n ℝ) : eulerD Xx Xy 0 0 0 = 1 := by
  simp [eulerD, expM_zero]

theorem eulerD_mulVec (Xx Xy : Matrix n n ℝ) (α β γ : ℝ) (u : n → ℝ) :
    eulerD Xx Xy α β γ *ᵥ u = expM (α • Xy) *ᵥ (expM (β • Xx) *ᵥ (expM (γ • Xy) *ᵥ u)) := by
  simp only [eulerD, Matrix.mulVec_mulVec, Matrix.mul_assoc]

private theorem mul3_cancel {a b c a' b' c' : Matrix n n ℝ} (ha : a * a' = 1) (hb : b * b' = 1)
    (hc : c * c' = 1) : (c * b * a) * (a' * b' * c') = 1 := by
  calc (c * b * a) * (a' * b' * c') = c * (b * (a * a') * b') * c' := by
        simp only [Matrix.mul_assoc]
    _ = 1 := by rw [ha, Matrix.mul_one, hb, Matrix.mul_one, hc]

/-- inverse of an Euler composition (no skewness needed). -/
theorem eulerD_neg_mul (Xx Xy : Matrix n n ℝ) (α β γ : ℝ) :
    eulerD Xx Xy (-γ) (-β) (-α) * eulerD Xx Xy α β γ = 1 :=
  mul3_cancel (expM_neg_smul_mul_smul Xy α) (expM_neg_smul_mul_smul Xx β)
    (expM_neg_smul_mul_smul Xy γ)

theorem eulerD_mul_neg (Xx Xy : Matrix n n ℝ) (α β γ : ℝ) :
    eulerD Xx Xy α β γ * eulerD Xx Xy (-γ) (-β) (-α) = 1 :=
  mul3_cancel (expM_smul_mul_neg_smul Xy γ) (expM_smul_mul_neg_smul Xx β)
    (expM_smul_mul_neg_smul Xy α)

theorem eulerD_neg_eq_transpose_of_skew (Xx Xy : Matrix n n ℝ) (hx : Xxᵀ = -Xx) (hy : Xyᵀ = -Xy)
    (α β γ : ℝ) : eulerD Xx Xy (-γ) (-β) (-α) = (eulerD Xx Xy α β γ)ᵀ := by
  simp only [eulerD, Matrix.transpose_mul, expM_neg_smul_of_skew _ hx, expM_neg_smul_of_skew _ hy,
    Matrix.mul_assoc]

theorem eulerD_orthogonal_of_skew (Xx Xy : Matrix n n ℝ) (hx : Xxᵀ = -Xx) (hy : Xyᵀ = -Xy)
    (α β γ : ℝ) : (eulerD Xx Xy α β γ)ᵀ * eulerD Xx Xy α β γ = 1 := by
  rw [← eulerD_neg_eq_transpose_of_skew Xx Xy hx hy]
  exact eulerD_neg_mul Xx Xy α β γ

theorem eulerD_orthogonal_of_skew' (Xx Xy : Matrix n n ℝ) (hx : Xxᵀ = -Xx) (hy : Xyᵀ = -Xy)
    (α β γ : ℝ) : eulerD Xx Xy α β γ * (eulerD Xx Xy α β γ)ᵀ = 1 := by
  rw [← eulerD_neg_eq_transpose_of_skew Xx Xy hx hy]
  exact eulerD_mul_neg Xx Xy α β γ

theorem intertwiner_eulerD (Xx_in Xy_in : Matrix m m ℝ) (Xx_out Xy_out : Matrix n n ℝ)
    (Q : Matrix n m ℝ) (hx : Xx_out * Q = Q * Xx_in) (hy : Xy_out * Q = Q * Xy_in)
    (α β γ : ℝ) : eulerD Xx_out Xy_out α β γ * Q = Q * eulerD Xx_in Xy_in α β γ := by
  simp only [eulerD, Matrix.mul_assoc]
  rw [intertwiner_of_generator _ _ Q hy γ, ← Matrix.mul_assoc (expM (β • Xx_out)),
    intertwiner_of_generator _ _ Q hx β, Matrix.mul_assoc, ← Matrix.mul_assoc (expM (α • Xy_out)),
    intertwiner_of_generator _ _ Q hy α]
  simp only [Matrix.mul_assoc]

theorem bilinear_eulerD_equivariant
    (B : (n₁ → ℝ) →ₗ[ℝ] (n₂ → ℝ) →ₗ[ℝ] (n₃ → ℝ))
    (Xx₁ Xy₁ : Matrix n₁ n₁ ℝ) (Xx₂ Xy₂ : Matrix n₂ n₂ ℝ) (Xx₃ Xy₃ : Matrix n₃ n₃ ℝ)
    (hx : ∀ u v, B (Xx₁ *ᵥ u) v + B u (Xx₂ *ᵥ v) = Xx₃ *ᵥ (B u v))
    (hy : ∀ u v, B (Xy₁ *ᵥ u) v + B u (Xy₂ *ᵥ v) = Xy₃ *ᵥ (B u v))
    (α β γ : ℝ) (u : n₁ → ℝ) (v : n₂ → ℝ) :
    B (eulerD Xx₁ Xy₁ α β γ *ᵥ u) (eulerD Xx₂ Xy₂ α β γ *ᵥ v) =
      eulerD Xx₃ Xy₃ α β γ *ᵥ (B u v) := by
  simp only [eulerD_mulVec]
  rw [bilinear_equivariant_of_generator B _ _ _ hy, bilinear_equivariant_of_generator B _ _ _ hx,
    bilinear_equivariant_of_generator B _ _ _ hy]

theorem bil_eulerD_equivariant (C : n₁ → n₂ → n₃ → ℝ)
    (Xx₁ Xy₁ : Matrix n₁ n₁ ℝ) (Xx₂ Xy₂ : Matrix n₂ n₂ ℝ) (Xx₃ Xy₃ : Matrix n₃ n₃ ℝ)
    (hx : ∀ l m k, (∑ i, C i m k * Xx₁ i l) + (∑ j, C l j k * Xx₂ j m) = ∑ k', Xx₃ k k' * C l m k')
    (hy : ∀ l m k, (∑ i, C i m k * Xy₁ i l) + (∑ j, C l j k * Xy₂ j m) = ∑ k', Xy₃ k k' * C l m k')
    (α β γ : ℝ) (u : n₁ → ℝ) (v : n₂ → ℝ) :
    bil C (eulerD Xx₁ Xy₁ α β γ *ᵥ u) (eulerD Xx₂ Xy₂ α β γ *ᵥ v) =
      eulerD Xx₃ Xy₃ α β γ *ᵥ bil C u v :=
  bilinear_eulerD_equivariant (bilLin C) _ _ _ _ _ _
    (bil_generator_identity C _ _ _ hx) (bil_generator_identity C _ _ _ hy) α β γ u v

theorem map_eulerD_equivariant {Y : (m → ℝ) → (n → ℝ)}
    {Y' : (m → ℝ) → ((m → ℝ) →L[ℝ] (n → ℝ))} (Ax Ay : Matrix m m ℝ) (Xx Xy : Matrix n n ℝ)
    (hY : ∀ x, HasFDerivAt Y (Y' x) x) (hx : ∀ x, Y' x (Ax *ᵥ x) = Xx *ᵥ Y x)
    (hy : ∀ x, Y' x (Ay *ᵥ x) = Xy *ᵥ Y x) (α β γ : ℝ) (x : m → ℝ) :
    Y (eulerD Ax Ay α β γ *ᵥ x) = eulerD Xx Xy α β γ *ᵥ Y x := by
  simp only [eulerD_mulVec]
  rw [map_equivariant_of_generator Ay Xy hY hy, map_equivariant_of_generator Ax Xx hY hx,
    map_equivariant_of_generator Ay Xy hY hy]

/-! ### examples (non-vacuity) -/

/-- Levi-Civita symbol as structure constants: `bil lc u v = u × v`. -/
def lc : Fin 3 → Fin 3 → Fin 3 → ℝ := fun i j k =>
  ![![![0, 0, 0], ![0, 0, 1], ![0, -1, 0]],
    ![![0, 0, -1], ![0, 0, 0], ![1, 0, 0]],
    ![![0, 1, 0], ![-1, 0, 0], ![0, 0, 0]]] i j k

/-- so(3) generator about axis `a`: `so3Gen a *ᵥ v = e_a × v`. -/
def so3Gen (a : Fin 3) : Matrix (Fin 3) (Fin 3) ℝ := Matrix.of fun i k => lc i a k

theorem so3Gen_skew (a : Fin 3) : (so3Gen a)ᵀ = -so3Gen a := by
  ext i j
  fin_cases a <;> fin_cases i <;> fin_cases j <;> simp [so3Gen, lc]

theorem lc_generator (a : Fin 3) (l m k : Fin 3) :
    (∑ i, lc i m k * so3Gen a i l) + (∑ j, lc l j k * so3Gen a j m)
      = ∑ k', so3Gen a k k' * lc l m k' := by
  fin_cases a <;> fin_cases l <;> fin_cases m <;> fin_cases k <;>
    simp [Fin.sum_univ_three, so3Gen, lc]

example : so3Gen 2 = !![0, -1, 0; 1, 0, 0; 0, 0, 0] := by
  ext i j
  fin_cases i <;> fin_cases j <;> simp [so3Gen, lc]

example (u v : Fin 3 → ℝ) :
    bil lc u v = ![u 1 * v 2 - u 2 * v 1, u 2 * v 0 - u 0 * v 2, u 0 * v 1 - u 1 * v 0] := by
  ext k
  fin_cases k <;> simp [bil, Fin.sum_univ_three, lc] <;> ring

/-- rotations `exp(t • so3Gen a)` are orthogonal. -/
example (a : Fin 3) (t : ℝ) : (expM (t • so3Gen a))ᵀ * expM (t • so3Gen a) = 1 :=
  exp_smul_orthogonal_of_skew _ (so3Gen_skew a) t

/-- the axis is fixed by the rotation about it. -/
example (t : ℝ) : expM (t • so3Gen 2) *ᵥ ![0, 0, 1] = ![0, 0, 1] :=
  expM_smul_mulVec_of_mulVec_eq_zero _ _ (by
    ext i; fin_cases i <;> simp [so3Gen, lc, Matrix.mulVec, dotProduct, Fin.sum_univ_three]) t

/-- the cross product is equivariant under every rotation `exp(t • so3Gen a)`. -/
example (a : Fin 3) (t : ℝ) (u v : Fin 3 → ℝ) :
    bil lc (expM (t • so3Gen a) *ᵥ u) (expM (t • so3Gen a) *ᵥ v)
      = expM (t • so3Gen a) *ᵥ bil lc u v :=
  bil_equivariant_of_generator lc _ _ _ (lc_generator a) t u v

/-- … and under every Euler composition. -/
example (α β γ : ℝ) (u v : Fin 3 → ℝ) :
    bil lc (eulerD (so3Gen 0) (so3Gen 1) α β γ *ᵥ u) (eulerD (so3Gen 0) (so3Gen 1) α β γ *ᵥ v)
      = eulerD (so3Gen 0) (so3Gen 1) α β γ *ᵥ bil lc u v :=
  bil_eulerD_equivariant lc _ _ _ _ _ _ (lc_generator 0) (lc_generator 1) α β γ u v

/-- intertwiner hypothesis: a generator commutes with itself (`Q = X`). -/
example (a : Fin 3) (t : ℝ) : expM (t • so3Gen a) * so3Gen a = so3Gen a * expM (t • so3Gen a) :=
  intertwiner_of_generator _ _ (so3Gen a) rfl t

/-- hypotheses of `eq_expM_of_hasDerivAt_entry` are satisfied by `t ↦ expM (t • A)` itself. -/
example (A : Matrix (Fin 3) (Fin 3) ℝ) :
    (fun t : ℝ => expM (t • A)) 0 = 1 ∧
    ∀ t i j, HasDerivAt (fun s : ℝ => expM (s • A) i j) ((A * expM (t • A)) i j) t :=
  ⟨expM_zero_smul A, hasDerivAt_expM_smul_entry A⟩

/-- `map_equivariant_of_generator` for the polynomial map `x ↦ |x|²` (`X = 0`, skew `A`):
the squared norm is invariant under `exp(t • so3Gen a)`. -/
example (a : Fin 3) (t : ℝ) (x : Fin 3 → ℝ) :
    (fun _ : Fin 1 => ∑ i, (expM (t • so3Gen a) *ᵥ x) i * (expM (t • so3Gen a) *ᵥ x) i)
      = fun _ : Fin 1 => ∑ i, x i * x i := by
  have hY : ∀ x : Fin 3 → ℝ, HasFDerivAt (fun x : Fin 3 → ℝ => fun _ : Fin 1 => ∑ i, x i * x i)
      (ContinuousLinearMap.pi fun _ : Fin 1 => ∑ i : Fin 3,
        (x i • ContinuousLinearMap.proj (R := ℝ) (φ := fun _ : Fin 3 => ℝ) i +
          x i • ContinuousLinearMap.proj (R := ℝ) (φ := fun _ : Fin 3 => ℝ) i)) x := by
    intro x
    rw [hasFDerivAt_pi]
    intro _
    exact HasFDerivAt.fun_sum fun i _ => (hasFDerivAt_apply i x).mul (hasFDerivAt_apply i x)
  have := map_equivariant_of_generator (so3Gen a) (0 : Matrix (Fin 1) (Fin 1) ℝ) hY (fun x => by
    ext k
    fin_cases a <;>
      simp [so3Gen, lc, Matrix.mulVec, dotProduct, Fin.sum_univ_three] <;> ring) t x
  simpa [expM_zero] using this

/-- trilinear: the iterated cross product `(u × v) × w`. -/
example (a : Fin 3) (t : ℝ) (u v w : Fin 3 → ℝ) :
    bil lc (bil lc (expM (t • so3Gen a) *ᵥ u) (expM (t • so3Gen a) *ᵥ v)) (expM (t • so3Gen a) *ᵥ w)
      = expM (t • so3Gen a) *ᵥ bil lc (bil lc u v) w :=
  trilinear_equivariant_of_generator ((bilLin lc).compr₂ (bilLin lc)) _ _ _ _ (fun u v w => by
    simp only [LinearMap.compr₂_apply, bilLin_apply]
    rw [← bil_generator_identity lc _ _ _ (lc_generator a) (bil lc u v) w,
      ← bil_generator_identity lc _ _ _ (lc_generator a) u v]
    simp only [← bilLin_apply, map_add, LinearMap.add_apply]) t u v w

/-- multilinear: pointwise product of two vectors, diagonal generators. -/
example (d : Fin 3 → ℝ) (t : ℝ) (u : Fin 2 → Fin 3 → ℝ) :
    MultilinearMap.mkPiAlgebra ℝ (Fin 2) (Fin 3 → ℝ)
        (fun i => expM (t • Matrix.diagonal d) *ᵥ u i)
      = expM (t • Matrix.diagonal (d + d)) *ᵥ MultilinearMap.mkPiAlgebra ℝ (Fin 2) (Fin 3 → ℝ) u :=
  multilinear_equivariant_of_generator (N := fun _ : Fin 2 => Fin 3)
    (MultilinearMap.mkPiAlgebra ℝ (Fin 2) (Fin 3 → ℝ)) (fun _ => Matrix.diagonal d)
    (Matrix.diagonal (d + d)) (fun u => by
      ext k
      simp [Fin.sum_univ_two, Fin.prod_univ_two, Matrix.mulVec_diagonal]
      ring) t u

/-- quadrilinear: `((u × v) × w) × z`. -/
example (a : Fin 3) (t : ℝ) (u v w z : Fin 3 → ℝ) :
    bil lc (bil lc (bil lc (expM (t • so3Gen a) *ᵥ u) (expM (t • so3Gen a) *ᵥ v))
        (expM (t • so3Gen a) *ᵥ w)) (expM (t • so3Gen a) *ᵥ z)
      = expM (t • so3Gen a) *ᵥ bil lc (bil lc (bil lc u v) w) z :=
  quadrilinear_equivariant_of_generator
    (LinearMap.compRight ℝ (LinearMap.compRight ℝ (bilLin lc)) ∘ₗ
      ((bilLin lc).compr₂ (bilLin lc))) _ _ _ _ _ (fun u v w z => by
    simp only [LinearMap.comp_apply, LinearMap.compRight_apply, LinearMap.compr₂_apply,
      bilLin_apply]
    rw [← bil_generator_identity lc _ _ _ (lc_generator a) (bil lc (bil lc u v) w) z,
      ← bil_generator_identity lc _ _ _ (lc_generator a) (bil lc u v) w,
      ← bil_generator_identity lc _ _ _ (lc_generator a) u v]
    simp only [← bilLin_apply, map_add, LinearMap.add_apply]) t u v w z

end E3nnVerif.Theory
