import E3nnVerif.Theory.ReduceDefs
import E3nnVerif.Theory.PermGerminate
import Mathlib.Data.List.ProdSigma
/-
_reduce.germinate_formulas returns a finite signed permutation group (the signed closure of the
generators read off the formula string).
-/
namespace E3nnVerif.ReduceModel
open E3nnVerif.PermModel

theorem nodupB_iff {α : Type} [DecidableEq α] {l : List α} : nodupB l = true ↔ l.Nodup := by
  unfold nodupB
  rw [beq_iff_eq]
  have h1 : (dedup l).Subperm l := (nodup_dedup l).subperm (fun x hx => mem_dedup.1 hx)
  constructor
  · intro h
    exact (h1.perm_of_length_le (le_of_eq h.symm)).nodup_iff.1 (nodup_dedup l)
  · intro h
    have h2 : l.Subperm (dedup l) := h.subperm (fun x hx => mem_dedup.2 hx)
    exact le_antisymm h1.length_le h2.length_le

theorem termOk_iff {f0 f : List Char} :
    termOk f0 f = true ↔ f.Nodup ∧ (∀ c ∈ f, c ∈ f0) ∧ (∀ c ∈ f0, c ∈ f) ∧ f.length = f0.length := by
  unfold termOk
  simp only [Bool.and_eq_true, nodupB_iff, List.all_eq_true, List.contains_iff_mem, beq_iff_eq]
  tauto

/-- a valid term `f` of the formula yields a permutation `tuple(f.index(i) for i in f0)` -/
theorem termPerm_isPerm {f0 f : List Char} (h0 : f0.Nodup) (hok : termOk f0 f = true) :
    IsPerm (f0.map fun c => f.idxOf c) ∧ (f0.map fun c => f.idxOf c).length = f0.length := by
  obtain ⟨_, _, h2, h3⟩ := termOk_iff.1 hok
  refine ⟨IsPerm.of_nodup ?_ ?_, by simp⟩
  · apply List.Nodup.map_on _ h0
    intro c hc c' hc' e
    exact (List.idxOf_inj (h2 c hc)).1 e
  · intro x hx
    rw [List.mem_map] at hx
    obtain ⟨c, hc, rfl⟩ := hx
    rw [List.length_map, ← h3]
    exact List.idxOf_lt_length_iff.2 (h2 c hc)

/-- the finite universe of the signed closure: `{1,-1} × S_n` -/
def signedUniverse (n : ℕ) : List SPerm := ([1, -1] : List ℤ) ×ˢ group n

theorem mem_signedUniverse {n : ℕ} {a : SPerm} :
    a ∈ signedUniverse n ↔ (a.1 = 1 ∨ a.1 = -1) ∧ IsPerm a.2 ∧ a.2.length = n := by
  obtain ⟨s, p⟩ := a
  unfold signedUniverse
  rw [List.mem_product, mem_group]
  simp

theorem length_signedUniverse (n : ℕ) : (signedUniverse n).length = 2 * fact n := by
  rw [signedUniverse, List.length_product, length_group]; rfl

theorem nodup_signedUniverse (n : ℕ) : (signedUniverse n).Nodup :=
  List.Nodup.product (by decide) (nodup_group n)

theorem signedUniverse_inv (n : ℕ) : ∀ a ∈ signedUniverse n, sInv a ∈ signedUniverse n := by
  intro a ha
  rw [mem_signedUniverse] at ha ⊢
  exact ⟨ha.1, ha.2.1.inverseRaw, by simp [sInv, ha.2.2]⟩

theorem signedUniverse_mul (n : ℕ) :
    ∀ a ∈ signedUniverse n, ∀ b ∈ signedUniverse n, sMul a b ∈ signedUniverse n := by
  intro a ha b hb
  rw [mem_signedUniverse] at ha hb ⊢
  refine ⟨?_, ha.2.1.composeRaw hb.2.1 (by rw [ha.2.2, hb.2.2]), by simp [sMul, ha.2.2]⟩
  rcases ha.1 with h | h <;> rcases hb.1 with h' | h' <;> simp [sMul, h, h']

/-- the signed closure loop terminates within `2 n! + 1` passes and returns a signed group,
    the smallest closed set containing the generators -/
theorem germinateSigned_ok {n : ℕ} {gens : List SPerm} (hne : gens ≠ [])
    (hg : ∀ a ∈ gens, (a.1 = 1 ∨ a.1 = -1) ∧ IsPerm a.2 ∧ a.2.length = n) :
    ∃ G, germinateSigned n gens = .ok G ∧ IsSignedGroup n G ∧ G.Nodup ∧ (∀ a ∈ gens, a ∈ G) ∧
      (∀ T : SPerm → Prop, (∀ a ∈ gens, T a) → (∀ a, T a → T (sInv a)) →
        (∀ a b, T a → T b → T (sMul a b)) → ∀ a ∈ G, T a) := by
  have hsub : ∀ a ∈ dedup gens, a ∈ signedUniverse n := fun a ha =>
    mem_signedUniverse.2 (hg a (mem_dedup.1 ha))
  obtain ⟨G, hG⟩ := closeLoop_terminates (inv := sInv) (mul := sMul) (fuel := 2 * fact n + 1)
    (signedUniverse n) (nodup_signedUniverse n) (nodup_dedup gens) hsub (signedUniverse_inv n)
    (signedUniverse_mul n) (by rw [length_signedUniverse]; omega)
  have hmem : ∀ a ∈ G, a ∈ signedUniverse n :=
    closeLoop_minimal hG (fun a => a ∈ signedUniverse n) hsub
      (fun a ha => signedUniverse_inv n a ha) (fun a b ha hb => signedUniverse_mul n a ha b hb)
  have hsubset : ∀ a ∈ gens, a ∈ G := fun a ha => closeLoop_subset hG a (mem_dedup.2 ha)
  refine ⟨G, by simp [germinateSigned, hG], ?_, closeLoop_nodup hG (nodup_dedup gens), hsubset, ?_⟩
  · obtain ⟨a, ha⟩ := List.exists_mem_of_ne_nil gens hne
    have haG := hsubset a ha
    have hau := mem_signedUniverse.1 (hmem a haG)
    exact
      { one_mem := by
          have := closeLoop_mul_closed hG a haG _ (closeLoop_inv_closed hG a haG)
          have e : sMul a (sInv a) = ((1 : ℤ), identity n) := by
            unfold sMul sInv
            simp only [composeRaw_inverseRaw hau.2.1, hau.2.2]
            rcases hau.1 with h | h <;> simp [h]
          rwa [e] at this
        isPerm := fun b hb => (mem_signedUniverse.1 (hmem b hb)).2
        sign := fun b hb => (mem_signedUniverse.1 (hmem b hb)).1
        inv_mem := closeLoop_inv_closed hG
        mul_mem := closeLoop_mul_closed hG }
  · intro T h1 h2 h3
    exact closeLoop_minimal hG T (fun a ha => h1 a (mem_dedup.1 ha)) h2 h3

/-- germinate_formulas: whenever it returns, `f0` has distinct letters and the returned set is a signed
    group on `len(f0)` indices containing the generator of every term, minimal with that property -/
theorem germinateFormulas_ok {formula : String} {f0 : List Char} {G : List SPerm}
    (h : germinateFormulas formula = .ok (f0, G)) :
    f0.Nodup ∧ IsSignedGroup f0.length G ∧ G.Nodup ∧
      (∀ t ∈ parseTerms formula, termOk f0 t.2 = true ∧ termPerm f0 t ∈ G) ∧
      (∀ T : SPerm → Prop, (∀ t ∈ parseTerms formula, T (termPerm f0 t)) → (∀ a, T a → T (sInv a)) →
        (∀ a b, T a → T b → T (sMul a b)) → ∀ a ∈ G, T a) := by
  unfold germinateFormulas at h
  cases hp : parseTerms formula with
  | nil => rw [hp] at h; simp at h
  | cons t0 rest =>
    obtain ⟨s0, f0'⟩ := t0
    rw [hp] at h
    simp only at h
    split_ifs at h with c1 c2
    have hs0 : s0 = 1 := by simpa using c1
    have hall : ∀ t ∈ (s0, f0') :: rest, termOk f0' t.2 = true := by
      simpa [List.all_eq_true] using c2
    have hf0nd : f0'.Nodup := (termOk_iff.1 (hall _ List.mem_cons_self)).1
    have hgens : ∀ a ∈ ((s0, f0') :: rest).map (termPerm f0'),
        (a.1 = 1 ∨ a.1 = -1) ∧ IsPerm a.2 ∧ a.2.length = f0'.length := by
      intro a ha
      rw [List.mem_map] at ha
      obtain ⟨t, ht, rfl⟩ := ha
      have hsign : t.1 = 1 ∨ t.1 = -1 := by
        have : t ∈ parseTerms formula := by rw [hp]; exact ht
        unfold parseTerms at this
        rw [List.mem_map] at this
        obtain ⟨f, _, rfl⟩ := this
        by_cases hf : f.startsWith "-" <;> simp [hf]
      exact ⟨hsign, termPerm_isPerm hf0nd (hall t ht)⟩
    obtain ⟨G', hG', hgrp, hnd, hsub, hmin⟩ := germinateSigned_ok (n := f0'.length)
      (gens := ((s0, f0') :: rest).map (termPerm f0')) (by simp) hgens
    rw [hG'] at h
    simp only [Except.ok.injEq, Prod.mk.injEq] at h
    obtain ⟨rfl, rfl⟩ := h
    refine ⟨hf0nd, hgrp, hnd, ?_, ?_⟩
    · intro t ht
      exact ⟨hall t ht, hsub _ (List.mem_map.2 ⟨t, ht, rfl⟩)⟩
    · intro T h1 h2 h3
      apply hmin T _ h2 h3
      intro a ha
      rw [List.mem_map] at ha
      obtain ⟨t, ht, rfl⟩ := ha
      exact h1 t ht

/-- the branches of germinate_formulas: AssertionError iff the first term carries a minus sign, else RuntimeError iff
    some term is not a rearrangement of the first one, else it returns (the fuel is never exhausted) -/
theorem germinateFormulas_branches {formula : String} {s0 : ℤ} {f0 : List Char} {rest : List (ℤ × List Char)}
    (hp : parseTerms formula = (s0, f0) :: rest) :
    (s0 ≠ 1 → germinateFormulas formula = .error .assertion) ∧
    (s0 = 1 → (∃ t ∈ (s0, f0) :: rest, termOk f0 t.2 = false) → germinateFormulas formula = .error .runtime) ∧
    (s0 = 1 → (∀ t ∈ (s0, f0) :: rest, termOk f0 t.2 = true) → ∃ G, germinateFormulas formula = .ok (f0, G)) := by
  refine ⟨?_, ?_, ?_⟩
  · intro h
    unfold germinateFormulas
    rw [hp]
    simp [h]
  · rintro rfl ⟨t, ht, hbad⟩
    unfold germinateFormulas
    rw [hp]
    have : (((1 : ℤ), f0) :: rest).all (fun t => termOk f0 t.2) = false := by
      rw [← Bool.not_eq_true, List.all_eq_true]
      intro hh; rw [hh t ht] at hbad; exact Bool.noConfusion hbad
    simp only [this]
    simp
  · rintro rfl hall
    have hall' : (((1 : ℤ), f0) :: rest).all (fun t => termOk f0 t.2) = true := by
      rw [List.all_eq_true]; exact hall
    have hf0nd : f0.Nodup := (termOk_iff.1 (hall _ List.mem_cons_self)).1
    have hgens : ∀ a ∈ (((1 : ℤ), f0) :: rest).map (termPerm f0),
        (a.1 = 1 ∨ a.1 = -1) ∧ IsPerm a.2 ∧ a.2.length = f0.length := by
      intro a ha
      rw [List.mem_map] at ha
      obtain ⟨t, ht, rfl⟩ := ha
      have hsign : t.1 = 1 ∨ t.1 = -1 := by
        have : t ∈ parseTerms formula := by rw [hp]; exact ht
        unfold parseTerms at this
        rw [List.mem_map] at this
        obtain ⟨f, _, rfl⟩ := this
        by_cases hf : f.startsWith "-" <;> simp [hf]
      exact ⟨hsign, termPerm_isPerm hf0nd (hall t ht)⟩
    obtain ⟨G, hG, _⟩ := germinateSigned_ok (n := f0.length)
      (gens := (((1 : ℤ), f0) :: rest).map (termPerm f0)) (by simp) hgens
    refine ⟨G, ?_⟩
    unfold germinateFormulas
    rw [hp]
    simp only [hall', hG]
    simp

end E3nnVerif.ReduceModel
