import Mathlib.Analysis.SpecialFunctions.Trigonometric.Basic
import E3nnVerif.Theory.S2GridBasic
/-
The model's real-trigonometric stand-ins for `torch.fft.rfft` / `torch.fft.irfft` ARE the complex DFT:
  rfft  :  X[k] = Σ_a x[a] e^{-2πi k a / n}
  irfft :  y[a] = (1/n) Σ_{k<n} X̃[k] e^{+2πi k a / n},  X̃ the Hermitian extension of X[0..n//2]  (n odd)
so the trusted statement about torch is exactly "torch.fft implements the DFT".
-/
namespace E3nnVerif.S2Grid
open E3nnVerif Finset Complex

/-- `e^{2πi k a / n}` -/
noncomputable def dftE (n k a : ℕ) : ℂ := Complex.exp ((((dftAngle n k a : ℝ) : ℝ) : ℂ) * I)

theorem dftE_eq (n k a : ℕ) :
    dftE n k a = (Real.cos (dftAngle n k a) : ℂ) + (Real.sin (dftAngle n k a) : ℂ) * I := by
  rw [dftE, Complex.exp_mul_I, Complex.ofReal_cos, Complex.ofReal_sin]

theorem dftE_formula (n k a : ℕ) : dftE n k a = Complex.exp (2 * Real.pi * I * k * a / n) := by
  rw [dftE]; congr 1
  simp only [dftAngle, two_real, Scalar.pi_real, Scalar.ofNat_real]
  push_cast; ring

/-- `torch.fft.rfft(x)[k]` as modelled `= Σ_a x[a] · conj(e^{2πi k a/n})` -/
theorem rfft_is_dft (x : ℕ → ℝ) (n k : ℕ) :
    ((rfftRe x n k : ℝ) : ℂ) + ((rfftIm x n k : ℝ) : ℂ) * I
      = ∑ a ∈ range n, (x a : ℂ) * (starRingEnd ℂ) (dftE n k a) := by
  simp only [rfftRe, rfftIm, sumRange_real, Scalar.cos_real, Scalar.sin_real]
  apply Complex.ext
  · simp [dftE_eq, Complex.re_sum, Complex.cos_ofReal_re, Complex.sin_ofReal_re,
      Complex.cos_ofReal_im, Complex.sin_ofReal_im]
  · simp [dftE_eq, Complex.im_sum, Complex.cos_ofReal_re, Complex.sin_ofReal_re,
      Complex.cos_ofReal_im, Complex.sin_ofReal_im]


/-- Hermitian extension of a half spectrum `X[0..n//2] = re + i·im` to all `n` frequencies
(`X̃[n-k] = conj X[k]`; the imaginary part of `X[0]` is dropped, as `torch.fft.irfft` does) -/
noncomputable def hermExt (re im : ℕ → ℝ) (n k : ℕ) : ℂ :=
  if k = 0 then (re 0 : ℂ)
  else if k ≤ n / 2 then (⟨re k, im k⟩ : ℂ)
  else (starRingEnd ℂ) (⟨re (n - k), im (n - k)⟩ : ℂ)

theorem dftE_reflect (n j a : ℕ) (hn : n ≠ 0) (hj : j ≤ n) :
    dftE n (n - j) a = (starRingEnd ℂ) (dftE n j a) := by
  have hnr : (n : ℝ) ≠ 0 := by exact_mod_cast hn
  have e : (dftAngle n (n - j) a : ℝ) = (a : ℝ) * (2 * Real.pi) - dftAngle n j a := by
    simp only [dftAngle, two_real, Scalar.pi_real, Scalar.ofNat_real]
    rw [Nat.cast_mul, Nat.cast_sub hj, Nat.cast_mul]
    field_simp
  rw [dftE_eq, dftE_eq, e, Real.cos_nat_mul_two_pi_sub, Real.sin_nat_mul_two_pi_sub]
  apply Complex.ext <;> simp

/-- `torch.fft.irfft(X, n)[a]` for odd `n` as modelled `= (1/n) Σ_{k<n} X̃[k] e^{2πi k a/n}` -/
theorem irfft_is_idft (re im : ℕ → ℝ) (L a : ℕ) :
    ((irfftOddDef re im (2 * L + 1) a : ℝ) : ℂ)
      = (1 / ((2 * L + 1 : ℕ) : ℂ)) * ∑ k ∈ range (2 * L + 1), hermExt re im (2 * L + 1) k * dftE (2 * L + 1) k a := by
  have hL : (2 * L + 1) / 2 = L := by omega
  have hn : ((2 * L + 1 : ℕ) : ℂ) ≠ 0 := by exact_mod_cast (by omega : 2 * L + 1 ≠ 0)
  simp only [irfftOddDef, sumRange_real, hL, two_real, Scalar.ofNat_real, Scalar.cos_real, Scalar.sin_real]
  rw [Finset.sum_range_succ', show 2 * L = L + L by ring, Finset.sum_range_add]
  rw [← Finset.sum_range_reflect (fun x => hermExt re im (L + L + 1) (L + x + 1) * dftE (L + L + 1) (L + x + 1) a) L]
  rw [← Finset.sum_add_distrib]
  have pair : ∀ j ∈ range L,
      hermExt re im (L + L + 1) (j + 1) * dftE (L + L + 1) (j + 1) a
        + hermExt re im (L + L + 1) (L + (L - 1 - j) + 1) * dftE (L + L + 1) (L + (L - 1 - j) + 1) a
      = ((2 * (re (j + 1) * Real.cos (dftAngle (L + L + 1) (j + 1) a)
            - im (j + 1) * Real.sin (dftAngle (L + L + 1) (j + 1) a)) : ℝ) : ℂ) := by
    intro j hj
    have hj' : j < L := Finset.mem_range.mp hj
    have i1 : L + (L - 1 - j) + 1 = (L + L + 1) - (j + 1) := by omega
    rw [i1, dftE_reflect (L + L + 1) (j + 1) a (by omega) (by omega)]
    have h1 : hermExt re im (L + L + 1) (j + 1) = (⟨re (j + 1), im (j + 1)⟩ : ℂ) := by
      rw [hermExt, if_neg (by omega), if_pos (by omega)]
    have h2 : hermExt re im (L + L + 1) (L + L + 1 - (j + 1))
        = (starRingEnd ℂ) (⟨re (j + 1), im (j + 1)⟩ : ℂ) := by
      rw [hermExt, if_neg (by omega), if_neg (by omega)]
      have : L + L + 1 - (L + L + 1 - (j + 1)) = j + 1 := by omega
      rw [this]
    rw [h1, h2, dftE_eq]
    apply Complex.ext <;> simp <;> ring
  rw [Finset.sum_congr rfl pair]
  have h0 : hermExt re im (L + L + 1) 0 * dftE (L + L + 1) 0 a = (re 0 : ℂ) := by
    rw [hermExt, if_pos rfl, dftE_eq]
    simp [dftAngle]
  rw [h0, ← Complex.ofReal_sum, ← Finset.mul_sum]
  have e2 : L + L + 1 = 2 * L + 1 := by ring
  rw [e2]
  push_cast
  field_simp
  ring

end E3nnVerif.S2Grid
