import Mathlib.Analysis.SpecialFunctions.Integrals.Basic
import E3nnVerif.Theory.S2GridQuadrature
/-
Kostelec–Rockmore exactness in its polynomial form, for ALL `b`:

    Σ_{j<2b} w_j (2b)² cos(β_j)^n = ½ ∫_{-1}^{1} z^n dz = [n even] / (n + 1)          (n < 2b)

i.e. `_quadrature_weights(b)` on the grid `β_j = π(j+½)/(2b)` integrates every polynomial of degree `< 2b` in
`cos β` exactly against `½ sin β dβ`.  Proof: `cos^n` is a cosine polynomial of degree `n` (product formula,
induction), the weights are exact on every `cos(pβ)`, `p < 2b` (`quadrature_exact_cos`), and both `[p even]/(1-p²)`
and `[n even]/(n+1)` are the values of the continuous integral `½∫_0^π (·) sin β dβ`, which is linear.
-/
namespace E3nnVerif.S2Grid
open E3nnVerif Finset intervalIntegral

/-- `|p − 1|` on naturals: the frequency of the second term of `cos θ · cos pθ` -/
def predAbs (p : ℕ) : ℕ := if p = 0 then 1 else p - 1

theorem cos_mul_cos_nat (p : ℕ) (θ : ℝ) :
    Real.cos θ * Real.cos (p * θ)
      = (Real.cos (((p + 1 : ℕ) : ℝ) * θ) + Real.cos ((predAbs p : ℝ) * θ)) / 2 := by
  unfold predAbs
  split_ifs with h
  · subst h; simp
  · have hp : 1 ≤ p := Nat.one_le_iff_ne_zero.mpr h
    have e1 : ((p + 1 : ℕ) : ℝ) * θ = p * θ + θ := by push_cast; ring
    have e2 : ((p - 1 : ℕ) : ℝ) * θ = p * θ - θ := by rw [Nat.cast_sub hp]; push_cast; ring
    rw [e1, e2, Real.cos_add, Real.cos_sub]; ring

/-- `cos^n` is a cosine polynomial of degree `n` -/
theorem cos_pow_expansion (n : ℕ) :
    ∃ a : ℕ → ℝ, ∀ θ : ℝ, Real.cos θ ^ n = ∑ p ∈ range (n + 1), a p * Real.cos (p * θ) := by
  induction n with
  | zero => exact ⟨fun _ => 1, fun θ => by simp⟩
  | succ n ih =>
    obtain ⟨a, ha⟩ := ih
    refine ⟨fun q => ∑ p ∈ range (n + 1), a p / 2 * ((if q = p + 1 then 1 else 0) + (if q = predAbs p then 1 else 0)),
      fun θ => ?_⟩
    rw [pow_succ, ha θ, Finset.sum_mul]
    simp_rw [Finset.sum_mul]
    rw [Finset.sum_comm]
    refine Finset.sum_congr rfl fun p hp => ?_
    have hp' : p < n + 1 := Finset.mem_range.mp hp
    have h1 : p + 1 ∈ range (n + 1 + 1) := Finset.mem_range.mpr (by omega)
    have h2 : predAbs p ∈ range (n + 1 + 1) := Finset.mem_range.mpr (by unfold predAbs; split_ifs <;> omega)
    have expand : ∀ q : ℕ, a p / 2 * ((if q = p + 1 then 1 else 0) + (if q = predAbs p then 1 else 0)) * Real.cos (q * θ)
        = (if q = p + 1 then a p / 2 * Real.cos (q * θ) else 0)
          + (if q = predAbs p then a p / 2 * Real.cos (q * θ) else 0) := by
      intro q; split_ifs <;> ring
    simp_rw [expand]
    rw [Finset.sum_add_distrib, Finset.sum_ite_eq' _ _ _, Finset.sum_ite_eq' _ _ _, if_pos h1, if_pos h2,
      mul_assoc, mul_comm (Real.cos (p * θ)) (Real.cos θ), cos_mul_cos_nat]
    ring

/-- `∫_0^π cos(pθ) sin θ dθ = 2/(1−p²)` for even `p`, `0` for odd `p` -/
theorem integral_cos_nat_mul_sin (p : ℕ) :
    ∫ θ in (0 : ℝ)..Real.pi, Real.cos (p * θ) * Real.sin θ
      = if p % 2 = 0 then 2 / (1 - (p : ℝ) ^ 2) else 0 := by
  by_cases h1 : p = 1
  · subst h1
    have : ∀ θ : ℝ, Real.cos (((1 : ℕ) : ℝ) * θ) * Real.sin θ = Real.sin θ * Real.cos θ := by
      intro θ; simp; ring
    simp_rw [this]
    rw [integral_sin_mul_cos₁]; simp
  · -- antiderivative  F(θ) = −cos((p+1)θ)/(2(p+1)) + cos((p−1)θ)/(2(p−1))
    have hp1 : ((p : ℝ) + 1) ≠ 0 := by positivity
    have hm1 : ((p : ℝ) - 1) ≠ 0 := by
      intro h; apply h1; have : (p : ℝ) = 1 := by linarith
      exact_mod_cast this
    have hder : ∀ θ ∈ Set.uIcc (0 : ℝ) Real.pi,
        HasDerivAt (fun θ : ℝ => -Real.cos (((p : ℝ) + 1) * θ) / (2 * ((p : ℝ) + 1))
            + Real.cos (((p : ℝ) - 1) * θ) / (2 * ((p : ℝ) - 1)))
          (Real.cos (p * θ) * Real.sin θ) θ := by
      intro θ _
      have d1 : HasDerivAt (fun θ : ℝ => ((p : ℝ) + 1) * θ) ((p : ℝ) + 1) θ := by
        simpa using (hasDerivAt_id θ).const_mul ((p : ℝ) + 1)
      have d2 : HasDerivAt (fun θ : ℝ => ((p : ℝ) - 1) * θ) ((p : ℝ) - 1) θ := by
        simpa using (hasDerivAt_id θ).const_mul ((p : ℝ) - 1)
      have c1 := ((d1.cos).neg).div_const (2 * ((p : ℝ) + 1))
      have c2 := (d2.cos).div_const (2 * ((p : ℝ) - 1))
      have key : HasDerivAt (fun θ : ℝ => -Real.cos (((p : ℝ) + 1) * θ) / (2 * ((p : ℝ) + 1))
            + Real.cos (((p : ℝ) - 1) * θ) / (2 * ((p : ℝ) - 1)))
          (-(-Real.sin (((p : ℝ) + 1) * θ) * ((p : ℝ) + 1)) / (2 * ((p : ℝ) + 1))
            + -Real.sin (((p : ℝ) - 1) * θ) * ((p : ℝ) - 1) / (2 * ((p : ℝ) - 1))) θ := c1.add c2
      refine key.congr_deriv ?_
      have e1 : ((p : ℝ) + 1) * θ = p * θ + θ := by ring
      have e2 : ((p : ℝ) - 1) * θ = p * θ - θ := by ring
      rw [e1, e2, Real.sin_add, Real.sin_sub]
      field_simp
      ring
    have hint : IntervalIntegrable (fun θ : ℝ => Real.cos (p * θ) * Real.sin θ) MeasureTheory.volume 0 Real.pi := by
      apply Continuous.intervalIntegrable; fun_prop
    rw [integral_eq_sub_of_hasDerivAt hder hint]
    have cpi1 : Real.cos (((p : ℝ) + 1) * Real.pi) = (-1) ^ (p + 1) := by
      have : ((p : ℝ) + 1) * Real.pi = ((p + 1 : ℕ) : ℝ) * Real.pi := by push_cast; ring
      rw [this, Real.cos_nat_mul_pi]
    have cpi2 : Real.cos (((p : ℝ) - 1) * Real.pi) = (-1) ^ (p + 1) := by
      have : ((p : ℝ) - 1) * Real.pi = ((p : ℝ) + 1) * Real.pi - 2 * Real.pi := by ring
      rw [this, Real.cos_sub_two_pi, cpi1]
    simp only [mul_zero, Real.cos_zero, cpi1, cpi2]
    have hden : (1 - (p : ℝ) ^ 2) ≠ 0 := by
      have : (1 - (p : ℝ) ^ 2) = -(((p : ℝ) + 1) * ((p : ℝ) - 1)) := by ring
      rw [this]; exact neg_ne_zero.mpr (mul_ne_zero hp1 hm1)
    rcases Nat.even_or_odd p with he | ho
    · have hmod : p % 2 = 0 := Nat.even_iff.mp he
      have hs : ((-1 : ℝ)) ^ (p + 1) = -1 := Odd.neg_one_pow (Even.add_one he)
      rw [if_pos hmod, hs]
      field_simp
      ring
    · have hmod : ¬ p % 2 = 0 := by have := Nat.odd_iff.mp ho; omega
      have hs : ((-1 : ℝ)) ^ (p + 1) = 1 := Even.neg_one_pow (Odd.add_one ho)
      rw [if_neg hmod, hs]
      ring

/-- `∫_0^π cos^n θ sin θ dθ = ∫_{-1}^{1} z^n dz` -/
theorem integral_cos_pow_mul_sin (n : ℕ) :
    ∫ θ in (0 : ℝ)..Real.pi, Real.cos θ ^ n * Real.sin θ = if n % 2 = 0 then 2 / ((n : ℝ) + 1) else 0 := by
  have h := @integral_sin_pow_odd_mul_cos_pow 0 Real.pi 0 n
  simp only [mul_zero, zero_add, pow_one, pow_zero, mul_one, Real.cos_pi, Real.cos_zero] at h
  have : ∀ θ : ℝ, Real.cos θ ^ n * Real.sin θ = Real.sin θ * Real.cos θ ^ n := fun θ => mul_comm _ _
  simp_rw [this]
  rw [h, integral_pow]
  rcases Nat.even_or_odd n with he | ho
  · have hmod : n % 2 = 0 := Nat.even_iff.mp he
    rw [if_pos hmod, Odd.neg_one_pow (Even.add_one he)]
    simp; ring
  · have hmod : ¬ n % 2 = 0 := by have := Nat.odd_iff.mp ho; omega
    rw [if_neg hmod, Even.neg_one_pow (Odd.add_one ho)]
    simp

/-- **Kostelec–Rockmore exactness on powers of `cos β`** (all `b ≥ 1`, all `n < 2b`) -/
theorem quadrature_exact_pow (b n : ℕ) (hb : 0 < b) (hn : n < 2 * b) :
    ∑ j ∈ range (2 * b), (quadratureWeight b j : ℝ) * (((2 * b) ^ 2 : ℕ) : ℝ) * Real.cos (betas (2 * b) j) ^ n
      = if n % 2 = 0 then 1 / ((n : ℝ) + 1) else 0 := by
  obtain ⟨a, ha⟩ := cos_pow_expansion n
  -- discrete side
  have disc : ∑ j ∈ range (2 * b), (quadratureWeight b j : ℝ) * (((2 * b) ^ 2 : ℕ) : ℝ) * Real.cos (betas (2 * b) j) ^ n
      = ∑ p ∈ range (n + 1), a p * (if p % 2 = 0 then 1 / (1 - (p : ℝ) ^ 2) else 0) := by
    simp_rw [ha, Finset.mul_sum]
    rw [Finset.sum_comm]
    refine Finset.sum_congr rfl fun p hp => ?_
    have hp' : p < 2 * b := by have := Finset.mem_range.mp hp; omega
    rw [← quadrature_exact_cos b p hb hp', Finset.mul_sum]
    exact Finset.sum_congr rfl fun j _ => by ring
  -- continuous side
  have cont : ∫ θ in (0 : ℝ)..Real.pi, Real.cos θ ^ n * Real.sin θ
      = ∑ p ∈ range (n + 1), a p * (if p % 2 = 0 then 2 / (1 - (p : ℝ) ^ 2) else 0) := by
    have e : ∀ θ : ℝ, Real.cos θ ^ n * Real.sin θ
        = ∑ p ∈ range (n + 1), a p * (Real.cos (p * θ) * Real.sin θ) := by
      intro θ; rw [ha θ, Finset.sum_mul]; exact Finset.sum_congr rfl fun p _ => by ring
    simp_rw [e]
    rw [intervalIntegral.integral_finsetSum]
    · refine Finset.sum_congr rfl fun p _ => ?_
      rw [intervalIntegral.integral_const_mul, integral_cos_nat_mul_sin]
    · intro p _
      apply Continuous.intervalIntegrable; fun_prop
  rw [disc]
  have half : ∑ p ∈ range (n + 1), a p * (if p % 2 = 0 then 1 / (1 - (p : ℝ) ^ 2) else 0)
      = (1 / 2) * ∑ p ∈ range (n + 1), a p * (if p % 2 = 0 then 2 / (1 - (p : ℝ) ^ 2) else 0) := by
    rw [Finset.mul_sum]
    refine Finset.sum_congr rfl fun p _ => ?_
    split_ifs <;> ring
  rw [half, ← cont, integral_cos_pow_mul_sin]
  split_ifs <;> ring

end E3nnVerif.S2Grid
