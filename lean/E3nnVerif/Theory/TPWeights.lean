import Mathlib.Data.List.Basic
import E3nnVerif.Model.TPChecks
/-
Weight bookkeeping of `TensorProduct` for ALL instruction lists (C19 a): the slices
`[weightOffset c k, weightOffset c k + pathSize c ins_k)` of the weighted instructions partition `[0, weightNumel c)`
in instruction order; unweighted instructions do not move the offset; `pathOfWeight` inverts the slicing.
No bound on the number of instructions, the multiplicities, the order or the mix of weighted / unweighted ones.
-/
namespace E3nnVerif.Model.TP

/-- instruction `k` (the default instruction — unweighted — beyond the end of the list) -/
def insAt (c : Cfg) (k : Nat) : Ins := c.ins.getD k default

/-- number of weights instruction `p` owns: its path size if it is weighted, nothing otherwise -/
def wsize (c : Cfg) (p : Ins) : Nat := if p.hasW then pathSize c p else 0

/-- flat weight index `n` lies in the slice of instruction `k` -/
def InSlice (c : Cfg) (k n : Nat) : Prop :=
  weightOffset c k ≤ n ∧ n < weightOffset c k + pathSize c (insAt c k)

instance (c : Cfg) (k n : Nat) : Decidable (InSlice c k n) := by unfold InSlice; infer_instance

private theorem foldl_add_eq_sum (l : List Nat) (a : Nat) : l.foldl (· + ·) a = a + l.sum := by
  induction l generalizing a with
  | nil => simp
  | cons h t ih => simp only [List.foldl, ih, List.sum_cons]; omega

theorem weightNumel_eq_sum (c : Cfg) : weightNumel c = (c.ins.map (wsize c)).sum := by
  unfold weightNumel; rw [foldl_add_eq_sum, Nat.zero_add]; rfl

theorem weightOffset_eq_sum (c : Cfg) (k : Nat) : weightOffset c k = ((c.ins.take k).map (wsize c)).sum := by
  unfold weightOffset; rw [foldl_add_eq_sum, Nat.zero_add]; rfl

theorem insAt_of_length_le (c : Cfg) {k : Nat} (h : c.ins.length ≤ k) : insAt c k = default := by
  unfold insAt; simp [List.getD_eq_getElem?_getD, List.getElem?_eq_none h]

theorem insAt_hasW_lt (c : Cfg) {k : Nat} (h : (insAt c k).hasW = true) : k < c.ins.length := by
  by_contra hk
  rw [insAt_of_length_le c (Nat.le_of_not_lt hk)] at h
  exact absurd h (by decide)

theorem insAt_mem (c : Cfg) {k : Nat} (h : k < c.ins.length) : insAt c k ∈ c.ins := by
  unfold insAt
  rw [List.getD_eq_getElem?_getD, List.getElem?_eq_getElem h]
  exact List.getElem_mem h

theorem wsize_default (c : Cfg) : wsize c default = 0 := rfl

@[simp] theorem weightOffset_zero (c : Cfg) : weightOffset c 0 = 0 := by simp [weightOffset_eq_sum]

/-- **offsets ignore unweighted instructions**: the offset advances by the path size of a weighted instruction and
    by nothing for an unweighted one (and beyond the end of the list) -/
theorem weightOffset_succ (c : Cfg) (k : Nat) :
    weightOffset c (k + 1) = weightOffset c k + (if (insAt c k).hasW then pathSize c (insAt c k) else 0) := by
  change _ = _ + wsize c (insAt c k)
  rw [weightOffset_eq_sum, weightOffset_eq_sum, List.take_add_one]
  unfold insAt
  rw [List.getD_eq_getElem?_getD]
  cases h : c.ins[k]? with
  | none => simp [wsize_default]
  | some p => simp

theorem weightOffset_of_length_le (c : Cfg) {k : Nat} (h : c.ins.length ≤ k) : weightOffset c k = weightNumel c := by
  rw [weightOffset_eq_sum, weightNumel_eq_sum, List.take_of_length_le h]

theorem weightOffset_length (c : Cfg) : weightOffset c c.ins.length = weightNumel c :=
  weightOffset_of_length_le c (Nat.le_refl _)

theorem weightOffset_mono (c : Cfg) {j k : Nat} (h : j ≤ k) : weightOffset c j ≤ weightOffset c k := by
  induction k with
  | zero => simp [Nat.le_zero.mp h]
  | succ k ih =>
    rcases Nat.lt_or_ge j (k + 1) with hlt | hge
    · have := ih (Nat.lt_succ_iff.mp hlt)
      rw [weightOffset_succ]; omega
    · have : j = k + 1 := by omega
      simp [this]

theorem weightOffset_le_numel (c : Cfg) (k : Nat) : weightOffset c k ≤ weightNumel c := by
  rcases Nat.lt_or_ge k c.ins.length with h | h
  · rw [← weightOffset_length]; exact weightOffset_mono c (Nat.le_of_lt h)
  · rw [weightOffset_of_length_le c h]; exact Nat.le_refl _

/-- the end of a weighted slice is the next offset -/
theorem slice_end (c : Cfg) {k : Nat} (hw : (insAt c k).hasW = true) :
    weightOffset c k + pathSize c (insAt c k) = weightOffset c (k + 1) := by
  rw [weightOffset_succ, hw]; simp

/-- **inside `[0, weightNumel)`** -/
theorem slice_le_numel (c : Cfg) {k : Nat} (hw : (insAt c k).hasW = true) :
    weightOffset c k + pathSize c (insAt c k) ≤ weightNumel c := by
  rw [slice_end c hw]; exact weightOffset_le_numel c _

/-- **in instruction order, non-overlapping**: an earlier weighted slice ends before a later one starts -/
theorem slice_before (c : Cfg) {j k : Nat} (hjk : j < k) (hw : (insAt c j).hasW = true) :
    weightOffset c j + pathSize c (insAt c j) ≤ weightOffset c k := by
  rw [slice_end c hw]; exact weightOffset_mono c hjk

/-- **pairwise disjoint** -/
theorem slices_disjoint (c : Cfg) {j k n : Nat} (hj : (insAt c j).hasW = true) (hk : (insAt c k).hasW = true)
    (hnj : InSlice c j n) (hnk : InSlice c k n) : j = k := by
  unfold InSlice at hnj hnk
  rcases Nat.lt_trichotomy j k with h | h | h
  · have := slice_before c h hj; omega
  · exact h
  · have := slice_before c h hk; omega

/-- **consecutive**: if every instruction strictly between `j` and `k` is unweighted (or has an empty path), slice `k`
    starts exactly where slice `j` ends -/
theorem slices_consecutive (c : Cfg) {j k : Nat} (hjk : j < k) (hw : (insAt c j).hasW = true)
    (hbetween : ∀ i, j < i → i < k → (insAt c i).hasW = false ∨ pathSize c (insAt c i) = 0) :
    weightOffset c k = weightOffset c j + pathSize c (insAt c j) := by
  rw [slice_end c hw]
  obtain ⟨d, rfl⟩ : ∃ d, k = j + 1 + d := ⟨k - (j + 1), by omega⟩
  induction d with
  | zero => rfl
  | succ d ih =>
    have h1 := ih (by omega) (fun i h1 h2 => hbetween i h1 (by omega))
    rw [show j + 1 + (d + 1) = (j + 1 + d) + 1 from rfl, weightOffset_succ, h1]
    rcases hbetween (j + 1 + d) (by omega) (by omega) with h | h
    · simp [h]
    · simp [h]

/-- **the lengths add up**: `Σ_k (weighted k ? pathSize k : 0) = weightNumel` -/
theorem sum_slice_lengths (c : Cfg) :
    ((List.range c.ins.length).map fun k => if (insAt c k).hasW then pathSize c (insAt c k) else 0).sum
      = weightNumel c := by
  have key : ∀ K, ((List.range K).map fun k => if (insAt c k).hasW then pathSize c (insAt c k) else 0).sum
      = weightOffset c K := by
    intro K
    induction K with
    | zero => simp
    | succ K ih => rw [List.range_succ, List.map_append, List.sum_append, ih, weightOffset_succ]; simp
  rw [key, weightOffset_length]

/-- **covering**: every flat weight index below `weightNumel` lies in the slice of a weighted instruction -/
theorem slice_cover (c : Cfg) {n : Nat} (hn : n < weightNumel c) :
    ∃ k, k < c.ins.length ∧ (insAt c k).hasW = true ∧ InSlice c k n := by
  have key : ∀ K, n < weightOffset c K → ∃ k, k < K ∧ (insAt c k).hasW = true ∧ InSlice c k n := by
    intro K
    induction K with
    | zero => intro h; simp at h
    | succ K ih =>
      intro h
      rcases Nat.lt_or_ge n (weightOffset c K) with h1 | h1
      · obtain ⟨k, hk, hw, hs⟩ := ih h1
        exact ⟨k, by omega, hw, hs⟩
      · rw [weightOffset_succ] at h
        cases hw : (insAt c K).hasW with
        | false => rw [hw] at h; simp at h; omega
        | true =>
          rw [hw] at h; simp only [if_true] at h
          exact ⟨K, Nat.lt_succ_self K, hw, h1, h⟩
  rw [← weightOffset_length] at hn
  exact key _ hn

/-- **partition**: the slices of the weighted instructions partition `[0, weightNumel)` -/
theorem slice_partition (c : Cfg) {n : Nat} (hn : n < weightNumel c) :
    ∃! k, (insAt c k).hasW = true ∧ InSlice c k n := by
  obtain ⟨k, _, hw, hs⟩ := slice_cover c hn
  exact ⟨k, ⟨hw, hs⟩, fun j hj => slices_disjoint c hj.1 hw hj.2 hs⟩

theorem inSlice_lt_numel (c : Cfg) {k n : Nat} (hw : (insAt c k).hasW = true) (h : InSlice c k n) :
    n < weightNumel c := by
  have := slice_le_numel c hw
  unfold InSlice at h; omega

theorem find?_eq_some_of_unique {α : Type} (p : α → Bool) (l : List α) (a : α) (ha : a ∈ l) (hp : p a = true)
    (hu : ∀ b ∈ l, p b = true → b = a) : l.find? p = some a := by
  induction l with
  | nil => simp at ha
  | cons h t ih =>
    rw [List.find?_cons]
    cases hh : p h with
    | true =>
      simp only
      rw [hu h (List.mem_cons_self ..) hh]
    | false =>
      simp only
      rcases List.mem_cons.mp ha with rfl | hat
      · rw [hp] at hh; exact absurd hh (by decide)
      · exact ih hat (fun b hb => hu b (List.mem_cons_of_mem _ hb))

/-- **`pathOfWeight` inverts the slicing**: `pathOfWeight c n = some k` iff `k` is a weighted instruction whose slice
    contains `n` (and that `k` is unique by `slices_disjoint`) -/
theorem pathOfWeight_eq_some_iff (c : Cfg) (n k : Nat) :
    pathOfWeight c n = some k ↔ ((insAt c k).hasW = true ∧ InSlice c k n) := by
  unfold pathOfWeight
  constructor
  · intro h
    have hp := List.find?_some h
    simp only [Bool.and_eq_true, decide_eq_true_eq] at hp
    exact ⟨hp.1.1, hp.1.2, hp.2⟩
  · rintro ⟨hw, hs⟩
    apply find?_eq_some_of_unique
    · exact List.mem_range.mpr (insAt_hasW_lt c hw)
    · simp only [Bool.and_eq_true, decide_eq_true_eq]
      exact ⟨⟨hw, hs.1⟩, hs.2⟩
    · intro j _ hj
      simp only [Bool.and_eq_true, decide_eq_true_eq] at hj
      exact slices_disjoint c hj.1.1 hw ⟨hj.1.2, hj.2⟩ hs

theorem pathOfWeight_lt (c : Cfg) {n k : Nat} (h : pathOfWeight c n = some k) : k < c.ins.length :=
  insAt_hasW_lt c ((pathOfWeight_eq_some_iff c n k).mp h).1

/-- `pathOfWeight` is defined exactly on `[0, weightNumel)` -/
theorem pathOfWeight_isSome_iff (c : Cfg) (n : Nat) : (pathOfWeight c n).isSome = true ↔ n < weightNumel c := by
  constructor
  · intro h
    obtain ⟨k, hk⟩ := Option.isSome_iff_exists.mp h
    obtain ⟨hw, hs⟩ := (pathOfWeight_eq_some_iff c n k).mp hk
    exact inSlice_lt_numel c hw hs
  · intro h
    obtain ⟨k, _, hw, hs⟩ := slice_cover c h
    rw [(pathOfWeight_eq_some_iff c n k).mpr ⟨hw, hs⟩]; rfl

end E3nnVerif.Model.TP
