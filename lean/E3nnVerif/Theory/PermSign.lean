import E3nnVerif.Theory.PermCycles
import Mathlib.GroupTheory.Perm.Sign
import Mathlib.GroupTheory.Perm.List
import Mathlib.GroupTheory.Perm.Cycle.Basic
import Mathlib.GroupTheory.Perm.Cycle.Concrete
/-
The list model of S_n is isomorphic to Mathlib's `Equiv.Perm (Fin n)` (`toEquiv`, a homomorphism for
`composeRaw`), and `perm.sign` (parity of the number of even-length cycles) is `Equiv.Perm.sign`.
-/
namespace E3nnVerif.PermModel

/-- the permutation of `Fin n` denoted by the tuple `p` -/
def toEquiv {n : ℕ} (p : List ℕ) (hp : IsPerm p) (hn : p.length = n) : Equiv.Perm (Fin n) where
  toFun i := ⟨p.getD i 0, by have := hp.getD_lt (i := i) (by omega); omega⟩
  invFun i := ⟨(inverseRaw p).getD i 0, by
    have := hp.inverseRaw.getD_lt (i := i) (by rw [length_inverseRaw]; omega)
    rw [length_inverseRaw] at this; omega⟩
  left_inv i := by
    apply Fin.ext
    simp only
    have h1 := getD_composeRaw (p := inverseRaw p) (q := p) (i := i) (by rw [length_inverseRaw]; omega)
    rw [inverseRaw_composeRaw hp, getD_identity (by omega)] at h1
    exact h1.symm
  right_inv i := by
    apply Fin.ext
    simp only
    have h1 := getD_composeRaw (p := p) (q := inverseRaw p) (i := i) (by omega)
    rw [composeRaw_inverseRaw hp, getD_identity (by omega)] at h1
    exact h1.symm

@[simp] theorem toEquiv_apply {n : ℕ} (p : List ℕ) (hp : IsPerm p) (hn : p.length = n) (i : Fin n) :
    ((toEquiv p hp hn i : Fin n) : ℕ) = p.getD i 0 := rfl

/-- `compose p q ↦ toEquiv p * toEquiv q`: same convention as Mathlib (`q` acts first) -/
theorem toEquiv_composeRaw {n : ℕ} {p q : List ℕ} (hp : IsPerm p) (hq : IsPerm q) (hn : p.length = n)
    (hm : q.length = n) :
    toEquiv (composeRaw p q) (hp.composeRaw hq (by omega)) (by simp [hn]) = toEquiv p hp hn * toEquiv q hq hm := by
  ext i
  simp only [toEquiv_apply, Equiv.Perm.coe_mul, Function.comp_apply]
  rw [getD_composeRaw (by omega)]

theorem toEquiv_identity (n : ℕ) : toEquiv (identity n) (isPerm_identity n) (length_identity n) = 1 := by
  ext i
  simp only [toEquiv_apply, Equiv.Perm.coe_one, id_eq]
  exact getD_identity i.2

theorem toEquiv_inverseRaw {n : ℕ} {p : List ℕ} (hp : IsPerm p) (hn : p.length = n) :
    toEquiv (inverseRaw p) hp.inverseRaw (by simp [hn]) = (toEquiv p hp hn)⁻¹ := by
  ext i; rfl

theorem toEquiv_injective {n : ℕ} {p q : List ℕ} (hp : IsPerm p) (hq : IsPerm q) (hn : p.length = n)
    (hm : q.length = n) (h : toEquiv p hp hn = toEquiv q hq hm) : p = q := by
  apply ext_getD (by omega)
  intro i hi
  have := congrArg (fun σ : Equiv.Perm (Fin n) => ((σ ⟨i, by omega⟩ : Fin n) : ℕ)) h
  simpa using this

theorem toEquiv_surjective {n : ℕ} (σ : Equiv.Perm (Fin n)) :
    ∃ (p : List ℕ) (hp : IsPerm p) (hn : p.length = n), toEquiv p hp hn = σ := by
  let p : List ℕ := List.ofFn fun i : Fin n => ((σ i : Fin n) : ℕ)
  have hlen : p.length = n := by simp [p]
  have hp : IsPerm p := by
    apply IsPerm.of_nodup
    · rw [List.nodup_ofFn]
      intro a b e
      exact σ.injective (Fin.ext e)
    · intro x hx
      rw [List.mem_ofFn] at hx
      obtain ⟨i, rfl⟩ := hx
      rw [hlen]; exact (σ i).2
  refine ⟨p, hp, hlen, ?_⟩
  ext i
  simp only [toEquiv_apply]
  rw [getD_of_lt (by omega)]
  simp [p]

/-! ### cycles as `List.formPerm` -/

/-- a list of naturals below `n` as a list in `Fin n` (entries ≥ n are dropped) -/
def toFinList (n : ℕ) (c : List ℕ) : List (Fin n) :=
  c.filterMap fun x => if h : x < n then some ⟨x, h⟩ else none

theorem map_val_toFinList {n : ℕ} {c : List ℕ} (h : ∀ x ∈ c, x < n) : (toFinList n c).map Fin.val = c := by
  induction c with
  | nil => rfl
  | cons a c ih =>
    have ha : a < n := h a List.mem_cons_self
    have := ih (fun x hx => h x (List.mem_cons_of_mem _ hx))
    simp [toFinList, ha] at this ⊢
    exact this

theorem length_toFinList {n : ℕ} {c : List ℕ} (h : ∀ x ∈ c, x < n) : (toFinList n c).length = c.length := by
  have := congrArg List.length (map_val_toFinList h)
  simpa using this

theorem nodup_toFinList {n : ℕ} {c : List ℕ} (h : ∀ x ∈ c, x < n) (hnd : c.Nodup) : (toFinList n c).Nodup := by
  apply List.Nodup.of_map Fin.val
  rw [map_val_toFinList h]; exact hnd

theorem mem_toFinList {n : ℕ} {c : List ℕ} {y : Fin n} : y ∈ toFinList n c ↔ (y : ℕ) ∈ c := by
  unfold toFinList
  rw [List.mem_filterMap]
  constructor
  · rintro ⟨x, hx, hy⟩
    split_ifs at hy with hlt
    · simp only [Option.some.injEq] at hy
      subst hy; exact hx
  · intro hy
    exact ⟨y, hy, by simp⟩

theorem getElem_toFinList {n : ℕ} {l : List ℕ} (h : ∀ x ∈ l, x < n) (k : ℕ) (hk : k < (toFinList n l).length)
    (hk' : k < l.length) : ((toFinList n l)[k]).val = l[k] := by
  have := map_val_toFinList h
  have e : ((toFinList n l).map Fin.val)[k]'(by simpa using hk) = l[k] := by
    simp only [this]
  simpa using e

section
variable {n : ℕ} {p : List ℕ} (hp : IsPerm p) (hn : p.length = n)

/-- the cycle `c` as a permutation of `Fin n` -/
noncomputable def cyclePerm (n : ℕ) (c : List ℕ) : Equiv.Perm (Fin n) := (toFinList n c).formPerm

include hp hn in
theorem cyclePerm_of_mem {c : List ℕ} (hlt : ∀ x ∈ c, x < n) (hnd : c.Nodup) (hf : Follows p c)
    {y : Fin n} (hy : (y : ℕ) ∈ c) : cyclePerm n c y = toEquiv p hp hn y := by
  have hyF : y ∈ toFinList n c := mem_toFinList.2 hy
  obtain ⟨k, hk, rfl⟩ := List.getElem_of_mem hyF
  unfold cyclePerm
  rw [List.formPerm_apply_getElem _ (nodup_toFinList hlt hnd) k hk]
  apply Fin.ext
  have hk' : k < c.length := by rw [← length_toFinList hlt]; exact hk
  have hk2 : (k + 1) % c.length < c.length := Nat.mod_lt _ (by omega)
  rw [getElem_toFinList hlt _ _ (by rw [length_toFinList hlt]; exact hk2), toEquiv_apply,
    getElem_toFinList hlt _ _ hk']
  have := hf k hk'
  rw [ap_of_lt (by rw [hn]; exact hlt _ (List.getElem_mem hk'))] at this
  rw [this]
  simp only [length_toFinList hlt]

theorem cyclePerm_of_notMem {c : List ℕ} {y : Fin n} (hy : (y : ℕ) ∉ c) : cyclePerm n c y = y :=
  List.formPerm_apply_of_notMem (fun h => hy (mem_toFinList.1 h))

include hp hn in
/-- the product of the cycles of `to_cycles p` is `p` (as a permutation of `Fin n`) -/
theorem prod_cyclePerm_apply {cs : List (List ℕ)} (hlt : ∀ c ∈ cs, ∀ x ∈ c, x < n)
    (hnd : ∀ c ∈ cs, c.Nodup) (hf : ∀ c ∈ cs, Follows p c) (hd : cs.Pairwise List.Disjoint) (y : Fin n) :
    (cs.map (cyclePerm n)).prod y = if ∃ c ∈ cs, (y : ℕ) ∈ c then toEquiv p hp hn y else y := by
  induction cs with
  | nil => simp
  | cons c cs ih =>
    rw [List.pairwise_cons] at hd
    have ih' := ih (fun c' hc' => hlt c' (List.mem_cons_of_mem _ hc'))
      (fun c' hc' => hnd c' (List.mem_cons_of_mem _ hc')) (fun c' hc' => hf c' (List.mem_cons_of_mem _ hc')) hd.2
    rw [List.map_cons, List.prod_cons, Equiv.Perm.coe_mul, Function.comp_apply, ih']
    have hc := hf c List.mem_cons_self
    have hcl := hlt c List.mem_cons_self
    have hcn := hnd c List.mem_cons_self
    by_cases hy : (y : ℕ) ∈ c
    · have hnot : ¬ ∃ c' ∈ cs, (y : ℕ) ∈ c' := by
        rintro ⟨c', hc', hm⟩; exact hd.1 c' hc' hy hm
      rw [if_neg hnot, if_pos ⟨c, List.mem_cons_self, hy⟩]
      exact cyclePerm_of_mem hp hn hcl hcn hc hy
    · by_cases hy' : ∃ c' ∈ cs, (y : ℕ) ∈ c'
      · rw [if_pos hy', if_pos (by obtain ⟨c', h1, h2⟩ := hy'; exact ⟨c', List.mem_cons_of_mem _ h1, h2⟩)]
        apply cyclePerm_of_notMem
        obtain ⟨c', hc', hm⟩ := hy'
        intro hin
        have hmem : ap p y ∈ c' := ap_mem_of_follows (hf c' (List.mem_cons_of_mem _ hc')) hm
        rw [ap_of_lt (by rw [hn]; exact y.2)] at hmem
        exact hd.1 c' hc' hin hmem
      · rw [if_neg hy', if_neg (by
          rintro ⟨c', h1, h2⟩
          rcases List.mem_cons.1 h1 with rfl | h1
          · exact hy h2
          · exact hy' ⟨c', h1, h2⟩)]
        exact cyclePerm_of_notMem hy

include hp hn in
theorem prod_cyclePerm_eq {cs : List (List ℕ)} (h : CyclesSpec p cs) :
    (cs.map (cyclePerm n)).prod = toEquiv p hp hn := by
  have hf : ∀ c ∈ cs, Follows p c := by
    intro c hc k hk
    rw [ap_of_lt (h.lt c hc _ (List.getElem_mem hk))]
    exact h.follows c hc k hk
  ext y
  rw [prod_cyclePerm_apply hp hn (fun c hc x hx => hn ▸ h.lt c hc x hx) h.nodup_each hf h.disjoint]
  split_ifs with hin
  · rfl
  · push Not at hin
    have := h.fixed y (by rw [hn]; exact y.2) hin
    rw [toEquiv_apply, this]

theorem sign_cyclePerm {c : List ℕ} (hlt : ∀ x ∈ c, x < n) (hnd : c.Nodup) (h2 : 2 ≤ c.length) :
    Equiv.Perm.sign (cyclePerm n c) = if c.length % 2 = 0 then -1 else 1 := by
  have hndF := nodup_toFinList hlt hnd
  have hlenF := length_toFinList hlt
  have hcyc : (cyclePerm n c).IsCycle := List.isCycle_formPerm hndF (by omega)
  rw [hcyc.sign]
  have hsupp : (cyclePerm n c).support = (toFinList n c).toFinset := by
    apply List.support_formPerm_of_nodup _ hndF
    intro x e
    have := congrArg List.length e
    simp at this; omega
  rw [hsupp, List.toFinset_card_of_nodup hndF, hlenF]
  split_ifs with he
  · rw [Even.neg_one_pow (Nat.even_iff.2 he)]
  · rw [Odd.neg_one_pow (Nat.odd_iff.2 (by omega))]; simp

end

theorem signOfCycles_eq_prod (cs : List (List ℕ)) :
    signOfCycles cs = (cs.map fun c => if c.length % 2 = 0 then (-1 : ℤ) else 1).prod := by
  unfold signOfCycles
  have : ∀ a : ℤ, cs.foldl (fun s c => if c.length % 2 == 0 then -s else s) a =
      a * (cs.map fun c => if c.length % 2 = 0 then (-1 : ℤ) else 1).prod := by
    induction cs with
    | nil => intro a; simp
    | cons c cs ih =>
      intro a
      rw [List.foldl_cons, ih, List.map_cons, List.prod_cons]
      by_cases h : c.length % 2 = 0 <;> simp [h]
  simpa using this 1

/-- perm.sign computes Mathlib's `Equiv.Perm.sign` -/
theorem sign_eq_sign {n : ℕ} {p : List ℕ} (hp : IsPerm p) (hn : p.length = n) :
    sign p = .ok ((Equiv.Perm.sign (toEquiv p hp hn) : ℤˣ) : ℤ) := by
  obtain ⟨cs, hcs, hspec⟩ := toCycles_spec hp
  unfold sign
  rw [hcs]
  simp only [Except.map]
  congr 1
  rw [← prod_cyclePerm_eq hp hn hspec, map_list_prod, List.map_map, signOfCycles_eq_prod]
  have hlt : ∀ c ∈ cs, ∀ x ∈ c, x < n := fun c hc x hx => hn ▸ hspec.lt c hc x hx
  have : ∀ l : List (List ℕ), (∀ c ∈ l, c ∈ cs) →
      (l.map fun c => if c.length % 2 = 0 then (-1 : ℤ) else 1).prod =
        (((l.map (Equiv.Perm.sign ∘ cyclePerm n)).prod : ℤˣ) : ℤ) := by
    intro l
    induction l with
    | nil => intro _; simp
    | cons c l ih =>
      intro hsub
      have hc : c ∈ cs := hsub c List.mem_cons_self
      rw [List.map_cons, List.prod_cons, List.map_cons, List.prod_cons, Units.val_mul,
        ih (fun c' hc' => hsub c' (List.mem_cons_of_mem _ hc')), Function.comp_apply,
        sign_cyclePerm (hlt c hc) (hspec.nodup_each c hc) (hspec.two_le c hc)]
      split_ifs <;> simp
  exact this cs (fun c hc => hc)

end E3nnVerif.PermModel
