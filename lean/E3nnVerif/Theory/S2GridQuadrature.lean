import Mathlib.Analysis.SpecialFunctions.Trigonometric.Basic
import Mathlib.Algebra.BigOperators.Field
import E3nnVerif.Theory.S2GridBasic
/-
The "discrete sine transform" half of Kostelec–Rockmore exactness, for ALL `b`:
`_quadrature_weights(b)` integrates every `cos(pβ)`, `p < 2b`, exactly on the grid `β_j = π(j+½)/(2b)`:

    Σ_{j<2b} w_j (2b)² cos(p β_j) = ½ ∫_0^π cos(pβ) sin β dβ = [p even] / (1 − p²).
-/
namespace E3nnVerif.S2Grid
open E3nnVerif Finset

/-- `β_j = π(2j+1)/(2N)` -/
noncomputable def betaR (N j : ℕ) : ℝ := Real.pi * (2 * j + 1) / (2 * N)

theorem betas_eq_betaR (N j : ℕ) : (betas N j : ℝ) = betaR N j := by
  rw [betas_real, betaR]
  by_cases h : (N : ℝ) = 0
  · simp [h]
  · field_simp

private theorem telescope (f : ℕ → ℝ) (n : ℕ) : ∑ i ∈ range n, (f (i + 1) - f i) = f n - f 0 := by
  induction n with
  | zero => simp
  | succ n ih => rw [Finset.sum_range_succ, ih]; ring

/-- midpoint-grid cosine sums vanish: `Σ_{j<N} cos(q β_j) = 0` for `0 < q < 2N` -/
theorem sum_cos_betaR (N q : ℕ) (h0 : 0 < q) (h1 : q < 2 * N) :
    ∑ j ∈ range N, Real.cos (q * betaR N j) = 0 := by
  have hN : (0 : ℝ) < N := by
    have : 0 < N := by omega
    exact_mod_cast this
  set θ : ℝ := q * Real.pi / N with hθ
  have hs : 0 < Real.sin (θ / 2) := by
    apply Real.sin_pos_of_pos_of_lt_pi
    · rw [hθ]; have : (0 : ℝ) < q := by exact_mod_cast h0
      positivity
    · rw [hθ, div_div, div_lt_iff₀ (by positivity)]
      have : (q : ℝ) < 2 * N := by exact_mod_cast h1
      nlinarith [Real.pi_pos]
  have key : ∀ j : ℕ, 2 * Real.sin (θ / 2) * Real.cos (q * betaR N j)
      = Real.sin (θ * ((j + 1 : ℕ) : ℝ)) - Real.sin (θ * (j : ℝ)) := by
    intro j
    have e1 : θ * ((j + 1 : ℕ) : ℝ) = q * betaR N j + θ / 2 := by
      rw [hθ, betaR]; push_cast; field_simp; ring
    have e2 : θ * (j : ℝ) = q * betaR N j - θ / 2 := by
      rw [hθ, betaR]; field_simp; ring
    rw [e1, e2, Real.sin_add, Real.sin_sub]; ring
  have tot : 2 * Real.sin (θ / 2) * ∑ j ∈ range N, Real.cos (q * betaR N j) = 0 := by
    rw [Finset.mul_sum, Finset.sum_congr rfl (fun j _ => key j), telescope (fun j => Real.sin (θ * (j : ℝ)))]
    have : θ * (N : ℝ) = (q : ℝ) * Real.pi := by rw [hθ]; field_simp
    rw [this, Real.sin_nat_mul_pi]; simp
  have : (2 * Real.sin (θ / 2)) ≠ 0 := by positivity
  exact (mul_eq_zero.mp tot).resolve_left this

/-- integer frequencies: `Σ_{j<N} cos(q β_j) = N` if `q = 0`, `0` if `0 < |q| < 2N` -/
theorem sum_cos_betaR_int (N : ℕ) (q : ℤ) (h1 : q.natAbs < 2 * N) :
    ∑ j ∈ range N, Real.cos ((q : ℝ) * betaR N j) = if q = 0 then (N : ℝ) else 0 := by
  by_cases h : q = 0
  · subst h; simp
  · rw [if_neg h]
    have hq : 0 < q.natAbs := Int.natAbs_pos.mpr h
    have := sum_cos_betaR N q.natAbs hq h1
    rw [← this]
    refine Finset.sum_congr rfl fun j _ => ?_
    rcases Int.natAbs_eq q with e | e
    · rw [e]; simp
    · have : (q : ℝ) = -((q.natAbs : ℕ) : ℝ) := by
        have h3 : ((q : ℤ) : ℝ) = ((-(q.natAbs : ℤ) : ℤ) : ℝ) := congrArg _ e
        rw [h3, Int.cast_neg, Int.cast_natCast]
      rw [this, neg_mul, Real.cos_neg]

/-- `Σ_j sin β_j sin((2k+1)β_j) cos(pβ_j)` on the midpoint grid, `k < b`, `p < 2b`, `N = 2b` -/
theorem sum_sin_sin_cos (b k p : ℕ) (hk : k < b) (hp : p < 2 * b) :
    ∑ j ∈ range (2 * b), Real.sin (betaR (2 * b) j) * Real.sin ((2 * k + 1 : ℕ) * betaR (2 * b) j)
        * Real.cos (p * betaR (2 * b) j)
      = ((2 * b : ℕ) : ℝ) / 4 * ((if p = 2 * k then 1 else 0) + (if p = 0 ∧ k = 0 then 1 else 0)
          - (if p = 2 * k + 2 then 1 else 0)) := by
  have prod : ∀ x : ℝ, Real.sin x * Real.sin ((2 * k + 1 : ℕ) * x) * Real.cos (p * x)
      = (Real.cos (((2 * k : ℤ) - p : ℤ) * x) + Real.cos (((2 * k : ℤ) + p : ℤ) * x)
          - Real.cos (((2 * k + 2 : ℤ) - p : ℤ) * x) - Real.cos (((2 * k + 2 : ℤ) + p : ℤ) * x)) / 4 := by
    intro x
    have h1 : ∀ A X : ℝ, Real.sin X * Real.sin (A + X) = (Real.cos A - Real.cos (A + 2 * X)) / 2 := by
      intro A X
      have a1 := Real.cos_sub (A + X) X
      have a2 := Real.cos_add (A + X) X
      rw [show A + X - X = A by ring] at a1
      rw [show A + X + X = A + 2 * X by ring] at a2
      linarith
    have h2 : ∀ u v : ℝ, Real.cos u * Real.cos v = (Real.cos (u - v) + Real.cos (u + v)) / 2 := by
      intro u v; rw [Real.cos_sub, Real.cos_add]; ring
    have e5 : ((2 * k + 1 : ℕ) : ℝ) * x = 2 * k * x + x := by push_cast; ring
    have e1 : (((2 * k : ℤ) - p : ℤ) : ℝ) * x = 2 * k * x - p * x := by push_cast; ring
    have e2 : (((2 * k : ℤ) + p : ℤ) : ℝ) * x = 2 * k * x + p * x := by push_cast; ring
    have e3 : (((2 * k + 2 : ℤ) - p : ℤ) : ℝ) * x = (2 * k * x + 2 * x) - p * x := by push_cast; ring
    have e4 : (((2 * k + 2 : ℤ) + p : ℤ) : ℝ) * x = (2 * k * x + 2 * x) + p * x := by push_cast; ring
    rw [e1, e2, e3, e4, e5, h1, sub_div, sub_mul, div_mul_eq_mul_div, div_mul_eq_mul_div, h2, h2]
    ring
  simp_rw [prod]
  rw [← Finset.sum_div, Finset.sum_sub_distrib, Finset.sum_sub_distrib, Finset.sum_add_distrib,
    sum_cos_betaR_int _ _ (by omega), sum_cos_betaR_int _ _ (by omega), sum_cos_betaR_int _ _ (by omega),
    sum_cos_betaR_int _ _ (by omega)]
  have c1 : ((2 * k : ℤ) - p = 0) ↔ p = 2 * k := by omega
  have c2 : ((2 * k : ℤ) + p = 0) ↔ (p = 0 ∧ k = 0) := by omega
  have c3 : ((2 * k + 2 : ℤ) - p = 0) ↔ p = 2 * k + 2 := by omega
  have c4 : ¬ ((2 * k + 2 : ℤ) + p = 0) := by omega
  simp only [c1, c2, c3, c4, if_false]
  split_ifs <;> ring


theorem quadratureWeight_real (b j : ℕ) (hb : 0 < b) :
    (quadratureWeight b j : ℝ) * (((2 * b) ^ 2 : ℕ) : ℝ)
      = (1 / (b : ℝ)) * Real.sin (betaR (2 * b) j)
          * ∑ k ∈ range b, (1 / ((2 * k + 1 : ℕ) : ℝ)) * Real.sin ((2 * k + 1 : ℕ) * betaR (2 * b) j) := by
  have hb' : (b : ℝ) ≠ 0 := by positivity
  simp only [quadratureWeight, sumRange_real, two_real, one_real, Scalar.ofNat_real, Scalar.sin_real,
    Scalar.pi_real]
  have e1 : Real.pi * ((2 * j + 1 : ℕ) : ℝ) / ((4 * b : ℕ) : ℝ) = betaR (2 * b) j := by
    rw [betaR]; push_cast; field_simp; ring
  have e2 : ∀ k : ℕ, (((2 * j + 1) * (2 * k + 1) : ℕ) : ℝ) * Real.pi / ((4 * b : ℕ) : ℝ)
      = ((2 * k + 1 : ℕ) : ℝ) * betaR (2 * b) j := by
    intro k; rw [betaR]; push_cast; field_simp; ring
  simp_rw [e1, e2]
  generalize (∑ k ∈ range b, (1 / ((2 * k + 1 : ℕ) : ℝ)) * Real.sin (((2 * k + 1 : ℕ) : ℝ) * betaR (2 * b) j)) = S
  push_cast
  field_simp

private theorem sum_delta (b : ℕ) (f : ℕ → ℝ) (c : ℕ → Prop) [DecidablePred c] (s : ℕ) (hs : s < b)
    (hc : ∀ k, k < b → (c k ↔ k = s)) : ∑ k ∈ range b, f k * (if c k then 1 else 0) = f s := by
  rw [Finset.sum_eq_single s]
  · rw [if_pos ((hc s hs).mpr rfl), mul_one]
  · intro k hk hne
    rw [if_neg (fun h => hne ((hc k (Finset.mem_range.mp hk)).mp h)), mul_zero]
  · intro h; exact absurd (Finset.mem_range.mpr hs) h

private theorem sum_delta_none (b : ℕ) (f : ℕ → ℝ) (c : ℕ → Prop) [DecidablePred c]
    (hc : ∀ k, k < b → ¬ c k) : ∑ k ∈ range b, f k * (if c k then 1 else 0) = 0 := by
  refine Finset.sum_eq_zero fun k hk => ?_
  rw [if_neg (hc k (Finset.mem_range.mp hk)), mul_zero]

/-- **Exactness of `_quadrature_weights(b)` on `cos(pβ)`, `p < 2b`** (the discrete sine transform identity of
Kostelec–Rockmore), for every `b ≥ 1`: the value is `½ ∫_0^π cos(pβ) sin β dβ`. -/
theorem quadrature_exact_cos (b p : ℕ) (hb : 0 < b) (hp : p < 2 * b) :
    ∑ j ∈ range (2 * b), (quadratureWeight b j : ℝ) * (((2 * b) ^ 2 : ℕ) : ℝ) * Real.cos (p * betas (2 * b) j)
      = if p % 2 = 0 then 1 / (1 - (p : ℝ) ^ 2) else 0 := by
  have hb' : (b : ℝ) ≠ 0 := by positivity
  simp_rw [quadratureWeight_real b _ hb, betas_eq_betaR]
  -- pull the k-sum outside
  have swap : ∑ j ∈ range (2 * b), (1 / (b : ℝ)) * Real.sin (betaR (2 * b) j)
        * (∑ k ∈ range b, (1 / ((2 * k + 1 : ℕ) : ℝ)) * Real.sin ((2 * k + 1 : ℕ) * betaR (2 * b) j))
        * Real.cos (p * betaR (2 * b) j)
      = (1 / (b : ℝ)) * ∑ k ∈ range b, (1 / ((2 * k + 1 : ℕ) : ℝ))
          * ∑ j ∈ range (2 * b), Real.sin (betaR (2 * b) j) * Real.sin ((2 * k + 1 : ℕ) * betaR (2 * b) j)
              * Real.cos (p * betaR (2 * b) j) := by
    simp_rw [Finset.mul_sum, Finset.sum_mul]
    rw [Finset.sum_comm]
    refine Finset.sum_congr rfl fun k _ => Finset.sum_congr rfl fun j _ => ?_
    ring
  rw [swap]
  have inner : ∀ k ∈ range b, (1 / ((2 * k + 1 : ℕ) : ℝ))
        * ∑ j ∈ range (2 * b), Real.sin (betaR (2 * b) j) * Real.sin ((2 * k + 1 : ℕ) * betaR (2 * b) j)
            * Real.cos (p * betaR (2 * b) j)
      = ((2 * b : ℕ) : ℝ) / 4 * ((1 / ((2 * k + 1 : ℕ) : ℝ)) * (if p = 2 * k then 1 else 0)
          + (1 / ((2 * k + 1 : ℕ) : ℝ)) * (if p = 0 ∧ k = 0 then 1 else 0)
          - (1 / ((2 * k + 1 : ℕ) : ℝ)) * (if p = 2 * k + 2 then 1 else 0)) := by
    intro k hk
    rw [sum_sin_sin_cos b k p (Finset.mem_range.mp hk) hp]; ring
  rw [Finset.sum_congr rfl inner, ← Finset.mul_sum, Finset.sum_sub_distrib, Finset.sum_add_distrib]
  by_cases hodd : p % 2 = 0
  · rw [if_pos hodd]
    obtain ⟨s, rfl⟩ : ∃ s, p = 2 * s := ⟨p / 2, by omega⟩
    have hs : s < b := by omega
    rw [sum_delta b _ (fun k => 2 * s = 2 * k) s hs (fun k _ => by omega)]
    by_cases h0 : s = 0
    · subst h0
      rw [sum_delta b _ (fun k => 2 * 0 = 0 ∧ k = 0) 0 hb (fun k _ => by omega),
        sum_delta_none b _ (fun k => 2 * 0 = 2 * k + 2) (fun k _ => by omega)]
      push_cast; field_simp; ring
    · have hs1 : s - 1 < b := by omega
      rw [sum_delta_none b _ (fun k => 2 * s = 0 ∧ k = 0) (fun k _ => by omega),
        sum_delta b _ (fun k => 2 * s = 2 * k + 2) (s - 1) hs1 (fun k _ => by omega)]
      have hs' : (1 : ℝ) ≤ s := by
        have : 1 ≤ s := by omega
        exact_mod_cast this
      have c1 : ((2 * (s - 1) + 1 : ℕ) : ℝ) = 2 * s - 1 := by
        rw [show 2 * (s - 1) + 1 = 2 * s - 1 by omega, Nat.cast_sub (by omega)]; push_cast; ring
      rw [c1]
      have d1 : (2 * (s : ℝ) - 1) ≠ 0 := by nlinarith
      have d2 : (2 * (s : ℝ) + 1) ≠ 0 := by nlinarith
      have d3 : (1 - (2 * (s : ℝ)) ^ 2) ≠ 0 := by nlinarith
      push_cast
      rw [eq_div_iff d3]
      field_simp
      ring
  · rw [if_neg hodd,
      sum_delta_none b _ (fun k => p = 2 * k) (fun k _ => by omega),
      sum_delta_none b _ (fun k => p = 0 ∧ k = 0) (fun k _ => by omega),
      sum_delta_none b _ (fun k => p = 2 * k + 2) (fun k _ => by omega)]
    ring

end E3nnVerif.S2Grid
