import E3nnVerif.Model.BatchNorm
/-
Bookkeeping lemmas for the BatchNorm model (any scalar type, core Lean only):
how `cat` reads a concatenation of per-block chunks, and that the counters of `blocksFrom`
(`ix`, `irm`, `irv`, `iw`, `ib`) lay the blocks out consecutively.
-/
namespace E3nnVerif.BN
open Scalar

variable {K : Type} [Scalar K]

/-- the chunks of the blocks `bs` (sizes `sz`) are laid out consecutively from position `s`,
`pos b` being the position where the chunk of `b` starts -/
inductive Layout (sz pos : Block → Nat) : Nat → List Block → Prop
  | nil (s : Nat) : Layout sz pos s []
  | cons {s : Nat} {b : Block} {rest : List Block} :
      pos b = s → Layout sz pos (s + sz b) rest → Layout sz pos s (b :: rest)

/-- total size of the chunks -/
def total (sz : Block → Nat) : List Block → Nat
  | [] => 0
  | b :: rest => sz b + total sz rest

theorem Layout.le {sz pos : Block → Nat} {s : Nat} {bs : List Block} (h : Layout sz pos s bs)
    {blk : Block} (hb : blk ∈ bs) : s ≤ pos blk := by
  induction h with
  | nil => cases hb
  | cons hp _ ih =>
    rcases List.mem_cons.1 hb with rfl | hb
    · omega
    · have := ih hb; omega

theorem Layout.lt_total {sz pos : Block → Nat} {s : Nat} {bs : List Block} (h : Layout sz pos s bs)
    {blk : Block} (hb : blk ∈ bs) : pos blk + sz blk ≤ s + total sz bs := by
  induction h with
  | nil => cases hb
  | cons hp _ ih =>
    rcases List.mem_cons.1 hb with rfl | hb
    · simp only [total]; omega
    · have := ih hb; simp only [total]; omega

/-- every position of the concatenation lies in exactly the chunk of some block -/
theorem Layout.cover {sz pos : Block → Nat} {s : Nat} {bs : List Block} (h : Layout sz pos s bs)
    {j : Nat} (h1 : s ≤ j) (h2 : j < s + total sz bs) : ∃ blk ∈ bs, pos blk ≤ j ∧ j < pos blk + sz blk := by
  induction h with
  | nil => simp [total] at h2; omega
  | @cons s b rest hp _ ih =>
    by_cases hj : j < s + sz b
    · exact ⟨b, List.mem_cons_self, by omega, by omega⟩
    · simp only [total] at h2
      obtain ⟨blk, hm, h3, h4⟩ := ih (by omega) (by omega)
      exact ⟨blk, List.mem_cons_of_mem _ hm, h3, h4⟩

/-- reading a concatenation inside the chunk of `blk` -/
theorem cat_at {sz pos : Block → Nat} {f : Block → Nat → K} {s : Nat} {bs : List Block}
    (h : Layout sz pos s bs) {blk : Block} (hb : blk ∈ bs) {j : Nat} (hj : j < sz blk) :
    cat (bs.map fun b => (sz b, f b)) (pos blk - s + j) = f blk j := by
  induction h with
  | nil => cases hb
  | @cons s b rest hp hl ih =>
    rcases List.mem_cons.1 hb with rfl | hb'
    · have : pos blk - s + j = j := by omega
      simp [cat, this, hj]
    · have h1 := hl.le hb'
      have : ¬ (pos blk - s + j < sz b) := by omega
      simp only [List.map_cons, cat, this, if_false]
      have e : pos blk - s + j - sz b = pos blk - (s + sz b) + j := by omega
      rw [e]; exact ih hb'

theorem cat_at' {sz pos : Block → Nat} {f : Block → Nat → K} {bs : List Block}
    (h : Layout sz pos 0 bs) {blk : Block} (hb : blk ∈ bs) {j : Nat} (hj : j < sz blk) :
    cat (bs.map fun b => (sz b, f b)) (pos blk + j) = f blk j := by
  have := cat_at (f := f) h hb hj
  simpa using this

/-- beyond the end `cat` is `0` -/
theorem cat_beyond {sz : Block → Nat} {f : Block → Nat → K} {bs : List Block} {j : Nat}
    (hj : total sz bs ≤ j) : cat (bs.map fun b => (sz b, f b)) j = zero := by
  induction bs generalizing j with
  | nil => simp [cat]
  | cons b rest ih =>
    simp only [total] at hj
    have : ¬ j < sz b := by omega
    simp only [List.map_cons, cat, this, if_false]
    exact ih (by omega)

/-- two concatenations over the same blocks agree as soon as the chunks agree inside their ranges -/
theorem cat_map_congr {sz : Block → Nat} {f g : Block → Nat → K} {bs : List Block}
    (h : ∀ blk ∈ bs, ∀ j, j < sz blk → f blk j = g blk j) :
    cat (bs.map fun b => (sz b, f b)) = cat (bs.map fun b => (sz b, g b)) := by
  induction bs with
  | nil => rfl
  | cons b rest ih =>
    funext j
    simp only [List.map_cons, cat]
    split
    · next hj => exact h b List.mem_cons_self j hj
    · rw [ih (fun blk hb j hj => h blk (List.mem_cons_of_mem _ hb) j hj)]

/-- a concatenation of chunks `F (r[pos b + u]) (g b u)` is `F (r[s + j]) (cat g j)` pointwise -/
theorem cat_pointwise {sz pos : Block → Nat} {g : Block → Nat → K} (F : K → K → K) (r : Nat → K)
    {s : Nat} {bs : List Block} (h : Layout sz pos s bs) {j : Nat} (hj : j < total sz bs) :
    cat (bs.map fun b => (sz b, fun u => F (r (pos b + u)) (g b u))) j
      = F (r (s + j)) (cat (bs.map fun b => (sz b, g b)) j) := by
  induction h generalizing j with
  | nil => simp [total] at hj
  | @cons s b rest hp hl ih =>
    simp only [List.map_cons, cat]
    split
    · rw [hp]
    · next hlt =>
      simp only [total] at hj
      rw [ih (by omega)]
      congr 2; omega

/-- a concatenation of chunks `G b u (g b u)`-style pointwise images: if every chunk satisfies
`f b u = H (pos b + u) (g b u)` in range, the concatenations satisfy the same relation -/
theorem cat_pointwise' {sz pos : Block → Nat} {f g : Block → Nat → K} (H : Nat → K → K)
    {s : Nat} {bs : List Block} (h : Layout sz pos s bs)
    (hfg : ∀ blk ∈ bs, ∀ u, u < sz blk → f blk u = H (pos blk + u) (g blk u))
    {j : Nat} (hj : j < total sz bs) :
    cat (bs.map fun b => (sz b, f b)) j = H (s + j) (cat (bs.map fun b => (sz b, g b)) j) := by
  induction h generalizing j with
  | nil => simp [total] at hj
  | @cons s b rest hp hl ih =>
    simp only [List.map_cons, cat]
    split
    · next hlt => rw [hfg b List.mem_cons_self j hlt, hp]
    · next hlt =>
      simp only [total] at hj
      rw [ih (fun blk hb u hu => hfg blk (List.mem_cons_of_mem _ hb) u hu) (by omega)]
      congr 1; omega

/-! ### the counters of `blocksFrom` -/

theorem layout_ix (a ib : Bool) (irreps : Irreps) (k ix irm irv iw ibb : Nat) :
    Layout (fun b => b.mul * b.d) (·.ix) ix (blocksFrom a ib irreps k ix irm irv iw ibb) := by
  induction irreps generalizing k ix irm irv iw ibb with
  | nil => exact .nil _
  | cons p rest ih => exact .cons rfl (ih ..)

theorem layout_irv (a ib : Bool) (irreps : Irreps) (k ix irm irv iw ibb : Nat) :
    Layout (·.mul) (·.irv) irv (blocksFrom a ib irreps k ix irm irv iw ibb) := by
  induction irreps generalizing k ix irm irv iw ibb with
  | nil => exact .nil _
  | cons p rest ih => exact .cons rfl (ih ..)

theorem layout_irm (a ib : Bool) (irreps : Irreps) (k ix irm irv iw ibb : Nat) :
    Layout (·.mul) (·.irm) irm ((blocksFrom a ib irreps k ix irm irv iw ibb).filter (·.isScalar)) := by
  induction irreps generalizing k ix irm irv iw ibb with
  | nil => exact .nil _
  | cons p rest ih =>
    obtain ⟨mul, ir⟩ := p
    simp only [blocksFrom, List.filter_cons]
    cases hsc : ir.isScalar
    · simpa using ih ..
    · simp only [if_true]
      exact .cons rfl (by simpa using ih (k + 1) (ix + mul * ir.dim) (irm + mul) (irv + mul) _ _)

theorem total_ix (a ib : Bool) (irreps : Irreps) (k ix irm irv iw ibb : Nat) :
    total (fun b => b.mul * b.d) (blocksFrom a ib irreps k ix irm irv iw ibb) = irreps.dim := by
  induction irreps generalizing k ix irm irv iw ibb with
  | nil => rfl
  | cons p rest ih => simp only [blocksFrom, total, Irreps.dim, ih]

theorem total_irv (a ib : Bool) (irreps : Irreps) (k ix irm irv iw ibb : Nat) :
    total (·.mul) (blocksFrom a ib irreps k ix irm irv iw ibb) = irreps.numIrreps := by
  induction irreps generalizing k ix irm irv iw ibb with
  | nil => rfl
  | cons p rest ih => simp only [blocksFrom, total, Irreps.numIrreps, ih]

theorem total_irm (a ib : Bool) (irreps : Irreps) (k ix irm irv iw ibb : Nat) :
    total (·.mul) ((blocksFrom a ib irreps k ix irm irv iw ibb).filter (·.isScalar)) = irreps.numScalar := by
  induction irreps generalizing k ix irm irv iw ibb with
  | nil => rfl
  | cons p rest ih =>
    obtain ⟨mul, ir⟩ := p
    simp only [blocksFrom, List.filter_cons, Irreps.numScalar]
    cases hsc : ir.isScalar
    · simp [ih]
    · simp [total, ih]

/-- with `affine`, `iw` runs in step with `irv` -/
theorem iw_eq_irv (ib : Bool) (irreps : Irreps) (k ix irm irv iw ibb : Nat) :
    ∀ blk ∈ blocksFrom true ib irreps k ix irm irv iw ibb, blk.iw + irv = blk.irv + iw := by
  induction irreps generalizing k ix irm irv iw ibb with
  | nil => intro blk h; cases h
  | cons p rest ih =>
    intro blk h
    rcases List.mem_cons.1 h with rfl | h
    · simp; omega
    · have := ih _ _ _ _ _ _ blk h
      simp only [if_true] at this
      omega

/-- with `affine` and `include_bias`, `ib` runs in step with `irm` -/
theorem ib_eq_irm (irreps : Irreps) (k ix irm irv iw ibb : Nat) :
    ∀ blk ∈ blocksFrom true true irreps k ix irm irv iw ibb, blk.ib + irm = blk.irm + ibb := by
  induction irreps generalizing k ix irm irv iw ibb with
  | nil => intro blk h; cases h
  | cons p rest ih =>
    intro blk h
    rcases List.mem_cons.1 h with rfl | h
    · simp; omega
    · have := ih _ _ _ _ _ _ blk h
      obtain ⟨mul, ir⟩ := p
      cases hsc : ir.isScalar <;> simp [hsc] at this <;> omega

/-- `is_scalar` blocks are one-dimensional; every block has `d ≥ 1` -/
theorem scalar_d (a ib : Bool) (irreps : Irreps) (k ix irm irv iw ibb : Nat) :
    ∀ blk ∈ blocksFrom a ib irreps k ix irm irv iw ibb, 0 < blk.d ∧ (blk.isScalar = true → blk.d = 1) := by
  induction irreps generalizing k ix irm irv iw ibb with
  | nil => intro blk h; cases h
  | cons p rest ih =>
    intro blk h
    rcases List.mem_cons.1 h with rfl | h
    · refine ⟨by simp [Irrep.dim], ?_⟩
      intro hs
      simp only [Irrep.isScalar, Bool.and_eq_true, beq_iff_eq] at hs
      simp [Irrep.dim, hs.1]
    · exact ih _ _ _ _ _ _ blk h

/-- the accepted layouts have only non-empty blocks -/
theorem mul_pos_of_all (a ib : Bool) (irreps : Irreps) (k ix irm irv iw ibb : Nat)
    (h : irreps.all (fun p => p.1 != 0) = true) :
    ∀ blk ∈ blocksFrom a ib irreps k ix irm irv iw ibb, 0 < blk.mul := by
  induction irreps generalizing k ix irm irv iw ibb with
  | nil => intro blk h; cases h
  | cons p rest ih =>
    simp only [List.all_cons, Bool.and_eq_true, bne_iff_ne, ne_eq] at h
    intro blk hb
    rcases List.mem_cons.1 hb with rfl | hb
    · exact Nat.pos_of_ne_zero h.1
    · exact ih _ _ _ _ _ _ h.2 blk hb

/-! ### reading an assembled tensor block by block -/

theorem flat_lt {mul d u i : Nat} (hu : u < mul) (hi : i < d) : u * d + i < mul * d := by
  calc u * d + i < u * d + d := by omega
    _ = (u + 1) * d := by rw [Nat.add_mul, Nat.one_mul]
    _ ≤ mul * d := Nat.mul_le_mul_right d hu

/-- the `[b,s,u,i]` view of block `blk` of `torch.cat(fields)` is the field of that block -/
theorem field_assembleB {bs : List Block} (hl : Layout (fun b => b.mul * b.d) (·.ix) 0 bs) (g : Block → T4 K)
    {blk : Block} (hb : blk ∈ bs) (b s : Nat) {u i : Nat} (hu : u < blk.mul) (hi : i < blk.d) :
    field (assemble bs g) blk b s u i = g blk b s u i := by
  have hlt := flat_lt hu hi
  have := cat_at' (f := fun blk j => g blk b s (j / blk.d) (j % blk.d)) hl hb hlt
  simp only [field, assemble, Nat.add_assoc]
  rw [this]
  have hd : 0 < blk.d := by omega
  rw [Nat.add_comm (u * blk.d) i, Nat.add_mul_div_right _ _ hd, Nat.add_mul_mod_self_right,
    Nat.div_eq_of_lt hi, Nat.mod_eq_of_lt hi, Nat.zero_add]

theorem field_assemble (o : Opts K) (g : Block → T4 K) {blk : Block} (hb : blk ∈ blocks o)
    (b s : Nat) {u i : Nat} (hu : u < blk.mul) (hi : i < blk.d) :
    field (assemble (blocks o) g) blk b s u i = g blk b s u i :=
  field_assembleB (layout_ix o.affine o.includeBias o.irreps 0 0 0 0 0 0) g hb b s hu hi

/-- two assembled tensors are equal as soon as the block fields agree on the valid indices -/
theorem assemble_congr (bs : List Block) {g g' : Block → T4 K}
    (h : ∀ blk ∈ bs, ∀ b s u i, u < blk.mul → i < blk.d → g blk b s u i = g' blk b s u i) :
    assemble bs g = assemble bs g' := by
  funext b s
  simp only [assemble]
  refine cat_map_congr (sz := fun blk => blk.mul * blk.d) ?_
  intro blk hb j hj
  have hd : 0 < blk.d := by
    rcases Nat.eq_zero_or_pos blk.d with h0 | h0
    · simp [h0] at hj
    · exact h0
  refine h blk hb b s _ _ ?_ (Nat.mod_lt _ hd)
  exact (Nat.div_lt_iff_lt_mul hd).2 hj

/-- every feature position `j < irreps.dim` is component `i` of copy `u` of exactly one block -/
theorem cover_ixB (a ib : Bool) (irreps : Irreps) {j : Nat} (hj : j < irreps.dim) :
    ∃ blk ∈ blocksFrom a ib irreps 0 0 0 0 0 0, ∃ u i, u < blk.mul ∧ i < blk.d ∧ j = blk.ix + u * blk.d + i := by
  have hl := layout_ix a ib irreps 0 0 0 0 0 0
  have ht := total_ix a ib irreps 0 0 0 0 0 0
  obtain ⟨blk, hb, h1, h2⟩ := hl.cover (j := j) (Nat.zero_le _) (by rw [ht]; omega)
  have hd : 0 < blk.d := (scalar_d _ _ _ _ _ _ _ _ _ blk hb).1
  refine ⟨blk, hb, (j - blk.ix) / blk.d, (j - blk.ix) % blk.d, ?_, Nat.mod_lt _ hd, ?_⟩
  · have h2' : j < blk.ix + blk.mul * blk.d := h2
    exact (Nat.div_lt_iff_lt_mul hd).2 (by omega)
  · have h1' : blk.ix ≤ j := h1
    have := Nat.div_add_mod (j - blk.ix) blk.d
    rw [Nat.mul_comm] at this
    omega

omit [Scalar K] in
theorem cover_ix (o : Opts K) {j : Nat} (hj : j < o.irreps.dim) :
    ∃ blk ∈ blocks o, ∃ u i, u < blk.mul ∧ i < blk.d ∧ j = blk.ix + u * blk.d + i :=
  cover_ixB o.affine o.includeBias o.irreps hj

end E3nnVerif.BN
