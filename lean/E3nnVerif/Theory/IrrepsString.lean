/-
Helper lemmas for C06: the string layer of the Irreps model (decimal digits, `int()`, `strip`, `split`,
parser/printer round trip, tolerated spellings, structured constructor spellings).
-/
import E3nnVerif.Model.Irreps
import Mathlib.Data.List.Chain
import Mathlib.Data.List.Nodup
open E3nnVerif.Model.Irreps
namespace E3nnVerif.Theory.Irreps

theorem tok_digitChar : ∀ d, d < 10 → tok (digitChar d) = .digit d := by decide +kernel
theorem isSpace_digitChar : ∀ d, d < 10 → isSpace (digitChar d) = false := by decide +kernel
theorem revDigitsFuel_lt (f n : Nat) (h : n ≤ f) : ∀ d ∈ revDigitsFuel f n, d < 10 := by
  induction f generalizing n with
  | zero => simp [revDigitsFuel]; omega
  | succ f ih =>
    rw [revDigitsFuel]; split
    · simp; omega
    · intro d hd
      rcases List.mem_cons.mp hd with rfl | hd
      · omega
      · exact ih (n / 10) (by omega) d hd

theorem revDigits_lt (n : Nat) : ∀ d ∈ revDigits n, d < 10 := revDigitsFuel_lt n n (Nat.le_refl n)

theorem revDigits_ne_nil (n : Nat) : revDigits n ≠ [] := by
  unfold revDigits
  cases n with
  | zero => simp [revDigitsFuel]
  | succ n => rw [revDigitsFuel]; split <;> simp

/-- value of a most-significant-first digit list, as `digitsLoop` accumulates it -/
def ofDigits (acc : Nat) (ds : List Nat) : Nat := ds.foldl (fun a d => 10 * a + d) acc

theorem ofDigits_revDigitsFuel (f n : Nat) (h : n ≤ f) : ofDigits 0 (revDigitsFuel f n).reverse = n := by
  induction f generalizing n with
  | zero => simp [revDigitsFuel, ofDigits]
  | succ f ih =>
    rw [revDigitsFuel]; split
    · simp [ofDigits]
    · have := ih (n / 10) (by omega)
      simp [ofDigits, List.foldl_append] at *
      omega

theorem ofDigits_revDigits (n : Nat) : ofDigits 0 (revDigits n).reverse = n :=
  ofDigits_revDigitsFuel n n (Nat.le_refl n)

/-- a string "stops the digit scan": empty or starting with a char that is neither digit nor underscore -/
def StopsScan (rest : Str) : Prop :=
  rest = [] ∨ ∃ c r, rest = c :: r ∧ (∀ d, tok c ≠ .digit d) ∧ tok c ≠ .us

theorem digitsLoop_stop (acc : Nat) (rest : Str) (h : StopsScan rest) :
    digitsLoop acc false rest = some (acc, rest) := by
  rcases h with rfl | ⟨c, r, rfl, hd, hu⟩
  · simp [digitsLoop]
  · rw [digitsLoop]
    split
    · next d hd' => exact absurd hd' (hd d)
    · next hu' => exact absurd hu' hu
    · simp

theorem digitsLoop_digits (ds : List Nat) (hds : ∀ d ∈ ds, d < 10) (acc : Nat) (rest : Str)
    (hrest : StopsScan rest) :
    digitsLoop acc false (ds.map digitChar ++ rest) = some (ofDigits acc ds, rest) := by
  induction ds generalizing acc with
  | nil => simpa [ofDigits] using digitsLoop_stop acc rest hrest
  | cons d ds ih =>
    have hd : d < 10 := hds d (by simp)
    simp only [List.map_cons, List.cons_append]
    rw [digitsLoop, tok_digitChar d hd]
    simp only
    rw [ih (fun e he => hds e (by simp [he]))]
    simp [ofDigits]

theorem pyIntUnsigned_digits (ds : List Nat) (hne : ds ≠ []) (hds : ∀ d ∈ ds, d < 10) (rest : Str)
    (hrest : StopsScan rest) (hws : rest.all (fun c => (tok c).isWs) = true) :
    pyIntUnsigned (ds.map digitChar ++ rest) = some (ofDigits 0 ds) := by
  cases ds with
  | nil => exact absurd rfl hne
  | cons d ds =>
    have hd : d < 10 := hds d (by simp)
    simp only [List.map_cons, List.cons_append]
    rw [pyIntUnsigned, tok_digitChar d hd]
    simp only
    rw [digitsLoop_digits ds (fun e he => hds e (by simp [he])) d rest hrest]
    simp [hws, ofDigits]

theorem natStr_eq (n : Nat) : natStr n = (revDigits n).reverse.map digitChar := rfl

theorem pyInt_natStr (n : Nat) : pyInt (natStr n) = some (n : Int) := by
  have hne : (revDigits n).reverse ≠ [] := by simpa using revDigits_ne_nil n
  have hlt : ∀ d ∈ (revDigits n).reverse, d < 10 := by
    intro d hd; exact revDigits_lt n d (by simpa using hd)
  have h := pyIntUnsigned_digits _ hne hlt [] (Or.inl rfl) (by simp)
  rw [List.append_nil, ofDigits_revDigits] at h
  rw [natStr_eq]
  cases hr : (revDigits n).reverse with
  | nil => exact absurd hr hne
  | cons d ds =>
    have hd : d < 10 := hlt d (by simp [hr])
    rw [hr] at h
    simp only [List.map_cons] at h ⊢
    rw [pyInt]
    have : tok (digitChar d) = .digit d := tok_digitChar d hd
    simp [List.dropWhile, this, Tok.isWs, h]


/-! ### strip / splitOn -/

theorem dropWhile_eq_self_of_head {α} (p : α → Bool) (a : α) (l : List α) (h : p a = false) :
    (a :: l).dropWhile p = a :: l := by simp [List.dropWhile, h]

/-- `strip` leaves a string alone when neither its first nor its last character is whitespace -/
theorem strip_eq_self (s : Str) (hh : ∀ c, s.head? = some c → isSpace c = false)
    (hl : ∀ c, s.getLast? = some c → isSpace c = false) : strip s = s := by
  unfold strip
  cases s with
  | nil => simp
  | cons a l =>
    rw [dropWhile_eq_self_of_head _ _ _ (hh a rfl)]
    cases hr : (a :: l).reverse with
    | nil => simp at hr
    | cons b m =>
      have : (a :: l).getLast? = some b := by
        rw [List.getLast?_eq_head?_reverse, hr]; rfl
      rw [dropWhile_eq_self_of_head _ _ _ (hl b this), ← hr, List.reverse_reverse]

theorem splitOn_ne_nil (sep : Char) (s : Str) : splitOn sep s ≠ [] := by
  induction s with
  | nil => simp [splitOn]
  | cons c cs ih =>
    rw [splitOn]; split
    · simp
    · split <;> simp

theorem splitOn_of_not_mem (sep : Char) (s : Str) (h : sep ∉ s) : splitOn sep s = [s] := by
  induction s with
  | nil => simp [splitOn]
  | cons c cs ih =>
    have hc : c ≠ sep := fun e => h (by simp [e])
    have hcs : sep ∉ cs := fun e => h (by simp [e])
    rw [splitOn, if_neg hc, ih hcs]

theorem splitOn_append (sep : Char) (a b : Str) (h : sep ∉ a) :
    splitOn sep (a ++ sep :: b) = a :: splitOn sep b := by
  induction a with
  | nil => simp [splitOn]
  | cons c cs ih =>
    have hc : c ≠ sep := fun e => h (by simp [e])
    have hcs : sep ∉ cs := fun e => h (by simp [e])
    rw [List.cons_append, splitOn, if_neg hc, ih hcs]

/-- Python: `sep.join(pieces).split(sep) == pieces` when no piece contains `sep` and there is at least one piece -/
theorem splitOn_intercalate (sep : Char) (pieces : List Str) (hne : pieces ≠ [])
    (h : ∀ p ∈ pieces, sep ∉ p) : splitOn sep (List.intercalate [sep] pieces) = pieces := by
  induction pieces with
  | nil => exact absurd rfl hne
  | cons p ps ih =>
    cases ps with
    | nil => simpa [List.intercalate] using splitOn_of_not_mem sep p (h p (by simp))
    | cons q qs =>
      have : List.intercalate [sep] (p :: q :: qs) = p ++ sep :: List.intercalate [sep] (q :: qs) := by
        simp [List.intercalate, List.intersperse]
      rw [this, splitOn_append sep _ _ (h p (by simp)), ih (by simp) (fun r hr => h r (by simp [hr]))]


/-! ### printer facts -/

theorem natStr_ne_nil (n : Nat) : natStr n ≠ [] := by
  simp [natStr, revDigits_ne_nil]

theorem mem_natStr {n : Nat} {c : Char} (h : c ∈ natStr n) : ∃ d, d < 10 ∧ c = digitChar d := by
  simp only [natStr, List.mem_map, List.mem_reverse] at h
  obtain ⟨d, hd, rfl⟩ := h
  exact ⟨d, revDigits_lt n d hd, rfl⟩

theorem digitChar_facts : ∀ d, d < 10 →
    digitChar d ≠ 'x' ∧ digitChar d ≠ '+' ∧ digitChar d ≠ 'e' ∧ digitChar d ≠ 'o' := by decide +kernel

theorem natStr_head (n : Nat) : ∃ d r, d < 10 ∧ natStr n = digitChar d :: r := by
  cases h : natStr n with
  | nil => exact absurd h (natStr_ne_nil n)
  | cons c r =>
    obtain ⟨d, hd, rfl⟩ := mem_natStr (n := n) (c := c) (by simp [h])
    exact ⟨d, r, hd, rfl⟩

theorem letter_facts (p : Parity) :
    isSpace p.letter = false ∧ p.letter ≠ 'x' ∧ p.letter ≠ '+' ∧ (p.letter = 'e' ∨ p.letter = 'o') := by
  cases p <;> decide

theorem x_not_mem_natStr (n : Nat) : 'x' ∉ natStr n := by
  intro h; obtain ⟨d, hd, e⟩ := mem_natStr h; exact (digitChar_facts d hd).1 e.symm
theorem plus_not_mem_natStr (n : Nat) : '+' ∉ natStr n := by
  intro h; obtain ⟨d, hd, e⟩ := mem_natStr h; exact (digitChar_facts d hd).2.1 e.symm

theorem x_not_mem_printIrrep (ir : Irrep) : 'x' ∉ printIrrep ir := by
  simp only [printIrrep, List.mem_append, List.mem_singleton, not_or]
  exact ⟨x_not_mem_natStr _, fun e => (letter_facts ir.p).2.1 e.symm⟩
theorem plus_not_mem_printIrrep (ir : Irrep) : '+' ∉ printIrrep ir := by
  simp only [printIrrep, List.mem_append, List.mem_singleton, not_or]
  exact ⟨plus_not_mem_natStr _, fun e => (letter_facts ir.p).2.2.1 e.symm⟩
theorem plus_not_mem_printMulIr (e : MulIr) : '+' ∉ printMulIr e := by
  simp only [printMulIr, List.mem_append, List.mem_cons, not_or]
  exact ⟨plus_not_mem_natStr _, by decide, plus_not_mem_printIrrep _⟩

theorem strip_printIrrep (ir : Irrep) : strip (printIrrep ir) = printIrrep ir := by
  apply strip_eq_self
  · intro c hc
    obtain ⟨d, r, hd, e⟩ := natStr_head ir.l
    simp [printIrrep, e] at hc
    subst hc; exact isSpace_digitChar d hd
  · intro c hc
    simp [printIrrep] at hc
    subst hc; exact (letter_facts ir.p).1

/-- the parser reads back the printed form of an irrep -/
theorem parseIrrep_printIrrep (ir : Irrep) : parseIrrep (printIrrep ir) = .ok ir := by
  unfold parseIrrep
  simp only [strip_printIrrep]
  have h1 : (printIrrep ir).dropLast = natStr ir.l := by simp [printIrrep]
  have h2 : (printIrrep ir).getLast? = some ir.p.letter := by simp [printIrrep]
  rw [h1, h2, pyInt_natStr]
  obtain ⟨l, p⟩ := ir
  cases p <;> simp [Parity.letter]

/-- the `y` spelling: parity `(-1)^l` -/
theorem parseIrrep_y (l : Nat) : parseIrrep (natStr l ++ ['y']) = .ok ⟨l, Parity.negOnePow l⟩ := by
  unfold parseIrrep
  have hs : strip (natStr l ++ ['y']) = natStr l ++ ['y'] := by
    apply strip_eq_self
    · intro c hc
      obtain ⟨d, r, hd, e⟩ := natStr_head l
      simp [e] at hc
      subst hc; exact isSpace_digitChar d hd
    · intro c hc
      simp at hc
      subst hc; decide
  simp only [hs]
  have h1 : (natStr l ++ ['y']).dropLast = natStr l := by simp
  have h2 : (natStr l ++ ['y']).getLast? = some 'y' := by simp
  rw [h1, h2, pyInt_natStr]
  simp

theorem parseMulIr_printMulIr (e : MulIr) : parseMulIr (printMulIr e) = .ok e := by
  obtain ⟨m, ir⟩ := e
  unfold parseMulIr
  have hc : (printMulIr (m, ir)).contains 'x' = true := by simp [printMulIr]
  have hs : splitOn 'x' (printMulIr (m, ir)) = [natStr m, printIrrep ir] := by
    simp only [printMulIr]
    rw [splitOn_append 'x' _ _ (x_not_mem_natStr m), splitOn_of_not_mem 'x' _ (x_not_mem_printIrrep ir)]
  rw [if_pos hc, hs]
  simp [pyInt_natStr, parseIrrep_printIrrep]

/-- implicit multiplicity: a bare irrep is read with multiplicity 1 -/
theorem parseMulIr_printIrrep (ir : Irrep) : parseMulIr (printIrrep ir) = .ok (1, ir) := by
  unfold parseMulIr
  have hc : ¬ ((printIrrep ir).contains 'x' = true) := by
    simpa using x_not_mem_printIrrep ir
  rw [if_neg hc]
  simp [parseIrrep_printIrrep]

theorem mapM_parseMulIr (x : Irreps) : (x.map printMulIr).mapM parseMulIr = .ok x := by
  induction x with
  | nil => rfl
  | cons e x ih =>
    simp only [List.map_cons, List.mapM_cons, parseMulIr_printMulIr, ih]
    rfl

theorem printIrreps_cons_head (e : MulIr) (x : Irreps) :
    ∃ d r, d < 10 ∧ printIrreps (e :: x) = digitChar d :: r := by
  obtain ⟨d, r, hd, h⟩ := natStr_head e.1
  cases x with
  | nil => exact ⟨d, r ++ 'x' :: printIrrep e.2, hd, by simp [printIrreps, List.intercalate, printMulIr, h]⟩
  | cons f y =>
    exact ⟨d, _, hd, by
      simp only [printIrreps, List.map_cons, List.intercalate, List.intersperse, printMulIr, h]
      simp [List.flatten]
      rfl⟩


theorem all_of_dropWhile_eq_nil {α} (p : α → Bool) (l : List α) (h : l.dropWhile p = []) :
    ∀ x ∈ l, p x = true := by
  induction l with
  | nil => simp
  | cons a l ih =>
    rw [List.dropWhile_cons] at h
    split at h
    · next hp => intro x hx; rcases List.mem_cons.mp hx with rfl | hx; exact hp; exact ih h x hx
    · simp at h

theorem strip_ne_nil_of_head (a : Char) (l : Str) (h : isSpace a = false) : strip (a :: l) ≠ [] := by
  unfold strip
  rw [dropWhile_eq_self_of_head _ _ _ h]
  intro hn
  have := List.reverse_eq_nil_iff.mp hn
  have := all_of_dropWhile_eq_nil _ _ this a (by simp)
  simp [h] at this

/-- **Round trip**: the parser reads back the printed form of every `Irreps` (any length incl. empty,
any multiplicities incl. 0, any l, both parities). -/
theorem parseIrreps_printIrreps (x : Irreps) : parseIrreps (printIrreps x) = .ok x := by
  cases x with
  | nil => simp [parseIrreps, printIrreps, strip, List.intercalate]
  | cons e y =>
    unfold parseIrreps
    obtain ⟨d, r, hd, hr⟩ := printIrreps_cons_head e y
    have hne : strip (printIrreps (e :: y)) ≠ [] := by
      rw [hr]; exact strip_ne_nil_of_head _ _ (isSpace_digitChar d hd)
    rw [if_neg hne]
    unfold printIrreps
    rw [splitOn_intercalate '+' _ (by simp)]
    · exact mapM_parseMulIr (e :: y)
    · intro p hp
      simp only [List.mem_map] at hp
      obtain ⟨f, _, rfl⟩ := hp
      exact plus_not_mem_printMulIr f


/-! ### tolerated spellings: surrounding whitespace, implicit multiplicity, `y` -/

theorem dropWhile_append_of_all {α} (p : α → Bool) (w s : List α) (hw : ∀ c ∈ w, p c = true) :
    (w ++ s).dropWhile p = s.dropWhile p := by
  induction w with
  | nil => rfl
  | cons a w ih =>
    rw [List.cons_append, List.dropWhile_cons, if_pos (hw a (by simp))]
    exact ih (fun c hc => hw c (by simp [hc]))

/-- `strip` removes exactly the surrounding whitespace -/
theorem strip_pad (w1 w2 s : Str) (h1 : ∀ c ∈ w1, isSpace c = true) (h2 : ∀ c ∈ w2, isSpace c = true)
    (hh : ∀ c, s.head? = some c → isSpace c = false) (hl : ∀ c, s.getLast? = some c → isSpace c = false) :
    strip (w1 ++ s ++ w2) = s := by
  have hs := strip_eq_self s hh hl
  unfold strip at hs ⊢
  rw [List.append_assoc, dropWhile_append_of_all _ _ _ h1]
  cases s with
  | nil =>
    simp only [List.nil_append]
    have : w2.dropWhile isSpace = [] := by
      rw [← List.append_nil w2, dropWhile_append_of_all _ _ _ h2]; rfl
    simp [this]
  | cons a l =>
    rw [List.cons_append, dropWhile_eq_self_of_head _ _ _ (hh a rfl)]
    rw [dropWhile_eq_self_of_head _ _ _ (hh a rfl)] at hs
    rw [← List.cons_append, List.reverse_append,
      dropWhile_append_of_all _ _ _ (fun c hc => h2 c (by simpa using hc))]
    exact hs

def letterParity (c : Char) (l : Nat) : Option Parity :=
  if c = 'e' then some .even else if c = 'o' then some .odd else if c = 'y' then some (Parity.negOnePow l) else none

theorem letterParity_facts {c : Char} {l : Nat} {p : Parity} (h : letterParity c l = some p) :
    isSpace c = false ∧ c ≠ 'x' ∧ c ≠ '+' := by
  unfold letterParity at h
  split at h
  · next e => subst e; decide
  · split at h
    · next e => subst e; decide
    · split at h
      · next e => subst e; decide
      · simp at h

/-- `Irrep(s)` for `s` = optional whitespace, decimal `l`, one of `e o y`, optional whitespace -/
theorem parseIrrep_spelling (w1 w2 : Str) (l : Nat) (c : Char) (p : Parity)
    (h1 : ∀ ch ∈ w1, isSpace ch = true) (h2 : ∀ ch ∈ w2, isSpace ch = true)
    (hc : letterParity c l = some p) :
    parseIrrep (w1 ++ (natStr l ++ [c]) ++ w2) = .ok ⟨l, p⟩ := by
  unfold parseIrrep
  have hs : strip (w1 ++ (natStr l ++ [c]) ++ w2) = natStr l ++ [c] := by
    apply strip_pad _ _ _ h1 h2
    · intro ch hch
      obtain ⟨d, r, hd, e⟩ := natStr_head l
      simp [e] at hch
      subst hch; exact isSpace_digitChar d hd
    · intro ch hch
      simp at hch
      subst hch; exact (letterParity_facts hc).1
  simp only [hs]
  have e1 : (natStr l ++ [c]).dropLast = natStr l := by simp
  have e2 : (natStr l ++ [c]).getLast? = some c := by simp
  rw [e1, e2, pyInt_natStr]
  unfold letterParity at hc
  split at hc
  · next e => subst e; simp at hc; simp [hc]
  · next ne =>
    split at hc
    · next e => subst e; simp at hc; simp [hc]
    · next no =>
      split at hc
      · next e => subst e; simp at hc; simp [hc]
      · simp at hc

/-- `int(s)` for `s` = blanks, decimal digits of `n`, blanks (blanks as `int` understands them) -/
theorem pyInt_pad (w1 w2 : Str) (n : Nat) (h1 : ∀ ch ∈ w1, (tok ch).isWs = true)
    (h2 : ∀ ch ∈ w2, (tok ch).isWs = true) : pyInt (w1 ++ natStr n ++ w2) = some (n : Int) := by
  have hne : (revDigits n).reverse ≠ [] := by simpa using revDigits_ne_nil n
  have hlt : ∀ d ∈ (revDigits n).reverse, d < 10 := by
    intro d hd; exact revDigits_lt n d (by simpa using hd)
  have hstop : StopsScan w2 := by
    cases w2 with
    | nil => exact Or.inl rfl
    | cons a r =>
      refine Or.inr ⟨a, r, rfl, ?_, ?_⟩
      · intro d hd; have := h2 a (by simp); rw [hd] at this; simp [Tok.isWs] at this
      · intro hd; have := h2 a (by simp); rw [hd] at this; simp [Tok.isWs] at this
  have h := pyIntUnsigned_digits _ hne hlt w2 hstop (by simpa using h2)
  rw [ofDigits_revDigits] at h
  unfold pyInt
  rw [List.append_assoc, dropWhile_append_of_all _ _ _ h1, natStr_eq]
  cases hr : (revDigits n).reverse with
  | nil => exact absurd hr hne
  | cons d ds =>
    have hd : d < 10 := hlt d (by simp [hr])
    rw [hr] at h
    simp only [List.map_cons, List.cons_append] at h ⊢
    have ht : tok (digitChar d) = .digit d := tok_digitChar d hd
    simp [List.dropWhile, ht, Tok.isWs, h]

theorem isSpace_not_x_plus : ∀ ch : Char, isSpace ch = true → ch ≠ 'x' ∧ ch ≠ '+' := by
  intro ch h
  constructor <;> (intro e; subst e; revert h; decide)

theorem tokWs_not_x_plus : ∀ ch : Char, (tok ch).isWs = true → ch ≠ 'x' ∧ ch ≠ '+' := by
  intro ch h
  constructor <;> (intro e; subst e; revert h; decide)

/-- the accepted spellings of one `+`-separated piece that the theorem below covers -/
inductive SpellsStr : Str → MulIr → Prop
  | explicit (m l : Nat) (c : Char) (p : Parity) (w1 w2 w3 w4 : Str)
      (h12 : ∀ ch ∈ w1 ++ w2, (tok ch).isWs = true) (h34 : ∀ ch ∈ w3 ++ w4, isSpace ch = true)
      (hc : letterParity c l = some p) :
      SpellsStr ((w1 ++ natStr m ++ w2) ++ 'x' :: (w3 ++ (natStr l ++ [c]) ++ w4)) (m, ⟨l, p⟩)
  | implicit (l : Nat) (c : Char) (p : Parity) (w3 w4 : Str)
      (h34 : ∀ ch ∈ w3 ++ w4, isSpace ch = true) (hc : letterParity c l = some p) :
      SpellsStr (w3 ++ (natStr l ++ [c]) ++ w4) (1, ⟨l, p⟩)

theorem irrepSpelling_no_x_plus (w3 w4 : Str) (l : Nat) (c : Char) (p : Parity)
    (h34 : ∀ ch ∈ w3 ++ w4, isSpace ch = true) (hc : letterParity c l = some p) :
    'x' ∉ (w3 ++ (natStr l ++ [c]) ++ w4) ∧ '+' ∉ (w3 ++ (natStr l ++ [c]) ++ w4) := by
  have hl := letterParity_facts hc
  constructor
  · simp only [List.mem_append, List.mem_singleton, not_or]
    refine ⟨⟨fun h => (isSpace_not_x_plus _ (h34 _ (by simp [h]))).1 rfl, x_not_mem_natStr l, fun e => hl.2.1 e.symm⟩,
      fun h => (isSpace_not_x_plus _ (h34 _ (by simp [h]))).1 rfl⟩
  · simp only [List.mem_append, List.mem_singleton, not_or]
    refine ⟨⟨fun h => (isSpace_not_x_plus _ (h34 _ (by simp [h]))).2 rfl, plus_not_mem_natStr l, fun e => hl.2.2 e.symm⟩,
      fun h => (isSpace_not_x_plus _ (h34 _ (by simp [h]))).2 rfl⟩

theorem mulSpelling_no_x_plus (w1 w2 : Str) (m : Nat) (h12 : ∀ ch ∈ w1 ++ w2, (tok ch).isWs = true) :
    'x' ∉ (w1 ++ natStr m ++ w2) ∧ '+' ∉ (w1 ++ natStr m ++ w2) := by
  constructor
  · simp only [List.mem_append, not_or]
    exact ⟨⟨fun h => (tokWs_not_x_plus _ (h12 _ (by simp [h]))).1 rfl, x_not_mem_natStr m⟩,
      fun h => (tokWs_not_x_plus _ (h12 _ (by simp [h]))).1 rfl⟩
  · simp only [List.mem_append, not_or]
    exact ⟨⟨fun h => (tokWs_not_x_plus _ (h12 _ (by simp [h]))).2 rfl, plus_not_mem_natStr m⟩,
      fun h => (tokWs_not_x_plus _ (h12 _ (by simp [h]))).2 rfl⟩

theorem parseMulIr_spelling {s : Str} {e : MulIr} (h : SpellsStr s e) : parseMulIr s = .ok e := by
  cases h with
  | explicit m l c p w1 w2 w3 w4 h12 h34 hc =>
    unfold parseMulIr
    have hx : ((w1 ++ natStr m ++ w2) ++ 'x' :: (w3 ++ (natStr l ++ [c]) ++ w4)).contains 'x' = true := by simp
    rw [if_pos hx, splitOn_append 'x' _ _ (mulSpelling_no_x_plus w1 w2 m h12).1,
      splitOn_of_not_mem 'x' _ (irrepSpelling_no_x_plus w3 w4 l c p h34 hc).1]
    simp only
    rw [pyInt_pad w1 w2 m (fun ch h => h12 ch (by simp [h])) (fun ch h => h12 ch (by simp [h])),
      parseIrrep_spelling w3 w4 l c p (fun ch h => h34 ch (by simp [h])) (fun ch h => h34 ch (by simp [h])) hc]
    simp
  | implicit l c p w3 w4 h34 hc =>
    unfold parseMulIr
    have hx : ¬ ((w3 ++ (natStr l ++ [c]) ++ w4).contains 'x' = true) := by
      simpa using (irrepSpelling_no_x_plus w3 w4 l c p h34 hc).1
    rw [if_neg hx, parseIrrep_spelling w3 w4 l c p (fun ch h => h34 ch (by simp [h])) (fun ch h => h34 ch (by simp [h])) hc]

theorem spellsStr_no_plus {s : Str} {e : MulIr} (h : SpellsStr s e) : '+' ∉ s := by
  cases h with
  | explicit m l c p w1 w2 w3 w4 h12 h34 hc =>
    have a := (mulSpelling_no_x_plus w1 w2 m h12).2
    have b := (irrepSpelling_no_x_plus w3 w4 l c p h34 hc).2
    intro hmem
    rcases List.mem_append.mp hmem with h | h
    · exact a h
    · rcases List.mem_cons.mp h with h | h
      · exact absurd h (by decide)
      · exact b h
  | implicit l c p w3 w4 h34 hc => exact (irrepSpelling_no_x_plus w3 w4 l c p h34 hc).2

theorem spellsStr_has_nonspace {s : Str} {e : MulIr} (h : SpellsStr s e) : ∃ ch ∈ s, isSpace ch = false := by
  cases h with
  | explicit m l c p w1 w2 w3 w4 h12 h34 hc => exact ⟨'x', by simp, by decide⟩
  | implicit l c p w3 w4 h34 hc => exact ⟨c, by simp, (letterParity_facts hc).1⟩

theorem strip_ne_nil_of_mem (s : Str) (h : ∃ ch ∈ s, isSpace ch = false) : strip s ≠ [] := by
  obtain ⟨ch, hch, hsp⟩ := h
  unfold strip
  intro hn
  have h1 := List.reverse_eq_nil_iff.mp hn
  have h2 := all_of_dropWhile_eq_nil _ _ h1
  -- every char of the reversed, left-stripped string would be a space; `ch` survives the left strip
  have hmem : ch ∈ s.dropWhile isSpace := by
    clear hn h1 h2
    induction s with
    | nil => simp at hch
    | cons a r ih =>
      rw [List.dropWhile_cons]
      split
      · next ha =>
        rcases List.mem_cons.mp hch with rfl | hr
        · simp [hsp] at ha
        · exact ih hr
      · exact hch
  have := h2 ch (by simpa using hmem)
  simp [hsp] at this

theorem mapM_parseMulIr_spellings {pieces : List Str} {x : Irreps} (h : List.Forall₂ SpellsStr pieces x) :
    pieces.mapM parseMulIr = .ok x := by
  induction h with
  | nil => rfl
  | cons h _ ih =>
    simp only [List.mapM_cons, parseMulIr_spelling h, ih]
    rfl

theorem mem_intercalate_head {α} (sep p : List α) (ps : List (List α)) (c : α) (h : c ∈ p) :
    c ∈ List.intercalate sep (p :: ps) := by
  cases ps with
  | nil => simpa [List.intercalate] using h
  | cons q qs =>
    have : List.intercalate sep (p :: q :: qs) = p ++ (sep ++ List.intercalate sep (q :: qs)) := by
      simp [List.intercalate, List.intersperse]
    rw [this]; simp [h]

theorem forall₂_spells_left {pieces : List Str} {x : Irreps} (h : List.Forall₂ SpellsStr pieces x) :
    ∀ p ∈ pieces, ∃ e, SpellsStr p e := by
  induction h with
  | nil => simp
  | cons h0 _ ih =>
    intro p hp
    rcases List.mem_cons.mp hp with rfl | hp
    · exact ⟨_, h0⟩
    · exact ih p hp

/-- every `+`-joined sequence of tolerated spellings is read as the entries it spells -/
theorem parseIrreps_spellings {pieces : List Str} {x : Irreps} (hne : pieces ≠ [])
    (h : List.Forall₂ SpellsStr pieces x) : parseIrreps (List.intercalate ['+'] pieces) = .ok x := by
  unfold parseIrreps
  have hstrip : strip (List.intercalate ['+'] pieces) ≠ [] := by
    apply strip_ne_nil_of_mem
    cases h with
    | nil => exact absurd rfl hne
    | cons h0 _ =>
      obtain ⟨ch, hch, hsp⟩ := spellsStr_has_nonspace h0
      exact ⟨ch, mem_intercalate_head _ _ _ _ hch, hsp⟩
  rw [if_neg hstrip, splitOn_intercalate '+' _ hne]
  · exact mapM_parseMulIr_spellings h
  · intro p hp
    obtain ⟨e, he⟩ := forall₂_spells_left h p hp
    exact spellsStr_no_plus he

/-! ### every accepted spelling of an entry -/

/-- the spellings of one entry `(mul, ir)` inside the iterable handed to `Irreps(·)` -/
inductive Spells : Item → MulIr → Prop
  | mulir (m : Nat) (ir : Irrep) : Spells (.mulir m ir) (m, ir)
  | pairIr (m : Nat) (ir : Irrep) : Spells (.pair (.int m) (.ir ir)) (m, ir)
  | pairTuple (m : Nat) (ir : Irrep) :
      Spells (.pair (.int m) (.tup (.int ir.l) (.int ir.p.toInt))) (m, ir)
  | pairStr (m : Nat) (ir : Irrep) : Spells (.pair (.int m) (.str (printIrrep ir))) (m, ir)
  | bareIr (ir : Irrep) : Spells (.ir ir) (1, ir)
  | bareStr (ir : Irrep) : Spells (.str (printIrrep ir)) (1, ir)
  | boolMul (ir : Irrep) : Spells (.pair (.bool true) (.ir ir)) (1, ir)

theorem irrepOfLP_int (ir : Irrep) : irrepOfLP (.int ir.l) (.int ir.p.toInt) = .ok ir := by
  obtain ⟨l, p⟩ := ir
  cases p <;> simp [irrepOfLP, PyScalar.asInt?, Parity.toInt]

theorem ofItem_spells {it : Item} {e : MulIr} (h : Spells it e) : ofItem it = .ok e := by
  cases h with
  | mulir m ir => rfl
  | pairIr m ir => simp [ofItem, irrepOfArg, PyScalar.asInt?]
  | pairTuple m ir => simp [ofItem, irrepOfArg, irrepOfLP_int, PyScalar.asInt?]
  | pairStr m ir => simp [ofItem, irrepOfArg, parseIrrep_printIrrep, PyScalar.asInt?]
  | bareIr ir => rfl
  | bareStr ir => simp [ofItem, parseIrrep_printIrrep]
  | boolMul ir => simp [ofItem, irrepOfArg, PyScalar.asInt?]

theorem ofItems_spells {items : List Item} {x : Irreps} (h : List.Forall₂ Spells items x) :
    ofItems items = .ok x := by
  unfold ofItems
  induction h with
  | nil => rfl
  | cons h _ ih =>
    simp only [List.mapM_cons, ofItem_spells h, ih]
    rfl

end E3nnVerif.Theory.Irreps
