/-
Helper lemmas about E3nnVerif.Model.CodegenState (C14).  Core Lean only.
-/
import E3nnVerif.Model.CodegenState

namespace E3nnVerif.Model.CodegenState

namespace ODict
variable {α : Type}

theorem getKey?_append (d e : ODict α) (k : String) :
    getKey? (d ++ e) k = (getKey? d k).or (getKey? e k) := by
  induction d with
  | nil => simp [getKey?]
  | cons p d ih =>
    obtain ⟨k0, v0⟩ := p
    by_cases h : k0 = k <;> simp [getKey?, h, ih]

theorem setKey_of_absent (d : ODict α) (k : String) (v : α) (h : getKey? d k = none) :
    setKey d k v = d ++ [(k, v)] := by
  induction d with
  | nil => rfl
  | cons p d ih =>
    obtain ⟨k0, v0⟩ := p
    by_cases h0 : k0 = k
    · simp [getKey?, h0] at h
    · have : getKey? d k = none := by simpa [getKey?, h0] using h
      simp [setKey, h0, ih this]

theorem getKey?_filter_of_keep (d : ODict α) (q : String → Bool) (k : String) (h : q k = true) :
    getKey? (d.filter (fun p => q p.1)) k = getKey? d k := by
  induction d with
  | nil => rfl
  | cons p d ih =>
    obtain ⟨k0, v0⟩ := p
    by_cases h0 : k0 = k
    · subst h0; simp [List.filter, h, getKey?]
    · cases hq : q k0 <;> simp [List.filter, hq, getKey?, h0, ih]

theorem getKey?_filter_of_drop (d : ODict α) (q : String → Bool) (k : String) (h : q k = false) :
    getKey? (d.filter (fun p => q p.1)) k = none := by
  induction d with
  | nil => rfl
  | cons p d ih =>
    obtain ⟨k0, v0⟩ := p
    by_cases h0 : k0 = k
    · subst h0; simp [List.filter, h, ih]
    · cases hq : q k0 <;> simp [List.filter, hq, getKey?, h0, ih]

theorem getKey?_delKey_same (d : ODict α) (k : String) : getKey? (delKey d k) k = none :=
  getKey?_filter_of_drop d (fun x => x != k) k (by simp)

theorem getKey?_map_of_mem (names : List String) (g : String → α) (k : String) (h : k ∈ names) :
    getKey? (names.map (fun f => (f, g f))) k = some (g k) := by
  induction names with
  | nil => simp at h
  | cons f fs ih =>
    by_cases h0 : f = k
    · simp [getKey?, h0]
    · have : k ∈ fs := by
        rcases List.mem_cons.1 h with h | h
        · exact absurd h.symm h0
        · exact h
      simp [getKey?, h0, ih this]

theorem getKey?_map_of_not_mem (names : List String) (g : String → α) (k : String) (h : k ∉ names) :
    getKey? (names.map (fun f => (f, g f))) k = none := by
  induction names with
  | nil => rfl
  | cons f fs ih =>
    have h0 : ¬ f = k := fun e => h (by simp [e])
    have h1 : k ∉ fs := fun e => h (by simp [e])
    simp [getKey?, h0, ih h1]

end ODict

/-- the serialised form of the child called `f` (junk when it is not a generated one) -/
def blobOf (ms : Modules) (f : String) : Blob :=
  match ms.getKey? f with
  | some (.fx p) => .fx p
  | some (.ts p) => .ts p
  | _ => .fx 0

/-- `f` names a generated child (GraphModule or ScriptModule) -/
def IsCode (ms : Modules) (f : String) : Prop := ∃ s b, ms.getKey? f = some s ∧ s.dump? = some b

theorem load_blobOf (ms : Modules) (f : String) (h : IsCode ms f) : ms.getKey? f = some (blobOf ms f).load := by
  obtain ⟨s, b, hs, hb⟩ := h
  cases s with
  | fx p => simp [blobOf, hs, Blob.load]
  | ts p => simp [blobOf, hs, Blob.load]
  | plain i => simp [Sub.dump?] at hb

theorem dump_eq_blobOf (ms : Modules) (f : String) (s : Sub) (b : Blob) (hs : ms.getKey? f = some s)
    (hb : s.dump? = some b) : b = blobOf ms f := by
  cases s with
  | fx p => simp [Sub.dump?] at hb; simp [blobOf, hs, hb]
  | ts p => simp [Sub.dump?] at hb; simp [blobOf, hs, hb]
  | plain i => simp [Sub.dump?] at hb

/-- the loop of `__getstate__` succeeds on duplicate-free names of generated children that are still present
in `out`, strips exactly those names and serialises them in order -/
theorem getstateLoop_ok (orig : Modules) (names : List String) (out : Modules) (cs : List (String × Blob))
    (hnd : names.Nodup) (hcode : ∀ f ∈ names, IsCode orig f) (hout : ∀ f ∈ names, out.hasKey f = true) :
    getstateLoop orig names out cs =
      .ok (out.filter (fun p => !names.contains p.1), cs ++ names.map (fun f => (f, blobOf orig f))) := by
  induction names generalizing out cs with
  | nil =>
    simp only [getstateLoop, List.map_nil, List.append_nil]
    congr 2
    exact (List.filter_eq_self.2 (fun _ _ => by simp)).symm
  | cons f fs ih =>
    obtain ⟨s, b, hs, hb⟩ := hcode f (by simp)
    have hb' := dump_eq_blobOf orig f s b hs hb
    have hnd' := (List.nodup_cons.1 hnd)
    have hout' : ∀ g ∈ fs, (out.delKey f).hasKey g = true := by
      intro g hg
      have hgf : g ≠ f := fun e => hnd'.1 (e ▸ hg)
      have := hout g (by simp [hg])
      simp only [ODict.hasKey, ODict.delKey] at this ⊢
      rw [ODict.getKey?_filter_of_keep out (fun k => k != f) g (by simp [hgf])]
      exact this
    simp only [getstateLoop, hs, hb, hout f (by simp), if_true]
    rw [ih _ _ hnd'.2 (fun g hg => hcode g (by simp [hg])) hout']
    simp only [ODict.delKey, List.filter_filter, List.map_cons, List.append_assoc, List.singleton_append, hb']
    congr 2
    apply List.filter_congr
    intro p _
    by_cases h1 : p.1 = f <;> simp [h1, Bool.and_comm]

/-- re-attaching duplicate-free, absent names appends them in order -/
theorem foldl_setKey_append (names : List String) (g : String → Blob) (m : Modules)
    (hnd : names.Nodup) (habs : ∀ f ∈ names, m.getKey? f = none) :
    (names.map (fun f => (f, g f))).foldl (fun m fb => m.setKey fb.1 fb.2.load) m
      = m ++ names.map (fun f => (f, (g f).load)) := by
  induction names generalizing m with
  | nil => simp
  | cons f fs ih =>
    have hnd' := List.nodup_cons.1 hnd
    simp only [List.map_cons, List.foldl_cons]
    rw [ODict.setKey_of_absent m f _ (habs f (by simp))]
    rw [ih _ hnd'.2]
    · simp
    · intro g' hg'
      have hne : ¬ f = g' := fun e => hnd'.1 (e ▸ hg')
      rw [ODict.getKey?_append, habs g' (by simp [hg'])]
      simp [ODict.getKey?, hne]

/-- what `_codegen_register` establishes on a module whose generated children have distinct names:
`__codegen__` lists duplicate-free names of children that are GraphModules or ScriptModules -/
structure Registered (h : Heap) (o : Obj) (names : List String) (ms : Modules) : Prop where
  live : h[o.modules]? = some ms
  listed : o.codegen = some names
  nodup : names.Nodup
  code : ∀ f ∈ names, IsCode ms f

/-- the children that are not generated code, in their original order -/
def ordinary (ms : Modules) (names : List String) : Modules := ms.filter (fun p => !names.contains p.1)


theorem ordinary_absent (ms : Modules) (names : List String) (f : String) (hf : f ∈ names) :
    (ordinary ms names).getKey? f = none :=
  ODict.getKey?_filter_of_drop ms (fun k => !names.contains k) f (by simp [hf])

/-- the `_modules` dict of the restored module -/
def restored (ms : Modules) (names : List String) : Modules :=
  ordinary ms names ++ names.map (fun f => (f, (blobOf ms f).load))


/-! ### in-place conversion -/

theorem getKey?_retypeMods (f : Nat → Nat) (ms : Modules) (k : String) :
    (retypeMods f ms).getKey? k = (ms.getKey? k).map (Sub.retype f) := by
  induction ms with
  | nil => rfl
  | cons p ms ih =>
    obtain ⟨k0, v0⟩ := p
    simp only [retypeMods, List.map_cons] at ih ⊢
    by_cases h0 : k0 = k <;> simp [ODict.getKey?, h0, ih]

theorem isCode_retypeMods (f : Nat → Nat) (ms : Modules) (k : String) (h : IsCode ms k) :
    IsCode (retypeMods f ms) k := by
  obtain ⟨s, b, hs, hb⟩ := h
  cases s with
  | fx p => exact ⟨.fx (f p), .fx (f p), by simp [getKey?_retypeMods, hs, Sub.retype], rfl⟩
  | ts p => exact ⟨.ts (f p), .ts (f p), by simp [getKey?_retypeMods, hs, Sub.retype], rfl⟩
  | plain i => simp [Sub.dump?] at hb

theorem registered_retype (f : Nat → Nat) (h : Heap) (o : Obj) (names : List String) (ms : Modules)
    (hr : Registered h o names ms) : Registered (retype f h o) o names (retypeMods f ms) := by
  have hlt : o.modules < h.length := (List.getElem?_eq_some_iff.1 hr.live).1
  refine ⟨?_, hr.listed, hr.nodup, fun k hk => isCode_retypeMods f ms k (hr.code k hk)⟩
  have hget : h[o.modules] = ms := (List.getElem?_eq_some_iff.1 hr.live).2
  simp [retype, hlt, hget]

end E3nnVerif.Model.CodegenState
