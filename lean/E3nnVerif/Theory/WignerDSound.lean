import E3nnVerif.Props.C04
import E3nnVerif.Model.WignerD
import E3nnVerif.Theory.WignerD
import E3nnVerif.Theory.DirectSum
import E3nnVerif.Theory.Rotation
/-
Bridges for C03:
  * what the kernel checks `genYBlockCheck`, `genL1Check` mean over ℝ,
  * `exp(θ • so3Gen a)` for the three 3×3 generators is `matrix_x/y/z θ` of `_rotation.py`,
  * matrices ↔ the `Block`s `direct_sum` works with,
  * `matrix_to_angles(1) = (0,0,0)` exactly.
-/
namespace E3nnVerif.Theory
open E3nnVerif.Model.Wigner E3nnVerif.Model.WignerD E3nnVerif.Exact E3nnVerif.Props.C04 E3nnVerif.Rotation
open Matrix
open scoped BigOperators

/-! ### kernel checks over ℝ -/

theorem genR_y_eq {l : ℕ} (h : genYBlockCheck l = true) : genR l 1 = yGen l := by
  ext i j
  have := SqrtQ.eval_of_isZero (all2_spec h i i.2 j j.2)
  simp only [SqrtQ.eval_hsub] at this
  have e : (yGenEntry l i j).eval = yGen l i j := by
    unfold yGenEntry yGen
    by_cases hc : (i : ℕ) + j = 2 * l
    · simp [hc]
    · simp [hc]
  simp only [genR, Mat.toReal]
  linarith

theorem genR_one_eq (h : genL1Check = true) (a : Fin 3) : genR 1 a = Theory.so3Gen a := by
  ext i k
  simp only [genL1Check, List.all_eq_true, List.mem_range] at h
  have := SqrtQ.eval_of_isZero (all2_spec (h a a.2) i i.2 k k.2)
  simp only [SqrtQ.eval_hsub, SqrtQ.eval_ofInt] at this
  simp only [genR, Mat.toReal]
  have e : ((-(eps3 a i k) : ℤ) : ℝ) = Theory.so3Gen a i k := by
    fin_cases a <;> fin_cases i <;> fin_cases k <;> simp [eps3, Theory.so3Gen, lc]
  linarith

/-! ### the three elementary rotations are the one-parameter groups of the 3×3 generators -/

theorem expM_so3Gen_x (θ : ℝ) : expM (θ • Theory.so3Gen 0) = toMatrix (matrix_x θ) := by
  refine (eq_expM_of_hasDerivAt_entry (Theory.so3Gen 0) (fun s => toMatrix (matrix_x s)) ?_ ?_ θ).symm
  · rw [matrix_x_zero, toMatrix_one]
  · intro t i j
    have hc := Real.hasDerivAt_cos t
    have hs := Real.hasDerivAt_sin t
    have h0 := hasDerivAt_const t (0 : ℝ)
    have h1 := hasDerivAt_const t (1 : ℝ)
    fin_cases i <;> fin_cases j <;>
      simp [Matrix.mul_apply, Fin.sum_univ_three, Theory.so3Gen, lc, toMatrix, matrix_x] <;>
      first | exact h0 | exact h1 | exact hc | exact hs | exact hs.neg

theorem expM_so3Gen_y (θ : ℝ) : expM (θ • Theory.so3Gen 1) = toMatrix (matrix_y θ) := by
  refine (eq_expM_of_hasDerivAt_entry (Theory.so3Gen 1) (fun s => toMatrix (matrix_y s)) ?_ ?_ θ).symm
  · rw [matrix_y_zero, toMatrix_one]
  · intro t i j
    have hc := Real.hasDerivAt_cos t
    have hs := Real.hasDerivAt_sin t
    have h0 := hasDerivAt_const t (0 : ℝ)
    have h1 := hasDerivAt_const t (1 : ℝ)
    fin_cases i <;> fin_cases j <;>
      simp [Matrix.mul_apply, Fin.sum_univ_three, Theory.so3Gen, lc, toMatrix, matrix_y] <;>
      first | exact h0 | exact h1 | exact hc | exact hs | exact hs.neg

theorem expM_so3Gen_z (θ : ℝ) : expM (θ • Theory.so3Gen 2) = toMatrix (matrix_z θ) := by
  refine (eq_expM_of_hasDerivAt_entry (Theory.so3Gen 2) (fun s => toMatrix (matrix_z s)) ?_ ?_ θ).symm
  · rw [matrix_z_zero, toMatrix_one]
  · intro t i j
    have hc := Real.hasDerivAt_cos t
    have hs := Real.hasDerivAt_sin t
    have h0 := hasDerivAt_const t (0 : ℝ)
    have h1 := hasDerivAt_const t (1 : ℝ)
    fin_cases i <;> fin_cases j <;>
      simp [Matrix.mul_apply, Fin.sum_univ_three, Theory.so3Gen, lc, toMatrix, matrix_z] <;>
      first | exact h0 | exact h1 | exact hc | exact hs | exact hs.neg

/-! ### matrices as blocks -/

namespace DirectSum

/-- a square matrix as a `Block` (entries outside the index range are 0 and never read) -/
def ofMatrix {n : ℕ} (M : Matrix (Fin n) (Fin n) ℝ) : Block ℝ :=
  ⟨n, fun r c => if h : r < n ∧ c < n then M ⟨r, h.1⟩ ⟨c, h.2⟩ else 0⟩

theorem ofMatrix_n {n : ℕ} (M : Matrix (Fin n) (Fin n) ℝ) : (ofMatrix M).n = n := rfl

theorem ofMatrix_e {n : ℕ} (M : Matrix (Fin n) (Fin n) ℝ) (r c : ℕ) (hr : r < n) (hc : c < n) :
    (ofMatrix M).e r c = M ⟨r, hr⟩ ⟨c, hc⟩ := by
  simp [ofMatrix, hr, hc]

theorem ofMatrix_orthogonal {n : ℕ} (M : Matrix (Fin n) (Fin n) ℝ) (h : Mᵀ * M = 1) :
    Block.Orthogonal (ofMatrix M) := by
  intro r hr c hc
  have hr' : r < n := hr
  have hc' : c < n := hc
  have := congrFun (congrFun h ⟨r, hr'⟩) ⟨c, hc'⟩
  simp only [Matrix.mul_apply, Matrix.transpose_apply, Matrix.one_apply, Fin.mk.injEq] at this
  rw [← this, ofMatrix_n, ← Fin.sum_univ_eq_sum_range (fun k => (ofMatrix M).e k r * (ofMatrix M).e k c) n]
  apply Finset.sum_congr rfl
  intro k _
  rw [ofMatrix_e M k r k.2 hr', ofMatrix_e M k c k.2 hc']

theorem mulBlock_ofMatrix {n : ℕ} (A B : Matrix (Fin n) (Fin n) ℝ) (r c : ℕ) (hr : r < n) (hc : c < n) :
    (mulBlock (ofMatrix A) (ofMatrix B)).e r c = (ofMatrix (A * B)).e r c := by
  rw [mulBlock_e, ofMatrix_e _ r c hr hc, Matrix.mul_apply, ofMatrix_n,
    ← Fin.sum_univ_eq_sum_range (fun k => (ofMatrix A).e r k * (ofMatrix B).e k c) n]
  apply Finset.sum_congr rfl
  intro k _
  rw [ofMatrix_e A r k hr k.2, ofMatrix_e B k c k.2 hc]

/-! families of matrices indexed by a list -/
section family
variable {α : Type} {n : α → ℕ}

theorem dsDim_map_ofMatrix (A : ∀ a : α, Matrix (Fin (n a)) (Fin (n a)) ℝ) (l : List α) :
    dsDim (l.map fun a => ofMatrix (A a)) = (l.map n).sum := by
  induction l with
  | nil => rfl
  | cons a l ih => simp only [List.map_cons, dsDim, ih, ofMatrix_n, List.sum_cons]

/-- blockwise products -/
theorem ds_map_mul (A B C : ∀ a : α, Matrix (Fin (n a)) (Fin (n a)) ℝ) (l : List α)
    (h : ∀ a ∈ l, A a * B a = C a) (i j : ℕ) :
    ∑ k ∈ Finset.range (dsDim (l.map fun a => ofMatrix (A a))),
        ds (l.map fun a => ofMatrix (A a)) i k * ds (l.map fun a => ofMatrix (B a)) k j
      = ds (l.map fun a => ofMatrix (C a)) i j := by
  have hf : List.Forall₂ (fun x y : Block ℝ => x.n = y.n) (l.map fun a => ofMatrix (A a))
      (l.map fun a => ofMatrix (B a)) :=
    forall₂_map_self _ _ _ l (fun a _ => rfl)
  rw [dsEntry_mul hf]
  apply dsEntry_congr
  rw [List.zipWith_map_left, List.zipWith_map_right, List.zipWith_self]
  apply forall₂_map_self
  intro a ha
  refine ⟨rfl, ?_⟩
  intro r hr c hc
  rw [mulBlock_n, ofMatrix_n] at hr hc
  rw [mulBlock_ofMatrix (A a) (B a) r c hr hc, h a ha]

/-- every block the identity ⇒ the direct sum is the identity -/
theorem dsMat_map_one (A : ∀ a : α, Matrix (Fin (n a)) (Fin (n a)) ℝ) (l : List α)
    (h : ∀ a ∈ l, A a = 1) : dsMat (l.map fun a => ofMatrix (A a)) = 1 := by
  ext i j
  have hc : List.Forall₂ (fun x y : Block ℝ => x.n = y.n ∧ ∀ r < x.n, ∀ c < x.n, x.e r c = y.e r c)
      (l.map fun a => ofMatrix (A a)) ((l.map n).map oneBlock) := by
    rw [List.map_map]
    apply forall₂_map_self
    intro a ha
    refine ⟨rfl, ?_⟩
    intro r hr c hc
    rw [ofMatrix_n] at hr hc
    rw [ofMatrix_e _ r c hr hc, h a ha]
    simp [oneBlock, Matrix.one_apply]
  simp only [dsMat, Matrix.one_apply]
  rw [dsEntry_congr hc, dsEntry_one]
  · simp [Fin.ext_iff]
  · have := lt_of_lt_of_eq i.2 (dsDim_map_ofMatrix A l)
    have e : dsDim ((l.map n).map oneBlock) = (l.map n).sum := by
      generalize l.map n = ns
      induction ns with
      | nil => rfl
      | cons m ns ih => simp only [List.map_cons, dsDim, ih, List.sum_cons]; rfl
    rw [e]; exact this

/-- orthogonal family ⇒ orthogonal direct sum -/
theorem dsMat_map_orthogonal (A : ∀ a : α, Matrix (Fin (n a)) (Fin (n a)) ℝ) (l : List α)
    (h : ∀ a ∈ l, (A a)ᵀ * A a = 1) :
    (dsMat (l.map fun a => ofMatrix (A a)))ᵀ * dsMat (l.map fun a => ofMatrix (A a)) = 1 := by
  apply dsMat_orthogonal
  intro x hx
  obtain ⟨a, ha, rfl⟩ := List.mem_map.mp hx
  exact ofMatrix_orthogonal _ (h a ha)

end family

end DirectSum

end E3nnVerif.Theory

namespace E3nnVerif.Rotation
open E3nnVerif

/-- `matrix_to_angles(identity)` is exactly `(0, 0, 0)` -/
theorem matrix_to_angles_one : matrix_to_angles (Mat3.one : Mat3 ℝ) = some ⟨0, 0, 0⟩ := by
  have hd : detIsOne (Mat3.one : Mat3 ℝ) = true :=
    detIsOne_of_det (by simp [Mat3.det, Mat3.one, Scalar.one, Scalar.zero])
  have hv : (Mat3.one : Mat3 ℝ).mulVec ⟨Scalar.zero, Scalar.one, Scalar.zero⟩ = ⟨0, 1, 0⟩ := by
    simp [Mat3.mulVec, Mat3.one, Scalar.one, Scalar.zero]
  have hu : (⟨0, 1, 0⟩ : Vec3 ℝ).normSq = 1 := by simp [Vec3.normSq]
  have hx : xyz_to_angles (⟨0, 1, 0⟩ : Vec3 ℝ) = (0, 0) := by
    rw [xyz_to_angles_of_le _ (unit_norm_ge_eps _ hu), normalize_unit _ hu]
    have : (⟨0, 0⟩ : ℂ) = 0 := rfl
    simp [this]
  simp only [matrix_to_angles, hd, if_true, hv, hx]
  have : (⟨1, 0⟩ : ℂ) = 1 := rfl
  simp [angles_to_matrix, Scalar.zero, matrix_y_zero, matrix_x_zero, Mat3.transpose, Mat3.mul,
    Mat3.one, Scalar.one, atan2_real, this]

end E3nnVerif.Rotation
