import E3nnVerif.Theory.BatchNormReal
/-
Dropout over ℝ: the noise tensor read block by block, the possible factors, and commutation with
every block-wise linear map.
-/
namespace E3nnVerif.BN
open Finset

theorem dlayout (irreps : Irreps) : Layout (fun b => b.mul * b.d) (·.ix) 0 (dblocks irreps) :=
  layout_ix false false irreps 0 0 0 0 0 0

/-- the noise is the factor of copy `u`, repeated over the `d` components -/
theorem dropNoise_at (irreps : Irreps) (p : ℝ) (mask : Nat → Nat → Nat → Bool) {blk : Block}
    (hb : blk ∈ dblocks irreps) (b : Nat) {u i : Nat} (hu : u < blk.mul) (hi : i < blk.d) :
    dropNoise irreps p mask b (blk.ix + u * blk.d + i) = dropFactor p (mask b blk.k u) := by
  have hlt := flat_lt hu hi
  have := cat_at' (f := fun blk j => dropFactor p (mask b blk.k (j / blk.d))) (dlayout irreps) hb hlt
  simp only [dropNoise, Nat.add_assoc]
  rw [this]
  have hd : 0 < blk.d := by omega
  rw [Nat.add_comm (u * blk.d) i, Nat.add_mul_div_right _ _ hd, Nat.div_eq_of_lt hi, Nat.zero_add]

theorem dropFactor_ge_one {p : ℝ} (hp : 1 ≤ p) (keep : Bool) : dropFactor p keep = 0 := by
  simp [dropFactor, hp]

theorem dropFactor_le_zero {p : ℝ} (hp : p ≤ 0) (keep : Bool) : dropFactor p keep = 1 := by
  have h1 : ¬ (1 : ℝ) ≤ p := by linarith
  simp [dropFactor, h1, hp]

theorem dropFactor_mid {p : ℝ} (h0 : 0 < p) (h1 : p < 1) (keep : Bool) :
    dropFactor p keep = if keep then 1 / (1 - p) else 0 := by
  have e1 : ¬ (1 : ℝ) ≤ p := not_le.2 h1
  have e2 : ¬ p ≤ 0 := not_le.2 h0
  cases keep <;> simp [dropFactor, e1, e2]

/-- Dropout commutes with every block-wise linear map (no orthogonality needed), for every mask -/
theorem dropout_actB (irreps : Irreps) (p : ℝ) (training : Bool) (mask : Nat → Nat → Nat → Bool)
    (D : Nat → Nat → Nat → ℝ) (x : T3 ℝ) :
    dropout irreps p training mask (actB (dblocks irreps) D x)
      = actB (dblocks irreps) D (dropout irreps p training mask x) := by
  cases training
  · rfl
  · funext b s j
    simp only [dropout, Bool.not_true, Bool.false_eq_true, if_false]
    by_cases hj : j < irreps.dim
    · obtain ⟨blk, hb, u, i, hu, hi, rfl⟩ := cover_ixB false false irreps hj
      have hb' : blk ∈ dblocks irreps := hb
      have e1 := field_assembleB (dlayout irreps) (fun blk => actField blk D (field x blk)) hb' b s hu hi
      have e2 := field_assembleB (dlayout irreps)
        (fun blk => actField blk D (field (fun b s j => x b s j * dropNoise irreps p mask b j) blk)) hb' b s hu hi
      simp only [field] at e1 e2
      simp only [actB]
      rw [e1, e2, dropNoise_at irreps p mask hb' b hu hi]
      simp only [actField, sumN_real, field, sum_mul]
      refine sum_congr rfl fun a ha => ?_
      rw [dropNoise_at irreps p mask hb' b hu (mem_range.1 ha)]
      ring
    · have ht := total_ix false false irreps 0 0 0 0 0 0
      have z1 : actB (dblocks irreps) D x b s j = 0 := by
        simp only [actB, assemble]
        rw [cat_beyond (sz := fun blk => blk.mul * blk.d) (by rw [dblocks, ht]; omega), zero_real]
      have z2 : actB (dblocks irreps) D (fun b s j => x b s j * dropNoise irreps p mask b j) b s j = 0 := by
        simp only [actB, assemble]
        rw [cat_beyond (sz := fun blk => blk.mul * blk.d) (by rw [dblocks, ht]; omega), zero_real]
      rw [z1, z2, zero_mul]

end E3nnVerif.BN
