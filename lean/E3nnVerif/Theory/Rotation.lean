import Mathlib.LinearAlgebra.UnitaryGroup
import Mathlib.LinearAlgebra.Matrix.Determinant.Basic
import Mathlib.Algebra.Quaternion
import Mathlib.LinearAlgebra.CrossProduct
import Mathlib.LinearAlgebra.Matrix.Notation
import E3nnVerif.Theory.ScalarReal
import E3nnVerif.Model.Rotation

/-
Helper theory for C12 (rotation parametrisations): the ℝ instance of the model `Model/Rotation.lean`,
bridges to Mathlib (`Matrix.specialOrthogonalGroup (Fin 3) ℝ`, `Quaternion ℝ`), and the lemmas used by
`Props/C12.lean`.
-/
namespace E3nnVerif.Rotation
open E3nnVerif

@[simp] theorem zero_real : (Scalar.zero : ℝ) = 0 := by simp [Scalar.zero]
@[simp] theorem one_real : (Scalar.one : ℝ) = 1 := by simp [Scalar.one]
@[simp] theorem two_real : (Scalar.two : ℝ) = 2 := by simp [Scalar.two]
@[simp] theorem lt_real_false (a b : ℝ) : Scalar.lt a b = false ↔ b ≤ a := by
  rw [← Bool.not_eq_true, Scalar.lt_real, not_lt]
theorem lt_real_ite {α : Type} (a b : ℝ) (x y : α) :
    (if Scalar.lt a b = true then x else y) = if a < b then x else y := by
  by_cases h : a < b
  · simp [h]
  · simp [h]
@[simp] theorem max_real (a b : ℝ) : Scalar.max a b = max a b := by
  unfold Scalar.max
  rw [lt_real_ite]
  by_cases h : a < b
  · simp [h, le_of_lt h]
  · simp [h, not_lt.mp h]
@[simp] theorem min_real (a b : ℝ) : Scalar.min a b = min a b := by
  unfold Scalar.min
  rw [lt_real_ite]
  by_cases h : a < b
  · simp [h, le_of_lt h]
  · simp [h, not_lt.mp h]
@[simp] theorem abs_real (a : ℝ) : Scalar.abs a = |a| := by
  unfold Scalar.abs
  rw [lt_real_ite]
  by_cases h : a < 0
  · simp [h, abs_of_neg h]
  · simp [h, abs_of_nonneg (not_lt.mp h)]
@[simp] theorem le_real (a b : ℝ) : Scalar.le a b = true ↔ a ≤ b := by
  unfold Scalar.le
  simp
theorem atan2_real (y x : ℝ) : Scalar.atan2 y x = Complex.arg ⟨x, y⟩ := rfl
@[simp] theorem eps_real : (eps : ℝ) = 1 / 1000000000000 := by
  simp [eps, Scalar.ofFrac, Scalar.ofInt]

def toMatrix (A : Mat3 ℝ) : Matrix (Fin 3) (Fin 3) ℝ :=
  !![A.m00, A.m01, A.m02; A.m10, A.m11, A.m12; A.m20, A.m21, A.m22]

theorem toMatrix_mul (A B : Mat3 ℝ) : toMatrix (A.mul B) = toMatrix A * toMatrix B := by
  ext i j
  fin_cases i <;> fin_cases j <;> simp [toMatrix, Mat3.mul, Matrix.mul_apply, Fin.sum_univ_three]

theorem toMatrix_transpose (A : Mat3 ℝ) : toMatrix A.transpose = (toMatrix A).transpose := by
  ext i j
  fin_cases i <;> fin_cases j <;> simp [toMatrix, Mat3.transpose]

theorem toMatrix_one : toMatrix Mat3.one = 1 := by
  ext i j
  fin_cases i <;> fin_cases j <;> simp [toMatrix, Mat3.one]

theorem toMatrix_det (A : Mat3 ℝ) : (toMatrix A).det = A.det := by
  simp [toMatrix, Matrix.det_fin_three, Mat3.det]; ring


theorem toMatrix_injective {A B : Mat3 ℝ} (h : toMatrix A = toMatrix B) : A = B := by
  cases A; cases B
  have e := fun i j => congrFun (congrFun h i) j
  have e00 := e 0 0; have e01 := e 0 1; have e02 := e 0 2
  have e10 := e 1 0; have e11 := e 1 1; have e12 := e 1 2
  have e20 := e 2 0; have e21 := e 2 1; have e22 := e 2 2
  simp [toMatrix] at e00 e01 e02 e10 e11 e12 e20 e21 e22
  simp [*]

abbrev SO3 := Matrix.specialOrthogonalGroup (Fin 3) ℝ

/-- scalar form of "rotation matrix" -/
def IsRot (A : Mat3 ℝ) : Prop := A.mul A.transpose = Mat3.one ∧ A.det = 1

theorem isRot_iff (A : Mat3 ℝ) : IsRot A ↔ toMatrix A ∈ SO3 := by
  rw [Matrix.mem_specialOrthogonalGroup_iff, Matrix.mem_orthogonalGroup_iff, ← toMatrix_transpose,
    ← toMatrix_mul, ← toMatrix_one, toMatrix_det]
  exact ⟨fun h => ⟨by rw [h.1], h.2⟩, fun h => ⟨toMatrix_injective h.1, h.2⟩⟩

theorem IsRot.mul {A B : Mat3 ℝ} (hA : IsRot A) (hB : IsRot B) : IsRot (A.mul B) := by
  rw [isRot_iff] at *; rw [toMatrix_mul]; exact mul_mem hA hB

theorem IsRot.transpose {A : Mat3 ℝ} (hA : IsRot A) : IsRot A.transpose := by
  rw [isRot_iff] at *; rw [toMatrix_transpose]
  rw [Matrix.mem_specialOrthogonalGroup_iff, Matrix.mem_orthogonalGroup_iff] at *
  refine ⟨?_, by rw [Matrix.det_transpose]; exact hA.2⟩
  rw [Matrix.transpose_transpose]
  exact (Matrix.mem_orthogonalGroup_iff' (Fin 3) ℝ).mp ((Matrix.mem_orthogonalGroup_iff (Fin 3) ℝ).mpr hA.1)

theorem IsRot.transpose_mul {A : Mat3 ℝ} (hA : IsRot A) : A.transpose.mul A = Mat3.one := by
  have h := hA.transpose.1
  simpa [Mat3.transpose] using h

theorem isRot_one : IsRot Mat3.one := by
  constructor <;> simp [Mat3.mul, Mat3.transpose, Mat3.one, Mat3.det]

theorem Mat3.mul_assoc' (A B C : Mat3 ℝ) : (A.mul B).mul C = A.mul (B.mul C) := by
  apply toMatrix_injective; simp [toMatrix_mul, _root_.mul_assoc]
theorem Mat3.one_mul' (A : Mat3 ℝ) : Mat3.one.mul A = A := by
  apply toMatrix_injective; simp [toMatrix_mul, toMatrix_one]
theorem Mat3.mul_one' (A : Mat3 ℝ) : A.mul Mat3.one = A := by
  apply toMatrix_injective; simp [toMatrix_mul, toMatrix_one]

theorem matrix_x_isRot (t : ℝ) : IsRot (matrix_x t) := by
  have h := Real.sin_sq_add_cos_sq t
  constructor
  · simp [matrix_x, Mat3.mul, Mat3.transpose, Mat3.one]; grind
  · simp [matrix_x, Mat3.det]; grind
theorem matrix_y_isRot (t : ℝ) : IsRot (matrix_y t) := by
  have h := Real.sin_sq_add_cos_sq t
  constructor
  · simp [matrix_y, Mat3.mul, Mat3.transpose, Mat3.one]; grind
  · simp [matrix_y, Mat3.det]; grind
theorem matrix_z_isRot (t : ℝ) : IsRot (matrix_z t) := by
  have h := Real.sin_sq_add_cos_sq t
  constructor
  · simp [matrix_z, Mat3.mul, Mat3.transpose, Mat3.one]; grind
  · simp [matrix_z, Mat3.det]; grind

theorem angles_to_matrix_isRot (a b c : ℝ) : IsRot (angles_to_matrix a b c) :=
  ((matrix_y_isRot a).mul (matrix_x_isRot b)).mul (matrix_y_isRot c)

theorem matrix_y_zero : matrix_y (0 : ℝ) = Mat3.one := by simp [matrix_y, Mat3.one]
theorem matrix_x_zero : matrix_x (0 : ℝ) = Mat3.one := by simp [matrix_x, Mat3.one]
theorem matrix_z_zero : matrix_z (0 : ℝ) = Mat3.one := by simp [matrix_z, Mat3.one]

theorem matrix_x_neg (t : ℝ) : matrix_x (-t) = (matrix_x t).transpose := by
  simp [matrix_x, Mat3.transpose]
theorem matrix_y_neg (t : ℝ) : matrix_y (-t) = (matrix_y t).transpose := by
  simp [matrix_y, Mat3.transpose]
theorem matrix_z_neg (t : ℝ) : matrix_z (-t) = (matrix_z t).transpose := by
  simp [matrix_z, Mat3.transpose]
theorem Mat3.transpose_mul' (A B : Mat3 ℝ) : (A.mul B).transpose = B.transpose.mul A.transpose := by
  apply toMatrix_injective; simp [toMatrix_mul, toMatrix_transpose, Matrix.transpose_mul]

theorem inverse_angles_transpose (a b c : ℝ) :
    angles_to_matrix (inverse_angles a b c).alpha (inverse_angles a b c).beta (inverse_angles a b c).gamma
      = (angles_to_matrix a b c).transpose := by
  simp only [inverse_angles, angles_to_matrix, matrix_x_neg, matrix_y_neg, Mat3.transpose_mul', Mat3.mul_assoc']

/-! quaternions -/
def toQuat (q : Quat ℝ) : Quaternion ℝ := (Quaternion.equivTuple ℝ).symm ![q.w, q.x, q.y, q.z]
@[simp] theorem toQuat_re (q : Quat ℝ) : (toQuat q).re = q.w := rfl
@[simp] theorem toQuat_imI (q : Quat ℝ) : (toQuat q).imI = q.x := rfl
@[simp] theorem toQuat_imJ (q : Quat ℝ) : (toQuat q).imJ = q.y := rfl
@[simp] theorem toQuat_imK (q : Quat ℝ) : (toQuat q).imK = q.z := rfl

open Quaternion in
theorem toQuat_compose (p q : Quat ℝ) : toQuat (compose_quaternion p q) = toQuat p * toQuat q := by
  apply Quaternion.ext <;>
    (simp [compose_quaternion, Quaternion.re_mul, Quaternion.imI_mul, Quaternion.imJ_mul, Quaternion.imK_mul]; try ring)
open Quaternion in
theorem toQuat_inverse (q : Quat ℝ) : toQuat (inverse_quaternion q) = star (toQuat q) := by
  apply Quaternion.ext <;> simp [inverse_quaternion]
open Quaternion in
theorem toQuat_identity : toQuat identity_quaternion = 1 := by
  apply Quaternion.ext <;> simp [identity_quaternion]
theorem toQuat_normSq (q : Quat ℝ) : Quaternion.normSq (toQuat q) = q.normSq := by
  rw [Quaternion.normSq_def']; simp [Quat.normSq]; ring
theorem compose_normSq (p q : Quat ℝ) : (compose_quaternion p q).normSq = p.normSq * q.normSq := by
  simp [compose_quaternion, Quat.normSq]; ring
theorem toQuat_inverse_unit (q : Quat ℝ) (h : q.normSq = 1) : toQuat (inverse_quaternion q) = (toQuat q)⁻¹ := by
  rw [toQuat_inverse, Quaternion.inv_def, toQuat_normSq, h]; simp

/-! ### normalize, clamp, sphere coordinates -/

theorem eps_pos : (0 : ℝ) < eps := by rw [eps_real]; norm_num

theorem clamp1_of_abs_le {a : ℝ} (h : |a| ≤ 1) : clamp1 a = a := by
  have := abs_le.mp h
  simp [clamp1, this.1, this.2]

theorem Vec3.norm_real (v : Vec3 ℝ) : v.norm = Real.sqrt v.normSq := rfl
theorem Vec3.normSq_nonneg (v : Vec3 ℝ) : 0 ≤ v.normSq := by
  unfold Vec3.normSq; nlinarith [mul_self_nonneg v.x, mul_self_nonneg v.y, mul_self_nonneg v.z]
theorem Vec3.norm_sq (v : Vec3 ℝ) : v.norm * v.norm = v.normSq := by
  rw [Vec3.norm_real]; exact Real.mul_self_sqrt v.normSq_nonneg

theorem Vec3.ext' {u v : Vec3 ℝ} (hx : u.x = v.x) (hy : u.y = v.y) (hz : u.z = v.z) : u = v := by
  cases u; cases v; simp_all

/-- `normalize` divides by the norm as soon as the norm is at least `eps` -/
theorem normalize_of_le (v : Vec3 ℝ) (h : eps ≤ v.norm) :
    normalize v = ⟨v.x / v.norm, v.y / v.norm, v.z / v.norm⟩ := by
  simp only [normalize, max_real, max_eq_left h]

theorem normalize_normSq (v : Vec3 ℝ) (h : eps ≤ v.norm) : (normalize v).normSq = 1 := by
  have hpos : 0 < v.norm := lt_of_lt_of_le eps_pos h
  rw [normalize_of_le v h]
  have h2 := v.norm_sq
  simp only [Vec3.normSq] at *
  field_simp
  linarith

theorem norm_of_normSq_one (v : Vec3 ℝ) (h : v.normSq = 1) : v.norm = 1 := by
  rw [Vec3.norm_real, h, Real.sqrt_one]

theorem eps_le_one : (eps : ℝ) ≤ 1 := by rw [eps_real]; norm_num

theorem normalize_unit (v : Vec3 ℝ) (h : v.normSq = 1) : normalize v = v := by
  have h1 := norm_of_normSq_one v h
  rw [normalize_of_le v (by rw [h1]; exact eps_le_one), h1]
  cases v; simp

theorem normalize_zero : normalize (⟨0, 0, 0⟩ : Vec3 ℝ) = ⟨0, 0, 0⟩ := by
  simp [normalize]

theorem abs_le_one_of_unit (v : Vec3 ℝ) (h : v.normSq = 1) : |v.x| ≤ 1 ∧ |v.y| ≤ 1 ∧ |v.z| ≤ 1 := by
  unfold Vec3.normSq at h
  refine ⟨?_, ?_, ?_⟩ <;> apply abs_le_one_iff_mul_self_le_one.mpr <;>
    nlinarith [mul_self_nonneg v.x, mul_self_nonneg v.y, mul_self_nonneg v.z]

theorem clamp1_unit (v : Vec3 ℝ) (h : v.normSq = 1) : v.clamp1 = v := by
  obtain ⟨hx, hy, hz⟩ := abs_le_one_of_unit v h
  cases v
  simp only [Vec3.clamp1]
  rw [clamp1_of_abs_le hx, clamp1_of_abs_le hy, clamp1_of_abs_le hz]

/-- the heart of `xyz_to_angles`: for a unit vector `u`, `β = arccos u.y`, `α = arg (u.z + i u.x)` are
spherical coordinates of `u` -/
theorem sphere_coords (u : Vec3 ℝ) (h : u.normSq = 1) :
    Real.sin (Real.arccos u.y) * Real.sin (Complex.arg ⟨u.z, u.x⟩) = u.x ∧
    Real.cos (Real.arccos u.y) = u.y ∧
    Real.sin (Real.arccos u.y) * Real.cos (Complex.arg ⟨u.z, u.x⟩) = u.z := by
  obtain ⟨hx, hy, hz⟩ := abs_le_one_of_unit u h
  have hy' := abs_le.mp hy
  have hn : ‖(⟨u.z, u.x⟩ : ℂ)‖ = Real.sin (Real.arccos u.y) := by
    rw [Real.sin_arccos, Complex.norm_def, Complex.normSq_mk]
    congr 1
    unfold Vec3.normSq at h; nlinarith
  refine ⟨?_, Real.cos_arccos hy'.1 hy'.2, ?_⟩
  · rw [← hn]; exact Complex.norm_mul_sin_arg _
  · rw [← hn]; exact Complex.norm_mul_cos_arg _

theorem angles_to_xyz_normSq (a b : ℝ) : (angles_to_xyz a b).normSq = 1 := by
  have h1 := Real.sin_sq_add_cos_sq a
  have h2 := Real.sin_sq_add_cos_sq b
  simp [angles_to_xyz, Vec3.normSq]; grind

theorem xyz_to_angles_of_le (v : Vec3 ℝ) (h : eps ≤ v.norm) :
    xyz_to_angles v = (Complex.arg ⟨(normalize v).z, (normalize v).x⟩, Real.arccos (normalize v).y) := by
  simp only [xyz_to_angles, clamp1_unit _ (normalize_normSq v h), atan2_real, Scalar.acos_real]

/-- `angles_to_xyz ∘ xyz_to_angles = normalize` whenever `‖v‖ ≥ eps` -/
theorem angles_to_xyz_xyz_to_angles (v : Vec3 ℝ) (h : eps ≤ v.norm) :
    angles_to_xyz (xyz_to_angles v).1 (xyz_to_angles v).2 = normalize v := by
  rw [xyz_to_angles_of_le v h]
  obtain ⟨h1, h2, h3⟩ := sphere_coords _ (normalize_normSq v h)
  apply Vec3.ext' <;> simp [angles_to_xyz, h1, h2, h3]

theorem xyz_to_angles_zero : xyz_to_angles (⟨0, 0, 0⟩ : Vec3 ℝ) = (0, Real.pi / 2) := by
  have : (⟨0, 0⟩ : ℂ) = 0 := rfl
  simp [xyz_to_angles, normalize, Vec3.clamp1, clamp1, atan2_real, this, Vec3.norm_real, Vec3.normSq]

/-- converse on the fundamental domain -/
theorem xyz_to_angles_angles_to_xyz (a b : ℝ) (ha : a ∈ Set.Ioc (-Real.pi) Real.pi) (hb : b ∈ Set.Ioo 0 Real.pi) :
    xyz_to_angles (angles_to_xyz a b) = (a, b) := by
  have hu := angles_to_xyz_normSq a b
  have h1 := norm_of_normSq_one _ hu
  rw [xyz_to_angles_of_le _ (by rw [h1]; exact eps_le_one), normalize_unit _ hu]
  have hs : 0 < Real.sin b := Real.sin_pos_of_pos_of_lt_pi hb.1 hb.2
  have e : (⟨(angles_to_xyz a b).z, (angles_to_xyz a b).x⟩ : ℂ)
      = (Real.sin b : ℂ) * (Complex.cos a + Complex.sin a * Complex.I) := by
    apply Complex.ext <;> simp [angles_to_xyz, ← Complex.ofReal_cos, ← Complex.ofReal_sin]
  rw [e, Complex.arg_mul_cos_add_sin_mul_I hs ha]
  simp [angles_to_xyz, Real.arccos_cos hb.1.le hb.2.le]

/-! ### Rodrigues' formula and `axis_angle_to_matrix` -/

/-- Rodrigues' rotation matrix `cos t · 1 + sin t · [n]ₓ + (1 - cos t) · n nᵀ` -/
noncomputable def rodrigues (n : Vec3 ℝ) (t : ℝ) : Mat3 ℝ :=
  let c := Real.cos t; let s := Real.sin t; let k := 1 - c
  ⟨c + k * n.x * n.x, k * n.x * n.y - s * n.z, k * n.x * n.z + s * n.y,
   k * n.y * n.x + s * n.z, c + k * n.y * n.y, k * n.y * n.z - s * n.x,
   k * n.z * n.x - s * n.y, k * n.z * n.y + s * n.x, c + k * n.z * n.z⟩

def toVec (v : Vec3 ℝ) : Fin 3 → ℝ := ![v.x, v.y, v.z]

theorem toMatrix_mulVec (A : Mat3 ℝ) (v : Vec3 ℝ) : toVec (A.mulVec v) = (toMatrix A).mulVec (toVec v) := by
  ext i; fin_cases i <;> simp [toVec, toMatrix, Mat3.mulVec, Matrix.mulVec, dotProduct, Fin.sum_univ_three]

/-- the textbook form of Rodrigues' formula, with Mathlib's cross product -/
theorem rodrigues_mulVec (n : Vec3 ℝ) (t : ℝ) (w : Fin 3 → ℝ) :
    (toMatrix (rodrigues n t)).mulVec w
      = Real.cos t • w + Real.sin t • (crossProduct (toVec n) w)
        + ((1 - Real.cos t) * (toVec n ⬝ᵥ w)) • toVec n := by
  ext i; fin_cases i <;>
    simp [toVec, toMatrix, rodrigues, Matrix.mulVec, dotProduct, Fin.sum_univ_three, cross_apply,
      Matrix.vecHead, Matrix.vecTail] <;> ring

/-- `R(α,β,0) Ry(t) R(α,β,0)ᵀ` is Rodrigues' matrix about the axis `angles_to_xyz α β` -/
theorem conj_eq_rodrigues (a b t : ℝ) :
    ((angles_to_matrix a b 0).mul (matrix_y t)).mul (angles_to_matrix a b 0).transpose
      = rodrigues (angles_to_xyz a b) t := by
  have h1 := Real.sin_sq_add_cos_sq a
  have h2 := Real.sin_sq_add_cos_sq b
  simp only [angles_to_matrix, matrix_y_zero, Mat3.mul_one']
  simp only [rodrigues, angles_to_xyz, matrix_y, matrix_x, Mat3.mul, Mat3.transpose, Mat3.mk.injEq,
    zero_real, one_real, Scalar.sin_real, Scalar.cos_real]
  refine ⟨?_, ?_, ?_, ?_, ?_, ?_, ?_, ?_, ?_⟩ <;> grind

theorem axis_angle_to_matrix_eq_rodrigues (v : Vec3 ℝ) (t : ℝ) (h : eps ≤ v.norm) :
    axis_angle_to_matrix v t = rodrigues (normalize v) t := by
  rw [← angles_to_xyz_xyz_to_angles v h, ← conj_eq_rodrigues]
  simp [axis_angle_to_matrix]

theorem axis_angle_to_matrix_isRot (v : Vec3 ℝ) (t : ℝ) : IsRot (axis_angle_to_matrix v t) := by
  simp only [axis_angle_to_matrix]
  exact ((angles_to_matrix_isRot _ _ _).mul (matrix_y_isRot t)).mul (angles_to_matrix_isRot _ _ _).transpose

theorem rodrigues_isRot (n : Vec3 ℝ) (hn : n.normSq = 1) (t : ℝ) : IsRot (rodrigues n t) := by
  have h := axis_angle_to_matrix_eq_rodrigues n t (by rw [norm_of_normSq_one n hn]; exact eps_le_one)
  rw [normalize_unit n hn] at h
  rw [← h]; exact axis_angle_to_matrix_isRot n t

/-- a zero axis is silently treated as the z axis -/
theorem axis_angle_to_matrix_zero_axis (t : ℝ) : axis_angle_to_matrix (⟨0, 0, 0⟩ : Vec3 ℝ) t = matrix_z t := by
  simp [axis_angle_to_matrix, xyz_to_angles_zero, angles_to_matrix,
    matrix_x, matrix_y, matrix_z, Mat3.mul, Mat3.transpose]

/-! ### quaternion → matrix -/

/-- the classical rotation matrix of a unit quaternion -/
def quatMatrix (q : Quat ℝ) : Mat3 ℝ :=
  ⟨1 - 2 * (q.y * q.y + q.z * q.z), 2 * (q.x * q.y - q.w * q.z), 2 * (q.x * q.z + q.w * q.y),
   2 * (q.x * q.y + q.w * q.z), 1 - 2 * (q.x * q.x + q.z * q.z), 2 * (q.y * q.z - q.w * q.x),
   2 * (q.x * q.z - q.w * q.y), 2 * (q.y * q.z + q.w * q.x), 1 - 2 * (q.x * q.x + q.y * q.y)⟩

/-- `quatMatrix q` is the matrix of `v ↦ q v q*` on pure quaternions (Mathlib's `Quaternion ℝ`) -/
theorem quatMatrix_conj (q : Quat ℝ) (hq : q.normSq = 1) (v : Vec3 ℝ) :
    toQuat q * toQuat ⟨0, v.x, v.y, v.z⟩ * star (toQuat q)
      = toQuat ⟨0, ((quatMatrix q).mulVec v).x, ((quatMatrix q).mulVec v).y, ((quatMatrix q).mulVec v).z⟩ := by
  simp only [Quat.normSq] at hq
  open Quaternion in
  apply Quaternion.ext <;>
    simp [Quaternion.re_mul, Quaternion.imI_mul, Quaternion.imJ_mul, Quaternion.imK_mul, quatMatrix, Mat3.mulVec] <;>
    grind

theorem quatMatrix_compose (p q : Quat ℝ) (hp : p.normSq = 1) (hq : q.normSq = 1) :
    quatMatrix (compose_quaternion p q) = (quatMatrix p).mul (quatMatrix q) := by
  simp only [Quat.normSq] at hp hq
  simp only [quatMatrix, compose_quaternion, Mat3.mul, Mat3.mk.injEq]
  refine ⟨?_, ?_, ?_, ?_, ?_, ?_, ?_, ?_, ?_⟩ <;> grind

theorem quatMatrix_neg (q : Quat ℝ) : quatMatrix ⟨-q.w, -q.x, -q.y, -q.z⟩ = quatMatrix q := by
  simp only [quatMatrix, Mat3.mk.injEq]
  refine ⟨?_, ?_, ?_, ?_, ?_, ?_, ?_, ?_, ?_⟩ <;> ring

theorem quatMatrix_inverse (q : Quat ℝ) : quatMatrix (inverse_quaternion q) = (quatMatrix q).transpose := by
  simp only [quatMatrix, inverse_quaternion, Mat3.transpose, Mat3.mk.injEq]
  refine ⟨?_, ?_, ?_, ?_, ?_, ?_, ?_, ?_, ?_⟩ <;> ring

def Quat.vec (q : Quat ℝ) : Vec3 ℝ := ⟨q.x, q.y, q.z⟩

theorem quaternion_to_matrix_eq (q : Quat ℝ) (hq : q.normSq = 1) (hv : eps ≤ q.vec.norm) :
    quaternion_to_matrix q = quatMatrix q := by
  have hn := normalize_normSq q.vec hv
  have hd0 : 0 < q.vec.norm := lt_of_lt_of_le eps_pos hv
  have hdd := q.vec.norm_sq
  simp only [Quat.normSq] at hq
  have hw : |q.w| ≤ 1 := by
    apply abs_le_one_iff_mul_self_le_one.mpr
    nlinarith [mul_self_nonneg q.x, mul_self_nonneg q.y, mul_self_nonneg q.z]
  have hw' := abs_le.mp hw
  have hsq : Real.sqrt (1 - q.w ^ 2) = q.vec.norm := by
    rw [show 1 - q.w ^ 2 = q.vec.norm * q.vec.norm by rw [hdd]; simp only [Vec3.normSq, Quat.vec]; linarith]
    exact Real.sqrt_mul_self hd0.le
  have hc : Real.cos (2 * Real.arccos q.w) = 2 * q.w ^ 2 - 1 := by
    rw [Real.cos_two_mul, Real.cos_arccos hw'.1 hw'.2]
  have hs : Real.sin (2 * Real.arccos q.w) = 2 * q.vec.norm * q.w := by
    rw [Real.sin_two_mul, Real.cos_arccos hw'.1 hw'.2, Real.sin_arccos, hsq]
  have e : quaternion_to_matrix q = rodrigues (normalize q.vec) (2 * Real.arccos q.w) := by
    simp only [quaternion_to_matrix, quaternion_to_axis_angle, clamp1_of_abs_le hw, two_real, Scalar.acos_real]
    rw [show (⟨q.x, q.y, q.z⟩ : Vec3 ℝ) = q.vec from rfl]
    rw [axis_angle_to_matrix_eq_rodrigues _ _ (by rw [norm_of_normSq_one _ hn]; exact eps_le_one),
      normalize_unit _ hn]
  rw [e, normalize_of_le _ hv]
  simp only [Vec3.normSq, Quat.vec] at hdd
  have hx : q.x = q.x / q.vec.norm * q.vec.norm := by field_simp
  have hy : q.y = q.y / q.vec.norm * q.vec.norm := by field_simp
  have hz : q.z = q.z / q.vec.norm * q.vec.norm := by field_simp
  rw [normalize_of_le _ hv] at hn
  simp only [Vec3.normSq, Quat.vec] at hn
  simp only [rodrigues, quatMatrix, hc, hs, Quat.vec, Mat3.mk.injEq]
  generalize q.vec.norm = d at *
  generalize q.x / d = nx at *
  generalize q.y / d = ny at *
  generalize q.z / d = nz at *
  refine ⟨?_, ?_, ?_, ?_, ?_, ?_, ?_, ?_, ?_⟩ <;> grind


/-! ### `matrix_to_angles` -/

theorem detIsOne_of_det {R : Mat3 ℝ} (h : R.det = 1) : detIsOne R = true := by
  simp [detIsOne, h, atol, rtol, Scalar.ofFrac, Scalar.ofInt]; norm_num

/-- a rotation fixing `e_y` is `matrix_y` of the `atan2` of its `(0,2)` and `(0,0)` entries -/
theorem y_rotation_of_fix (Q : Mat3 ℝ) (hQ : IsRot Q) (h01 : Q.m01 = 0) (h11 : Q.m11 = 1) (h21 : Q.m21 = 0) :
    Q = matrix_y (Complex.arg ⟨Q.m00, Q.m02⟩) := by
  have hM := hQ.1
  have hd := hQ.2
  obtain ⟨m00, m01, m02, m10, m11, m12, m20, m21, m22⟩ := Q
  simp only at h01 h11 h21
  subst h01 h11 h21
  simp only [Mat3.mul, Mat3.transpose, Mat3.one, Mat3.mk.injEq, Mat3.det, zero_real, one_real] at hM hd
  obtain ⟨r00, r01, r02, r10, r11, r12, r20, r21, r22⟩ := hM
  have h10 : m10 = 0 := by
    have : m10 * m10 = 0 := by nlinarith [mul_self_nonneg m10, mul_self_nonneg m12]
    exact mul_self_eq_zero.mp this
  have h12 : m12 = 0 := by
    have : m12 * m12 = 0 := by nlinarith [mul_self_nonneg m10, mul_self_nonneg m12]
    exact mul_self_eq_zero.mp this
  subst h10 h12
  have hz : (m00 - m22) * (m00 - m22) + (m02 + m20) * (m02 + m20) = 0 := by
    linear_combination r00 + r22 - 2 * hd
  have e1 : m00 - m22 = 0 := by
    have : (m00 - m22) * (m00 - m22) = 0 := by
      nlinarith [mul_self_nonneg (m00 - m22), mul_self_nonneg (m02 + m20)]
    exact mul_self_eq_zero.mp this
  have e2 : m02 + m20 = 0 := by
    have : (m02 + m20) * (m02 + m20) = 0 := by
      nlinarith [mul_self_nonneg (m00 - m22), mul_self_nonneg (m02 + m20)]
    exact mul_self_eq_zero.mp this
  have hn : ‖(⟨m00, m02⟩ : ℂ)‖ = 1 := by
    rw [Complex.norm_def, Complex.normSq_mk]
    rw [show m00 * m00 + m02 * m02 = 1 by linarith, Real.sqrt_one]
  have hc := Complex.norm_mul_cos_arg (⟨m00, m02⟩ : ℂ)
  have hs := Complex.norm_mul_sin_arg (⟨m00, m02⟩ : ℂ)
  rw [hn, one_mul] at hc hs
  simp only [matrix_y, Mat3.mk.injEq, Scalar.cos_real, Scalar.sin_real, hc, hs, zero_real, one_real]
  refine ⟨trivial, trivial, trivial, trivial, trivial, trivial, ?_, trivial, ?_⟩ <;> linarith

theorem matrix_to_angles_roundtrip (R : Mat3 ℝ) (hR : IsRot R) :
    ∃ a, matrix_to_angles R = some a ∧ angles_to_matrix a.alpha a.beta a.gamma = R := by
  have hdet := detIsOne_of_det hR.2
  have hT := hR.transpose_mul
  let n : Vec3 ℝ := ⟨R.m01, R.m11, R.m21⟩
  have hmv : R.mulVec ⟨Scalar.zero, Scalar.one, Scalar.zero⟩ = n := by simp [Mat3.mulVec, n]
  have hn : n.normSq = 1 := by
    have := congrArg Mat3.m11 hT
    simp only [Mat3.mul, Mat3.transpose, Mat3.one, one_real] at this
    simpa [Vec3.normSq, n] using this
  have hxyz : angles_to_xyz (xyz_to_angles n).1 (xyz_to_angles n).2 = n := by
    rw [angles_to_xyz_xyz_to_angles n (by rw [norm_of_normSq_one n hn]; exact eps_le_one), normalize_unit n hn]
  generalize hab : xyz_to_angles n = ab at hxyz
  obtain ⟨a, b⟩ := ab
  simp only at hxyz
  let S := angles_to_matrix a b 0
  have hS : IsRot S := angles_to_matrix_isRot a b 0
  let Q := S.transpose.mul R
  have hQ : IsRot Q := hS.transpose.mul hR
  have hx : Real.sin b * Real.sin a = R.m01 := by simpa [angles_to_xyz, n] using congrArg Vec3.x hxyz
  have hy : Real.cos b = R.m11 := by simpa [angles_to_xyz, n] using congrArg Vec3.y hxyz
  have hz : Real.sin b * Real.cos a = R.m21 := by simpa [angles_to_xyz, n] using congrArg Vec3.z hxyz
  have h1 := Real.sin_sq_add_cos_sq a
  have h2 := Real.sin_sq_add_cos_sq b
  have hcol : Q.m01 = 0 ∧ Q.m11 = 1 ∧ Q.m21 = 0 := by
    simp only [Q, S, angles_to_matrix, matrix_y_zero, Mat3.mul_one']
    simp only [matrix_y, matrix_x, Mat3.mul, Mat3.transpose, zero_real, one_real, Scalar.sin_real,
      Scalar.cos_real, ← hx, ← hy, ← hz]
    refine ⟨?_, ?_, ?_⟩ <;> grind
  have hQy := y_rotation_of_fix Q hQ hcol.1 hcol.2.1 hcol.2.2
  refine ⟨⟨a, b, Complex.arg ⟨Q.m00, Q.m02⟩⟩, ?_, ?_⟩
  · simp only [matrix_to_angles, hdet, if_true, hmv, hab]
    simp only [zero_real, atan2_real]
    rfl
  · show angles_to_matrix a b (Complex.arg ⟨Q.m00, Q.m02⟩) = R
    calc angles_to_matrix a b (Complex.arg ⟨Q.m00, Q.m02⟩)
        = S.mul (matrix_y (Complex.arg ⟨Q.m00, Q.m02⟩)) := by
          simp only [S, angles_to_matrix, matrix_y_zero, Mat3.mul_one']
      _ = S.mul Q := by rw [← hQy]
      _ = (S.mul S.transpose).mul R := by rw [Mat3.mul_assoc']
      _ = R := by rw [hS.1, Mat3.one_mul']


/-! ### `matrix_to_axis_angle` on the generic stratum -/

/-- every entry of a rotation matrix equals its cofactor -/
theorem IsRot.cofactor {R : Mat3 ℝ} (hR : IsRot R) :
    R.m00 = R.m11 * R.m22 - R.m12 * R.m21 ∧ R.m01 = R.m12 * R.m20 - R.m10 * R.m22 ∧
    R.m02 = R.m10 * R.m21 - R.m11 * R.m20 ∧ R.m10 = R.m02 * R.m21 - R.m01 * R.m22 ∧
    R.m11 = R.m00 * R.m22 - R.m02 * R.m20 ∧ R.m12 = R.m01 * R.m20 - R.m00 * R.m21 ∧
    R.m20 = R.m01 * R.m12 - R.m02 * R.m11 ∧ R.m21 = R.m02 * R.m10 - R.m00 * R.m12 ∧
    R.m22 = R.m00 * R.m11 - R.m01 * R.m10 := by
  have hM := hR.1
  have hT := hR.transpose_mul
  have hd := hR.2
  obtain ⟨m00, m01, m02, m10, m11, m12, m20, m21, m22⟩ := R
  simp only [Mat3.mul, Mat3.transpose, Mat3.one, Mat3.mk.injEq, Mat3.det, zero_real, one_real] at hM hT hd
  obtain ⟨r00, r01, r02, r10, r11, r12, r20, r21, r22⟩ := hM
  obtain ⟨c00, c01, c02, c10, c11, c12, c20, c21, c22⟩ := hT
  refine ⟨?_, ?_, ?_, ?_, ?_, ?_, ?_, ?_, ?_⟩ <;> grind


/-- the vector read off the antisymmetric part by `matrix_to_axis_angle` (`= 2 sin θ · axis`) -/
def skewVec (R : Mat3 ℝ) : Vec3 ℝ := ⟨R.m21 - R.m12, R.m02 - R.m20, R.m10 - R.m01⟩

/-- `a aᵀ = (1+τ)(R+Rᵀ) + (1+τ)(1-τ)·1` for `a = skewVec R`, `τ = tr R`, on SO(3) -/
theorem IsRot.skew_outer {R : Mat3 ℝ} (hR : IsRot R) :
    let a := skewVec R; let τ := R.m00 + R.m11 + R.m22
    a.x * a.x = (1 + τ) * (2 * R.m00 + 1 - τ) ∧ a.y * a.y = (1 + τ) * (2 * R.m11 + 1 - τ) ∧
    a.z * a.z = (1 + τ) * (2 * R.m22 + 1 - τ) ∧ a.x * a.y = (1 + τ) * (R.m01 + R.m10) ∧
    a.x * a.z = (1 + τ) * (R.m02 + R.m20) ∧ a.y * a.z = (1 + τ) * (R.m12 + R.m21) := by
  have hM := hR.1
  have hT := hR.transpose_mul
  have hc := hR.cofactor
  obtain ⟨m00, m01, m02, m10, m11, m12, m20, m21, m22⟩ := R
  simp only [Mat3.mul, Mat3.transpose, Mat3.one, Mat3.mk.injEq, zero_real, one_real] at hM hT hc
  obtain ⟨r00, r01, r02, r10, r11, r12, r20, r21, r22⟩ := hM
  obtain ⟨c00, c01, c02, c10, c11, c12, c20, c21, c22⟩ := hT
  obtain ⟨k00, k01, k02, k10, k11, k12, k20, k21, k22⟩ := hc
  simp only [skewVec]
  refine ⟨?_, ?_, ?_, ?_, ?_, ?_⟩ <;> grind



theorem rodrigues_entries_aux (m00 m01 m02 m10 m11 m12 m20 m21 m22 c d nx ny nz : ℝ) (hk : 1 + c ≠ 0)
    (hd2 : d * d = 4 * (1 - c * c))
    (kxx : (nx * d) * (nx * d) = (1 + (2 * c + 1)) * (2 * m00 + 1 - (2 * c + 1)))
    (kyy : (ny * d) * (ny * d) = (1 + (2 * c + 1)) * (2 * m11 + 1 - (2 * c + 1)))
    (kzz : (nz * d) * (nz * d) = (1 + (2 * c + 1)) * (2 * m22 + 1 - (2 * c + 1)))
    (kxy : (nx * d) * (ny * d) = (1 + (2 * c + 1)) * (m01 + m10))
    (kxz : (nx * d) * (nz * d) = (1 + (2 * c + 1)) * (m02 + m20))
    (kyz : (ny * d) * (nz * d) = (1 + (2 * c + 1)) * (m12 + m21))
    (ax : nx * d = m21 - m12) (ay : ny * d = m02 - m20) (az : nz * d = m10 - m01) :
    c + (1 - c) * nx * nx = m00 ∧ (1 - c) * nx * ny - d / 2 * nz = m01 ∧ (1 - c) * nx * nz + d / 2 * ny = m02 ∧
    (1 - c) * ny * nx + d / 2 * nz = m10 ∧ c + (1 - c) * ny * ny = m11 ∧ (1 - c) * ny * nz - d / 2 * nx = m12 ∧
    (1 - c) * nz * nx - d / 2 * ny = m20 ∧ (1 - c) * nz * ny + d / 2 * nx = m21 ∧ c + (1 - c) * nz * nz = m22 := by
  refine ⟨?_, ?_, ?_, ?_, ?_, ?_, ?_, ?_, ?_⟩ <;> apply mul_left_cancel₀ hk
  · linear_combination (-(nx * nx) / 4) * hd2 + (1 / 4) * kxx
  · linear_combination (-(nx * ny) / 4) * hd2 + (1 / 4) * kxy - ((1 + c) / 2) * az
  · linear_combination (-(nx * nz) / 4) * hd2 + (1 / 4) * kxz + ((1 + c) / 2) * ay
  · linear_combination (-(ny * nx) / 4) * hd2 + (1 / 4) * kxy + ((1 + c) / 2) * az
  · linear_combination (-(ny * ny) / 4) * hd2 + (1 / 4) * kyy
  · linear_combination (-(ny * nz) / 4) * hd2 + (1 / 4) * kyz - ((1 + c) / 2) * ax
  · linear_combination (-(nz * nx) / 4) * hd2 + (1 / 4) * kxz - ((1 + c) / 2) * ay
  · linear_combination (-(nz * ny) / 4) * hd2 + (1 / 4) * kyz + ((1 + c) / 2) * ax
  · linear_combination (-(nz * nz) / 4) * hd2 + (1 / 4) * kzz

theorem matrix_to_axis_angle_roundtrip (R : Mat3 ℝ) (hR : IsRot R) (h : eps ≤ (skewVec R).norm) :
    ∃ aa, matrix_to_axis_angle R = some aa ∧ aa.axis.normSq = 1 ∧
      axis_angle_to_matrix aa.axis aa.angle = R := by
  have hdet := detIsOne_of_det hR.2
  have hd0 : 0 < (skewVec R).norm := lt_of_lt_of_le eps_pos h
  have hdd := (skewVec R).norm_sq
  have hn := normalize_normSq _ h
  obtain ⟨kxx, kyy, kzz, kxy, kxz, kyz⟩ := hR.skew_outer
  set c : ℝ := (R.m00 + R.m11 + R.m22 - 1) / 2 with hc
  have hτ : R.m00 + R.m11 + R.m22 = 2 * c + 1 := by rw [hc]; ring
  rw [hτ] at kxx kyy kzz kxy kxz kyz
  have hd2 : (skewVec R).norm * (skewVec R).norm = 4 * (1 - c * c) := by
    rw [hdd, Vec3.normSq, kxx, kyy, kzz]; linear_combination (-4 * (1 + c)) * hτ
  have hcabs : |c| ≤ 1 := by
    apply abs_le_one_iff_mul_self_le_one.mpr
    nlinarith [mul_self_nonneg (skewVec R).norm]
  have hc' := abs_le.mp hcabs
  have hcos : Real.cos (Real.arccos c) = c := Real.cos_arccos hc'.1 hc'.2
  have hsin : Real.sin (Real.arccos c) = (skewVec R).norm / 2 := by
    rw [Real.sin_arccos, show 1 - c ^ 2 = ((skewVec R).norm / 2) * ((skewVec R).norm / 2) by nlinarith]
    exact Real.sqrt_mul_self (by positivity)
  refine ⟨⟨normalize (skewVec R), Real.arccos c⟩, ?_, hn, ?_⟩
  · simp only [matrix_to_axis_angle, hdet, if_true, one_real, two_real, ← hc, clamp1_of_abs_le hcabs,
      Scalar.acos_real]
    rfl
  · show axis_angle_to_matrix (normalize (skewVec R)) (Real.arccos c) = R
    rw [axis_angle_to_matrix_eq_rodrigues _ _ (by rw [norm_of_normSq_one _ hn]; exact eps_le_one),
      normalize_unit _ hn, normalize_of_le _ h]
    have hx : (skewVec R).x = (skewVec R).x / (skewVec R).norm * (skewVec R).norm := by field_simp
    have hy : (skewVec R).y = (skewVec R).y / (skewVec R).norm * (skewVec R).norm := by field_simp
    have hz : (skewVec R).z = (skewVec R).z / (skewVec R).norm * (skewVec R).norm := by field_simp
    have hk : 1 + c ≠ 0 := by
      intro h0
      have : (skewVec R).norm * (skewVec R).norm = 0 := by rw [hd2]; linear_combination (4 * (1 - c)) * h0
      have := mul_self_eq_zero.mp this
      linarith
    have ax : (skewVec R).x = R.m21 - R.m12 := rfl
    have ay : (skewVec R).y = R.m02 - R.m20 := rfl
    have az : (skewVec R).z = R.m10 - R.m01 := rfl
    have key := rodrigues_entries_aux R.m00 R.m01 R.m02 R.m10 R.m11 R.m12 R.m20 R.m21 R.m22 c (skewVec R).norm
      ((skewVec R).x / (skewVec R).norm) ((skewVec R).y / (skewVec R).norm) ((skewVec R).z / (skewVec R).norm)
      hk hd2 (by rw [← hx]; exact kxx) (by rw [← hy]; exact kyy) (by rw [← hz]; exact kzz)
      (by rw [← hx, ← hy]; exact kxy) (by rw [← hx, ← hz]; exact kxz) (by rw [← hy, ← hz]; exact kyz)
      (by rw [← hx]; exact ax) (by rw [← hy]; exact ay) (by rw [← hz]; exact az)
    obtain ⟨m00, m01, m02, m10, m11, m12, m20, m21, m22⟩ := R
    simp only [rodrigues, hcos, hsin, Mat3.mk.injEq]
    exact key


/-! ### the quaternion route agrees with the matrix route -/

theorem rodrigues_ex (t : ℝ) : rodrigues ⟨1, 0, 0⟩ t = matrix_x t := by simp [rodrigues, matrix_x]
theorem rodrigues_ey (t : ℝ) : rodrigues ⟨0, 1, 0⟩ t = matrix_y t := by simp [rodrigues, matrix_y]
theorem rodrigues_ez (t : ℝ) : rodrigues ⟨0, 0, 1⟩ t = matrix_z t := by simp [rodrigues, matrix_z]

theorem axis_angle_to_quaternion_normSq (v : Vec3 ℝ) (t : ℝ) (h : eps ≤ v.norm) :
    (axis_angle_to_quaternion v t).normSq = 1 := by
  have hn := normalize_normSq v h
  have h1 := Real.sin_sq_add_cos_sq (t / 2)
  simp only [Vec3.normSq] at hn
  simp only [axis_angle_to_quaternion, Quat.normSq, two_real, Scalar.sin_real, Scalar.cos_real]
  generalize normalize v = n at *
  grind

/-- `quatMatrix (cos(t/2), n sin(t/2))` is Rodrigues' matrix -/
theorem quatMatrix_axis_angle (v : Vec3 ℝ) (t : ℝ) (h : eps ≤ v.norm) :
    quatMatrix (axis_angle_to_quaternion v t) = rodrigues (normalize v) t := by
  have hn := normalize_normSq v h
  have h1 := Real.sin_sq_add_cos_sq (t / 2)
  have hc : Real.cos t = 2 * Real.cos (t / 2) ^ 2 - 1 := by
    rw [← Real.cos_two_mul]; congr 1; ring
  have hs : Real.sin t = 2 * Real.sin (t / 2) * Real.cos (t / 2) := by
    rw [← Real.sin_two_mul]; congr 1; ring
  simp only [Vec3.normSq] at hn
  simp only [axis_angle_to_quaternion, quatMatrix, rodrigues, two_real, Scalar.sin_real, Scalar.cos_real,
    hc, hs, Mat3.mk.injEq]
  generalize normalize v = n at *
  refine ⟨?_, ?_, ?_, ?_, ?_, ?_, ?_, ?_, ?_⟩ <;> grind

theorem unit_norm_ge_eps (v : Vec3 ℝ) (h : v.normSq = 1) : eps ≤ v.norm := by
  rw [norm_of_normSq_one v h]; exact eps_le_one

theorem quatMatrix_angles_to_quaternion (a b c : ℝ) :
    quatMatrix (angles_to_quaternion a b c) = angles_to_matrix a b c ∧
    (angles_to_quaternion a b c).normSq = 1 := by
  have hy : (⟨0, 1, 0⟩ : Vec3 ℝ).normSq = 1 := by simp [Vec3.normSq]
  have hx : (⟨1, 0, 0⟩ : Vec3 ℝ).normSq = 1 := by simp [Vec3.normSq]
  have ey := unit_norm_ge_eps _ hy
  have ex := unit_norm_ge_eps _ hx
  have na := axis_angle_to_quaternion_normSq _ a ey
  have nb := axis_angle_to_quaternion_normSq _ b ex
  have nc := axis_angle_to_quaternion_normSq _ c ey
  have nbc : (compose_quaternion (axis_angle_to_quaternion ⟨1, 0, 0⟩ b)
      (axis_angle_to_quaternion ⟨0, 1, 0⟩ c)).normSq = 1 := by
    rw [compose_normSq, nb, nc, mul_one]
  simp only [angles_to_quaternion, zero_real, one_real]
  constructor
  · rw [quatMatrix_compose _ _ na nbc, quatMatrix_compose _ _ nb nc]
    simp only [quatMatrix_axis_angle _ _ ey, quatMatrix_axis_angle _ _ ex, normalize_unit _ hy,
      normalize_unit _ hx, rodrigues_ex, rodrigues_ey, angles_to_matrix, Mat3.mul_assoc']
  · rw [compose_normSq, compose_normSq, na, nb, nc]; norm_num

/-! ### singular strata -/

theorem matrix_to_axis_angle_of_symm (R : Mat3 ℝ) (hd : detIsOne R = true) (hs : skewVec R = ⟨0, 0, 0⟩) :
    matrix_to_axis_angle R = some ⟨⟨0, 0, 0⟩, Real.arccos (clamp1 ((R.m00 + R.m11 + R.m22 - 1) / 2))⟩ := by
  simp only [skewVec] at hs
  simp only [matrix_to_axis_angle, hd, if_true, hs, normalize_zero, one_real, two_real, Scalar.acos_real]

theorem rodrigues_pi (n : Vec3 ℝ) : rodrigues n Real.pi =
    ⟨2 * n.x * n.x - 1, 2 * n.x * n.y, 2 * n.x * n.z, 2 * n.y * n.x, 2 * n.y * n.y - 1, 2 * n.y * n.z,
     2 * n.z * n.x, 2 * n.z * n.y, 2 * n.z * n.z - 1⟩ := by
  simp only [rodrigues, Real.cos_pi, Real.sin_pi, Mat3.mk.injEq]
  refine ⟨?_, ?_, ?_, ?_, ?_, ?_, ?_, ?_, ?_⟩ <;> ring

/-- at rotation angle π (any unit axis) the model returns the zero axis and the angle π -/
theorem matrix_to_axis_angle_pi (n : Vec3 ℝ) (hn : n.normSq = 1) :
    matrix_to_axis_angle (rodrigues n Real.pi) = some ⟨⟨0, 0, 0⟩, Real.pi⟩ := by
  have hR := rodrigues_isRot n hn Real.pi
  have hd := detIsOne_of_det hR.2
  rw [matrix_to_axis_angle_of_symm _ hd]
  · rw [rodrigues_pi]
    simp only [Vec3.normSq] at hn
    have : (2 * n.x * n.x - 1 + (2 * n.y * n.y - 1) + (2 * n.z * n.z - 1) - 1) / 2 = -1 := by linarith
    rw [this, clamp1_of_abs_le (by norm_num), Real.arccos_neg_one]
  · rw [rodrigues_pi]; simp only [skewVec, Vec3.mk.injEq]; refine ⟨?_, ?_, ?_⟩ <;> ring

/-- … so that the round trip through axis-angle returns `diag(-1,-1,1)` whatever the axis was -/
theorem axis_angle_roundtrip_pi (n : Vec3 ℝ) (hn : n.normSq = 1) :
    (matrix_to_axis_angle (rodrigues n Real.pi)).map (fun aa => axis_angle_to_matrix aa.axis aa.angle)
      = some ⟨-1, 0, 0, 0, -1, 0, 0, 0, 1⟩ := by
  rw [matrix_to_axis_angle_pi n hn]
  simp [axis_angle_to_matrix_zero_axis, matrix_z]

theorem matrix_to_quaternion_pi (n : Vec3 ℝ) (hn : n.normSq = 1) :
    matrix_to_quaternion (rodrigues n Real.pi) = some ⟨0, 0, 0, 0⟩ := by
  simp [matrix_to_quaternion, matrix_to_axis_angle_pi n hn, axis_angle_to_quaternion, normalize_zero]

theorem matrix_to_axis_angle_one : matrix_to_axis_angle (Mat3.one : Mat3 ℝ) = some ⟨⟨0, 0, 0⟩, 0⟩ := by
  have hd := detIsOne_of_det isRot_one.2
  rw [matrix_to_axis_angle_of_symm _ hd (by simp [skewVec, Mat3.one])]
  have : ((Mat3.one : Mat3 ℝ).m00 + (Mat3.one : Mat3 ℝ).m11 + (Mat3.one : Mat3 ℝ).m22 - 1) / 2 = 1 := by
    simp [Mat3.one]
  rw [this, clamp1_of_abs_le (by norm_num), Real.arccos_one]

theorem quaternion_to_axis_angle_identity :
    quaternion_to_axis_angle (identity_quaternion : Quat ℝ) = ⟨⟨0, 0, 0⟩, 0⟩ := by
  simp [quaternion_to_axis_angle, identity_quaternion, normalize_zero, clamp1_of_abs_le]

/-- an axis shorter than `eps` is not normalised: the quaternion is not unit -/
theorem axis_angle_to_quaternion_tiny_axis :
    axis_angle_to_quaternion (⟨eps / 10, 0, 0⟩ : Vec3 ℝ) Real.pi = ⟨0, 1 / 10, 0, 0⟩ := by
  have hnorm : (⟨eps / 10, 0, 0⟩ : Vec3 ℝ).norm = eps / 10 := by
    rw [Vec3.norm_real]; simp only [Vec3.normSq, mul_zero, add_zero]
    exact Real.sqrt_mul_self (by have := eps_pos; linarith)
  have hmax : max (eps / 10 : ℝ) eps = eps := max_eq_right (by have := eps_pos; linarith)
  have hne : (eps : ℝ) ≠ 0 := ne_of_gt eps_pos
  simp only [axis_angle_to_quaternion, normalize, max_real, hnorm, hmax, two_real, Scalar.cos_real,
    Scalar.sin_real, Real.cos_pi_div_two, Real.sin_pi_div_two, Quat.mk.injEq]
  refine ⟨trivial, ?_, ?_, ?_⟩
  · field_simp
  · simp
  · simp

theorem vec_norm_inverse (q : Quat ℝ) : (inverse_quaternion q).vec.norm = q.vec.norm := by
  simp [Vec3.norm_real, Vec3.normSq, Quat.vec, inverse_quaternion]
theorem vec_norm_neg (q : Quat ℝ) : (⟨-q.w, -q.x, -q.y, -q.z⟩ : Quat ℝ).vec.norm = q.vec.norm := by
  simp [Vec3.norm_real, Vec3.normSq, Quat.vec]

end E3nnVerif.Rotation
