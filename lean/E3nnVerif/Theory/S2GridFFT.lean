import E3nnVerif.Theory.S2GridAlpha
/-
The FFT code path equals the dense (einsum) code path: `rfft`/`irfft` of `_s2grid.py`, with
`torch.fft.rfft/irfft` replaced by their DFT definitions, are multiplication by the matrix `sha`.
-/
namespace E3nnVerif.S2Grid
open E3nnVerif Finset

/-- `rfft(x, l)[k] = Σ_a sha[a, k] x[a]` — for every length `res` and every `l` -/
theorem rfftCore_eq_dense (x : ℕ → ℝ) (l res k : ℕ) :
    rfftCore x l res k = ∑ a ∈ range res, sha l res a k * x a := by
  simp only [rfftCore, rfftRe, rfftIm, sumRange_real, dftAngle_real, sha, shaEntry_real, two_real,
    Scalar.sqrt_real, Scalar.cos_real, Scalar.sin_real]
  split_ifs with h1 h2
  · rw [neg_mul_neg, Finset.sum_mul]
    exact Finset.sum_congr rfl fun a _ => by ring
  · subst h2
    exact Finset.sum_congr rfl fun a _ => by simp
  · rw [Finset.sum_mul]
    exact Finset.sum_congr rfl fun a _ => by ring

/-- frequency form of a product with a row of `sha` -/
theorem sum_sha_expand (l : ℕ) (α : ℝ) (f : ℕ → ℝ) :
    ∑ j ∈ range (2 * l + 1), shaEntry l α j * f j
      = f l + ∑ k ∈ range l, (Real.sqrt 2 * Real.cos (((k + 1 : ℕ) : ℝ) * α) * f (l + k + 1)
          + Real.sqrt 2 * Real.sin (((k + 1 : ℕ) : ℝ) * α) * f (l - k - 1)) := by
  have e : 2 * l + 1 = l + (l + 1) := by omega
  rw [e, Finset.sum_range_add, Finset.sum_range_succ', Finset.sum_add_distrib]
  have h1 : ∑ x ∈ range l, shaEntry l α x * f x
      = ∑ k ∈ range l, Real.sqrt 2 * Real.sin (((k + 1 : ℕ) : ℝ) * α) * f (l - k - 1) := by
    rw [← Finset.sum_range_reflect]
    refine Finset.sum_congr rfl fun k hk => ?_
    have hk' : k < l := Finset.mem_range.mp hk
    rw [shaEntry_real, if_pos (by omega)]
    have e1 : l - (l - 1 - k) = k + 1 := by omega
    have e2 : l - 1 - k = l - k - 1 := by omega
    rw [e1, e2]
  have h2 : ∑ k ∈ range l, shaEntry l α (l + (k + 1)) * f (l + (k + 1))
      = ∑ k ∈ range l, Real.sqrt 2 * Real.cos (((k + 1 : ℕ) : ℝ) * α) * f (l + k + 1) := by
    refine Finset.sum_congr rfl fun k _ => ?_
    rw [shaEntry_real, if_neg (by omega), if_neg (by omega)]
    have e1 : l + (k + 1) - l = k + 1 := by omega
    rw [e1, ← add_assoc]
  have h3 : shaEntry l α (l + 0) * f (l + 0) = f l := by
    rw [shaEntry_real]; simp
  rw [h1, h2, h3]; ring

/-- `irfft(x, res)[a] = Σ_k sha[a, k] x[k]` for odd `res ≥ 2 lm + 1` -/
theorem irfftCore_eq_dense (x : ℕ → ℝ) (lm res a : ℕ) (hodd : res % 2 = 1) (hle : 2 * lm + 1 ≤ res) :
    irfftCore x (2 * lm + 1) res a = ∑ k ∈ range (2 * lm + 1), sha lm res a k * x k := by
  obtain ⟨L, rfl⟩ : ∃ L, res = 2 * L + 1 := ⟨res / 2, by omega⟩
  have hL : (2 * L + 1) / 2 = L := by omega
  have hpad : (2 * L + 1 - (2 * lm + 1)) / 2 = L - lm := by omega
  have hlm : lm ≤ L := by omega
  have hs : Real.sqrt 2 ≠ 0 := by positivity
  have hs2 : Real.sqrt 2 * Real.sqrt 2 = 2 := Real.mul_self_sqrt (by norm_num)
  have hres : ((2 * L + 1 : ℕ) : ℝ) ≠ 0 := by positivity
  simp only [sha]
  rw [sum_sha_expand]
  simp only [irfftCore, irfftOddDef, sumRange_real, hL, dftAngle_real, two_real, zero_real, Scalar.sqrt_real,
    Scalar.cos_real, Scalar.sin_real, Scalar.ofNat_real, Nat.add_eq_zero_iff, one_ne_zero, and_false, if_false,
    if_true]
  rw [div_mul_cancel₀ _ hres]
  have hxL : irfftPad x (2 * lm + 1) (2 * L + 1) L = x lm := by
    simp only [irfftPad, hpad, zero_real]
    rw [if_neg (by omega), if_pos (by omega)]
    congr 1; omega
  rw [hxL]
  congr 1
  rw [Finset.mul_sum]
  rw [← Finset.sum_subset (Finset.range_subset_range.mpr hlm)]
  · refine Finset.sum_congr rfl fun k hk => ?_
    have hk' : k < lm := Finset.mem_range.mp hk
    have e1 : irfftPad x (2 * lm + 1) (2 * L + 1) (L + (k + 1)) = x (lm + k + 1) := by
      simp only [irfftPad, hpad, zero_real]
      rw [if_neg (by omega), if_pos (by omega)]
      congr 1; omega
    have e2 : irfftPad x (2 * lm + 1) (2 * L + 1) (L - (k + 1)) = x (lm - k - 1) := by
      simp only [irfftPad, hpad, zero_real]
      rw [if_neg (by omega), if_pos (by omega)]
      congr 1; omega
    rw [e1, e2]
    field_simp
    rw [show (Real.sqrt 2) ^ 2 = 2 by rw [sq]; exact hs2]
    ring
  · intro k hk1 hk2
    have hk1' : k < L := Finset.mem_range.mp hk1
    have hk2' : ¬ k < lm := fun h => hk2 (Finset.mem_range.mpr h)
    have e1 : irfftPad x (2 * lm + 1) (2 * L + 1) (L + (k + 1)) = 0 := by
      simp only [irfftPad, hpad, zero_real]
      rw [if_neg (by omega), if_neg (by omega)]
    have e2 : irfftPad x (2 * lm + 1) (2 * L + 1) (L - (k + 1)) = 0 := by
      simp only [irfftPad, hpad, zero_real]
      rw [if_pos (by omega)]
    rw [e1, e2]; simp

end E3nnVerif.S2Grid
