import E3nnVerif.Theory.S2GridRoundTrip
/-
The `forward` methods with their branch condition: never an error, always equal to the dense path;
direct-evaluation form of `ToS2Grid`; normalisation constants; SO3Grid.
-/
namespace E3nnVerif.S2Grid
open E3nnVerif Finset

theorem useFFT_iff (lmax M : ℕ) : useFFT lmax M = true ↔ (2 * lmax + 1 ≤ M ∧ M % 2 = 1) := by
  simp [useFFT]

theorem irfftCheck_ok (lm M : ℕ) (h1 : 2 * lm + 1 ≤ M) (h2 : M % 2 = 1) : irfftCheck (2 * lm + 1) M = .ok () := by
  simp only [irfftCheck]
  rw [if_neg (by omega), if_neg (by omega), if_neg (by omega)]

theorem rfftCheck_ok (lm M : ℕ) (h1 : 2 * lm + 1 ≤ M) : rfftCheck ((2 * lm + 1) / 2) M = .ok () := by
  simp only [rfftCheck]
  rw [if_neg (by omega)]

/-- `ToS2Grid.forward`: whichever branch is taken, no assert fires and the result is the einsum path -/
theorem toForwardWith_eq_dense (lmax M : ℕ) (shb : ℕ → ℕ → ℕ → ℝ) (x : ℕ → ℝ) :
    toForwardWith lmax M shb x = .ok (toForwardDenseWith lmax M shb x) := by
  unfold toForwardWith toAlphaStep
  by_cases h : useFFT lmax M = true
  · obtain ⟨h1, h2⟩ := (useFFT_iff lmax M).mp h
    simp only [h, if_true, irfftCheck_ok lmax M h1 h2]
    congr 1
    funext b a
    rw [irfftCore_eq_dense _ lmax M a h2 h1]
    simp only [toForwardDenseWith, toAlphaDense, sumRange_real]
  · simp only [h]
    rfl

/-- `FromS2Grid.forward`: likewise -/
theorem fromForwardWith_eq_dense (lmax N M : ℕ) (shb : ℕ → ℕ → ℕ → ℝ) (g : ℕ → ℕ → ℝ) :
    fromForwardWith lmax N M shb g = .ok (fromForwardDenseWith lmax N M shb g) := by
  unfold fromForwardWith fromAlphaStep
  by_cases h : useFFT lmax M = true
  · obtain ⟨h1, h2⟩ := (useFFT_iff lmax M).mp h
    simp only [h, if_true, rfftCheck_ok lmax M h1]
    congr 1
    have e : (2 * lmax + 1) / 2 = lmax := by omega
    funext i
    simp only [fromForwardDenseWith, e]
    congr 1
    funext b m
    rw [rfftCore_eq_dense]
    simp only [fromAlphaDense, sumRange_real]
  · simp only [h]
    rfl

/-- a row of `sha` for `lmax` restricted to the window of degree `l` is the row for `l` -/
theorem shaEntry_shift (lmax l k : ℕ) (α : ℝ) (hl : l ≤ lmax) :
    shaEntry lmax α (lmax - l + k) = shaEntry l α k := by
  rw [shaEntry_real, shaEntry_real]
  by_cases h1 : k < l
  · rw [if_pos h1, if_pos (by omega)]
    have : lmax - (lmax - l + k) = l - k := by omega
    rw [this]
  · rw [if_neg h1, if_neg (by omega)]
    have : lmax - l + k - lmax = k - l := by omega
    rw [this]
    by_cases h2 : k = l
    · rw [if_pos h2, if_pos (by omega)]
    · rw [if_neg h2, if_neg (by omega)]

/-- `ToS2Grid` is direct evaluation: `out[b, a] = Σ_l n_l Σ_k F_{l,k} · S^l_k(α_a) P_{l,k}(β_b)` -/
theorem toForwardDense_direct (lmax M : ℕ) (n : ℕ → ℝ) (P : ℕ → ℕ → ℝ) (F : ℕ → ℝ) (b a : ℕ) :
    toForwardDenseWith lmax M (shbTo lmax n P) F b a
      = ∑ l ∈ range (lmax + 1), ∑ k ∈ range (2 * l + 1),
          n l * F (l ^ 2 + k) * (shaEntry l (alphas M a) k * P b (l ^ 2 + k)) := by
  simp only [toForwardDenseWith, toAlphaDense, sumRange_real]
  simp_rw [toCoeff_flat, Finset.mul_sum]
  rw [Finset.sum_comm]
  refine Finset.sum_congr rfl fun l hl => ?_
  rw [Finset.sum_comm]
  refine Finset.sum_congr rfl fun k hk => ?_
  have hl' : l ≤ lmax := by have := Finset.mem_range.mp hl; omega
  have hk' : k ≤ 2 * l := by have := Finset.mem_range.mp hk; omega
  rw [Finset.sum_eq_single (lmax - l + k)]
  · rw [if_pos rfl, sha, shaEntry_shift lmax l k _ hl']; ring
  · intro m _ hne
    rw [if_neg hne, mul_zero]
  · intro hh; exact absurd (Finset.mem_range.mpr (by omega : lmax - l + k < 2 * lmax + 1)) hh

/-! ### normalisation constants -/

theorem nTo_mul_nFrom (kind : Norm) (lmax l : ℕ) : (nTo kind lmax l : ℝ) * nFrom kind lmax l = 4 * Real.pi := by
  have h4 : Real.sqrt (4 * Real.pi) * Real.sqrt (4 * Real.pi) = 4 * Real.pi :=
    Real.mul_self_sqrt (by positivity)
  have hl : Real.sqrt ((2 * l + 1 : ℕ) : ℝ) ≠ 0 := by positivity
  have hL : Real.sqrt ((lmax + 1 : ℕ) : ℝ) ≠ 0 := by positivity
  cases kind <;> simp only [nTo, nFrom, one_real, Scalar.sqrt_real, Scalar.ofNat_real, Scalar.pi_real, Nat.cast_ofNat]
  · field_simp; rw [sq, h4]
  · field_simp; rw [sq, h4]
  · ring

/-- `FromS2Grid` is linear (homogeneity; used for `S2Activation` with a linear activation) -/
theorem fromForwardDense_smul (lmax N M : ℕ) (shb : ℕ → ℕ → ℕ → ℝ) (g : ℕ → ℕ → ℝ) (c : ℝ) (i : ℕ) :
    fromForwardDenseWith lmax N M shb (fun b a => c * g b a) i = c * fromForwardDenseWith lmax N M shb g i := by
  simp only [fromForwardDenseWith, fromCoeff, fromAlphaDense, sumRange_real, Finset.mul_sum]
  refine Finset.sum_congr rfl fun b _ => Finset.sum_congr rfl fun m _ => Finset.sum_congr rfl fun a _ => ?_
  ring

/-! ### SO3Grid -/

theorem so3_roundtrip (dim nb na : ℕ) (D : ℕ → ℕ → ℕ → ℕ → ℝ) (F : ℕ → ℝ) (hdim : 0 < dim)
    (horth : ∀ i j, i < dim → j < dim →
      ∑ a ∈ range na, ∑ b ∈ range nb, ∑ c ∈ range na, so3Qw nb na b * (D a b c i * D a b c j)
        = if i = j then 1 else 0)
    (i : ℕ) (hi : i < dim) :
    so3FromGrid dim nb na D (so3ToGrid dim D F) i = F i := by
  have hs : Real.sqrt (dim : ℝ) ≠ 0 := by positivity
  simp only [so3FromGrid, so3ToGrid, sumRange_real, Scalar.sqrt_real, Scalar.ofNat_real]
  have e : ∀ a b c, (∑ j ∈ range dim, F j * D a b c j) / Real.sqrt dim * D a b c i * so3Qw nb na b
      = (∑ j ∈ range dim, F j * (so3Qw nb na b * (D a b c i * D a b c j))) / Real.sqrt dim := by
    intro a b c
    rw [div_mul_eq_mul_div, div_mul_eq_mul_div, Finset.sum_mul, Finset.sum_mul]
    congr 1
    exact Finset.sum_congr rfl fun j _ => by ring
  simp_rw [e, ← Finset.sum_div]
  rw [div_mul_cancel₀ _ hs]
  -- bring the j-sum outside
  have e2 : ∑ a ∈ range na, ∑ b ∈ range nb, ∑ c ∈ range na, ∑ j ∈ range dim,
        F j * (so3Qw nb na b * (D a b c i * D a b c j))
      = ∑ j ∈ range dim, F j * ∑ a ∈ range na, ∑ b ∈ range nb, ∑ c ∈ range na,
          so3Qw nb na b * (D a b c i * D a b c j) := by
    simp_rw [Finset.mul_sum]
    calc _ = ∑ a ∈ range na, ∑ b ∈ range nb, ∑ j ∈ range dim, ∑ c ∈ range na,
              F j * (so3Qw nb na b * (D a b c i * D a b c j)) :=
            Finset.sum_congr rfl fun a _ => Finset.sum_congr rfl fun b _ => Finset.sum_comm
      _ = ∑ a ∈ range na, ∑ j ∈ range dim, ∑ b ∈ range nb, ∑ c ∈ range na,
              F j * (so3Qw nb na b * (D a b c i * D a b c j)) :=
            Finset.sum_congr rfl fun a _ => Finset.sum_comm
      _ = _ := Finset.sum_comm
  rw [e2]
  have e3 : ∀ j ∈ range dim, F j * ∑ a ∈ range na, ∑ b ∈ range nb, ∑ c ∈ range na,
        so3Qw nb na b * (D a b c i * D a b c j) = if i = j then F j else 0 := by
    intro j hj
    rw [horth i j hi (Finset.mem_range.mp hj)]
    split_ifs <;> simp
  rw [Finset.sum_congr rfl e3, Finset.sum_ite_eq, if_pos (Finset.mem_range.mpr hi)]

end E3nnVerif.S2Grid
