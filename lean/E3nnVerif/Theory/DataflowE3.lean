/-
E(3)-soundness of the dataflow IR (property C15, parts (i) and (ii)).

One element of E(3) is represented by what it does to rows: a linear map `A ρ : F →ₗ[ℝ] F` for every declared
irreps `ρ` (the matrix `ρ.D_from_matrix(R)`), and a translation vector `t : F`.  The compatibility of the family
`A` with the row operations of the glue code are FIELDS of the structure `RepAction` (hypotheses of the theorems,
not Lean axioms): invariance of `0e` rows, block structure under `cat`, commutation with scalar·row.

`e3_step`/`e3_sound`: every well-typed program commutes with the action, GIVEN that each `prim` call is equivariant
as declared (`PrimEquivariant`).  Nothing is assumed about `mapInv` functions (radial networks, cutoffs, ...).
-/
import E3nnVerif.Theory.Dataflow

namespace E3nnVerif.Dataflow

open E3nnVerif.Model.Irreps (Irreps)

variable {N E G F : Type} [Fintype N] [Fintype E] [DecidableEq N] [DecidableEq G]
variable [AddCommGroup F] [Module ℝ F]

/-- the action of ONE element `(R, t)` of E(3) on rows -/
structure RepAction (F : Type) [AddCommGroup F] [Module ℝ F] (S : Sem F) where
  /-- `A ρ` is `ρ.D_from_matrix(R)` -/
  A : Irreps → F →ₗ[ℝ] F
  /-- the translation -/
  t : F
  /-- rows of `0e` scalars do not move -/
  scalars : ∀ ρ, isScalars ρ = true → ∀ x, A ρ x = x
  /-- `D(ρ₁ + ρ₂)` is block diagonal -/
  cat : ∀ ρ₁ ρ₂ x y, A (ρ₁ ++ ρ₂) (S.catF (E3nnVerif.Model.Irreps.dim ρ₁) x y)
      = S.catF (E3nnVerif.Model.Irreps.dim ρ₁) (A ρ₁ x) (A ρ₂ y)
  /-- multiplying a row by a scalar row commutes with `D` -/
  mul : ∀ ρ s x, A ρ (S.mulF s x) = S.mulF s (A ρ x)

variable {S : Sem F}

/-- how a row of type `τ` moves: positions affinely, everything else by its declared representation -/
def RepAction.T (a : RepAction F S) (τ : Ty) (x : F) : F :=
  if τ.tc = .pos then a.A vecRep x + a.t else a.A τ.irreps x

/-- the E(3) relation: the second value is the moved first value (at the declared shape) -/
def RepAction.Rel (a : RepAction F S) (τ : Ty) (v v' : Val N E G F) : Prop :=
  ∀ s, τ.shape = s → ∀ i : Idx N E G s, v' s i = a.T τ (v s i)

/-- `prim name ins out` is equivariant as declared -/
def PrimEquivariant (a : RepAction F S) (name : String) (ins : List Irreps) (out : Irreps) : Prop :=
  ∀ xs : List F, xs.length = ins.length →
    S.fn name (List.zipWith (fun ρ x => a.A ρ x) ins xs) = a.A out (S.fn name xs)

/-- the hypotheses about single instructions: inputs are moved, primitives are equivariant as declared -/
def E3Hyp (a : RepAction F S) (inp inp' : Nat → Val N E G F) : Instr → Prop
  | .input id τ => a.Rel τ (inp id) (inp' id)
  | .prim name ins out _ => PrimEquivariant a name ins out
  | _ => True

theorem RepAction.T_of_ne_pos (a : RepAction F S) {τ : Ty} (h : τ.tc ≠ .pos) (x : F) : a.T τ x = a.A τ.irreps x := by
  simp [RepAction.T, h]

theorem argRows_prim (a : RepAction F S) {tys : List Ty} {v v' : List (Val N E G F)}
    (h : AllRel (a.Rel (N := N) (E := E) (G := G)) tys v v') {s : Shape} {l : Bool} (i : Idx N E G s) :
    ∀ {args : List Var} {ins : List Irreps}, List.Forall₂ (ArgOk tys s l) args ins →
      argRows v' args s i = List.zipWith (fun ρ x => a.A ρ x) ins (argRows v args s i)
        ∧ (argRows v args s i).length = ins.length := by
  intro args ins hf
  induction hf with
  | nil => simp [argRows]
  | cons hab _ ih =>
    obtain ⟨τa, h1, h2, h3, h4, _⟩ := hab
    have := h.get h1 s h2 i
    rw [a.T_of_ne_pos h3, h4] at this
    simp only [argRows, List.map_cons, List.zipWith_cons_cons, List.length_cons] at ih ⊢
    exact ⟨by rw [this, ih.1], by rw [ih.2]⟩

theorem argRows_inv (a : RepAction F S) {tys : List Ty} {v v' : List (Val N E G F)}
    (h : AllRel (a.Rel (N := N) (E := E) (G := G)) tys v v') {s : Shape} {l : Bool} (i : Idx N E G s)
    {args : List Var}
    (hargs : ∀ x ∈ args, ∃ τa, tys[x]? = some τa ∧ τa.shape = s ∧ τa.tc ≠ .pos ∧ isScalars τa.irreps = true ∧
        (l = true → τa.loc = true)) :
    argRows v' args s i = argRows v args s i := by
  simp only [argRows]
  apply List.map_congr_left
  intro x hx
  obtain ⟨τa, h1, h2, h3, h4, _⟩ := hargs x hx
  have := h.get h1 s h2 i
  rw [a.T_of_ne_pos h3, a.scalars _ h4] at this
  exact this

/-- **one instruction.**  A well-typed instruction maps moved environments to moved values. -/
theorem e3_step (Γ : Graph N E G) (a : RepAction F S) (inp inp' : Nat → Val N E G F)
    (tys : List Ty) (v v' : List (Val N E G F)) (i : Instr) (τ : Ty)
    (hP : E3Hyp a inp inp' i) (hτ : i.type tys = some τ)
    (h : AllRel (a.Rel (N := N) (E := E) (G := G)) tys v v') :
    a.Rel τ (evalInstr Γ S inp v i) (evalInstr Γ S inp' v' i) := by
  cases i with
  | input id σ =>
    obtain ⟨rfl, _⟩ := inv_input hτ
    exact hP
  | gatherSrc x =>
    obtain ⟨τx, hx, hs, rfl⟩ := inv_gatherSrc hτ
    intro s hsh j
    cases hsh
    have := h.get hx .node hs (Γ.src j)
    simpa [evalInstr, RepAction.T] using this
  | gatherDst x =>
    obtain ⟨τx, hx, hs, rfl⟩ := inv_gatherDst hτ
    intro s hsh j
    cases hsh
    have := h.get hx .node hs (Γ.dst j)
    simpa [evalInstr, RepAction.T] using this
  | sub x y =>
    obtain ⟨τx, τy, hx, hy, hs, hcase⟩ := inv_sub hτ
    intro s hsh j
    rcases hcase with ⟨px, py, rfl⟩ | ⟨px, py, hir, rfl⟩
    · have e1 := h.get hx s hsh j
      have e2 := h.get hy s (hs ▸ hsh) j
      simp only [RepAction.T, px, py, if_true] at e1 e2
      simp only [evalInstr, e1, e2, RepAction.T]
      simp [map_sub]
    · have e1 := h.get hx s hsh j
      have e2 := h.get hy s (hs ▸ hsh) j
      rw [a.T_of_ne_pos px] at e1
      rw [a.T_of_ne_pos py, ← hir] at e2
      simp only [evalInstr, e1, e2, RepAction.T]
      simp [map_sub]
  | add x y =>
    obtain ⟨τx, τy, hx, hy, hs, px, py, hir, rfl⟩ := inv_add hτ
    intro s hsh j
    have e1 := h.get hx s hsh j
    have e2 := h.get hy s (hs ▸ hsh) j
    rw [a.T_of_ne_pos px] at e1
    rw [a.T_of_ne_pos py, ← hir] at e2
    simp only [evalInstr, e1, e2, RepAction.T]
    simp [map_add]
  | scatterDst x =>
    obtain ⟨τx, hx, hs, px, rfl⟩ := inv_scatterDst hτ
    intro s hsh j
    cases hsh
    have e1 := fun e => h.get hx .edge hs e
    simp only [a.T_of_ne_pos px] at e1
    simp only [evalInstr, e1, RepAction.T]
    simp [map_sum]
  | scatterBatch x =>
    obtain ⟨τx, hx, hs, px, rfl⟩ := inv_scatterBatch hτ
    intro s hsh j
    cases hsh
    have e1 := fun e => h.get hx .node hs e
    simp only [a.T_of_ne_pos px] at e1
    simp only [evalInstr, e1, RepAction.T]
    simp [map_sum]
  | reduceAll x =>
    obtain ⟨τx, hx, hs, px, rfl⟩ := inv_reduceAll hτ
    intro s hsh j
    cases hsh
    have e1 := fun e => h.get hx .node hs e
    simp only [a.T_of_ne_pos px] at e1
    simp only [evalInstr, e1, RepAction.T]
    simp [map_sum]
  | bcast s' x =>
    obtain ⟨τx, hx, hs, rfl⟩ := inv_bcast hτ
    intro s _ j
    have := h.get hx .glob hs ()
    simpa [evalInstr, RepAction.T] using this
  | cat d₁ x y =>
    obtain ⟨τx, τy, hx, hy, hs, px, py, hd, rfl⟩ := inv_cat hτ
    intro s hsh j
    have e1 := h.get hx s hsh j
    have e2 := h.get hy s (hs ▸ hsh) j
    rw [a.T_of_ne_pos px] at e1
    rw [a.T_of_ne_pos py] at e2
    simp only [evalInstr, e1, e2, RepAction.T]
    simp [← hd, a.cat]
  | mul c x =>
    obtain ⟨τs, τx, hc, hx, hs, ps, px, hsc, rfl⟩ := inv_mul hτ
    intro s hsh j
    have e1 := h.get hc s (hs ▸ hsh) j
    have e2 := h.get hx s hsh j
    rw [a.T_of_ne_pos ps, a.scalars _ hsc] at e1
    rw [a.T_of_ne_pos px] at e2
    simp only [evalInstr, e1, e2, RepAction.T]
    simp [a.mul]
  | scale c x =>
    obtain ⟨τx, hx, px, rfl⟩ := inv_scale hτ
    intro s hsh j
    have e1 := h.get hx s hsh j
    rw [a.T_of_ne_pos px] at e1
    simp only [evalInstr, e1, RepAction.T]
    simp
  | mapInv name n args =>
    obtain ⟨s', l, rfl, hargs⟩ := inv_mapInv hτ
    intro s hsh j
    cases hsh
    simp only [evalInstr, RepAction.T]
    rw [argRows_inv a h j hargs]
    simp [a.scalars (scalars n) (by simp [scalars, isScalars, E3nnVerif.Model.Irreps.Irrep.isScalar])]
  | prim name ins out args =>
    obtain ⟨s', l, rfl, hargs⟩ := inv_prim hτ
    intro s hsh j
    cases hsh
    obtain ⟨e1, e2⟩ := argRows_prim a h j hargs
    simp only [evalInstr, RepAction.T, e1]
    simpa using hP _ e2

/-- **E(3)-soundness.**  For every well-typed program `p`: if the inputs of the second evaluation are the moved
inputs of the first, and every declared primitive of `p` is equivariant as declared, then EVERY variable of the
second evaluation is the moved variable of the first (positions affinely, features by their declared irreps). -/
theorem e3_sound (Γ : Graph N E G) (a : RepAction F S) (inp inp' : Nat → Val N E G F)
    (p : Prog) (tys : List Ty) (hc : check p = some tys)
    (hP : ∀ i ∈ p, E3Hyp a inp inp' i)
    (k : Var) (τ : Ty) (hk : tys[k]? = some τ) :
    a.Rel τ (getV (eval Γ S inp p) k) (getV (eval Γ S inp' p) k) :=
  fundamental_closed Γ Γ S S inp inp' (a.Rel) (E3Hyp a inp inp')
    (fun tys v v' i τ hPi hτ h => e3_step Γ a inp inp' tys v v' i τ hPi hτ h) p tys hP hc k τ hk

end E3nnVerif.Dataflow
