import E3nnVerif.Theory.PermBasic
import Mathlib.Tactic.Ring
/-
The factorial number system of perm.py: `from_int` / `to_int` are mutually inverse bijections
`[0, n!) ↔ S_n`; `group n` enumerates S_n without repetition.
-/
namespace E3nnVerif.PermModel

theorem fact_pos (n : ℕ) : 0 < fact n := by
  induction n with
  | zero => simp [fact]
  | succ n ih => simp [fact]; exact ih

theorem fact_succ (n : ℕ) : fact (n + 1) = (n + 1) * fact n := rfl

theorem emod_toNat_lt (i : ℤ) (k : ℕ) : (i % ((k + 1 : ℕ) : ℤ)).toNat < k + 1 := by
  have h1 := Int.emod_lt_of_pos i (b := ((k + 1 : ℕ) : ℤ)) (by omega)
  have h2 := Int.emod_nonneg i (b := ((k + 1 : ℕ) : ℤ)) (by omega)
  generalize i % ((k + 1 : ℕ) : ℤ) = r at h1 h2
  push_cast at h1
  omega

theorem fromIntAux_succ (k : ℕ) (i : ℤ) (pool : List ℕ) :
    fromIntAux (k + 1) i pool =
      pool.getD (i % ((k + 1 : ℕ) : ℤ)).toNat 0 ::
        fromIntAux k (i / ((k + 1 : ℕ) : ℤ)) (pool.eraseIdx (i % ((k + 1 : ℕ) : ℤ)).toNat) := rfl

theorem length_fromIntAux (k : ℕ) (i : ℤ) (pool : List ℕ) : (fromIntAux k i pool).length = k := by
  induction k generalizing i pool with
  | zero => rfl
  | succ k ih => rw [fromIntAux_succ, List.length_cons, ih]

@[simp] theorem length_fromInt (i : ℤ) (n : ℕ) : (fromInt i n).length = n := length_fromIntAux _ _ _

/-- `from_int` draws without replacement from the pool: the result is a rearrangement of the pool,
    for EVERY python int `i` (also negative or ≥ n!) -/
theorem fromIntAux_perm (k : ℕ) (i : ℤ) (pool : List ℕ) (h : pool.length = k) :
    (fromIntAux k i pool).Perm pool := by
  induction k generalizing i pool with
  | zero =>
    have : pool = [] := List.length_eq_zero_iff.1 h
    subst this; exact List.Perm.refl _
  | succ k ih =>
    rw [fromIntAux_succ]
    have hj := emod_toNat_lt i k
    set j := (i % ((k + 1 : ℕ) : ℤ)).toNat with hjdef
    have hj' : j < pool.length := by omega
    rw [getD_of_lt hj']
    have hlen : (pool.eraseIdx j).length = k := by rw [List.length_eraseIdx_of_lt hj']; omega
    exact ((ih _ _ hlen).cons _).trans (List.getElem_cons_eraseIdx_perm hj')

theorem isPerm_fromInt (i : ℤ) (n : ℕ) : IsPerm (fromInt i n) := by
  unfold IsPerm
  rw [length_fromInt]
  exact fromIntAux_perm n i _ (by simp)

theorem toIntLoop_cons (pool : List ℕ) (a m x : ℕ) (rest : List ℕ) (hx : x ∈ pool) :
    toIntLoop pool a m (x :: rest) =
      toIntLoop (pool.eraseIdx (pool.idxOf x)) (a + pool.idxOf x * m) (m * pool.length) rest := by
  simp [toIntLoop, hx]

/-- `to_int ∘ from_int = id` on `[0, k!)`, for the loop with arbitrary accumulator state -/
theorem toIntLoop_fromIntAux (k : ℕ) (j : ℕ) (pool : List ℕ) (a m : ℕ) (hlen : pool.length = k)
    (hnd : pool.Nodup) (hj : j < fact k) :
    toIntLoop pool a m (fromIntAux k (j : ℤ) pool) = .ok (a + m * j) := by
  induction k generalizing j pool a m with
  | zero =>
    simp [fact] at hj
    subst hj
    simp [fromIntAux, toIntLoop]
  | succ k ih =>
    rw [fromIntAux_succ]
    have e1 : ((j : ℤ) % ((k + 1 : ℕ) : ℤ)).toNat = j % (k + 1) := by
      rw [← Int.natCast_mod, Int.toNat_natCast]
    have e2 : ((j : ℤ) / ((k + 1 : ℕ) : ℤ)) = ((j / (k + 1) : ℕ) : ℤ) := by
      rw [Int.natCast_div]
    rw [e1, e2]
    have hjj : j % (k + 1) < pool.length := by rw [hlen]; exact Nat.mod_lt _ (by omega)
    rw [getD_of_lt hjj]
    have hidx : pool.idxOf pool[j % (k + 1)] = j % (k + 1) := hnd.idxOf_getElem _ hjj
    rw [toIntLoop_cons _ _ _ _ _ (List.getElem_mem hjj), hidx]
    have hlen' : (pool.eraseIdx (j % (k + 1))).length = k := by
      rw [List.length_eraseIdx_of_lt hjj]; omega
    have hnd' : (pool.eraseIdx (j % (k + 1))).Nodup := hnd.sublist (List.eraseIdx_sublist _ _)
    have hdiv : j / (k + 1) < fact k := by
      apply Nat.div_lt_of_lt_mul
      rw [fact_succ] at hj; exact hj
    rw [ih _ _ _ _ hlen' hnd' hdiv, hlen]
    congr 1
    conv_rhs => rw [← Nat.div_add_mod j (k + 1)]
    ring

/-- `from_int ∘ to_int = id` on rearrangements of the pool; `to_int` lands in `[0, k!)` -/
theorem fromIntAux_toIntLoop (p : List ℕ) (pool : List ℕ) (a m : ℕ) (hnd : pool.Nodup) (hp : p.Perm pool) :
    ∃ v, v < fact pool.length ∧ toIntLoop pool a m p = .ok (a + m * v) ∧
      fromIntAux pool.length (v : ℤ) pool = p := by
  induction p generalizing pool a m with
  | nil =>
    have : pool = [] := hp.symm.eq_nil
    subst this
    exact ⟨0, by simp [fact], by simp [toIntLoop], rfl⟩
  | cons x rest ih =>
    have hx : x ∈ pool := hp.subset (List.mem_cons_self)
    have hk0 : pool.idxOf x < pool.length := List.idxOf_lt_length_iff.2 hx
    set k0 := pool.idxOf x with hk0def
    have hget : pool[k0] = x := List.getElem_idxOf hk0
    obtain ⟨k, hk⟩ : ∃ k, pool.length = k + 1 := ⟨pool.length - 1, by omega⟩
    have hperm' : rest.Perm (pool.eraseIdx k0) := by
      have h1 : (x :: rest).Perm (pool[k0] :: pool.eraseIdx k0) :=
        hp.trans (List.getElem_cons_eraseIdx_perm hk0).symm
      rw [hget] at h1
      exact h1.cons_inv
    have hnd' : (pool.eraseIdx k0).Nodup := hnd.sublist (List.eraseIdx_sublist _ _)
    have hlen' : (pool.eraseIdx k0).length = k := by rw [List.length_eraseIdx_of_lt hk0]; omega
    obtain ⟨v', hv', hloop, hfrom⟩ := ih (pool.eraseIdx k0) (a + k0 * m) (m * pool.length) hnd' hperm'
    rw [hlen'] at hv' hfrom
    refine ⟨k0 + (k + 1) * v', ?_, ?_, ?_⟩
    · rw [hk, fact_succ]
      have : (k + 1) * (v' + 1) ≤ (k + 1) * fact k := Nat.mul_le_mul_left _ hv'
      have h2 : (k + 1) * (v' + 1) = (k + 1) * v' + (k + 1) := by ring
      omega
    · rw [toIntLoop_cons _ _ _ _ _ hx, hloop, hk]
      congr 1; ring
    · rw [hk, fromIntAux_succ]
      have e1 : (((k0 + (k + 1) * v' : ℕ) : ℤ) % ((k + 1 : ℕ) : ℤ)).toNat = k0 := by
        rw [← Int.natCast_mod, Int.toNat_natCast, Nat.add_mul_mod_self_left]
        exact Nat.mod_eq_of_lt (by omega)
      have e2 : (((k0 + (k + 1) * v' : ℕ) : ℤ) / ((k + 1 : ℕ) : ℤ)) = ((v' : ℕ) : ℤ) := by
        rw [← Int.natCast_div, Nat.add_mul_div_left _ _ (by omega : 0 < k + 1),
          Nat.div_eq_of_lt (by omega), Nat.zero_add]
      rw [e1, e2, getD_of_lt hk0, hget, hfrom]

/-- `to_int` only succeeds on sub-rearrangements of the pool -/
theorem subperm_of_toIntLoop_ok (p pool : List ℕ) (a m v : ℕ) (h : toIntLoop pool a m p = .ok v) :
    p.Subperm pool := by
  induction p generalizing pool a m with
  | nil => exact List.nil_subperm
  | cons x rest ih =>
    by_cases hx : x ∈ pool
    · rw [toIntLoop_cons _ _ _ _ _ hx] at h
      have h1 := ih _ _ _ h
      have hk0 : pool.idxOf x < pool.length := List.idxOf_lt_length_iff.2 hx
      have h2 : (x :: rest).Subperm (x :: pool.eraseIdx (pool.idxOf x)) := List.subperm_cons x |>.2 h1
      have h3 : (pool[pool.idxOf x] :: pool.eraseIdx (pool.idxOf x)).Perm pool :=
        List.getElem_cons_eraseIdx_perm hk0
      rw [List.getElem_idxOf hk0] at h3
      exact h2.trans h3.subperm
    · simp [toIntLoop, hx] at h

/-- `from_int` only depends on `i mod k!` (python ints: negative or large `i` wrap around) -/
theorem fromIntAux_add_mul (k : ℕ) (i t : ℤ) (pool : List ℕ) :
    fromIntAux k (i + (fact k : ℤ) * t) pool = fromIntAux k i pool := by
  induction k generalizing i t pool with
  | zero => rfl
  | succ k ih =>
    rw [fromIntAux_succ, fromIntAux_succ]
    have hne : ((k + 1 : ℕ) : ℤ) ≠ 0 := by omega
    have e : i + ((fact (k + 1) : ℕ) : ℤ) * t = i + ((k + 1 : ℕ) : ℤ) * ((fact k : ℤ) * t) := by
      rw [fact_succ]; push_cast; ring
    rw [e, Int.add_mul_emod_self_left, Int.add_mul_ediv_left _ _ hne, ih]

theorem fromInt_emod (i : ℤ) (n : ℕ) : fromInt (i % (fact n : ℤ)) n = fromInt i n := by
  unfold fromInt
  conv_rhs => rw [← Int.emod_add_mul_ediv i (fact n : ℤ)]
  rw [fromIntAux_add_mul]

/-- the only exception `to_int` can raise is ValueError -/
theorem toIntLoop_error (p pool : List ℕ) (a m : ℕ) (e : Err) (h : toIntLoop pool a m p = .error e) : e = .value := by
  induction p generalizing pool a m with
  | nil => simp [toIntLoop] at h
  | cons x rest ih =>
    by_cases hx : x ∈ pool
    · rw [toIntLoop_cons _ _ _ _ _ hx] at h; exact ih _ _ _ h
    · simp [toIntLoop, hx] at h; exact h.symm

/-! ### the statements about `fromInt`, `toInt`, `group` -/

theorem toInt_fromInt (n i : ℕ) (h : i < fact n) : toInt (fromInt (i : ℤ) n) = .ok i := by
  unfold toInt fromInt
  rw [length_fromIntAux]
  have := toIntLoop_fromIntAux n i (List.range n) 0 1 (by simp) List.nodup_range h
  simpa using this

theorem fromInt_toInt {p : List ℕ} (hp : IsPerm p) :
    ∃ i, toInt p = .ok i ∧ i < fact p.length ∧ fromInt (i : ℤ) p.length = p := by
  obtain ⟨v, hv, h1, h2⟩ := fromIntAux_toIntLoop p (List.range p.length) 0 1 List.nodup_range hp
  simp only [List.length_range] at hv h2
  exact ⟨v, by simpa [toInt] using h1, hv, h2⟩

theorem isPerm_of_toInt_ok {p : List ℕ} {v : ℕ} (h : toInt p = .ok v) : IsPerm p :=
  (subperm_of_toIntLoop_ok p _ _ _ _ h).perm_of_length_le (by simp)

theorem mem_group {n : ℕ} {p : List ℕ} : p ∈ group n ↔ IsPerm p ∧ p.length = n := by
  unfold group
  simp only [List.mem_map, List.mem_range]
  constructor
  · rintro ⟨i, _, rfl⟩
    exact ⟨isPerm_fromInt _ _, length_fromInt _ _⟩
  · rintro ⟨hp, rfl⟩
    obtain ⟨i, _, hi, h⟩ := fromInt_toInt hp
    exact ⟨i, hi, h⟩

theorem nodup_group (n : ℕ) : (group n).Nodup := by
  unfold group
  apply List.Nodup.map_on _ List.nodup_range
  intro i hi j hj e
  have h1 := toInt_fromInt n i (List.mem_range.1 hi)
  have h2 := toInt_fromInt n j (List.mem_range.1 hj)
  simp only [Int.ofNat_eq_natCast] at e
  rw [e, h2] at h1
  exact (Except.ok.inj h1).symm

@[simp] theorem length_group (n : ℕ) : (group n).length = fact n := by simp [group]

end E3nnVerif.PermModel
