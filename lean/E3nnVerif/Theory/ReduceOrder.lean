import E3nnVerif.Model.Reduce
import Mathlib.Data.List.Basic
import Mathlib.Data.List.Nodup
import Mathlib.Data.List.Perm.Basic
import Mathlib.Tactic.Ring
/-
Order-theoretic helper lemmas for the model of `reduce_permutation`:
the boolean comparison functions `ltList`, `ltEntry`, `lexLt lt` of `Model/Reduce.lean` (python's ordering
of tuples / lists) are strict total orders, `sortBy lt` (python's `sorted`) returns a rearrangement of its
argument that depends only on the multiset of its argument, `canonPair` depends only on the set `{xs, -xs}`,
and `pickMax` returns a member of its argument.
-/
namespace E3nnVerif.ReduceModel
open E3nnVerif.PermModel

/-- a boolean comparison function that is a strict total order -/
structure StrictTotal {α : Type} (lt : α → α → Bool) : Prop where
  irrefl : ∀ a, lt a a = false
  trans : ∀ a b c, lt a b = true → lt b c = true → lt a c = true
  tri : ∀ a b, lt a b = false → lt b a = false → a = b

theorem StrictTotal.asymm {α : Type} {lt : α → α → Bool} (h : StrictTotal lt) {a b : α}
    (hab : lt a b = true) : lt b a = false := by
  cases hba : lt b a with
  | false => rfl
  | true =>
    have := h.trans a b a hab hba
    rw [h.irrefl a] at this
    cases this

/-- transitivity of the associated non-strict order `a ≤ b :⇔ ¬ b < a` -/
theorem StrictTotal.le_trans {α : Type} {lt : α → α → Bool} (h : StrictTotal lt) {a b c : α}
    (hab : lt b a = false) (hbc : lt c b = false) : lt c a = false := by
  cases hca : lt c a with
  | false => rfl
  | true =>
    cases hbc' : lt b c with
    | true =>
      have := h.trans b c a hbc' hca
      rw [hab] at this
      cases this
    | false =>
      have e : c = b := h.tri c b hbc hbc'
      subst e
      rw [hab] at hca
      cases hca

/-! ### the concrete comparison functions -/

theorem strictTotal_natLt : StrictTotal (fun a b : ℕ => decide (a < b)) where
  irrefl a := by simp
  trans a b c h1 h2 := by
    simp only [decide_eq_true_eq] at h1 h2 ⊢
    omega
  tri a b h1 h2 := by
    simp only [decide_eq_false_iff_not] at h1 h2
    omega

theorem strictTotal_lexLt {α : Type} [DecidableEq α] {lt : α → α → Bool} (h : StrictTotal lt) :
    StrictTotal (lexLt lt) where
  irrefl l := by
    induction l with
    | nil => rfl
    | cons a l ih => simp [lexLt, h.irrefl a, ih]
  trans l₁ := by
    induction l₁ with
    | nil =>
      intro l₂ l₃ h1 h2
      cases l₂ with
      | nil => simp [lexLt] at h1
      | cons b l₂ =>
        cases l₃ with
        | nil => simp [lexLt] at h2
        | cons c l₃ => rfl
    | cons a l₁ ih =>
      intro l₂ l₃ h1 h2
      cases l₂ with
      | nil => simp [lexLt] at h1
      | cons b l₂ =>
        cases l₃ with
        | nil => simp [lexLt] at h2
        | cons c l₃ =>
          simp only [lexLt, Bool.or_eq_true, Bool.and_eq_true, beq_iff_eq] at h1 h2 ⊢
          rcases h1 with h1 | ⟨rfl, h1⟩
          · rcases h2 with h2 | ⟨rfl, h2⟩
            · exact Or.inl (h.trans _ _ _ h1 h2)
            · exact Or.inl h1
          · rcases h2 with h2 | ⟨rfl, h2⟩
            · exact Or.inl h2
            · exact Or.inr ⟨rfl, ih _ _ h1 h2⟩
  tri l₁ := by
    induction l₁ with
    | nil =>
      intro l₂ h1 h2
      cases l₂ with
      | nil => rfl
      | cons b l₂ => simp [lexLt] at h1
    | cons a l₁ ih =>
      intro l₂ h1 h2
      cases l₂ with
      | nil => simp [lexLt] at h2
      | cons b l₂ =>
        simp only [lexLt, Bool.or_eq_false_iff, Bool.and_eq_false_iff, beq_eq_false_iff_ne] at h1 h2
        have e : a = b := h.tri a b h1.1 h2.1
        subst e
        have e1 : lexLt lt l₁ l₂ = false := by
          rcases h1.2 with h | h
          · exact absurd rfl h
          · exact h
        have e2 : lexLt lt l₂ l₁ = false := by
          rcases h2.2 with h | h
          · exact absurd rfl h
          · exact h
        rw [ih l₂ e1 e2]

theorem ltList_eq_lexLt (l₁ l₂ : List ℕ) : ltList l₁ l₂ = lexLt (fun a b : ℕ => decide (a < b)) l₁ l₂ := by
  induction l₁ generalizing l₂ with
  | nil => cases l₂ <;> rfl
  | cons a l₁ ih =>
    cases l₂ with
    | nil => rfl
    | cons b l₂ =>
      simp only [ltList, lexLt, ih]

theorem strictTotal_ltList : StrictTotal ltList := by
  have : ltList = lexLt (fun a b : ℕ => decide (a < b)) := by
    funext l₁ l₂; exact ltList_eq_lexLt l₁ l₂
  rw [this]
  exact strictTotal_lexLt strictTotal_natLt

theorem strictTotal_ltEntry : StrictTotal ltEntry where
  irrefl a := by
    simp [ltEntry, strictTotal_ltList.irrefl]
  trans a b c h1 h2 := by
    simp only [ltEntry, Bool.or_eq_true, Bool.and_eq_true, beq_iff_eq, decide_eq_true_eq] at h1 h2 ⊢
    rcases h1 with h1 | ⟨e1, h1⟩
    · rcases h2 with h2 | ⟨e2, h2⟩
      · exact Or.inl (lt_trans h1 h2)
      · exact Or.inl (e2 ▸ h1)
    · rcases h2 with h2 | ⟨e2, h2⟩
      · exact Or.inl (e1 ▸ h2)
      · exact Or.inr ⟨e1.trans e2, strictTotal_ltList.trans _ _ _ h1 h2⟩
  tri a b h1 h2 := by
    simp only [ltEntry, Bool.or_eq_false_iff, Bool.and_eq_false_iff, beq_eq_false_iff_ne,
      decide_eq_false_iff_not] at h1 h2
    have e : a.1 = b.1 := le_antisymm (not_lt.1 h2.1) (not_lt.1 h1.1)
    have e1 : ltList a.2 b.2 = false := by
      rcases h1.2 with h | h
      · exact absurd e h
      · exact h
    have e2 : ltList b.2 a.2 = false := by
      rcases h2.2 with h | h
      · exact absurd e.symm h
      · exact h
    exact Prod.ext e (strictTotal_ltList.tri _ _ e1 e2)

theorem strictTotal_lexLt_ltEntry : StrictTotal (lexLt ltEntry) := strictTotal_lexLt strictTotal_ltEntry

/-! ### `sortBy` -/

section SortBy
variable {α : Type}

theorem perm_insertBy (lt : α → α → Bool) (x : α) (l : List α) : (insertBy lt x l).Perm (x :: l) := by
  induction l with
  | nil => exact List.Perm.refl _
  | cons y ys ih =>
    unfold insertBy
    split_ifs
    · exact List.Perm.refl _
    · exact (List.Perm.cons y ih).trans (List.Perm.swap x y ys)

theorem sortBy_cons (lt : α → α → Bool) (x : α) (l : List α) :
    sortBy lt (x :: l) = insertBy lt x (sortBy lt l) := rfl

/-- `sorted(l)` is a rearrangement of `l` -/
theorem perm_sortBy (lt : α → α → Bool) (l : List α) : (sortBy lt l).Perm l := by
  induction l with
  | nil => exact List.Perm.refl _
  | cons x l ih =>
    rw [sortBy_cons]
    exact (perm_insertBy lt x _).trans (List.Perm.cons x ih)

theorem mem_sortBy {lt : α → α → Bool} {l : List α} {a : α} : a ∈ sortBy lt l ↔ a ∈ l :=
  (perm_sortBy lt l).mem_iff

theorem nodup_sortBy {lt : α → α → Bool} {l : List α} : (sortBy lt l).Nodup ↔ l.Nodup :=
  (perm_sortBy lt l).nodup_iff

theorem length_sortBy (lt : α → α → Bool) (l : List α) : (sortBy lt l).length = l.length :=
  (perm_sortBy lt l).length_eq

theorem pairwise_insertBy {lt : α → α → Bool} (h : StrictTotal lt) (x : α) {l : List α}
    (hl : l.Pairwise fun a b => lt b a = false) :
    (insertBy lt x l).Pairwise fun a b => lt b a = false := by
  induction l with
  | nil => simp [insertBy]
  | cons y ys ih =>
    unfold insertBy
    rw [List.pairwise_cons] at hl
    split_ifs with hxy
    · refine List.pairwise_cons.2 ⟨?_, List.pairwise_cons.2 hl⟩
      intro b hb
      rcases List.mem_cons.1 hb with rfl | hb
      · exact h.asymm hxy
      · exact h.le_trans (h.asymm hxy) (hl.1 b hb)
    · refine List.pairwise_cons.2 ⟨?_, ih hl.2⟩
      intro b hb
      rcases List.mem_cons.1 ((perm_insertBy lt x ys).mem_iff.1 hb) with rfl | hb
      · exact Bool.eq_false_iff.2 hxy
      · exact hl.1 b hb

theorem pairwise_sortBy {lt : α → α → Bool} (h : StrictTotal lt) (l : List α) :
    (sortBy lt l).Pairwise fun a b => lt b a = false := by
  induction l with
  | nil => exact List.Pairwise.nil
  | cons x l ih =>
    rw [sortBy_cons]
    exact pairwise_insertBy h x ih

/-- `sorted` depends only on the multiset of its argument -/
theorem sortBy_congr {lt : α → α → Bool} (h : StrictTotal lt) {l₁ l₂ : List α} (hp : l₁.Perm l₂) :
    sortBy lt l₁ = sortBy lt l₂ := by
  refine List.Perm.eq_of_pairwise (le := fun a b => lt b a = false) ?_ (pairwise_sortBy h l₁)
    (pairwise_sortBy h l₂) (((perm_sortBy lt l₁).trans hp).trans (perm_sortBy lt l₂).symm)
  intro a b _ _ h1 h2
  exact h.tri a b h2 h1

end SortBy

/-! ### `negRow`, `canonPair`, `pickMax` -/

theorem mem_negRow {xs : List Entry} {e : Entry} : e ∈ negRow xs ↔ (-e.1, e.2) ∈ xs := by
  unfold negRow
  rw [List.mem_map]
  constructor
  · rintro ⟨e', he', rfl⟩
    simpa using he'
  · intro h
    exact ⟨(-e.1, e.2), h, by simp⟩

theorem negRow_negRow (xs : List Entry) : negRow (negRow xs) = xs := by
  unfold negRow
  rw [List.map_map]
  conv_rhs => rw [← List.map_id xs]
  apply List.map_congr_left
  intro e _
  simp

theorem nodup_negRow {xs : List Entry} (h : xs.Nodup) : (negRow xs).Nodup := by
  unfold negRow
  apply List.Nodup.map_on _ h
  intro a _ b _ hab
  simp only [Prod.mk.injEq, neg_inj] at hab
  exact Prod.ext hab.1 hab.2

theorem length_negRow (xs : List Entry) : (negRow xs).length = xs.length := by
  simp [negRow]

/-- `canonPair` depends only on the multiset of its argument -/
theorem canonPair_congr {xs ys : List Entry} (hp : xs.Perm ys) : canonPair xs = canonPair ys := by
  unfold canonPair
  rw [sortBy_congr strictTotal_ltEntry hp,
    sortBy_congr strictTotal_ltEntry (show (negRow xs).Perm (negRow ys) from hp.map _)]

/-- `canonPair` is symmetric under the global sign flip: it encodes the set `{xs, -xs}` -/
theorem canonPair_negRow (xs : List Entry) : canonPair (negRow xs) = canonPair xs := by
  unfold canonPair
  rw [negRow_negRow]
  simp only
  by_cases hab : sortBy ltEntry xs = sortBy ltEntry (negRow xs)
  · rw [if_pos hab, if_pos hab.symm, hab]
  · rw [if_neg hab, if_neg (fun h => hab h.symm)]
    cases h1 : lexLt ltEntry (sortBy ltEntry xs) (sortBy ltEntry (negRow xs)) with
    | true =>
      have h2 := strictTotal_lexLt_ltEntry.asymm h1
      simp [h2]
    | false =>
      cases h2 : lexLt ltEntry (sortBy ltEntry (negRow xs)) (sortBy ltEntry xs) with
      | true => simp
      | false => exact absurd (strictTotal_lexLt_ltEntry.tri _ _ h1 h2) hab

/-- the members of `canonPair xs` are `sorted(xs)` and `sorted(-xs)` -/
theorem mem_canonPair {xs : List Entry} {r : Row} :
    r ∈ canonPair xs ↔ r = sortBy ltEntry xs ∨ r = sortBy ltEntry (negRow xs) := by
  unfold canonPair
  simp only
  split_ifs with h1 h2
  · rw [List.mem_singleton, ← h1, or_self]
  · simp
  · simp [or_comm]

theorem canonPair_ne_nil (xs : List Entry) : canonPair xs ≠ [] := by
  unfold canonPair
  simp only
  split_ifs <;> simp

/-- python's `max(·, key=…)` returns a member of a non-empty list -/
theorem pickMax_mem {l : List Row} (h : l ≠ []) : pickMax l ∈ l := by
  cases l with
  | nil => exact absurd rfl h
  | cons r rs =>
    show rs.foldl (fun best c => if signSum c > signSum best then c else best) r ∈ r :: rs
    suffices H : ∀ (rs : List Row) (b : Row), rs.foldl (fun best c => if signSum c > signSum best then c else best) b = b ∨
        rs.foldl (fun best c => if signSum c > signSum best then c else best) b ∈ rs by
      rcases H rs r with e | e
      · rw [e]; exact List.mem_cons_self
      · exact List.mem_cons_of_mem _ e
    intro rs
    induction rs with
    | nil => intro b; exact Or.inl rfl
    | cons c rs ih =>
      intro b
      rw [List.foldl_cons]
      rcases ih (if signSum c > signSum b then c else b) with e | e
      · rw [e]
        split_ifs
        · exact Or.inr List.mem_cons_self
        · exact Or.inl rfl
      · exact Or.inr (List.mem_cons_of_mem _ e)

/-- the row chosen from `canonPair xs` is `sorted(xs)` or `sorted(-xs)` -/
theorem pickMax_canonPair (xs : List Entry) :
    pickMax (canonPair xs) = sortBy ltEntry xs ∨ pickMax (canonPair xs) = sortBy ltEntry (negRow xs) :=
  mem_canonPair.1 (pickMax_mem (canonPair_ne_nil xs))

end E3nnVerif.ReduceModel
