import Mathlib.Algebra.BigOperators.Group.List.Basic
import E3nnVerif.Sound.Tensor
import E3nnVerif.Theory.PolyWF
import E3nnVerif.Theory.TPIntrospect
/-
Exact moments of polynomials in independent centred Gaussian variables (C07).

`Expectation var` is the abstract notion of "taking the expectation when variable `v` is a centred Gaussian of
variance `var v`, all variables independent": a functional `E` on functions of the variables which is additive and
homogeneous on polynomial functions and whose mixed moments up to total order 6 are the Gaussian ones
(`E ∏ z_v^{e_v} = ∏ M(var v, e_v)`, `M(s,0)=1, M(s,2)=s, M(s,4)=3s², M(s,6)=15s³`, odd moments 0 — `monoExpect`).
These are HYPOTHESES on `E` (structure fields), not axioms; integration against a product Gaussian measure satisfies
them (polynomials are integrable; not constructed here).  `Expectation.dirac` is an instance for zero variances.

`E_poly` : for every kernel polynomial `p` (monomials sorted, degree ≤ 6) `E[p] = eval (polyExpect var p)`;
`E_sq`   : `E[p²] = eval (polyExpect var (p * p))`.
-/
namespace E3nnVerif.Model.TP
open E3nnVerif.Exact E3nnVerif.IR E3nnVerif.Exact.AList

/-- `f` is the function of a kernel polynomial -/
def IsPolyFun (f : (ℕ → ℝ) → ℝ) : Prop := ∃ p : Poly, ∀ env, f env = Poly.eval env p

theorem isPolyFun_eval (p : Poly) : IsPolyFun (fun env => Poly.eval env p) := ⟨p, fun _ => rfl⟩
theorem isPolyFun_term (m : Mono) (cf : SqrtQ) : IsPolyFun (fun env => cf.eval * Mono.eval env m) :=
  ⟨[(m, cf)], fun env => by simp [Poly.eval, Poly.termVal]⟩
theorem isPolyFun_mono (m : Mono) : IsPolyFun (fun env => Mono.eval env m) :=
  ⟨[(m, SqrtQ.one)], fun env => by simp [Poly.eval, Poly.termVal]⟩

/-- an expectation under which the variables are independent centred Gaussians with variances `var`
    (as far as moments of total order ≤ 6 of polynomial functions can tell) -/
structure Expectation (var : ℕ → Q) where
  E : ((ℕ → ℝ) → ℝ) → ℝ
  /-- additive on polynomial functions -/
  E_add : ∀ f g, IsPolyFun f → IsPolyFun g → E (fun env => f env + g env) = E f + E g
  /-- homogeneous on polynomial functions -/
  E_smul : ∀ (r : ℝ) f, IsPolyFun f → E (fun env => r * f env) = r * E f
  /-- independence + Gaussian moments: the expectation of a monomial of total degree ≤ 6 is the product of the
      one-variable Gaussian moments (`monoExpect_eval`, `Mono.eval_runs`, `moment_eval_*`) -/
  E_mono : ∀ m : Mono, Mono.Sorted m → m.length ≤ 6 → E (fun env => Mono.eval env m) = (monoExpect var m).eval

/-! ### what `monoExpect` computes -/

theorem runs_cons_ne_nil (v : ℕ) (t : Mono) : runs (v :: t) ≠ [] := by
  unfold runs
  cases runs t with
  | nil => simp
  | cons h r => obtain ⟨w, e⟩ := h; simp only; split <;> simp

theorem runs_pos : ∀ (m : Mono), ∀ ve ∈ runs m, 1 ≤ ve.2
  | [], ve, h => by simp [runs] at h
  | v :: t, ve, h => by
    unfold runs at h
    have ih := runs_pos t
    cases hr : runs t with
    | nil => rw [hr] at h; simp only [List.mem_singleton] at h; subst h; exact Nat.le_refl 1
    | cons hd r =>
      obtain ⟨w, e⟩ := hd
      rw [hr] at h ih
      simp only at h
      split at h
      · rcases List.mem_cons.mp h with rfl | h'
        · exact Nat.succ_le_succ (Nat.zero_le _)
        · exact ih ve (List.mem_cons_of_mem _ h')
      · rcases List.mem_cons.mp h with rfl | h'
        · exact Nat.le_refl 1
        · exact ih ve h'

theorem runs_cons (v : ℕ) (t : Mono) : runs (v :: t) =
    match runs t with
    | (w, e) :: r => if v == w then (w, e + 1) :: r else (v, 1) :: (w, e) :: r
    | [] => [(v, 1)] := by
  rw [runs]; rcases runs t with _ | ⟨⟨w, e⟩, r⟩ <;> rfl

/-- a monomial is the product of the powers of its runs -/
theorem Mono.eval_runs (env : ℕ → ℝ) : ∀ m : Mono, Mono.eval env m = ((runs m).map fun ve => env ve.1 ^ ve.2).prod
  | [] => by simp [runs]
  | v :: t => by
    rw [Mono.eval_cons, Mono.eval_runs env t, runs_cons]
    cases hr : runs t with
    | nil => simp
    | cons hd r =>
      obtain ⟨w, e⟩ := hd
      simp only
      split
      · rename_i hvw
        have : v = w := by simpa using hvw
        subst this
        simp only [List.map_cons, List.prod_cons, pow_succ]; ring
      · simp only [List.map_cons, List.prod_cons, pow_one]

theorem foldl_mul_eval (f : ℕ × ℕ → Q) (l : List (ℕ × ℕ)) (acc : Q) :
    (l.foldl (fun acc ve => Q.mul acc (f ve)) acc).eval = acc.eval * (l.map fun ve => (f ve).eval).prod := by
  induction l generalizing acc with
  | nil => simp
  | cons h t ih => simp only [List.foldl, ih, Q.eval_mul, List.map_cons, List.prod_cons]; ring

/-- `monoExpect` is the product of the one-variable moments over the runs -/
theorem monoExpect_eval (var : ℕ → Q) (m : Mono) :
    (monoExpect var m).eval = ((runs m).map fun ve => (moment (var ve.1) ve.2).eval).prod := by
  unfold monoExpect
  rw [foldl_mul_eval (fun ve => moment (var ve.1) ve.2)]; simp

theorem moment_eval_zero (s : Q) : (moment s 0).eval = 1 := by simp [moment]
theorem moment_eval_two (s : Q) : (moment s 2).eval = s.eval := by simp [moment]
theorem moment_eval_four (s : Q) : (moment s 4).eval = 3 * s.eval ^ 2 := by simp [moment]; ring
theorem moment_eval_six (s : Q) : (moment s 6).eval = 15 * s.eval ^ 3 := by simp [moment]; ring
theorem moment_eval_odd (s : Q) (e : ℕ) (h : e % 2 = 1) : (moment s e).eval = 0 := by
  unfold moment
  split <;> first | omega | simp

/-! ### consequences of the structure -/

namespace Expectation
variable {var : ℕ → Q} (Ex : Expectation var)

/-- **normalised** -/
theorem E_one : Ex.E (fun _ => 1) = 1 := by
  have := Ex.E_mono [] (by simp [Mono.Sorted]) (by simp)
  simpa [monoExpect, runs] using this

theorem E_zero : Ex.E (fun _ => 0) = 0 := by
  have := Ex.E_smul 0 (fun _ => 1) ⟨Poly.one, fun env => by simp⟩
  simpa using this

/-- the sum that `polyExpect` computes -/
theorem polyExpect_eval (var : ℕ → Q) (p : Poly) :
    (polyExpect var p).eval = sumBy (fun m cf => (monoExpect var m).eval * SqrtQ.eval cf) p := by
  unfold polyExpect
  have : ∀ acc : SqrtQ, SqrtQ.eval (p.foldl (fun acc t => acc + SqrtQ.scale (monoExpect var t.1) t.2) acc)
      = SqrtQ.eval acc + sumBy (fun m cf => (monoExpect var m).eval * SqrtQ.eval cf) p := by
    induction p with
    | nil => intro acc; simp
    | cons h t ih =>
      intro acc
      simp only [List.foldl, ih, sumBy_cons, SqrtQ.eval_hadd, SqrtQ.eval_scale]; ring
  rw [this]; simp

/-- **expectation of a polynomial**: linearity over the terms.  Terms with a syntactically zero coefficient are
    exempt from the side conditions. -/
theorem E_poly (p : Poly)
    (hp : ∀ t ∈ p, SqrtQ.isZero t.2 = true ∨ (Mono.Sorted t.1 ∧ t.1.length ≤ 6)) :
    Ex.E (fun env => Poly.eval env p) = (polyExpect var p).eval := by
  rw [polyExpect_eval]
  induction p with
  | nil => simpa [Poly.eval] using Ex.E_zero
  | cons t p' ih =>
    have hfun : (fun env => Poly.eval env (t :: p'))
        = fun env => (fun env => SqrtQ.eval t.2 * Mono.eval env t.1) env + (fun env => Poly.eval env p') env := by
      funext env; simp [Poly.eval, Poly.termVal]
    rw [hfun, Ex.E_add _ _ (isPolyFun_term _ _) (isPolyFun_eval _), Ex.E_smul _ _ (isPolyFun_mono _),
      ih (fun u hu => hp u (List.mem_cons_of_mem _ hu)), sumBy_cons]
    congr 1
    rcases hp t (List.mem_cons_self ..) with hz | ⟨hs, hl⟩
    · rw [SqrtQ.eval_of_isZero hz]; ring
    · rw [Ex.E_mono _ hs hl]; ring

/-- **second moment of a polynomial** -/
theorem E_sq (p : Poly) (hs : ∀ t ∈ p, Mono.Sorted t.1) (hl : ∀ t ∈ p, t.1.length ≤ 3) :
    Ex.E (fun env => (Poly.eval env p) ^ 2) = (polyExpect var (p * p)).eval := by
  have hfun : (fun env => (Poly.eval env p) ^ 2) = fun env => Poly.eval env (p * p) := by
    funext env; rw [Poly.eval_hmul]; ring
  rw [hfun]
  apply Ex.E_poly
  intro x hx
  right
  obtain ⟨t, ht, u, hu, he⟩ := Poly.mem_mul_key p p x hx
  rw [he]
  refine ⟨Mono.sorted_mul _ _ (hs u hu), ?_⟩
  rw [Mono.length_mul]
  have := hl t ht; have := hl u hu; omega

end Expectation

/-! ### an instance: all variances 0 — the Dirac mass at the origin -/

theorem monoExpect_zero_var {m : Mono} (hm : m ≠ []) : (monoExpect (fun _ => Q.zero) m).eval = 0 := by
  rw [monoExpect_eval]
  obtain ⟨v, t, rfl⟩ := List.exists_cons_of_ne_nil hm
  obtain ⟨ve, r, hr⟩ := List.exists_cons_of_ne_nil (runs_cons_ne_nil v t)
  rw [hr, List.map_cons, List.prod_cons]
  have hpos : 1 ≤ ve.2 := runs_pos (v :: t) ve (by rw [hr]; exact List.mem_cons_self ..)
  have : (moment Q.zero ve.2).eval = 0 := by
    unfold moment
    split <;> first | omega | simp
  rw [this]; ring

/-- the Dirac mass at `0` is an `Expectation` for zero variances: the structure is satisfiable -/
noncomputable def Expectation.dirac : Expectation (fun _ => Q.zero) where
  E f := f (fun _ => 0)
  E_add _ _ _ _ := rfl
  E_smul _ _ _ := rfl
  E_mono m _ _ := by
    cases m with
    | nil => simp [monoExpect, runs]
    | cons v t =>
      rw [monoExpect_zero_var (by simp)]
      simp

/-! ### meaning of `momentCheck` -/

theorem Q.eval_div (a b : Q) : (Q.div a b).eval = a.eval / b.eval := by
  unfold Q.div; rw [Q.eval_mul, Q.eval_inv, div_eq_mul_inv]

/-- the output variance the documentation promises for output component `k`: `out_var` of its block
    (divided by the irrep dimension under `'norm'`) -/
noncomputable def declaredVar (c : Cfg) (k : ℕ) : ℝ :=
  let e := locate c.out k
  let ov := (c.outVar.getD e.1 Q.one).eval
  if c.irrepNorm = 1 then ov / ((2 * (c.out.getD e.1 (0, 0)).2 + 1 : ℕ) : ℝ) else ov

theorem momentCheck_spec {c : Cfg} {polys : List Poly} (h : momentCheck c polys = true)
    (happ : momentApplies c = true) {k : ℕ} (hk : k < totalDim c.out) :
    (polyExpect (varOf c) (polys.getD k [] * polys.getD k [])).eval
      = if (polys.getD k []).isZero then 0 else declaredVar c k := by
  unfold momentCheck at h
  rw [happ] at h
  simp only [Bool.not_true, Bool.false_or] at h
  have := List.all_eq_true.mp h k (List.mem_range.mpr hk)
  split at this
  · rename_i hz
    rw [if_pos hz]; exact SqrtQ.eval_of_isZero this
  · rename_i hz
    rw [if_neg hz, SqrtQ.eval_eq_of_beq this, SqrtQ.eval_ofQ]
    unfold declaredVar
    simp only
    by_cases hn : c.irrepNorm = 1
    · simp [hn, Q.eval_div]
    · have : (c.irrepNorm == 1) = false := by simpa using hn
      simp [hn, this]

/-- the monomials of a placed polynomial have degree ≤ 3 -/
theorem placed_length_le {c : Cfg} {b k : ℕ} {p : Poly} (hwf : Poly.WF p)
    (hpl : ∀ tm ∈ p, tm.2.isZero = true ∨ monoPlaced c b k tm.1 = true) : ∀ t ∈ p, t.1.length ≤ 3 := by
  intro t ht
  rcases hpl t ht with hz | hp
  · rw [hwf.zeroKey t ht hz]; simp
  · obtain ⟨x, y, i, j, _, _, hrest⟩ := monoPlaced_spec hp
    rcases hrest with ⟨hperm, _⟩ | ⟨w, n, kk, _, hperm, _⟩
    · rw [hperm.length_eq]; simp
    · rw [hperm.length_eq]; simp

end E3nnVerif.Model.TP

/-! ### the documented normalisation coefficient `alpha` -/
namespace E3nnVerif.Model.TP
open E3nnVerif.Exact

theorem Q.lt_zero_iff (x : Q) : Q.lt Q.zero x = true ↔ 0 < x.eval := by
  constructor
  · intro h; simpa using Q.eval_lt h
  · intro h
    rw [Q.eval_def] at h
    have hd : (0 : ℝ) < (x.den : ℝ) := by have := Q.den_pos x; positivity
    have h1 : (0 : ℝ) < (x.n : ℝ) := by
      by_contra hle
      rw [not_lt] at hle
      have := div_nonpos_of_nonpos_of_nonneg hle hd.le
      linarith
    have h2 : 0 < x.n := by exact_mod_cast h1
    simp only [Q.lt, Q.zero, Q.den]
    simpa using h2

theorem qsum_eval (l : List Q) : (qsum l).eval = (l.map Q.eval).sum := by
  unfold qsum
  have : ∀ acc : Q, (l.foldl Q.add acc).eval = acc.eval + (l.map Q.eval).sum := by
    induction l with
    | nil => intro acc; simp
    | cons h t ih => intro acc; simp only [List.foldl, ih, Q.eval_add, List.map_cons, List.sum_cons]; ring
  rw [this]; simp

/-- dimension factor of the chosen irrep normalisation -/
def a0Q (c : Cfg) (p : Ins) : Q :=
  match c.irrepNorm with
  | 0 => Q.ofNat (2 * lO c p + 1)
  | 1 => Q.ofNat ((2 * l1 c p + 1) * (2 * l2 c p + 1))
  | _ => Q.one

/-- `in1_var · in2_var · num_elements` of a path -/
def vQ (c : Cfg) (q : Ins) : Q :=
  Q.mul (Q.mul (c.in1Var.getD q.i1 Q.one) (c.in2Var.getD q.i2 Q.one)) (Q.ofNat (numElements c q))

/-- the instructions that feed the same output block as `p` -/
def samePaths (c : Cfg) (p : Ins) : List Ins := c.ins.filter fun q => q.io == p.io

/-- the denominator of the chosen path normalisation -/
def xQ (c : Cfg) (p : Ins) : Q :=
  match c.pathNorm with
  | 0 => qsum ((samePaths c p).map (vQ c))
  | 1 => Q.mul (vQ c p) (Q.ofNat (samePaths c p).length)
  | _ => Q.one

theorem samePaths_io {c : Cfg} {p q : Ins} (hq : q ∈ samePaths c p) : q.io = p.io := by
  unfold samePaths at hq
  simpa using (List.mem_filter.mp hq).2

theorem samePaths_congr {c : Cfg} {p q : Ins} (h : q.io = p.io) : samePaths c q = samePaths c p := by
  unfold samePaths; rw [h]

theorem alpha_eq (c : Cfg) (p : Ins) : alpha c p =
    Q.mul (Q.mul (if Q.lt Q.zero (xQ c p) then Q.div (a0Q c p) (xQ c p) else a0Q c p)
      (c.outVar.getD p.io Q.one)) p.pw := rfl

/-- real dimension factor: `2l_out+1` (component), `(2l_1+1)(2l_2+1)` (norm), `1` (none) -/
noncomputable def dimFactor (c : Cfg) (p : Ins) : ℝ :=
  match c.irrepNorm with
  | 0 => ((2 * lO c p + 1 : ℕ) : ℝ)
  | 1 => (((2 * l1 c p + 1) * (2 * l2 c p + 1) : ℕ) : ℝ)
  | _ => 1

/-- real fan-in of a path: `in1_var · in2_var · num_elements` -/
noncomputable def fanIn (c : Cfg) (q : Ins) : ℝ :=
  (c.in1Var.getD q.i1 Q.one).eval * (c.in2Var.getD q.i2 Q.one).eval * (numElements c q : ℝ)

/-- real denominator: `Σ_{paths into the same output} fanIn` ('element'), `fanIn(p)·#paths` ('path'), `1` (none) -/
noncomputable def normDenominator (c : Cfg) (p : Ins) : ℝ :=
  match c.pathNorm with
  | 0 => ((samePaths c p).map (fanIn c)).sum
  | 1 => fanIn c p * ((samePaths c p).length : ℝ)
  | _ => 1

theorem a0Q_eval (c : Cfg) (p : Ins) : (a0Q c p).eval = dimFactor c p := by
  unfold a0Q dimFactor; split <;> simp

theorem vQ_eval (c : Cfg) (q : Ins) : (vQ c q).eval = fanIn c q := by
  unfold vQ fanIn; simp

theorem xQ_eval (c : Cfg) (p : Ins) : (xQ c p).eval = normDenominator c p := by
  unfold xQ normDenominator
  split
  · rw [qsum_eval, List.map_map]
    congr 1
    apply List.map_congr_left
    intro q _
    exact vQ_eval c q
  · simp [vQ_eval]
  · simp

/-- **the value of `alpha`** for every configuration -/
theorem alpha_eval (c : Cfg) (p : Ins) :
    (alpha c p).eval = (if 0 < normDenominator c p then dimFactor c p / normDenominator c p else dimFactor c p)
      * (c.outVar.getD p.io Q.one).eval * p.pw.eval := by
  rw [alpha_eq, Q.eval_mul, Q.eval_mul]
  congr 2
  by_cases h : 0 < normDenominator c p
  · have h' : Q.lt Q.zero (xQ c p) = true := (Q.lt_zero_iff _).mpr (by rw [xQ_eval]; exact h)
    rw [if_pos h', if_pos h, Q.eval_div, a0Q_eval, xQ_eval]
  · have h' : ¬ Q.lt Q.zero (xQ c p) = true := fun hh => h (by rw [← xQ_eval]; exact (Q.lt_zero_iff _).mp hh)
    rw [if_neg h', if_neg h, a0Q_eval]

end E3nnVerif.Model.TP
