import E3nnVerif.Theory.PermBasic
import E3nnVerif.Theory.Closure
import Mathlib.Dynamics.PeriodicPts.Defs
import Mathlib.Data.List.Rotate
import Mathlib.Data.List.Iterate
/-
perm.to_cycles: the inner loop computes the orbit of the start point under `p`; the outer loop collects
the orbits of length ≥ 2, rotated so that the minimum comes first.  The cycles are duplicate-free,
pairwise disjoint, follow `p`, and every point outside is fixed — so they reconstruct `p`.
-/
namespace E3nnVerif.PermModel

/-- `p` as a function on ℕ (identity outside `[0, len p)`) -/
def ap (p : List ℕ) (x : ℕ) : ℕ := if x < p.length then p.getD x 0 else x

theorem ap_of_lt {p : List ℕ} {x : ℕ} (h : x < p.length) : ap p x = p.getD x 0 := by simp [ap, h]

theorem ap_lt {p : List ℕ} (hp : IsPerm p) {x : ℕ} (h : x < p.length) : ap p x < p.length := by
  rw [ap_of_lt h]; exact hp.getD_lt h

theorem ap_injective {p : List ℕ} (hp : IsPerm p) : Function.Injective (ap p) := by
  intro x y e
  unfold ap at e
  split_ifs at e with hx hy hy
  · exact hp.getD_inj hx hy e
  · have := hp.getD_lt hx; omega
  · have := hp.getD_lt hy; omega
  · exact e

theorem iterate_ap_lt {p : List ℕ} (hp : IsPerm p) {x : ℕ} (h : x < p.length) (t : ℕ) :
    (ap p)^[t] x < p.length := by
  induction t with
  | zero => exact h
  | succ t ih => rw [Function.iterate_succ_apply']; exact ap_lt hp ih

theorem getElem?_eq_ap {p : List ℕ} {x : ℕ} (h : x < p.length) : p[x]? = some (ap p x) := by
  rw [ap_of_lt h, getD_of_lt h, List.getElem?_eq_getElem h]

/-- a duplicate-free list of naturals below `n` has at most `n` elements -/
theorem length_le_of_nodup_lt {l : List ℕ} {n : ℕ} (hn : l.Nodup) (hlt : ∀ x ∈ l, x < n) : l.length ≤ n := by
  have := (hn.subperm (fun x hx => List.mem_range.2 (hlt x hx) : l ⊆ List.range n)).length_le
  simpa using this

theorem nodup_iterate_of_ne {f : ℕ → ℕ} {x k : ℕ} (h : ∀ a b, a < b → b < k → f^[a] x ≠ f^[b] x) :
    (List.iterate f x k).Nodup := by
  rw [List.Nodup, List.pairwise_iff_getElem]
  intro i j hi hj hij
  rw [List.getElem_iterate, List.getElem_iterate]
  exact h i j hij (by simpa using hj)

/-- every point below `len p` is periodic under a permutation -/
theorem mem_periodicPts {p : List ℕ} (hp : IsPerm p) {x : ℕ} (h : x < p.length) :
    x ∈ Function.periodicPts (ap p) := by
  by_contra hnot
  have hne : ∀ a b, a < b → b < p.length + 1 → (ap p)^[a] x ≠ (ap p)^[b] x := by
    intro a b hab _ e
    have := Function.iterate_cancel (ap_injective hp) e.symm
    exact hnot (Function.mk_mem_periodicPts (by omega) this)
  have hnd := nodup_iterate_of_ne hne
  have := length_le_of_nodup_lt hnd (n := p.length) (by
    intro y hy
    rw [List.mem_iterate] at hy
    obtain ⟨m, _, rfl⟩ := hy
    exact iterate_ap_lt hp h m)
  simp at this

/-- length of the cycle through `x` -/
noncomputable def period (p : List ℕ) (x : ℕ) : ℕ := Function.minimalPeriod (ap p) x

/-- the cycle through `x`, starting at `x`: `[x, p x, p² x, …]` -/
noncomputable def orbitList (p : List ℕ) (x : ℕ) : List ℕ := List.iterate (ap p) x (period p x)

theorem period_pos {p : List ℕ} (hp : IsPerm p) {x : ℕ} (h : x < p.length) : 0 < period p x :=
  Function.minimalPeriod_pos_of_mem_periodicPts (mem_periodicPts hp h)

@[simp] theorem length_orbitList (p : List ℕ) (x : ℕ) : (orbitList p x).length = period p x := by
  simp [orbitList]

theorem getElem_orbitList {p : List ℕ} {x k : ℕ} (h : k < (orbitList p x).length) :
    (orbitList p x)[k] = (ap p)^[k] x := by
  simp [orbitList]

theorem nodup_orbitList (p : List ℕ) (x : ℕ) : (orbitList p x).Nodup := by
  apply nodup_iterate_of_ne
  intro a b hab hb e
  have := Function.iterate_injOn_Iio_minimalPeriod (f := ap p) (x := x)
    (show a ∈ Set.Iio _ from lt_trans hab hb) (show b ∈ Set.Iio _ from hb) e
  omega

theorem orbitList_lt {p : List ℕ} (hp : IsPerm p) {x : ℕ} (h : x < p.length) :
    ∀ y ∈ orbitList p x, y < p.length := by
  intro y hy
  rw [orbitList, List.mem_iterate] at hy
  obtain ⟨m, _, rfl⟩ := hy
  exact iterate_ap_lt hp h m

theorem period_le {p : List ℕ} (hp : IsPerm p) {x : ℕ} (h : x < p.length) : period p x ≤ p.length := by
  have := length_le_of_nodup_lt (nodup_orbitList p x) (orbitList_lt hp h)
  simpa using this

theorem iterate_period (p : List ℕ) (x : ℕ) : (ap p)^[period p x] x = x :=
  Function.isPeriodicPt_minimalPeriod (ap p) x

theorem mem_orbitList {p : List ℕ} (hp : IsPerm p) {x : ℕ} (h : x < p.length) {y : ℕ} :
    y ∈ orbitList p x ↔ ∃ t, (ap p)^[t] x = y := by
  rw [orbitList, List.mem_iterate]
  constructor
  · rintro ⟨m, _, rfl⟩; exact ⟨m, rfl⟩
  · rintro ⟨t, rfl⟩
    refine ⟨t % period p x, Nat.mod_lt _ (period_pos hp h), ?_⟩
    exact (Function.iterate_mod_minimalPeriod_eq (f := ap p) (x := x) (n := t)).symm

theorem self_mem_orbitList {p : List ℕ} (hp : IsPerm p) {x : ℕ} (h : x < p.length) : x ∈ orbitList p x :=
  (mem_orbitList hp h).2 ⟨0, rfl⟩

/-- the inner while loop of to_cycles computes the orbit -/
theorem cycleLoop_eq {p : List ℕ} (hp : IsPerm p) {start : ℕ} (hs : start < p.length) :
    ∀ (fuel k cur : ℕ) (acc : List ℕ), cur = (ap p)^[k] start →
      acc.reverse = List.iterate (ap p) start (k + 1) → k < period p start → period p start ≤ fuel + k →
      cycleLoop p start fuel cur acc = .ok (orbitList p start) := by
  intro fuel
  induction fuel with
  | zero => intro k cur acc _ _ h1 h2; omega
  | succ fuel ih =>
    intro k cur acc hcur hacc hk hfuel
    have hcurlt : cur < p.length := by rw [hcur]; exact iterate_ap_lt hp hs k
    have hnext : ap p cur = (ap p)^[k + 1] start := by rw [Function.iterate_succ_apply', hcur]
    unfold cycleLoop
    rw [getElem?_eq_ap hcurlt]
    simp only
    by_cases hret : ap p cur = start
    · simp only [hret, beq_self_eq_true, if_true]
      have hper : Function.IsPeriodicPt (ap p) (k + 1) start := by
        rw [hret] at hnext; exact hnext.symm
      have : period p start ≤ k + 1 := hper.minimalPeriod_le (by omega)
      have hkk : period p start = k + 1 := by omega
      rw [hacc, orbitList, hkk]
    · have hne : (ap p cur == start) = false := by simpa using hret
      simp only [hne, Bool.false_eq_true, if_false]
      have hlt : k + 1 < period p start := by
        rcases Nat.lt_or_ge (k + 1) (period p start) with h | h
        · exact h
        · exfalso
          have hkk : period p start = k + 1 := by omega
          apply hret
          rw [hnext, ← hkk]; exact iterate_period p start
      apply ih (k + 1) (ap p cur) (ap p cur :: acc) hnext _ hlt (by omega)
      rw [List.reverse_cons, hacc, List.iterate_add (ap p) start (k + 1) 1, hnext]
      simp [List.iterate]

theorem cycleFrom_eq {p : List ℕ} (hp : IsPerm p) {x : ℕ} (h : x < p.length) :
    cycleFrom p x = .ok (orbitList p x) := by
  unfold cycleFrom
  apply cycleLoop_eq hp h (p.length + 1) 0 x [x] rfl (by simp [List.iterate]) (period_pos hp h)
  have := period_le hp h; omega

/-! ### a list follows `p` cyclically -/

/-- `c = (c₀ c₁ … )` is a cycle of `p`: `p[c[k]] = c[(k+1) mod len c]` -/
def Follows (p c : List ℕ) : Prop :=
  ∀ k (h : k < c.length), ap p c[k] = c[(k + 1) % c.length]'(Nat.mod_lt _ (by omega))

theorem follows_orbitList (p : List ℕ) (x : ℕ) : Follows p (orbitList p x) := by
  intro k hk
  rw [getElem_orbitList, getElem_orbitList]
  have e := Function.iterate_succ_apply' (ap p) k x
  rw [← e]
  simp only [length_orbitList]
  exact (Function.iterate_mod_minimalPeriod_eq (f := ap p) (x := x) (n := k + 1)).symm

theorem Follows.rotate {p c : List ℕ} (h : Follows p c) (s : ℕ) : Follows p (c.rotate s) := by
  intro k hk
  have hk' : k < c.length := by simpa using hk
  rw [List.getElem_rotate, List.getElem_rotate, h]
  congr 1
  simp only [List.length_rotate]
  rw [Nat.mod_add_mod, Nat.mod_add_mod]
  congr 1; omega

/-! ### min-first rotation -/

theorem foldl_min_le (l : List ℕ) (a : ℕ) : l.foldl min a ≤ a ∧ ∀ y ∈ l, l.foldl min a ≤ y := by
  induction l generalizing a with
  | nil => simp
  | cons b l ih =>
    simp only [List.foldl_cons, List.mem_cons, forall_eq_or_imp]
    obtain ⟨h1, h2⟩ := ih (min a b)
    exact ⟨le_trans h1 (min_le_left _ _), le_trans h1 (min_le_right _ _), h2⟩

theorem foldl_min_mem (l : List ℕ) (a : ℕ) : l.foldl min a = a ∨ l.foldl min a ∈ l := by
  induction l generalizing a with
  | nil => simp
  | cons b l ih =>
    simp only [List.foldl_cons, List.mem_cons]
    rcases ih (min a b) with h | h
    · rcases min_choice a b with h' | h'
      · left; rw [h, h']
      · right; left; rw [h, h']
    · right; right; exact h

theorem listMin_mem {c : List ℕ} (h : c ≠ []) : listMin c ∈ c := by
  cases c with
  | nil => exact absurd rfl h
  | cons a l =>
    rcases foldl_min_mem l a with h' | h'
    · simp [listMin, h']
    · exact List.mem_cons_of_mem _ h'

theorem listMin_le {c : List ℕ} {y : ℕ} (hy : y ∈ c) : listMin c ≤ y := by
  cases c with
  | nil => simp at hy
  | cons a l =>
    rcases List.mem_cons.1 hy with rfl | h
    · exact (foldl_min_le l _).1
    · exact (foldl_min_le l a).2 y h

theorem listMin_congr {c c' : List ℕ} (h : ∀ y, y ∈ c ↔ y ∈ c') (hne : c ≠ []) : listMin c = listMin c' := by
  have hne' : c' ≠ [] := by
    intro e; subst e
    exact absurd ((h _).1 (listMin_mem hne)) (List.not_mem_nil)
  exact le_antisymm (listMin_le ((h _).2 (listMin_mem hne'))) (listMin_le ((h _).1 (listMin_mem hne)))

theorem rotateMin_eq_rotate (c : List ℕ) : rotateMin c = c.rotate (c.idxOf (listMin c)) := by
  unfold rotateMin
  rw [List.rotate_eq_drop_append_take List.idxOf_le_length]

theorem mem_rotateMin {c : List ℕ} {y : ℕ} : y ∈ rotateMin c ↔ y ∈ c := by
  rw [rotateMin_eq_rotate, List.mem_rotate]

@[simp] theorem length_rotateMin (c : List ℕ) : (rotateMin c).length = c.length := by
  rw [rotateMin_eq_rotate, List.length_rotate]

theorem head_rotateMin {c : List ℕ} (h : c ≠ []) :
    (rotateMin c)[0]'(by rw [length_rotateMin]; exact List.length_pos_iff.2 h) = listMin c := by
  have hlt : c.idxOf (listMin c) < c.length := List.idxOf_lt_length_iff.2 (listMin_mem h)
  simp only [rotateMin_eq_rotate, List.getElem_rotate, Nat.zero_add, Nat.mod_eq_of_lt hlt]
  exact List.getElem_idxOf hlt

/-- two rotations of a duplicate-free list with the same first element coincide -/
theorem rotate_eq_of_head_eq {c : List ℕ} (hnd : c.Nodup) (hne : c ≠ []) {a b : ℕ}
    (h : (c.rotate a)[0]'(by rw [List.length_rotate]; exact List.length_pos_iff.2 hne) =
         (c.rotate b)[0]'(by rw [List.length_rotate]; exact List.length_pos_iff.2 hne)) :
    c.rotate a = c.rotate b := by
  rw [hnd.rotate_congr_iff]
  left
  simp only [List.getElem_rotate, Nat.zero_add] at h
  exact (List.Nodup.getElem_inj_iff hnd).1 h

theorem rotateMin_rotate {c : List ℕ} (hnd : c.Nodup) (hne : c ≠ []) (s : ℕ) :
    rotateMin (c.rotate s) = rotateMin c := by
  have hne' : c.rotate s ≠ [] := by
    intro e; exact hne (List.rotate_eq_nil_iff.1 e)
  have hmin : listMin (c.rotate s) = listMin c := listMin_congr (fun y => List.mem_rotate) hne'
  have h1 := head_rotateMin hne'
  have h2 := head_rotateMin hne
  rw [hmin] at h1
  have e1 : rotateMin (c.rotate s) = c.rotate (s + (c.rotate s).idxOf (listMin c)) := by
    rw [rotateMin_eq_rotate, hmin, List.rotate_rotate]
  have e2 : rotateMin c = c.rotate (c.idxOf (listMin c)) := rotateMin_eq_rotate c
  rw [e1, e2]
  apply rotate_eq_of_head_eq hnd hne
  have := h1.trans h2.symm
  simpa only [e1, e2] using this

/-! ### orbits of points on the same cycle -/

theorem orbitList_iterate {p : List ℕ} (hp : IsPerm p) {x : ℕ} (h : x < p.length) (s : ℕ) :
    orbitList p ((ap p)^[s] x) = (orbitList p x).rotate s := by
  have hper : period p ((ap p)^[s] x) = period p x :=
    Function.minimalPeriod_apply_iterate (mem_periodicPts hp h) s
  apply List.ext_getElem
  · simp [hper]
  · intro k h1 h2
    rw [getElem_orbitList, List.getElem_rotate, getElem_orbitList, ← Function.iterate_add_apply]
    simp only [length_orbitList]
    exact (Function.iterate_mod_minimalPeriod_eq (f := ap p) (x := x) (n := k + s)).symm

/-- the canonical (min-first) cycle through `x` -/
noncomputable def canonCycle (p : List ℕ) (x : ℕ) : List ℕ := rotateMin (orbitList p x)

theorem orbitList_ne_nil {p : List ℕ} (hp : IsPerm p) {x : ℕ} (h : x < p.length) : orbitList p x ≠ [] := by
  intro e
  have := period_pos hp h
  rw [← length_orbitList, e] at this
  simp at this

/-- points on the same cycle have the same canonical cycle -/
theorem canonCycle_eq_of_mem {p : List ℕ} (hp : IsPerm p) {x y : ℕ} (h : x < p.length)
    (hy : y ∈ orbitList p x) : canonCycle p y = canonCycle p x := by
  obtain ⟨s, rfl⟩ := (mem_orbitList hp h).1 hy
  unfold canonCycle
  rw [orbitList_iterate hp h, rotateMin_rotate (nodup_orbitList p x) (orbitList_ne_nil hp h)]

theorem mem_canonCycle {p : List ℕ} {x y : ℕ} : y ∈ canonCycle p x ↔ y ∈ orbitList p x := mem_rotateMin

/-- canonical cycles are equal or disjoint -/
theorem canonCycle_eq_or_disjoint {p : List ℕ} (hp : IsPerm p) {x y : ℕ} (hx : x < p.length) (hy : y < p.length) :
    canonCycle p x = canonCycle p y ∨ (canonCycle p x).Disjoint (canonCycle p y) := by
  by_cases h : ∃ z, z ∈ canonCycle p x ∧ z ∈ canonCycle p y
  · left
    obtain ⟨z, hz1, hz2⟩ := h
    rw [mem_canonCycle] at hz1 hz2
    rw [← canonCycle_eq_of_mem hp hx hz1, ← canonCycle_eq_of_mem hp hy hz2]
  · right
    intro z hz1 hz2
    exact h ⟨z, hz1, hz2⟩

/-! ### the outer loop -/

theorem toCyclesLoop_spec {p : List ℕ} (hp : IsPerm p) :
    ∀ (rest : List ℕ) (cycles : List (List ℕ)), (∀ i ∈ rest, i < p.length) →
      ∃ cs, toCyclesLoop p rest cycles = .ok cs ∧ (cycles.Nodup → cs.Nodup) ∧
        ∀ c, c ∈ cs ↔ c ∈ cycles ∨ ∃ i ∈ rest, 2 ≤ period p i ∧ c = canonCycle p i := by
  intro rest
  induction rest with
  | nil => intro cycles _; exact ⟨cycles, rfl, id, by simp⟩
  | cons i rest ih =>
    intro cycles hlt
    have hi : i < p.length := hlt i List.mem_cons_self
    unfold toCyclesLoop
    rw [cycleFrom_eq hp hi]
    simp only [length_orbitList, ge_iff_le]
    by_cases h2 : 2 ≤ period p i
    · simp only [h2, if_true]
      obtain ⟨cs, hcs, hnd, hmem⟩ := ih (insertNew cycles (rotateMin (orbitList p i)))
        (fun j hj => hlt j (List.mem_cons_of_mem _ hj))
      refine ⟨cs, hcs, fun h => hnd (nodup_insertNew h), ?_⟩
      intro c
      rw [hmem, mem_insertNew]
      constructor
      · rintro ((h | h) | ⟨j, hj, hj2, rfl⟩)
        · exact Or.inl h
        · exact Or.inr ⟨i, List.mem_cons_self, h2, h⟩
        · exact Or.inr ⟨j, List.mem_cons_of_mem _ hj, hj2, rfl⟩
      · rintro (h | ⟨j, hj, hj2, rfl⟩)
        · exact Or.inl (Or.inl h)
        · rcases List.mem_cons.1 hj with rfl | hj
          · exact Or.inl (Or.inr rfl)
          · exact Or.inr ⟨j, hj, hj2, rfl⟩
    · simp only [h2, if_false]
      obtain ⟨cs, hcs, hnd, hmem⟩ := ih cycles (fun j hj => hlt j (List.mem_cons_of_mem _ hj))
      refine ⟨cs, hcs, hnd, ?_⟩
      intro c
      rw [hmem]
      constructor
      · rintro (h | ⟨j, hj, hj2, rfl⟩)
        · exact Or.inl h
        · exact Or.inr ⟨j, List.mem_cons_of_mem _ hj, hj2, rfl⟩
      · rintro (h | ⟨j, hj, hj2, rfl⟩)
        · exact Or.inl h
        · rcases List.mem_cons.1 hj with rfl | hj
          · exact absurd hj2 h2
          · exact Or.inr ⟨j, hj, hj2, rfl⟩

theorem toCycles_eq {p : List ℕ} (hp : IsPerm p) :
    ∃ cs, toCycles p = .ok cs ∧ cs.Nodup ∧
      ∀ c, c ∈ cs ↔ ∃ i < p.length, 2 ≤ period p i ∧ c = canonCycle p i := by
  obtain ⟨cs, h1, h2, h3⟩ := toCyclesLoop_spec hp (List.range p.length) [] (fun i hi => List.mem_range.1 hi)
  refine ⟨cs, h1, h2 List.nodup_nil, ?_⟩
  intro c
  rw [h3]
  simp [List.mem_range]

/-- what `to_cycles p` returns: duplicate-free, min-first cycles of length ≥ 2 that follow `p`,
    pairwise disjoint, and every point they do not contain is fixed by `p` -/
structure CyclesSpec (p : List ℕ) (cs : List (List ℕ)) : Prop where
  nodup : cs.Nodup
  nodup_each : ∀ c ∈ cs, c.Nodup
  two_le : ∀ c ∈ cs, 2 ≤ c.length
  lt : ∀ c ∈ cs, ∀ x ∈ c, x < p.length
  min_first : ∀ c ∈ cs, ∀ x ∈ c, c.headD 0 ≤ x
  follows : ∀ c ∈ cs, ∀ k (h : k < c.length),
    p.getD c[k] 0 = c[(k + 1) % c.length]'(Nat.mod_lt _ (by omega))
  disjoint : cs.Pairwise List.Disjoint
  fixed : ∀ x < p.length, (∀ c ∈ cs, x ∉ c) → p.getD x 0 = x

theorem headD_eq_getElem (l : List ℕ) (h : 0 < l.length) : l.headD 0 = l[0] := by
  cases l with
  | nil => simp at h
  | cons a l => rfl

theorem nodup_canonCycle (p : List ℕ) (x : ℕ) : (canonCycle p x).Nodup := by
  unfold canonCycle
  rw [rotateMin_eq_rotate, List.nodup_rotate]
  exact nodup_orbitList p x

theorem length_canonCycle (p : List ℕ) (x : ℕ) : (canonCycle p x).length = period p x := by
  simp [canonCycle]

theorem follows_canonCycle (p : List ℕ) (x : ℕ) : Follows p (canonCycle p x) := by
  unfold canonCycle
  rw [rotateMin_eq_rotate]
  exact (follows_orbitList p x).rotate _

theorem toCycles_spec {p : List ℕ} (hp : IsPerm p) : ∃ cs, toCycles p = .ok cs ∧ CyclesSpec p cs := by
  obtain ⟨cs, h1, hnd, hmem⟩ := toCycles_eq hp
  refine ⟨cs, h1, ?_⟩
  have hlt : ∀ c ∈ cs, ∀ x ∈ c, x < p.length := by
    intro c hc x hx
    obtain ⟨i, hi, _, rfl⟩ := (hmem c).1 hc
    exact orbitList_lt hp hi x (mem_canonCycle.1 hx)
  refine
    { nodup := hnd
      nodup_each := ?_
      two_le := ?_
      lt := hlt
      min_first := ?_
      follows := ?_
      disjoint := ?_
      fixed := ?_ }
  · intro c hc
    obtain ⟨i, _, _, rfl⟩ := (hmem c).1 hc
    exact nodup_canonCycle p i
  · intro c hc
    obtain ⟨i, _, h2, rfl⟩ := (hmem c).1 hc
    rw [length_canonCycle]; exact h2
  · intro c hc x hx
    obtain ⟨i, hi, _, rfl⟩ := (hmem c).1 hc
    have hne : orbitList p i ≠ [] := orbitList_ne_nil hp hi
    have hh := head_rotateMin hne
    have : (canonCycle p i).headD 0 = listMin (orbitList p i) := by
      unfold canonCycle
      rw [← hh]
      exact headD_eq_getElem _ _
    rw [this]
    exact listMin_le (mem_canonCycle.1 hx)
  · intro c hc k hk
    obtain ⟨i, hi, _, rfl⟩ := (hmem c).1 hc
    have := follows_canonCycle p i k hk
    rwa [ap_of_lt (hlt _ hc _ (List.getElem_mem hk))] at this
  · apply hnd.pairwise_of_forall_ne
    intro c hc c' hc' hne
    obtain ⟨i, hi, _, rfl⟩ := (hmem c).1 hc
    obtain ⟨j, hj, _, rfl⟩ := (hmem c').1 hc'
    rcases canonCycle_eq_or_disjoint hp hi hj with h | h
    · exact absurd h hne
    · exact h
  · intro x hx hnot
    have h1 : ¬ 2 ≤ period p x := fun h2 =>
      hnot _ ((hmem _).2 ⟨x, hx, h2, rfl⟩) (mem_canonCycle.2 (self_mem_orbitList hp hx))
    have hpos := period_pos hp hx
    have hone : period p x = 1 := by omega
    have := iterate_period p x
    rw [hone] at this
    rw [← ap_of_lt hx]
    exact this

/-! ### the cycles reconstruct `p` -/

theorem applyCycle_of_mem {p c : List ℕ} {x : ℕ} (hc : Follows p c) (hx : x ∈ c) : applyCycle c x = ap p x := by
  have hk : c.idxOf x < c.length := List.idxOf_lt_length_iff.2 hx
  unfold applyCycle
  simp only [hk, if_true]
  have := hc _ hk
  rw [List.getElem_idxOf hk] at this
  rw [this, getD_of_lt]

theorem applyCycle_of_notMem {c : List ℕ} {x : ℕ} (hx : x ∉ c) : applyCycle c x = x := by
  have hk : c.idxOf x = c.length := List.idxOf_eq_length_iff.2 hx
  unfold applyCycle
  simp [hk]

theorem ap_mem_of_follows {p c : List ℕ} {x : ℕ} (hc : Follows p c) (hx : x ∈ c) : ap p x ∈ c := by
  have hk : c.idxOf x < c.length := List.idxOf_lt_length_iff.2 hx
  have := hc _ hk
  rw [List.getElem_idxOf hk] at this
  rw [this]; exact List.getElem_mem _

theorem applyCycles_eq {p : List ℕ} {cs : List (List ℕ)} (hf : ∀ c ∈ cs, Follows p c)
    (hd : cs.Pairwise List.Disjoint) (x : ℕ) :
    applyCycles cs x = if ∃ c ∈ cs, x ∈ c then ap p x else x := by
  induction cs generalizing x with
  | nil => simp [applyCycles]
  | cons c cs ih =>
    rw [List.pairwise_cons] at hd
    have ih' := ih (fun c' hc' => hf c' (List.mem_cons_of_mem _ hc')) hd.2
    have hstep : applyCycles (c :: cs) x = applyCycles cs (applyCycle c x) := rfl
    rw [hstep]
    by_cases hx : x ∈ c
    · have hc := hf c List.mem_cons_self
      rw [applyCycle_of_mem hc hx, ih']
      have hnot : ¬ ∃ c' ∈ cs, ap p x ∈ c' := by
        rintro ⟨c', hc', hm⟩
        exact hd.1 c' hc' (ap_mem_of_follows hc hx) hm
      rw [if_neg hnot, if_pos ⟨c, List.mem_cons_self, hx⟩]
    · rw [applyCycle_of_notMem hx, ih']
      have : (∃ c' ∈ c :: cs, x ∈ c') ↔ ∃ c' ∈ cs, x ∈ c' := by
        simp [hx]
      simp only [this]

/-- applying the cycles returned by `to_cycles p` rebuilds `p` -/
theorem fromCycles_of_spec {p : List ℕ} {cs : List (List ℕ)} (h : CyclesSpec p cs) :
    fromCycles p.length cs = p := by
  have hf : ∀ c ∈ cs, Follows p c := by
    intro c hc k hk
    rw [ap_of_lt (h.lt c hc _ (List.getElem_mem hk))]
    exact h.follows c hc k hk
  apply ext_getD (by simp [fromCycles])
  intro i hi
  have hi' : i < p.length := by simpa [fromCycles] using hi
  rw [getD_of_lt hi]
  simp only [fromCycles, List.getElem_map, List.getElem_range]
  rw [applyCycles_eq hf h.disjoint]
  split_ifs with hin
  · exact ap_of_lt hi'
  · push Not at hin
    exact (h.fixed i hi' hin).symm

end E3nnVerif.PermModel
