import E3nnVerif.Theory.BatchNormLayout
/-
Specification-level views of the BatchNorm model (any scalar type, core Lean only):
the memo tables removed, the state update and the output written as concatenations over `blocks o`,
the flat batch statistics, the block-wise linear action, and the bookkeeping over call histories.
-/
namespace E3nnVerif.BN
open Scalar

variable {K : Type} [Scalar K]

/-- the centred field of a block, `field - field_mean` (scalar blocks) -/
def centredOf (o : Opts K) (st : State K) (B S : Nat) (x : T3 K) (blk : Block) : T4 K :=
  centred o blk (field x blk) (meanOf o st B S blk (field x blk))

/-- output field of a block: `(blockRes ..).out` with the memo tables removed -/
def blockOut (o : Opts K) (st : State K) (B S : Nat) (x : T3 K) (blk : Block) : T4 K :=
  let c := centredOf o st B S x blk
  let sc := scaleOf o st blk (normOf o st B S blk c)
  if o.affine && o.includeBias && blk.isScalar then
    fun b s u i => c b s u i * sc (bidx o b) u + st.bias (blk.ib + u)
  else fun b s u i => c b s u i * sc (bidx o b) u

theorem blockRes_out (o : Opts K) (st : State K) (B S : Nat) (x : T3 K) (blk : Block) :
    (blockRes o st B S x blk).out = blockOut o st B S x blk := by
  simp only [blockRes, blockOut, centredOf, Tab2.get_of]

theorem blockRes_mean (o : Opts K) (st : State K) (B S : Nat) (x : T3 K) (blk : Block) :
    (blockRes o st B S x blk).mean = meanOf o st B S blk (field x blk) := by
  simp only [blockRes, Tab2.get_of]

theorem blockRes_norm (o : Opts K) (st : State K) (B S : Nat) (x : T3 K) (blk : Block) :
    (blockRes o st B S x blk).norm = normOf o st B S blk (centredOf o st B S x blk) := by
  simp only [blockRes, centredOf, Tab2.get_of]

/-- `torch.cat(new_means, out=self.running_mean)` (only if `len(new_means) > 0`) -/
def newRM (o : Opts K) (st : State K) (B S : Nat) (x : T3 K) : Nat → K :=
  if ((blocks o).filter (·.isScalar)).isEmpty then st.runningMean
  else cat (((blocks o).filter (·.isScalar)).map fun blk =>
    (blk.mul, fun u => rollAvg o.momentum (st.runningMean (blk.irm + u)) (meanOf o st B S blk (field x blk) 0 u)))

/-- `torch.cat(new_vars, out=self.running_var)` (only if `len(new_vars) > 0`) -/
def newRV (o : Opts K) (st : State K) (B S : Nat) (x : T3 K) : Nat → K :=
  if (blocks o).isEmpty then st.runningVar
  else cat ((blocks o).map fun blk =>
    (blk.mul, fun u => rollAvg o.momentum (st.runningVar (blk.irv + u))
      (normOf o st B S blk (centredOf o st B S x blk) 0 u)))

theorem forwardCore_out (o : Opts K) (st : State K) (B S : Nat) (x : T3 K) :
    (forwardCore o st B S x).2 = assemble (blocks o) (blockOut o st B S x) := by
  funext b s
  simp only [forwardCore, assemble, List.map_map]
  congr 1
  apply List.map_congr_left
  intro blk _
  simp [blockRes_out]

theorem forwardCore_state (o : Opts K) (st : State K) (B S : Nat) (x : T3 K) :
    (forwardCore o st B S x).1 =
      if st.training && !o.inst then
        { st with runningMean := newRM o st B S x, runningVar := newRV o st B S x }
      else st := by
  simp only [forwardCore]
  split
  · congr 1
    · simp only [newRM, List.filter_map, List.map_map, List.isEmpty_map, Tab.get_of]
      congr 1
      congr 1
      apply List.map_congr_left
      intro blk _
      simp [newMeanChunk, blockRes_mean]
    · simp only [newRV, List.map_map, List.isEmpty_map, Tab.get_of]
      congr 1
      congr 1
      apply List.map_congr_left
      intro blk _
      simp [newVarChunk, blockRes_norm]
  · rfl

/-- eval-mode and instance-mode forwards leave the state alone -/
theorem forwardCore_frozen (o : Opts K) (st : State K) (B S : Nat) (x : T3 K)
    (h : st.training = false ∨ o.inst = true) : (forwardCore o st B S x).1 = st := by
  rw [forwardCore_state]
  rcases h with h | h <;> simp [h]

/-! ### flat batch statistics (what `_roll_avg` is fed with in training mode) -/

/-- the centred field of a block in (non-instance) training mode -/
def centredBatch (o : Opts K) (B S : Nat) (x : T3 K) (blk : Block) : T4 K :=
  centred o blk (field x blk) (fun _ u => batchMean B S (field x blk) u)

/-- per even-scalar feature: mean over batch and middle dimensions, `[num_scalar]` -/
def meanStat (o : Opts K) (B S : Nat) (x : T3 K) : Nat → K :=
  cat (((blocks o).filter (·.isScalar)).map fun blk => (blk.mul, batchMean B S (field x blk)))

/-- per feature: batch mean of the sample-reduced squared norm of the centred field, `[num_irreps]` -/
def varStat (o : Opts K) (B S : Nat) (x : T3 K) : Nat → K :=
  cat ((blocks o).map fun blk => (blk.mul, batchStat o B S blk (centredBatch o B S x blk)))

/-- the centred field of a block in instance mode (per-sample mean over the middle dimensions) -/
def centredInst (o : Opts K) (S : Nat) (x : T3 K) (blk : Block) : T4 K :=
  centred o blk (field x blk) (instMean S (field x blk))

/-- instance mode, sample `b`: per even-scalar feature the mean over the middle dimensions -/
def instMeanStat (o : Opts K) (S : Nat) (x : T3 K) (b : Nat) : Nat → K :=
  cat (((blocks o).filter (·.isScalar)).map fun blk => (blk.mul, instMean S (field x blk) b))

/-- instance mode, sample `b`: per feature the sample-reduced squared norm of the centred field -/
def instVarStat (o : Opts K) (S : Nat) (x : T3 K) (b : Nat) : Nat → K :=
  cat ((blocks o).map fun blk => (blk.mul, sampleStat o S blk (centredInst o S x blk) b))

theorem meanOf_inst (o : Opts K) (st : State K) (B S : Nat) (blk : Block) (f : T4 K) (hi : o.inst = true) :
    meanOf o st B S blk f = instMean S f := by
  simp [meanOf, hi]

theorem normOf_inst (o : Opts K) (st : State K) (B S : Nat) (blk : Block) (c : T4 K) (hi : o.inst = true) :
    normOf o st B S blk c = sampleStat o S blk c := by
  simp [normOf, hi]

theorem centredOf_inst (o : Opts K) (st : State K) (B S : Nat) (x : T3 K) (blk : Block) (hi : o.inst = true) :
    centredOf o st B S x blk = centredInst o S x blk := by
  simp [centredOf, centredInst, meanOf_inst o st B S blk _ hi]

theorem meanOf_train (o : Opts K) (st : State K) (B S : Nat) (blk : Block) (f : T4 K)
    (ht : st.training = true) (hi : o.inst = false) :
    meanOf o st B S blk f = fun _ u => batchMean B S f u := by
  simp [meanOf, ht, hi]

theorem normOf_train (o : Opts K) (st : State K) (B S : Nat) (blk : Block) (c : T4 K)
    (ht : st.training = true) (hi : o.inst = false) :
    normOf o st B S blk c = fun _ u => batchStat o B S blk c u := by
  simp [normOf, ht, hi]

theorem centredOf_train (o : Opts K) (st : State K) (B S : Nat) (x : T3 K) (blk : Block)
    (ht : st.training = true) (hi : o.inst = false) :
    centredOf o st B S x blk = centredBatch o B S x blk := by
  simp [centredOf, centredBatch, meanOf_train o st B S blk _ ht hi]

/-- one training-mode forward moves every running variance by `_roll_avg` towards the batch statistic -/
theorem forwardCore_runningVar (o : Opts K) (st : State K) (B S : Nat) (x : T3 K)
    (ht : st.training = true) (hi : o.inst = false) {j : Nat} (hj : j < o.irreps.numIrreps) :
    (forwardCore o st B S x).1.runningVar j
      = rollAvg o.momentum (st.runningVar j) (varStat o B S x j) := by
  rw [forwardCore_state]
  simp only [ht, hi, Bool.not_false, Bool.and_self, if_true, newRV]
  have hl := layout_irv o.affine o.includeBias o.irreps 0 0 0 0 0 0
  have ht' := total_irv o.affine o.includeBias o.irreps 0 0 0 0 0 0
  split
  · next he =>
    have : blocks o = [] := by simpa using he
    rw [show blocks o = blocksFrom o.affine o.includeBias o.irreps 0 0 0 0 0 0 from rfl] at this
    rw [this] at ht'
    simp [total] at ht'
    omega
  · have := cat_pointwise (g := fun blk => batchStat o B S blk (centredBatch o B S x blk))
      (rollAvg o.momentum) st.runningVar hl (j := j) (by rw [ht']; exact hj)
    simp only [Nat.zero_add] at this
    simp only [varStat, normOf_train o st B S _ _ ht hi, centredOf_train o st B S x _ ht hi]
    exact this

/-- … and every running mean towards the batch mean -/
theorem forwardCore_runningMean (o : Opts K) (st : State K) (B S : Nat) (x : T3 K)
    (ht : st.training = true) (hi : o.inst = false) {j : Nat} (hj : j < o.irreps.numScalar) :
    (forwardCore o st B S x).1.runningMean j
      = rollAvg o.momentum (st.runningMean j) (meanStat o B S x j) := by
  rw [forwardCore_state]
  simp only [ht, hi, Bool.not_false, Bool.and_self, if_true, newRM]
  have hl := layout_irm o.affine o.includeBias o.irreps 0 0 0 0 0 0
  have ht' := total_irm o.affine o.includeBias o.irreps 0 0 0 0 0 0
  split
  · next he =>
    have : (blocks o).filter (·.isScalar) = [] := by simpa using he
    rw [show blocks o = blocksFrom o.affine o.includeBias o.irreps 0 0 0 0 0 0 from rfl] at this
    rw [this] at ht'
    simp [total] at ht'
    omega
  · have := cat_pointwise (g := fun blk => batchMean B S (field x blk))
      (rollAvg o.momentum) st.runningMean hl (j := j) (by rw [ht']; exact hj)
    simp only [Nat.zero_add] at this
    simp only [meanStat, meanOf_train o st B S _ _ ht hi]
    exact this

/-- a forward never touches the training flag or the parameters -/
theorem forwardCore_other (o : Opts K) (st : State K) (B S : Nat) (x : T3 K) :
    (forwardCore o st B S x).1.training = st.training ∧ (forwardCore o st B S x).1.weight = st.weight ∧
      (forwardCore o st B S x).1.bias = st.bias := by
  rw [forwardCore_state]
  split <;> simp

/-! ### histories -/

/-- the batches of the forwards that are executed in training mode and accepted, in order
(`tr` = training flag at the start) -/
def trainedBatches (o : Opts K) : Bool → List (Op K) → List (Nat × Nat × T3 K)
  | _, [] => []
  | _, .train :: ops => trainedBatches o true ops
  | _, .eval :: ops => trainedBatches o false ops
  | tr, .forward B S dim x :: ops =>
    if tr && (accepted o B dim && S != 0) then (B, S, x) :: trainedBatches o tr ops
    else trainedBatches o tr ops

/-- the training flag after a history -/
def finalTraining : Bool → List (Op K) → Bool
  | tr, [] => tr
  | _, .train :: ops => finalTraining true ops
  | _, .eval :: ops => finalTraining false ops
  | tr, .forward _ _ _ _ :: ops => finalTraining tr ops

/-- `_roll_avg` iterated over a list of updates -/
def emaFold (m r0 : K) (us : List K) : K := us.foldl (fun r u => rollAvg m r u) r0

/-! ### block-wise linear action -/

/-- `D_k` applied to the `d` components of every copy of a block -/
def actField (blk : Block) (D : Nat → Nat → Nat → K) (f : T4 K) : T4 K :=
  fun b s u i => sumN blk.d (fun a => D blk.k i a * f b s u a)

/-- the block-diagonal matrix `⊕_k (1_mul ⊗ D_k)` applied to the last axis -/
def actB (bs : List Block) (D : Nat → Nat → Nat → K) (x : T3 K) : T3 K :=
  assemble bs (fun blk => actField blk D (field x blk))

def act (o : Opts K) (D : Nat → Nat → Nat → K) (x : T3 K) : T3 K := actB (blocks o) D x

def actOp (o : Opts K) (D : Nat → Nat → Nat → K) : Op K → Op K
  | .forward B S dim x => .forward B S dim (act o D x)
  | op => op

def actOut (o : Opts K) (D : Nat → Nat → Nat → K) : Out K → Out K
  | .tensor B S dim y => .tensor B S dim (act o D y)
  | r => r

end E3nnVerif.BN
