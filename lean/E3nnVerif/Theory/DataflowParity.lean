/-
Non-vacuity of the hypotheses of the E(3)-soundness theorem (property C15): a concrete, non-trivial `RepAction`.

Rows are real sequences `ℕ → ℝ` (component `n` of the flattened feature row).  The group element is the spatial
INVERSION composed with an arbitrary translation `t`: a row with irreps `ρ` is multiplied, block by block, by the
parity of the irrep the component belongs to (`D_{(l,p)}(-1) = p · 1`), positions go to `-x + t`.
All structure fields of `RepAction` are proved (they are not assumed), and a concrete primitive (`|v|²` of a
`1x1o` row, landing in `1x0e`) is shown to satisfy `PrimEquivariant`.
-/
import Mathlib.Algebra.Module.Pi
import Mathlib.Tactic.Ring
import Mathlib.Tactic.NormNum
import E3nnVerif.Theory.DataflowE3

namespace E3nnVerif.Dataflow.ParityModel

open E3nnVerif.Model.Irreps (Irreps Irrep Parity)
open E3nnVerif.Dataflow

abbrev Row := ℕ → ℝ

/-- sign of component `n` of a row with irreps `ρ` under inversion (components beyond the row: `1`) -/
def sgn : Irreps → ℕ → ℝ
  | [], _ => 1
  | e :: ρ, n => if n < e.1 * e.2.dim then (if e.2.p = Parity.odd then -1 else 1) else sgn ρ (n - e.1 * e.2.dim)

theorem dim_cons (e : E3nnVerif.Model.Irreps.MulIr) (ρ : Irreps) :
    E3nnVerif.Model.Irreps.dim (e :: ρ) = e.1 * e.2.dim + E3nnVerif.Model.Irreps.dim ρ := by
  simp [E3nnVerif.Model.Irreps.dim]

theorem sgn_scalars : ∀ (ρ : Irreps), isScalars ρ = true → ∀ n, sgn ρ n = 1
  | [], _, _ => rfl
  | e :: ρ, h, n => by
    simp only [isScalars, List.all_cons, Bool.and_eq_true] at h
    have hp : e.2.p = Parity.even := by
      have := h.1
      simp only [Irrep.isScalar, Bool.and_eq_true, beq_iff_eq] at this
      exact this.2
    have ih := sgn_scalars ρ (by simpa [isScalars] using h.2)
    simp only [sgn, hp]
    split
    · simp
    · exact ih _

theorem sgn_append : ∀ (ρ₁ ρ₂ : Irreps) (n : ℕ),
    sgn (ρ₁ ++ ρ₂) n = if n < E3nnVerif.Model.Irreps.dim ρ₁ then sgn ρ₁ n
      else sgn ρ₂ (n - E3nnVerif.Model.Irreps.dim ρ₁)
  | [], ρ₂, n => by simp [E3nnVerif.Model.Irreps.dim]
  | e :: ρ, ρ₂, n => by
    have ih := sgn_append ρ ρ₂ (n - e.1 * e.2.dim)
    rw [List.cons_append, dim_cons]
    simp only [sgn]
    rw [ih]
    generalize e.1 * e.2.dim = k
    generalize E3nnVerif.Model.Irreps.dim ρ = d
    by_cases h1 : n < k
    · have : n < k + d := by omega
      simp [h1, this]
    · by_cases h2 : n - k < d
      · have : n < k + d := by omega
        simp [h1, h2, this]
      · have h3 : ¬ n < k + d := by omega
        have e : n - k - d = n - (k + d) := by omega
        simp [h1, h2, h3, e]

/-- the row operations of the glue code on flattened rows, with arbitrary constants and named functions -/
def sem (const : String → ℝ) (fn : String → List Row → Row) : Sem Row where
  catF := fun d x y n => if n < d then x n else y (n - d)
  mulF := fun s x n => s 0 * x n
  const := const
  fn := fn

/-- multiplication by the block signs, as a linear map -/
def flip (ρ : Irreps) : Row →ₗ[ℝ] Row where
  toFun := fun x n => sgn ρ n * x n
  map_add' := by intro x y; funext n; simp [mul_add]
  map_smul' := by intro c x; funext n; simp; ring

/-- **the inversion–translation `x ↦ -x + t` is a `RepAction`** for every choice of constants and functions -/
def inversion (const : String → ℝ) (fn : String → List Row → Row) (t : Row) : RepAction Row (sem const fn) where
  A := flip
  t := t
  scalars := by
    intro ρ h x
    funext n
    simp [flip, sgn_scalars ρ h n]
  cat := by
    intro ρ₁ ρ₂ x y
    funext n
    simp only [flip, sem, LinearMap.coe_mk, AddHom.coe_mk, sgn_append]
    by_cases h : n < E3nnVerif.Model.Irreps.dim ρ₁ <;> simp [h]
  mul := by
    intro ρ s x
    funext n
    simp only [flip, sem, LinearMap.coe_mk, AddHom.coe_mk]
    ring

/-- squared length of the vector stored in the first three components, as a one-component row -/
def norm2 : List Row → Row
  | [v] => fun n => if n = 0 then v 0 ^ 2 + v 1 ^ 2 + v 2 ^ 2 else 0
  | _ => 0

theorem sgn_vecRep (n : ℕ) : sgn vecRep n = if n < 3 then -1 else 1 := by
  simp [sgn, vecRep, Irrep.dim]

/-- a concrete primitive that is equivariant as declared: `1x1o → 1x0e` -/
theorem norm2_equivariant (const : String → ℝ) (fn : String → List Row → Row) (t : Row)
    (hfn : fn "norm2" = norm2) :
    PrimEquivariant (inversion const fn t) "norm2" [vecRep] (scalars 1) := by
  intro xs hxs
  match xs, hxs with
  | [v], _ =>
    have hs : isScalars (scalars 1) = true := by simp [scalars, isScalars, Irrep.isScalar]
    rw [(inversion const fn t).scalars _ hs]
    show (sem const fn).fn "norm2" _ = (sem const fn).fn "norm2" _
    simp only [sem, hfn, List.zipWith_cons_cons, List.zipWith_nil_right, norm2]
    funext n
    by_cases h0 : n = 0
    · simp [h0, inversion, flip, sgn_vecRep]
    · simp [h0]

/-- the inversion is NOT the identity on positions: the action is non-trivial -/
theorem inversion_nontrivial (const : String → ℝ) (fn : String → List Row → Row) :
    (inversion const fn 0).A vecRep (fun _ => 1) ≠ (fun _ => 1) := by
  intro h
  have := congrFun h 0
  simp [inversion, flip, sgn_vecRep] at this
  norm_num at this

end E3nnVerif.Dataflow.ParityModel
