import E3nnVerif.Theory.OneParam
/-
A bilinear map `bil C : ℝ^{n₁} × ℝ^{n₂} → ℝ^{n₃}` whose structure constants have the Gram matrix
`Σ_{i,j} C[i,j,k]·C[i,j,k'] = c·δ_{kk'}` with `c ≠ 0` is onto: every basis vector is
`e_k = c⁻¹ · Σ_{i,j} C[i,j,k] • bil C e_i e_j`.  Hence two matrices that agree on the image of `bil C` are equal.
Used by `Props/C03Hom.lean` to propagate the homomorphism property of the Wigner matrices from degree `l` to `l+1`
through the Clebsch–Gordan intertwiner.
-/
open Matrix
open scoped BigOperators

namespace E3nnVerif.Theory.BilSpan

variable {n₁ n₂ n₃ : Type*} [Fintype n₁] [DecidableEq n₁] [Fintype n₂] [DecidableEq n₂]
  [Fintype n₃] [DecidableEq n₃]

omit [Fintype n₃] [DecidableEq n₃] in
/-- `bil C e_i e_j = C[i,j,·]` -/
theorem bil_single (C : n₁ → n₂ → n₃ → ℝ) (i : n₁) (j : n₂) :
    bil C (Pi.single i 1) (Pi.single j 1) = fun k => C i j k := by
  funext k
  simp [bil_apply, Pi.single_apply]

/-- column `k'` of `M`, scaled by `c`, as a combination of the values of `M` on the image of `bil C` -/
theorem column_eq_sum (C : n₁ → n₂ → n₃ → ℝ) (c : ℝ)
    (hgram : ∀ k k', ∑ i, ∑ j, C i j k * C i j k' = if k = k' then c else 0)
    (M : Matrix n₃ n₃ ℝ) (r k' : n₃) :
    M r k' * c = ∑ i, ∑ j, C i j k' * (M *ᵥ bil C (Pi.single i 1) (Pi.single j 1)) r := by
  calc M r k' * c = ∑ k, M r k * (if k = k' then c else 0) := by simp
    _ = ∑ k, M r k * ∑ i, ∑ j, C i j k * C i j k' := by simp only [hgram]
    _ = ∑ i, ∑ j, C i j k' * (M *ᵥ bil C (Pi.single i 1) (Pi.single j 1)) r := by
      simp only [bil_single, Matrix.mulVec, dotProduct, Finset.mul_sum]
      rw [Finset.sum_comm]
      refine Finset.sum_congr rfl fun i _ => ?_
      rw [Finset.sum_comm]
      refine Finset.sum_congr rfl fun j _ => ?_
      exact Finset.sum_congr rfl fun k _ => by ring

/-- **two matrices that agree on the image of `bil C` are equal** when the Gram matrix of `C` is `c·1`, `c ≠ 0` -/
theorem matrix_eq_of_gram (C : n₁ → n₂ → n₃ → ℝ) (c : ℝ) (hc : c ≠ 0)
    (hgram : ∀ k k', ∑ i, ∑ j, C i j k * C i j k' = if k = k' then c else 0)
    (A B : Matrix n₃ n₃ ℝ) (h : ∀ u v, A *ᵥ bil C u v = B *ᵥ bil C u v) : A = B := by
  ext r k'
  have hA := column_eq_sum C c hgram A r k'
  have hB := column_eq_sum C c hgram B r k'
  simp only [h] at hA
  exact mul_right_cancel₀ hc (hA.trans hB.symm)

/-- every basis vector is in the span of the image: `c • e_k = Σ_{i,j} C[i,j,k] • bil C e_i e_j` -/
theorem single_eq_sum (C : n₁ → n₂ → n₃ → ℝ) (c : ℝ)
    (hgram : ∀ k k', ∑ i, ∑ j, C i j k * C i j k' = if k = k' then c else 0) (k' : n₃) :
    c • (Pi.single k' 1 : n₃ → ℝ) = ∑ i, ∑ j, C i j k' • bil C (Pi.single i 1) (Pi.single j 1) := by
  funext r
  have := column_eq_sum C c hgram (1 : Matrix n₃ n₃ ℝ) r k'
  simp only [Matrix.one_mulVec] at this
  simp only [Pi.smul_apply, smul_eq_mul, Finset.sum_apply, ← this, Pi.single_apply, Matrix.one_apply]
  by_cases h : r = k' <;> simp [h]

/-- non-vacuity: the cross product on ℝ³ (Levi-Civita constants) has Gram matrix `2·1` -/
example : ∀ k k' : Fin 3, ∑ i, ∑ j, lc i j k * lc i j k' = if k = k' then (2 : ℝ) else 0 := by
  intro k k'
  fin_cases k <;> fin_cases k' <;> simp [Fin.sum_univ_three, lc] <;> norm_num

end E3nnVerif.Theory.BilSpan
