import E3nnVerif.Theory.OneParam
/-
From equivariance of the bilinear map `bil C` to invariance of the coefficient tensor `C`
(the form in which `wigner_3j`'s docstring and property C04 state it):
  `C l m n = Σ_{ijk} C i j k · D₁ i l · D₂ j m · D₃ k n`   whenever `D₃ᵀ D₃ = 1`.
-/
namespace E3nnVerif.Theory
open Matrix
open scoped BigOperators

variable {n₁ n₂ n₃ : Type} [Fintype n₁] [Fintype n₂] [Fintype n₃]
  [DecidableEq n₁] [DecidableEq n₂] [DecidableEq n₃]

theorem bil_single (C : n₁ → n₂ → n₃ → ℝ) (D₁ : Matrix n₁ n₁ ℝ) (D₂ : Matrix n₂ n₂ ℝ) (l : n₁) (m : n₂) (k : n₃) :
    bil C (D₁ *ᵥ Pi.single l 1) (D₂ *ᵥ Pi.single m 1) k = ∑ i, ∑ j, C i j k * D₁ i l * D₂ j m := by
  simp [bil]

theorem bil_single' (C : n₁ → n₂ → n₃ → ℝ) (l : n₁) (m : n₂) (k : n₃) :
    bil C (Pi.single l 1) (Pi.single m 1) k = C l m k := by
  simp [bil, Pi.single_apply, Finset.sum_ite_eq']

/-- invariance of the tensor from equivariance of the bilinear map and orthogonality of `D₃` -/
theorem tensor_invariant_of_bil_equivariant (C : n₁ → n₂ → n₃ → ℝ)
    (D₁ : Matrix n₁ n₁ ℝ) (D₂ : Matrix n₂ n₂ ℝ) (D₃ : Matrix n₃ n₃ ℝ)
    (hD : D₃ᵀ * D₃ = 1)
    (heq : ∀ u v, bil C (D₁ *ᵥ u) (D₂ *ᵥ v) = D₃ *ᵥ bil C u v)
    (l : n₁) (m : n₂) (n : n₃) :
    ∑ i, ∑ j, ∑ k, C i j k * D₁ i l * D₂ j m * D₃ k n = C l m n := by
  have h1 : ∀ k, ∑ i, ∑ j, C i j k * D₁ i l * D₂ j m = ∑ k', D₃ k k' * C l m k' := by
    intro k
    have := congrFun (heq (Pi.single l 1) (Pi.single m 1)) k
    rw [bil_single] at this
    rw [this]
    simp only [mulVec, dotProduct]
    apply Finset.sum_congr rfl; intro k' _
    rw [bil_single']
  calc ∑ i, ∑ j, ∑ k, C i j k * D₁ i l * D₂ j m * D₃ k n
      = ∑ i, ∑ k, ∑ j, C i j k * D₁ i l * D₂ j m * D₃ k n := by
        apply Finset.sum_congr rfl; intro i _; exact Finset.sum_comm
    _ = ∑ k, ∑ i, ∑ j, C i j k * D₁ i l * D₂ j m * D₃ k n := Finset.sum_comm
    _ = ∑ k, (∑ i, ∑ j, C i j k * D₁ i l * D₂ j m) * D₃ k n := by
        simp only [Finset.sum_mul]
    _ = ∑ k, (∑ k', D₃ k k' * C l m k') * D₃ k n := by simp only [h1]
    _ = ∑ k', (∑ k, D₃ᵀ n k * D₃ k k') * C l m k' := by
        simp only [Finset.sum_mul, transpose_apply]
        rw [Finset.sum_comm]
        apply Finset.sum_congr rfl; intro k' _
        apply Finset.sum_congr rfl; intro k _
        ring
    _ = ∑ k', (1 : Matrix n₃ n₃ ℝ) n k' * C l m k' := by
        simp only [← hD, mul_apply]
    _ = C l m n := by
        simp [Matrix.one_apply, Finset.sum_ite_eq]

end E3nnVerif.Theory
