import E3nnVerif.Theory.S2GridQuadrature
import E3nnVerif.Theory.S2GridRoundTrip
/-
`KRExact` split into its two halves: the quadrature half is PROVED for all `N = 2b`
(`quadrature_exact_cos`); what remains is a statement about the Legendre data `P` alone
(cosine expansion of degree `< N` of the products, with the continuous orthonormality integrals).
-/
namespace E3nnVerif.S2Grid
open E3nnVerif Finset

/-- If every product `P_{l,m} P_{l',m}` is, on the grid, a cosine polynomial `Σ_{p<N} c_p cos(pβ)` whose exact
integral `½∫_0^π (…) sin β dβ = Σ_{p even} c_p / (1 − p²)` is `δ_{ll'}/4π`, then `KRExact` holds. -/
theorem krExact_of_cosine_expansion (P : ℕ → ℕ → ℝ) (b L : ℕ) (hb : 0 < b)
    (h : ∀ l l' k k' : ℕ, l ≤ L → l' ≤ L → k ≤ 2 * l → k' ≤ 2 * l' → (k : ℤ) - l = (k' : ℤ) - l' →
      ∃ c : ℕ → ℝ,
        (∀ j, j < 2 * b → P j (l ^ 2 + k) * P j (l' ^ 2 + k')
            = ∑ p ∈ range (2 * b), c p * Real.cos (p * betas (2 * b) j)) ∧
        ∑ p ∈ range (2 * b), c p * (if p % 2 = 0 then 1 / (1 - (p : ℝ) ^ 2) else 0)
            = if l = l' then 1 / (4 * Real.pi) else 0) :
    KRExact P (2 * b) L := by
  intro l l' k k' hl hl' hk hk' hm
  obtain ⟨c, hc1, hc2⟩ := h l l' k k' hl hl' hk hk' hm
  have e : 2 * b / 2 = b := by omega
  rw [e, ← hc2]
  have step : ∀ j ∈ range (2 * b),
      quadratureWeight b j * (((2 * b) ^ 2 : ℕ) : ℝ) * (P j (l ^ 2 + k) * P j (l' ^ 2 + k'))
        = ∑ p ∈ range (2 * b), c p * (quadratureWeight b j * (((2 * b) ^ 2 : ℕ) : ℝ)
            * Real.cos (p * betas (2 * b) j)) := by
    intro j hj
    rw [hc1 j (Finset.mem_range.mp hj), Finset.mul_sum]
    exact Finset.sum_congr rfl fun p _ => by ring
  rw [Finset.sum_congr rfl step, Finset.sum_comm]
  refine Finset.sum_congr rfl fun p hp => ?_
  rw [← Finset.mul_sum, quadrature_exact_cos b p hb (Finset.mem_range.mp hp)]

/-- `KRExact` at band limit 0 for EVERY even resolution `N = 2b ≥ 2` (`P_{0,0} = Y_0 = c`, `c² = 1/4π`):
the quadrature weights are normalised, `Σ_j w_j N² = 1` -/
theorem krExact_band0 (b : ℕ) (hb : 0 < b) (c : ℝ) (hc : c * c = 1 / (4 * Real.pi)) :
    KRExact (fun _ _ => c) (2 * b) 0 := by
  apply krExact_of_cosine_expansion _ b 0 hb
  intro l l' k k' hl hl' _ _ _
  have h0 : l = 0 := by omega
  have h0' : l' = 0 := by omega
  subst h0; subst h0'
  refine ⟨fun p => if p = 0 then c * c else 0, fun j _ => ?_, ?_⟩
  · rw [Finset.sum_eq_single 0]
    · simp
    · intro p _ hp; simp [hp]
    · intro hh; exact absurd (Finset.mem_range.mpr (by omega : 0 < 2 * b)) hh
  · rw [Finset.sum_eq_single 0]
    · simp [hc]
    · intro p _ hp; simp [hp]
    · intro hh; exact absurd (Finset.mem_range.mpr (by omega : 0 < 2 * b)) hh


/-- the quadrature on `a₀ + a₁ cos β + a₂ cos 2β` (needs `N = 2b ≥ 4`) -/
theorem quadrature_three_terms (b : ℕ) (hb : 2 ≤ b) (g : ℕ → ℝ) (a0 a1 a2 : ℝ)
    (hg : ∀ j, g j = a0 + a1 * Real.cos (betas (2 * b) j) + a2 * Real.cos (2 * betas (2 * b) j)) :
    ∑ j ∈ range (2 * b), (quadratureWeight b j : ℝ) * (((2 * b) ^ 2 : ℕ) : ℝ) * g j = a0 - a2 / 3 := by
  have h0 := quadrature_exact_cos b 0 (by omega) (by omega)
  have h1 := quadrature_exact_cos b 1 (by omega) (by omega)
  have h2 := quadrature_exact_cos b 2 (by omega) (by omega)
  simp only [Nat.cast_zero, zero_mul, Real.cos_zero, mul_one, Nat.zero_mod, if_true] at h0
  simp only [Nat.cast_one, one_mul] at h1
  norm_num at h0 h1 h2
  have e : ∀ j ∈ range (2 * b), (quadratureWeight b j : ℝ) * (((2 * b) ^ 2 : ℕ) : ℝ) * g j
      = a0 * ((quadratureWeight b j : ℝ) * (((2 * b) ^ 2 : ℕ) : ℝ))
        + a1 * ((quadratureWeight b j : ℝ) * (((2 * b) ^ 2 : ℕ) : ℝ) * Real.cos (betas (2 * b) j))
        + a2 * ((quadratureWeight b j : ℝ) * (((2 * b) ^ 2 : ℕ) : ℝ) * Real.cos (2 * betas (2 * b) j)) := by
    intro j _; rw [hg j]; ring
  rw [Finset.sum_congr rfl e, Finset.sum_add_distrib, Finset.sum_add_distrib, ← Finset.mul_sum, ← Finset.mul_sum,
    ← Finset.mul_sum]
  push_cast at h0 h1 h2 ⊢
  rw [h0, h1, h2]; ring

/-- a Legendre factor for `lmax = 1` with constants `a0, as, ac`:  `a0`, `as sin β`, `ac cos β`, `as sin β` -/
noncomputable def legendreLin (a0 as ac : ℝ) (N : ℕ) (j i : ℕ) : ℝ :=
  if i = 0 then a0
  else if i = 1 then as * Real.sin (betas N j)
  else if i = 2 then ac * Real.cos (betas N j)
  else if i = 3 then as * Real.sin (betas N j)
  else 0

theorem krExact_legendreLin (a0 as ac : ℝ) (h0 : a0 * a0 = 1 / (4 * Real.pi))
    (hs : as * as = 3 / (8 * Real.pi)) (hc : ac * ac = 3 / (4 * Real.pi)) (b : ℕ) (hb : 2 ≤ b) :
    KRExact (legendreLin a0 as ac (2 * b)) (2 * b) 1 := by
  have hpi : (0 : ℝ) < Real.pi := Real.pi_pos
  have cosq : ∀ x : ℝ, Real.cos x * Real.cos x = 1 / 2 + 1 / 2 * Real.cos (2 * x) := by
    intro x; rw [Real.cos_two_mul]; ring
  have sinq : ∀ x : ℝ, Real.sin x * Real.sin x = 1 / 2 - 1 / 2 * Real.cos (2 * x) := by
    intro x; rw [Real.cos_two_mul]; have := Real.sin_sq_add_cos_sq x; nlinarith
  have sq : ∀ a s : ℝ, a * s * (a * s) = (a * a) * (s * s) := by intros; ring
  have e : 2 * b / 2 = b := by omega
  intro l l' k k' hl hl' hk hk' hm
  rw [e]
  have hl1 : l = 0 ∨ l = 1 := by omega
  have hl1' : l' = 0 ∨ l' = 1 := by omega
  rcases hl1 with rfl | rfl <;> rcases hl1' with rfl | rfl
  · have : k = 0 := by omega
    have : k' = 0 := by omega
    subst k; subst k'
    rw [quadrature_three_terms b hb _ (a0 * a0) 0 0 (fun j => by simp [legendreLin])]
    simp [h0]
  · have : k = 0 := by omega
    have : k' = 1 := by omega
    subst k; subst k'
    rw [quadrature_three_terms b hb _ 0 (a0 * ac) 0 (fun j => by simp [legendreLin]; ring)]
    simp
  · have : k' = 0 := by omega
    have : k = 1 := by omega
    subst k; subst k'
    rw [quadrature_three_terms b hb _ 0 (a0 * ac) 0 (fun j => by simp [legendreLin]; ring)]
    simp
  · have hkk : k = k' := by omega
    subst hkk
    have hk3 : k = 0 ∨ k = 1 ∨ k = 2 := by omega
    rcases hk3 with rfl | rfl | rfl
    · rw [quadrature_three_terms b hb _ (as * as / 2) 0 (-(as * as / 2))
        (fun j => by simp only [legendreLin]; norm_num; rw [sq, sinq]; ring)]
      rw [hs]; simp; field_simp; ring
    · rw [quadrature_three_terms b hb _ (ac * ac / 2) 0 (ac * ac / 2)
        (fun j => by simp only [legendreLin]; norm_num; rw [sq, cosq]; ring)]
      rw [hc]; simp; field_simp; ring
    · rw [quadrature_three_terms b hb _ (as * as / 2) 0 (-(as * as / 2))
        (fun j => by simp only [legendreLin]; norm_num; rw [sq, sinq]; ring)]
      rw [hs]; simp; field_simp; ring

theorem legendre1_real (N : ℕ) :
    (legendre1 N : ℕ → ℕ → ℝ)
      = legendreLin (1 / Real.sqrt (4 * Real.pi)) (Real.sqrt (3 / (8 * Real.pi))) (Real.sqrt (3 / (4 * Real.pi))) N := by
  funext j i
  simp only [legendre1, legendreLin, one_real, zero_real, Scalar.sqrt_real, Scalar.ofNat_real, Scalar.pi_real,
    Scalar.sin_real, Scalar.cos_real, Nat.cast_ofNat]

/-- `KRExact` is a THEOREM for band limit `1` and every even `N ≥ 4`, with the explicit Legendre factor
`legendre1` of the model -/
theorem krExact_lmax1 (b : ℕ) (hb : 2 ≤ b) : KRExact (legendre1 (2 * b)) (2 * b) 1 := by
  have hpi : (0 : ℝ) < Real.pi := Real.pi_pos
  rw [legendre1_real]
  apply krExact_legendreLin
  · rw [div_mul_div_comm, Real.mul_self_sqrt (by positivity), one_mul]
  · exact Real.mul_self_sqrt (by positivity)
  · exact Real.mul_self_sqrt (by positivity)
  · exact hb

/-- `KRExact P N L` for a smaller band limit -/
theorem KRExact.mono {P : ℕ → ℕ → ℝ} {N L L' : ℕ} (h : KRExact P N L) (hL : L' ≤ L) : KRExact P N L' :=
  fun l l' k k' hl hl' hk hk' hm => h l l' k k' (by omega) (by omega) hk hk' hm

end E3nnVerif.S2Grid
