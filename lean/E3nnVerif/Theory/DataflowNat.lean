/-
Relabelling- and batch-soundness of the dataflow IR (property C15, parts (iii) and (iv)).

Both are instances of ONE naturality statement.  A `Morphism Γ₁ Γ₂` maps nodes, edges and graphs of `Γ₁` injectively
to those of `Γ₂`, commutes with `src`, `dst`, `batch`, and is *fibre-wise onto*: every edge of `Γ₂` arriving at
the image of a node is the image of an edge arriving at that node, every node of `Γ₂` lying in the image of a
graph is the image of a node of that graph.
  * a relabelling of nodes/edges (a permutation of the rows of every tensor) is a morphism in which all three
    maps are bijections (`full`);
  * the inclusion of one graph of a batch (its nodes, the edges between them) into the batch is a morphism as soon
    as no edge joins two different graphs (`Graph.inclusion`).
`nat_sound`: evaluating a well-typed program commutes with restriction along a morphism — for every variable
whose type is batch-local, and for all variables when the morphism is full.
-/
import E3nnVerif.Theory.Dataflow

namespace E3nnVerif.Dataflow

open E3nnVerif.Model.Irreps (Irreps)

variable {N₁ E₁ G₁ N₂ E₂ G₂ F : Type}
variable [Fintype N₁] [Fintype E₁] [DecidableEq N₁] [DecidableEq G₁]
variable [Fintype N₂] [Fintype E₂] [DecidableEq N₂] [DecidableEq G₂]
variable [AddCommGroup F] [Module ℝ F]

structure Morphism (Γ₁ : Graph N₁ E₁ G₁) (Γ₂ : Graph N₂ E₂ G₂) where
  fN : N₁ → N₂
  fE : E₁ → E₂
  fG : G₁ → G₂
  src_comm : ∀ e, Γ₂.src (fE e) = fN (Γ₁.src e)
  dst_comm : ∀ e, Γ₂.dst (fE e) = fN (Γ₁.dst e)
  batch_comm : ∀ n, Γ₂.batch (fN n) = fG (Γ₁.batch n)
  fN_inj : Function.Injective fN
  fE_inj : Function.Injective fE
  /-- fibre-wise onto over `dst` -/
  dst_onto : ∀ n e₂, Γ₂.dst e₂ = fN n → ∃ e₁, fE e₁ = e₂ ∧ Γ₁.dst e₁ = n
  /-- fibre-wise onto over `batch` -/
  batch_onto : ∀ g n₂, Γ₂.batch n₂ = fG g → ∃ n₁, fN n₁ = n₂ ∧ Γ₁.batch n₁ = g

variable {Γ₁ : Graph N₁ E₁ G₁} {Γ₂ : Graph N₂ E₂ G₂}

/-- the index map of each shape class -/
def Morphism.app (φ : Morphism Γ₁ Γ₂) : (s : Shape) → Idx N₁ E₁ G₁ s → Idx N₂ E₂ G₂ s
  | .node => φ.fN
  | .edge => φ.fE
  | .graph => φ.fG
  | .glob => id

/-- restriction relation: the value over `Γ₁` is the value over `Γ₂` read through the morphism.
It is only claimed for batch-local types, unless the morphism is `full`. -/
def Morphism.Rel (φ : Morphism Γ₁ Γ₂) (full : Prop) (τ : Ty) (v₁ : Val N₁ E₁ G₁ F) (v₂ : Val N₂ E₂ G₂ F) : Prop :=
  (τ.loc = true ∨ full) → ∀ s, τ.shape = s → ∀ i : Idx N₁ E₁ G₁ s, v₁ s i = v₂ s (φ.app s i)

/-- hypothesis on instructions: the inputs over `Γ₁` are the restricted inputs over `Γ₂` -/
def NatHyp (φ : Morphism Γ₁ Γ₂) (full : Prop) (inp₁ : Nat → Val N₁ E₁ G₁ F) (inp₂ : Nat → Val N₂ E₂ G₂ F) :
    Instr → Prop
  | .input id τ => φ.Rel full τ (inp₁ id) (inp₂ id)
  | _ => True

theorem and_loc {a b : Bool} {full : Prop} (h : (a && b) = true ∨ full) : (a = true ∨ full) ∧ (b = true ∨ full) := by
  rcases h with h | h
  · simp at h; exact ⟨Or.inl h.1, Or.inl h.2⟩
  · exact ⟨Or.inr h, Or.inr h⟩

theorem argRows_nat (φ : Morphism Γ₁ Γ₂) (full : Prop) {tys : List Ty}
    {v₁ : List (Val N₁ E₁ G₁ F)} {v₂ : List (Val N₂ E₂ G₂ F)}
    (h : AllRel (φ.Rel (F := F) full) tys v₁ v₂) {s : Shape} {l : Bool} (hl : l = true ∨ full)
    (i : Idx N₁ E₁ G₁ s) {args : List Var}
    (hargs : ∀ x ∈ args, ∃ τa, tys[x]? = some τa ∧ τa.shape = s ∧ (l = true → τa.loc = true)) :
    argRows v₁ args s i = argRows v₂ args s (φ.app s i) := by
  simp only [argRows]
  apply List.map_congr_left
  intro x hx
  obtain ⟨τa, h1, h2, h3⟩ := hargs x hx
  exact h.get h1 (hl.imp h3 id) s h2 i

theorem forall₂_mem {α β : Type} {R : α → β → Prop} {l₁ : List α} {l₂ : List β} (h : List.Forall₂ R l₁ l₂) :
    ∀ a ∈ l₁, ∃ b, R a b := by
  induction h with
  | nil => intro a ha; cases ha
  | cons hab _ ih =>
    intro a ha
    rcases List.mem_cons.mp ha with rfl | ha
    · exact ⟨_, hab⟩
    · exact ih a ha

/-- **one instruction** -/
theorem nat_step (φ : Morphism Γ₁ Γ₂) (full : Prop) (hfull : full → Function.Surjective φ.fN) (S : Sem F)
    (inp₁ : Nat → Val N₁ E₁ G₁ F) (inp₂ : Nat → Val N₂ E₂ G₂ F)
    (tys : List Ty) (v₁ : List (Val N₁ E₁ G₁ F)) (v₂ : List (Val N₂ E₂ G₂ F)) (i : Instr) (τ : Ty)
    (hP : NatHyp φ full inp₁ inp₂ i) (hτ : i.type tys = some τ)
    (h : AllRel (φ.Rel (F := F) full) tys v₁ v₂) :
    φ.Rel full τ (evalInstr Γ₁ S inp₁ v₁ i) (evalInstr Γ₂ S inp₂ v₂ i) := by
  cases i with
  | input id σ =>
    obtain ⟨rfl, _⟩ := inv_input hτ
    exact hP
  | gatherSrc x =>
    obtain ⟨τx, hx, hs, rfl⟩ := inv_gatherSrc hτ
    intro hl s hsh j
    cases hsh
    have := h.get hx hl .node hs (Γ₁.src j)
    simpa [evalInstr, Morphism.app, φ.src_comm] using this
  | gatherDst x =>
    obtain ⟨τx, hx, hs, rfl⟩ := inv_gatherDst hτ
    intro hl s hsh j
    cases hsh
    have := h.get hx hl .node hs (Γ₁.dst j)
    simpa [evalInstr, Morphism.app, φ.dst_comm] using this
  | sub x y =>
    obtain ⟨τx, τy, hx, hy, hs, hcase⟩ := inv_sub hτ
    intro hl s hsh j
    have hl' : (τx.loc && τy.loc) = true ∨ full := by
      rcases hcase with ⟨_, _, rfl⟩ | ⟨_, _, _, rfl⟩ <;> exact hl
    have hsh' : τx.shape = s := by
      rcases hcase with ⟨_, _, rfl⟩ | ⟨_, _, _, rfl⟩ <;> exact hsh
    obtain ⟨lx, ly⟩ := and_loc hl'
    simp only [evalInstr, h.get hx lx s hsh' j, h.get hy ly s (hs ▸ hsh') j]
  | add x y =>
    obtain ⟨τx, τy, hx, hy, hs, _, _, _, rfl⟩ := inv_add hτ
    intro hl s hsh j
    obtain ⟨lx, ly⟩ := and_loc hl
    simp only [evalInstr, h.get hx lx s hsh j, h.get hy ly s (hs ▸ hsh) j]
  | scatterDst x =>
    obtain ⟨τx, hx, hs, _, rfl⟩ := inv_scatterDst hτ
    intro hl s hsh j
    obtain rfl : Shape.node = s := hsh
    show ∑ e ∈ Finset.univ.filter (fun e => Γ₁.dst e = j), getV v₁ x .edge e
      = ∑ e ∈ Finset.univ.filter (fun e => Γ₂.dst e = φ.fN j), getV v₂ x .edge e
    refine Finset.sum_bij (fun e _ => φ.fE e) ?_ ?_ ?_ ?_
    · intro e he
      simp only [Finset.mem_filter, Finset.mem_univ, true_and] at he ⊢
      rw [φ.dst_comm, he]
    · intro a _ b _ hab
      exact φ.fE_inj hab
    · intro e₂ he₂
      simp only [Finset.mem_filter, Finset.mem_univ, true_and] at he₂
      obtain ⟨e₁, h1, h2⟩ := φ.dst_onto j e₂ he₂
      exact ⟨e₁, by simp [h2], h1⟩
    · intro e _
      exact h.get hx hl .edge hs e
  | scatterBatch x =>
    obtain ⟨τx, hx, hs, _, rfl⟩ := inv_scatterBatch hτ
    intro hl s hsh j
    obtain rfl : Shape.graph = s := hsh
    show ∑ n ∈ Finset.univ.filter (fun n => Γ₁.batch n = j), getV v₁ x .node n
      = ∑ n ∈ Finset.univ.filter (fun n => Γ₂.batch n = φ.fG j), getV v₂ x .node n
    refine Finset.sum_bij (fun n _ => φ.fN n) ?_ ?_ ?_ ?_
    · intro n hn
      simp only [Finset.mem_filter, Finset.mem_univ, true_and] at hn ⊢
      rw [φ.batch_comm, hn]
    · intro a _ b _ hab
      exact φ.fN_inj hab
    · intro n₂ hn₂
      simp only [Finset.mem_filter, Finset.mem_univ, true_and] at hn₂
      obtain ⟨n₁, h1, h2⟩ := φ.batch_onto j n₂ hn₂
      exact ⟨n₁, by simp [h2], h1⟩
    · intro n _
      exact h.get hx hl .node hs n
  | reduceAll x =>
    obtain ⟨τx, hx, hs, _, rfl⟩ := inv_reduceAll hτ
    intro hl s hsh j
    cases hsh
    have hf : full := by
      rcases hl with hl | hl
      · cases hl
      · exact hl
    simp only [evalInstr]
    refine Fintype.sum_bijective φ.fN ⟨φ.fN_inj, hfull hf⟩ _ _ ?_
    intro n
    exact h.get hx (Or.inr hf) .node hs n
  | bcast s' x =>
    obtain ⟨τx, hx, hs, rfl⟩ := inv_bcast hτ
    intro hl s _ j
    have := h.get hx hl .glob hs ()
    simpa [evalInstr, Morphism.app] using this
  | cat d₁ x y =>
    obtain ⟨τx, τy, hx, hy, hs, _, _, _, rfl⟩ := inv_cat hτ
    intro hl s hsh j
    obtain ⟨lx, ly⟩ := and_loc hl
    simp only [evalInstr, h.get hx lx s hsh j, h.get hy ly s (hs ▸ hsh) j]
  | mul c x =>
    obtain ⟨τs, τx, hc, hx, hs, _, _, _, rfl⟩ := inv_mul hτ
    intro hl s hsh j
    obtain ⟨lc, lx⟩ := and_loc hl
    simp only [evalInstr, h.get hc lc s (hs ▸ hsh) j, h.get hx lx s hsh j]
  | scale c x =>
    obtain ⟨τx, hx, _, rfl⟩ := inv_scale hτ
    intro hl s hsh j
    simp only [evalInstr, h.get hx hl s hsh j]
  | mapInv name n args =>
    obtain ⟨s', l, rfl, hargs⟩ := inv_mapInv hτ
    intro hl s hsh j
    cases hsh
    simp only [evalInstr]
    rw [argRows_nat φ full h hl j (fun x hx => by
      obtain ⟨τa, h1, h2, _, _, h5⟩ := hargs x hx
      exact ⟨τa, h1, h2, h5⟩)]
  | prim name ins out args =>
    obtain ⟨s', l, rfl, hargs⟩ := inv_prim hτ
    intro hl s hsh j
    cases hsh
    simp only [evalInstr]
    rw [argRows_nat φ full h hl j (fun x hx => by
      obtain ⟨ρ, τa, h1, h2, _, _, h5⟩ := forall₂_mem hargs x hx
      exact ⟨τa, h1, h2, h5⟩)]

/-- **Naturality.**  For every well-typed program and every morphism `φ : Γ₁ → Γ₂`: if the inputs over `Γ₁` are the
inputs over `Γ₂` read through `φ`, then so is every batch-local variable (every variable if `φ` is full).
No hypothesis on primitives: they act row by row. -/
theorem nat_sound (φ : Morphism Γ₁ Γ₂) (full : Prop) (hfull : full → Function.Surjective φ.fN) (S : Sem F)
    (inp₁ : Nat → Val N₁ E₁ G₁ F) (inp₂ : Nat → Val N₂ E₂ G₂ F)
    (p : Prog) (tys : List Ty) (hc : check p = some tys)
    (hP : ∀ i ∈ p, NatHyp φ full inp₁ inp₂ i)
    (k : Var) (τ : Ty) (hk : tys[k]? = some τ) :
    φ.Rel full τ (getV (eval Γ₁ S inp₁ p) k) (getV (eval Γ₂ S inp₂ p) k) :=
  fundamental_closed Γ₁ Γ₂ S S inp₁ inp₂ (φ.Rel full) (NatHyp φ full inp₁ inp₂)
    (fun tys v₁ v₂ i τ hPi hτ h => nat_step φ full hfull S inp₁ inp₂ tys v₁ v₂ i τ hPi hτ h) p tys hP hc k τ hk

/-! ## the two instances -/

/-- a relabelling: bijections on nodes, edges and graphs that commute with the structure maps -/
def Morphism.ofEquiv (σN : N₁ ≃ N₂) (σE : E₁ ≃ E₂) (σG : G₁ ≃ G₂)
    (hsrc : ∀ e, Γ₂.src (σE e) = σN (Γ₁.src e)) (hdst : ∀ e, Γ₂.dst (σE e) = σN (Γ₁.dst e))
    (hbatch : ∀ n, Γ₂.batch (σN n) = σG (Γ₁.batch n)) : Morphism Γ₁ Γ₂ where
  fN := σN
  fE := σE
  fG := σG
  src_comm := hsrc
  dst_comm := hdst
  batch_comm := hbatch
  fN_inj := σN.injective
  fE_inj := σE.injective
  dst_onto := by
    intro n e₂ he
    refine ⟨σE.symm e₂, by simp, ?_⟩
    apply σN.injective
    rw [← hdst]; simpa using he
  batch_onto := by
    intro g n₂ hn
    refine ⟨σN.symm n₂, by simp, ?_⟩
    apply σG.injective
    rw [← hbatch]; simpa using hn

/-- the graph `g` of a batch on its own: its nodes, the edges arriving at them, one graph -/
def Graph.restrict (Γ : Graph N₂ E₂ G₂) (g : G₂) (nocross : ∀ e, Γ.batch (Γ.src e) = Γ.batch (Γ.dst e)) :
    Graph {n : N₂ // Γ.batch n = g} {e : E₂ // Γ.batch (Γ.dst e) = g} Unit where
  src := fun e => ⟨Γ.src e.1, (nocross e.1).trans e.2⟩
  dst := fun e => ⟨Γ.dst e.1, e.2⟩
  batch := fun _ => ()

/-- the inclusion of one graph into its batch is a morphism, provided no edge joins two graphs -/
def Graph.inclusion (Γ : Graph N₂ E₂ G₂) (g : G₂) (nocross : ∀ e, Γ.batch (Γ.src e) = Γ.batch (Γ.dst e)) :
    Morphism (Γ.restrict g nocross) Γ where
  fN := Subtype.val
  fE := Subtype.val
  fG := fun _ => g
  src_comm := fun _ => rfl
  dst_comm := fun _ => rfl
  batch_comm := fun n => n.2
  fN_inj := Subtype.val_injective
  fE_inj := Subtype.val_injective
  dst_onto := by
    intro n e₂ he
    exact ⟨⟨e₂, by rw [he]; exact n.2⟩, rfl, Subtype.ext he⟩
  batch_onto := by
    intro _ n₂ hn
    exact ⟨⟨n₂, hn⟩, rfl, rfl⟩

end E3nnVerif.Dataflow
