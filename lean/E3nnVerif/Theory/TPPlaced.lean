import Mathlib.Data.List.Basic
import Mathlib.Data.List.Perm.Basic
import E3nnVerif.Theory.TPWeights
/-
The variable layout of a batched tensor-product program and the meaning of `monoPlaced` (C19 b, c).

Variables: `x1[b,i] = b·d1 + i`, `x2[b,j] = B·d1 + b·d2 + j`, `w[bw,n] = B·d1 + B·d2 + bw·nw + n`.
`monoPlaced_spec`: a well-placed monomial is, up to the order of its factors, `x1[b,i]·x2[b,j]` (an unweighted path
connects the blocks of `i`, `j` to the block of the output component) or `x1[b,i]·x2[b,j]·w[bw,n]` where `n` lies in the
weight slice of an instruction that connects exactly these blocks.
-/
namespace E3nnVerif.Model.TP
open E3nnVerif.Exact

/-- first variable id after the `x1` block -/
def T1 (c : Cfg) : Nat := c.B * totalDim c.in1
/-- first variable id after the `x2` block -/
def T2 (c : Cfg) : Nat := c.B * totalDim c.in1 + c.B * totalDim c.in2
/-- number of weight rows -/
def Bw (c : Cfg) : Nat := if c.shared then 1 else c.B

def x1Var (c : Cfg) (b i : Nat) : Nat := b * totalDim c.in1 + i
def x2Var (c : Cfg) (b j : Nat) : Nat := T1 c + (b * totalDim c.in2 + j)
def wVar (c : Cfg) (bw n : Nat) : Nat := T2 c + (bw * weightNumel c + n)

theorem idx_mod {b k d : Nat} (hk : k < d) : (b * d + k) % d = k := by
  rw [Nat.mul_comm, Nat.mul_add_mod, Nat.mod_eq_of_lt hk]
theorem idx_div {b k d : Nat} (hk : k < d) : (b * d + k) / d = b := by
  have hd : 0 < d := by omega
  rw [Nat.mul_comm, Nat.mul_add_div hd, Nat.div_eq_of_lt hk, Nat.add_zero]
theorem idx_lt {b k d B : Nat} (hk : k < d) (hb : b < B) : b * d + k < B * d := by
  calc b * d + k < b * d + d := by omega
    _ = (b + 1) * d := by rw [Nat.add_mul, Nat.one_mul]
    _ ≤ B * d := Nat.mul_le_mul_right _ hb
theorem div_mod_decomp (v d : Nat) : v = v / d * d + v % d := by
  rw [Nat.mul_comm]; exact (Nat.div_add_mod v d).symm
theorem pos_of_lt_mul {v B d : Nat} (h : v < B * d) : 0 < d := by
  rcases Nat.eq_zero_or_pos d with h0 | h0
  · subst h0; simp at h
  · exact h0
theorem div_lt_of_lt_mul' {v B d : Nat} (h : v < B * d) : v / d < B :=
  Nat.div_lt_of_lt_mul (by rwa [Nat.mul_comm] at h)

/-! ### `classify` is the inverse of the layout -/

theorem classify_x1 {c : Cfg} {v b i : Nat} (h : classify c v = .x1 b i) :
    v < T1 c ∧ b < c.B ∧ i < totalDim c.in1 ∧ v = x1Var c b i := by
  unfold classify at h
  simp only at h
  split_ifs at h with h1 h2 h3
  · injection h with hb hi
    have hd := pos_of_lt_mul h1
    refine ⟨h1, ?_, ?_, ?_⟩
    · rw [← hb]; exact div_lt_of_lt_mul' h1
    · rw [← hi]; exact Nat.mod_lt _ hd
    · rw [← hb, ← hi]; exact div_mod_decomp v _

theorem classify_x2 {c : Cfg} {v b j : Nat} (h : classify c v = .x2 b j) :
    T1 c ≤ v ∧ v < T2 c ∧ b < c.B ∧ j < totalDim c.in2 ∧ v = x2Var c b j := by
  unfold classify at h
  simp only at h
  split_ifs at h with h1 h2 h3
  · injection h with hb hj
    have h1' : T1 c ≤ v := Nat.le_of_not_lt h1
    have hlt : v - c.B * totalDim c.in1 < c.B * totalDim c.in2 := by unfold T1 at h1'; omega
    have hd := pos_of_lt_mul hlt
    refine ⟨h1', h2, ?_, ?_, ?_⟩
    · rw [← hb]; exact div_lt_of_lt_mul' hlt
    · rw [← hj]; exact Nat.mod_lt _ hd
    · rw [← hb, ← hj]; unfold x2Var
      have := div_mod_decomp (v - c.B * totalDim c.in1) (totalDim c.in2)
      unfold T1 at *; omega

theorem classify_w {c : Cfg} {v bw n : Nat} (h : classify c v = .w bw n) :
    T2 c ≤ v ∧ bw < Bw c ∧ n < weightNumel c ∧ v = wVar c bw n := by
  unfold classify at h
  simp only at h
  have hBw : (if c.shared then 1 else c.B) = Bw c := rfl
  rw [hBw] at h
  split_ifs at h with h1 h2 h3
  · injection h with hb hn
    simp only [bne_iff_ne, ne_eq, Bool.and_eq_true, decide_eq_true_eq] at h3
    have h2' : T2 c ≤ v := by unfold T2; omega
    have hd : 0 < weightNumel c := Nat.pos_of_ne_zero h3.1
    refine ⟨h2', ?_, ?_, ?_⟩
    · rw [← hb]; exact div_lt_of_lt_mul' h3.2
    · rw [← hn]; exact Nat.mod_lt _ hd
    · rw [← hb, ← hn]; unfold wVar
      have := div_mod_decomp (v - (c.B * totalDim c.in1 + c.B * totalDim c.in2)) (weightNumel c)
      unfold T2 at *; omega

theorem classify_x1Var {c : Cfg} {b i : Nat} (hb : b < c.B) (hi : i < totalDim c.in1) :
    classify c (x1Var c b i) = .x1 b i := by
  unfold classify x1Var
  simp only
  rw [if_pos (idx_lt hi hb), idx_div hi, idx_mod hi]

theorem classify_x2Var {c : Cfg} {b j : Nat} (hb : b < c.B) (hj : j < totalDim c.in2) :
    classify c (x2Var c b j) = .x2 b j := by
  unfold classify x2Var T1
  simp only
  have h := idx_lt hj hb
  rw [if_neg (by omega), if_pos (by omega)]
  rw [show c.B * totalDim c.in1 + (b * totalDim c.in2 + j) - c.B * totalDim c.in1 = b * totalDim c.in2 + j by omega,
    idx_div hj, idx_mod hj]

theorem classify_wVar {c : Cfg} {bw n : Nat} (hb : bw < Bw c) (hn : n < weightNumel c) :
    classify c (wVar c bw n) = .w bw n := by
  unfold classify wVar T2
  simp only
  have h := idx_lt hn hb
  rw [if_neg (by omega), if_neg (by omega)]
  rw [show c.B * totalDim c.in1 + c.B * totalDim c.in2 + (bw * weightNumel c + n)
      - (c.B * totalDim c.in1 + c.B * totalDim c.in2) = bw * weightNumel c + n by omega]
  have hne : (weightNumel c != 0) = true := by simp; omega
  unfold Bw at h
  rw [if_pos (by simp [hne, h]), idx_div hn, idx_mod hn]

/-! ### `monoPlaced` in terms of named selectors -/

def selX1 : VarKind → Option (Nat × Nat) | .x1 b i => some (b, i) | _ => none
def selX2 : VarKind → Option (Nat × Nat) | .x2 b i => some (b, i) | _ => none
def selW : VarKind → Option (Nat × Nat) | .w b i => some (b, i) | _ => none
def isOtherK : VarKind → Bool | .other => true | _ => false

theorem monoPlaced_eq (c : Cfg) (b k : Nat) (m : Mono) : monoPlaced c b k m =
  (let ks := m.map (classify c)
   match ks.filterMap selX1, ks.filterMap selX2 with
  | [(bx, i)], [(by_, j)] =>
    let io := (locate c.out k).1
    let i1 := (locate c.in1 i).1
    let i2 := (locate c.in2 j).1
    !(ks.any isOtherK) && bx == b && by_ == b &&
    (match ks.filterMap selW with
     | [] => c.ins.any fun p => !p.hasW && p.i1 == i1 && p.i2 == i2 && p.io == io
     | [(bw, n)] => (bw == (if c.shared then 0 else b)) &&
        (match pathOfWeight c n with
         | some kk => let p := c.ins.getD kk default; p.i1 == i1 && p.i2 == i2 && p.io == io
         | none => false)
     | _ => false)
  | _, _ => false) := rfl

section Generic
variable {α β : Type}

theorem filterMap_singleton {f : α → Option β} {l : List α} {a : β} (h : l.filterMap f = [a]) :
    ∃ x, l.filter (fun v => (f v).isSome) = [x] ∧ f x = some a := by
  induction l with
  | nil => simp at h
  | cons v t ih =>
    rw [List.filterMap_cons] at h
    cases hv : f v with
    | none =>
      rw [hv] at h
      obtain ⟨x, hx, hfx⟩ := ih h
      exact ⟨x, by simp [hv, hx], hfx⟩
    | some bb =>
      rw [hv] at h
      simp only [List.cons.injEq] at h
      refine ⟨v, ?_, by rw [hv, h.1]⟩
      have : t.filter (fun v => (f v).isSome) = [] := by
        rw [List.filter_eq_nil_iff]
        intro a ha
        have := List.filterMap_eq_nil_iff.mp h.2 a ha
        simp [this]
      simp [hv, this]

theorem filterMap_nil {f : α → Option β} {l : List α} (h : l.filterMap f = []) :
    l.filter (fun v => (f v).isSome) = [] := by
  rw [List.filter_eq_nil_iff]
  intro a ha
  have := List.filterMap_eq_nil_iff.mp h a ha
  simp [this]

/-- a list is a permutation of its four parts under an exhaustive, exclusive four-way classification -/
theorem perm_four (l : List α) (p1 p2 p3 p4 : α → Bool)
    (h : ∀ v, (p1 v = true ∧ p2 v = false ∧ p3 v = false ∧ p4 v = false) ∨
              (p1 v = false ∧ p2 v = true ∧ p3 v = false ∧ p4 v = false) ∨
              (p1 v = false ∧ p2 v = false ∧ p3 v = true ∧ p4 v = false) ∨
              (p1 v = false ∧ p2 v = false ∧ p3 v = false ∧ p4 v = true)) :
    l.Perm (l.filter p1 ++ (l.filter p2 ++ (l.filter p3 ++ l.filter p4))) := by
  induction l with
  | nil => simp
  | cons v t ih =>
    rcases h v with ⟨a, b, c, d⟩ | ⟨a, b, c, d⟩ | ⟨a, b, c, d⟩ | ⟨a, b, c, d⟩
    · simp only [List.filter_cons, a, b, c, d, if_true, Bool.false_eq_true, if_false, List.cons_append]
      exact ih.cons v
    · simp only [List.filter_cons, a, b, c, d, if_true, Bool.false_eq_true, if_false, List.cons_append]
      exact (ih.cons v).trans List.perm_middle.symm
    · simp only [List.filter_cons, a, b, c, d, if_true, Bool.false_eq_true, if_false]
      refine (ih.cons v).trans ?_
      have := (List.perm_middle (a := v) (l₁ := t.filter p1 ++ t.filter p2) (l₂ := t.filter p3 ++ t.filter p4)).symm
      simpa [List.append_assoc] using this
    · simp only [List.filter_cons, a, b, c, d, if_true, Bool.false_eq_true, if_false]
      refine (ih.cons v).trans ?_
      have := (List.perm_middle (a := v) (l₁ := t.filter p1 ++ (t.filter p2 ++ t.filter p3)) (l₂ := t.filter p4)).symm
      simpa [List.append_assoc] using this

end Generic

/-- **meaning of `monoPlaced`** -/
theorem monoPlaced_spec {c : Cfg} {b k : Nat} {m : Mono} (h : monoPlaced c b k m = true) :
    ∃ x y i j, classify c x = .x1 b i ∧ classify c y = .x2 b j ∧
      ((m.Perm [x, y] ∧ ∃ p ∈ c.ins, p.hasW = false ∧ p.i1 = (locate c.in1 i).1 ∧ p.i2 = (locate c.in2 j).1 ∧
          p.io = (locate c.out k).1) ∨
       (∃ w n kk, classify c w = .w (if c.shared then 0 else b) n ∧ m.Perm [x, y, w] ∧
          pathOfWeight c n = some kk ∧ (insAt c kk).i1 = (locate c.in1 i).1 ∧
          (insAt c kk).i2 = (locate c.in2 j).1 ∧ (insAt c kk).io = (locate c.out k).1)) := by
  rw [monoPlaced_eq] at h
  simp only [List.filterMap_map] at h
  have hperm := perm_four m (fun v => ((selX1 ∘ classify c) v).isSome) (fun v => ((selX2 ∘ classify c) v).isSome)
    (fun v => ((selW ∘ classify c) v).isSome) (fun v => (isOtherK ∘ classify c) v) (by
      intro v
      simp only [Function.comp]
      cases classify c v <;> simp [selX1, selX2, selW, isOtherK])
  split at h
  · rename_i bx i by_ j hxs hys
    simp only [Bool.and_eq_true, Bool.not_eq_true', beq_iff_eq] at h
    obtain ⟨⟨⟨hbad, hbx⟩, hby⟩, hrest⟩ := h
    obtain ⟨x, hfx, hx⟩ := filterMap_singleton hxs
    obtain ⟨y, hfy, hy⟩ := filterMap_singleton hys
    have hcx : classify c x = .x1 b i := by
      simp only [Function.comp] at hx
      cases hc : classify c x <;> rw [hc] at hx <;> simp [selX1] at hx
      rw [hx.1, hx.2, hbx]
    have hcy : classify c y = .x2 b j := by
      simp only [Function.comp] at hy
      cases hc : classify c y <;> rw [hc] at hy <;> simp [selX2] at hy
      rw [hy.1, hy.2, hby]
    have hfo : m.filter (fun v => (isOtherK ∘ classify c) v) = [] := by
      rw [List.filter_eq_nil_iff]
      intro a ha
      rw [List.any_map] at hbad
      have := List.any_eq_false.mp hbad a ha
      simpa using this
    rw [hfx, hfy, hfo] at hperm
    refine ⟨x, y, i, j, hcx, hcy, ?_⟩
    split at hrest
    · rename_i hws
      left
      rw [filterMap_nil hws] at hperm
      refine ⟨by simpa using hperm, ?_⟩
      obtain ⟨p, hp, hpp⟩ := List.any_eq_true.mp hrest
      simp only [Bool.and_eq_true, Bool.not_eq_true', beq_iff_eq] at hpp
      exact ⟨p, hp, hpp.1.1.1, hpp.1.1.2, hpp.1.2, hpp.2⟩
    · rename_i bw n hws
      right
      obtain ⟨w, hfw, hw⟩ := filterMap_singleton hws
      simp only [Bool.and_eq_true, beq_iff_eq] at hrest
      obtain ⟨hbw, hpath⟩ := hrest
      have hcw : classify c w = .w bw n := by
        simp only [Function.comp] at hw
        cases hc : classify c w <;> rw [hc] at hw <;> simp [selW] at hw
        rw [hw.1, hw.2]
      rw [hfw] at hperm
      split at hpath
      · rename_i kk hkk
        simp only [Bool.and_eq_true, beq_iff_eq] at hpath
        exact ⟨w, n, kk, by rw [hcw, hbw], by simpa using hperm, hkk, hpath.1.1, hpath.1.2, hpath.2⟩
      · exact absurd hpath (by decide)
    · exact absurd hrest (by decide)
  · exact absurd h (by decide)

end E3nnVerif.Model.TP
