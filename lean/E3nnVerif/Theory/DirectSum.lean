import Mathlib.Algebra.BigOperators.Fin
import Mathlib.Algebra.BigOperators.Intervals
import Mathlib.Data.Matrix.Basic
import Mathlib.Data.Real.Basic
import Mathlib.Tactic.Ring
import Mathlib.Tactic.Linarith
import E3nnVerif.Model.WignerD
/-
Theory of `direct_sum` as the code writes it (`Model.WignerD.dsEntry`: running offsets over a list of square
blocks) over ℝ:

  * `dsEntry_block` / `dsEntry_off_block`: block number `b` sits at offset `Σ_{b' < b} n_{b'}` — in order — and every
    entry whose row and column lie in different blocks is 0,
  * `dsEntry_mul`: the direct sum of products is the product of direct sums (sizes agreeing blockwise),
  * `dsEntry_transpose`, `dsEntry_one`, `dsEntry_congr`; `dsMat_orthogonal`: orthogonal blocks give an orthogonal
    direct sum.
-/
namespace E3nnVerif.Theory.DirectSum
open E3nnVerif.Model.WignerD
open scoped BigOperators

abbrev ds (ms : List (Block ℝ)) (i j : ℕ) : ℝ := dsEntry (0 : ℝ) ms i j

/-- offset of block `b`: total size of the blocks before it -/
def off (ms : List (Block ℝ)) (b : ℕ) : ℕ := dsDim (ms.take b)

@[simp] theorem off_zero (ms : List (Block ℝ)) : off ms 0 = 0 := by simp [off, dsDim]
@[simp] theorem off_cons_succ (x : Block ℝ) (xs : List (Block ℝ)) (b : ℕ) :
    off (x :: xs) (b + 1) = x.n + off xs b := by simp [off, dsDim]

theorem off_eq_layout (ms : List (Block ℝ)) :
    layout (ms.map Block.n) = (List.range ms.length).map fun b => (off ms b, (ms.getD b ⟨0, fun _ _ => 0⟩).n) := by
  have aux : ∀ (ms : List (Block ℝ)) (o : ℕ), layoutAux o (ms.map Block.n)
      = (List.range ms.length).map fun b => (o + off ms b, (ms.getD b ⟨0, fun _ _ => 0⟩).n) := by
    intro ms
    induction ms with
    | nil => intro o; simp [layoutAux]
    | cons x xs ih =>
      intro o
      simp only [List.map_cons, layoutAux, List.length_cons, List.range_succ_eq_map, List.map_cons, List.map_map]
      rw [ih]
      simp only [off_zero, add_zero, List.getD_cons_zero, List.cons.injEq, true_and]
      apply List.map_congr_left
      intro b _
      simp [Function.comp, add_assoc]
  simpa [layout] using aux ms 0

theorem ds_cons (x : Block ℝ) (xs : List (Block ℝ)) (i j : ℕ) :
    ds (x :: xs) i j = if i < x.n then (if j < x.n then x.e i j else 0)
      else if j < x.n then 0 else ds xs (i - x.n) (j - x.n) := rfl

/-- rows beyond the total size are zero -/
theorem ds_row_out (ms : List (Block ℝ)) (i j : ℕ) (h : dsDim ms ≤ i) : ds ms i j = 0 := by
  induction ms generalizing i j with
  | nil => rfl
  | cons x xs ih =>
    simp only [dsDim] at h
    rw [ds_cons, if_neg (by omega)]
    split
    · rfl
    · exact ih (i - x.n) (j - x.n) (by omega)

theorem ds_col_out (ms : List (Block ℝ)) (i j : ℕ) (h : dsDim ms ≤ j) : ds ms i j = 0 := by
  induction ms generalizing i j with
  | nil => rfl
  | cons x xs ih =>
    simp only [dsDim] at h
    rw [ds_cons, if_neg (show ¬ j < x.n by omega), if_neg (show ¬ j < x.n by omega)]
    split
    · rfl
    · exact ih (i - x.n) (j - x.n) (by omega)

/-- **block structure, in order**: block `b` is found at offset `off ms b` -/
theorem dsEntry_block (ms : List (Block ℝ)) (b : ℕ) (hb : b < ms.length) (r c : ℕ)
    (hr : r < ms[b].n) (hc : c < ms[b].n) : ds ms (off ms b + r) (off ms b + c) = ms[b].e r c := by
  induction ms generalizing b with
  | nil => simp at hb
  | cons x xs ih =>
    cases b with
    | zero =>
      simp only [List.getElem_cons_zero] at hr hc ⊢
      simp [ds, dsEntry, hr, hc]
    | succ b =>
      simp only [List.getElem_cons_succ] at hr hc ⊢
      simp only [List.length_cons, Nat.add_lt_add_iff_right] at hb
      simp only [off_cons_succ, ds, dsEntry]
      rw [if_neg (by omega), if_neg (by omega)]
      have := ih b hb hr hc
      simp only [ds] at this
      rw [show x.n + off xs b + r - x.n = off xs b + r by omega,
        show x.n + off xs b + c - x.n = off xs b + c by omega]
      exact this

/-- **exact zeros off the blocks** -/
theorem dsEntry_off_block (ms : List (Block ℝ)) (b b' : ℕ) (hb : b < ms.length) (hb' : b' < ms.length)
    (hne : b ≠ b') (r c : ℕ) (hr : r < ms[b].n) (hc : c < ms[b'].n) :
    ds ms (off ms b + r) (off ms b' + c) = 0 := by
  induction ms generalizing b b' with
  | nil => simp at hb
  | cons x xs ih =>
    cases b with
    | zero =>
      cases b' with
      | zero => exact absurd rfl hne
      | succ b' =>
        simp only [List.getElem_cons_zero] at hr
        simp only [off_zero, off_cons_succ, zero_add, ds, dsEntry]
        rw [if_pos hr, if_neg (by omega)]
    | succ b =>
      cases b' with
      | zero =>
        simp only [List.getElem_cons_zero] at hc
        simp only [off_zero, off_cons_succ, zero_add, ds, dsEntry]
        rw [if_neg (by omega), if_pos hc]
      | succ b' =>
        simp only [List.getElem_cons_succ] at hr hc
        simp only [List.length_cons, Nat.add_lt_add_iff_right] at hb hb'
        simp only [off_cons_succ, ds, dsEntry]
        rw [if_neg (by omega), if_neg (by omega)]
        have := ih b b' hb hb' (by omega) hr hc
        simp only [ds] at this
        rw [show x.n + off xs b + r - x.n = off xs b + r by omega,
          show x.n + off xs b' + c - x.n = off xs b' + c by omega]
        exact this

/-! ### algebra of direct sums -/

/-- product of two blocks of the same size -/
noncomputable def mulBlock (x y : Block ℝ) : Block ℝ :=
  ⟨x.n, fun r c => ∑ k ∈ Finset.range x.n, x.e r k * y.e k c⟩

def transposeBlock (x : Block ℝ) : Block ℝ := ⟨x.n, fun r c => x.e c r⟩

def oneBlock (n : ℕ) : Block ℝ := ⟨n, fun r c => if r = c then 1 else 0⟩

theorem mulBlock_n (x y : Block ℝ) : (mulBlock x y).n = x.n := rfl
theorem mulBlock_e (x y : Block ℝ) (r c : ℕ) :
    (mulBlock x y).e r c = ∑ k ∈ Finset.range x.n, x.e r k * y.e k c := rfl

theorem dsDim_eq_of_forall₂ {ms ns : List (Block ℝ)} (h : List.Forall₂ (fun x y => x.n = y.n) ms ns) :
    dsDim ms = dsDim ns := by
  induction h with
  | nil => rfl
  | cons hxy _ ih => simp only [dsDim, hxy, ih]

/-- `direct_sum(A₁,…) · direct_sum(B₁,…) = direct_sum(A₁B₁,…)` -/
theorem dsEntry_mul {ms ns : List (Block ℝ)} (h : List.Forall₂ (fun x y => x.n = y.n) ms ns) (i j : ℕ) :
    ∑ k ∈ Finset.range (dsDim ms), ds ms i k * ds ns k j = ds (List.zipWith mulBlock ms ns) i j := by
  induction h generalizing i j with
  | nil => simp [ds, dsEntry, dsDim]
  | @cons x y xs ys hxy _ ih =>
    simp only [dsDim, List.zipWith_cons_cons]
    rw [Finset.sum_range_add, ds_cons (mulBlock x y), mulBlock_n, mulBlock_e]
    by_cases hi : i < x.n
    · have s2 : ∑ k ∈ Finset.range (dsDim xs), ds (x :: xs) i (x.n + k) * ds (y :: ys) (x.n + k) j = 0 := by
        apply Finset.sum_eq_zero
        intro k _
        rw [ds_cons, if_pos hi, if_neg (by omega), zero_mul]
      rw [s2, add_zero, if_pos hi]
      by_cases hj : j < x.n
      · rw [if_pos hj]
        apply Finset.sum_congr rfl
        intro k hk
        have hk' := Finset.mem_range.mp hk
        rw [ds_cons, ds_cons, if_pos hi, if_pos hk', if_pos (show k < y.n by omega), if_pos (show j < y.n by omega)]
      · rw [if_neg hj]
        apply Finset.sum_eq_zero
        intro k hk
        have hk' := Finset.mem_range.mp hk
        rw [ds_cons x, ds_cons y, if_pos (show k < y.n by omega), if_neg (show ¬ j < y.n by omega), mul_zero]
    · have s1 : ∑ k ∈ Finset.range x.n, ds (x :: xs) i k * ds (y :: ys) k j = 0 := by
        apply Finset.sum_eq_zero
        intro k hk
        have hk' := Finset.mem_range.mp hk
        rw [ds_cons, if_neg hi, if_pos hk', zero_mul]
      rw [s1, zero_add, if_neg hi]
      by_cases hj : j < x.n
      · rw [if_pos hj]
        apply Finset.sum_eq_zero
        intro k _
        rw [ds_cons x, ds_cons y, if_neg (show ¬ x.n + k < y.n by omega), if_pos (show j < y.n by omega), mul_zero]
      · rw [if_neg hj, ← ih (i - x.n) (j - x.n)]
        apply Finset.sum_congr rfl
        intro k _
        rw [ds_cons x, ds_cons y, if_neg hi, if_neg (show ¬ x.n + k < x.n by omega),
          if_neg (show ¬ x.n + k < y.n by omega),
          if_neg (show ¬ j < y.n by omega), show x.n + k - x.n = k by omega, show x.n + k - y.n = k by omega, hxy]

theorem dsEntry_transpose (ms : List (Block ℝ)) (i j : ℕ) :
    ds (ms.map transposeBlock) i j = ds ms j i := by
  induction ms generalizing i j with
  | nil => rfl
  | cons x xs ih =>
    simp only [List.map_cons, ds, dsEntry, transposeBlock]
    by_cases hi : i < x.n <;> by_cases hj : j < x.n <;> simp only [hi, hj, if_true, if_false]
    exact ih _ _

theorem dsDim_map_transpose (ms : List (Block ℝ)) : dsDim (ms.map transposeBlock) = dsDim ms := by
  induction ms with
  | nil => rfl
  | cons x xs ih => simp only [List.map_cons, dsDim, ih, transposeBlock]

/-- the direct sum of identity blocks is the identity -/
theorem dsEntry_one (ns : List ℕ) (i j : ℕ) (hi : i < dsDim (ns.map oneBlock)) :
    ds (ns.map oneBlock) i j = if i = j then 1 else 0 := by
  induction ns generalizing i j with
  | nil => simp [dsDim] at hi
  | cons n ns ih =>
    simp only [List.map_cons, ds, dsEntry, oneBlock, dsDim] at hi ⊢
    by_cases h1 : i < n
    · rw [if_pos h1]
      by_cases h2 : j < n
      · rw [if_pos h2]
      · rw [if_neg h2, if_neg (by omega)]
    · rw [if_neg h1]
      by_cases h2 : j < n
      · rw [if_pos h2, if_neg (by omega)]
      · rw [if_neg h2]
        have := ih (i - n) (j - n) (by omega)
        simp only [ds] at this
        rw [this]
        by_cases h3 : i = j
        · rw [if_pos h3, if_pos (by omega)]
        · rw [if_neg h3, if_neg (by omega)]

/-- blocks that agree on their index ranges have the same direct sum -/
theorem dsEntry_congr {ms ns : List (Block ℝ)}
    (h : List.Forall₂ (fun x y => x.n = y.n ∧ ∀ r < x.n, ∀ c < x.n, x.e r c = y.e r c) ms ns) (i j : ℕ) :
    ds ms i j = ds ns i j := by
  induction h generalizing i j with
  | nil => rfl
  | @cons x y xs ys hxy _ ih =>
    obtain ⟨hn, he⟩ := hxy
    simp only [ds, dsEntry, ← hn]
    by_cases hi : i < x.n <;> by_cases hj : j < x.n <;> simp only [hi, hj, if_true, if_false]
    · exact he i hi j hj
    · exact ih _ _

/-! ### as a `Matrix` -/

/-- the direct sum as a square matrix of size `dsDim ms` -/
def dsMat (ms : List (Block ℝ)) : Matrix (Fin (dsDim ms)) (Fin (dsDim ms)) ℝ := fun i j => ds ms i j

/-- a block is orthogonal -/
def Block.Orthogonal (x : Block ℝ) : Prop :=
  ∀ r < x.n, ∀ c < x.n, ∑ k ∈ Finset.range x.n, x.e k r * x.e k c = if r = c then 1 else 0

theorem forall₂_map_self {α β γ : Type} (f : α → β) (g : α → γ) (R : β → γ → Prop) (l : List α)
    (h : ∀ a ∈ l, R (f a) (g a)) : List.Forall₂ R (l.map f) (l.map g) := by
  induction l with
  | nil => exact List.Forall₂.nil
  | cons a l ih =>
    exact List.Forall₂.cons (h a (by simp)) (ih fun b hb => h b (by simp [hb]))

theorem dsDim_map_one (ms : List (Block ℝ)) : dsDim ((ms.map Block.n).map oneBlock) = dsDim ms := by
  induction ms with
  | nil => rfl
  | cons x xs ih =>
    simp only [List.map_cons, dsDim]
    rw [ih]; rfl

/-- **orthogonal blocks ⇒ orthogonal direct sum** -/
theorem dsMat_orthogonal (ms : List (Block ℝ)) (h : ∀ x ∈ ms, Block.Orthogonal x) :
    (dsMat ms).transpose * dsMat ms = 1 := by
  ext i j
  simp only [Matrix.mul_apply, Matrix.transpose_apply, dsMat, Matrix.one_apply]
  rw [Fin.sum_univ_eq_sum_range (fun k => ds ms k i * ds ms k j) (dsDim ms)]
  have e : ∀ k, ds ms k i * ds ms k j = ds (ms.map transposeBlock) i k * ds ms k j := by
    intro k; rw [dsEntry_transpose]
  simp only [e]
  have hf : List.Forall₂ (fun x y : Block ℝ => x.n = y.n) (ms.map transposeBlock) ms := by
    have := forall₂_map_self transposeBlock id (fun x y : Block ℝ => x.n = y.n) ms (fun a _ => rfl)
    simpa using this
  have := dsEntry_mul hf i j
  rw [dsDim_map_transpose] at this
  rw [this]
  have hc : List.Forall₂ (fun x y : Block ℝ => x.n = y.n ∧ ∀ r < x.n, ∀ c < x.n, x.e r c = y.e r c)
      (List.zipWith mulBlock (ms.map transposeBlock) ms) ((ms.map Block.n).map oneBlock) := by
    rw [List.zipWith_map_left, List.zipWith_self, List.map_map]
    apply forall₂_map_self
    intro a ha
    refine ⟨rfl, ?_⟩
    intro r hr c hc
    simp only [mulBlock, transposeBlock, Function.comp, oneBlock] at hr hc ⊢
    exact h a ha r hr c hc
  rw [dsEntry_congr hc, dsEntry_one]
  · simp [Fin.ext_iff]
  · rw [dsDim_map_one]; exact i.2

end E3nnVerif.Theory.DirectSum
