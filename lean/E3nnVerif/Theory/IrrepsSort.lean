/-
Helper lemmas for C06: simplify, remove_zero_multiplicities, sort (order, insertion sort, p/inv), regroup.
-/
import E3nnVerif.Theory.IrrepsBook
open E3nnVerif.Model.Irreps
namespace E3nnVerif.Theory.Irreps

/-! ### simplify -/

/-- the shape `simplify` produces: no zero multiplicity, neighbouring entries carry different irreps -/
def Simplified (x : Irreps) : Prop :=
  (∀ e ∈ x, 0 < e.1) ∧ x.IsChain (fun a b => a.2 ≠ b.2)

theorem blocks_simplifyStep (acc : List MulIr) (e : MulIr) :
    blocks (simplifyStep acc e).reverse = blocks acc.reverse ++ List.replicate e.1 e.2 := by
  unfold simplifyStep
  split
  · next m' ir' t =>
    split
    · next h => subst h; simp
    · split
      · simp
      · next h => have : e.1 = 0 := by omega
                  simp [this]
  · split
    · simp
    · next h => have : e.1 = 0 := by omega
                simp [this]

theorem blocks_foldl_simplifyStep (xs : Irreps) (acc : List MulIr) :
    blocks (xs.foldl simplifyStep acc).reverse = blocks acc.reverse ++ blocks xs := by
  induction xs generalizing acc with
  | nil => simp
  | cons e xs ih => rw [List.foldl_cons, ih, blocks_simplifyStep]; simp

theorem blocks_simplify (x : Irreps) : blocks (simplify x) = blocks x := by
  simpa [simplify] using blocks_foldl_simplifyStep x []

theorem simplified_simplifyStep (acc : List MulIr) (e : MulIr) (h : Simplified acc) :
    Simplified (simplifyStep acc e) := by
  obtain ⟨hpos, hch⟩ := h
  unfold simplifyStep
  split
  · next m' ir' t =>
    split
    · next heq =>
      subst heq
      refine ⟨?_, ?_⟩
      · intro f hf
        rcases List.mem_cons.mp hf with rfl | hf
        · have := hpos (m', e.2) (by simp); simp at this ⊢; omega
        · exact hpos f (by simp [hf])
      · cases t with
        | nil => simp
        | cons b r =>
          rw [List.isChain_cons_cons] at hch ⊢
          exact ⟨hch.1, hch.2⟩
    · next hne =>
      split
      · next hp =>
        refine ⟨?_, ?_⟩
        · intro f hf
          rcases List.mem_cons.mp hf with rfl | hf
          · exact hp
          · exact hpos f hf
        · rw [List.isChain_cons_cons]
          exact ⟨fun h' => hne h'.symm, hch⟩
      · exact ⟨hpos, hch⟩
  · split
    · next hp => exact ⟨by simpa using hp, by simp⟩
    · exact ⟨by simp, by simp⟩

theorem simplified_foldl (xs : Irreps) (acc : List MulIr) (h : Simplified acc) :
    Simplified (xs.foldl simplifyStep acc) := by
  induction xs generalizing acc with
  | nil => exact h
  | cons e xs ih => exact ih _ (simplified_simplifyStep acc e h)

theorem simplified_reverse {x : Irreps} (h : Simplified x) : Simplified x.reverse := by
  refine ⟨fun e he => h.1 e (by simpa using he), ?_⟩
  rw [List.isChain_reverse]
  exact h.2.imp (fun _ _ hab h' => hab h'.symm)

theorem simplified_simplify (x : Irreps) : Simplified (simplify x) :=
  simplified_reverse (simplified_foldl x [] ⟨by simp, by simp⟩)

/-! a `Simplified` list is the run-length encoding of its blocks, hence determined by them -/

theorem replicate_append_inj {α} [DecidableEq α] (a b : α) (m n : Nat) (r s : List α)
    (hm : 0 < m) (hn : 0 < n)
    (hr : ∀ c, r.head? = some c → c ≠ a) (hs : ∀ c, s.head? = some c → c ≠ b)
    (h : List.replicate m a ++ r = List.replicate n b ++ s) : a = b ∧ m = n ∧ r = s := by
  induction m generalizing n with
  | zero => omega
  | succ m ih =>
    cases n with
    | zero => omega
    | succ n =>
      simp only [List.replicate_succ, List.cons_append, List.cons.injEq] at h
      obtain ⟨hab, h⟩ := h
      subst hab
      refine ⟨rfl, ?_⟩
      cases m with
      | zero =>
        cases n with
        | zero => simpa using h
        | succ n =>
          simp only [List.replicate_zero, List.nil_append, List.replicate_succ, List.cons_append] at h
          exact absurd rfl (hr a (by simp [h]))
      | succ m =>
        cases n with
        | zero =>
          simp only [List.replicate_zero, List.nil_append, List.replicate_succ, List.cons_append] at h
          exact absurd rfl (hs a (by simp [← h]))
        | succ n =>
          have := ih (n + 1) (by omega) (by omega) h
          exact ⟨by omega, this.2.2⟩

theorem head_blocks_of_simplified (e : MulIr) (x : Irreps) (h : Simplified (e :: x)) :
    ∀ c, (blocks x).head? = some c → c ≠ e.2 := by
  intro c hc
  cases x with
  | nil => simp at hc
  | cons f y =>
    have hf : 0 < f.1 := h.1 f (by simp)
    have hne : e.2 ≠ f.2 := (List.isChain_cons_cons.mp h.2).1
    obtain ⟨k, hk⟩ : ∃ k, f.1 = k + 1 := ⟨f.1 - 1, by omega⟩
    simp [hk, List.replicate_succ] at hc
    subst hc; exact fun h' => hne h'.symm

theorem simplified_tail {e : MulIr} {x : Irreps} (h : Simplified (e :: x)) : Simplified x :=
  ⟨fun f hf => h.1 f (by simp [hf]), h.2.tail⟩

theorem simplified_eq_of_blocks_eq (x y : Irreps) (hx : Simplified x) (hy : Simplified y)
    (h : blocks x = blocks y) : x = y := by
  induction x generalizing y with
  | nil =>
    cases y with
    | nil => rfl
    | cons f y =>
      have hf : 0 < f.1 := hy.1 f (by simp)
      obtain ⟨k, hk⟩ : ∃ k, f.1 = k + 1 := ⟨f.1 - 1, by omega⟩
      simp [hk, List.replicate_succ] at h
  | cons e x ih =>
    cases y with
    | nil =>
      have he : 0 < e.1 := hx.1 e (by simp)
      obtain ⟨k, hk⟩ : ∃ k, e.1 = k + 1 := ⟨e.1 - 1, by omega⟩
      simp [hk, List.replicate_succ] at h
    | cons f y =>
      rw [blocks_cons, blocks_cons] at h
      obtain ⟨h1, h2, h3⟩ := replicate_append_inj e.2 f.2 e.1 f.1 _ _ (hx.1 e (by simp)) (hy.1 f (by simp))
        (head_blocks_of_simplified e x hx) (head_blocks_of_simplified f y hy) h
      have : e = f := Prod.ext h2 h1
      rw [this, ih y (simplified_tail hx) (simplified_tail hy) h3]

theorem simplify_eq_self {x : Irreps} (h : Simplified x) : simplify x = x :=
  simplified_eq_of_blocks_eq _ _ (simplified_simplify x) h (blocks_simplify x)

theorem simplify_eq_iff_blocks_eq (x y : Irreps) : simplify x = simplify y ↔ blocks x = blocks y := by
  constructor
  · intro h; rw [← blocks_simplify x, ← blocks_simplify y, h]
  · intro h
    exact simplified_eq_of_blocks_eq _ _ (simplified_simplify x) (simplified_simplify y)
      (by rw [blocks_simplify, blocks_simplify, h])

/-! ### remove_zero_multiplicities -/

theorem blocks_removeZero (x : Irreps) : blocks (removeZero x) = blocks x := by
  induction x with
  | nil => rfl
  | cons e x ih =>
    unfold removeZero at *
    rw [List.filter_cons]
    split
    · simp [ih]
    · next h => have : e.1 = 0 := by simpa using h
                simp [this, ih]

/-! ### the order `sort` uses -/

/-- Python's `<=` on `Irrep` tuples `(l, p)`: by `l`, then by parity with `-1 < 1` -/
def irrepLe (a b : Irrep) : Prop := a.l < b.l ∨ (a.l = b.l ∧ a.p.toInt ≤ b.p.toInt)
/-- Python's `<` on `Irrep` tuples -/
def irrepLt (a b : Irrep) : Prop := a.l < b.l ∨ (a.l = b.l ∧ a.p.toInt < b.p.toInt)

instance (a b : Irrep) : Decidable (irrepLe a b) := by unfold irrepLe; infer_instance
instance (a b : Irrep) : Decidable (irrepLt a b) := by unfold irrepLt; infer_instance

theorem rank_le_iff (p q : Parity) : p.rank ≤ q.rank ↔ p.toInt ≤ q.toInt := by
  cases p <;> cases q <;> decide
theorem rank_lt_iff (p q : Parity) : p.rank < q.rank ↔ p.toInt < q.toInt := by
  cases p <;> cases q <;> decide
theorem rank_inj (p q : Parity) : p.rank = q.rank ↔ p = q := by
  cases p <;> cases q <;> decide

theorem irrepLt_iff_le_ne (a b : Irrep) : irrepLt a b ↔ irrepLe a b ∧ a ≠ b := by
  obtain ⟨l, p⟩ := a; obtain ⟨m, q⟩ := b
  cases p <;> cases q <;> simp [irrepLt, irrepLe, Parity.toInt] <;> omega

theorem irrepLt_irrefl (a : Irrep) : ¬ irrepLt a a := by
  simp [irrepLt]

theorem irrepLt_trans {a b c : Irrep} (h1 : irrepLt a b) (h2 : irrepLt b c) : irrepLt a c := by
  unfold irrepLt at *; omega

/-- `tripleLe` spelled out: lexicographic on `(ir, i, mul)` -/
theorem tripleLe_iff (a b : Triple) :
    tripleLe a b = true ↔
      irrepLt a.1 b.1 ∨ (a.1 = b.1 ∧ (a.2.1 < b.2.1 ∨ (a.2.1 = b.2.1 ∧ a.2.2 ≤ b.2.2))) := by
  obtain ⟨⟨l, p⟩, i, m⟩ := a; obtain ⟨⟨l', p'⟩, i', m'⟩ := b
  simp only [tripleLe, irrepLt, ← rank_lt_iff, Irrep.mk.injEq, ← rank_inj]
  split
  · simp; omega
  · split
    · simp; omega
    · split
      · simp; omega
      · simp; omega

theorem tripleLe_total (a b : Triple) : tripleLe a b = true ∨ tripleLe b a = true := by
  rw [tripleLe_iff, tripleLe_iff]
  by_cases h : a.1 = b.1
  · simp only [h, irrepLt_irrefl, false_or, true_and]; omega
  · have : irrepLt a.1 b.1 ∨ irrepLt b.1 a.1 := by
      obtain ⟨⟨l, p⟩, i, m⟩ := a; obtain ⟨⟨l', p'⟩, i', m'⟩ := b
      simp only [irrepLt, ← rank_lt_iff]
      simp only [Irrep.mk.injEq, ← rank_inj] at h
      omega
    rcases this with h | h
    · exact Or.inl (Or.inl h)
    · exact Or.inr (Or.inl h)

theorem tripleLe_trans {a b c : Triple} (h1 : tripleLe a b = true) (h2 : tripleLe b c = true) :
    tripleLe a c = true := by
  rw [tripleLe_iff] at *
  rcases h1 with h1 | ⟨e1, h1⟩
  · rcases h2 with h2 | ⟨e2, h2⟩
    · exact Or.inl (irrepLt_trans h1 h2)
    · exact Or.inl (e2 ▸ h1)
  · rcases h2 with h2 | ⟨e2, h2⟩
    · exact Or.inl (e1 ▸ h2)
    · exact Or.inr ⟨e1.trans e2, by omega⟩

theorem tripleLe_antisymm {a b : Triple} (h1 : tripleLe a b = true) (h2 : tripleLe b a = true) : a = b := by
  rw [tripleLe_iff] at *
  rcases h1 with h1 | ⟨e1, h1⟩
  · rcases h2 with h2 | ⟨e2, h2⟩
    · exact absurd (irrepLt_trans h1 h2) (irrepLt_irrefl _)
    · exact absurd (e2 ▸ h1) (irrepLt_irrefl _)
  · rcases h2 with h2 | ⟨e2, h2⟩
    · exact absurd (e1 ▸ h2) (irrepLt_irrefl _)
    · obtain ⟨a1, a2, a3⟩ := a; obtain ⟨b1, b2, b3⟩ := b
      simp only at *
      subst e1
      have : a2 = b2 := by omega
      have : a3 = b3 := by omega
      simp [*]

/-! ### insertion sort -/

theorem insertSorted_perm (a : Triple) (l : List Triple) : (insertSorted a l).Perm (a :: l) := by
  induction l with
  | nil => exact List.Perm.refl _
  | cons b r ih =>
    rw [insertSorted]; split
    · exact List.Perm.refl _
    · exact (List.Perm.cons b ih).trans (List.Perm.swap a b r)

theorem sortTriples_perm (l : List Triple) : (sortTriples l).Perm l := by
  induction l with
  | nil => exact List.Perm.refl _
  | cons a r ih => exact (insertSorted_perm a _).trans (List.Perm.cons a ih)

theorem insertSorted_sorted (a : Triple) (l : List Triple) (h : l.Pairwise (fun x y => tripleLe x y = true)) :
    (insertSorted a l).Pairwise (fun x y => tripleLe x y = true) := by
  induction l with
  | nil => simp [insertSorted]
  | cons b r ih =>
    rw [insertSorted]; split
    · next hab =>
      rw [List.pairwise_cons]
      refine ⟨?_, h⟩
      intro c hc
      rcases List.mem_cons.mp hc with rfl | hc
      · exact hab
      · exact tripleLe_trans hab ((List.pairwise_cons.mp h).1 c hc)
    · next hab =>
      have hba : tripleLe b a = true := (tripleLe_total a b).resolve_left hab
      rw [List.pairwise_cons] at h ⊢
      refine ⟨?_, ih h.2⟩
      intro c hc
      have := (insertSorted_perm a r).subset hc
      rcases List.mem_cons.mp this with rfl | hc'
      · exact hba
      · exact h.1 c hc'

theorem sortTriples_sorted (l : List Triple) : (sortTriples l).Pairwise (fun x y => tripleLe x y = true) := by
  induction l with
  | nil => simp [sortTriples]
  | cons a r ih => exact insertSorted_sorted a _ ih

/-- `sortTriples l` is *the* sorted permutation of `l`: whatever algorithm Python's `sorted` runs, a
permutation of `l` that is sorted for the tuple order is this list. -/
theorem sortTriples_unique (l l' : List Triple) (hp : l'.Perm l)
    (hs : l'.Pairwise (fun x y => tripleLe x y = true)) : l' = sortTriples l :=
  List.Perm.eq_of_pairwise (fun _ _ _ _ h1 h2 => tripleLe_antisymm h1 h2) hs (sortTriples_sorted l)
    (hp.trans (sortTriples_perm l).symm)

/-! ### the triples of an Irreps -/

theorem triplesFrom_length (i : Nat) (x : Irreps) : (triplesFrom i x).length = x.length := by
  induction x generalizing i with
  | nil => rfl
  | cons e x ih => simp [triplesFrom, ih]

theorem triplesFrom_map_idx (i : Nat) (x : Irreps) : (triplesFrom i x).map (fun t => t.2.1) = List.range' i x.length := by
  induction x generalizing i with
  | nil => rfl
  | cons e x ih => simp [triplesFrom, ih, List.range'_succ]

theorem triplesFrom_map_entry (i : Nat) (x : Irreps) : (triplesFrom i x).map (fun t => (t.2.2, t.1)) = x := by
  induction x generalizing i with
  | nil => rfl
  | cons e x ih => simp [triplesFrom, ih]

theorem mem_triplesFrom {i : Nat} {x : Irreps} {t : Triple} (h : t ∈ triplesFrom i x) :
    i ≤ t.2.1 ∧ x[t.2.1 - i]? = some (t.2.2, t.1) := by
  induction x generalizing i with
  | nil => simp [triplesFrom] at h
  | cons e x ih =>
    rw [triplesFrom, List.mem_cons] at h
    rcases h with rfl | h
    · simp
    · obtain ⟨h1, h2⟩ := ih h
      refine ⟨by omega, ?_⟩
      have : t.2.1 - i = (t.2.1 - (i + 1)) + 1 := by omega
      rw [this, List.getElem?_cons_succ]; exact h2


/-! ### sort -/

theorem sort_out_perm (x : Irreps) : (sortTriples (triplesFrom 0 x)).Perm (triplesFrom 0 x) :=
  sortTriples_perm _

theorem sort_inv_perm (x : Irreps) : (sort x).inv.Perm (List.range x.length) := by
  have := (sort_out_perm x).map (fun t => t.2.1)
  rw [triplesFrom_map_idx, ← List.range_eq_range'] at this
  exact this

theorem sort_irreps_perm (x : Irreps) : (sort x).irreps.Perm x := by
  have := (sort_out_perm x).map (fun t => (t.2.2, t.1))
  rw [triplesFrom_map_entry] at this
  exact this

theorem sort_inv_length (x : Irreps) : (sort x).inv.length = x.length := by
  simpa using (sort_inv_perm x).length_eq
theorem sort_irreps_length (x : Irreps) : (sort x).irreps.length = x.length :=
  (sort_irreps_perm x).length_eq
theorem sort_p_length (x : Irreps) : (sort x).p.length = x.length := by
  simpa [sort, permInverse] using sort_inv_length x

theorem sort_inv_nodup (x : Irreps) : (sort x).inv.Nodup :=
  (sort_inv_perm x).nodup_iff.mpr List.nodup_range

theorem sort_inv_lt (x : Irreps) (j : Nat) (hj : j < (sort x).inv.length) : (sort x).inv[j] < x.length := by
  have := (sort_inv_perm x).subset (List.getElem_mem hj)
  simpa using this

theorem mem_sort_inv (x : Irreps) (i : Nat) (hi : i < x.length) : i ∈ (sort x).inv :=
  (sort_inv_perm x).symm.subset (by simpa using hi)

/-- `irreps[j] = x[inv[j]]` -/
theorem sort_irreps_getElem (x : Irreps) (j : Nat) (hj : j < (sort x).irreps.length) :
    x[(sort x).inv[j]'(by rw [sort_inv_length, ← sort_irreps_length]; exact hj)]? = some (sort x).irreps[j] := by
  have hj' : j < (sortTriples (triplesFrom 0 x)).length := by simpa [sort] using hj
  have hm := (sort_out_perm x).subset (List.getElem_mem hj')
  have := (mem_triplesFrom hm).2
  simpa [sort] using this

theorem sort_p_getElem (x : Irreps) (i : Nat) (hi : i < (sort x).p.length) :
    (sort x).p[i] = (sort x).inv.idxOf i := by
  simp [sort, permInverse]


/-- `p[inv[j]] = j` -/
theorem sort_p_inv (x : Irreps) (j : Nat) (hj : j < x.length) :
    (sort x).p[(sort x).inv[j]'(by rw [sort_inv_length]; exact hj)]'(by
      rw [sort_p_length]; exact sort_inv_lt x j (by rw [sort_inv_length]; exact hj)) = j := by
  rw [sort_p_getElem]
  exact (sort_inv_nodup x).idxOf_getElem j _

/-- `inv[p[i]] = i` -/
theorem sort_inv_p (x : Irreps) (i : Nat) (hi : i < x.length) :
    ∃ h : (sort x).p[i]'(by rw [sort_p_length]; exact hi) < (sort x).inv.length,
      (sort x).inv[(sort x).p[i]'(by rw [sort_p_length]; exact hi)] = i := by
  have hlt : (sort x).inv.idxOf i < (sort x).inv.length := List.idxOf_lt_length_of_mem (mem_sort_inv x i hi)
  refine ⟨by rw [sort_p_getElem]; exact hlt, ?_⟩
  simp only [sort_p_getElem]
  exact List.getElem_idxOf hlt

theorem sort_p_lt (x : Irreps) (i : Nat) (hi : i < (sort x).p.length) : (sort x).p[i] < x.length := by
  have hi' : i < x.length := by rw [← sort_p_length]; exact hi
  obtain ⟨h, _⟩ := sort_inv_p x i hi'
  rw [sort_inv_length] at h; exact h

theorem sort_p_nodup (x : Irreps) : (sort x).p.Nodup := by
  rw [List.nodup_iff_injective_getElem]
  intro ⟨a, ha⟩ ⟨b, hb⟩ hab
  simp only at hab
  have ha' := ha; have hb' := hb
  rw [sort_p_length] at ha' hb'
  obtain ⟨_, h1⟩ := sort_inv_p x a ha'
  obtain ⟨_, h2⟩ := sort_inv_p x b hb'
  simp only [hab] at h1
  have : a = b := h1.symm.trans h2
  exact Fin.ext this

theorem sort_p_perm (x : Irreps) : (sort x).p.Perm (List.range x.length) := by
  rw [List.perm_ext_iff_of_nodup (sort_p_nodup x) List.nodup_range]
  intro a
  simp only [List.mem_range]
  constructor
  · intro h
    obtain ⟨i, hi, rfl⟩ := List.getElem_of_mem h
    exact sort_p_lt x i hi
  · intro h
    have hj : a < (sort x).inv.length := by rw [sort_inv_length]; exact h
    have := sort_p_inv x a h
    rw [← this]
    exact List.getElem_mem _

/-- `irreps[p[i]] = x[i]` -/
theorem sort_irreps_getElem_p (x : Irreps) (i : Nat) (hi : i < x.length) :
    (sort x).irreps[(sort x).p[i]'(by rw [sort_p_length]; exact hi)]? = some x[i] := by
  obtain ⟨h, e⟩ := sort_inv_p x i hi
  have hlt : (sort x).p[i]'(by rw [sort_p_length]; exact hi) < (sort x).irreps.length := by
    rw [sort_irreps_length]; exact sort_p_lt x i _
  have := sort_irreps_getElem x _ hlt
  simp only [e] at this
  rw [List.getElem?_eq_getElem hlt, ← this, List.getElem?_eq_getElem hi]


/-- sorted **and stable**: walking through the result, the irrep strictly increases (Python tuple order
`(l, p)`, `-1 < 1`) or stays the same while the original index increases -/
theorem sort_sorted_stable (x : Irreps) :
    ((sort x).irreps.zip (sort x).inv).Pairwise
      (fun u v => irrepLt u.1.2 v.1.2 ∨ (u.1.2 = v.1.2 ∧ u.2 < v.2)) := by
  have hz : (sort x).irreps.zip (sort x).inv
      = (sortTriples (triplesFrom 0 x)).map (fun t => ((t.2.2, t.1), t.2.1)) := by
    simp [sort, List.zip_map']
  rw [hz, List.pairwise_map]
  have h1 := sortTriples_sorted (triplesFrom 0 x)
  have h2 : (sortTriples (triplesFrom 0 x)).Pairwise (fun a b => a.2.1 ≠ b.2.1) := by
    have := sort_inv_nodup x
    simpa [sort, List.Nodup, List.pairwise_map] using this
  refine (h1.and h2).imp ?_
  intro a b ⟨hab, hne⟩
  rw [tripleLe_iff] at hab
  rcases hab with h | ⟨e, h⟩
  · exact Or.inl h
  · exact Or.inr ⟨e, by omega⟩

theorem irrepLe_of_lt_or_eq {a b : Irrep} (h : irrepLt a b ∨ a = b) : irrepLe a b := by
  rcases h with h | rfl
  · exact ((irrepLt_iff_le_ne a b).mp h).1
  · simp [irrepLe]

theorem sort_irreps_sorted (x : Irreps) : (sort x).irreps.Pairwise (fun u v => irrepLe u.2 v.2) := by
  have h := sort_sorted_stable x
  have hl : (sort x).irreps.length = (sort x).inv.length := by rw [sort_irreps_length, sort_inv_length]
  have : (sort x).irreps = ((sort x).irreps.zip (sort x).inv).map Prod.fst := by
    rw [List.map_fst_zip]; omega
  rw [this, List.pairwise_map]
  exact h.imp (fun {u v} h' => irrepLe_of_lt_or_eq (h'.imp id (fun h'' => h''.1)))

theorem sort_irreps_eq_map_inv (x : Irreps) :
    (sort x).irreps = (sort x).inv.map (fun j => x.getD j default) := by
  apply List.ext_getElem
  · simp [sort_irreps_length, sort_inv_length]
  · intro j h1 h2
    have := sort_irreps_getElem x j h1
    simp [List.getD_eq_getElem?_getD, this]

theorem blocks_sort (x : Irreps) :
    blocks (sort x).irreps = (sort x).inv.flatMap (fun j => List.replicate (x.getD j default).1 (x.getD j default).2) := by
  conv => lhs; rw [sort_irreps_eq_map_inv]
  simp [blocks, List.flatMap_map]

theorem blocks_perm_of_perm {x y : Irreps} (h : x.Perm y) : (blocks x).Perm (blocks y) :=
  h.flatMap_right _

theorem blocks_sort_perm (x : Irreps) : (blocks (sort x).irreps).Perm (blocks x) :=
  blocks_perm_of_perm (sort_irreps_perm x)

/-! ### regroup -/

theorem irrepLe_antisymm {a b : Irrep} (h1 : irrepLe a b) (h2 : irrepLe b a) : a = b := by
  obtain ⟨l, p⟩ := a; obtain ⟨m, q⟩ := b
  cases p <;> cases q <;> simp [irrepLe, Parity.toInt] at * <;> omega

theorem irrepLe_refl (a : Irrep) : irrepLe a a := by simp [irrepLe]

theorem blocks_sorted_of_sorted {y : Irreps} (h : y.Pairwise (fun u v => irrepLe u.2 v.2)) :
    (blocks y).Pairwise irrepLe := by
  unfold blocks
  rw [List.pairwise_flatMap]
  refine ⟨?_, ?_⟩
  · intro e _
    rw [List.pairwise_replicate]
    exact Or.inr (irrepLe_refl _)
  · refine h.imp ?_
    intro u v huv a ha b hb
    rw [List.mem_replicate] at ha hb
    rw [ha.2, hb.2]; exact huv

instance : Trans (fun a b : MulIr => irrepLt a.2 b.2) (fun a b : MulIr => irrepLt a.2 b.2)
    (fun a b : MulIr => irrepLt a.2 b.2) := ⟨fun h1 h2 => irrepLt_trans h1 h2⟩

theorem strict_of_simplified_sorted (s : Irreps) (hs : Simplified s) (hb : (blocks s).Pairwise irrepLe) :
    s.Pairwise (fun a b => irrepLt a.2 b.2) := by
  apply List.IsChain.pairwise
  induction s with
  | nil => simp
  | cons a r ih =>
    cases r with
    | nil => simp
    | cons b r =>
      rw [List.isChain_cons_cons]
      have ha : 0 < a.1 := hs.1 a (by simp)
      have hb' : 0 < b.1 := hs.1 b (by simp)
      have hne : a.2 ≠ b.2 := (List.isChain_cons_cons.mp hs.2).1
      rw [blocks_cons] at hb
      rw [List.pairwise_append] at hb
      refine ⟨?_, ih (simplified_tail hs) hb.2.1⟩
      have := hb.2.2 a.2 (by simp; omega) b.2 (by simp; omega)
      exact (irrepLt_iff_le_ne _ _).mpr ⟨this, hne⟩

theorem regroup_simplified (x : Irreps) : Simplified (regroup x) := simplified_simplify _

theorem blocks_regroup_sorted (x : Irreps) : (blocks (regroup x)).Pairwise irrepLe := by
  unfold regroup
  rw [blocks_simplify]
  exact blocks_sorted_of_sorted (sort_irreps_sorted x)

/-- the keys of `regroup x` increase strictly -/
theorem regroup_strict (x : Irreps) : (regroup x).Pairwise (fun a b => irrepLt a.2 b.2) :=
  strict_of_simplified_sorted _ (regroup_simplified x) (blocks_regroup_sorted x)

theorem blocks_regroup_perm (x : Irreps) : (blocks (regroup x)).Perm (blocks x) := by
  unfold regroup
  rw [blocks_simplify]
  exact blocks_sort_perm x

/-- `regroup` is a canonical form: it only depends on the multiset of blocks -/
theorem regroup_eq_of_blocks_perm (x y : Irreps) (h : (blocks x).Perm (blocks y)) : regroup x = regroup y := by
  apply simplified_eq_of_blocks_eq _ _ (regroup_simplified x) (regroup_simplified y)
  apply List.Perm.eq_of_pairwise (le := irrepLe) (fun _ _ _ _ h1 h2 => irrepLe_antisymm h1 h2)
    (blocks_regroup_sorted x) (blocks_regroup_sorted y)
  exact (blocks_regroup_perm x).trans (h.trans (blocks_regroup_perm y).symm)

theorem count_regroup (x : Irreps) (ir : Irrep) : count (regroup x) ir = count x ir := by
  rw [count_eq_blocks, count_eq_blocks]
  exact (blocks_regroup_perm x).count_eq ir

theorem sum_eq_zero_of_forall (l : List Nat) (h : ∀ n ∈ l, n = 0) : l.sum = 0 := by
  induction l with
  | nil => rfl
  | cons a l ih =>
    rw [List.sum_cons, h a (by simp), ih (fun n hn => h n (by simp [hn]))]

theorem count_of_mem_strict (s : Irreps) (hs : s.Pairwise (fun a b => irrepLt a.2 b.2)) (m : Nat) (ir : Irrep)
    (h : (m, ir) ∈ s) : count s ir = m := by
  induction s with
  | nil => simp at h
  | cons e r ih =>
    rw [List.pairwise_cons] at hs
    have hc : count (e :: r) ir = (if ir = e.2 then e.1 else 0) + count r ir := by simp [count]
    rw [hc]
    rcases List.mem_cons.mp h with rfl | h
    · have : count r ir = 0 := by
        simp only [count]
        apply sum_eq_zero_of_forall
        intro n hn
        simp only [List.mem_map] at hn
        obtain ⟨f, hf, rfl⟩ := hn
        have := hs.1 f hf
        split
        · next heq => simp only at this; rw [← heq] at this; exact absurd this (irrepLt_irrefl _)
        · rfl
      simp [this]
    · have hne : ir ≠ e.2 := by
        intro heq
        have := hs.1 (m, ir) h
        simp only [heq] at this
        exact irrepLt_irrefl _ this
      simp [hne, ih hs.2 h]

/-- the entries of `regroup x` are exactly the irreps of non-zero total multiplicity, each with its total
multiplicity -/
theorem mem_regroup_iff (x : Irreps) (m : Nat) (ir : Irrep) :
    (m, ir) ∈ regroup x ↔ 0 < m ∧ m = count x ir := by
  constructor
  · intro h
    refine ⟨(regroup_simplified x).1 _ h, ?_⟩
    rw [← count_regroup, count_of_mem_strict _ (regroup_strict x) m ir h]
  · rintro ⟨hm, rfl⟩
    rw [← count_regroup, count_eq_blocks] at hm ⊢
    have hmem : ir ∈ blocks (regroup x) := List.count_pos_iff.mp hm
    simp only [blocks, List.mem_flatMap, List.mem_replicate] at hmem
    obtain ⟨e, he, _, rfl⟩ := hmem
    have := count_of_mem_strict _ (regroup_strict x) e.1 e.2 he
    rw [count_eq_blocks] at this
    rw [this]; exact he

end E3nnVerif.Theory.Irreps
