import Mathlib.Algebra.BigOperators.Ring.Finset
import Mathlib.Algebra.Order.BigOperators.Ring.Finset
import Mathlib.Tactic.Ring
import Mathlib.Tactic.Linarith
import Mathlib.Tactic.FieldSimp
import E3nnVerif.Theory.ScalarReal
import E3nnVerif.Theory.BatchNormSpec
/-
The analytic lemmas of C13 over ℝ: `sumN`/`maxN1` as Mathlib sums / maxima, the closed form of the
exponential moving average, invariance of the block statistics under orthogonal matrices, and how the
statistics scale.
-/
namespace E3nnVerif.BN
open Finset

@[simp] theorem zero_real : (Scalar.zero : ℝ) = 0 := by simp [Scalar.zero]
@[simp] theorem one_real : (Scalar.one : ℝ) = 1 := by simp [Scalar.one]
@[simp] theorem max_real (a b : ℝ) : Scalar.max a b = Max.max a b := by
  unfold Scalar.max
  by_cases h : a < b
  · simp [h, max_eq_right h.le]
  · have : Scalar.lt a b = false := by
      rw [Bool.eq_false_iff]; intro h'; exact h ((Scalar.lt_real a b).1 h')
    simp [this, max_eq_left (not_lt.1 h)]

@[simp] theorem le_real (a b : ℝ) : Scalar.le a b = true ↔ a ≤ b := by
  simp only [Scalar.le, Bool.not_eq_true', Bool.eq_false_iff, Ne, Scalar.lt_real, not_lt]

theorem sumN_real (n : Nat) (f : Nat → ℝ) : sumN n f = ∑ i ∈ range n, f i := by
  induction n with
  | zero => simp [sumN]
  | succ n ih => rw [sumN, ih, Finset.sum_range_succ]

theorem maxN1_mul_nonneg (n : Nat) (f : Nat → ℝ) {c : ℝ} (hc : 0 ≤ c) :
    maxN1 n (fun s => f s * c) = maxN1 n f * c := by
  induction n with
  | zero => simp [maxN1]
  | succ n ih => simp only [maxN1, max_real, ih, max_mul_of_nonneg _ _ hc]

theorem maxN1_nonneg (n : Nat) (f : Nat → ℝ) (h : ∀ s, 0 ≤ f s) : 0 ≤ maxN1 n f := by
  induction n with
  | zero => simpa [maxN1] using h 0
  | succ n ih => simp only [maxN1, max_real]; exact le_max_of_le_left ih

/-! ### exponential moving average -/

/-- `(1-m)^n r₀ + Σ_{i<n} m (1-m)^{n-1-i} u_i` -/
noncomputable def emaClosed (m r0 : ℝ) (us : List ℝ) : ℝ :=
  (1 - m) ^ us.length * r0 + ∑ i ∈ range us.length, m * (1 - m) ^ (us.length - 1 - i) * us.getD i 0

theorem emaFold_eq_closed (m r0 : ℝ) (us : List ℝ) : emaFold m r0 us = emaClosed m r0 us := by
  induction us generalizing r0 with
  | nil => simp [emaFold, emaClosed]
  | cons u us ih =>
    have h := ih (rollAvg m r0 u)
    simp only [emaFold, List.foldl_cons] at h ⊢
    rw [h]
    simp only [emaClosed, List.length_cons, rollAvg, one_real]
    rw [Finset.sum_range_succ']
    have e1 : ∀ k, (u :: us).getD (k + 1) 0 = us.getD k 0 := fun k => by simp
    have e2 : (u :: us).getD 0 0 = u := by simp
    have e3 : ∀ i, us.length + 1 - 1 - (i + 1) = us.length - 1 - i := by intro i; omega
    have e4 : us.length + 1 - 1 - 0 = us.length := by omega
    simp only [e1, e2, e3, e4]
    ring

/-! ### orthogonal matrices preserve the sum of squares -/

theorem orth_norm (d : ℕ) (D : ℕ → ℕ → ℝ) (v : ℕ → ℝ)
    (h : ∀ a b, a < d → b < d → ∑ i ∈ range d, D i a * D i b = if a = b then 1 else 0) :
    ∑ i ∈ range d, (∑ a ∈ range d, D i a * v a) * (∑ a ∈ range d, D i a * v a)
      = ∑ a ∈ range d, v a * v a := by
  calc ∑ i ∈ range d, (∑ a ∈ range d, D i a * v a) * (∑ a ∈ range d, D i a * v a)
      = ∑ i ∈ range d, ∑ a ∈ range d, ∑ b ∈ range d, (D i a * v a) * (D i b * v b) := by
        refine sum_congr rfl fun i _ => ?_
        rw [Finset.sum_mul_sum]
    _ = ∑ a ∈ range d, ∑ b ∈ range d, ∑ i ∈ range d, (D i a * v a) * (D i b * v b) := by
        rw [sum_comm]; refine sum_congr rfl fun a _ => ?_; rw [sum_comm]
    _ = ∑ a ∈ range d, ∑ b ∈ range d, (v a * v b) * ∑ i ∈ range d, D i a * D i b := by
        refine sum_congr rfl fun a _ => sum_congr rfl fun b _ => ?_
        rw [mul_sum]; refine sum_congr rfl fun i _ => ?_; ring
    _ = ∑ a ∈ range d, ∑ b ∈ range d, (v a * v b) * (if a = b then 1 else 0) := by
        refine sum_congr rfl fun a ha => sum_congr rfl fun b hb => ?_
        rw [h a b (mem_range.1 ha) (mem_range.1 hb)]
    _ = ∑ a ∈ range d, v a * v a := by
        refine sum_congr rfl fun a ha => ?_
        simp [mul_ite, Finset.sum_ite_eq, ha]

/-! ### the statistics of a block: congruence, positivity, scaling -/

variable {o : Opts ℝ}

theorem compNorm_real (nz : Normalization) (d : Nat) (c : T4 ℝ) (b s u : Nat) :
    compNorm nz d c b s u =
      match nz with
      | .norm => ∑ i ∈ range d, c b s u i * c b s u i
      | .component => (∑ i ∈ range d, c b s u i * c b s u i) / d := by
  cases nz <;> simp [compNorm, sumN_real]

theorem compNorm_congr (nz : Normalization) (d : Nat) {c c' : T4 ℝ} {b s u : Nat}
    (h : ∀ i, i < d → c' b s u i = c b s u i) : compNorm nz d c' b s u = compNorm nz d c b s u := by
  have : ∑ i ∈ range d, c' b s u i * c' b s u i = ∑ i ∈ range d, c b s u i * c b s u i :=
    sum_congr rfl fun i hi => by rw [h i (mem_range.1 hi)]
  cases nz <;> simp [compNorm_real, this]

theorem compNorm_nonneg (nz : Normalization) (d : Nat) (c : T4 ℝ) (b s u : Nat) :
    0 ≤ compNorm nz d c b s u := by
  have : 0 ≤ ∑ i ∈ range d, c b s u i * c b s u i := sum_nonneg fun i _ => mul_self_nonneg _
  cases nz <;> simp only [compNorm_real]
  · exact this
  · exact div_nonneg this (Nat.cast_nonneg _)

/-- scaling a block by a factor per (sample, copy) scales the component norm by its square -/
theorem compNorm_scale (nz : Normalization) (d : Nat) (c : T4 ℝ) (k : Nat → Nat → ℝ) (b s u : Nat) :
    compNorm nz d (fun b s u i => c b s u i * k b u) b s u = compNorm nz d c b s u * (k b u) ^ 2 := by
  have : ∑ i ∈ range d, c b s u i * k b u * (c b s u i * k b u)
      = (∑ i ∈ range d, c b s u i * c b s u i) * (k b u) ^ 2 := by
    rw [sum_mul]; refine sum_congr rfl fun i _ => ?_; ring
  cases nz <;> simp only [compNorm_real, this]
  ring

theorem sampleStat_congr (S : Nat) (blk : Block) {c c' : T4 ℝ} {b u : Nat}
    (h : ∀ s, compNorm o.normalization blk.d c' b s u = compNorm o.normalization blk.d c b s u) :
    sampleStat o S blk c' b u = sampleStat o S blk c b u := by
  simp only [sampleStat, reduceS]
  cases o.reduce <;> simp only [h]

theorem sampleStat_nonneg (S : Nat) (blk : Block) (c : T4 ℝ) (b u : Nat) :
    0 ≤ sampleStat o S blk c b u := by
  simp only [sampleStat, reduceS]
  cases o.reduce <;> simp only
  · rw [sumN_real]
    exact div_nonneg (sum_nonneg fun s _ => compNorm_nonneg _ _ _ _ _ _) (by simp)
  · exact maxN1_nonneg _ _ fun s => compNorm_nonneg _ _ _ _ _ _

theorem sampleStat_scale (S : Nat) (blk : Block) (c : T4 ℝ) (k : Nat → Nat → ℝ) (b u : Nat) :
    sampleStat o S blk (fun b s u i => c b s u i * k b u) b u = sampleStat o S blk c b u * (k b u) ^ 2 := by
  simp only [sampleStat, reduceS]
  cases o.reduce <;> simp only [compNorm_scale]
  · rw [sumN_real, sumN_real, ← sum_mul]; ring
  · exact maxN1_mul_nonneg _ _ (sq_nonneg _)

theorem batchStat_congr (B S : Nat) (blk : Block) {c c' : T4 ℝ} {u : Nat}
    (h : ∀ b s, compNorm o.normalization blk.d c' b s u = compNorm o.normalization blk.d c b s u) :
    batchStat o B S blk c' u = batchStat o B S blk c u := by
  simp only [batchStat]
  congr 2
  funext b
  exact sampleStat_congr S blk (h b)

theorem batchStat_nonneg (B S : Nat) (blk : Block) (c : T4 ℝ) (u : Nat) :
    0 ≤ batchStat o B S blk c u := by
  simp only [batchStat, sumN_real]
  exact div_nonneg (sum_nonneg fun b _ => sampleStat_nonneg _ _ _ _ _) (by simp)

/-- scaling by a factor per copy (the same for every sample) scales the batch statistic by its square -/
theorem batchStat_scale (B S : Nat) (blk : Block) (c : T4 ℝ) (k : Nat → ℝ) (u : Nat) :
    batchStat o B S blk (fun b s u i => c b s u i * k u) u = batchStat o B S blk c u * (k u) ^ 2 := by
  simp only [batchStat]
  have : ∀ b, sampleStat o S blk (fun b s u i => c b s u i * k u) b u
      = sampleStat o S blk c b u * (k u) ^ 2 := fun b => sampleStat_scale S blk c (fun _ u => k u) b u
  simp only [this, sumN_real, ← sum_mul]
  ring

theorem normOf_congr (st : State ℝ) (B S : Nat) (blk : Block) {c c' : T4 ℝ} {u : Nat}
    (h : ∀ b s, compNorm o.normalization blk.d c' b s u = compNorm o.normalization blk.d c b s u) (r : Nat) :
    normOf o st B S blk c' r u = normOf o st B S blk c r u := by
  simp only [normOf]
  split
  · split
    · exact sampleStat_congr S blk (h r)
    · exact batchStat_congr B S blk h
  · rfl

theorem scaleOf_congr (st : State ℝ) (blk : Block) {n n' : Nat → Nat → ℝ} {r u : Nat} (h : n' r u = n r u) :
    scaleOf o st blk n' r u = scaleOf o st blk n r u := by
  simp only [scaleOf]
  split <;> simp only [h]

theorem meanOf_congr (st : State ℝ) (B S : Nat) (blk : Block) {f f' : T4 ℝ} {u : Nat}
    (h : ∀ b s, f' b s u 0 = f b s u 0) (r : Nat) :
    meanOf o st B S blk f' r u = meanOf o st B S blk f r u := by
  unfold meanOf
  split
  · split
    · simp only [instMean, h]
    · simp only [batchMean, h]
  · rfl

end E3nnVerif.BN
