import E3nnVerif.Model.Reduce
import E3nnVerif.Theory.PermBasic
/-
Specification-level vocabulary for _reduce.py: signed permutation groups, compatibility of the index
dimensions with the group, invariant tensors.
-/
namespace E3nnVerif.ReduceModel
open E3nnVerif.PermModel

/-- what `germinate_formulas` returns: a finite group of signed permutations of `n` indices
    (closed under `(s,p) ↦ (s, p⁻¹)` and `((s₁,p₁),(s₂,p₂)) ↦ (s₁ s₂, p₁ ∘ p₂)`, contains `(1, id)`) -/
structure IsSignedGroup (n : ℕ) (G : List SPerm) : Prop where
  one_mem : ((1 : ℤ), identity n) ∈ G
  isPerm : ∀ a ∈ G, IsPerm a.2 ∧ a.2.length = n
  sign : ∀ a ∈ G, a.1 = 1 ∨ a.1 = -1
  inv_mem : ∀ a ∈ G, sInv a ∈ G
  mul_mem : ∀ a ∈ G, ∀ b ∈ G, sMul a b ∈ G

/-- the dimension bookkeeping of `reduce_permutation` succeeded: indices exchanged by a group element
    have the same dimension (`dims[p[k]] = dims[k]`) -/
def DimsCompatible (G : List SPerm) (dims : List ℕ) : Prop := ∀ a ∈ G, act dims a.2 = dims

/-- `T` (a tensor with index set `fullBase dims`) satisfies every formula of the group:
    `T[x] = s · T[x ∘ p]` for all `(s, p) ∈ G` -/
def Invariant (G : List SPerm) (dims : List ℕ) (T : List ℕ → ℤ) : Prop :=
  ∀ a ∈ G, ∀ x ∈ fullBase dims, T x = a.1 * T (act x a.2)

/-- the coefficient of a row on an invariant tensor, read off at the first entry of the row -/
def rowCoeff (T : List ℕ → ℤ) : Row → ℤ
  | [] => 0
  | e :: _ => e.1 * T e.2

end E3nnVerif.ReduceModel
