import E3nnVerif.Model.Perm
import Mathlib.Data.List.Perm.Basic
import Mathlib.Data.List.Perm.Subperm
import Mathlib.Data.List.Sort
import Mathlib.Data.List.Range
import Mathlib.Data.List.Nodup
import Mathlib.Data.List.NodupEquivFin
/-
Basic theory of the list model of perm.py: `isPerm` ⇔ `List.Perm p (range n)`, group laws of
`composeRaw / inverseRaw / identity`, the factorial number system.
-/
namespace E3nnVerif.PermModel

/-- the specification of `is_perm`: `p` is a rearrangement of `0, …, len p - 1` -/
def IsPerm (p : List ℕ) : Prop := p.Perm (List.range p.length)

/-! ### is_perm -/

theorem mem_insertSorted {x y : ℕ} {l : List ℕ} : y ∈ insertSorted x l ↔ y = x ∨ y ∈ l := by
  induction l with
  | nil => simp [insertSorted]
  | cons a l ih =>
    unfold insertSorted
    split_ifs with h1 h2
    · simp
    · subst h2; simp
    · simp [ih]; tauto

theorem pairwise_insertSorted {x : ℕ} {l : List ℕ} (h : l.Pairwise (· < ·)) :
    (insertSorted x l).Pairwise (· < ·) := by
  induction l with
  | nil => simp [insertSorted]
  | cons a l ih =>
    unfold insertSorted
    rw [List.pairwise_cons] at h
    split_ifs with h1 h2
    · refine List.pairwise_cons.2 ⟨?_, List.pairwise_cons.2 h⟩
      intro b hb
      rcases List.mem_cons.1 hb with rfl | hb
      · exact h1
      · exact lt_trans h1 (h.1 b hb)
    · exact List.pairwise_cons.2 h
    · refine List.pairwise_cons.2 ⟨?_, ih h.2⟩
      intro b hb
      rcases mem_insertSorted.1 hb with rfl | hb
      · omega
      · exact h.1 b hb

theorem mem_sortedSet {y : ℕ} {p : List ℕ} : y ∈ sortedSet p ↔ y ∈ p := by
  induction p with
  | nil => simp [sortedSet]
  | cons a p ih =>
    have : sortedSet (a :: p) = insertSorted a (sortedSet p) := rfl
    rw [this, mem_insertSorted, ih]; simp

theorem pairwise_sortedSet (p : List ℕ) : (sortedSet p).Pairwise (· < ·) := by
  induction p with
  | nil => simp [sortedSet]
  | cons a p ih => exact pairwise_insertSorted ih

theorem pairwise_range (n : ℕ) : (List.range n).Pairwise (· < ·) := List.pairwise_lt_range

/-- a duplicate-free list of naturals below its length is a permutation -/
theorem IsPerm.of_nodup {p : List ℕ} (hn : p.Nodup) (hlt : ∀ x ∈ p, x < p.length) : IsPerm p := by
  have hsub : p ⊆ List.range p.length := fun x hx => List.mem_range.2 (hlt x hx)
  exact (hn.subperm hsub).perm_of_length_le (by simp)

/-- a list that contains every natural below its length is a permutation (pigeonhole) -/
theorem IsPerm.of_forall_mem {p : List ℕ} (h : ∀ i < p.length, i ∈ p) : IsPerm p := by
  have hsub : List.range p.length ⊆ p := fun x hx => h x (List.mem_range.1 hx)
  exact (((List.nodup_range).subperm hsub).perm_of_length_le (by simp)).symm

theorem IsPerm.nodup {p : List ℕ} (h : IsPerm p) : p.Nodup := (h.nodup_iff).2 List.nodup_range
theorem IsPerm.lt {p : List ℕ} (h : IsPerm p) {x : ℕ} (hx : x ∈ p) : x < p.length :=
  List.mem_range.1 (h.subset hx)
theorem IsPerm.mem {p : List ℕ} (h : IsPerm p) {i : ℕ} (hi : i < p.length) : i ∈ p :=
  h.symm.subset (List.mem_range.2 hi)
theorem IsPerm.mem_iff {p : List ℕ} (h : IsPerm p) {i : ℕ} : i ∈ p ↔ i < p.length :=
  ⟨fun hx => h.lt hx, fun hi => h.mem hi⟩

theorem isPerm_iff {p : List ℕ} : isPerm p = true ↔ IsPerm p := by
  unfold isPerm
  rw [beq_iff_eq]
  constructor
  · intro h
    apply IsPerm.of_forall_mem
    intro i hi
    rw [← mem_sortedSet, h]; exact List.mem_range.2 hi
  · intro h
    apply List.Subset.antisymm_of_pairwise (r := (· < ·)) (pairwise_sortedSet p) (pairwise_range _)
    · intro x hx; exact h.subset (mem_sortedSet.1 hx)
    · intro x hx; exact mem_sortedSet.2 (h.symm.subset hx)

theorem isPerm_false_iff {p : List ℕ} : isPerm p = false ↔ ¬ IsPerm p := by
  rw [← isPerm_iff]; simp

/-! ### the function view `p[i]` -/

theorem getD_of_lt {l : List ℕ} {i : ℕ} (h : i < l.length) : l.getD i 0 = l[i] := by
  simp [List.getD_eq_getElem?_getD, h]

theorem IsPerm.getD_lt {p : List ℕ} (h : IsPerm p) {i : ℕ} (hi : i < p.length) : p.getD i 0 < p.length := by
  apply h.lt
  rw [getD_of_lt hi]; exact List.getElem_mem hi

theorem IsPerm.getD_inj {p : List ℕ} (h : IsPerm p) {i j : ℕ} (hi : i < p.length) (hj : j < p.length)
    (e : p.getD i 0 = p.getD j 0) : i = j := by
  rw [getD_of_lt hi, getD_of_lt hj] at e
  exact (List.Nodup.getElem_inj_iff h.nodup).1 e

theorem map_getD_range (p : List ℕ) : (List.range p.length).map (fun i => p.getD i 0) = p := by
  apply List.ext_getElem
  · simp
  · intro i h1 h2
    simp at h1
    simp [List.getD_eq_getElem?_getD, h1]

/-! ### identity / compose / inverse -/

@[simp] theorem length_identity (n : ℕ) : (identity n).length = n := by simp [identity]
@[simp] theorem length_composeRaw (p q : List ℕ) : (composeRaw p q).length = p.length := by simp [composeRaw]
@[simp] theorem length_inverseRaw (p : List ℕ) : (inverseRaw p).length = p.length := by simp [inverseRaw]

theorem isPerm_identity (n : ℕ) : IsPerm (identity n) := by
  unfold IsPerm identity; simp

theorem getD_identity {n i : ℕ} (hi : i < n) : (identity n).getD i 0 = i := by
  simp [identity, List.getD_eq_getElem?_getD, hi]

theorem getD_composeRaw {p q : List ℕ} {i : ℕ} (hi : i < p.length) :
    (composeRaw p q).getD i 0 = p.getD (q.getD i 0) 0 := by
  have : i < (composeRaw p q).length := by simpa using hi
  rw [getD_of_lt this]
  simp [composeRaw]

theorem composeRaw_eq_map {p q : List ℕ} (h : p.length = q.length) :
    composeRaw p q = q.map (fun j => p.getD j 0) := by
  unfold composeRaw
  rw [h]
  conv_rhs => rw [← map_getD_range q]
  rw [List.map_map]; rfl

/-- closure: the composition of two permutations of the same length is a permutation -/
theorem IsPerm.composeRaw {p q : List ℕ} (hp : IsPerm p) (hq : IsPerm q) (h : p.length = q.length) :
    IsPerm (composeRaw p q) := by
  unfold IsPerm
  rw [length_composeRaw, composeRaw_eq_map h]
  have h1 : (q.map fun j => p.getD j 0).Perm ((List.range q.length).map fun j => p.getD j 0) := hq.map _
  rw [← h, map_getD_range] at h1
  exact h1.trans hp

theorem ext_getD {p q : List ℕ} (h : p.length = q.length) (e : ∀ i < p.length, p.getD i 0 = q.getD i 0) : p = q := by
  apply List.ext_getElem h
  intro i h1 h2
  have := e i h1
  rwa [getD_of_lt h1, getD_of_lt h2] at this

theorem composeRaw_assoc {p q r : List ℕ} (hr : IsPerm r) (hpq : p.length = q.length) (hqr : q.length = r.length) :
    composeRaw (composeRaw p q) r = composeRaw p (composeRaw q r) := by
  apply ext_getD (by simp)
  intro i hi
  simp only [length_composeRaw] at hi
  have hri : r.getD i 0 < r.length := hr.getD_lt (by omega)
  rw [getD_composeRaw (by simpa using hi), getD_composeRaw (by omega), getD_composeRaw hi, getD_composeRaw (by omega)]

theorem identity_composeRaw {p : List ℕ} (hp : IsPerm p) : composeRaw (identity p.length) p = p := by
  apply ext_getD (by simp)
  intro i hi
  simp only [length_composeRaw, length_identity] at hi
  rw [getD_composeRaw (by simpa using hi), getD_identity (hp.getD_lt hi)]

theorem composeRaw_identity (p : List ℕ) : composeRaw p (identity p.length) = p := by
  apply ext_getD (by simp)
  intro i hi
  simp only [length_composeRaw] at hi
  rw [getD_composeRaw hi, getD_identity hi]

theorem getD_inverseRaw {p : List ℕ} {i : ℕ} (hi : i < p.length) : (inverseRaw p).getD i 0 = p.idxOf i := by
  have : i < (inverseRaw p).length := by simpa using hi
  rw [getD_of_lt this]
  simp [inverseRaw]

/-- right inverse: `compose p (inverse p) = identity` -/
theorem composeRaw_inverseRaw {p : List ℕ} (hp : IsPerm p) : composeRaw p (inverseRaw p) = identity p.length := by
  apply ext_getD (by simp)
  intro i hi
  simp only [length_composeRaw] at hi
  rw [getD_composeRaw hi, getD_inverseRaw hi, getD_identity hi]
  have hm : i ∈ p := hp.mem hi
  have hlt : p.idxOf i < p.length := List.idxOf_lt_length_iff.2 hm
  rw [getD_of_lt hlt]
  exact List.getElem_idxOf hlt

/-- left inverse: `compose (inverse p) p = identity` -/
theorem inverseRaw_composeRaw {p : List ℕ} (hp : IsPerm p) : composeRaw (inverseRaw p) p = identity p.length := by
  apply ext_getD (by simp)
  intro i hi
  simp only [length_composeRaw, length_inverseRaw] at hi
  rw [getD_composeRaw (by simpa using hi), getD_inverseRaw (hp.getD_lt hi), getD_identity hi]
  rw [getD_of_lt hi]
  exact hp.nodup.idxOf_getElem i hi

theorem IsPerm.inverseRaw {p : List ℕ} (hp : IsPerm p) : IsPerm (inverseRaw p) := by
  apply IsPerm.of_forall_mem
  intro i hi
  simp only [length_inverseRaw] at hi
  -- i = inverseRaw p [p[i]]
  have h1 : p.getD i 0 < p.length := hp.getD_lt hi
  have : (PermModel.inverseRaw p).getD (p.getD i 0) 0 = i := by
    rw [getD_inverseRaw h1, getD_of_lt hi]
    exact hp.nodup.idxOf_getElem i hi
  rw [← this, getD_of_lt (by simpa using h1)]
  exact List.getElem_mem _

/-- the guard of `inverse`: it raises ValueError exactly on non-permutations -/
theorem inverse_eq (p : List ℕ) : inverse p = if isPerm p then .ok (inverseRaw p) else .error .value := by
  unfold inverse
  have : ((List.range p.length).all fun i => p.contains i) = true ↔ IsPerm p := by
    simp only [List.all_eq_true, List.mem_range, List.contains_iff_mem]
    exact ⟨IsPerm.of_forall_mem, fun h i hi => h.mem hi⟩
  by_cases h : IsPerm p
  · rw [if_pos (this.2 h), if_pos (isPerm_iff.2 h)]
  · rw [if_neg (fun hh => h (this.1 hh)), if_neg (fun hh => h (isPerm_iff.1 hh))]

theorem compose_eq (p q : List ℕ) :
    compose p q = if isPerm p ∧ isPerm q ∧ p.length = q.length then .ok (composeRaw p q) else .error .assertion := by
  unfold compose
  by_cases hp : isPerm p = true <;> by_cases hq : isPerm q = true <;> by_cases hl : p.length = q.length <;>
    simp [hp, hq, hl]

end E3nnVerif.PermModel
