/-
Facts over ℝ about the non-generic ingredients of the point-cloud models (property C15):

  * `smoothCutoff` (gate_points_2101.py:133-138, identical in gate_points_2102.py): vanishes at and beyond 1,
    equals 1 up to 1/2, continuous, and is bounded by `π² (1 - x)²` (so the contribution of a neighbour dies at
    least linearly — in fact quadratically — when it approaches the cutoff);
  * the radial embeddings `soft_one_hot_linspace(x, 0, r_max, number, basis, cutoff=True)` with `basis = "cosine"`
    (v2103) and `"smooth_finite"` (v2106, voxel convolutions): every component is exactly 0 for `x ≥ end` (and for
    `x ≤ start`), continuous, and the cosine one is bounded by `π/2 · (end - x)/step`;
  * a bias-free `FullyConnectedNet` whose activation fixes 0 maps the zero row to the zero row (e3nn/nn/_fc.py);
  * the radius graph (`radiusEdges`): no pair at distance ≥ r, no pair across batch entries, no self pair;
    symmetric; invariant under isometries; relabelling-equivariant; membership of a pair depends on the two points
    only (batch locality).  `radiusEdgesOf d` is the same construction for an arbitrary "distance" table `d`, as
    written in the models (`(r < r_max) & (r > 0)`): with an exact metric it has no self pairs, with an inexact
    table (torch.cdist for more than 25 points) it has a self pair exactly where `0 < d i i < r`.
-/
import Mathlib.Analysis.SpecialFunctions.Trigonometric.Bounds
import Mathlib.Analysis.SpecialFunctions.Exp
import Mathlib.Topology.MetricSpace.Isometry
import Mathlib.Topology.Order.OrderClosed
import Mathlib.Algebra.BigOperators.Group.Finset.Basic

namespace E3nnVerif.Dataflow.Facts

open Real

/-! ## smooth_cutoff -/

/-- `smooth_cutoff(x)`: `u = 2 (x - 1); y = (1 - cos(π u)) / 2; y[u > 0] = 0; y[u < -1] = 1` -/
noncomputable def smoothCutoff (x : ℝ) : ℝ :=
  if 2 * (x - 1) > 0 then 0 else if 2 * (x - 1) < -1 then 1 else (1 - cos (π * (2 * (x - 1)))) / 2

theorem smoothCutoff_eq_zero {x : ℝ} (hx : 1 ≤ x) : smoothCutoff x = 0 := by
  unfold smoothCutoff
  rcases hx.lt_or_eq with h | h
  · rw [if_pos (by linarith)]
  · subst h; simp

theorem smoothCutoff_eq_one {x : ℝ} (hx : x ≤ 1 / 2) : smoothCutoff x = 1 := by
  unfold smoothCutoff
  rw [if_neg (by linarith)]
  rcases hx.lt_or_eq with h | h
  · rw [if_pos (by linarith)]
  · subst h
    rw [if_neg (by norm_num)]
    have : π * (2 * ((1 : ℝ) / 2 - 1)) = -π := by ring
    rw [this, cos_neg, cos_pi]; norm_num

/-- the same function written with closed conditions (the branches agree on the boundaries) -/
theorem smoothCutoff_eq (x : ℝ) :
    smoothCutoff x =
      if 2 * (x - 1) ≤ 0 then (if (-1 : ℝ) ≤ 2 * (x - 1) then (1 - cos (π * (2 * (x - 1)))) / 2 else 1) else 0 := by
  unfold smoothCutoff
  split_ifs <;> first | rfl | (exfalso; linarith)

theorem continuous_smoothCutoff : Continuous smoothCutoff := by
  have : smoothCutoff = fun x : ℝ =>
      if 2 * (x - 1) ≤ 0 then (if (-1 : ℝ) ≤ 2 * (x - 1) then (1 - cos (π * (2 * (x - 1)))) / 2 else 1) else 0 :=
    funext smoothCutoff_eq
  rw [this]
  refine Continuous.if_le ?_ continuous_const (by fun_prop) continuous_const ?_
  · refine Continuous.if_le (by fun_prop) continuous_const continuous_const (by fun_prop) ?_
    intro x hx
    have : π * (2 * (x - 1)) = -π := by rw [← hx]; ring
    rw [this, cos_neg, cos_pi]; norm_num
  · intro x hx
    rw [if_pos (by linarith), hx]; simp

/-- quadratic decay towards the cutoff: `0 ≤ smooth_cutoff(x) ≤ π² (1 - x)²` -/
theorem smoothCutoff_le_sq (x : ℝ) : smoothCutoff x ≤ π ^ 2 * (1 - x) ^ 2 := by
  have hsq : 0 ≤ π ^ 2 * (1 - x) ^ 2 := by positivity
  unfold smoothCutoff
  split_ifs with h1 h2
  · exact hsq
  · have : 1 / 2 < 1 - x := by linarith
    have h3 : (1 : ℝ) / 4 < (1 - x) ^ 2 := by nlinarith
    have h4 : (4 : ℝ) ≤ π ^ 2 := by nlinarith [two_le_pi]
    nlinarith
  · have := one_sub_sq_div_two_le_cos (x := π * (2 * (x - 1)))
    nlinarith

theorem smoothCutoff_nonneg (x : ℝ) : 0 ≤ smoothCutoff x := by
  unfold smoothCutoff
  split_ifs
  · exact le_rfl
  · exact zero_le_one
  · have := cos_le_one (π * (2 * (x - 1))); linarith

/-! ## radial embeddings with `cutoff=True` -/

/-- `soft_unit_step` -/
noncomputable def softUnitStep (y : ℝ) : ℝ := if 0 < y then exp (-1 / y) else 0

/-- `values = linspace(start, end, number + 2)[1:-1]`, `step = values[1] - values[0]` -/
noncomputable def step (start stop : ℝ) (number : ℕ) : ℝ := (stop - start) / ((number : ℝ) + 1)

/-- `diff = (x[..., None] - values) / step`, component `i` -/
noncomputable def diff (start stop : ℝ) (number : ℕ) (x : ℝ) (i : ℕ) : ℝ :=
  (x - (start + ((i : ℝ) + 1) * step start stop number)) / step start stop number

/-- `basis="cosine"`: `cos(π/2 · diff) · (diff < 1) · (-1 < diff)` -/
noncomputable def cosineBasis (start stop : ℝ) (number : ℕ) (x : ℝ) (i : ℕ) : ℝ :=
  if diff start stop number x i < 1 ∧ -1 < diff start stop number x i then
    cos (π / 2 * diff start stop number x i) else 0

/-- `basis="smooth_finite"`: `c · soft_unit_step(diff + 1) · soft_unit_step(1 - diff)` -/
noncomputable def smoothFiniteBasis (c start stop : ℝ) (number : ℕ) (x : ℝ) (i : ℕ) : ℝ :=
  c * softUnitStep (diff start stop number x i + 1) * softUnitStep (1 - diff start stop number x i)

theorem step_pos {start stop : ℝ} (h : start < stop) (number : ℕ) : 0 < step start stop number := by
  unfold step; have : (0 : ℝ) < (number : ℝ) + 1 := by positivity
  exact div_pos (by linarith) this

theorem stop_eq (start stop : ℝ) (number : ℕ) : stop = start + ((number : ℝ) + 1) * step start stop number := by
  unfold step; have : (number : ℝ) + 1 ≠ 0 := by positivity
  field_simp; ring

/-- beyond the end every centre is at least one step behind -/
theorem one_le_diff {start stop : ℝ} (h : start < stop) {number : ℕ} {x : ℝ} (hx : stop ≤ x) {i : ℕ}
    (hi : i < number) : 1 ≤ diff start stop number x i := by
  have hs := step_pos h number
  unfold diff
  rw [le_div_iff₀ hs]
  have h2 := stop_eq start stop number
  have : (i : ℝ) + 1 ≤ number := by exact_mod_cast hi
  nlinarith

/-- before the start every centre is at least one step ahead -/
theorem diff_le_neg_one {start stop : ℝ} (h : start < stop) {number : ℕ} {x : ℝ} (hx : x ≤ start) (i : ℕ) :
    diff start stop number x i ≤ -1 := by
  have hs := step_pos h number
  unfold diff
  rw [div_le_iff₀ hs]
  have : 0 ≤ (i : ℝ) * step start stop number := by positivity
  nlinarith

/-- v2103: the cosine embedding is EXACTLY zero at and beyond `r_max` (and at and before `start`) -/
theorem cosineBasis_eq_zero {start stop : ℝ} (h : start < stop) {number : ℕ} {x : ℝ}
    (hx : x ≤ start ∨ stop ≤ x) {i : ℕ} (hi : i < number) : cosineBasis start stop number x i = 0 := by
  unfold cosineBasis
  rw [if_neg]
  rintro ⟨h1, h2⟩
  rcases hx with hx | hx
  · have := diff_le_neg_one h hx (number := number) i; linarith
  · have := one_le_diff h hx hi; linarith

/-- v2106 / voxel convolutions: the smooth_finite embedding is EXACTLY zero at and beyond `r_max` -/
theorem smoothFiniteBasis_eq_zero (c : ℝ) {start stop : ℝ} (h : start < stop) {number : ℕ} {x : ℝ}
    (hx : x ≤ start ∨ stop ≤ x) {i : ℕ} (hi : i < number) : smoothFiniteBasis c start stop number x i = 0 := by
  unfold smoothFiniteBasis softUnitStep
  rcases hx with hx | hx
  · have := diff_le_neg_one h hx (number := number) i
    rw [if_neg (by linarith)]; ring
  · have := one_le_diff h hx hi
    rw [if_neg (show ¬ (0 < 1 - diff start stop number x i) by linarith)]; ring

/-- linear decay of the cosine embedding towards the cutoff:
`|cosine_i(x)| ≤ π/2 · (end - x)/step` for `x ≤ end` -/
theorem cosineBasis_le {start stop : ℝ} (h : start < stop) {number : ℕ} {x : ℝ} (hx : x ≤ stop) {i : ℕ}
    (hi : i < number) : |cosineBasis start stop number x i| ≤ π / 2 * ((stop - x) / step start stop number) := by
  have hs := step_pos h number
  have hnn : 0 ≤ π / 2 * ((stop - x) / step start stop number) := by
    have : 0 ≤ (stop - x) / step start stop number := div_nonneg (by linarith) hs.le
    positivity
  unfold cosineBasis
  split_ifs with hc
  · -- cos(π/2 d) = sin(π/2 (1 - d)) ≤ π/2 (1 - d) ≤ π/2 (end - x)/step   as   1 - d ≤ (end - x)/step
    set d := diff start stop number x i with hd
    have h1 : cos (π / 2 * d) = sin (π / 2 * (1 - d)) := by
      rw [← cos_pi_div_two_sub]; ring_nf
    have hpos : 0 ≤ π / 2 * (1 - d) := by
      have : 0 ≤ 1 - d := by linarith [hc.1]
      positivity
    have hle : π / 2 * (1 - d) ≤ π := by nlinarith [hc.2, pi_pos]
    have h2 : 0 ≤ sin (π / 2 * (1 - d)) := sin_nonneg_of_nonneg_of_le_pi hpos hle
    rw [h1, abs_of_nonneg h2]
    have h3 : sin (π / 2 * (1 - d)) ≤ π / 2 * (1 - d) := sin_le hpos
    have h4 : 1 - d ≤ (stop - x) / step start stop number := by
      rw [hd]; unfold diff
      rw [le_div_iff₀ hs]
      have e : (1 - (x - (start + ((i : ℝ) + 1) * step start stop number)) / step start stop number)
          * step start stop number
          = step start stop number - (x - (start + ((i : ℝ) + 1) * step start stop number)) := by
        field_simp
      rw [e]
      have h5 := stop_eq start stop number
      have : (i : ℝ) + 1 ≤ number := by exact_mod_cast hi
      nlinarith
    have : π / 2 * (1 - d) ≤ π / 2 * ((stop - x) / step start stop number) :=
      mul_le_mul_of_nonneg_left h4 (by positivity)
    linarith
  · simpa using hnn

/-! ## bias-free fully connected network -/

/-- one `_Layer` of e3nn/nn/_fc.py: `x @ (W · cIn)`, then (optionally) the normalised activation and `· cOut` -/
structure Layer where
  hIn : ℕ
  W : ℕ → ℕ → ℝ
  cIn : ℝ
  act : Option (ℝ → ℝ)
  cOut : ℝ

noncomputable def Layer.apply (L : Layer) (x : ℕ → ℝ) : ℕ → ℝ := fun j =>
  match L.act with
  | some φ => φ (∑ i ∈ Finset.range L.hIn, x i * (L.W i j * L.cIn)) * L.cOut
  | none => ∑ i ∈ Finset.range L.hIn, x i * (L.W i j * L.cIn)

/-- `FullyConnectedNet.forward`: the layers in sequence -/
noncomputable def fcn (Ls : List Layer) (x : ℕ → ℝ) : ℕ → ℝ := Ls.foldl (fun x L => L.apply x) x

/-- v2106 mechanism: there is no bias, so if every activation fixes 0 (silu, tanh, and their `normalize2mom`
multiples do) the network maps the zero row to the zero row — for ALL weights, widths and depths. -/
theorem fcn_zero (Ls : List Layer) (h : ∀ L ∈ Ls, ∀ φ, L.act = some φ → φ 0 = 0) : fcn Ls 0 = 0 := by
  unfold fcn
  induction Ls with
  | nil => rfl
  | cons L Ls ih =>
    have h0 : L.apply 0 = 0 := by
      funext j
      unfold Layer.apply
      cases hact : L.act with
      | none => simp
      | some φ => simp [h L (by simp) φ hact]
    simp only [List.foldl_cons, h0]
    exact ih (fun L' hL' => h L' (by simp [hL']))

/-- the normalised silu of e3nn: `c · x · sigmoid(x)` fixes 0 -/
example (c : ℝ) : (fun x : ℝ => c * (x / (1 + exp (-x)))) 0 = 0 := by simp

/-- NEGATIVE: with a bias (or an activation that does not fix 0) the statement fails — e.g. one layer with
`φ = cos` maps 0 to `cOut ≠ 0` -/
theorem fcn_zero_needs_act_zero :
    fcn [⟨1, fun _ _ => 1, 1, some cos, 1⟩] 0 ≠ 0 := by
  intro h
  have := congrFun h 0
  simp [fcn, Layer.apply] at this

/-! ## radius graph -/

section Radius

open Classical

variable {N G : Type} [Fintype N]

/-- the edge set computed from an arbitrary table of "distances", as the shim / torch_cluster do:
self pairs are removed by index -/
noncomputable def radiusEdgesOf (d : N → N → ℝ) (batch : N → G) (r : ℝ) : Finset (N × N) :=
  Finset.univ.filter (fun p => p.1 ≠ p.2 ∧ batch p.1 = batch p.2 ∧ d p.1 p.2 < r)

/-- as the models 2101/2102/v2106 write it: `(r < r_max) & (r > 0)`, then equal batch entries -/
noncomputable def radiusEdgesPos (d : N → N → ℝ) (batch : N → G) (r : ℝ) : Finset (N × N) :=
  Finset.univ.filter (fun p => (d p.1 p.2 < r ∧ 0 < d p.1 p.2) ∧ batch p.1 = batch p.2)

variable {V : Type} [PseudoMetricSpace V]

/-- the radius graph of a point set -/
noncomputable def radiusEdges (pos : N → V) (batch : N → G) (r : ℝ) : Finset (N × N) :=
  radiusEdgesOf (fun i j => dist (pos i) (pos j)) batch r

theorem mem_radiusEdges {pos : N → V} {batch : N → G} {r : ℝ} {i j : N} :
    (i, j) ∈ radiusEdges pos batch r ↔ i ≠ j ∧ batch i = batch j ∧ dist (pos i) (pos j) < r := by
  simp [radiusEdges, radiusEdgesOf]

/-- no pair at or beyond the cutoff -/
theorem radiusEdges_lt {pos : N → V} {batch : N → G} {r : ℝ} {i j : N} (h : (i, j) ∈ radiusEdges pos batch r) :
    dist (pos i) (pos j) < r := (mem_radiusEdges.mp h).2.2

theorem not_mem_radiusEdges_of_le {pos : N → V} {batch : N → G} {r : ℝ} {i j : N}
    (h : r ≤ dist (pos i) (pos j)) : (i, j) ∉ radiusEdges pos batch r :=
  fun hm => absurd (radiusEdges_lt hm) (not_lt.mpr h)

/-- no pair across batch entries -/
theorem radiusEdges_same_batch {pos : N → V} {batch : N → G} {r : ℝ} {i j : N}
    (h : (i, j) ∈ radiusEdges pos batch r) : batch i = batch j := (mem_radiusEdges.mp h).2.1

/-- no self pair -/
theorem radiusEdges_irrefl {pos : N → V} {batch : N → G} {r : ℝ} (i : N) : (i, i) ∉ radiusEdges pos batch r :=
  fun h => (mem_radiusEdges.mp h).1 rfl

/-- symmetric -/
theorem radiusEdges_symm {pos : N → V} {batch : N → G} {r : ℝ} {i j : N} :
    (i, j) ∈ radiusEdges pos batch r ↔ (j, i) ∈ radiusEdges pos batch r := by
  simp only [mem_radiusEdges, dist_comm (pos i) (pos j)]
  constructor <;> rintro ⟨h1, h2, h3⟩ <;> exact ⟨fun h => h1 h.symm, h2.symm, h3⟩

/-- invariant under every isometry of the ambient space (rotations, reflections, translations) -/
theorem radiusEdges_isometry {W : Type} [PseudoMetricSpace W] {f : V → W} (hf : Isometry f)
    (pos : N → V) (batch : N → G) (r : ℝ) : radiusEdges (f ∘ pos) batch r = radiusEdges pos batch r := by
  ext ⟨i, j⟩
  simp [mem_radiusEdges, hf.dist_eq]

/-- relabelling-equivariant: the graph of the relabelled points is the relabelled graph -/
theorem radiusEdges_relabel {N' : Type} [Fintype N'] (σ : N ≃ N') (pos : N → V) (batch : N → G) (r : ℝ)
    (i j : N) :
    (σ i, σ j) ∈ radiusEdges (pos ∘ σ.symm) (batch ∘ σ.symm) r ↔ (i, j) ∈ radiusEdges pos batch r := by
  simp [mem_radiusEdges]

/-- batch-local: whether `(i, j)` is an edge depends on nothing but the two end points — other graphs, and other
points of the same graph, have no influence -/
theorem radiusEdges_local {N' : Type} [Fintype N'] (ι : N' → N) (hι : Function.Injective ι)
    (pos : N → V) (batch : N → G) (r : ℝ) (i j : N') :
    (i, j) ∈ radiusEdges (pos ∘ ι) (batch ∘ ι) r ↔ (ι i, ι j) ∈ radiusEdges pos batch r := by
  simp [mem_radiusEdges, hι.ne_iff]

/-- with an exact metric the models' `r > 0` test also removes self pairs ... -/
theorem radiusEdgesPos_irrefl {pos : N → V} {batch : N → G} {r : ℝ} (i : N) :
    (i, i) ∉ radiusEdgesPos (fun a b => dist (pos a) (pos b)) batch r := by
  simp [radiusEdgesPos]

/-- ... and, unlike the index test, pairs of distinct coincident points -/
theorem radiusEdgesPos_coincident {pos : N → V} {batch : N → G} {r : ℝ} {i j : N} (h : pos i = pos j) :
    (i, j) ∉ radiusEdgesPos (fun a b => dist (pos a) (pos b)) batch r := by
  simp [radiusEdgesPos, h]

/-- NEGATIVE (the defect reproduced by the harness for more than 25 points, where `torch.cdist` switches to the
matrix-multiplication formula and returns small positive numbers on the diagonal): with an inexact table the
`r > 0` test lets a self pair through exactly where the diagonal entry is positive -/
theorem radiusEdgesPos_self_iff (d : N → N → ℝ) (batch : N → G) (r : ℝ) (i : N) :
    (i, i) ∈ radiusEdgesPos d batch r ↔ 0 < d i i ∧ d i i < r := by
  simp [radiusEdgesPos, and_comm]

/-- the index test of the shim is immune to the table -/
theorem radiusEdgesOf_irrefl (d : N → N → ℝ) (batch : N → G) (r : ℝ) (i : N) : (i, i) ∉ radiusEdgesOf d batch r := by
  simp [radiusEdgesOf]

end Radius

end E3nnVerif.Dataflow.Facts
