import Mathlib.Analysis.SpecialFunctions.Pow.Real
import E3nnVerif.Theory.BatchNormReal
/-
What a training-mode forward does to the statistics of its own output (over ℝ), and the explicit
eval-mode formula.
-/
namespace E3nnVerif.BN
open Finset

variable {o : Opts ℝ}

theorem inv_sqrt_sq (t w : ℝ) (ht : 0 ≤ t) : (1 / Real.sqrt t * w) ^ 2 = w ^ 2 / t := by
  rw [mul_pow, div_pow, Real.sq_sqrt ht]; ring

/-- the factor every component of copy `u` is multiplied with in (non-instance) training mode -/
noncomputable def trainScale (o : Opts ℝ) (st : State ℝ) (B S : Nat) (x : T3 ℝ) (blk : Block) (u : Nat) : ℝ :=
  1 / Real.sqrt (batchStat o B S blk (centredBatch o B S x blk) u + o.eps)
    * (if o.affine then st.weight (blk.iw + u) else 1)

/-- the bias added to copy `u` (scalar blocks, `affine and include_bias`) -/
def biasTerm (o : Opts ℝ) (st : State ℝ) (blk : Block) (u : Nat) : ℝ :=
  if o.affine && o.includeBias && blk.isScalar then st.bias (blk.ib + u) else 0

theorem blockOut_train (st : State ℝ) (B S : Nat) (x : T3 ℝ) (blk : Block)
    (ht : st.training = true) (hi : o.inst = false) (b s u i : Nat) :
    blockOut o st B S x blk b s u i
      = centredBatch o B S x blk b s u i * trainScale o st B S x blk u + biasTerm o st blk u := by
  simp only [blockOut, centredOf_train o st B S x blk ht hi, normOf_train o st B S blk _ ht hi,
    scaleOf, trainScale, biasTerm, one_real, Scalar.sqrt_real]
  cases o.affine <;> cases o.includeBias <;> cases blk.isScalar <;> simp

section block
variable (st : State ℝ) (B S : Nat) (x : T3 ℝ) {blk : Block} (hb : blk ∈ blocks o) {u : Nat} (hu : u < blk.mul)
  (ht : st.training = true) (hi : o.inst = false) (hB : 0 < B) (hS : 0 < S)

include hB hS in
/-- the centred field of an even-scalar block sums to zero over batch and middle dimensions -/
theorem centredBatch_sum_zero (hs : blk.isScalar = true) :
    ∑ b ∈ range B, ∑ s ∈ range S, centredBatch o B S x blk b s u 0 = 0 := by
  simp only [centredBatch, centred, hs, if_true, batchMean, sumN_real, Scalar.ofNat_real,
    sum_sub_distrib, sum_const, card_range, nsmul_eq_mul]
  have h1 : (B : ℝ) ≠ 0 := by positivity
  have h2 : (S : ℝ) ≠ 0 := by positivity
  push_cast
  field_simp
  ring

include hb hu ht hi in
theorem field_out_train (b s : Nat) {i : Nat} (hi' : i < blk.d) :
    field (forwardCore o st B S x).2 blk b s u i
      = centredBatch o B S x blk b s u i * trainScale o st B S x blk u + biasTerm o st blk u := by
  rw [forwardCore_out, field_assemble o _ hb b s hu hi', blockOut_train st B S x blk ht hi]

include hb hu ht hi hB hS in
/-- training output: the batch mean of an even-scalar feature is its bias (zero without bias) -/
theorem batchMean_out_train (hs : blk.isScalar = true) :
    batchMean B S (field (forwardCore o st B S x).2 blk) u = biasTerm o st blk u := by
  have hd := (scalar_d o.affine o.includeBias o.irreps 0 0 0 0 0 0 blk hb)
  simp only [batchMean, sumN_real, Scalar.ofNat_real]
  have : ∀ b s, field (forwardCore o st B S x).2 blk b s u 0
      = centredBatch o B S x blk b s u 0 * trainScale o st B S x blk u + biasTerm o st blk u :=
    fun b s => field_out_train st B S x hb hu ht hi b s hd.1
  simp only [this, sum_add_distrib, ← sum_mul, sum_const, card_range, nsmul_eq_mul,
    centredBatch_sum_zero B S x hB hS hs]
  have h1 : (B : ℝ) ≠ 0 := by positivity
  have h2 : (S : ℝ) ≠ 0 := by positivity
  push_cast
  field_simp
  ring

include hb hu ht hi hB hS in
/-- re-centring the training output gives the centred input times the scale -/
theorem centredBatch_out_train (b s : Nat) {i : Nat} (hi' : i < blk.d) :
    centredBatch o B S (forwardCore o st B S x).2 blk b s u i
      = centredBatch o B S x blk b s u i * trainScale o st B S x blk u := by
  cases hs : blk.isScalar
  · have e : centredBatch o B S (forwardCore o st B S x).2 blk b s u i
        = field (forwardCore o st B S x).2 blk b s u i := by
      simp [centredBatch, centred, hs]
    rw [e, field_out_train st B S x hb hu ht hi b s hi']
    simp [biasTerm, hs]
  · have e : centredBatch o B S (forwardCore o st B S x).2 blk b s u i
        = field (forwardCore o st B S x).2 blk b s u i
          - batchMean B S (field (forwardCore o st B S x).2 blk) u := by
      simp [centredBatch, centred, hs]
    rw [e, field_out_train st B S x hb hu ht hi b s hi', batchMean_out_train st B S x hb hu ht hi hB hS hs]
    ring

include hb hu ht hi hB hS in
/-- training output: the module's own batch statistic of the output is `scale² · v`, i.e.
`w² v / (v + eps)` with `v` the statistic of the input (both reductions, both normalisations) -/
theorem batchStat_out_train (heps : 0 ≤ o.eps) :
    batchStat o B S blk (centredBatch o B S (forwardCore o st B S x).2 blk) u
      = (if o.affine then st.weight (blk.iw + u) else 1) ^ 2
        * batchStat o B S blk (centredBatch o B S x blk) u
        / (batchStat o B S blk (centredBatch o B S x blk) u + o.eps) := by
  have h1 : batchStat o B S blk (centredBatch o B S (forwardCore o st B S x).2 blk) u
      = batchStat o B S blk (fun b s u i => centredBatch o B S x blk b s u i * trainScale o st B S x blk u) u := by
    refine batchStat_congr B S blk fun b s => compNorm_congr _ _ fun i hi' => ?_
    exact centredBatch_out_train st B S x hb hu ht hi hB hS b s hi'
  rw [h1, batchStat_scale B S blk _ (fun u => trainScale o st B S x blk u) u]
  have hv := batchStat_nonneg (o := o) B S blk (centredBatch o B S x blk) u
  simp only [trainScale]
  rw [inv_sqrt_sq _ _ (by linarith)]
  ring

end block

/-! ### flat forms -/

/-- the statistic of the training output, feature by feature -/
theorem varStat_out_train (st : State ℝ) (B S : Nat) (x : T3 ℝ) (ht : st.training = true) (hi : o.inst = false)
    (hB : 0 < B) (hS : 0 < S) (heps : 0 ≤ o.eps) {j : Nat} (hj : j < o.irreps.numIrreps) :
    varStat o B S (forwardCore o st B S x).2 j
      = (if o.affine then st.weight j else 1) ^ 2 * varStat o B S x j / (varStat o B S x j + o.eps) := by
  have hl := layout_irv o.affine o.includeBias o.irreps 0 0 0 0 0 0
  have ht' := total_irv o.affine o.includeBias o.irreps 0 0 0 0 0 0
  have := cat_pointwise' (sz := fun blk => blk.mul) (pos := fun blk => blk.irv)
    (f := fun blk => batchStat o B S blk (centredBatch o B S (forwardCore o st B S x).2 blk))
    (g := fun blk => batchStat o B S blk (centredBatch o B S x blk))
    (fun j t => (if o.affine then st.weight j else 1) ^ 2 * t / (t + o.eps)) hl
    (fun blk hb u hu => by
      rw [batchStat_out_train st B S x hb hu ht hi hB hS heps]
      cases ha : o.affine
      · simp
      · have := iw_eq_irv o.includeBias o.irreps 0 0 0 0 0 0 blk (by
          have hb' : blk ∈ blocksFrom o.affine o.includeBias o.irreps 0 0 0 0 0 0 := hb
          rwa [ha] at hb')
        simp only [Nat.add_zero] at this
        simp [this])
    (j := j) (by rw [ht']; exact hj)
  simpa [varStat, blocks] using this

/-- the batch mean of the training output, even scalar by even scalar -/
theorem meanStat_out_train (st : State ℝ) (B S : Nat) (x : T3 ℝ) (ht : st.training = true) (hi : o.inst = false)
    (hB : 0 < B) (hS : 0 < S) {j : Nat} (hj : j < o.irreps.numScalar) :
    meanStat o B S (forwardCore o st B S x).2 j = if o.affine && o.includeBias then st.bias j else 0 := by
  have hl := layout_irm o.affine o.includeBias o.irreps 0 0 0 0 0 0
  have ht' := total_irm o.affine o.includeBias o.irreps 0 0 0 0 0 0
  have := cat_pointwise' (sz := fun blk => blk.mul) (pos := fun blk => blk.irm)
    (f := fun blk => batchMean B S (field (forwardCore o st B S x).2 blk))
    (g := fun blk => batchMean B S (field x blk))
    (fun j _ => if o.affine && o.includeBias then st.bias j else 0) hl
    (fun blk hb u hu => by
      have hb' := List.mem_filter.1 hb
      have hs : blk.isScalar = true := by simpa using hb'.2
      rw [batchMean_out_train st B S x hb'.1 hu ht hi hB hS hs]
      simp only [biasTerm, hs, Bool.and_true]
      cases ha : o.affine <;> cases hib : o.includeBias <;> simp
      have := ib_eq_irm o.irreps 0 0 0 0 0 0 blk (by
        have hb'' : blk ∈ blocksFrom o.affine o.includeBias o.irreps 0 0 0 0 0 0 := hb'.1
        rwa [ha, hib] at hb'')
      simp only [Nat.add_zero] at this
      rw [this])
    (j := j) (by rw [ht']; exact hj)
  simpa [meanStat, blocks] using this

/-! ### instance mode: the same, per sample -/

/-- the factor every component of copy `u` of sample `b` is multiplied with in instance mode -/
noncomputable def instScale (o : Opts ℝ) (st : State ℝ) (S : Nat) (x : T3 ℝ) (blk : Block) (b u : Nat) : ℝ :=
  1 / Real.sqrt (sampleStat o S blk (centredInst o S x blk) b u + o.eps)
    * (if o.affine then st.weight (blk.iw + u) else 1)

theorem blockOut_inst (st : State ℝ) (B S : Nat) (x : T3 ℝ) (blk : Block) (hi : o.inst = true) (b s u i : Nat) :
    blockOut o st B S x blk b s u i
      = centredInst o S x blk b s u i * instScale o st S x blk b u + biasTerm o st blk u := by
  simp only [blockOut, centredOf_inst o st B S x blk hi, normOf_inst o st B S blk _ hi,
    scaleOf, instScale, biasTerm, one_real, Scalar.sqrt_real, bidx, hi, if_true]
  cases o.affine <;> cases o.includeBias <;> cases blk.isScalar <;> simp

section blockInst
variable (st : State ℝ) (B S : Nat) (x : T3 ℝ) {blk : Block} (hb : blk ∈ blocks o) {u : Nat} (hu : u < blk.mul)
  (hi : o.inst = true) (hS : 0 < S)

include hS hi in
theorem centredInst_sum_zero (hs : blk.isScalar = true) (b : Nat) :
    ∑ s ∈ range S, centredInst o S x blk b s u 0 = 0 := by
  simp only [centredInst, centred, hs, if_true, instMean, sumN_real, Scalar.ofNat_real,
    sum_sub_distrib, sum_const, card_range, nsmul_eq_mul, bidx, hi]
  have h2 : (S : ℝ) ≠ 0 := by positivity
  field_simp
  ring

include hb hu hi in
theorem field_out_inst (b s : Nat) {i : Nat} (hi' : i < blk.d) :
    field (forwardCore o st B S x).2 blk b s u i
      = centredInst o S x blk b s u i * instScale o st S x blk b u + biasTerm o st blk u := by
  rw [forwardCore_out, field_assemble o _ hb b s hu hi', blockOut_inst st B S x blk hi]

include hb hu hi hS in
/-- instance-mode output: the per-sample mean of an even-scalar feature is its bias -/
theorem instMean_out (hs : blk.isScalar = true) (b : Nat) :
    instMean S (field (forwardCore o st B S x).2 blk) b u = biasTerm o st blk u := by
  have hd := (scalar_d o.affine o.includeBias o.irreps 0 0 0 0 0 0 blk hb)
  simp only [instMean, sumN_real, Scalar.ofNat_real]
  have : ∀ s, field (forwardCore o st B S x).2 blk b s u 0
      = centredInst o S x blk b s u 0 * instScale o st S x blk b u + biasTerm o st blk u :=
    fun s => field_out_inst st B S x hb hu hi b s hd.1
  simp only [this, sum_add_distrib, ← sum_mul, sum_const, card_range, nsmul_eq_mul,
    centredInst_sum_zero S x hi hS hs]
  have h2 : (S : ℝ) ≠ 0 := by positivity
  field_simp
  ring

include hb hu hi hS in
theorem centredInst_out (b s : Nat) {i : Nat} (hi' : i < blk.d) :
    centredInst o S (forwardCore o st B S x).2 blk b s u i
      = centredInst o S x blk b s u i * instScale o st S x blk b u := by
  cases hs : blk.isScalar
  · have e : centredInst o S (forwardCore o st B S x).2 blk b s u i
        = field (forwardCore o st B S x).2 blk b s u i := by
      simp [centredInst, centred, hs]
    rw [e, field_out_inst st B S x hb hu hi b s hi']
    simp [biasTerm, hs]
  · have e : centredInst o S (forwardCore o st B S x).2 blk b s u i
        = field (forwardCore o st B S x).2 blk b s u i
          - instMean S (field (forwardCore o st B S x).2 blk) b u := by
      simp [centredInst, centred, hs, bidx, hi]
    rw [e, field_out_inst st B S x hb hu hi b s hi', instMean_out st B S x hb hu hi hS hs]
    ring

include hb hu hi hS in
/-- instance-mode output: the per-sample statistic of the output is `w² v_b / (v_b + eps)` -/
theorem sampleStat_out_inst (heps : 0 ≤ o.eps) (b : Nat) :
    sampleStat o S blk (centredInst o S (forwardCore o st B S x).2 blk) b u
      = (if o.affine then st.weight (blk.iw + u) else 1) ^ 2
        * sampleStat o S blk (centredInst o S x blk) b u
        / (sampleStat o S blk (centredInst o S x blk) b u + o.eps) := by
  have h1 : sampleStat o S blk (centredInst o S (forwardCore o st B S x).2 blk) b u
      = sampleStat o S blk (fun b s u i => centredInst o S x blk b s u i * instScale o st S x blk b u) b u := by
    refine sampleStat_congr S blk fun s => compNorm_congr _ _ fun i hi' => ?_
    exact centredInst_out st B S x hb hu hi hS b s hi'
  rw [h1, sampleStat_scale S blk _ (fun b u => instScale o st S x blk b u) b u]
  have hv := sampleStat_nonneg (o := o) S blk (centredInst o S x blk) b u
  simp only [instScale]
  rw [inv_sqrt_sq _ _ (by linarith)]
  ring

end blockInst

theorem instVarStat_out (st : State ℝ) (B S : Nat) (x : T3 ℝ) (hi : o.inst = true)
    (hS : 0 < S) (heps : 0 ≤ o.eps) (b : Nat) {j : Nat} (hj : j < o.irreps.numIrreps) :
    instVarStat o S (forwardCore o st B S x).2 b j
      = (if o.affine then st.weight j else 1) ^ 2 * instVarStat o S x b j / (instVarStat o S x b j + o.eps) := by
  have hl := layout_irv o.affine o.includeBias o.irreps 0 0 0 0 0 0
  have ht' := total_irv o.affine o.includeBias o.irreps 0 0 0 0 0 0
  have := cat_pointwise' (sz := fun blk => blk.mul) (pos := fun blk => blk.irv)
    (f := fun blk => sampleStat o S blk (centredInst o S (forwardCore o st B S x).2 blk) b)
    (g := fun blk => sampleStat o S blk (centredInst o S x blk) b)
    (fun j t => (if o.affine then st.weight j else 1) ^ 2 * t / (t + o.eps)) hl
    (fun blk hb u hu => by
      rw [sampleStat_out_inst st B S x hb hu hi hS heps]
      cases ha : o.affine
      · simp
      · have := iw_eq_irv o.includeBias o.irreps 0 0 0 0 0 0 blk (by
          have hb' : blk ∈ blocksFrom o.affine o.includeBias o.irreps 0 0 0 0 0 0 := hb
          rwa [ha] at hb')
        simp only [Nat.add_zero] at this
        simp [this])
    (j := j) (by rw [ht']; exact hj)
  simpa [instVarStat, blocks] using this

theorem instMeanStat_out (st : State ℝ) (B S : Nat) (x : T3 ℝ) (hi : o.inst = true)
    (hS : 0 < S) (b : Nat) {j : Nat} (hj : j < o.irreps.numScalar) :
    instMeanStat o S (forwardCore o st B S x).2 b j = if o.affine && o.includeBias then st.bias j else 0 := by
  have hl := layout_irm o.affine o.includeBias o.irreps 0 0 0 0 0 0
  have ht' := total_irm o.affine o.includeBias o.irreps 0 0 0 0 0 0
  have := cat_pointwise' (sz := fun blk => blk.mul) (pos := fun blk => blk.irm)
    (f := fun blk => instMean S (field (forwardCore o st B S x).2 blk) b)
    (g := fun blk => instMean S (field x blk) b)
    (fun j _ => if o.affine && o.includeBias then st.bias j else 0) hl
    (fun blk hb u hu => by
      have hb' := List.mem_filter.1 hb
      have hs : blk.isScalar = true := by simpa using hb'.2
      rw [instMean_out st B S x hb'.1 hu hi hS hs]
      simp only [biasTerm, hs, Bool.and_true]
      cases ha : o.affine <;> cases hib : o.includeBias <;> simp
      have := ib_eq_irm o.irreps 0 0 0 0 0 0 blk (by
        have hb'' : blk ∈ blocksFrom o.affine o.includeBias o.irreps 0 0 0 0 0 0 := hb'.1
        rwa [ha, hib] at hb'')
      simp only [Nat.add_zero] at this
      rw [this])
    (j := j) (by rw [ht']; exact hj)
  simpa [instMeanStat, blocks] using this

/-! ### eval mode -/

/-- eval mode, feature by feature: the affine map defined by the stored statistics and the parameters -/
theorem field_out_eval (st : State ℝ) (B S : Nat) (x : T3 ℝ) {blk : Block} (hb : blk ∈ blocks o) {u i : Nat}
    (hu : u < blk.mul) (hi' : i < blk.d) (ht : st.training = false) (hi : o.inst = false) (b s : Nat) :
    (forwardCore o st B S x).2 b s (blk.ix + u * blk.d + i)
      = (x b s (blk.ix + u * blk.d + i) - (if blk.isScalar then st.runningMean (blk.irm + u) else 0))
          * (1 / Real.sqrt (st.runningVar (blk.irv + u) + o.eps) * (if o.affine then st.weight (blk.iw + u) else 1))
        + (if o.affine && o.includeBias && blk.isScalar then st.bias (blk.ib + u) else 0) := by
  have := field_assemble o (blockOut o st B S x) hb b s hu hi'
  rw [← forwardCore_out] at this
  simp only [field] at this
  rw [this]
  simp only [blockOut, centredOf, centred, meanOf, normOf, scaleOf, ht, hi, one_real, Scalar.sqrt_real]
  cases o.affine <;> cases o.includeBias <;> cases blk.isScalar <;> simp [field]

end E3nnVerif.BN
