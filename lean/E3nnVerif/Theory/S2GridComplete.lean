import E3nnVerif.Model.S2Grid
/-
`_complete_lmax_res`: facts for ALL python ints / `None` (Engine B, no sampling).  Core Lean only.
-/
namespace E3nnVerif.S2Grid

/-- closed form of the three blocks: which branch produces what -/
theorem completeLmaxRes_cases (lmax res_beta res_alpha : Option Int) :
    completeLmaxRes lmax res_beta res_alpha =
      (match lmax, res_beta, res_alpha with
       | none, none, none => .error .valueError
       | some l, none, none =>
           if ¬ (l + 1 ≤ 2 * (l + 1) / 2) then .error .assertionError
           else .ok (l, 2 * (l + 1), max (2 * l + 1) (2 * (l + 1) - 1))
       | some l, none, some ra =>
           if ¬ (l + 1 ≤ 2 * (l + 1) / 2) then .error .assertionError else .ok (l, 2 * (l + 1), ra)
       | none, none, some ra =>
           .ok (min (2 * ((ra + 1) / 2) / 2 - 1) ((ra - 1) / 2), 2 * ((ra + 1) / 2), ra)
       | some l, some rb, none =>
           if rb % 2 ≠ 0 then .error .assertionError
           else if ¬ (l + 1 ≤ rb / 2) then .error .assertionError
           else .ok (l, rb, max (2 * l + 1) (rb - 1))
       | some l, some rb, some ra =>
           if rb % 2 ≠ 0 then .error .assertionError
           else if ¬ (l + 1 ≤ rb / 2) then .error .assertionError
           else .ok (l, rb, ra)
       | none, some rb, none =>
           if rb % 2 ≠ 0 then .error .assertionError
           else .ok (min (rb / 2 - 1) ((rb - 1 - 1) / 2), rb, rb - 1)
       | none, some rb, some ra =>
           if rb % 2 ≠ 0 then .error .assertionError
           else .ok (min (rb / 2 - 1) ((ra - 1) / 2), rb, ra)) := by
  cases lmax <;> cases res_beta <;> cases res_alpha <;>
    simp only [completeLmaxRes, completeBlock1, completeBlock2, completeBlock3] <;>
    (try split) <;> (try split) <;> (try rfl) <;> (try omega) <;> simp_all <;> omega


/-- the two asserted constraints hold for every returned triple, and whenever `lmax` or `res_alpha` was
left to the function the alpha resolution admits the band limit as well -/
theorem completeLmaxRes_ok (lmax res_beta res_alpha : Option Int) (l rb ra : Int)
    (h : completeLmaxRes lmax res_beta res_alpha = .ok (l, rb, ra)) :
    rb % 2 = 0 ∧ l + 1 ≤ rb / 2 ∧ (lmax = none ∨ res_alpha = none → 2 * l + 1 ≤ ra) ∧
    (∀ x, lmax = some x → l = x) ∧ (∀ x, res_beta = some x → rb = x) ∧ (∀ x, res_alpha = some x → ra = x) := by
  rw [completeLmaxRes_cases] at h
  cases lmax <;> cases res_beta <;> cases res_alpha <;> simp only [] at h <;>
    (try split at h) <;> (try split at h) <;> (try cases h) <;>
    refine ⟨?_, ?_, ?_, ?_, ?_, ?_⟩ <;> simp_all <;> omega

/-- a python `TypeError` (`None - 1`, `None % 2`) can never happen: the branches that would leave
`res_beta`/`res_alpha` undefined are dead -/
theorem completeLmaxRes_no_typeError (lmax res_beta res_alpha : Option Int) :
    completeLmaxRes lmax res_beta res_alpha ≠ .error .typeError ∧
    completeLmaxRes lmax res_beta res_alpha ≠ .error .runtimeError := by
  rw [completeLmaxRes_cases]
  cases lmax <;> cases res_beta <;> cases res_alpha <;> simp only [] <;>
    (try split) <;> (try split) <;> simp

/-- `ValueError` exactly when everything is `None` -/
theorem completeLmaxRes_valueError_iff (lmax res_beta res_alpha : Option Int) :
    completeLmaxRes lmax res_beta res_alpha = .error .valueError ↔
      lmax = none ∧ res_beta = none ∧ res_alpha = none := by
  rw [completeLmaxRes_cases]
  cases lmax <;> cases res_beta <;> cases res_alpha <;> simp only [] <;>
    (try split) <;> (try split) <;> simp

/-- `AssertionError` exactly when the resulting `res_beta` is odd, or a GIVEN `lmax` does not fit a GIVEN
`res_beta` -/
theorem completeLmaxRes_assertionError_iff (lmax res_beta res_alpha : Option Int) :
    completeLmaxRes lmax res_beta res_alpha = .error .assertionError ↔
      ∃ rb, res_beta = some rb ∧ (rb % 2 ≠ 0 ∨ ∃ l, lmax = some l ∧ rb / 2 < l + 1) := by
  rw [completeLmaxRes_cases]
  cases lmax <;> cases res_beta <;> cases res_alpha <;> simp only [] <;>
    (try split) <;> (try split) <;> simp_all <;> omega

end E3nnVerif.S2Grid
