/-
Helper lemmas for C06: blocks/dim/ls/count/slices/lmax/indexing/`*`/spherical_harmonics of the Irreps model.
-/
import E3nnVerif.Model.Irreps
import Mathlib.Data.List.Chain
import Mathlib.Data.List.Nodup
open E3nnVerif.Model.Irreps
namespace E3nnVerif.Theory.Irreps

/-! ### blocks, dim, ls, numIrreps -/

@[simp] theorem blocks_nil : blocks [] = [] := rfl
@[simp] theorem blocks_cons (e : MulIr) (x : Irreps) : blocks (e :: x) = List.replicate e.1 e.2 ++ blocks x := by
  simp [blocks]
@[simp] theorem blocks_append (x y : Irreps) : blocks (x ++ y) = blocks x ++ blocks y := by
  simp [blocks]
@[simp] theorem dim_nil : dim [] = 0 := rfl
@[simp] theorem dim_cons (e : MulIr) (x : Irreps) : dim (e :: x) = e.1 * e.2.dim + dim x := by
  simp [dim]
@[simp] theorem dim_append (x y : Irreps) : dim (x ++ y) = dim x + dim y := by
  simp [dim]
@[simp] theorem numIrreps_nil : numIrreps [] = 0 := rfl
@[simp] theorem numIrreps_cons (e : MulIr) (x : Irreps) : numIrreps (e :: x) = e.1 + numIrreps x := by
  simp [numIrreps]

theorem sum_map_replicate {α} (f : α → Nat) (n : Nat) (a : α) : ((List.replicate n a).map f).sum = n * f a := by
  induction n with
  | zero => simp
  | succ n ih => simp [List.replicate_succ, Nat.succ_mul, Nat.add_comm]

theorem dim_eq_blocks (x : Irreps) : dim x = ((blocks x).map Irrep.dim).sum := by
  induction x with
  | nil => rfl
  | cons e x ih => simp [ih]

theorem numIrreps_eq_blocks (x : Irreps) : numIrreps x = (blocks x).length := by
  induction x with
  | nil => rfl
  | cons e x ih => simp [ih]

theorem ls_eq_blocks (x : Irreps) : ls x = (blocks x).map (·.l) := by
  induction x with
  | nil => rfl
  | cons e x ih => simp [ls, blocks, List.map_flatMap] 

theorem count_eq_blocks (x : Irreps) (ir : Irrep) : count x ir = (blocks x).count ir := by
  induction x with
  | nil => rfl
  | cons e x ih =>
    have : count (e :: x) ir = (if ir = e.2 then e.1 else 0) + count x ir := by simp [count]
    rw [this, ih, blocks_cons, List.count_append, List.count_replicate]
    by_cases h : ir = e.2
    · subst h; simp
    · have h' : ¬ (e.2 = ir) := fun e' => h e'.symm
      simp [h, h']

theorem contains_iff (x : Irreps) (ir : Irrep) : contains x ir = true ↔ ∃ m, (m, ir) ∈ x := by
  simp only [contains, List.any_eq_true, decide_eq_true_eq]
  constructor
  · rintro ⟨⟨m, i⟩, hm, rfl⟩; exact ⟨m, hm⟩
  · rintro ⟨m, hm⟩; exact ⟨(m, ir), hm, rfl⟩

/-! ### slices -/

theorem slicesAux_length (i : Nat) (x : Irreps) : (slicesAux i x).length = x.length := by
  induction x generalizing i with
  | nil => rfl
  | cons e x ih => simp [slicesAux, ih]

theorem slicesAux_getElem (i : Nat) (x : Irreps) (k : Nat) (hk : k < x.length) :
    (slicesAux i x)[k]'(by rw [slicesAux_length]; exact hk) = (i + dim (x.take k), i + dim (x.take (k + 1))) := by
  induction x generalizing i k with
  | nil => simp at hk
  | cons e x ih =>
    cases k with
    | zero => simp [slicesAux]
    | succ k =>
      simp only [slicesAux, List.getElem_cons_succ, List.take_succ_cons, dim_cons]
      rw [ih (i + e.1 * e.2.dim) k (by simpa using hk)]
      simp [Nat.add_assoc]

theorem sum_odd_range' (s n : Nat) : ((List.range' s n).map (fun l => 2 * l + 1)).sum = n * (2 * s + n) := by
  induction n generalizing s with
  | zero => simp
  | succ n ih =>
    rw [List.range'_succ, List.map_cons, List.sum_cons, ih]
    grind


/-! ### lmax -/

theorem foldl_max_ge (r : List Nat) (a : Nat) : a ≤ r.foldl max a ∧ ∀ b ∈ r, b ≤ r.foldl max a := by
  induction r generalizing a with
  | nil => simp
  | cons c r ih =>
    simp only [List.foldl_cons, List.mem_cons, forall_eq_or_imp]
    obtain ⟨h1, h2⟩ := ih (max a c)
    exact ⟨by omega, by omega, h2⟩

theorem foldl_max_mem (r : List Nat) (a : Nat) : r.foldl max a ∈ a :: r := by
  induction r generalizing a with
  | nil => simp
  | cons c r ih =>
    simp only [List.foldl_cons]
    have := ih (max a c)
    rcases List.mem_cons.mp this with h | h
    · rw [h]
      rcases Nat.le_total a c with hac | hac
      · simp [Nat.max_eq_right hac]
      · simp [Nat.max_eq_left hac]
    · simp [h]

theorem blocks_eq_nil_iff (x : Irreps) : blocks x = [] ↔ ∀ e ∈ x, e.1 = 0 := by
  induction x with
  | nil => simp
  | cons e x ih => simp [ih, List.replicate_eq_nil_iff]

theorem lmax_eq_ok_iff (x : Irreps) (m : Nat) :
    lmax x = .ok m ↔ (∃ ir ∈ blocks x, ir.l = m) ∧ ∀ ir ∈ blocks x, ir.l ≤ m := by
  unfold lmax
  split
  · next h =>
    have : x = [] := List.eq_nil_of_length_eq_zero h
    subst this; simp
  · rw [ls_eq_blocks]
    cases hb : blocks x with
    | nil => simp
    | cons b r =>
      simp only [List.map_cons, Except.ok.injEq]
      have hge := foldl_max_ge (r.map (·.l)) b.l
      have hmem := foldl_max_mem (r.map (·.l)) b.l
      constructor
      · rintro rfl
        refine ⟨?_, ?_⟩
        · rcases List.mem_cons.mp hmem with h | h
          · exact ⟨b, by simp, h.symm⟩
          · obtain ⟨ir, hir, e⟩ := List.mem_map.mp h
            exact ⟨ir, by simp [hir], e⟩
        · intro ir hir
          rcases List.mem_cons.mp hir with rfl | hir
          · exact hge.1
          · exact hge.2 _ (List.mem_map.mpr ⟨ir, hir, rfl⟩)
      · rintro ⟨⟨ir, hir, rfl⟩, hall⟩
        apply Nat.le_antisymm
        · rcases List.mem_cons.mp hmem with h | h
          · rw [h]; exact hall b (by simp)
          · obtain ⟨jr, hjr, e⟩ := List.mem_map.mp h
            rw [← e]; exact hall jr (by simp [hjr])
        · rcases List.mem_cons.mp hir with rfl | hir
          · exact hge.1
          · exact hge.2 _ (List.mem_map.mpr ⟨ir, hir, rfl⟩)

theorem lmax_error_empty_iff (x : Irreps) : lmax x = .error .valueLmaxEmpty ↔ x = [] := by
  unfold lmax
  split
  · next h => simp [List.eq_nil_of_length_eq_zero h]
  · next h =>
    have : x ≠ [] := fun e => h (by simp [e])
    split <;> simp [this]

theorem lmax_error_max_iff (x : Irreps) : lmax x = .error .valueMaxEmpty ↔ x ≠ [] ∧ ∀ e ∈ x, e.1 = 0 := by
  unfold lmax
  split
  · next h => simp [List.eq_nil_of_length_eq_zero h]
  · next h =>
    have hx : x ≠ [] := fun e => h (by simp [e])
    rw [ls_eq_blocks, ← blocks_eq_nil_iff]
    cases hb : blocks x <;> simp [hx]

/-! ### indexing -/

theorem getItem_nonneg (x : Irreps) (i : Nat) (h : i < x.length) : getItem x (i : Int) = .ok x[i] := by
  unfold getItem
  simp only
  have h1 : ¬ ((i : Int) < 0) := by omega
  rw [if_neg h1]
  have : ¬ ((i : Int) < 0 ∨ (x.length : Int) ≤ i) := by omega
  rw [if_neg this]
  simp [List.getElem?_eq_getElem h]

theorem getItem_neg (x : Irreps) (i : Nat) (h0 : 0 < i) (h : i ≤ x.length) :
    getItem x (-(i : Int)) = .ok (x[x.length - i]'(by omega)) := by
  unfold getItem
  simp only
  have h1 : (-(i : Int) < 0) := by omega
  rw [if_pos h1]
  have : ¬ (-(i : Int) + (x.length : Int) < 0 ∨ (x.length : Int) ≤ -(i : Int) + x.length) := by omega
  rw [if_neg this]
  have : (-(i : Int) + (x.length : Int)).toNat = x.length - i := by omega
  rw [this]
  have hlt : x.length - i < x.length := by omega
  simp [List.getElem?_eq_getElem hlt]

theorem getItem_error_iff (x : Irreps) (i : Int) :
    getItem x i = .error .index ↔ i < -(x.length : Int) ∨ (x.length : Int) ≤ i := by
  unfold getItem
  simp only
  split
  · next h1 =>
    split
    · next h2 => simp; omega
    · next h2 =>
      have hlt : (i + (x.length : Int)).toNat < x.length := by omega
      simp [List.getElem?_eq_getElem hlt]; omega
  · next h1 =>
    split
    · next h2 => simp; omega
    · next h2 =>
      have hlt : i.toNat < x.length := by omega
      simp [List.getElem?_eq_getElem hlt]; omega


/-! ### slices `x[a:b:c]` -/

theorem filterMap_range_getElem? {α} (x : List α) (s cnt : Nat) (h : s + cnt ≤ x.length) :
    (List.range cnt).filterMap (fun k => x[s + k]?) = (x.drop s).take cnt := by
  induction cnt with
  | zero => simp
  | succ c ih =>
    have hlt : s + c < x.length := by omega
    rw [List.range_succ, List.filterMap_append, ih (by omega)]
    simp only [List.filterMap_cons, List.filterMap_nil, List.getElem?_eq_getElem hlt]
    rw [List.take_add_one]
    simp [List.getElem?_drop, List.getElem?_eq_getElem hlt]

/-- Python's normalisation of a slice bound for a positive step: negative bounds count from the end, then
everything is clamped into `[0, n]` -/
def clampIdx (n : Nat) (k : Int) : Nat := if k < 0 then (k + n).toNat else min k.toNat n

theorem adjustBound_pos (n : Nat) (k : Int) : adjustBound (n : Int) false k = (clampIdx n k : Int) := by
  unfold adjustBound clampIdx
  simp only [Bool.false_eq_true, if_false]
  split
  · split <;> omega
  · split <;> omega

def loBound (n : Nat) : Option Int → Nat
  | none => 0
  | some k => clampIdx n k
def hiBound (n : Nat) : Option Int → Nat
  | none => n
  | some k => clampIdx n k

theorem clampIdx_le (n : Nat) (k : Int) : clampIdx n k ≤ n := by
  unfold clampIdx; split <;> omega

theorem loBound_le (n : Nat) (o : Option Int) : loBound n o ≤ n := by
  cases o <;> simp [loBound, clampIdx_le]
theorem hiBound_le (n : Nat) (o : Option Int) : hiBound n o ≤ n := by
  cases o <;> simp [hiBound, clampIdx_le]

theorem sliceIndices_step_one (n : Nat) (start stop : Option Int) :
    sliceIndices n start stop none = .ok ((loBound n start : Int), 1, hiBound n stop - loBound n start) := by
  unfold sliceIndices
  simp only [Option.getD_none, show ¬ ((1 : Int) = 0) by omega, if_false, show ¬ ((1:Int) < 0) by omega,
    decide_false, Bool.false_eq_true, Int.ediv_one]
  cases start <;> cases stop <;> simp only [loBound, hiBound, adjustBound_pos] <;> congr 3 <;> split <;> omega

/-- complete description of `x[start:stop]` (step omitted or 1) for arbitrary, possibly negative or
out-of-range, possibly absent bounds -/
theorem getSlice_step_one (x : Irreps) (start stop : Option Int) :
    getSlice x start stop none
      = .ok ((x.drop (loBound x.length start)).take (hiBound x.length stop - loBound x.length start)) := by
  unfold getSlice
  rw [sliceIndices_step_one]
  simp only
  have : ∀ k : Nat, ((loBound x.length start : Int) + (k : Int) * 1).toNat = loBound x.length start + k := by
    intro k; omega
  simp only [this]
  have hhi := hiBound_le x.length stop
  have hlo := loBound_le x.length start
  rw [filterMap_range_getElem? x _ _ (by omega)]

theorem getSlice_all (x : Irreps) : getSlice x none none none = .ok x := by
  rw [getSlice_step_one]; simp [loBound, hiBound]

/-- `x[:k] + x[k:] == x` for every integer `k` -/
theorem getSlice_prefix_suffix (x : Irreps) (k : Int) :
    getSlice x none (some k) none = .ok (x.take (clampIdx x.length k)) ∧
    getSlice x (some k) none none = .ok (x.drop (clampIdx x.length k)) ∧
    x.take (clampIdx x.length k) ++ x.drop (clampIdx x.length k) = x := by
  refine ⟨?_, ?_, List.take_append_drop _ _⟩
  · rw [getSlice_step_one]; simp [loBound, hiBound]
  · rw [getSlice_step_one]; simp [loBound, hiBound, List.take_of_length_le]

theorem getSlice_step_zero (x : Irreps) (a b : Option Int) : getSlice x a b (some 0) = .error .value := by
  simp [getSlice, sliceIndices]

theorem getSlice_reverse (x : Irreps) : getSlice x none none (some (-1)) = .ok x.reverse := by
  unfold getSlice sliceIndices
  simp only [Option.getD_some, show ¬ ((-1 : Int) = 0) by omega, if_false, show ((-1:Int) < 0) by omega,
    decide_true, if_true]
  have hc : (if (-1 : Int) < (x.length : Int) - 1 then (((x.length : Int) - 1 - -1 - 1) / (- -1)).toNat + 1 else 0) = x.length := by
    split
    · simp; omega
    · omega
  rw [hc]
  simp only [Except.ok.injEq]
  have h1 : ((List.range x.length).filterMap (fun (k : Nat) => x[((x.length : Int) - 1 + (k : Int) * -1).toNat]?))
      = (List.range x.length).map (fun k => x.getD (x.length - 1 - k) default) := by
    rw [← List.filterMap_eq_map]
    apply List.filterMap_congr
    intro k hk
    have hk' : k < x.length := by simpa using hk
    have e : ((x.length : Int) - 1 + (k : Int) * -1).toNat = x.length - 1 - k := by omega
    have hlt : x.length - 1 - k < x.length := by omega
    show x[((x.length : Int) - 1 + (k : Int) * -1).toNat]? = _
    rw [e]
    simp [List.getD_eq_getElem?_getD, List.getElem?_eq_getElem hlt]
  rw [h1]
  apply List.ext_getElem
  · simp
  · intro i hi1 hi2
    have hi : i < x.length := by simpa using hi2
    have hlt : x.length - 1 - i < x.length := by omega
    simp [List.getD_eq_getElem?_getD, List.getElem?_eq_getElem hlt]

/-! ### `*` by an int, spherical harmonics -/

theorem blocks_repeatList (n : Nat) (x : Irreps) :
    blocks (repeatList n x) = (List.replicate n (blocks x)).flatten := by
  induction n with
  | zero => rfl
  | succ n ih => simp [repeatList, ih, List.replicate_succ]

theorem dim_repeatList (n : Nat) (x : Irreps) : dim (repeatList n x) = n * dim x := by
  induction n with
  | zero => simp [repeatList]
  | succ n ih => simp [repeatList, ih, Nat.succ_mul, Nat.add_comm]

theorem mulInt_nonpos (x : Irreps) (n : Int) (h : n ≤ 0) : mulInt x n = [] := by
  have : n.toNat = 0 := by omega
  simp [mulInt, this, repeatList]

theorem dim_sphericalHarmonics (lmax : Nat) (p : Parity) :
    dim (sphericalHarmonics (lmax : Int) p) = (lmax + 1) * (lmax + 1) := by
  have : ((lmax : Int) + 1).toNat = lmax + 1 := by omega
  simp only [sphericalHarmonics, this, dim, List.map_map]
  have h := sum_odd_range' 0 (lmax + 1)
  rw [← List.range_eq_range'] at h
  simpa [Function.comp_def, Irrep.dim] using h


end E3nnVerif.Theory.Irreps
